(* Props/C02F.v -- C02 on the converter fragment: the quantifier over SCHEMAS is
   a theorem.  Statements only (proofs: Proofs/ConvertProofs.v, ConvertShapeProofs.v,
   ConvertCoversProofs.v; model:
   Algo/Convert.v; report: notes/Convert.md).

   For every document D of the fragment ([in_frag cls D = true]: scalars,
   integer formats, string enums, objects with properties/required and
   additionalProperties absent|true|false, maps, arrays, "$ref" to definitions,
   nullable `type: [T, "null"]`, alias definitions; all type names distinct; the
   by-value reference graph acyclic) the modelled converter succeeds
   (C02F_convert_total), the proven validator of C02 answers `true` on the type
   space it produces (C02F_convert_covers), hence every instance valid for a
   definition deserialises into the type generated for it
   (C02F_fragment_sound) - for ALL documents of the fragment and ALL instances,
   without exploring any.  The model is tied to the real converter by
   py/convert_check.py on every run (exact equality of type spaces). *)
From Coq Require Import String ZArith NArith QArith List Bool.
From Typify Require Import Base.Json Spec.Schema Spec.Valid IR.TypeIR IR.Serde Check.Covers.
From Typify Require Algo.Heck Algo.Sanitize.
From Typify Require Import Algo.Convert Proofs.ConvertProofs Proofs.ConvertCoversProofs.
Import ListNotations.
Close Scope Q_scope.
Close Scope string_scope.
Open Scope list_scope.

(* the supported fragment is never rejected (on the model) *)
Theorem C02F_convert_total :
  forall (cls : Heck.CharClasses) (D : defs),
    in_frag cls D = true -> convert_doc cls D <> None.
Proof. exact convert_total. Qed.

(* the validator succeeds on EVERY document of the fragment *)
Theorem C02F_convert_covers :
  forall (cls : Heck.CharClasses) (re native : ustring -> ustring -> bool) (D : defs) (T : space),
    in_frag cls D = true -> convert_doc cls D = Some T ->
    covers_all re native D T (pairs_of D) = true.
Proof. exact convert_covers. Qed.

(* ... hence: every schema-valid instance deserialises, for every definition of
   every document of the fragment *)
Theorem C02F_fragment_sound :
  forall (cls : Heck.CharClasses) (re fmt_ok native : ustring -> ustring -> bool) (D : defs) (T : space),
    (forall f n s, In (f, n) format_native_table -> fmt_ok f s = true -> native n s = true) ->
    in_frag cls D = true -> convert_doc cls D = Some T ->
    forall r t, In (r, t) (pairs_of D) ->
    forall v, in_dom v = true ->
    Valid re fmt_ok D (SRef r) v ->
    exists f, de re native T f t v <> None.
Proof. exact fragment_sound. Qed.

(* the pairs cover every definition of the document *)
Theorem C02F_pairs_complete :
  forall (D : defs) r s, In (r, s) D -> exists t, In (r, t) (pairs_of D).
Proof. exact pairs_complete. Qed.

(* ------------------------------------------------------------------ non-vacuity
   D_ex: a recursive tree (recursion through an array), a string enum with a
   renamed variant, a nullable member, a map of int32, a closed inline struct,
   an alias definition of a nullable string.  T_ex is the type space the REAL
   typify produced for it (corpus/convert/example_tree.json, compared again on
   every run by py/convert_check.py). *)
Definition D_ex : defs := [([67; 111; 108; 111; 114]%N, (SObj (Some [TString]) None (Some [(JStr [114; 101; 100]%N); (JStr [100; 97; 114; 107; 45; 98; 108; 117; 101]%N)]) None (mkNumv None None None None None) (mkStrv None None None) ItemsAbsent (@nil schema) None None None false (@nil (ustring * schema)) (@nil ustring) None None None None None None None None None None)); ([78; 111; 100; 101]%N, (SObj (Some [TObject]) None None None (mkNumv None None None None None) (mkStrv None None None) ItemsAbsent (@nil schema) None None None false [([99; 104; 105; 108; 100; 114; 101; 110]%N, (SObj (Some [TArray]) None None None (mkNumv None None None None None) (mkStrv None None None) ItemsSingle [(SObj None None None None (mkNumv None None None None None) (mkStrv None None None) ItemsAbsent (@nil schema) None None None false (@nil (ustring * schema)) (@nil ustring) None None None None None None None (Some [78; 111; 100; 101]%N) None None)] None None None false (@nil (ustring * schema)) (@nil ustring) None None None None None None None None None None)); ([99; 111; 108; 111; 114]%N, (SObj None None None None (mkNumv None None None None None) (mkStrv None None None) ItemsAbsent (@nil schema) None None None false (@nil (ustring * schema)) (@nil ustring) None None None None None None None (Some [67; 111; 108; 111; 114]%N) None None)); ([108; 97; 98; 101; 108]%N, (SObj (Some [TString; TNull]) None None None (mkNumv None None None None None) (mkStrv None None None) ItemsAbsent (@nil schema) None None None false (@nil (ustring * schema)) (@nil ustring) None None None None None None None None None None)); ([109; 101; 116; 97]%N, (SObj (Some [TObject]) None None None (mkNumv None None None None None) (mkStrv None None None) ItemsAbsent (@nil schema) None None None false (@nil (ustring * schema)) (@nil ustring) (Some (SObj (Some [TInteger]) (Some [105; 110; 116; 51; 50]%N) None None (mkNumv None None None None None) (mkStrv None None None) ItemsAbsent (@nil schema) None None None false (@nil (ustring * schema)) (@nil ustring) None None None None None None None None None None)) None None None None None None None None None)); ([112; 111; 115]%N, (SObj (Some [TObject]) None None None (mkNumv None None None None None) (mkStrv None None None) ItemsAbsent (@nil schema) None None None false [([120]%N, (SObj (Some [TNumber]) None None None (mkNumv None None None None None) (mkStrv None None None) ItemsAbsent (@nil schema) None None None false (@nil (ustring * schema)) (@nil ustring) None None None None None None None None None None)); ([121]%N, (SObj (Some [TNumber]) None None None (mkNumv None None None None None) (mkStrv None None None) ItemsAbsent (@nil schema) None None None false (@nil (ustring * schema)) (@nil ustring) None None None None None None None None None None))] [[120]%N; [121]%N] (Some (SBool false)) None None None None None None None None None))] [[99; 111; 108; 111; 114]%N] None None None None None None None None None None)); ([84; 97; 103]%N, (SObj (Some [TString; TNull]) None None None (mkNumv None None None None None) (mkStrv None None None) ItemsAbsent (@nil schema) None None None false (@nil (ustring * schema)) (@nil ustring) None None None None None None None None None None))].
Definition T_ex : space := (mkSpace [(1%N, (mkEntry (DEnum [67; 111; 108; 111; 114]%N None TagExternal [(mkVariant [114; 101; 100]%N [82; 101; 100]%N VSimple); (mkVariant [100; 97; 114; 107; 45; 98; 108; 117; 101]%N [68; 97; 114; 107; 66; 108; 117; 101]%N VSimple)] false [AllSimpleVariants]) (@nil ustring))); (2%N, (mkEntry (DStruct [78; 111; 100; 101]%N None [(mkProp [99; 104; 105; 108; 100; 114; 101; 110]%N RNone POptional 4%N); (mkProp [99; 111; 108; 111; 114]%N RNone PRequired 1%N); (mkProp [108; 97; 98; 101; 108]%N RNone POptional 6%N); (mkProp [109; 101; 116; 97]%N RNone POptional 8%N); (mkProp [112; 111; 115]%N RNone POptional 11%N)] false) (@nil ustring))); (3%N, (mkEntry (DNewtype [84; 97; 103]%N None 6%N CNone) (@nil ustring))); (4%N, (mkEntry (DVec 2%N) (@nil ustring))); (5%N, (mkEntry DString (@nil ustring))); (6%N, (mkEntry (DOption 5%N) (@nil ustring))); (7%N, (mkEntry (DInteger [105; 51; 50]%N) (@nil ustring))); (8%N, (mkEntry (DMap 5%N 7%N) (@nil ustring))); (9%N, (mkEntry (DFloat [102; 54; 52]%N) (@nil ustring))); (10%N, (mkEntry (DStruct [78; 111; 100; 101; 80; 111; 115]%N None [(mkProp [120]%N RNone PRequired 9%N); (mkProp [121]%N RNone PRequired 9%N)] true) (@nil ustring))); (11%N, (mkEntry (DOption 10%N) (@nil ustring)))] 12%N (mkSettings None (@nil ustring) false [58; 58; 32; 115; 116; 100; 32; 58; 58; 32; 99; 111; 108; 108; 101; 99; 116; 105; 111; 110; 115; 32; 58; 58; 32; 72; 97; 115; 104; 77; 97; 112]%N) false false false false (@nil ustring)).
Definition v_ex : json := (JObj [([99; 104; 105; 108; 100; 114; 101; 110]%N, (JArr [(JObj [([99; 104; 105; 108; 100; 114; 101; 110]%N, (JArr (@nil json))); ([99; 111; 108; 111; 114]%N, (JStr [100; 97; 114; 107; 45; 98; 108; 117; 101]%N))])])); ([99; 111; 108; 111; 114]%N, (JStr [114; 101; 100]%N)); ([108; 97; 98; 101; 108]%N, JNull); ([109; 101; 116; 97]%N, (JObj [([97]%N, (JInt (1)%Z))])); ([112; 111; 115]%N, (JObj [([120]%N, (JInt (1)%Z)); ([121]%N, (JFlt (Qmake (5)%Z 2%positive)))]))]).
Definition D_reuse : defs := [([70; 79; 79; 95; 66; 65; 82]%N, (SObj (Some [TObject]) None None None (mkNumv None None None None None) (mkStrv None None None) ItemsAbsent (@nil schema) None None None false [([122]%N, (SObj (Some [TBoolean]) None None None (mkNumv None None None None None) (mkStrv None None None) ItemsAbsent (@nil schema) None None None false (@nil (ustring * schema)) (@nil ustring) None None None None None None None None None None))] [[122]%N] None None None None None None None None None None)); ([70; 111; 111]%N, (SObj (Some [TObject]) None None None (mkNumv None None None None None) (mkStrv None None None) ItemsAbsent (@nil schema) None None None false [([98; 97; 114]%N, (SObj (Some [TObject]) None None None (mkNumv None None None None None) (mkStrv None None None) ItemsAbsent (@nil schema) None None None false [([107]%N, (SObj (Some [TInteger]) None None None (mkNumv None None None None None) (mkStrv None None None) ItemsAbsent (@nil schema) None None None false (@nil (ustring * schema)) (@nil ustring) None None None None None None None None None None))] [[107]%N] None None None None None None None None None None))] [[98; 97; 114]%N] None None None None None None None None None None))].
Definition T_reuse : space := (mkSpace [(1%N, (mkEntry (DStruct [70; 111; 111; 66; 97; 114]%N None [(mkProp [122]%N RNone PRequired 3%N)] false) (@nil ustring))); (2%N, (mkEntry (DStruct [70; 111; 111]%N None [(mkProp [98; 97; 114]%N RNone PRequired 1%N)] false) (@nil ustring))); (3%N, (mkEntry DBoolean (@nil ustring))); (4%N, (mkEntry (DInteger [105; 54; 52]%N) (@nil ustring)))] 5%N (mkSettings None (@nil ustring) false [58; 58; 32; 115; 116; 100; 32; 58; 58; 32; 99; 111; 108; 108; 101; 99; 116; 105; 111; 110; 115; 32; 58; 58; 32; 72; 97; 115; 104; 77; 97; 112]%N) false false false false (@nil ustring)).
Definition v_reuse : json := (JObj [([98; 97; 114]%N, (JObj [([107]%N, (JInt (1)%Z))]))]).
Definition D_cycle : defs := [([65]%N, (SObj (Some [TObject]) None None None (mkNumv None None None None None) (mkStrv None None None) ItemsAbsent (@nil schema) None None None false [([110; 101; 120; 116]%N, (SObj None None None None (mkNumv None None None None None) (mkStrv None None None) ItemsAbsent (@nil schema) None None None false (@nil (ustring * schema)) (@nil ustring) None None None None None None None (Some [65]%N) None None))] (@nil ustring) None None None None None None None None None None))].

Definition no_re : ustring -> ustring -> bool := fun _ _ => false.

Example C02F_ex_in_frag : in_frag Sanitize.ascii_classes D_ex = true.
Proof. vm_compute. reflexivity. Qed.

Example C02F_ex_convert : convert_doc Sanitize.ascii_classes D_ex = Some T_ex.
Proof. vm_compute. reflexivity. Qed.

Example C02F_ex_valid : Valid no_re no_re D_ex (SRef [78; 111; 100; 101]%N) v_ex.
Proof. exists 3%nat. split; vm_compute; reflexivity. Qed.

Example C02F_ex_accepted : exists f, de no_re no_re T_ex f 2%N v_ex <> None.
Proof.
  apply (C02F_fragment_sound Sanitize.ascii_classes no_re no_re no_re D_ex T_ex) with (r := [78; 111; 100; 101]%N).
  - intros f n s _ H. discriminate H.
  - exact C02F_ex_in_frag.
  - exact C02F_ex_convert.
  - vm_compute. right. left. reflexivity.
  - vm_compute. reflexivity.
  - exact C02F_ex_valid.
Qed.

(* the concrete evaluation agrees (and the result is a struct value) *)
Example C02F_ex_accepted_concrete : de no_re no_re T_ex 20 2%N v_ex <> None.
Proof. vm_compute. discriminate. Qed.

(* ------------------------------------------------------------------ why the fragment asks for distinct type names
   Definition `FOO_BAR` and the inline object `Foo.bar` both get the type name
   `FooBar`; assign_type reuses the id registered under that name WITHOUT
   comparing the types (lib.rs:981-987), so member `bar` of `Foo` has the type of
   `FOO_BAR`.  The document is outside the fragment; the model reproduces the
   real type space exactly (T_reuse is the real dump), the validator refuses
   it, and the instance {"bar":{"k":1}} - valid for `Foo` - is rejected by the
   generated type at every fuel tried: a genuine violation of C02 by the real
   code (corpus/convert/name_reuse_witness.json). *)
Example C02F_reuse_out : in_frag Sanitize.ascii_classes D_reuse = false.
Proof. vm_compute. reflexivity. Qed.

Example C02F_reuse_model_exact : convert_doc Sanitize.ascii_classes D_reuse = Some T_reuse.
Proof. vm_compute. reflexivity. Qed.

Example C02F_reuse_not_covered : covers_all no_re no_re D_reuse T_reuse (pairs_of D_reuse) = false.
Proof. vm_compute. reflexivity. Qed.

Example C02F_reuse_valid_rejected :
  verdict no_re no_re D_reuse 3 (SRef [70; 111; 111]%N) v_reuse = Some true /\
  in_dom v_reuse = true /\
  de no_re no_re T_reuse 30 2%N v_reuse = None.
Proof. vm_compute. repeat split; reflexivity. Qed.

(* ------------------------------------------------------------------ constrained strings, plain array lengths
   `Name`: a string newtype with minLength / maxLength / pattern (definition position), `P.code`: an inline one
   (derived name `PCode`), `P.names`: an array with minItems / maxItems (a Vec).  T_str is the real dump
   (corpus/convert/strings_example.json).  The regex engine is a parameter of the theorems; here
   `always` answers true. *)
Definition D_str : defs := [([78; 97; 109; 101]%N, (SObj (Some [TString]) None None None (mkNumv None None None None None) (mkStrv (Some 3%N) (Some 1%N) (Some [94; 97; 98]%N)) ItemsAbsent (@nil schema) None None None false (@nil (ustring * schema)) (@nil ustring) None None None None None None None None None None)); ([80]%N, (SObj (Some [TObject]) None None None (mkNumv None None None None None) (mkStrv None None None) ItemsAbsent (@nil schema) None None None false [([99; 111; 100; 101]%N, (SObj (Some [TString]) None None None (mkNumv None None None None None) (mkStrv (Some 2%N) None None) ItemsAbsent (@nil schema) None None None false (@nil (ustring * schema)) (@nil ustring) None None None None None None None None None None)); ([110; 97; 109; 101; 115]%N, (SObj (Some [TArray]) None None None (mkNumv None None None None None) (mkStrv None None None) ItemsSingle [(SObj None None None None (mkNumv None None None None None) (mkStrv None None None) ItemsAbsent (@nil schema) None None None false (@nil (ustring * schema)) (@nil ustring) None None None None None None None (Some [78; 97; 109; 101]%N) None None)] None (Some 1%N) (Some 5%N) false (@nil (ustring * schema)) (@nil ustring) None None None None None None None None None None))] [[99; 111; 100; 101]%N] None None None None None None None None None None))].
Definition T_str : space := (mkSpace [(1%N, (mkEntry (DNewtype [78; 97; 109; 101]%N None 3%N (CString (Some 3%N) (Some 1%N) (Some [94; 97; 98]%N))) (@nil ustring))); (2%N, (mkEntry (DStruct [80]%N None [(mkProp [99; 111; 100; 101]%N RNone PRequired 4%N); (mkProp [110; 97; 109; 101; 115]%N RNone POptional 5%N)] false) (@nil ustring))); (3%N, (mkEntry DString (@nil ustring))); (4%N, (mkEntry (DNewtype [80; 67; 111; 100; 101]%N None 3%N (CString (Some 2%N) None None)) (@nil ustring))); (5%N, (mkEntry (DVec 1%N) (@nil ustring)))] 6%N (mkSettings None (@nil ustring) false [58; 58; 32; 115; 116; 100; 32; 58; 58; 32; 99; 111; 108; 108; 101; 99; 116; 105; 111; 110; 115; 32; 58; 58; 32; 72; 97; 115; 104; 77; 97; 112]%N) false false false true (@nil ustring)).
Definition v_str_ok : json := (JObj [([99; 111; 100; 101]%N, (JStr [120; 121]%N)); ([110; 97; 109; 101; 115]%N, (JArr [(JStr [97; 98]%N); (JStr [97; 98; 99]%N)]))]).
Definition always : ustring -> ustring -> bool := fun _ _ => true.

Example C02F_str_in_frag : in_frag Sanitize.ascii_classes D_str = true.
Proof. vm_compute. reflexivity. Qed.

Example C02F_str_convert : convert_doc Sanitize.ascii_classes D_str = Some T_str.
Proof. vm_compute. reflexivity. Qed.

Example C02F_str_accepted : exists f, de always no_re T_str f 2%N v_str_ok <> None.
Proof.
  apply (C02F_fragment_sound Sanitize.ascii_classes always no_re no_re D_str T_str) with (r := [80]%N).
  - intros f n s _ H. discriminate H.
  - exact C02F_str_in_frag.
  - exact C02F_str_convert.
  - vm_compute. right. left. reflexivity.
  - vm_compute. reflexivity.
  - exists 3%nat. split; vm_compute; reflexivity.
Qed.

(* ------------------------------------------------------------------ integer bounds
   `Byte` (0..255 -> u8), `M.count` (uint8 with minimum 1 -> NonZeroU8), `M.delta`
   (exclusiveMinimum -129, maximum 127 -> i8), `M.big` (10..20 -> i64).  T_int is the real dump
   (corpus/convert/int_bounds_example.json). *)
Definition D_int : defs := [([66; 121; 116; 101]%N, (SObj (Some [TInteger]) None None None (mkNumv None (Some (Qmake (255)%Z 1%positive)) None (Some (Qmake (0)%Z 1%positive)) None) (mkStrv None None None) ItemsAbsent (@nil schema) None None None false (@nil (ustring * schema)) (@nil ustring) None None None None None None None None None None)); ([77]%N, (SObj (Some [TObject]) None None None (mkNumv None None None None None) (mkStrv None None None) ItemsAbsent (@nil schema) None None None false [([98; 105; 103]%N, (SObj (Some [TInteger]) None None None (mkNumv None (Some (Qmake (20)%Z 1%positive)) None (Some (Qmake (10)%Z 1%positive)) None) (mkStrv None None None) ItemsAbsent (@nil schema) None None None false (@nil (ustring * schema)) (@nil ustring) None None None None None None None None None None)); ([99; 111; 117; 110; 116]%N, (SObj (Some [TInteger]) (Some [117; 105; 110; 116; 56]%N) None None (mkNumv None (Some (Qmake (200)%Z 1%positive)) None (Some (Qmake (1)%Z 1%positive)) None) (mkStrv None None None) ItemsAbsent (@nil schema) None None None false (@nil (ustring * schema)) (@nil ustring) None None None None None None None None None None)); ([100; 101; 108; 116; 97]%N, (SObj (Some [TInteger]) None None None (mkNumv None (Some (Qmake (127)%Z 1%positive)) None None (Some (Qmake (-129)%Z 1%positive))) (mkStrv None None None) ItemsAbsent (@nil schema) None None None false (@nil (ustring * schema)) (@nil ustring) None None None None None None None None None None))] [[99; 111; 117; 110; 116]%N] None None None None None None None None None None))].
Definition T_int : space := (mkSpace [(1%N, (mkEntry (DNewtype [66; 121; 116; 101]%N None 3%N CNone) (@nil ustring))); (2%N, (mkEntry (DStruct [77]%N None [(mkProp [98; 105; 103]%N RNone POptional 5%N); (mkProp [99; 111; 117; 110; 116]%N RNone PRequired 6%N); (mkProp [100; 101; 108; 116; 97]%N RNone POptional 8%N)] false) (@nil ustring))); (3%N, (mkEntry (DInteger [117; 56]%N) (@nil ustring))); (4%N, (mkEntry (DInteger [105; 54; 52]%N) (@nil ustring))); (5%N, (mkEntry (DOption 4%N) (@nil ustring))); (6%N, (mkEntry (DInteger [58; 58; 115; 116; 100; 58; 58; 110; 117; 109; 58; 58; 78; 111; 110; 90; 101; 114; 111; 85; 56]%N) (@nil ustring))); (7%N, (mkEntry (DInteger [105; 56]%N) (@nil ustring))); (8%N, (mkEntry (DOption 7%N) (@nil ustring)))] 9%N (mkSettings None (@nil ustring) false [58; 58; 32; 115; 116; 100; 32; 58; 58; 32; 99; 111; 108; 108; 101; 99; 116; 105; 111; 110; 115; 32; 58; 58; 32; 72; 97; 115; 104; 77; 97; 112]%N) false false false false (@nil ustring)).
Definition v_int_ok : json := (JObj [([98; 105; 103]%N, (JInt (15)%Z)); ([99; 111; 117; 110; 116]%N, (JInt (200)%Z)); ([100; 101; 108; 116; 97]%N, (JInt (-128)%Z))]).

Example C02F_int_in_frag : in_frag Sanitize.ascii_classes D_int = true.
Proof. vm_compute. reflexivity. Qed.

Example C02F_int_convert : convert_doc Sanitize.ascii_classes D_int = Some T_int.
Proof. vm_compute. reflexivity. Qed.

Example C02F_int_accepted : exists f, de no_re no_re T_int f 2%N v_int_ok <> None.
Proof.
  apply (C02F_fragment_sound Sanitize.ascii_classes no_re no_re no_re D_int T_int) with (r := [77]%N).
  - intros f n s _ H. discriminate H.
  - exact C02F_int_in_frag.
  - exact C02F_int_convert.
  - vm_compute. right. left. reflexivity.
  - vm_compute. reflexivity.
  - exists 3%nat. split; vm_compute; reflexivity.
Qed.

(* ------------------------------------------------------------------ tuples, sets, fixed-length arrays
   `Pt`: a pair of numbers (tuple), `Q.tags`: a set of strings, `Q.rgb`: [u8; 3], `Q.at`: a reference to the
   tuple.  T_seq is the real dump (corpus/convert/seq_example.json). *)
Definition D_seq : defs := [([80; 116]%N, (SObj (Some [TArray]) None None None (mkNumv None None None None None) (mkStrv None None None) ItemsTuple [(SObj (Some [TNumber]) None None None (mkNumv None None None None None) (mkStrv None None None) ItemsAbsent (@nil schema) None None None false (@nil (ustring * schema)) (@nil ustring) None None None None None None None None None None); (SObj (Some [TNumber]) None None None (mkNumv None None None None None) (mkStrv None None None) ItemsAbsent (@nil schema) None None None false (@nil (ustring * schema)) (@nil ustring) None None None None None None None None None None)] None (Some 2%N) (Some 2%N) false (@nil (ustring * schema)) (@nil ustring) None None None None None None None None None None)); ([81]%N, (SObj (Some [TObject]) None None None (mkNumv None None None None None) (mkStrv None None None) ItemsAbsent (@nil schema) None None None false [([97; 116]%N, (SObj None None None None (mkNumv None None None None None) (mkStrv None None None) ItemsAbsent (@nil schema) None None None false (@nil (ustring * schema)) (@nil ustring) None None None None None None None (Some [80; 116]%N) None None)); ([114; 103; 98]%N, (SObj (Some [TArray]) None None None (mkNumv None None None None None) (mkStrv None None None) ItemsSingle [(SObj (Some [TInteger]) (Some [117; 105; 110; 116; 56]%N) None None (mkNumv None None None None None) (mkStrv None None None) ItemsAbsent (@nil schema) None None None false (@nil (ustring * schema)) (@nil ustring) None None None None None None None None None None)] None (Some 3%N) (Some 3%N) false (@nil (ustring * schema)) (@nil ustring) None None None None None None None None None None)); ([116; 97; 103; 115]%N, (SObj (Some [TArray]) None None None (mkNumv None None None None None) (mkStrv None None None) ItemsSingle [(SObj (Some [TString]) None None None (mkNumv None None None None None) (mkStrv None None None) ItemsAbsent (@nil schema) None None None false (@nil (ustring * schema)) (@nil ustring) None None None None None None None None None None)] None None None true (@nil (ustring * schema)) (@nil ustring) None None None None None None None None None None))] [[97; 116]%N; [114; 103; 98]%N] None None None None None None None None None None))].
Definition T_seq : space := (mkSpace [(1%N, (mkEntry (DNewtype [80; 116]%N None 4%N CNone) (@nil ustring))); (2%N, (mkEntry (DStruct [81]%N None [(mkProp [97; 116]%N RNone PRequired 1%N); (mkProp [114; 103; 98]%N RNone PRequired 6%N); (mkProp [116; 97; 103; 115]%N RNone POptional 9%N)] false) (@nil ustring))); (3%N, (mkEntry (DFloat [102; 54; 52]%N) (@nil ustring))); (4%N, (mkEntry (DTuple [3%N; 3%N]) (@nil ustring))); (5%N, (mkEntry (DInteger [117; 56]%N) (@nil ustring))); (6%N, (mkEntry (DArray 5%N 3%N) (@nil ustring))); (7%N, (mkEntry DString (@nil ustring))); (8%N, (mkEntry (DSet 7%N) (@nil ustring))); (9%N, (mkEntry (DOption 8%N) (@nil ustring)))] 10%N (mkSettings None (@nil ustring) false [58; 58; 32; 115; 116; 100; 32; 58; 58; 32; 99; 111; 108; 108; 101; 99; 116; 105; 111; 110; 115; 32; 58; 58; 32; 72; 97; 115; 104; 77; 97; 112]%N) false false false false (@nil ustring)).
Definition v_seq_ok : json := (JObj [([97; 116]%N, (JArr [(JInt (1)%Z); (JFlt (Qmake (5)%Z 2%positive))])); ([114; 103; 98]%N, (JArr [(JInt (0)%Z); (JInt (128)%Z); (JInt (255)%Z)])); ([116; 97; 103; 115]%N, (JArr [(JStr [97]%N); (JStr [98]%N)]))]).

Example C02F_seq_in_frag : in_frag Sanitize.ascii_classes D_seq = true.
Proof. vm_compute. reflexivity. Qed.

Example C02F_seq_convert : convert_doc Sanitize.ascii_classes D_seq = Some T_seq.
Proof. vm_compute. reflexivity. Qed.

Example C02F_seq_accepted : exists f, de no_re no_re T_seq f 2%N v_seq_ok <> None.
Proof.
  apply (C02F_fragment_sound Sanitize.ascii_classes no_re no_re no_re D_seq T_seq) with (r := [81]%N).
  - intros f n s _ H. discriminate H.
  - exact C02F_seq_in_frag.
  - exact C02F_seq_convert.
  - vm_compute. right. left. reflexivity.
  - vm_compute. reflexivity.
  - exists 3%nat. split; vm_compute; reflexivity.
Qed.

(* ------------------------------------------------------------------ oneOf -> externally tagged enums
   (corpus/convert/enum_external_example.json; T_enum is the REAL type space): unit variants, a newtype
   variant, a struct variant (closed), a tuple variant, a nullable payload, a "$ref" payload, recursion
   through a Vec, and an inline enum below a required property *)
Definition D_enum : defs := [([80]%N, (SObj (Some [TObject]) None None None (mkNumv None None None None None) (mkStrv None None None) ItemsAbsent (@nil schema) None None None false [([122]%N, (SObj (Some [TBoolean]) None None None (mkNumv None None None None None) (mkStrv None None None) ItemsAbsent (@nil schema) None None None false (@nil (ustring * schema)) (@nil ustring) None None None None None None None None None None))] [[122]%N] None None None None None None None None None None)); ([83; 104; 97; 112; 101]%N, (SObj None None None None (mkNumv None None None None None) (mkStrv None None None) ItemsAbsent (@nil schema) None None None false (@nil (ustring * schema)) (@nil ustring) None None None None None (Some [(SObj (Some [TString]) None (Some [(JStr [117; 110; 105; 116]%N); (JStr [111; 116; 104; 101; 114; 45; 111; 110; 101]%N)]) None (mkNumv None None None None None) (mkStrv None None None) ItemsAbsent (@nil schema) None None None false (@nil (ustring * schema)) (@nil ustring) None None None None None None None None None None); (SObj (Some [TObject]) None None None (mkNumv None None None None None) (mkStrv None None None) ItemsAbsent (@nil schema) None None None false [([99; 105; 114; 99; 108; 101]%N, (SObj (Some [TNumber]) None None None (mkNumv None None None None None) (mkStrv None None None) ItemsAbsent (@nil schema) None None None false (@nil (ustring * schema)) (@nil ustring) None None None None None None None None None None))] [[99; 105; 114; 99; 108; 101]%N] (Some (SBool false)) None None None None None None None None None); (SObj (Some [TObject]) None None None (mkNumv None None None None None) (mkStrv None None None) ItemsAbsent (@nil schema) None None None false [([114; 101; 99; 116]%N, (SObj (Some [TObject]) None None None (mkNumv None None None None None) (mkStrv None None None) ItemsAbsent (@nil schema) None None None false [([104]%N, (SObj (Some [TInteger]) None None None (mkNumv None None None None None) (mkStrv None None None) ItemsAbsent (@nil schema) None None None false (@nil (ustring * schema)) (@nil ustring) None None None None None None None None None None)); ([119]%N, (SObj (Some [TInteger]) None None None (mkNumv None None None None None) (mkStrv None None None) ItemsAbsent (@nil schema) None None None false (@nil (ustring * schema)) (@nil ustring) None None None None None None None None None None))] [[104]%N; [119]%N] (Some (SBool false)) None None None None None None None None None))] [[114; 101; 99; 116]%N] (Some (SBool false)) None None None None None None None None None); (SObj (Some [TObject]) None None None (mkNumv None None None None None) (mkStrv None None None) ItemsAbsent (@nil schema) None None None false [([112; 97; 105; 114]%N, (SObj (Some [TArray]) None None None (mkNumv None None None None None) (mkStrv None None None) ItemsTuple [(SObj (Some [TString]) None None None (mkNumv None None None None None) (mkStrv None None None) ItemsAbsent (@nil schema) None None None false (@nil (ustring * schema)) (@nil ustring) None None None None None None None None None None); (SObj (Some [TInteger]) None None None (mkNumv None None None None None) (mkStrv None None None) ItemsAbsent (@nil schema) None None None false (@nil (ustring * schema)) (@nil ustring) None None None None None None None None None None)] None (Some 2%N) (Some 2%N) false (@nil (ustring * schema)) (@nil ustring) None None None None None None None None None None))] [[112; 97; 105; 114]%N] (Some (SBool false)) None None None None None None None None None); (SObj (Some [TObject]) None None None (mkNumv None None None None None) (mkStrv None None None) ItemsAbsent (@nil schema) None None None false [([108; 97; 98; 101; 108]%N, (SObj (Some [TString; TNull]) None None None (mkNumv None None None None None) (mkStrv None None None) ItemsAbsent (@nil schema) None None None false (@nil (ustring * schema)) (@nil ustring) None None None None None None None None None None))] [[108; 97; 98; 101; 108]%N] (Some (SBool false)) None None None None None None None None None); (SObj (Some [TObject]) None None None (mkNumv None None None None None) (mkStrv None None None) ItemsAbsent (@nil schema) None None None false [([115; 117; 98]%N, (SObj None None None None (mkNumv None None None None None) (mkStrv None None None) ItemsAbsent (@nil schema) None None None false (@nil (ustring * schema)) (@nil ustring) None None None None None None None (Some [80]%N) None None))] [[115; 117; 98]%N] (Some (SBool false)) None None None None None None None None None); (SObj (Some [TObject]) None None None (mkNumv None None None None None) (mkStrv None None None) ItemsAbsent (@nil schema) None None None false [([109; 97; 110; 121]%N, (SObj (Some [TArray]) None None None (mkNumv None None None None None) (mkStrv None None None) ItemsSingle [(SObj None None None None (mkNumv None None None None None) (mkStrv None None None) ItemsAbsent (@nil schema) None None None false (@nil (ustring * schema)) (@nil ustring) None None None None None None None (Some [83; 104; 97; 112; 101]%N) None None)] None None None false (@nil (ustring * schema)) (@nil ustring) None None None None None None None None None None))] [[109; 97; 110; 121]%N] (Some (SBool false)) None None None None None None None None None)]) None None None None)); ([85; 115; 101; 114]%N, (SObj (Some [TObject]) None None None (mkNumv None None None None None) (mkStrv None None None) ItemsAbsent (@nil schema) None None None false [([105; 110; 108; 105; 110; 101]%N, (SObj None None None None (mkNumv None None None None None) (mkStrv None None None) ItemsAbsent (@nil schema) None None None false (@nil (ustring * schema)) (@nil ustring) None None None None None (Some [(SObj (Some [TString]) None (Some [(JStr [111; 110]%N); (JStr [111; 102; 102]%N)]) None (mkNumv None None None None None) (mkStrv None None None) ItemsAbsent (@nil schema) None None None false (@nil (ustring * schema)) (@nil ustring) None None None None None None None None None None); (SObj (Some [TObject]) None None None (mkNumv None None None None None) (mkStrv None None None) ItemsAbsent (@nil schema) None None None false [([108; 101; 118; 101; 108]%N, (SObj (Some [TInteger]) (Some [117; 105; 110; 116; 56]%N) None None (mkNumv None None None None None) (mkStrv None None None) ItemsAbsent (@nil schema) None None None false (@nil (ustring * schema)) (@nil ustring) None None None None None None None None None None))] [[108; 101; 118; 101; 108]%N] (Some (SBool false)) None None None None None None None None None)]) None None None None)); ([115; 104; 97; 112; 101]%N, (SObj None None None None (mkNumv None None None None None) (mkStrv None None None) ItemsAbsent (@nil schema) None None None false (@nil (ustring * schema)) (@nil ustring) None None None None None None None (Some [83; 104; 97; 112; 101]%N) None None))] [[105; 110; 108; 105; 110; 101]%N; [115; 104; 97; 112; 101]%N] None None None None None None None None None None))].
Definition T_enum : space := (mkSpace [(1%N, (mkEntry (DStruct [80]%N None [(mkProp [122]%N RNone PRequired 4%N)] false) (@nil ustring))); (2%N, (mkEntry (DEnum [83; 104; 97; 112; 101]%N None TagExternal [(mkVariant [117; 110; 105; 116]%N [85; 110; 105; 116]%N VSimple); (mkVariant [111; 116; 104; 101; 114; 45; 111; 110; 101]%N [79; 116; 104; 101; 114; 79; 110; 101]%N VSimple); (mkVariant [99; 105; 114; 99; 108; 101]%N [67; 105; 114; 99; 108; 101]%N (VItem 5%N)); (mkVariant [114; 101; 99; 116]%N [82; 101; 99; 116]%N (VStruct [(mkProp [104]%N RNone PRequired 6%N); (mkProp [119]%N RNone PRequired 6%N)])); (mkVariant [112; 97; 105; 114]%N [80; 97; 105; 114]%N (VTuple [7%N; 6%N])); (mkVariant [108; 97; 98; 101; 108]%N [76; 97; 98; 101; 108]%N (VItem 8%N)); (mkVariant [115; 117; 98]%N [83; 117; 98]%N (VItem 1%N)); (mkVariant [109; 97; 110; 121]%N [77; 97; 110; 121]%N (VItem 9%N))] true (@nil bespoke)) (@nil ustring))); (3%N, (mkEntry (DStruct [85; 115; 101; 114]%N None [(mkProp [105; 110; 108; 105; 110; 101]%N RNone PRequired 11%N); (mkProp [115; 104; 97; 112; 101]%N RNone PRequired 2%N)] false) (@nil ustring))); (4%N, (mkEntry DBoolean (@nil ustring))); (5%N, (mkEntry (DFloat [102; 54; 52]%N) (@nil ustring))); (6%N, (mkEntry (DInteger [105; 54; 52]%N) (@nil ustring))); (7%N, (mkEntry DString (@nil ustring))); (8%N, (mkEntry (DOption 7%N) (@nil ustring))); (9%N, (mkEntry (DVec 2%N) (@nil ustring))); (10%N, (mkEntry (DInteger [117; 56]%N) (@nil ustring))); (11%N, (mkEntry (DEnum [85; 115; 101; 114; 73; 110; 108; 105; 110; 101]%N None TagExternal [(mkVariant [111; 110]%N [79; 110]%N VSimple); (mkVariant [111; 102; 102]%N [79; 102; 102]%N VSimple); (mkVariant [108; 101; 118; 101; 108]%N [76; 101; 118; 101; 108]%N (VItem 10%N))] false (@nil bespoke)) (@nil ustring)))] 12%N (mkSettings None (@nil ustring) false [58; 58; 32; 115; 116; 100; 32; 58; 58; 32; 99; 111; 108; 108; 101; 99; 116; 105; 111; 110; 115; 32; 58; 58; 32; 72; 97; 115; 104; 77; 97; 112]%N) false false false false (@nil ustring)).
Definition v_enum_1 : json := (JObj [([105; 110; 108; 105; 110; 101]%N, (JObj [([108; 101; 118; 101; 108]%N, (JInt (3)%Z))])); ([115; 104; 97; 112; 101]%N, (JObj [([114; 101; 99; 116]%N, (JObj [([104]%N, (JInt (1)%Z)); ([119]%N, (JInt (2)%Z))]))]))]).
Definition v_enum_2 : json := (JObj [([105; 110; 108; 105; 110; 101]%N, (JStr [111; 102; 102]%N)); ([115; 104; 97; 112; 101]%N, (JObj [([109; 97; 110; 121]%N, (JArr [(JStr [117; 110; 105; 116]%N); (JObj [([112; 97; 105; 114]%N, (JArr [(JStr [97]%N); (JInt (7)%Z)]))]); (JObj [([108; 97; 98; 101; 108]%N, JNull)]); (JObj [([115; 117; 98]%N, (JObj [([122]%N, (JBool true))]))]); (JObj [([99; 105; 114; 99; 108; 101]%N, (JFlt (Qmake (5)%Z 2%positive)))])]))]))]).

Example C02F_enum_in_frag : in_frag Sanitize.ascii_classes D_enum = true.
Proof. vm_compute. reflexivity. Qed.

Example C02F_enum_convert : convert_doc Sanitize.ascii_classes D_enum = Some T_enum.
Proof. vm_compute. reflexivity. Qed.

Example C02F_enum_accepted_1 : exists f, de no_re no_re T_enum f 3%N v_enum_1 <> None.
Proof.
  apply (C02F_fragment_sound Sanitize.ascii_classes no_re no_re no_re D_enum T_enum) with (r := [85; 115; 101; 114]%N).
  - intros f n s _ H. discriminate H.
  - exact C02F_enum_in_frag.
  - exact C02F_enum_convert.
  - vm_compute. right. right. left. reflexivity.
  - vm_compute. reflexivity.
  - exists 8%nat. split; vm_compute; reflexivity.
Qed.

Example C02F_enum_accepted_2 : exists f, de no_re no_re T_enum f 3%N v_enum_2 <> None.
Proof.
  apply (C02F_fragment_sound Sanitize.ascii_classes no_re no_re no_re D_enum T_enum) with (r := [85; 115; 101; 114]%N).
  - intros f n s _ H. discriminate H.
  - exact C02F_enum_in_frag.
  - exact C02F_enum_convert.
  - vm_compute. right. right. left. reflexivity.
  - vm_compute. reflexivity.
  - exists 10%nat. split; vm_compute; reflexivity.
Qed.

(* ------------------------------------------------------------------ oneOf -> internally / adjacently tagged enums
   (corpus/convert/enum_tagged_example.json; T_tag is the REAL type space): Ev is internally tagged (two struct
   variants, a unit variant), Msg adjacently tagged (newtype, struct, tuple and unit variants) *)
Definition D_tag : defs := [([69; 118]%N, (SObj None None None None (mkNumv None None None None None) (mkStrv None None None) ItemsAbsent (@nil schema) None None None false (@nil (ustring * schema)) (@nil ustring) None None None None None (Some [(SObj (Some [TObject]) None None None (mkNumv None None None None None) (mkStrv None None None) ItemsAbsent (@nil schema) None None None false [([97; 116]%N, (SObj (Some [TInteger]) None None None (mkNumv None None None None None) (mkStrv None None None) ItemsAbsent (@nil schema) None None None false (@nil (ustring * schema)) (@nil ustring) None None None None None None None None None None)); ([116; 97; 103; 103]%N, (SObj (Some [TString]) None (Some [(JStr [115; 116; 97; 114; 116]%N)]) None (mkNumv None None None None None) (mkStrv None None None) ItemsAbsent (@nil schema) None None None false (@nil (ustring * schema)) (@nil ustring) None None None None None None None None None None)); ([119; 104; 111]%N, (SObj (Some [TString]) None None None (mkNumv None None None None None) (mkStrv None None None) ItemsAbsent (@nil schema) None None None false (@nil (ustring * schema)) (@nil ustring) None None None None None None None None None None))] [[97; 116]%N; [116; 97; 103; 103]%N] (Some (SBool false)) None None None None None None None None None); (SObj (Some [TObject]) None None None (mkNumv None None None None None) (mkStrv None None None) ItemsAbsent (@nil schema) None None None false [([116; 97; 103; 103]%N, (SObj (Some [TString]) None (Some [(JStr [115; 116; 111; 112]%N)]) None (mkNumv None None None None None) (mkStrv None None None) ItemsAbsent (@nil schema) None None None false (@nil (ustring * schema)) (@nil ustring) None None None None None None None None None None))] [[116; 97; 103; 103]%N] (Some (SBool false)) None None None None None None None None None); (SObj (Some [TObject]) None None None (mkNumv None None None None None) (mkStrv None None None) ItemsAbsent (@nil schema) None None None false [([115; 117; 98]%N, (SObj None None None None (mkNumv None None None None None) (mkStrv None None None) ItemsAbsent (@nil schema) None None None false (@nil (ustring * schema)) (@nil ustring) None None None None None None None (Some [80]%N) None None)); ([116; 97; 103; 103]%N, (SObj (Some [TString]) None (Some [(JStr [110; 111; 116; 101; 45; 105; 116]%N)]) None (mkNumv None None None None None) (mkStrv None None None) ItemsAbsent (@nil schema) None None None false (@nil (ustring * schema)) (@nil ustring) None None None None None None None None None None)); ([116; 101; 120; 116]%N, (SObj (Some [TString]) None None None (mkNumv None None None None None) (mkStrv (Some 5%N) None None) ItemsAbsent (@nil schema) None None None false (@nil (ustring * schema)) (@nil ustring) None None None None None None None None None None))] [[115; 117; 98]%N; [116; 97; 103; 103]%N; [116; 101; 120; 116]%N] (Some (SBool false)) None None None None None None None None None)]) None None None None)); ([77; 115; 103]%N, (SObj None None None None (mkNumv None None None None None) (mkStrv None None None) ItemsAbsent (@nil schema) None None None false (@nil (ustring * schema)) (@nil ustring) None None None None None (Some [(SObj (Some [TObject]) None None None (mkNumv None None None None None) (mkStrv None None None) ItemsAbsent (@nil schema) None None None false [([99]%N, (SObj (Some [TString]) None None None (mkNumv None None None None None) (mkStrv None None None) ItemsAbsent (@nil schema) None None None false (@nil (ustring * schema)) (@nil ustring) None None None None None None None None None None)); ([116]%N, (SObj (Some [TString]) None (Some [(JStr [116; 101; 120; 116]%N)]) None (mkNumv None None None None None) (mkStrv None None None) ItemsAbsent (@nil schema) None None None false (@nil (ustring * schema)) (@nil ustring) None None None None None None None None None None))] [[99]%N; [116]%N] (Some (SBool false)) None None None None None None None None None); (SObj (Some [TObject]) None None None (mkNumv None None None None None) (mkStrv None None None) ItemsAbsent (@nil schema) None None None false [([99]%N, (SObj (Some [TObject]) None None None (mkNumv None None None None None) (mkStrv None None None) ItemsAbsent (@nil schema) None None None false [([120]%N, (SObj (Some [TInteger]) None None None (mkNumv None None None None None) (mkStrv None None None) ItemsAbsent (@nil schema) None None None false (@nil (ustring * schema)) (@nil ustring) None None None None None None None None None None)); ([121]%N, (SObj (Some [TInteger]) None None None (mkNumv None None None None None) (mkStrv None None None) ItemsAbsent (@nil schema) None None None false (@nil (ustring * schema)) (@nil ustring) None None None None None None None None None None))] [[120]%N; [121]%N] (Some (SBool false)) None None None None None None None None None)); ([116]%N, (SObj (Some [TString]) None (Some [(JStr [112; 111; 105; 110; 116]%N)]) None (mkNumv None None None None None) (mkStrv None None None) ItemsAbsent (@nil schema) None None None false (@nil (ustring * schema)) (@nil ustring) None None None None None None None None None None))] [[99]%N; [116]%N] (Some (SBool false)) None None None None None None None None None); (SObj (Some [TObject]) None None None (mkNumv None None None None None) (mkStrv None None None) ItemsAbsent (@nil schema) None None None false [([99]%N, (SObj (Some [TArray]) None None None (mkNumv None None None None None) (mkStrv None None None) ItemsTuple [(SObj (Some [TString]) None None None (mkNumv None None None None None) (mkStrv None None None) ItemsAbsent (@nil schema) None None None false (@nil (ustring * schema)) (@nil ustring) None None None None None None None None None None); (SObj (Some [TBoolean]) None None None (mkNumv None None None None None) (mkStrv None None None) ItemsAbsent (@nil schema) None None None false (@nil (ustring * schema)) (@nil ustring) None None None None None None None None None None)] None (Some 2%N) (Some 2%N) false (@nil (ustring * schema)) (@nil ustring) None None None None None None None None None None)); ([116]%N, (SObj (Some [TString]) None (Some [(JStr [112; 97; 105; 114]%N)]) None (mkNumv None None None None None) (mkStrv None None None) ItemsAbsent (@nil schema) None None None false (@nil (ustring * schema)) (@nil ustring) None None None None None None None None None None))] [[99]%N; [116]%N] (Some (SBool false)) None None None None None None None None None); (SObj (Some [TObject]) None None None (mkNumv None None None None None) (mkStrv None None None) ItemsAbsent (@nil schema) None None None false [([116]%N, (SObj (Some [TString]) None (Some [(JStr [112; 105; 110; 103]%N)]) None (mkNumv None None None None None) (mkStrv None None None) ItemsAbsent (@nil schema) None None None false (@nil (ustring * schema)) (@nil ustring) None None None None None None None None None None))] [[116]%N] (Some (SBool false)) None None None None None None None None None)]) None None None None)); ([80]%N, (SObj (Some [TObject]) None None None (mkNumv None None None None None) (mkStrv None None None) ItemsAbsent (@nil schema) None None None false [([122]%N, (SObj (Some [TBoolean]) None None None (mkNumv None None None None None) (mkStrv None None None) ItemsAbsent (@nil schema) None None None false (@nil (ustring * schema)) (@nil ustring) None None None None None None None None None None))] [[122]%N] None None None None None None None None None None)); ([84; 111; 112]%N, (SObj (Some [TObject]) None None None (mkNumv None None None None None) (mkStrv None None None) ItemsAbsent (@nil schema) None None None false [([101; 118]%N, (SObj None None None None (mkNumv None None None None None) (mkStrv None None None) ItemsAbsent (@nil schema) None None None false (@nil (ustring * schema)) (@nil ustring) None None None None None None None (Some [69; 118]%N) None None)); ([109; 115; 103; 115]%N, (SObj (Some [TArray]) None None None (mkNumv None None None None None) (mkStrv None None None) ItemsSingle [(SObj None None None None (mkNumv None None None None None) (mkStrv None None None) ItemsAbsent (@nil schema) None None None false (@nil (ustring * schema)) (@nil ustring) None None None None None None None (Some [77; 115; 103]%N) None None)] None None None false (@nil (ustring * schema)) (@nil ustring) None None None None None None None None None None))] [[101; 118]%N; [109; 115; 103; 115]%N] None None None None None None None None None None))].
Definition T_tag : space := (mkSpace [(1%N, (mkEntry (DEnum [69; 118]%N None (TagInternal [116; 97; 103; 103]%N) [(mkVariant [115; 116; 97; 114; 116]%N [83; 116; 97; 114; 116]%N (VStruct [(mkProp [97; 116]%N RNone PRequired 5%N); (mkProp [119; 104; 111]%N RNone POptional 7%N)])); (mkVariant [115; 116; 111; 112]%N [83; 116; 111; 112]%N VSimple); (mkVariant [110; 111; 116; 101; 45; 105; 116]%N [78; 111; 116; 101; 73; 116]%N (VStruct [(mkProp [115; 117; 98]%N RNone PRequired 3%N); (mkProp [116; 101; 120; 116]%N RNone PRequired 8%N)]))] true (@nil bespoke)) (@nil ustring))); (2%N, (mkEntry (DEnum [77; 115; 103]%N None (TagAdjacent [116]%N [99]%N) [(mkVariant [116; 101; 120; 116]%N [84; 101; 120; 116]%N (VItem 6%N)); (mkVariant [112; 111; 105; 110; 116]%N [80; 111; 105; 110; 116]%N (VStruct [(mkProp [120]%N RNone PRequired 5%N); (mkProp [121]%N RNone PRequired 5%N)])); (mkVariant [112; 97; 105; 114]%N [80; 97; 105; 114]%N (VTuple [6%N; 9%N])); (mkVariant [112; 105; 110; 103]%N [80; 105; 110; 103]%N VSimple)] true (@nil bespoke)) (@nil ustring))); (3%N, (mkEntry (DStruct [80]%N None [(mkProp [122]%N RNone PRequired 9%N)] false) (@nil ustring))); (4%N, (mkEntry (DStruct [84; 111; 112]%N None [(mkProp [101; 118]%N RNone PRequired 1%N); (mkProp [109; 115; 103; 115]%N RNone PRequired 10%N)] false) (@nil ustring))); (5%N, (mkEntry (DInteger [105; 54; 52]%N) (@nil ustring))); (6%N, (mkEntry DString (@nil ustring))); (7%N, (mkEntry (DOption 6%N) (@nil ustring))); (8%N, (mkEntry (DNewtype [69; 118; 84; 101; 120; 116]%N None 6%N (CString (Some 5%N) None None)) (@nil ustring))); (9%N, (mkEntry DBoolean (@nil ustring))); (10%N, (mkEntry (DVec 2%N) (@nil ustring)))] 11%N (mkSettings None (@nil ustring) false [58; 58; 32; 115; 116; 100; 32; 58; 58; 32; 99; 111; 108; 108; 101; 99; 116; 105; 111; 110; 115; 32; 58; 58; 32; 72; 97; 115; 104; 77; 97; 112]%N) false false false false (@nil ustring)).
Definition v_tag_1 : json := (JObj [([101; 118]%N, (JObj [([97; 116]%N, (JInt (3)%Z)); ([116; 97; 103; 103]%N, (JStr [115; 116; 97; 114; 116]%N))])); ([109; 115; 103; 115]%N, (JArr [(JObj [([99]%N, (JStr [104; 105]%N)); ([116]%N, (JStr [116; 101; 120; 116]%N))]); (JObj [([99]%N, (JObj [([120]%N, (JInt (1)%Z)); ([121]%N, (JInt (2)%Z))])); ([116]%N, (JStr [112; 111; 105; 110; 116]%N))]); (JObj [([99]%N, (JArr [(JStr [97]%N); (JBool true)])); ([116]%N, (JStr [112; 97; 105; 114]%N))]); (JObj [([116]%N, (JStr [112; 105; 110; 103]%N))])]))]).
Definition v_tag_2 : json := (JObj [([101; 118]%N, (JObj [([115; 117; 98]%N, (JObj [([122]%N, (JBool false))])); ([116; 97; 103; 103]%N, (JStr [110; 111; 116; 101; 45; 105; 116]%N)); ([116; 101; 120; 116]%N, (JStr [97; 98; 99]%N))])); ([109; 115; 103; 115]%N, (JArr (@nil json)))]).

Example C02F_tag_in_frag : in_frag Sanitize.ascii_classes D_tag = true.
Proof. vm_compute. reflexivity. Qed.

Example C02F_tag_convert : convert_doc Sanitize.ascii_classes D_tag = Some T_tag.
Proof. vm_compute. reflexivity. Qed.

Example C02F_tag_accepted_1 : exists f, de always no_re T_tag f 4%N v_tag_1 <> None.
Proof.
  apply (C02F_fragment_sound Sanitize.ascii_classes always no_re no_re D_tag T_tag) with (r := [84; 111; 112]%N).
  - intros f n s _ H. discriminate H.
  - exact C02F_tag_in_frag.
  - exact C02F_tag_convert.
  - vm_compute. right. right. right. left. reflexivity.
  - vm_compute. reflexivity.
  - exists 10%nat. split; vm_compute; reflexivity.
Qed.

Example C02F_tag_accepted_2 : exists f, de always no_re T_tag f 4%N v_tag_2 <> None.
Proof.
  apply (C02F_fragment_sound Sanitize.ascii_classes always no_re no_re D_tag T_tag) with (r := [84; 111; 112]%N).
  - intros f n s _ H. discriminate H.
  - exact C02F_tag_in_frag.
  - exact C02F_tag_convert.
  - vm_compute. right. right. right. left. reflexivity.
  - vm_compute. reflexivity.
  - exists 10%nat. split; vm_compute; reflexivity.
Qed.

(* ------------------------------------------------------------------ oneOf of plain scalar arms -> untagged enums
   (corpus/convert/enum_untagged_example.json; T_unt is the REAL type space, variants Variant0, Variant1, ...) *)
Definition D_unt : defs := [([85]%N, (SObj None None None None (mkNumv None None None None None) (mkStrv None None None) ItemsAbsent (@nil schema) None None None false (@nil (ustring * schema)) (@nil ustring) None None None None None (Some [(SObj (Some [TString]) None None None (mkNumv None None None None None) (mkStrv None None None) ItemsAbsent (@nil schema) None None None false (@nil (ustring * schema)) (@nil ustring) None None None None None None None None None None); (SObj (Some [TInteger]) (Some [105; 110; 116; 51; 50]%N) None None (mkNumv None None None None None) (mkStrv None None None) ItemsAbsent (@nil schema) None None None false (@nil (ustring * schema)) (@nil ustring) None None None None None None None None None None); (SObj (Some [TBoolean]) None None None (mkNumv None None None None None) (mkStrv None None None) ItemsAbsent (@nil schema) None None None false (@nil (ustring * schema)) (@nil ustring) None None None None None None None None None None)]) None None None None)); ([87]%N, (SObj (Some [TObject]) None None None (mkNumv None None None None None) (mkStrv None None None) ItemsAbsent (@nil schema) None None None false [([110]%N, (SObj None None None None (mkNumv None None None None None) (mkStrv None None None) ItemsAbsent (@nil schema) None None None false (@nil (ustring * schema)) (@nil ustring) None None None None None (Some [(SObj (Some [TNumber]) None None None (mkNumv None None None None None) (mkStrv None None None) ItemsAbsent (@nil schema) None None None false (@nil (ustring * schema)) (@nil ustring) None None None None None None None None None None); (SObj (Some [TString]) None None None (mkNumv None None None None None) (mkStrv None None None) ItemsAbsent (@nil schema) None None None false (@nil (ustring * schema)) (@nil ustring) None None None None None None None None None None)]) None None None None)); ([117; 115]%N, (SObj (Some [TArray]) None None None (mkNumv None None None None None) (mkStrv None None None) ItemsSingle [(SObj None None None None (mkNumv None None None None None) (mkStrv None None None) ItemsAbsent (@nil schema) None None None false (@nil (ustring * schema)) (@nil ustring) None None None None None None None (Some [85]%N) None None)] None None None false (@nil (ustring * schema)) (@nil ustring) None None None None None None None None None None))] [[110]%N; [117; 115]%N] None None None None None None None None None None))].
Definition T_unt : space := (mkSpace [(1%N, (mkEntry (DEnum [85]%N None TagUntagged [(mkVariant [86; 97; 114; 105; 97; 110; 116; 48]%N [86; 97; 114; 105; 97; 110; 116; 48]%N (VItem 3%N)); (mkVariant [86; 97; 114; 105; 97; 110; 116; 49]%N [86; 97; 114; 105; 97; 110; 116; 49]%N (VItem 4%N)); (mkVariant [86; 97; 114; 105; 97; 110; 116; 50]%N [86; 97; 114; 105; 97; 110; 116; 50]%N (VItem 5%N))] false [UntaggedFromStr; UntaggedDisplay]) (@nil ustring))); (2%N, (mkEntry (DStruct [87]%N None [(mkProp [110]%N RNone PRequired 7%N); (mkProp [117; 115]%N RNone PRequired 8%N)] false) (@nil ustring))); (3%N, (mkEntry DString (@nil ustring))); (4%N, (mkEntry (DInteger [105; 51; 50]%N) (@nil ustring))); (5%N, (mkEntry DBoolean (@nil ustring))); (6%N, (mkEntry (DFloat [102; 54; 52]%N) (@nil ustring))); (7%N, (mkEntry (DEnum [87; 78]%N None TagUntagged [(mkVariant [86; 97; 114; 105; 97; 110; 116; 48]%N [86; 97; 114; 105; 97; 110; 116; 48]%N (VItem 6%N)); (mkVariant [86; 97; 114; 105; 97; 110; 116; 49]%N [86; 97; 114; 105; 97; 110; 116; 49]%N (VItem 3%N))] false [UntaggedFromStr; UntaggedDisplay]) (@nil ustring))); (8%N, (mkEntry (DVec 1%N) (@nil ustring)))] 9%N (mkSettings None (@nil ustring) false [58; 58; 32; 115; 116; 100; 32; 58; 58; 32; 99; 111; 108; 108; 101; 99; 116; 105; 111; 110; 115; 32; 58; 58; 32; 72; 97; 115; 104; 77; 97; 112]%N) false false false false (@nil ustring)).
Definition v_unt : json := (JObj [([110]%N, (JFlt (Qmake (5)%Z 2%positive))); ([117; 115]%N, (JArr [(JStr [97]%N); (JInt (7)%Z); (JBool true)]))]).

Example C02F_unt_in_frag : in_frag Sanitize.ascii_classes D_unt = true.
Proof. vm_compute. reflexivity. Qed.

Example C02F_unt_convert : convert_doc Sanitize.ascii_classes D_unt = Some T_unt.
Proof. vm_compute. reflexivity. Qed.

Example C02F_unt_accepted : exists f, de no_re no_re T_unt f 2%N v_unt <> None.
Proof.
  apply (C02F_fragment_sound Sanitize.ascii_classes no_re no_re no_re D_unt T_unt) with (r := [87]%N).
  - intros f n s _ H. discriminate H.
  - exact C02F_unt_in_frag.
  - exact C02F_unt_convert.
  - vm_compute. right. left. reflexivity.
  - vm_compute. reflexivity.
  - exists 8%nat. split; vm_compute; reflexivity.
Qed.

(* ------------------------------------------------------------------ oneOf [X, null] -> Option<X> (maybe_option)
   (corpus/convert/option_union_example.json; T_opt is the REAL type space): a "$ref" arm, an externally tagged
   enum as the arm of an optional member, recursion through Option<Vec<Rec>> *)
Definition D_opt : defs := [([76; 101; 97; 102]%N, (SObj (Some [TObject]) None None None (mkNumv None None None None None) (mkStrv None None None) ItemsAbsent (@nil schema) None None None false [([118]%N, (SObj (Some [TInteger]) None None None (mkNumv None None None None None) (mkStrv None None None) ItemsAbsent (@nil schema) None None None false (@nil (ustring * schema)) (@nil ustring) None None None None None None None None None None))] [[118]%N] None None None None None None None None None None)); ([77; 97; 121; 98; 101]%N, (SObj None None None None (mkNumv None None None None None) (mkStrv None None None) ItemsAbsent (@nil schema) None None None false (@nil (ustring * schema)) (@nil ustring) None None None None None (Some [(SObj None None None None (mkNumv None None None None None) (mkStrv None None None) ItemsAbsent (@nil schema) None None None false (@nil (ustring * schema)) (@nil ustring) None None None None None None None (Some [76; 101; 97; 102]%N) None None); (SObj (Some [TNull]) None None None (mkNumv None None None None None) (mkStrv None None None) ItemsAbsent (@nil schema) None None None false (@nil (ustring * schema)) (@nil ustring) None None None None None None None None None None)]) None None None None)); ([82; 101; 99]%N, (SObj (Some [TObject]) None None None (mkNumv None None None None None) (mkStrv None None None) ItemsAbsent (@nil schema) None None None false [([107; 105; 110; 100]%N, (SObj None None None None (mkNumv None None None None None) (mkStrv None None None) ItemsAbsent (@nil schema) None None None false (@nil (ustring * schema)) (@nil ustring) None None None None None (Some [(SObj (Some [TNull]) None None None (mkNumv None None None None None) (mkStrv None None None) ItemsAbsent (@nil schema) None None None false (@nil (ustring * schema)) (@nil ustring) None None None None None None None None None None); (SObj None None None None (mkNumv None None None None None) (mkStrv None None None) ItemsAbsent (@nil schema) None None None false (@nil (ustring * schema)) (@nil ustring) None None None None None (Some [(SObj (Some [TString]) None (Some [(JStr [97]%N); (JStr [98]%N)]) None (mkNumv None None None None None) (mkStrv None None None) ItemsAbsent (@nil schema) None None None false (@nil (ustring * schema)) (@nil ustring) None None None None None None None None None None); (SObj (Some [TObject]) None None None (mkNumv None None None None None) (mkStrv None None None) ItemsAbsent (@nil schema) None None None false [([110]%N, (SObj (Some [TInteger]) None None None (mkNumv None None None None None) (mkStrv None None None) ItemsAbsent (@nil schema) None None None false (@nil (ustring * schema)) (@nil ustring) None None None None None None None None None None))] [[110]%N] (Some (SBool false)) None None None None None None None None None)]) None None None None)]) None None None None)); ([109]%N, (SObj None None None None (mkNumv None None None None None) (mkStrv None None None) ItemsAbsent (@nil schema) None None None false (@nil (ustring * schema)) (@nil ustring) None None None None None None None (Some [77; 97; 121; 98; 101]%N) None None)); ([110; 101; 120; 116]%N, (SObj None None None None (mkNumv None None None None None) (mkStrv None None None) ItemsAbsent (@nil schema) None None None false (@nil (ustring * schema)) (@nil ustring) None None None None None (Some [(SObj (Some [TArray]) None None None (mkNumv None None None None None) (mkStrv None None None) ItemsSingle [(SObj None None None None (mkNumv None None None None None) (mkStrv None None None) ItemsAbsent (@nil schema) None None None false (@nil (ustring * schema)) (@nil ustring) None None None None None None None (Some [82; 101; 99]%N) None None)] None None None false (@nil (ustring * schema)) (@nil ustring) None None None None None None None None None None); (SObj (Some [TNull]) None None None (mkNumv None None None None None) (mkStrv None None None) ItemsAbsent (@nil schema) None None None false (@nil (ustring * schema)) (@nil ustring) None None None None None None None None None None)]) None None None None))] [[109]%N] None None None None None None None None None None))].
Definition T_opt : space := (mkSpace [(1%N, (mkEntry (DStruct [76; 101; 97; 102]%N None [(mkProp [118]%N RNone PRequired 4%N)] false) (@nil ustring))); (2%N, (mkEntry (DNewtype [77; 97; 121; 98; 101]%N None 5%N CNone) (@nil ustring))); (3%N, (mkEntry (DStruct [82; 101; 99]%N None [(mkProp [107; 105; 110; 100]%N RNone POptional 7%N); (mkProp [109]%N RNone PRequired 2%N); (mkProp [110; 101; 120; 116]%N RNone POptional 9%N)] false) (@nil ustring))); (4%N, (mkEntry (DInteger [105; 54; 52]%N) (@nil ustring))); (5%N, (mkEntry (DOption 1%N) (@nil ustring))); (6%N, (mkEntry (DEnum [82; 101; 99; 75; 105; 110; 100]%N None TagExternal [(mkVariant [97]%N [65]%N VSimple); (mkVariant [98]%N [66]%N VSimple); (mkVariant [110]%N [78]%N (VItem 4%N))] false (@nil bespoke)) (@nil ustring))); (7%N, (mkEntry (DOption 6%N) (@nil ustring))); (8%N, (mkEntry (DVec 3%N) (@nil ustring))); (9%N, (mkEntry (DOption 8%N) (@nil ustring)))] 10%N (mkSettings None (@nil ustring) false [58; 58; 32; 115; 116; 100; 32; 58; 58; 32; 99; 111; 108; 108; 101; 99; 116; 105; 111; 110; 115; 32; 58; 58; 32; 72; 97; 115; 104; 77; 97; 112]%N) false false false false (@nil ustring)).
Definition v_opt : json := (JObj [([107; 105; 110; 100]%N, (JObj [([110]%N, (JInt (3)%Z))])); ([109]%N, JNull); ([110; 101; 120; 116]%N, (JArr [(JObj [([107; 105; 110; 100]%N, (JStr [97]%N)); ([109]%N, (JObj [([118]%N, (JInt (1)%Z))]))]); (JObj [([109]%N, JNull); ([110; 101; 120; 116]%N, JNull)])]))]).

Example C02F_opt_in_frag : in_frag Sanitize.ascii_classes D_opt = true.
Proof. vm_compute. reflexivity. Qed.

Example C02F_opt_convert : convert_doc Sanitize.ascii_classes D_opt = Some T_opt.
Proof. vm_compute. reflexivity. Qed.

Example C02F_opt_accepted : exists f, de no_re no_re T_opt f 3%N v_opt <> None.
Proof.
  apply (C02F_fragment_sound Sanitize.ascii_classes no_re no_re no_re D_opt T_opt) with (r := [82; 101; 99]%N).
  - intros f n s _ H. discriminate H.
  - exact C02F_opt_in_frag.
  - exact C02F_opt_convert.
  - vm_compute. right. right. left. reflexivity.
  - vm_compute. reflexivity.
  - exists 12%nat. split; vm_compute; reflexivity.
Qed.

(* ------------------------------------------------------------------ the anyOf routes (convert_any_of): Option, untagged
   (corpus/convert/anyof_union_example.json; T_any is the REAL type space): anyOf ["$ref", null] as schemars writes
   Option<T>, anyOf of two scalar types *)
Definition D_any : defs := [([76; 101; 97; 102]%N, (SObj (Some [TObject]) None None None (mkNumv None None None None None) (mkStrv None None None) ItemsAbsent (@nil schema) None None None false [([118]%N, (SObj (Some [TInteger]) None None None (mkNumv None None None None None) (mkStrv None None None) ItemsAbsent (@nil schema) None None None false (@nil (ustring * schema)) (@nil ustring) None None None None None None None None None None))] [[118]%N] None None None None None None None None None None)); ([77; 97; 121; 98; 101]%N, (SObj None None None None (mkNumv None None None None None) (mkStrv None None None) ItemsAbsent (@nil schema) None None None false (@nil (ustring * schema)) (@nil ustring) None None None None (Some [(SObj None None None None (mkNumv None None None None None) (mkStrv None None None) ItemsAbsent (@nil schema) None None None false (@nil (ustring * schema)) (@nil ustring) None None None None None None None (Some [76; 101; 97; 102]%N) None None); (SObj (Some [TNull]) None None None (mkNumv None None None None None) (mkStrv None None None) ItemsAbsent (@nil schema) None None None false (@nil (ustring * schema)) (@nil ustring) None None None None None None None None None None)]) None None None None None)); ([82; 101; 99]%N, (SObj (Some [TObject]) None None None (mkNumv None None None None None) (mkStrv None None None) ItemsAbsent (@nil schema) None None None false [([105; 100]%N, (SObj None None None None (mkNumv None None None None None) (mkStrv None None None) ItemsAbsent (@nil schema) None None None false (@nil (ustring * schema)) (@nil ustring) None None None None (Some [(SObj (Some [TString]) None None None (mkNumv None None None None None) (mkStrv None None None) ItemsAbsent (@nil schema) None None None false (@nil (ustring * schema)) (@nil ustring) None None None None None None None None None None); (SObj (Some [TInteger]) (Some [117; 105; 110; 116; 51; 50]%N) None None (mkNumv None None None None None) (mkStrv None None None) ItemsAbsent (@nil schema) None None None false (@nil (ustring * schema)) (@nil ustring) None None None None None None None None None None)]) None None None None None)); ([109]%N, (SObj None None None None (mkNumv None None None None None) (mkStrv None None None) ItemsAbsent (@nil schema) None None None false (@nil (ustring * schema)) (@nil ustring) None None None None None None None (Some [77; 97; 121; 98; 101]%N) None None)); ([110; 101; 120; 116]%N, (SObj None None None None (mkNumv None None None None None) (mkStrv None None None) ItemsAbsent (@nil schema) None None None false (@nil (ustring * schema)) (@nil ustring) None None None None (Some [(SObj (Some [TNull]) None None None (mkNumv None None None None None) (mkStrv None None None) ItemsAbsent (@nil schema) None None None false (@nil (ustring * schema)) (@nil ustring) None None None None None None None None None None); (SObj (Some [TArray]) None None None (mkNumv None None None None None) (mkStrv None None None) ItemsSingle [(SObj None None None None (mkNumv None None None None None) (mkStrv None None None) ItemsAbsent (@nil schema) None None None false (@nil (ustring * schema)) (@nil ustring) None None None None None None None (Some [82; 101; 99]%N) None None)] None None None false (@nil (ustring * schema)) (@nil ustring) None None None None None None None None None None)]) None None None None None))] [[105; 100]%N; [109]%N] None None None None None None None None None None))].
Definition T_any : space := (mkSpace [(1%N, (mkEntry (DStruct [76; 101; 97; 102]%N None [(mkProp [118]%N RNone PRequired 4%N)] false) (@nil ustring))); (2%N, (mkEntry (DNewtype [77; 97; 121; 98; 101]%N None 5%N CNone) (@nil ustring))); (3%N, (mkEntry (DStruct [82; 101; 99]%N None [(mkProp [105; 100]%N RNone PRequired 8%N); (mkProp [109]%N RNone PRequired 2%N); (mkProp [110; 101; 120; 116]%N RNone POptional 10%N)] false) (@nil ustring))); (4%N, (mkEntry (DInteger [105; 54; 52]%N) (@nil ustring))); (5%N, (mkEntry (DOption 1%N) (@nil ustring))); (6%N, (mkEntry DString (@nil ustring))); (7%N, (mkEntry (DInteger [117; 51; 50]%N) (@nil ustring))); (8%N, (mkEntry (DEnum [82; 101; 99; 73; 100]%N None TagUntagged [(mkVariant [86; 97; 114; 105; 97; 110; 116; 48]%N [86; 97; 114; 105; 97; 110; 116; 48]%N (VItem 6%N)); (mkVariant [86; 97; 114; 105; 97; 110; 116; 49]%N [86; 97; 114; 105; 97; 110; 116; 49]%N (VItem 7%N))] false [UntaggedFromStr; UntaggedDisplay]) (@nil ustring))); (9%N, (mkEntry (DVec 3%N) (@nil ustring))); (10%N, (mkEntry (DOption 9%N) (@nil ustring)))] 11%N (mkSettings None (@nil ustring) false [58; 58; 32; 115; 116; 100; 32; 58; 58; 32; 99; 111; 108; 108; 101; 99; 116; 105; 111; 110; 115; 32; 58; 58; 32; 72; 97; 115; 104; 77; 97; 112]%N) false false false false (@nil ustring)).
Definition v_any : json := (JObj [([105; 100]%N, (JInt (7)%Z)); ([109]%N, JNull); ([110; 101; 120; 116]%N, (JArr [(JObj [([105; 100]%N, (JStr [120]%N)); ([109]%N, (JObj [([118]%N, (JInt (1)%Z))]))]); (JObj [([105; 100]%N, (JInt (1)%Z)); ([109]%N, JNull); ([110; 101; 120; 116]%N, JNull)])]))]).

Example C02F_any_in_frag : in_frag Sanitize.ascii_classes D_any = true.
Proof. vm_compute. reflexivity. Qed.

Example C02F_any_convert : convert_doc Sanitize.ascii_classes D_any = Some T_any.
Proof. vm_compute. reflexivity. Qed.

Example C02F_any_accepted : exists f, de no_re no_re T_any f 3%N v_any <> None.
Proof.
  apply (C02F_fragment_sound Sanitize.ascii_classes no_re no_re no_re D_any T_any) with (r := [82; 101; 99]%N).
  - intros f n s _ H. discriminate H.
  - exact C02F_any_in_frag.
  - exact C02F_any_convert.
  - vm_compute. right. right. left. reflexivity.
  - vm_compute. reflexivity.
  - exists 12%nat. split; vm_compute; reflexivity.
Qed.

(* a by-value cycle (needs a Box from break_cycles) is outside the fragment *)
Example C02F_cycle_out : in_frag Sanitize.ascii_classes D_cycle = false.
Proof. vm_compute. reflexivity. Qed.
