(* Props/C14F.v -- C14 ("replacement, conversion, patch ... settings apply everywhere") on the
   converter model under settings (Algo/ConvertS.v): the quantifier over SCHEMAS and type positions
   is a theorem about the model.  Statements only (proofs: Proofs/ConvertSProofs.v; report:
   notes/Convert.md).  The model is tied to the real converter under settings by
   `python3 py/convert_check.py --settings` on every run (documents x settings assignments, exact
   equality of the type spaces).

   How "everywhere" is expressed.  The model converts the children of every node with the SAME function
   [conv_s] (C14F_conv_s_children): a type position is, by construction, a call of [conv_s].
   * conversions: at EVERY call - whatever the position, the name handed down, the state - a schema the
     cache answers becomes the configured native entry and nothing is generated
     (C14F_convert_everywhere, C14F_convert_everywhere_nullable); the cache answers with the FIRST
     conversion whose schema equals the searched one modulo annotations at every depth
     (C14F_convert_first_match, C14F_convert_ignores_annotations);
   * replacements: the type of a replaced definition is the native entry, for every document, every
     schema of that definition, every other setting (C14F_replace_everywhere); the schema of a replaced
     definition is never looked at, so nothing is generated from it (C14F_replace_ignores_schema); every
     reference to it is converted to its id (C14F_replace_use_sites);
   * patches: every entry of the output is the patched entry of the unpatched run at the same id
     (C14F_patch_everywhere): ids - hence all use sites - are unchanged, a named entry carries the patched
     name and the patch's derives (C14F_patch_entry, C14F_type_patch), and the old name of a renamed type
     does not occur unless another type is renamed to it (C14F_patch_old_name_gone). *)
From Coq Require Import String ZArith NArith QArith List Bool.
From Typify Require Import Base.Json Spec.Schema Spec.Valid IR.TypeIR.
From Typify Require Algo.Heck Algo.Sanitize.
From Typify Require Import Algo.Convert Algo.ConvertS Proofs.ConvertSProofs.
Import ListNotations.
Close Scope Q_scope.
Close Scope string_scope.
Open Scope list_scope.
Open Scope N_scope.

Theorem C14F_conv_s_children :
  forall cls S rid ty fmt enum cst nv sv ik items ai mni mxi uq props req ap mnp mxp allo anyo oneo no ref dflt title nm s0,
    let s := SObj ty fmt enum cst nv sv ik items ai mni mxi uq props req ap mnp mxp allo anyo oneo no ref dflt title in
    hit S s = false ->
    conv_s cls S rid s nm s0 =
    conv_node cls rid (conv_s cls S rid)
      (classify ty fmt enum cst nv sv ik items ai mni mxi uq props req ap mnp mxp allo anyo oneo no ref dflt title)
      nm items props req ap (union_of oneo anyo) s0.
Proof. exact conv_s_children. Qed.

Theorem C14F_convert_everywhere :
  forall cls S rid s nm s0 d,
    cache_lookup S s = Some d -> conv_s cls S rid s nm s0 = Some (d, s0).
Proof. exact convert_hit. Qed.

Theorem C14F_convert_everywhere_nullable :
  forall cls S rid s ss nm s0 d,
    cache_lookup S s = None -> null_inner s = Some ss -> cache_lookup S ss = Some d ->
    conv_s cls S rid s nm s0 = (let '(i, s1) := assign d s0 in Some (DOption i, s1)).
Proof. exact convert_hit_nullable. Qed.

Theorem C14F_convert_first_match :
  forall S s d,
    cache_lookup S s = Some d ->
    exists pre c ty impls post,
      cs_convert S = pre ++ (c, (ty, impls)) :: post /\
      schema_eqb (strip s) (strip c) = true /\
      (forall x, In x pre -> schema_eqb (strip s) (strip (fst x)) = false) /\
      d = DNative ty impls [].
Proof. exact cache_lookup_spec. Qed.

Theorem C14F_convert_ignores_annotations :
  forall S s s',
    strip s = strip s' ->
    (match s, s' with
     | SObj _ _ _ _ _ _ _ _ _ _ _ _ _ _ _ _ _ _ _ _ _ _ _ _, SObj _ _ _ _ _ _ _ _ _ _ _ _ _ _ _ _ _ _ _ _ _ _ _ _ => True
     | _, _ => False
     end) ->
    cache_lookup S s = cache_lookup S s'.
Proof. exact cache_lookup_strip. Qed.

Theorem C14F_replace_everywhere :
  forall cls S D T pre d sch post nat,
    convert_doc_s cls S D = Some T -> D = pre ++ (d, sch) :: post -> replaced cls S d = Some nat ->
    get T (N.of_nat (length pre) + 1) = Some (mkEntry nat []).
Proof. exact replace_entry. Qed.

Theorem C14F_replace_ignores_schema :
  forall cls S rid d sch sch', replaced cls S d <> None -> forall pre post t s0,
    conv_defs_s cls S rid (pre ++ (d, sch) :: post) t s0 = conv_defs_s cls S rid (pre ++ (d, sch') :: post) t s0.
Proof. exact replace_ignores_schema. Qed.

Theorem C14F_replace_use_sites :
  forall cls S rid ty fmt enum cst nv sv ik items ai mni mxi uq props req ap mnp mxp allo anyo oneo no ref dflt title r nm s0,
    let s := SObj ty fmt enum cst nv sv ik items ai mni mxi uq props req ap mnp mxp allo anyo oneo no ref dflt title in
    hit S s = false ->
    classify ty fmt enum cst nv sv ik items ai mni mxi uq props req ap mnp mxp allo anyo oneo no ref dflt title = Some (false, KRef r) ->
    conv_s cls S rid s nm s0 = match rid r with Some i => Some (DReference i, s0) | None => None end.
Proof. exact ref_use_site. Qed.

Theorem C14F_patch_everywhere :
  forall S T i, get (apply_patches S T) i = option_map (patch_entry S) (get T i).
Proof. exact apply_patches_get. Qed.

Theorem C14F_patch_entry :
  forall S e,
    match det_name (e_det e) with
    | Some n => patch_entry S e = mkEntry (rename_det (fst (type_patch S n)) (e_det e)) (snd (type_patch S n))
    | None => patch_entry S e = e
    end.
Proof. exact patch_entry_spec. Qed.

Theorem C14F_type_patch :
  forall S n,
    match assoc n (cs_patch S) with
    | Some (rn, ds) => fst (type_patch S n) = match rn with Some r => r | None => n end /\
                       forall x, In x (snd (type_patch S n)) <-> In x ds
    | None => type_patch S n = (n, [])
    end.
Proof. exact type_patch_spec. Qed.

Theorem C14F_patch_old_name_gone :
  forall cls S D T n r ds,
    convert_doc_s cls S D = Some T -> assoc n (cs_patch S) = Some (Some r, ds) -> r <> n ->
    forall i e, get T i = Some e -> det_name (e_det e) = Some n ->
    exists m, m <> n /\ fst (type_patch S m) = n.
Proof. exact patch_old_name_gone. Qed.

(* without settings the model under settings IS the verified converter of Algo/Convert.v (C02F, C05F,
   C03F), at every schema, name and state *)
Theorem C14F_no_settings :
  forall cls rid s nm s0, conv_s cls no_settings rid s nm s0 = conv cls rid s nm s0.
Proof. exact conv_s_no_settings. Qed.

(* ------------------------------------------------------------------ non-vacuity
   corpus/convert/settings/cases.json, cases 0-2; T_rep / T_cnv / T_pat are the type spaces the REAL
   typify produced under these settings (re-compared on every run). *)
Definition D_rep : defs := [([65]%N, (SObj (Some [TObject]) None None None (mkNumv None None None None None) (mkStrv None None None) ItemsAbsent (@nil schema) None None None false [([98]%N, (SObj None None None None (mkNumv None None None None None) (mkStrv None None None) ItemsAbsent (@nil schema) None None None false (@nil (ustring * schema)) (@nil ustring) None None None None None None None (Some [66]%N) None None)); ([99]%N, (SObj (Some [TArray]) None None None (mkNumv None None None None None) (mkStrv None None None) ItemsSingle [(SObj None None None None (mkNumv None None None None None) (mkStrv None None None) ItemsAbsent (@nil schema) None None None false (@nil (ustring * schema)) (@nil ustring) None None None None None None None (Some [66]%N) None None)] None None None false (@nil (ustring * schema)) (@nil ustring) None None None None None None None None None None))] (@nil ustring) None None None None None None None None None None)); ([66]%N, (SObj (Some [TObject]) None None None (mkNumv None None None None None) (mkStrv None None None) ItemsAbsent (@nil schema) None None None false [([100; 101; 101; 112]%N, (SObj (Some [TObject]) None None None (mkNumv None None None None None) (mkStrv None None None) ItemsAbsent (@nil schema) None None None false [([120]%N, (SObj (Some [TString]) None None None (mkNumv None None None None None) (mkStrv None None None) ItemsAbsent (@nil schema) None None None false (@nil (ustring * schema)) (@nil ustring) None None None None None None None None None None))] (@nil ustring) None None None None None None None None None None))] (@nil ustring) None None None None None None None None None None))].
Definition S_rep : csettings := (mkCs [([66]%N, ([58; 58; 109; 121; 58; 58; 66]%N, [TDisplay]))] (@nil (schema * (ustring * list trait))) (@nil (ustring * (option ustring * list ustring)))).
Definition T_rep : space := (mkSpace [(1%N, (mkEntry (DStruct [65]%N None [(mkProp [98]%N RNone POptional 3%N); (mkProp [99]%N RNone POptional 4%N)] false) (@nil ustring))); (2%N, (mkEntry (DNative [58; 58; 109; 121; 58; 58; 66]%N [TDisplay] (@nil id)) (@nil ustring))); (3%N, (mkEntry (DOption 2%N) (@nil ustring))); (4%N, (mkEntry (DVec 2%N) (@nil ustring)))] 5%N (mkSettings None (@nil ustring) false [58; 58; 32; 115; 116; 100; 32; 58; 58; 32; 99; 111; 108; 108; 101; 99; 116; 105; 111; 110; 115; 32; 58; 58; 32; 72; 97; 115; 104; 77; 97; 112]%N) false false false false (@nil ustring)).
Definition D_cnv : defs := [([65]%N, (SObj (Some [TObject]) None None None (mkNumv None None None None None) (mkStrv None None None) ItemsAbsent (@nil schema) None None None false [([112]%N, (SObj (Some [TString]) None None None (mkNumv None None None None None) (mkStrv (Some 3%N) None None) ItemsAbsent (@nil schema) None None None false (@nil (ustring * schema)) (@nil ustring) None None None None None None None None None None)); ([113]%N, (SObj (Some [TString; TNull]) None None None (mkNumv None None None None None) (mkStrv (Some 3%N) None None) ItemsAbsent (@nil schema) None None None false (@nil (ustring * schema)) (@nil ustring) None None None None None None None None None None))] [[112]%N] None None None None None None None None None None)); ([84; 105; 110; 121]%N, (SObj (Some [TString]) None None None (mkNumv None None None None None) (mkStrv (Some 3%N) None None) ItemsAbsent (@nil schema) None None None false (@nil (ustring * schema)) (@nil ustring) None None None None None None None None None (Some [116; 105; 110; 121]%N)))].
Definition S_cnv : csettings := (mkCs (@nil (ustring * (ustring * list trait))) [((SObj (Some [TString]) None None None (mkNumv None None None None None) (mkStrv (Some 3%N) None None) ItemsAbsent (@nil schema) None None None false (@nil (ustring * schema)) (@nil ustring) None None None None None None None None None None), ([58; 58; 109; 121; 58; 58; 84; 105; 110; 121]%N, [TFromStr])); ((SObj (Some [TString]) None None None (mkNumv None None None None None) (mkStrv (Some 3%N) None None) ItemsAbsent (@nil schema) None None None false (@nil (ustring * schema)) (@nil ustring) None None None None None None None None None None), ([58; 58; 110; 101; 118; 101; 114; 58; 58; 67; 104; 111; 115; 101; 110]%N, (@nil trait)))] (@nil (ustring * (option ustring * list ustring)))).
Definition T_cnv : space := (mkSpace [(1%N, (mkEntry (DStruct [65]%N None [(mkProp [112]%N RNone PRequired 3%N); (mkProp [113]%N RNone POptional 4%N)] false) (@nil ustring))); (2%N, (mkEntry (DNative [58; 58; 109; 121; 58; 58; 84; 105; 110; 121]%N [TFromStr] (@nil id)) (@nil ustring))); (3%N, (mkEntry (DNative [58; 58; 109; 121; 58; 58; 84; 105; 110; 121]%N [TFromStr] (@nil id)) (@nil ustring))); (4%N, (mkEntry (DOption 3%N) (@nil ustring)))] 5%N (mkSettings None (@nil ustring) false [58; 58; 32; 115; 116; 100; 32; 58; 58; 32; 99; 111; 108; 108; 101; 99; 116; 105; 111; 110; 115; 32; 58; 58; 32; 72; 97; 115; 104; 77; 97; 112]%N) false false false false (@nil ustring)).
Definition D_pat : defs := [([69]%N, (SObj (Some [TString]) None (Some [(JStr [97]%N); (JStr [98]%N)]) None (mkNumv None None None None None) (mkStrv None None None) ItemsAbsent (@nil schema) None None None false (@nil (ustring * schema)) (@nil ustring) None None None None None None None None None None)); ([70; 111; 111]%N, (SObj (Some [TObject]) None None None (mkNumv None None None None None) (mkStrv None None None) ItemsAbsent (@nil schema) None None None false [([98; 97; 114]%N, (SObj (Some [TObject]) None None None (mkNumv None None None None None) (mkStrv None None None) ItemsAbsent (@nil schema) None None None false [([107]%N, (SObj (Some [TInteger]) None None None (mkNumv None None None None None) (mkStrv None None None) ItemsAbsent (@nil schema) None None None false (@nil (ustring * schema)) (@nil ustring) None None None None None None None None None None))] (@nil ustring) None None None None None None None None None None))] (@nil ustring) None None None None None None None None None None))].
Definition S_pat : csettings := (mkCs (@nil (ustring * (ustring * list trait))) (@nil (schema * (ustring * list trait))) [([69]%N, (None, [[72; 97; 115; 104]%N])); ([70; 111; 111; 66; 97; 114]%N, ((Some [73; 110; 110; 101; 114]%N), [[69; 113]%N; [80; 97; 114; 116; 105; 97; 108; 69; 113]%N; [69; 113]%N]))]).
Definition T_pat : space := (mkSpace [(1%N, (mkEntry (DEnum [69]%N None TagExternal [(mkVariant [97]%N [65]%N VSimple); (mkVariant [98]%N [66]%N VSimple)] false [AllSimpleVariants]) [[72; 97; 115; 104]%N])); (2%N, (mkEntry (DStruct [70; 111; 111]%N None [(mkProp [98; 97; 114]%N RNone POptional 6%N)] false) (@nil ustring))); (3%N, (mkEntry (DInteger [105; 54; 52]%N) (@nil ustring))); (4%N, (mkEntry (DOption 3%N) (@nil ustring))); (5%N, (mkEntry (DStruct [73; 110; 110; 101; 114]%N None [(mkProp [107]%N RNone POptional 4%N)] false) [[69; 113]%N; [80; 97; 114; 116; 105; 97; 108; 69; 113]%N])); (6%N, (mkEntry (DOption 5%N) (@nil ustring)))] 7%N (mkSettings None (@nil ustring) false [58; 58; 32; 115; 116; 100; 32; 58; 58; 32; 99; 111; 108; 108; 101; 99; 116; 105; 111; 110; 115; 32; 58; 58; 32; 72; 97; 115; 104; 77; 97; 112]%N) false false false false (@nil ustring)).

(* replacement: definition B (with an inline struct that is never generated) -> ::my::B; both use sites
   (an optional member and the items of an array) point at the native entry *)
Example C14F_ex_replace :
  in_frag_s Sanitize.ascii_classes S_rep D_rep = true /\
  convert_doc_s Sanitize.ascii_classes S_rep D_rep = Some T_rep /\
  get_det T_rep 2 = Some (DNative (ulit "::my::B") [TDisplay] []) /\
  get_det T_rep 3 = Some (DOption 2) /\ get_det T_rep 4 = Some (DVec 2) /\
  length (sp_entries T_rep) = 4%nat.
Proof. repeat split; vm_compute; reflexivity. Qed.

Example C14F_ex_replace_by_theorem : get T_rep 2 = Some (mkEntry (DNative (ulit "::my::B") [TDisplay] []) []).
Proof.
  destruct C14F_ex_replace as (_ & Hc & _).
  apply (C14F_replace_everywhere Sanitize.ascii_classes S_rep D_rep T_rep
           [nth 0 D_rep (nil, SBool true)] (fst (nth 1 D_rep (nil, SBool true))) (snd (nth 1 D_rep (nil, SBool true))) []);
    [exact Hc|reflexivity|vm_compute; reflexivity].
Qed.

(* conversion: `{"type":"string","maxLength":3}` -> ::my::Tiny at a member with a description, inside a
   nullable member, and at the definition `Tiny` (with a title; the native is stored without newtype
   because its last path segment is the definition's name); the second, equal conversion never wins *)
Example C14F_ex_convert :
  in_frag_s Sanitize.ascii_classes S_cnv D_cnv = true /\
  convert_doc_s Sanitize.ascii_classes S_cnv D_cnv = Some T_cnv /\
  get_det T_cnv 2 = Some (DNative (ulit "::my::Tiny") [TFromStr] []) /\
  get_det T_cnv 3 = Some (DNative (ulit "::my::Tiny") [TFromStr] []) /\
  get_det T_cnv 4 = Some (DOption 3) /\
  forallb (fun ie => match e_det (snd ie) with DNewtype _ _ _ _ => false | _ => true end) (sp_entries T_cnv) = true.
Proof. repeat split; vm_compute; reflexivity. Qed.

(* patch: the inline type FooBar is renamed to Inner with derives {Eq, PartialEq} (given as Eq, PartialEq, Eq),
   E gets Hash; ids are those of the unpatched run; no entry is called FooBar *)
Example C14F_ex_patch :
  in_frag_s Sanitize.ascii_classes S_pat D_pat = true /\
  convert_doc_s Sanitize.ascii_classes S_pat D_pat = Some T_pat /\
  option_map (fun e => (det_name (e_det e), e_derives e)) (get T_pat 5)
    = Some (Some (ulit "Inner"), [ulit "Eq"; ulit "PartialEq"]) /\
  option_map (fun e => (det_name (e_det e), e_derives e)) (get T_pat 1) = Some (Some (ulit "E"), [ulit "Hash"]) /\
  existsb (fun n => ustr_eqb n (ulit "FooBar")) (entry_names T_pat) = false /\
  option_map sp_entries (convert_doc_s Sanitize.ascii_classes no_settings D_pat)
    = option_map (fun T => map (fun ie => (fst ie, snd ie)) (sp_entries T))
                 (convert_doc Sanitize.ascii_classes D_pat).
Proof. repeat split; vm_compute; reflexivity. Qed.
