(* Props/Flatten.v — what the model (IR/Serde.v, several flattened members:
   [de_flats]) says about typify's flattened-union structs
   (`#[serde(flatten)] subtype_i: Option<S_i>` for an anyOf of non-exclusive
   object branches).  Statements only; proofs in Proofs/FlattenProofs.v (by
   computation on the real type spaces of the curated witnesses) and
   Proofs/SerdeProofs.v.  They EXPLAIN findings C03-F4 and C05-F8 on the model;
   the model is tied to the compiled code by K5. *)
From Coq Require Import String ZArith NArith QArith List Bool.
From Typify Require Import Base.Json Spec.Schema Spec.Valid IR.TypeIR IR.Serde
  Proofs.SerdeProofs Proofs.FlattenProofs.
Import ListNotations.
Close Scope Q_scope.
Close Scope string_scope.
Open Scope list_scope.

(* C03-F4 (corpus/C03/anyof-overlapping-objects.json, Three, {"mode":"b","y":"s"}):
   the instance is valid; the first subtype takes the slot "mode", rejects its
   value and becomes None, but the slot stays taken, so the second subtype is read
   without "mode"; the output {"y":"s"} has lost the declared member. *)
Theorem Flatten_failed_subtype_keeps_slots :
  forall re native fmt,
    verdict re fmt fl_three_defs 3 (SRef u_Three) fl_three_instance = Some true /\
    de re native fl_three_space 6 fl_three_id fl_three_instance = Some fl_three_value /\
    ser fl_three_space 6 fl_three_id fl_three_value = Some (JObj [(u_y, JStr u_s)]).
Proof. exact failed_subtype_keeps_slots. Qed.

(* C05-F8 (corpus/C05/F8-anyof-overlapping-objects.json, Shipment, {"kind":7}):
   every branch rejects the instance, the struct accepts it (first subtype None,
   second subtype read from nothing) and serialises it as {}. *)
Theorem Flatten_all_none_accepts :
  forall re native fmt,
    verdict re fmt fl_ship_defs 3 (SRef u_Shipment) fl_ship_instance = Some false /\
    de re native fl_ship_space 6 fl_ship_id fl_ship_instance = Some fl_ship_value /\
    ser fl_ship_space 6 fl_ship_id fl_ship_value = Some (JObj []).
Proof. exact nothing_matches_accepted. Qed.

(* the slots a flattened subtype leaves are an order-preserving sublist of the
   slots it was given: what it took stays taken, whether or not it succeeded *)
Theorem Flatten_remaining_slots_sublist :
  forall (de : id -> json -> option rval) qs slots, Sub (flat_rest de qs slots) slots.
Proof. exact flat_rest_sub. Qed.

(* with at most one flattened member, a map, [de_struct_obj] is what it was before
   several flattened members were modelled *)
Theorem Flatten_one_map_unchanged :
  forall T (de : id -> json -> option rval) dflt ps deny kvs,
    match flat_props ps with
    | [] => True
    | [fp] => is_map_member T fp
    | _ => False
    end ->
    de_struct_obj T de dflt ps deny kvs =
    match de_named T de dflt ps kvs with
    | None => None
    | Some named =>
        let unk := unknown_entries ps kvs in
        match flat_props ps with
        | [] => if deny && negb (Nat.eqb (length unk) 0) then None else Some named
        | [fp] =>
            match get_det T (p_ty fp) with
            | Some (DMap _ _) =>
                match de (p_ty fp) (JObj unk) with
                | Some m => Some (named ++ [(p_name fp, m)])
                | None => None
                end
            | _ => None
            end
        | _ => None
        end
    end.
Proof. exact de_struct_obj_one_flatten_unchanged. Qed.
