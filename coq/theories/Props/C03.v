(* C03 — round trip keeps declared data, stays schema-valid and is idempotent.
   Property theorems only; each is closed by `exact <lemma>`.

   Models: IR/Serde.v ([de], [ser], [skip_if]: what serde does for a type of the
   generated type space; tied to the compiled generated code on every run by
   channel K5, including the second round trip), Check/RoundTrip.v ([prune],
   [contained], the checker-defined class [rt_simple], [decl_only]).
   Proofs: Proofs/RoundTripProofs.v.

   [re_match] (regex engine) and [native_ok] (FromStr/Deserialize of uuid /
   chrono / std::net types) are arbitrary.

   Class of types ([rt_simple T t = true], evaluated by vm_compute on the type
   space the real typify produced): every type reachable from [t] is a scalar,
   string, native, JsonValue, Option (not of an Option), Box, Vec/Set/Array/
   Tuple, Map with String keys, newtype (unconstrained, string-constrained, or
   allow/deny list over bool/integer/String), struct with Required / Optional /
   Default members (none flattened, distinct identifiers and wire names), enum
   tagged externally / internally (unit and struct variants, tag not a member
   name) / adjacently (tag <> content).  Untagged enums are outside the class:
   see [C03_untagged_first] and [C03_untagged_fixed_point_refuted]. *)
From Coq Require Import String ZArith NArith QArith List Bool.
From Typify Require Import Base.Json Spec.Schema Spec.Valid IR.TypeIR IR.Serde Check.RoundTrip
  Proofs.RoundTripProofs.
Import ListNotations.
Close Scope Q_scope.
Close Scope string_scope.
Close Scope N_scope.
Open Scope list_scope.
Open Scope nat_scope.

(* Serialising a value that came out of the deserialiser never fails. *)
Theorem C03_ser_total :
  forall re_match native_ok T t,
    rt_simple T t = true ->
    forall f v x, de re_match native_ok T f t v = Some x ->
    exists w, ser T (S f) t x = Some w.
Proof. exact ser_total. Qed.

(* The output is a fixed point of a further round trip — in the strong form:
   it re-deserialises to the SAME Rust value (hence serialises to itself), at
   every fuel above the one the first deserialisation needed. *)
Theorem C03_rt_idempotent :
  forall re_match native_ok T t,
    rt_simple T t = true ->
    forall f v x, de re_match native_ok T f t v = Some x ->
    forall g w, f < g -> ser T g t x = Some w ->
      de re_match native_ok T g t w = Some x /\
      (forall x', de re_match native_ok T g t w = Some x' -> ser T g t x' = Some w).
Proof. exact rt_idempotent. Qed.

(* The statement the induction proves: one output [w] for all larger fuels. *)
Theorem C03_rt_fixed_point :
  forall re_match native_ok T t,
    rt_simple T t = true ->
    forall f v x, de re_match native_ok T f t v = Some x ->
    exists w, (forall g, f < g -> ser T g t x = Some w /\ de re_match native_ok T g t w = Some x)
              /\ (w = JNull -> v = JNull).
Proof. exact rt_fixed_point. Qed.

(* Declared data is kept: for an instance that contains only declared members
   in canonical shape ([decl_only]: every object key at a struct is a declared
   wire name, keys distinct, structs given as objects, enum instances in the
   form the schema describes — a unit variant carries no payload), the pruned
   instance is contained in the pruned output: objects member-wise, arrays
   element-wise with equal length, numbers numerically.  Members are omitted
   only when [skip_if] holds (Optional state, value None / [] / {}), in which
   case the instance member was null / [] / {} and is pruned as well; members
   may be added (defaults, `null` for a required Option). *)
Theorem C03_rt_contains :
  forall re_match native_ok T t,
    rt_simple T t = true ->
    forall f v x, de re_match native_ok T f t v = Some x -> decl_only T f t v = true ->
    forall g w, f < g -> ser T g t x = Some w -> contained (prune v) (prune w).
Proof. exact rt_contains. Qed.

(* A non-null input is never turned into the omittable value null. *)
Theorem C03_rt_null_only_from_null :
  forall re_match native_ok T t,
    rt_simple T t = true ->
    forall f v x, de re_match native_ok T f t v = Some x ->
    forall g w, f < g -> ser T g t x = Some w -> w = JNull -> v = JNull.
Proof.
  intros re nat T t H f v x Hd g w Hg Hs.
  destruct (rt_fixed_point re nat T t H f v x Hd) as (w0 & Hw & Hn).
  destruct (Hw g Hg) as [A _]. rewrite A in Hs. injection Hs as <-. exact Hn.
Qed.

(* ---- DESIGN 3.7 (fixed in /repo by b9da3ef; the model's [skip_if] looks
   through one Box like generate_serde_attr now does): an Optional member of
   type Box<Option<_>> holding None is skipped, an absent one is read as None,
   and nothing is emitted for it. *)
Theorem C03_boxed_option_is_skipped :
  forall T sr dr p b u g fs,
    p_state p = POptional -> p_rename p <> RFlatten ->
    get_det T (p_ty p) = Some (DBox b) -> get_det T b = Some (DOption u) ->
    skip_if T p ROptNone = true /\
    missing T dr (default_val T (S (S g))) p = Some ROptNone /\
    ser_fields T sr [p] ((p_name p, ROptNone) :: fs) = Some [].
Proof.
  intros T sr dr p b u g fs Hs Hr Ht Hb. split; [|split].
  - exact (boxed_option_skipped T p b u Hs Ht Hb).
  - exact (boxed_option_absent_is_none T p b u dr g Hs Ht Hb).
  - exact (boxed_option_member_omitted T sr p b u fs Hs Hr Ht Hb).
Qed.

(* The regression witness: the type space the real typify dumps for
     A = {properties:{b:{$ref B}}},  B = {properties:{next:{$ref B}}}
   (corpus/C03/ab-boxed-option.json; entries compared with the live dump on
   every run). *)
Definition ab_space : space :=
  (mkSpace [(1%N, (mkEntry (DStruct [65]%N None [(mkProp [98]%N RNone POptional 3%N)] false) (@nil ustring)));
            (2%N, (mkEntry (DStruct [66]%N None [(mkProp [110; 101; 120; 116]%N RNone POptional 4%N)] false) (@nil ustring)));
            (3%N, (mkEntry (DOption 2%N) (@nil ustring)));
            (4%N, (mkEntry (DBox 3%N) (@nil ustring)))] 5%N
     (mkSettings None (@nil ustring) false [72]%N) false false false false (@nil ustring)).

Definition ab_defs : defs :=
  [([65]%N, (SObj (Some [TObject]) None None None (mkNumv None None None None None) (mkStrv None None None) ItemsAbsent (@nil schema) None None None false [([98]%N, (SObj None None None None (mkNumv None None None None None) (mkStrv None None None) ItemsAbsent (@nil schema) None None None false (@nil (ustring * schema)) (@nil ustring) None None None None None None None (Some [66]%N) None None))] (@nil ustring) None None None None None None None None None None));
   ([66]%N, (SObj (Some [TObject]) None None None (mkNumv None None None None None) (mkStrv None None None) ItemsAbsent (@nil schema) None None None false [([110; 101; 120; 116]%N, (SObj None None None None (mkNumv None None None None None) (mkStrv None None None) ItemsAbsent (@nil schema) None None None false (@nil (ustring * schema)) (@nil ustring) None None None None None None None (Some [66]%N) None None))] (@nil ustring) None None None None None None None None None None))].

Definition no_tbl : ustring -> ustring -> bool := fun _ _ => false.

(* v = {} and v = {"next":{}} are valid under B and round-trip to themselves;
   the outputs are valid again (before b9da3ef the first gave {"next":null},
   invalid under B: fixed finding C03-F1). *)
Theorem C03_boxed_option_round_trip_valid :
  rt_simple ab_space 2%N = true /\
  (exists x, de no_tbl no_tbl ab_space 10 2%N (JObj []) = Some x /\
             ser ab_space 10 2%N x = Some (JObj [])) /\
  valid no_tbl no_tbl ab_defs 10 (SRef [66]%N) (JObj []) = true /\
  (exists x, de no_tbl no_tbl ab_space 10 2%N (JObj [([110; 101; 120; 116]%N, JObj [])]) = Some x /\
             ser ab_space 10 2%N x = Some (JObj [([110; 101; 120; 116]%N, JObj [])])) /\
  valid no_tbl no_tbl ab_defs 10 (SRef [66]%N) (JObj [([110; 101; 120; 116]%N, JObj [])]) = true /\
  valid no_tbl no_tbl ab_defs 10 (SRef [66]%N) (JObj [([110; 101; 120; 116]%N, JNull)]) = false.
Proof.
  split; [vm_compute; reflexivity|]. split; [eexists; split; vm_compute; reflexivity|].
  split; [vm_compute; reflexivity|]. split; [eexists; split; vm_compute; reflexivity|].
  split; vm_compute; reflexivity.
Qed.

(* ---- untagged enums: the search returns the first accepting variant
   ([untagged_payload] = the variant's payload deserialiser, a struct variant
   not being read from an array) ... *)
Theorem C03_untagged_first :
  forall T dr df deny vs i j x,
    de_untagged T dr df deny vs i j = Some x ->
    exists k v px, nth_error vs k = Some v /\ x = REnum (i + k) px /\
      untagged_payload T dr df deny (v_det v) j = Some px /\
      (forall k' v', k' < k -> nth_error vs k' = Some v' -> untagged_payload T dr df deny (v_det v') j = None).
Proof. exact de_untagged_first. Qed.

(* ... so the output of variant k re-deserialises as the first variant
   accepting it, which need not be k and need not serialise to the same JSON.
   Witness: the entries typify dumps for definition U2 of corpus/C03/
   untagged-swallow-oneof-null.json (variant identifiers shortened; the real
   dump is exercised on every run by K5 and by the direct evaluation)
     oneOf[{a, c default 5, additionalProperties:false}, {a, b nullable}] :
   {"a":1,"b":null} -> Variant1{a:1,b:None} -> {"a":1} -> Variant0{a:1,c:5}
   -> {"a":1,"c":5}.  (Finding C03-F2; replayed on the compiled code.) *)
Definition u2_space : space :=
  (mkSpace [(2%N, (mkEntry (DEnum [85; 50]%N None TagUntagged
              [(mkVariant [86; 48]%N [86; 48]%N (VStruct [(mkProp [97]%N RNone PRequired 3%N); (mkProp [99]%N RNone (PDefault (JInt (5)%Z)) 3%N)]));
               (mkVariant [86; 49]%N [86; 49]%N (VStruct [(mkProp [97]%N RNone PRequired 3%N); (mkProp [98]%N RNone POptional 4%N)]))]
              true (@nil bespoke)) (@nil ustring)));
            (3%N, (mkEntry (DInteger [105; 54; 52]%N) (@nil ustring)));
            (4%N, (mkEntry (DOption 3%N) (@nil ustring)))] 5%N
     (mkSettings None (@nil ustring) false [72]%N) false false false false (@nil ustring)).

Theorem C03_untagged_fixed_point_refuted :
  exists v x w x' w',
    de no_tbl no_tbl u2_space 10 2%N v = Some x /\ ser u2_space 10 2%N x = Some w /\
    de no_tbl no_tbl u2_space 10 2%N w = Some x' /\ ser u2_space 10 2%N x' = Some w' /\
    json_eqb w w' = false.
Proof.
  exists (JObj [([97]%N, JInt 1); ([98]%N, JNull)]).
  eexists. eexists. eexists. eexists.
  split; [vm_compute; reflexivity|]. split; [vm_compute; reflexivity|].
  split; [vm_compute; reflexivity|]. split; [vm_compute; reflexivity|]. vm_compute. reflexivity.
Qed.

(* ---- non-vacuity: a recursive type with renamed, optional and defaulted
   members and an internally tagged enum is in the class, and the hypotheses
   of the theorems are met by a concrete instance. *)
Definition ex_space : space :=
  (mkSpace [(1%N, (mkEntry (DStruct [76]%N None
               [(mkProp [104]%N (RRename [104; 45; 100]%N) PRequired 2%N);
                (mkProp [116]%N RNone POptional 3%N);
                (mkProp [110]%N RNone (PDefault (JInt 7%Z)) 2%N);
                (mkProp [107]%N RNone PRequired 6%N)] true) (@nil ustring)));
            (2%N, (mkEntry (DInteger [105; 54; 52]%N) (@nil ustring)));
            (3%N, (mkEntry (DOption 4%N) (@nil ustring)));
            (4%N, (mkEntry (DBox 1%N) (@nil ustring)));
            (5%N, (mkEntry DString (@nil ustring)));
            (6%N, (mkEntry (DEnum [75]%N None (TagInternal [107]%N)
               [(mkVariant [97]%N [65]%N VSimple);
                (mkVariant [98]%N [66]%N (VStruct [(mkProp [115]%N RNone POptional 7%N)]))] false (@nil bespoke)) (@nil ustring)));
            (7%N, (mkEntry (DVec 5%N) (@nil ustring)))] 8%N
     (mkSettings None (@nil ustring) false [72]%N) false false false false (@nil ustring)).

Definition ex_inst : json :=
  JObj [([104; 45; 100]%N, JInt 1);
        ([107]%N, JObj [([107]%N, JStr [98]%N); ([115]%N, JArr [])]);
        ([116]%N, JObj [([104; 45; 100]%N, JInt 2); ([116]%N, JNull); ([107]%N, JObj [([107]%N, JStr [97]%N)])])].

Example C03_example_in_class : rt_simple ex_space 1%N = true.
Proof. vm_compute. reflexivity. Qed.

Example C03_example_accepted :
  exists x w, de no_tbl no_tbl ex_space 12 1%N ex_inst = Some x /\ ser ex_space 13 1%N x = Some w /\
              decl_only ex_space 12 1%N ex_inst = true /\ containedb (prune ex_inst) (prune w) = true /\
              json_eqb w ex_inst = false.
Proof.
  eexists. eexists. split; [vm_compute; reflexivity|]. split; [vm_compute; reflexivity|].
  split; [vm_compute; reflexivity|]. split; vm_compute; reflexivity.
Qed.
