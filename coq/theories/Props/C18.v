(* Props/C18.v — C18: the builder interface constructs exactly the valid structs.

   Statements only; proofs are in Proofs/BuilderProofs.v, the model in Algo/Builder.v.
   All theorems quantify over every struct (any list of fields), every sequence of setter
   calls [calls : list (field identifier * argument)] (any subset, any order, repeats), every
   type of Rust values V and of setter arguments src, and every behaviour of the external
   functions Default::default (default_of), the emitted default functions (call_fn), TryInto
   (conv), serde's flatten fallback (flat_none) and sanitize (snake).

   [last_set src n calls] (Proofs) is the argument of the LAST call of setter n, if any.
   Hypothesis [NoDup (map f_name fs)]: field identifiers are pairwise distinct (otherwise the
   generated module is rejected by rustc, E0124; property C08/C01). *)
From Coq Require Import String Ascii ZArith NArith List Bool.
From Typify Require Import Base.Json IR.TypeIR Algo.Builder Proofs.BuilderProofs.
Import ListNotations.
Close Scope string_scope.
Open Scope N_scope.

Section C18.
  Variable V : Type.
  Variable src : Type.
  Variable default_of : id -> V.
  Variable call_fn : ustring -> V.
  Variable conv : id -> src -> V + ustring.
  Variable flat_none : id -> option V.
  Variable snake : ustring -> ustring.

  Notation init_slot := (init_slot V default_of call_fn).
  Notation init := (init V default_of call_fn).
  Notation apply := (apply V src conv).
  Notation build := (build V).
  Notation from_struct := (from_struct V).
  Notation de_missing := (de_missing V default_of call_fn flat_none).
  Notation last_set := (last_set src).

  (* try_into() succeeds exactly when every field classified None(err) — no default — has been
     set, and the LAST value given to every set field converted successfully (setters overwrite:
     a later good value heals an earlier failure, a later failure spoils an earlier good value). *)
  Theorem C18_build_ok_iff : forall (fs : list field) (calls : list (ustring * src)),
    NoDup (map f_name fs) ->
    ((exists x, build (apply fs calls (init fs)) = inl x) <->
     (forall f, In f fs ->
        match last_set (f_name f) calls with
        | Some a => exists v, conv (f_ty f) a = inl v
        | None => f_dfun f <> DFNone
        end)).
  Proof. exact (build_ok_iff_main V src default_of call_fn conv). Qed.

  (* the built struct: every field, in declaration order, holds the converted last argument,
     or — never set — the builder default (Default::default() / the default function) *)
  Theorem C18_build_value : forall fs calls x,
    NoDup (map f_name fs) ->
    build (apply fs calls (init fs)) = inl x ->
    Forall2 (fun f nv =>
               fst nv = f_name f /\
               match last_set (f_name f) calls with
               | Some a => conv (f_ty f) a = inl (snd nv)
               | None => init_slot f = SOk (snd nv)
               end) fs x.
  Proof. exact (build_value_main V src default_of call_fn conv). Qed.

  (* the error is that of the FIRST failing slot in declaration order: a missing value
     ("no value supplied for f") or a failed conversion ("error converting supplied value for f: e") *)
  Theorem C18_build_first_error : forall fs calls msg,
    NoDup (map f_name fs) ->
    (build (apply fs calls (init fs)) = inr msg <->
     exists fs1 f fs2, fs = fs1 ++ f :: fs2 /\
       (forall g, In g fs1 ->
          match last_set (f_name g) calls with
          | Some a => exists v, conv (f_ty g) a = inl v
          | None => f_dfun g <> DFNone
          end) /\
       match last_set (f_name f) calls with
       | Some a => exists e, conv (f_ty f) a = inr e /\
                     msg = us "error converting supplied value for " ++ f_name f ++ us ": " ++ e
       | None => f_dfun f = DFNone /\ msg = us "no value supplied for " ++ f_name f
       end).
  Proof. exact (build_first_error_main V src default_of call_fn conv). Qed.

  (* "without a default" on the builder side is exactly StructPropertyState::Required *)
  Theorem C18_required_iff_no_default : forall T n ps fs,
    emit_fields snake T n ps = Done fs ->
    Forall2 (fun p f => f_name f = p_name p /\ f_ty f = p_ty p /\
                        (f_dfun f = DFNone <-> p_state p = PRequired)) ps fs.
  Proof. exact (required_iff_no_default_main snake). Qed.

  (* builder default = deserialisation default, two separately written definitions
     ([init_slot] from the DefaultFunction, [de_missing] from the #[serde(..)] attribute list),
     for every field that is not #[serde(flatten)] *)
  Theorem C18_unset_defaults_eq_de : forall T n ps fs f v,
    emit_fields snake T n ps = Done fs -> In f fs ->
    has_flatten (f_attrs f) = false ->
    init_slot f = SOk v ->
    de_missing T f = Some v.
  Proof. exact (unset_defaults_eq_de_main snake V default_of call_fn flat_none). Qed.

  (* conversely a member serde can do without is either a builder default with the same value
     or a Required property of Option type, possibly behind one Box (serde is lenient there, the builder is not: the
     schema lists it in `required`) *)
  Theorem C18_de_defaults_eq_unset : forall T n ps fs f v,
    emit_fields snake T n ps = Done fs -> In f fs ->
    has_flatten (f_attrs f) = false ->
    de_missing T f = Some v ->
    init_slot f = SOk v \/
    (f_dfun f = DFNone /\ (exists t, option_map (unboxed T) (get_det T (f_ty f)) = Some (DOption t)) /\
     v = default_of (f_ty f)).
  Proof. exact (de_defaults_eq_unset_main snake V default_of call_fn flat_none). Qed.

  (* … hence in a successfully built struct every unset non-flattened field has the value
     deserialisation of an object without that member gives *)
  Theorem C18_unset_defaults_built_eq_de : forall T n ps fs calls x,
    emit_fields snake T n ps = Done fs ->
    NoDup (map f_name fs) ->
    build (apply fs calls (init fs)) = inl x ->
    Forall2 (fun f nv => fst nv = f_name f /\
                         (last_set (f_name f) calls = None ->
                          has_flatten (f_attrs f) = false ->
                          de_missing T f = Some (snd nv))) fs x.
  Proof. exact (unset_defaults_built_eq_de_main snake V src default_of call_fn conv flat_none). Qed.

  (* a setter whose last argument fails conversion makes the build fail … *)
  Theorem C18_bad_setter_fails_build : forall fs calls f a e,
    NoDup (map f_name fs) -> In f fs ->
    last_set (f_name f) calls = Some a -> conv (f_ty f) a = inr e ->
    exists msg, build (apply fs calls (init fs)) = inr msg.
  Proof. exact (bad_setter_fails_build_main V src default_of call_fn conv). Qed.

  (* … and when it is the first failing slot the message names the field (its Rust identifier) *)
  Theorem C18_bad_setter_names_prop : forall fs1 f fs2 calls a e,
    NoDup (map f_name (fs1 ++ f :: fs2)) ->
    (forall g, In g fs1 ->
       match last_set (f_name g) calls with
       | Some a => exists v, conv (f_ty g) a = inl v
       | None => f_dfun g <> DFNone
       end) ->
    last_set (f_name f) calls = Some a -> conv (f_ty f) a = inr e ->
    build (apply (fs1 ++ f :: fs2) calls (init (fs1 ++ f :: fs2))) =
      inr (us "error converting supplied value for " ++ f_name f ++ us ": " ++ e).
  Proof. exact (bad_setter_names_prop_main V src default_of call_fn conv). Qed.

  Theorem C18_missing_names_prop : forall fs1 f fs2 calls,
    NoDup (map f_name (fs1 ++ f :: fs2)) ->
    (forall g, In g fs1 ->
       match last_set (f_name g) calls with
       | Some a => exists v, conv (f_ty g) a = inl v
       | None => f_dfun g <> DFNone
       end) ->
    last_set (f_name f) calls = None -> f_dfun f = DFNone ->
    build (apply (fs1 ++ f :: fs2) calls (init (fs1 ++ f :: fs2))) =
      inr (us "no value supplied for " ++ f_name f).
  Proof. exact (missing_names_prop_main V src default_of call_fn conv). Qed.

  (* an earlier failing slot masks every later one: two call sequences that agree on the fields
     up to and including the first failing field f give the same error, whatever they do to the
     fields declared after f (set, unset, failing conversions) *)
  Theorem C18_earlier_failure_masks_later : forall fs1 f fs2 calls calls' msg,
    NoDup (map f_name (fs1 ++ f :: fs2)) ->
    (forall g, In g (fs1 ++ [f]) -> last_set (f_name g) calls' = last_set (f_name g) calls) ->
    (forall g, In g fs1 ->
       match last_set (f_name g) calls with
       | Some a => exists v, conv (f_ty g) a = inl v
       | None => f_dfun g <> DFNone
       end) ->
    match last_set (f_name f) calls with
    | Some a => exists e, conv (f_ty f) a = inr e /\
                  msg = us "error converting supplied value for " ++ f_name f ++ us ": " ++ e
    | None => f_dfun f = DFNone /\ msg = us "no value supplied for " ++ f_name f
    end ->
    build (apply (fs1 ++ f :: fs2) calls' (init (fs1 ++ f :: fs2))) = inr msg.
  Proof. exact (earlier_failure_masks_later_main V src default_of call_fn conv). Qed.

  (* setters overwrite: the builder state depends only on the last argument of each setter *)
  Theorem C18_setter_overwrites : forall fs calls calls',
    NoDup (map f_name fs) ->
    (forall f, In f fs -> last_set (f_name f) calls = last_set (f_name f) calls') ->
    apply fs calls (init fs) = apply fs calls' (init fs).
  Proof. exact (setter_overwrites_main V src default_of call_fn conv). Qed.

  (* struct -> builder -> struct is the identity *)
  Theorem C18_from_then_build_id : forall x : list (ustring * V), build (from_struct x) = inl x.
  Proof. exact (from_then_build_id_main V). Qed.
End C18.

(* Type::builder(): Some exactly for struct entries when struct_builder is on, with path
   [type_mod ::] builder :: Name … *)
Theorem C18_builder_path : forall T i p,
  builder_path T i = Some p <->
  s_builder (sp_settings T) = true /\
  exists name d ps dn, get_det T i = Some (DStruct name d ps dn) /\
    p = match s_type_mod (sp_settings T) with Some m => [m] | None => [] end ++ [us "builder"; name].
Proof. exact builder_path_spec. Qed.

(* … and the item it names is emitted into `mod builder` *)
Theorem C18_builder_path_item : forall T i p,
  builder_path T i = Some p ->
  exists name, last p [] = name /\ In name (builder_items T) /\
               nth_error (rev p) 1 = Some (us "builder").
Proof. exact builder_path_item. Qed.

(* ------------------------------------------------------------------ *)
(* Known departures (findings C18-F1, C18-F2): flattened members.  The exclusion
   [has_flatten (f_attrs f) = false] of C18_unset_defaults_eq_de is exactly their complement. *)

Definition Known_flatten_required (f : field) : Prop :=
  has_flatten (f_attrs f) = true /\ f_dfun f = DFNone.
Definition Known_flatten_optional (f : field) : Prop :=
  has_flatten (f_attrs f) = true /\ f_dfun f = DFDefault.

(* struct S { a: i64 (required), #[serde(flatten)] extra: HashMap<String, i64> } — what typify
   produces for {"required":["a"],"properties":{"a":{"type":"integer"}},"additionalProperties":{"type":"integer"}} *)
Definition wit_space1 : space :=
  mkSpace
    [(0, mkEntry (DStruct (us "S") None
                    [mkProp (us "a") RNone PRequired 3; mkProp (us "extra") RFlatten PRequired 1] false) []);
     (1, mkEntry (DMap 2 3) []); (2, mkEntry DString []); (3, mkEntry (DInteger (us "i64")) [])]
    4 (mkSettings None [] true (us "::std::collections::HashMap")) false false false false [].

(* F1: every schema-required property is set and converts, deserialisation of the same object
   fills `extra` with the empty map, but the build fails asking for `extra` *)
Theorem C18_flatten_required_refuted :
  exists fs f,
    struct_fields (mkTables [] [] [] [] []) wit_space1 0 = Done fs /\ In f fs /\
    Known_flatten_required f /\
    de_missing json (fun _ => JObj []) (fun _ => JNull) (fun _ => Some (JObj [])) wit_space1 f = Some (JObj []) /\
    build json (apply json N (fun _ _ => inl (JInt 1)) fs [(us "a", 0)]
                  (init json (fun _ => JObj []) (fun _ => JNull) fs))
      = inr (us "no value supplied for extra").
Proof.
  eexists. eexists. split; [vm_compute; reflexivity|].
  split; [right; left; reflexivity|].
  split; [split; reflexivity|]. split; reflexivity.
Qed.

(* struct U { #[serde(flatten, default, ..)] subtype_0: Option<USubtype0> } with USubtype0 { p: Option<String> } *)
Definition wit_space2 : space :=
  mkSpace
    [(0, mkEntry (DStruct (us "U") None [mkProp (us "subtype_0") RFlatten POptional 1] false) []);
     (1, mkEntry (DOption 2) []);
     (2, mkEntry (DStruct (us "USubtype0") None [mkProp (us "p") RNone POptional 3] false) []);
     (3, mkEntry (DOption 4) []); (4, mkEntry DString [])]
    5 (mkSettings None [] true (us "::std::collections::HashMap")) false false false false [].

(* F2: the builder default (None, serialised null) differs from what deserialising the empty
   object gives (Some(USubtype0 { p: None }), serialised {}) *)
Theorem C18_flatten_optional_refuted :
  exists fs f v w,
    struct_fields (mkTables [] [] [] [] []) wit_space2 0 = Done fs /\ In f fs /\
    Known_flatten_optional f /\
    init_slot json (fun _ => JNull) (fun _ => JNull) f = SOk v /\
    de_missing json (fun _ => JNull) (fun _ => JNull) (fun _ => Some (JObj [])) wit_space2 f = Some w /\
    v <> w.
Proof.
  eexists. eexists. eexists. eexists. split; [vm_compute; reflexivity|].
  split; [left; reflexivity|].
  split; [split; reflexivity|]. split; [reflexivity|]. split; [reflexivity|]. discriminate.
Qed.

(* ------------------------------------------------------------------ *)
(* non-vacuity: the hypotheses are satisfiable and both outcomes occur *)

Definition ex_fields : list field :=
  [mkField (us "a") 3 [] DFNone;
   mkField (us "b") 5 [SDefault; SSkipIf (us "::std::option::Option::is_none")] DFDefault;
   mkField (us "c") 6 [SDefaultFn (us "defaults::default_bool::<true>")]
           (DFCustom (us "defaults::default_bool::<true>"))].

(* arguments: 0 converts to 7, 1 fails with "bad" *)
Definition ex_conv (t : id) (k : N) : json + ustring :=
  if N.eqb k 0 then inl (JInt 7) else inr (us "bad").

Example C18_ex_nodup : NoDup (map f_name ex_fields).
Proof.
  repeat constructor; cbn; intros H; repeat (destruct H as [H|H]; [discriminate|]); exact H.
Qed.

Example C18_ex_ok :
  build json (apply json N ex_conv ex_fields [(us "a", 1); (us "a", 0)]
                (init json (fun _ => JNull) (fun _ => JBool true) ex_fields))
  = inl [(us "a", JInt 7); (us "b", JNull); (us "c", JBool true)].
Proof. vm_compute. reflexivity. Qed.

Example C18_ex_missing :
  build json (apply json N ex_conv ex_fields [(us "c", 0)]
                (init json (fun _ => JNull) (fun _ => JBool true) ex_fields))
  = inr (us "no value supplied for a").
Proof. vm_compute. reflexivity. Qed.

Example C18_ex_bad_then_masked :
  build json (apply json N ex_conv ex_fields [(us "a", 0); (us "b", 1); (us "c", 1)]
                (init json (fun _ => JNull) (fun _ => JBool true) ex_fields))
  = inr (us "error converting supplied value for b: bad").
Proof. vm_compute. reflexivity. Qed.

Example C18_ex_emit :
  struct_fields (mkTables [] [] [] [] []) wit_space1 0 =
  Done [mkField (us "a") 3 [] DFNone; mkField (us "extra") 1 [SFlatten] DFNone].
Proof. vm_compute. reflexivity. Qed.

Example C18_ex_path : builder_path wit_space1 0 = Some [us "builder"; us "S"].
Proof. vm_compute. reflexivity. Qed.
