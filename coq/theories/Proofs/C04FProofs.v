(* Proofs/C04FProofs.v -- property C04 with the UNIVERSE quantifier closed on a fragment:
   for every universe U of [rust_frag], with D = schema_of_rust U (the schemars model) and
   T = convert_doc D (the converter model), every named type of U at its position is wire equivalent
   in (ir_of_rust U) and in T: an explicit bisimulation A with [closed (ir_of_rust U) T A = true]
   (C14's one-step test), hence equal [de] / [ser] for every JSON and every fuel
   (SettingsProofs.sound_fuel), hence the two clauses of C04. *)
From Coq Require Import String ZArith NArith QArith List Bool Lia.
From Typify Require Import Base.Json Spec.Schema Spec.Valid IR.TypeIR IR.Serde.
From Typify Require Algo.Heck Algo.Sanitize Proofs.SanitizeProofs.
From Typify Require Import Algo.Convert Algo.RustDefs Algo.Schemars Check.WireEquiv.
From Typify Require Import Proofs.SerdeProofs Proofs.ConvertProofs Proofs.ConvertShapeProofs Proofs.ConvertSortedProofs.
From Typify Require Import Proofs.SchemarsProofs Proofs.RustIrProofs Proofs.SettingsProofs Proofs.RustDefsProofs.
Import ListNotations.
Close Scope Q_scope.
Close Scope string_scope.
Open Scope list_scope.
Open Scope N_scope.

(* ------------------------------------------------------------------ ids of the two sides agree *)
Lemma ref_index_assoc : forall U i0 r, ref_index (schema_of_rust U) r i0 = assoc r (name_ids U i0).
Proof.
  induction U as [|d U IH]; intros i0 r; [reflexivity|].
  cbn [schema_of_rust map ref_index name_ids assoc fst]. destruct (ustr_eqb r (rd_name d)); [reflexivity|apply IH].
Qed.

Lemma ids_agree U r b : ref_id (schema_of_rust U) r = Some b -> id_of (name_ids U 1) r = b.
Proof. unfold ref_id, id_of. rewrite ref_index_assoc. intros ->. reflexivity. Qed.

Lemma nth_schema U j : nth_error (schema_of_rust U) j = option_map (fun d => (rd_name d, sch_def d)) (nth_error U j).
Proof. unfold schema_of_rust. revert j. induction U as [|d U IH]; intros [|j]; cbn; try reflexivity. apply IH. Qed.

Lemma ref_index_pos : forall (l : defs) r i0 i, ref_index l r i0 = Some i ->
  exists j kv, nth_error l j = Some kv /\ i = i0 + N.of_nat j.
Proof.
  induction l as [|[k s] l IH]; intros r i0 i H; cbn [ref_index] in H; [discriminate|].
  destruct (ustr_eqb r k).
  - injection H as <-. exists 0%nat, (k, s). split; [reflexivity|lia].
  - destruct (IH r (i0 + 1) i H) as (j & kv & Hn & Hi). exists (S j), kv. split; [exact Hn|lia].
Qed.

Lemma ref_def U r b : ref_id (schema_of_rust U) r = Some b ->
  exists j d, nth_error U j = Some d /\ b = N.of_nat j + 1.
Proof.
  intro H. destruct (ref_index_pos _ _ _ _ H) as (j & kv & Hn & Hb).
  rewrite nth_schema in Hn. destruct (nth_error U j) as [d|] eqn:E; [|discriminate Hn]. clear Hn.
  exists j, d. split; [exact E|lia].
Qed.

(* ------------------------------------------------------------------ the integer table *)
Lemma int_table_choose n f uns : int_info n = Some (f, uns) ->
  choose_int (Some f) (mkIb (if uns then Some 0%Z else None) None None None false) = n.
Proof.
  unfold int_info, int_table. cbn [assoc].
  repeat match goal with
  | |- (if ustr_eqb n ?lit then _ else _) = _ -> _ =>
      let E := fresh "E" in destruct (ustr_eqb n lit) eqn:E;
      [apply ustr_eqb_eq in E; subst n; intro H; injection H as <- <-; vm_compute; reflexivity|]
  end.
  discriminate.
Qed.

Lemma sch_ty_obj names t : ty_ok names t = true -> forall b, sch_ty t <> SBool b.
Proof.
  intros H b E. assert (F := ty_frag Sanitize.ascii_classes names t H). rewrite E in F. discriminate F.
Qed.

(* ------------------------------------------------------------------ shapes of the model's schemas *)
Section TShape.
  Variable cls : Heck.CharClasses.
  Variable D : defs.
  Variable T : space.
  Variable names : list ustring.

  Definition TS (t : rty) (b : id) : Prop := shape cls D T (sch_ty t) b.

  Definition TSinv (t : rty) (b : id) : Prop :=
    match t with
    | RtBool => get_det T b = Some DBoolean
    | RtString => get_det T b = Some DString
    | RtInt n => get_det T b = Some (DInteger n)
    | RtVec t' => exists i, get_det T b = Some (DVec i) /\ TS t' i
    | RtMap t' => exists k i, get_det T b = Some (DMap k i) /\ get_det T k = Some DString /\ TS t' i
    | RtRef r => ref_id D r = Some b
    | RtOption t' => exists i, get_det T b = Some (DOption i) /\ TS t' i
    | _ => False
    end.

  Lemma TS_int tys n f uns b : int_info n = Some (f, uns) -> (tys = [TInteger] \/ tys = [TInteger; TNull]) ->
    shape cls D T (sch_typed tys (Some f) (if uns then nv_min0 else numv_none) ItemsAbsent [] None) b ->
    if Nat.eqb (length tys) 1 then get_det T b = Some (DInteger n)
    else exists i, get_det T b = Some (DOption i) /\ get_det T i = Some (DInteger n).
  Proof.
    intros E Ht H. pose proof (int_table_choose n f uns E) as Hc.
    destruct Ht as [-> | ->]; destruct uns; cbn in H; cbn [length Nat.eqb]; rewrite Hc in H; exact H.
  Qed.

  Lemma TS_inv t b : ty_ok names t = true -> TS t b -> TSinv t b.
  Proof.
    intros Hok H. unfold TS in H.
    destruct t as [| n | n | | | a | a | a | a | ts | a k | r]; cbn [ty_ok] in Hok; try discriminate Hok; cbn [TSinv].
    - exact H.
    - cbn [sch_ty] in H. destruct (int_info n) as [[f uns]|] eqn:E; [|discriminate Hok].
      exact (TS_int [TInteger] n f uns b E (or_introl eq_refl) H).
    - exact H.
    - (* Option *)
      destruct a as [| n | n | | | c | c | c | c | ts | c k | r]; try discriminate Hok.
      + exact H.
      + cbn [sch_ty] in H. destruct (int_info n) as [[f uns]|] eqn:E; [|discriminate Hok].
        pose proof (TS_int [TInteger; TNull] n f uns b E (or_intror eq_refl) H) as Hx. cbn [length Nat.eqb] in Hx.
        destruct Hx as (i & H1 & H2).
        exists i. split; [exact H1|]. unfold TS. cbn [sch_ty]. rewrite E.
        pose proof (int_table_choose n f uns E) as Hc. destruct uns; cbn; rewrite Hc; exact H2.
      + exact H.
      + exact H.
      + cbn [sch_ty] in H. unfold TS. cbn [sch_ty].
        destruct (sch_ty c) as [bb|? ? ? ? ? ? ? ? ? ? ? ? ? ? ? ? ? ? ? ? ? ? ? ?] eqn:Es;
          [exfalso; exact (sch_ty_obj names c Hok bb Es)|].
        cbn in H. destruct H as (i & H1 & kid & vid & H2 & H3 & H4).
        exists i. split; [exact H1|]. cbn. exists kid, vid. split; [exact H2|]. split; [exact H3|exact H4].
    - (* Vec *)
      cbn [sch_ty] in H. cbn in H. destruct H as (i & H1 & H2). exists i. split; [exact H1|exact H2].
    - (* Map *)
      cbn [sch_ty] in H. unfold TS.
      destruct (sch_ty a) as [bb|? ? ? ? ? ? ? ? ? ? ? ? ? ? ? ? ? ? ? ? ? ? ? ?] eqn:Es;
        [exfalso; exact (sch_ty_obj names a Hok bb Es)|].
      cbn in H. destruct H as (kid & vid & H1 & H2 & H3). exists kid, vid.
      split; [exact H1|]. split; [exact H2|exact H3].
    - (* Ref *)
      cbn [sch_ty] in H. cbn in H. exact (proj1 H).
  Qed.
End TShape.

(* ------------------------------------------------------------------ list / order helpers *)
Lemma sorted_set_eq : forall l1 l2, keys_sorted l1 = true -> keys_sorted l2 = true ->
  (forall x, In x l1 <-> In x l2) -> l1 = l2.
Proof.
  induction l1 as [|a l1 IH]; intros [|b l2] H1 H2 Hs.
  - reflexivity.
  - exfalso. apply (proj2 (Hs b)). left. reflexivity.
  - exfalso. apply (proj1 (Hs a)). left. reflexivity.
  - assert (Hab : a = b).
    { destruct (proj1 (Hs a) (or_introl eq_refl)) as [E|Ha]; [symmetry; exact E|].
      destruct (proj2 (Hs b) (or_introl eq_refl)) as [E|Hb]; [exact E|].
      pose proof (keys_sorted_lt b l2 H2 a Ha) as L1. pose proof (keys_sorted_lt a l1 H1 b Hb) as L2.
      pose proof (ultb_trans _ _ _ L1 L2) as C. rewrite ultb_irrefl in C. discriminate C. }
    subst b. f_equal. apply IH; [exact (keys_sorted_tl _ _ H1)|exact (keys_sorted_tl _ _ H2)|].
    pose proof (keys_sorted_NoDup _ H1) as N1. pose proof (keys_sorted_NoDup _ H2) as N2.
    inversion N1 as [|? ? Na1 _]; inversion N2 as [|? ? Na2 _]; subst.
    intro x. split; intro Hx.
    + destruct (proj1 (Hs x) (or_intror Hx)) as [E|Hx']; [subst x; contradiction|exact Hx'].
    + destruct (proj2 (Hs x) (or_intror Hx)) as [E|Hx']; [subst x; contradiction|exact Hx'].
Qed.

Lemma NoDup_map_inj {X Y} (f : X -> Y) l x y : NoDup (map f l) -> In x l -> In y l -> f x = f y -> x = y.
Proof.
  induction l as [|a l IH]; intros Hn Hx Hy E; [destruct Hx|].
  cbn [map] in Hn. inversion Hn as [|? ? Hni Hn']; subst.
  destruct Hx as [<-|Hx]; destruct Hy as [<-|Hy].
  - reflexivity.
  - exfalso. apply Hni. rewrite E. apply in_map. exact Hy.
  - exfalso. apply Hni. rewrite <- E. apply in_map. exact Hx.
  - exact (IH Hn' Hx Hy E).
Qed.

Lemma In_rel A a b : In (a, b) A -> rel A a b = true.
Proof. apply rel_In. Qed.

(* ------------------------------------------------------------------ what [conv] returns for a struct / enum definition *)
Lemma conv_struct_te cls rid props req deny nm s te s1 : props <> [] ->
  conv cls rid (sch_struct props req deny) nm s = Some (te, s1) -> exists n ps, te = DStruct n None ps deny.
Proof.
  intros Hne H. destruct props as [|kv props]; [contradiction|].
  unfold sch_struct in H. destruct deny; cbn in H;
    (destruct (type_name cls nm) as [base|]; [|discriminate H]);
    match type of H with (match ?X with Some _ => _ | None => None end) = _ => destruct X as [[ps sa]|]; [|discriminate H] end;
    match type of H with context [Sanitize.unique ?l] => destruct (Sanitize.unique l); [|discriminate H] end;
    injection H as <- _; eexists _, _; reflexivity.
Qed.

Lemma conv_enum_te cls rid raws nm s te s1 : raws <> [] ->
  conv cls rid (sch_enum raws) nm s = Some (te, s1) -> exists n vs, te = DEnum n None TagExternal vs false [AllSimpleVariants].
Proof.
  intros Hne H. unfold sch_enum in H. cbn [conv union_of] in H. unfold classify in H. cbn in H.
  rewrite jstrs_map in H. destruct raws as [|r0 raws]; [contradiction|]. cbn in H.
  destruct (type_name cls nm) as [n|]; [|discriminate H]. unfold mk_enum in H.
  destruct (Sanitize.variant_idents cls (r0 :: raws)); try discriminate H.
  injection H as <- _. eexists _, _. reflexivity.
Qed.

Lemma ty_ok_opt names t : ty_ok names (RtOption t) = true -> ty_ok names t = true.
Proof. destruct t; cbn [ty_ok]; try discriminate; exact (fun H => H). Qed.

(* ------------------------------------------------------------------ the bisimulation *)
Section Bisim.
  Variable cls : Heck.CharClasses.
  Variable U : universe.
  Variable T : space.
  Local Notation D := (schema_of_rust U).
  Local Notation M := (ir_of_rust U).
  Local Notation names := (map rd_name U).
  Local Notation mnames := (name_ids U 1).
  Local Notation LM := (get_det M).

  (* the pairs of ids met when a Rust type expression is walked on both sides *)
  Fixpoint pairs_ty (t : rty) (a b : id) {struct t} : pairs :=
    (a, b) ::
    match t with
    | RtOption t' =>
        match LM a, get_det T b with
        | Some (DOption a'), Some (DOption b') => pairs_ty t' a' b'
        | _, _ => []
        end
    | RtVec t' =>
        match LM a, get_det T b with
        | Some (DVec a'), Some (DVec b') => pairs_ty t' a' b'
        | _, _ => []
        end
    | RtMap t' =>
        match LM a, get_det T b with
        | Some (DMap ka va), Some (DMap kb vb) => (ka, kb) :: pairs_ty t' va vb
        | _, _ => []
        end
    | _ => []
    end.

  Fixpoint pairs_fields (fs : list rfield) (ps ps' : list prop) : pairs :=
    match fs, ps, ps' with
    | f :: fs', p :: ps1, p' :: ps1' => pairs_ty (rf_ty f) (p_ty p) (p_ty p') ++ pairs_fields fs' ps1 ps1'
    | _, _, _ => []
    end.

  Definition pairs_def (d : rust_def) (i : id) : pairs :=
    (i, i) ::
    match d with
    | RdStruct _ _ _ _ fs =>
        match LM i, get_det T i with
        | Some (DStruct _ _ ps _), Some (DStruct _ _ ps' _) => pairs_fields fs ps ps'
        | _, _ => []
        end
    | _ => []
    end.

  Fixpoint pairs_defs (ds : universe) (i : id) : pairs :=
    match ds with
    | [] => []
    | d :: r => pairs_def d i ++ pairs_defs r (i + 1)
    end.

  Definition bisim : pairs := pairs_defs U 1.

  Lemma pairs_ty_head t a b : In (a, b) (pairs_ty t a b).
  Proof. destruct t; left; reflexivity. Qed.

  Lemma pairs_defs_nth : forall ds i j d, nth_error ds j = Some d -> incl (pairs_def d (i + N.of_nat j)) (pairs_defs ds i).
  Proof.
    induction ds as [|d0 ds IH]; intros i j d Hj; [destruct j; discriminate Hj|].
    destruct j as [|j]; cbn [nth_error] in Hj; cbn [pairs_defs].
    - injection Hj as <-. replace (i + N.of_nat 0) with i by lia. apply incl_appl, incl_refl.
    - replace (i + N.of_nat (S j)) with (i + 1 + N.of_nat j) by lia. apply incl_appr. exact (IH _ _ _ Hj).
  Qed.

  Lemma pairs_defs_In : forall ds i p, In p (pairs_defs ds i) ->
    exists j d, nth_error ds j = Some d /\ In p (pairs_def d (i + N.of_nat j)).
  Proof.
    induction ds as [|d0 ds IH]; intros i p Hp; [destruct Hp|]. cbn [pairs_defs] in Hp.
    apply in_app_or in Hp. destruct Hp as [Hp|Hp].
    - exists 0%nat, d0. split; [reflexivity|]. replace (i + N.of_nat 0) with i by lia. exact Hp.
    - destruct (IH _ _ Hp) as (j & d & Hj & Hin). exists (S j), d. split; [exact Hj|].
      replace (i + N.of_nat (S j)) with (i + 1 + N.of_nat j) by lia. exact Hin.
  Qed.

  Variable A : pairs.
  Hypothesis Hroot : forall j d, nth_error U j = Some d -> step_ok M T A (N.of_nat j + 1, N.of_nat j + 1) = true.

  Lemma step_intro a b d d' : LM a = Some d -> get_det T b = Some d' -> det_eq A d d' = true -> step_ok M T A (a, b) = true.
  Proof. intros H1 H2 H3. unfold step_ok. cbn [fst snd]. rewrite H1, H2. exact H3. Qed.

  Lemma ty_step : forall t a b, ty_ok names t = true -> MS LM mnames t a -> TS cls D T t b ->
    incl (pairs_ty t a b) A -> forall p, In p (pairs_ty t a b) -> step_ok M T A p = true.
  Proof.
    fix IH 1. intros t a b Hok Hm Ht Hincl p Hp.
    pose proof (TS_inv cls D T names t b Hok Ht) as Hi.
    destruct t as [| n | n | | | t' | t' | t' | t' | ts | t' k | r]; cbn [ty_ok] in Hok; try discriminate Hok;
      cbn [MS] in Hm; cbn [TSinv] in Hi.
    - cbn [pairs_ty] in Hp. destruct Hp as [<-|[]]. eapply step_intro; [exact Hm|exact Hi|reflexivity].
    - cbn [pairs_ty] in Hp. destruct Hp as [<-|[]]. eapply step_intro; [exact Hm|exact Hi|]. cbn [det_eq]. apply ustr_eqb_refl.
    - cbn [pairs_ty] in Hp. destruct Hp as [<-|[]]. eapply step_intro; [exact Hm|exact Hi|reflexivity].
    - (* Option *)
      destruct Hm as (a' & Hm1 & Hm2). destruct Hi as (b' & Hi1 & Hi2).
      cbn [pairs_ty] in Hp, Hincl. rewrite Hm1, Hi1 in Hp, Hincl.
      destruct Hp as [<-|Hp].
      + eapply step_intro; [exact Hm1|exact Hi1|]. cbn [det_eq]. apply In_rel. apply Hincl. right. apply pairs_ty_head.
      + apply (IH t' a' b' (ty_ok_opt names t' Hok) Hm2 Hi2); [|exact Hp]. intros q Hq. apply Hincl. right. exact Hq.
    - (* Vec *)
      destruct Hm as (a' & Hm1 & Hm2). destruct Hi as (b' & Hi1 & Hi2).
      cbn [pairs_ty] in Hp, Hincl. rewrite Hm1, Hi1 in Hp, Hincl.
      destruct Hp as [<-|Hp].
      + eapply step_intro; [exact Hm1|exact Hi1|]. cbn [det_eq]. apply In_rel. apply Hincl. right. apply pairs_ty_head.
      + apply (IH t' a' b' Hok Hm2 Hi2); [|exact Hp]. intros q Hq. apply Hincl. right. exact Hq.
    - (* Map *)
      destruct Hm as (ka & va & Hm1 & Hm2 & Hm3). destruct Hi as (kb & vb & Hi1 & Hi2 & Hi3).
      cbn [pairs_ty] in Hp, Hincl. rewrite Hm1, Hi1 in Hp, Hincl.
      destruct Hp as [<-|[<-|Hp]].
      + eapply step_intro; [exact Hm1|exact Hi1|]. cbn [det_eq]. apply andb_true_iff. split; apply In_rel; apply Hincl.
        * right. left. reflexivity.
        * right. right. apply pairs_ty_head.
      + eapply step_intro; [exact Hm2|exact Hi2|reflexivity].
      + apply (IH t' va vb Hok Hm3 Hi3); [|exact Hp]. intros q Hq. apply Hincl. right. right. exact Hq.
    - (* Ref *)
      cbn [pairs_ty] in Hp. destruct Hp as [<-|[]].
      pose proof (ids_agree U r b Hi) as E. rewrite <- Hm in E. subst b.
      destruct (ref_def U r a Hi) as (j & d & Hj & ->). exact (Hroot j d Hj).
  Qed.
End Bisim.

(* ------------------------------------------------------------------ members of a struct, on both sides *)
Lemma prename_eqb_refl a : prename_eqb a a = true.
Proof. destruct a; cbn; try reflexivity. apply ustr_eqb_refl. Qed.

Lemma req_mem rule : forall fs f, NoDup (map (field_wire rule) fs) -> In f fs ->
  mem_ustr (field_wire rule f) (req_fields rule fs) = negb (is_opt (rf_ty f)).
Proof.
  intros fs f Hn Hf. unfold req_fields.
  destruct (is_opt (rf_ty f)) eqn:E; cbn [negb].
  - destruct (mem_ustr (field_wire rule f) (map (field_wire rule) (filter (fun f0 => negb (is_opt (rf_ty f0))) fs))) eqn:Em; [|reflexivity].
    exfalso. apply mem_ustr_In in Em. apply in_map_iff in Em. destruct Em as (g & Hg & Hgf).
    apply filter_In in Hgf. destruct Hgf as [Hgin Hgo].
    assert (g = f) by (eapply NoDup_map_inj; eassumption). subst g. rewrite E in Hgo. discriminate Hgo.
  - apply mem_ustr_In. apply in_map. apply filter_In. split; [exact Hf|]. rewrite E. reflexivity.
Qed.

Section Main.
  Variable cls : Heck.CharClasses.
  Variable U : universe.
  Variable T : space.
  Hypothesis Hfrag : rust_frag cls U = true.
  Hypothesis Hconv : convert_doc cls (schema_of_rust U) = Some T.
  Local Notation D := (schema_of_rust U).
  Local Notation M := (ir_of_rust U).
  Local Notation names := (map rd_name U).
  Local Notation mnames := (name_ids U 1).
  Local Notation LM := (get_det M).

  Lemma Hin : in_frag cls D = true.
  Proof. apply schemars_in_frag. apply rust_frag_wider. exact Hfrag. Qed.

  Lemma def_ok_nth j d : nth_error U j = Some d -> def_ok cls names false d = true.
  Proof.
    intro Hj. unfold rust_frag, rust_frag_gen in Hfrag.
    apply andb_true_iff in Hfrag. destruct Hfrag as [H _].
    apply andb_true_iff in H. destruct H as [H _].
    apply andb_true_iff in H. destruct H as [_ H].
    rewrite forallb_forall in H. apply H. eapply nth_error_In. exact Hj.
  Qed.

  Lemma topshape_nth j d : nth_error U j = Some d -> topshape cls D T (sch_def d) (N.of_nat j + 1).
  Proof.
    intro Hj. destruct (convert_shape cls D T Hin Hconv) as (H & _ & _).
    apply (H j (rd_name d)). rewrite nth_schema, Hj. reflexivity.
  Qed.

  Lemma slot_nth j d : nth_error U j = Some d ->
    exists s te s1 ent, conv cls (ref_id D) (sch_def d) (NRequired (rd_name d)) s = Some (te, s1) /\
                        get_det T (N.of_nat j + 1) = Some ent /\ stored te ent.
  Proof. intro Hj. apply (convert_slot cls D T Hconv j). rewrite nth_schema, Hj. reflexivity. Qed.

  Definition TFld (rule : rename_rule) (f : rfield) (p : prop) : Prop :=
    p_name p = rf_name f /\
    p_rename p = (if ustr_eqb (field_wire rule f) (rf_name f) then RNone else RRename (field_wire rule f)) /\
    p_state p = (if is_opt (rf_ty f) then POptional else PRequired) /\
    TS cls D T (rf_ty f) (p_ty p).

  Lemma field_state_frag rule f : field_ok cls names rule f = true ->
    field_state U false f = if is_opt (rf_ty f) then POptional else PRequired.
  Proof.
    unfold field_ok. intro H.
    apply andb_true_iff in H. destruct H as [H _].
    apply andb_true_iff in H. destruct H as [H Hs].
    apply andb_true_iff in H. destruct H as [H Hdf].
    apply andb_true_iff in H. destruct H as [Hok Hd].
    unfold field_state. destruct (rf_default_fn f); [discriminate Hdf|].
    apply negb_true_iff in Hd. rewrite Hd. apply eqb_prop in Hs. rewrite <- Hs.
    destruct (rf_ty f); cbn [is_opt is_option andb orb]; reflexivity.
  Qed.

  Lemma field_ok_parts rule f : field_ok cls names rule f = true ->
    ty_ok names (rf_ty f) = true /\ Sanitize.sanitize cls (field_wire rule f) Sanitize.Snake = rf_name f.
  Proof.
    unfold field_ok. intro H.
    apply andb_true_iff in H. destruct H as [H Hs]. apply ustr_eqb_eq in Hs.
    repeat (apply andb_true_iff in H; destruct H as [H _]). split; assumption.
  Qed.

  (* the T side of a struct definition *)
  Lemma struct_T j n rule deny cdef fs : nth_error U j = Some (RdStruct n rule deny cdef fs) ->
    exists n' ps', get_det T (N.of_nat j + 1) = Some (DStruct n' None ps' deny) /\ Forall2 (TFld rule) fs ps'.
  Proof.
    intro Hj. pose proof (def_ok_nth j _ Hj) as Hok. cbn [def_ok] in Hok.
    apply andb_true_iff in Hok. destruct Hok as [Hok Hsw].
    apply andb_true_iff in Hok. destruct Hok as [Hok Hsn].
    apply andb_true_iff in Hok. destruct Hok as [Hok Hf].
    apply andb_true_iff in Hok. destruct Hok as [_ Hne].
    assert (Hne' : sch_fields rule fs <> []).
    { destruct fs; [discriminate Hne|discriminate]. }
    destruct (slot_nth j _ Hj) as (s & te & s1 & ent & Hc & Hent & Hst). cbn [sch_def rd_name] in Hc.
    destruct (conv_struct_te _ _ _ _ _ _ _ _ _ Hne' Hc) as (n0 & ps0 & ->). cbn [stored] in Hst. subst ent.
    exists n0, ps0. split; [exact Hent|].
    pose proof (topshape_nth j _ Hj) as Hts. cbn [sch_def] in Hts.
    destruct Hts as [[Hsh _]|(n2 & i2 & Hh & _)]; [|unfold has in Hh; rewrite Hent in Hh; discriminate Hh].
    assert (Hshape : exists n2 ps2, has T (N.of_nat j + 1) (DStruct n2 None ps2 deny) /\
                     NoDup (wire_names ps2) /\ NoDup (map p_name ps2) /\
                     AllP (fun kv => exists p, In p ps2 /\ member_sh cls T (shape cls D T) (req_fields rule fs) kv p) (sch_fields rule fs) /\
                     (forall p, In p ps2 -> exists kv, In kv (sch_fields rule fs) /\ wire_name p = Some (fst kv))).
    { destruct fs as [|f0 fs0]; [discriminate Hne|]. unfold sch_struct in Hsh. destruct deny; exact Hsh. }
    clear Hsh. destruct Hshape as (n2 & ps2 & Hh & Hndw & Hndn & Hall & Hdecl).
    unfold has in Hh. rewrite Hent in Hh. injection Hh as <- <-.
    destruct (convert_structs_sorted cls D T Hconv _ _ _ _ _ Hent) as (Hsorted & Hrn).
    rewrite AllP_In in Hall.
    pose proof (keys_sorted_NoDup _ Hsw) as Hndwire.
    (* member of a field *)
    assert (Hmem : forall f, In f fs -> exists p, In p ps0 /\
                   member_sh cls T (shape cls D T) (req_fields rule fs) (field_wire rule f, sch_ty (rf_ty f)) p).
    { intros f Hfin. apply Hall. unfold sch_fields. apply in_map_iff. exists f. split; [reflexivity|exact Hfin]. }
    assert (Hfok : forall f, In f fs -> field_ok cls names rule f = true).
    { rewrite forallb_forall in Hf. exact Hf. }
    (* same identifiers, in the same order *)
    assert (Hnames : map p_name ps0 = map rf_name fs).
    { apply sorted_set_eq; [exact Hsorted|exact Hsn|]. intro x. split; intro Hx.
      - apply in_map_iff in Hx. destruct Hx as (p & <- & Hp).
        destruct (Hdecl p Hp) as (kv & Hkv & Hw). unfold sch_fields in Hkv. apply in_map_iff in Hkv.
        destruct Hkv as (f & <- & Hfin). cbn [fst] in Hw.
        destruct (Hmem f Hfin) as (p2 & Hp2 & Hm2). destruct Hm2 as (Hw2 & Hn2 & _). cbn [fst] in Hw2, Hn2.
        pose proof (find_wire _ _ _ Hndw Hp Hw) as F1. pose proof (find_wire _ _ _ Hndw Hp2 Hw2) as F2.
        rewrite F1 in F2. injection F2 as ->. rewrite Hn2. unfold Sanitize.recase. cbn [fst].
        rewrite (proj2 (field_ok_parts rule f (Hfok f Hfin))). apply in_map. exact Hfin.
      - apply in_map_iff in Hx. destruct Hx as (f & <- & Hfin).
        destruct (Hmem f Hfin) as (p2 & Hp2 & Hm2). destruct Hm2 as (_ & Hn2 & _). cbn [fst] in Hn2.
        unfold Sanitize.recase in Hn2. cbn [fst] in Hn2.
        rewrite (proj2 (field_ok_parts rule f (Hfok f Hfin))) in Hn2. rewrite <- Hn2. apply in_map. exact Hp2. }
    (* a member with the identifier of f is THE member of f *)
    assert (Hone : forall f p, In f fs -> In p ps0 -> p_name p = rf_name f -> TFld rule f p).
    { intros f p Hfin Hp Hpn.
      destruct (Hmem f Hfin) as (p2 & Hp2 & Hm2).
      pose proof Hm2 as (Hw2 & Hn2 & Hst2). cbn [fst snd] in Hw2, Hn2, Hst2.
      destruct (field_ok_parts rule f (Hfok f Hfin)) as [Htyok Hsan].
      unfold Sanitize.recase in Hn2. cbn [fst] in Hn2. rewrite Hsan in Hn2.
      assert (p2 = p) by (eapply NoDup_map_inj; [exact Hndn|exact Hp2|exact Hp|congruence]). subst p2.
      split; [exact Hpn|]. split; [|split].
      - pose proof (Hrn p Hp) as Hr. unfold rn_ok in Hr. unfold wire_name in Hw2.
        destruct (p_rename p) as [|w|]; [| |destruct Hr].
        + injection Hw2 as Hw2. rewrite <- Hw2, Hpn, ustr_eqb_refl. reflexivity.
        + injection Hw2 as ->. destruct (ustr_eqb (field_wire rule f) (rf_name f)) eqn:E; [|reflexivity].
          apply ustr_eqb_eq in E. exfalso. apply Hr. rewrite Hpn. exact E.
      - rewrite (req_mem rule fs f Hndwire Hfin) in Hst2.
        destruct (is_opt (rf_ty f)); cbn [negb] in Hst2.
        + destruct Hst2 as [(C & _)|(_ & Hs & _)]; [discriminate C|exact Hs].
        + destruct Hst2 as [(_ & Hs & _)|(C & _)]; [exact Hs|discriminate C].
      - rewrite (req_mem rule fs f Hndwire Hfin) in Hst2. unfold TS.
        destruct (is_opt (rf_ty f)) eqn:Eo; cbn [negb] in Hst2.
        + destruct Hst2 as [(C & _)|(_ & _ & Hty)]; [discriminate C|].
          destruct Hty as [(Hsh & _)|(t' & Hh & Hsh & Hni)]; [exact Hsh|].
          exfalso. destruct (rf_ty f) as [| | | | | x | | | | | |] eqn:Et; try discriminate Eo.
          destruct (TS_inv cls D T names (RtOption x) t' Htyok Hsh) as (i & Hi & _).
          specialize (Hni _ Hi). discriminate Hni.
        + destruct Hst2 as [(_ & _ & Hsh)|(C & _)]; [exact Hsh|discriminate C]. }
    clear - Hnames Hone.
    assert (Hgen : forall fs' ps', map p_name ps' = map rf_name fs' -> incl fs' fs -> incl ps' ps0 -> Forall2 (TFld rule) fs' ps').
    { induction fs' as [|f fs' IH]; intros [|p ps'] Hm Hi1 Hi2; cbn [map] in Hm; try discriminate Hm; [constructor|].
      injection Hm as Hm1 Hm2. constructor.
      - apply Hone; [apply Hi1; left; reflexivity|apply Hi2; left; reflexivity|exact Hm1].
      - apply IH; [exact Hm2|intros x Hx; apply Hi1; right; exact Hx|intros x Hx; apply Hi2; right; exact Hx]. }
    apply Hgen; [exact Hnames|apply incl_refl|apply incl_refl].
  Qed.

  (* the T side of a unit-only enum definition *)
  Lemma enum_T j n rule deny vs : nth_error U j = Some (RdEnum n TagExternal rule deny vs) ->
    exists n' ids, get_det T (N.of_nat j + 1) =
                   Some (DEnum n' None TagExternal (mk_variants (map (variant_wire rule) vs) ids) false [AllSimpleVariants]) /\
                   length ids = length vs /\ deny = false /\ all_unit vs = true.
  Proof.
    intro Hj. pose proof (def_ok_nth j _ Hj) as Hok. cbn [def_ok] in Hok.
    apply andb_true_iff in Hok. destruct Hok as [Hok Hv].
    apply andb_true_iff in Hok. destruct Hok as [Hok Hu].
    apply andb_true_iff in Hok. destruct Hok as [Hd Hne].
    apply negb_true_iff in Hd. subst deny.
    assert (Hne' : map (variant_wire rule) vs <> []) by (destruct vs; [discriminate Hne|discriminate]).
    destruct (slot_nth j _ Hj) as (s & te & s1 & ent & Hc & Hent & Hst). cbn [sch_def rd_name] in Hc. rewrite Hu in Hc.
    destruct (conv_enum_te _ _ _ _ _ _ _ Hne' Hc) as (n0 & vs0 & ->). cbn [stored] in Hst. subst ent.
    pose proof (topshape_nth j _ Hj) as Hts. cbn [sch_def] in Hts. rewrite Hu in Hts.
    destruct Hts as [[Hsh _]|(n2 & i2 & Hh & _)]; [|unfold has in Hh; rewrite Hent in Hh; discriminate Hh].
    assert (Hshape : exists n2 ids, Sanitize.variant_idents cls (map (variant_wire rule) vs) = Sanitize.Ok ids /\
              has T (N.of_nat j + 1) (DEnum n2 None TagExternal (mk_variants (map (variant_wire rule) vs) ids) false [AllSimpleVariants])).
    { unfold sch_enum in Hsh. cbn [shape] in Hsh. unfold classify in Hsh. cbn in Hsh. rewrite jstrs_map in Hsh.
      destruct (map (variant_wire rule) vs) as [|r0 rs] eqn:Er; [contradiction|]. exact Hsh. }
    destruct Hshape as (n2 & ids & Hvi & Hh). exists n2, ids. split; [exact Hh|].
    split; [|split; [reflexivity|exact Hu]].
    etransitivity; [exact (variant_idents_length _ _ _ Hvi)|apply map_length].
  Qed.

  Lemma unit_variants_eq A rule : forall vs ids, length ids = length vs ->
    list_eqb (variant_eq A) (unit_variants rule vs) (mk_variants (map (variant_wire rule) vs) ids) = true.
  Proof.
    induction vs as [|v vs IH]; intros [|i ids] Hl; try discriminate Hl; [reflexivity|].
    unfold unit_variants, mk_variants in *. cbn [map combine list_eqb].
    unfold variant_eq at 1. cbn [v_raw v_det fst snd vdet_eq]. rewrite ustr_eqb_refl. cbn [andb].
    apply IH. injection Hl as Hl. exact Hl.
  Qed.

  (* members compared positionally *)
  Lemma props_eq A rule cdef : forall fs ps ps',
    Forall2 (FldRel LM mnames U rule cdef) fs ps -> Forall2 (TFld rule) fs ps' -> cdef = false ->
    forallb (field_ok cls names rule) fs = true ->
    incl (pairs_fields U T fs ps ps') A -> list_eqb (prop_eq A) ps ps' = true.
  Proof.
    induction fs as [|f fs IH]; intros ps ps' H1 H2 Hc Hok Hincl; inversion H1; inversion H2; subst; [reflexivity|].
    cbn [forallb] in Hok. apply andb_true_iff in Hok. destruct Hok as [Hokf Hokr].
    cbn [pairs_fields] in Hincl. cbn [list_eqb]. apply andb_true_iff. split.
    - match goal with Hm : FldRel _ _ _ _ _ f ?p, Ht : TFld _ f ?q |- _ =>
        destruct Hm as (M1 & M2 & M3 & _); destruct Ht as (T1 & T2 & T3 & _);
        unfold prop_eq; rewrite M1, T1, M2, T2, M3, T3 end.
      rewrite ustr_eqb_refl, prename_eqb_refl, (field_state_frag rule f Hokf). cbn [andb].
      assert (Hst : pstate_eqb (if is_opt (rf_ty f) then POptional else PRequired) (if is_opt (rf_ty f) then POptional else PRequired) = true)
        by (destruct (is_opt (rf_ty f)); reflexivity).
      rewrite Hst. cbn [andb]. apply In_rel. apply Hincl. apply in_or_app. left. apply pairs_ty_head.
    - eapply IH; try eassumption; [reflexivity|]. intros q Hq. apply Hincl. apply in_or_app. right. exact Hq.
  Qed.

  (* every definition's root pair passes the one-step test *)
  Lemma root_step j d : nth_error U j = Some d ->
    step_ok M T (bisim U T) (N.of_nat j + 1, N.of_nat j + 1) = true.
  Proof.
    intro Hj. pose proof (pairs_defs_nth U T U 1 j d Hj) as Hincl.
    replace (1 + N.of_nat j) with (N.of_nat j + 1) in Hincl by lia. fold (bisim U T) in Hincl.
    destruct (ir_of_rust_spec U j d Hj) as (det & Hdet & Hspec).
    pose proof (def_ok_nth j d Hj) as Hok.
    destruct d as [n rule deny cdef fs | n ts | n t | n | n tag rule deny vs]; cbn [def_ok] in Hok; try discriminate Hok.
    - (* struct *)
      cbn [DefSpec] in Hspec. destruct Hspec as (ps & -> & Hps).
      destruct (struct_T j n rule deny cdef fs Hj) as (n' & ps' & HT & Hps').
      apply andb_true_iff in Hok. destruct Hok as [Hok _]. apply andb_true_iff in Hok. destruct Hok as [Hok _].
      apply andb_true_iff in Hok. destruct Hok as [Hok Hf]. apply andb_true_iff in Hok. destruct Hok as [Hcd _].
      apply negb_true_iff in Hcd.
      eapply step_intro; [exact Hdet|exact HT|]. cbn [det_eq]. apply andb_true_iff. split; [|apply eqb_reflx].
      eapply props_eq; try eassumption.
      intros q Hq. apply Hincl. unfold pairs_def. right. rewrite Hdet, HT. exact Hq.
    - (* enum *)
      destruct tag; try discriminate Hok.
      destruct (enum_T j n rule deny vs Hj) as (n' & ids & HT & Hl & -> & Hu).
      cbn [DefSpec] in Hspec. rewrite (Hspec Hu) in Hdet.
      eapply step_intro; [exact Hdet|exact HT|]. cbn [det_eq tag_eqb]. cbn [andb].
      rewrite (unit_variants_eq _ rule vs ids Hl). reflexivity.
  Qed.

  Lemma fields_step rule cdef : forall fs ps ps',
    Forall2 (FldRel LM mnames U rule cdef) fs ps -> Forall2 (TFld rule) fs ps' ->
    forallb (field_ok cls names rule) fs = true ->
    incl (pairs_fields U T fs ps ps') (bisim U T) ->
    forall q, In q (pairs_fields U T fs ps ps') -> step_ok M T (bisim U T) q = true.
  Proof.
    induction fs as [|f fs IH]; intros ps ps' H1 H2 Hok Hincl q Hq; inversion H1; inversion H2; subst; [destruct Hq|].
    cbn [forallb] in Hok. apply andb_true_iff in Hok. destruct Hok as [Hokf Hokr].
    cbn [pairs_fields] in Hincl, Hq. apply in_app_or in Hq. destruct Hq as [Hq|Hq].
    - match goal with Hm : FldRel _ _ _ _ _ f ?p, Ht : TFld _ f ?p' |- _ =>
        destruct Hm as (_ & _ & _ & M4); destruct Ht as (_ & _ & _ & T4);
        apply (ty_step cls U T (bisim U T) root_step (rf_ty f) (p_ty p) (p_ty p') (proj1 (field_ok_parts rule f Hokf)) M4 T4) end;
        [|exact Hq]. intros x Hx. apply Hincl. apply in_or_app. left. exact Hx.
    - eapply IH; try eassumption. intros x Hx. apply Hincl. apply in_or_app. right. exact Hx.
  Qed.

  Theorem bisim_closed : closed M T (bisim U T) = true.
  Proof.
    unfold closed. apply forallb_forall. intros q Hq.
    destruct (pairs_defs_In U T U 1 q Hq) as (j & d & Hj & Hin).
    pose proof (pairs_defs_nth U T U 1 j d Hj) as Hincl. fold (bisim U T) in Hincl.
    replace (1 + N.of_nat j) with (N.of_nat j + 1) in * by lia.
    unfold pairs_def in Hin. destruct Hin as [<-|Hin]; [exact (root_step j d Hj)|].
    destruct d as [n rule deny cdef fs | n ts | n t | n | n tag rule deny vs]; try destruct Hin.
    destruct (ir_of_rust_spec U j _ Hj) as (det & Hdet & Hspec). cbn [DefSpec] in Hspec. destruct Hspec as (ps & -> & Hps).
    destruct (struct_T j n rule deny cdef fs Hj) as (n' & ps' & HT & Hps').
    rewrite Hdet, HT in Hin.
    pose proof (def_ok_nth j _ Hj) as Hok. cbn [def_ok] in Hok.
    apply andb_true_iff in Hok. destruct Hok as [Hok _]. apply andb_true_iff in Hok. destruct Hok as [Hok _].
    apply andb_true_iff in Hok. destruct Hok as [_ Hf].
    eapply fields_step; try eassumption.
    intros x Hx. apply Hincl. unfold pairs_def. right. rewrite Hdet, HT. exact Hx.
  Qed.

  Lemma bisim_root j d : nth_error U j = Some d -> rel (bisim U T) (N.of_nat j + 1) (N.of_nat j + 1) = true.
  Proof.
    intro Hj. apply In_rel. pose proof (pairs_defs_nth U T U 1 j d Hj) as Hincl.
    replace (1 + N.of_nat j) with (N.of_nat j + 1) in Hincl by lia. apply Hincl. left. reflexivity.
  Qed.

  (* equal de / ser / default for every named type, every JSON, every fuel *)
  Theorem fragment_same_wire re_match native_ok j d : nth_error U j = Some d ->
    same_wire re_match native_ok M (N.of_nat j + 1) T (N.of_nat j + 1).
  Proof.
    intros Hj fuel v. unfold rt.
    destruct (sound_fuel re_match native_ok M T (bisim U T) bisim_closed fuel _ _ (bisim_root j d Hj)) as (Hd & _ & Hs).
    rewrite Hd. destruct (de re_match native_ok T fuel (N.of_nat j + 1) v) as [x|]; [apply Hs|reflexivity].
  Qed.
End Main.

(* ------------------------------------------------------------------ the statements of Props/C04F.v *)
Lemma c04f_convert_total cls U : rust_frag_s cls U = true -> convert_doc cls (schema_of_rust U) <> None.
Proof. intro H. apply convert_total. apply schemars_in_frag. exact H. Qed.

Lemma c04f_convert_bisim cls U T :
  rust_frag cls U = true -> convert_doc cls (schema_of_rust U) = Some T ->
  exists A, closed (ir_of_rust U) T A = true /\
            forall j d, nth_error U j = Some d -> rel A (N.of_nat j + 1) (N.of_nat j + 1) = true.
Proof.
  intros Hf Hc. exists (bisim U T). split; [exact (bisim_closed cls U T Hf Hc)|exact (bisim_root U T)].
Qed.

Lemma c04f_fragment_wire_compat cls U T :
  rust_frag cls U = true -> convert_doc cls (schema_of_rust U) = Some T ->
  forall (re_match native_ok : ustring -> ustring -> bool) j d, nth_error U j = Some d ->
  let t := N.of_nat j + 1 in
  forall fuel x v,
    ser (ir_of_rust U) fuel t x = Some v ->
    de re_match native_ok (ir_of_rust U) fuel t v = Some x ->
    exists x', de re_match native_ok T fuel t v = Some x' /\
               exists v', ser T fuel t x' = Some v' /\
                          de re_match native_ok (ir_of_rust U) fuel t v' = Some x.
Proof.
  intros Hf Hc re_match native_ok j d Hj t.
  exact (wire_compat_of_same_wire re_match native_ok _ _ _ _ (fragment_same_wire cls U T Hf Hc re_match native_ok j d Hj)).
Qed.

Lemma c04f_fragment_wire_compat_converse cls U T :
  rust_frag cls U = true -> convert_doc cls (schema_of_rust U) = Some T ->
  forall (re_match native_ok : ustring -> ustring -> bool) j d, nth_error U j = Some d ->
  let t := N.of_nat j + 1 in
  forall fuel x' v,
    ser T fuel t x' = Some v ->
    de re_match native_ok T fuel t v = Some x' ->
    exists x, de re_match native_ok (ir_of_rust U) fuel t v = Some x /\
              exists v', ser (ir_of_rust U) fuel t x = Some v' /\
                         de re_match native_ok T fuel t v' = Some x'.
Proof.
  intros Hf Hc re_match native_ok j d Hj t.
  apply (wire_compat_of_same_wire re_match native_ok).
  intros fuel v. symmetry. exact (fragment_same_wire cls U T Hf Hc re_match native_ok j d Hj fuel v).
Qed.
