(* Proofs/SerdeProofs.v — facts about IR/Serde.v: acceptance ([de … <> None]) is
   monotone in the fuel (the RESULT is not, for untagged enums: an earlier
   variant may start to succeed), with the lifting lemmas for every helper that
   is parametrised by [de]/[dflt]; characterisations of [mapM]/[zipM]/[de_named];
   string-key facts ([ustr_eqb_eq], [assoc], [has_key], [mem_ustr]). *)
From Coq Require Import String ZArith NArith QArith List Bool Lia Arith.
From Typify Require Import Base.Json Spec.Schema Spec.Valid IR.TypeIR IR.Serde.
Import ListNotations.
Close Scope Q_scope.
Close Scope string_scope.
Close Scope N_scope.
Open Scope list_scope.
Open Scope nat_scope.

(* ------------------------------------------------------------------ strings, keys *)
Lemma ustr_eqb_refl a : ustr_eqb a a = true.
Proof. induction a as [|x a IH]; simpl; [reflexivity|]. rewrite N.eqb_refl. exact IH. Qed.

Lemma ustr_eqb_eq a b : ustr_eqb a b = true <-> a = b.
Proof.
  split.
  - revert b. induction a as [|x a IH]; intros [|y b]; simpl; try discriminate; [reflexivity|].
    intros H. apply andb_true_iff in H. destruct H as [H1 H2].
    apply N.eqb_eq in H1. subst y. rewrite (IH b H2). reflexivity.
  - intros ->. apply ustr_eqb_refl.
Qed.

Lemma ustr_eqb_sym a b : ustr_eqb a b = ustr_eqb b a.
Proof.
  destruct (ustr_eqb a b) eqn:E1.
  - apply ustr_eqb_eq in E1. subst. symmetry. apply ustr_eqb_refl.
  - destruct (ustr_eqb b a) eqn:E2; [|reflexivity].
    apply ustr_eqb_eq in E2. subst. rewrite ustr_eqb_refl in E1. discriminate.
Qed.

Lemma assoc_In {X} k (l : list (ustring * X)) x : assoc k l = Some x -> In (k, x) l.
Proof.
  induction l as [|[k' y] l IH]; simpl; [discriminate|].
  destruct (ustr_eqb k k') eqn:E.
  - intros H. inversion H. subst. apply ustr_eqb_eq in E. subst. left. reflexivity.
  - intros H. right. apply IH. exact H.
Qed.

Lemma In_assoc {X} k (l : list (ustring * X)) x : In (k, x) l -> exists y, assoc k l = Some y.
Proof.
  induction l as [|[k' y] l IH]; simpl; [intros []|].
  intros [H|H].
  - inversion H. subst. rewrite ustr_eqb_refl. exists x. reflexivity.
  - destruct (ustr_eqb k k'); [exists y; reflexivity | apply IH; exact H].
Qed.

Lemma has_key_true {X} k (l : list (ustring * X)) : has_key k l = true <-> exists x, assoc k l = Some x.
Proof.
  unfold has_key. destruct (assoc k l) as [x|]; split.
  - intros _. exists x. reflexivity.
  - reflexivity.
  - discriminate.
  - intros [x H]. discriminate.
Qed.

Lemma has_key_false {X} k (l : list (ustring * X)) : has_key k l = false <-> assoc k l = None.
Proof. unfold has_key. destruct (assoc k l); split; try discriminate; reflexivity. Qed.

Lemma mem_ustr_In k l : mem_ustr k l = true <-> In k l.
Proof.
  unfold mem_ustr. rewrite existsb_exists. split.
  - intros [x [Hin E]]. apply ustr_eqb_eq in E. subst. exact Hin.
  - intros H. exists k. split; [exact H | apply ustr_eqb_refl].
Qed.

(* ------------------------------------------------------------------ options, mapM, zipM *)
Lemma option_map_ok {X Y} (g : X -> Y) (o : option X) : option_map g o <> None <-> o <> None.
Proof. destruct o; simpl; split; congruence. Qed.

Lemma mapM_ok {X Y} (g : X -> option Y) l :
  mapM g l <> None <-> (forall x, In x l -> g x <> None).
Proof.
  induction l as [|x l IH]; simpl.
  - split; [intros _ x [] | congruence].
  - split.
    + intros H y [E|Hin].
      * subst y. destruct (g x); congruence.
      * apply (proj1 IH); [|exact Hin]. destruct (g x); [|congruence]. destruct (mapM g l); congruence.
    + intros H. assert (Hx := H x (or_introl eq_refl)).
      destruct (g x); [|congruence].
      assert (Hl : mapM g l <> None) by (apply IH; intros z Hz; apply H; right; exact Hz).
      destruct (mapM g l); congruence.
Qed.

Lemma zipM_ok {X Y Z} (g : X -> Y -> option Z) l m :
  zipM g l m <> None <-> Forall2 (fun a b => g a b <> None) l m.
Proof.
  revert m. induction l as [|x l IH]; intros [|y m]; simpl.
  - split; [constructor | congruence].
  - split; [congruence | intros H; inversion H].
  - split; [congruence | intros H; inversion H].
  - split.
    + intros H. destruct (g x y) eqn:E; [|congruence]. constructor; [congruence|].
      apply IH. destruct (zipM g l m); congruence.
    + intros H. inversion H as [|? ? ? ? H1 H2]. subst.
      destruct (g x y); [|congruence]. apply IH in H2. destruct (zipM g l m); congruence.
Qed.

Lemma Forall2_imp {X Y} (P Q : X -> Y -> Prop) l m :
  (forall a b, P a b -> Q a b) -> Forall2 P l m -> Forall2 Q l m.
Proof. intros H F. induction F; constructor; auto. Qed.

(* merging existential fuels *)
Lemma ex_fuel_forall {X} (P : nat -> X -> Prop) (l : list X) :
  (forall f f' x, f <= f' -> P f x -> P f' x) ->
  (forall x, In x l -> exists f, P f x) ->
  exists f, forall x, In x l -> P f x.
Proof.
  intros Hm. induction l as [|x l IH]; intros H.
  - exists 0. intros x [].
  - destruct (H x (or_introl eq_refl)) as [f1 H1].
    destruct IH as [f2 H2]; [intros y Hy; apply H; right; exact Hy|].
    exists (Nat.max f1 f2). intros y [E|Hy].
    + subst y. apply Hm with f1; [lia | exact H1].
    + apply Hm with f2; [lia | apply H2; exact Hy].
Qed.

Lemma ex_fuel_Forall2 {X Y} (P : nat -> X -> Y -> Prop) l m :
  (forall f f' x y, f <= f' -> P f x y -> P f' x y) ->
  Forall2 (fun x y => exists f, P f x y) l m ->
  exists f, Forall2 (P f) l m.
Proof.
  intros Hm H. induction H as [|x y l m [f1 H1] _ [f2 H2]].
  - exists 0. constructor.
  - exists (Nat.max f1 f2). constructor.
    + apply Hm with f1; [lia | exact H1].
    + revert H2. apply Forall2_imp. intros a b. apply Hm. lia.
Qed.

(* order-preserving sublists (for the slot lists of flattened members) *)
Inductive Sub {X} : list X -> list X -> Prop :=
| Sub_nil : Sub [] []
| Sub_cons x l m : Sub l m -> Sub (x :: l) (x :: m)
| Sub_skip x l m : Sub l m -> Sub l (x :: m).

Lemma Sub_refl {X} (l : list X) : Sub l l.
Proof. induction l; constructor; assumption. Qed.

Lemma Sub_nil_l {X} (l : list X) : Sub [] l.
Proof. induction l; constructor; assumption. Qed.

Lemma Sub_trans {X} (a b c : list X) : Sub a b -> Sub b c -> Sub a c.
Proof.
  intros H1 H2. revert a H1. induction H2 as [|x l m H IH|x l m H IH]; intros a H1.
  - exact H1.
  - inversion H1; subst; [constructor; apply IH; assumption | apply Sub_skip; apply IH; assumption].
  - apply Sub_skip. apply IH. exact H1.
Qed.

Lemma Sub_In {X} (a b : list X) x : Sub a b -> In x a -> In x b.
Proof. intros H. induction H; simpl; intuition. Qed.

(* ------------------------------------------------------------------ helpers parametrised by de/dflt *)
Section Helpers.
  Variable T : space.

  (* the value a named member receives *)
  Definition member_val (de : id -> json -> option rval) (dflt : id -> option rval)
             (kvs : list (ustring * json)) (p : prop) (w : ustring) : option rval :=
    match assoc w kvs with Some j => de (p_ty p) j | None => missing T de dflt p end.

  Lemma de_named_ok de dflt ps kvs :
    de_named T de dflt ps kvs <> None <->
    (forall p w, In p ps -> wire_name p = Some w -> member_val de dflt kvs p w <> None).
  Proof.
    unfold member_val. induction ps as [|p ps IH]; simpl.
    - split; [intros _ p w [] | congruence].
    - destruct (wire_name p) as [w|] eqn:Ew.
      + split.
        * intros H q w' [E|Hin] Hw.
          -- subst q. rewrite Ew in Hw. inversion Hw. subst w'.
             destruct (match assoc w kvs with Some j => de (p_ty p) j | None => missing T de dflt p end);
               congruence.
          -- apply (proj1 IH); [|exact Hin|exact Hw].
             destruct (match assoc w kvs with Some j => de (p_ty p) j | None => missing T de dflt p end);
               [|congruence].
             destruct (de_named T de dflt ps kvs); congruence.
        * intros H. assert (Hp := H p w (or_introl eq_refl) Ew).
          destruct (match assoc w kvs with Some j => de (p_ty p) j | None => missing T de dflt p end);
            [|congruence].
          assert (Hr : de_named T de dflt ps kvs <> None).
          { apply IH. intros q w' Hin Hw. apply H; [right; exact Hin | exact Hw]. }
          destruct (de_named T de dflt ps kvs); congruence.
      + rewrite IH. split.
        * intros H q w' [E|Hin] Hw; [subst q; congruence | apply H; assumption].
        * intros H q w' Hin Hw. apply H; [right; exact Hin | exact Hw].
  Qed.

  (* ---- flattened members.  Whether [de_flats] succeeds does not depend on the values
     the flattened subtypes get (a failed subtype is None), only on the maps: *)
  Definition flat_rest (de : id -> json -> option rval) (qs : list prop) (slots : list (ustring * json))
    : list (ustring * json) := snd (fst (flat_take de qs slots)).

  Fixpoint flats_ok (de : id -> json -> option rval) (fps : list prop) (slots : list (ustring * json)) : Prop :=
    match fps with
    | [] => True
    | fp :: r =>
        match get_det T (p_ty fp) with
        | Some (DMap _ _) => de (p_ty fp) (JObj slots) <> None /\ flats_ok de r slots
        | Some (DOption t') =>
            match get_det T t' with
            | Some (DStruct _ _ qs _) =>
                match flat_props qs with
                | [] => flats_ok de r (flat_rest de qs slots)
                | _ => False
                end
            | _ => False
            end
        | _ => False
        end
    end.

  Lemma de_flats_ok de dflt fps slots : de_flats T de dflt fps slots <> None <-> flats_ok de fps slots.
  Proof.
    revert slots. induction fps as [|fp r IH]; intros slots; cbn [de_flats flats_ok]; [split; [trivial | congruence]|].
    destruct (get_det T (p_ty fp)) as [d|]; [|split; [congruence | intros []]].
    destruct d; try (split; [congruence | intros []]).
    - (* Option of a struct *)
      destruct (get_det T t) as [d'|]; [|split; [congruence | intros []]].
      destruct d'; try (split; [congruence | intros []]).
      destruct (flat_props props); [|split; [congruence | intros []]].
      unfold flat_rest. destruct (flat_take de props slots) as [[tk rest] ok]. cbn [fst snd].
      rewrite option_map_ok. apply IH.
    - (* map *)
      destruct (de (p_ty fp) (JObj slots)) as [m|].
      + rewrite option_map_ok, IH. split; [intros H; split; [congruence | exact H] | intros [_ H]; exact H].
      + split; [congruence | intros [H _]; congruence].
  Qed.

  (* the remaining slots are a sublist of the slots *)
  Lemma flat_rest_sub de qs slots : Sub (flat_rest de qs slots) slots.
  Proof.
    unfold flat_rest. induction slots as [|kv r IH]; cbn [flat_take]; [constructor|].
    destruct (find_wire_prop (fst kv) qs) as [q|].
    - destruct (de (p_ty q) (snd kv)).
      + destruct (flat_take de qs r) as [[tk rs] ok]. cbn [fst snd] in *. apply Sub_skip. exact IH.
      + cbn [fst snd]. apply Sub_skip. apply Sub_refl.
    - destruct (flat_take de qs r) as [[tk rs] ok]. cbn [fst snd] in *. apply Sub_cons. exact IH.
  Qed.

  (* a more accepting deserialiser, given fewer slots, leaves fewer slots *)
  Lemma flat_rest_mono de1 de2 qs :
    (forall t j, de1 t j <> None -> de2 t j <> None) ->
    forall s1 s2, Sub s2 s1 -> Sub (flat_rest de2 qs s2) (flat_rest de1 qs s1).
  Proof.
    intros Hde s1 s2 H. induction H as [|kv l m H IH|kv l m H IH].
    - constructor.
    - unfold flat_rest in *. cbn [flat_take].
      destruct (find_wire_prop (fst kv) qs) as [q|].
      + destruct (de1 (p_ty q) (snd kv)) eqn:E1.
        * assert (E2 : de2 (p_ty q) (snd kv) <> None) by (apply Hde; congruence).
          destruct (de2 (p_ty q) (snd kv)); [|congruence].
          destruct (flat_take de1 qs m) as [[tk1 rs1] ok1]. destruct (flat_take de2 qs l) as [[tk2 rs2] ok2].
          cbn [fst snd] in *. exact IH.
        * cbn [fst snd]. destruct (de2 (p_ty q) (snd kv)).
          -- destruct (flat_take de2 qs l) as [[tk2 rs2] ok2] eqn:E. cbn [fst snd].
             eapply Sub_trans; [|exact H]. pose proof (flat_rest_sub de2 qs l) as Hs. unfold flat_rest in Hs.
             rewrite E in Hs. exact Hs.
          -- cbn [fst snd]. exact H.
      + destruct (flat_take de1 qs m) as [[tk1 rs1] ok1]. destruct (flat_take de2 qs l) as [[tk2 rs2] ok2].
        cbn [fst snd] in *. apply Sub_cons. exact IH.
    - unfold flat_rest in *. cbn [flat_take].
      destruct (find_wire_prop (fst kv) qs) as [q|].
      + destruct (de1 (p_ty q) (snd kv)).
        * destruct (flat_take de1 qs m) as [[tk1 rs1] ok1]. cbn [fst snd] in *. exact IH.
        * cbn [fst snd]. eapply Sub_trans; [|exact H]. apply (flat_rest_sub de2 qs l).
      + destruct (flat_take de1 qs m) as [[tk1 rs1] ok1]. cbn [fst snd] in *. apply Sub_skip. exact IH.
  Qed.

  (* what the flattened / unknown-entries stage of a struct body needs *)
  Definition is_map_member (fp : prop) : Prop := exists k v, get_det T (p_ty fp) = Some (DMap k v).

  Definition flat_stage_ok (de : id -> json -> option rval) (ps : list prop) (deny : bool)
             (kvs : list (ustring * json)) : Prop :=
    match flat_props ps with
    | [] => deny && negb (Nat.eqb (length (unknown_entries ps kvs)) 0) = false
    | [fp] => (is_map_member fp \/ deny = false) /\ flats_ok de [fp] (unknown_entries ps kvs)
    | fps => deny = false /\ flats_ok de fps (unknown_entries ps kvs)
    end.

  (* the one-flattened-map case, as it was before several flattened members were modelled *)
  Lemma flats_ok_one_map de fp slots k v :
    get_det T (p_ty fp) = Some (DMap k v) -> (flats_ok de [fp] slots <-> de (p_ty fp) (JObj slots) <> None).
  Proof. intros E. cbn [flats_ok]. rewrite E. tauto. Qed.

  Lemma de_flats_one_map de dflt fp slots k v :
    get_det T (p_ty fp) = Some (DMap k v) ->
    de_flats T de dflt [fp] slots = option_map (fun m => [(p_name fp, m)]) (de (p_ty fp) (JObj slots)).
  Proof. intros E. cbn [de_flats]. rewrite E. destruct (de (p_ty fp) (JObj slots)); reflexivity. Qed.

  (* [de_struct_obj] for at most one flattened member that is a map: the definition
     before several flattened members were modelled *)
  Lemma de_struct_obj_one_flatten_unchanged de dflt ps deny kvs :
    match flat_props ps with
    | [] => True
    | [fp] => is_map_member fp
    | _ => False
    end ->
    de_struct_obj T de dflt ps deny kvs =
    match de_named T de dflt ps kvs with
    | None => None
    | Some named =>
        let unk := unknown_entries ps kvs in
        match flat_props ps with
        | [] => if deny && negb (Nat.eqb (length unk) 0) then None else Some named
        | [fp] =>
            match get_det T (p_ty fp) with
            | Some (DMap _ _) =>
                match de (p_ty fp) (JObj unk) with
                | Some m => Some (named ++ [(p_name fp, m)])
                | None => None
                end
            | _ => None
            end
        | _ => None
        end
    end.
  Proof.
    unfold de_struct_obj. destruct (de_named T de dflt ps kvs) as [named|]; [|reflexivity].
    destruct (flat_props ps) as [|fp [|fp2 r]]; try reflexivity; [|intros []].
    intros [k [v E]]. rewrite E. reflexivity.
  Qed.

  Lemma de_struct_obj_ok de dflt ps deny kvs :
    de_struct_obj T de dflt ps deny kvs <> None <->
    de_named T de dflt ps kvs <> None /\ flat_stage_ok de ps deny kvs.
  Proof.
    unfold de_struct_obj, flat_stage_ok.
    destruct (de_named T de dflt ps kvs) as [named|]; [|split; [congruence | intros [H _]; congruence]].
    destruct (flat_props ps) as [|fp [|fp2 r]].
    - destruct (deny && negb (Nat.eqb (length (unknown_entries ps kvs)) 0)); split;
        try congruence; try (intros _; split; congruence). intros [_ H]. discriminate.
    - assert (G : (if deny then None else option_map (app named) (de_flats T de dflt [fp] (unknown_entries ps kvs))) <> None
                  <-> deny = false /\ flats_ok de [fp] (unknown_entries ps kvs)).
      { destruct deny; [split; [congruence | intros [H _]; discriminate]|].
        rewrite option_map_ok, de_flats_ok. tauto. }
      destruct (get_det T (p_ty fp)) as [d|] eqn:Ed.
      + destruct d;
          try (rewrite G; unfold is_map_member; rewrite Ed; split;
               [intros [H1 H2]; split; [congruence | split; [right; exact H1 | exact H2]]
               |intros [_ [[[k [v E]]|H1] H2]]; [discriminate | split; assumption]]).
        rewrite (flats_ok_one_map de fp _ _ _ Ed).
        destruct (de (p_ty fp) (JObj (unknown_entries ps kvs))) eqn:E.
        * split; [intros _; split; [congruence|split; [left; eexists; eexists; exact Ed | congruence]] | congruence].
        * split; [congruence | intros [_ [_ H]]; congruence].
      + rewrite G. unfold is_map_member. rewrite Ed. split.
        * intros [H1 H2]. split; [congruence | split; [right; exact H1 | exact H2]].
        * intros [_ [[[k [v E]]|H1] H2]]; [discriminate | split; assumption].
    - destruct deny; [split; [congruence | intros [_ [H _]]; discriminate]|].
      rewrite option_map_ok, de_flats_ok. split; [intros H; split; [congruence | split; [reflexivity | exact H]] | intros [_ [_ H]]; exact H].
  Qed.

  (* ---- a required member that is absent *)
  Lemma missing_required_some dr df p x :
    p_state p = PRequired -> missing T dr df p = Some x ->
    x = ROptNone /\ dr (p_ty p) JNull = Some ROptNone.
  Proof.
    unfold missing. intros ->. destruct (get_det T (p_ty p)); [|discriminate].
    destruct (dr (p_ty p) JNull) as [[]|]; try discriminate. intros H. inversion H. split; reflexivity.
  Qed.

  Lemma missing_required_null dr df p :
    p_state p = PRequired -> get_det T (p_ty p) <> None -> dr (p_ty p) JNull = Some ROptNone ->
    missing T dr df p = Some ROptNone.
  Proof.
    unfold missing. intros -> Hd E. destruct (get_det T (p_ty p)); [|congruence]. rewrite E. reflexivity.
  Qed.

  Lemma missing_required_none dr df p :
    p_state p = PRequired -> dr (p_ty p) JNull <> Some ROptNone -> missing T dr df p = None.
  Proof.
    unfold missing. intros -> E. destruct (get_det T (p_ty p)); [|reflexivity].
    destruct (dr (p_ty p) JNull) as [[]|]; try reflexivity. congruence.
  Qed.

  Lemma de_untagged_renum de dflt deny vs i j x :
    de_untagged T de dflt deny vs i j = Some x -> exists k y, x = REnum k y.
  Proof.
    revert i. induction vs as [|v vs IH]; intros i; simpl; [discriminate|].
    match goal with |- match ?X with _ => _ end = _ -> _ => destruct X eqn:E end.
    - intros H. inversion H. eexists. eexists. reflexivity.
    - apply IH.
  Qed.

  Section Lift.
    Variables de1 de2 : id -> json -> option rval.
    Variables df1 df2 : id -> option rval.
    Hypothesis Hde : forall t j, de1 t j <> None -> de2 t j <> None.
    Hypothesis Hdf : forall t, df1 t <> None -> df2 t <> None.
    (* a required member may be absent when its type reads null as the bare None *)
    Hypothesis Hnull : forall t, de1 t JNull = Some ROptNone -> de2 t JNull = Some ROptNone.
    (* a flattened map that took the remaining slots takes any sublist of them *)
    Hypothesis Hmap : forall t k v s1 s2, get_det T t = Some (DMap k v) -> Sub s2 s1 ->
                                          de1 t (JObj s1) <> None -> de2 t (JObj s2) <> None.

    Lemma missing_lift p : missing T de1 df1 p <> None -> missing T de2 df2 p <> None.
    Proof.
      unfold missing. destruct (p_state p); [ | apply Hdf | apply Hde].
      destruct (get_det T (p_ty p)); [|exact (fun H => H)].
      destruct (de1 (p_ty p) JNull) as [x|] eqn:E; [|congruence].
      destruct x; try congruence. rewrite (Hnull _ E). exact (fun H => H).
    Qed.

    Lemma member_val_lift kvs p w :
      member_val de1 df1 kvs p w <> None -> member_val de2 df2 kvs p w <> None.
    Proof. unfold member_val. destruct (assoc w kvs); [apply Hde | apply missing_lift]. Qed.

    Lemma de_named_lift ps kvs :
      de_named T de1 df1 ps kvs <> None -> de_named T de2 df2 ps kvs <> None.
    Proof.
      rewrite !de_named_ok. intros H p w Hin Hw. apply member_val_lift. apply H; assumption.
    Qed.

    Lemma flats_ok_lift fps : forall s1 s2, Sub s2 s1 -> flats_ok de1 fps s1 -> flats_ok de2 fps s2.
    Proof.
      induction fps as [|fp r IH]; intros s1 s2 Hs; cbn [flats_ok]; [trivial|].
      destruct (get_det T (p_ty fp)) as [d|] eqn:Ed; [|exact (fun H => H)].
      destruct d; try exact (fun H => H).
      - (* Option of a struct *)
        destruct (get_det T t) as [d'|]; [|exact (fun H => H)]. destruct d'; try exact (fun H => H).
        destruct (flat_props props); [|exact (fun H => H)].
        apply IH. apply flat_rest_mono; [exact Hde | exact Hs].
      - (* map: fewer slots, each accepted *)
        intros [H1 H2]. split; [|exact (IH _ _ Hs H2)].
        revert H1. eapply Hmap; [exact Ed | exact Hs].
    Qed.

    Lemma flat_stage_lift ps deny kvs : flat_stage_ok de1 ps deny kvs -> flat_stage_ok de2 ps deny kvs.
    Proof.
      unfold flat_stage_ok. destruct (flat_props ps) as [|fp [|fp2 r]]; [exact (fun H => H) | | ].
      - intros [H1 H2]. split; [exact H1 | exact (flats_ok_lift _ _ _ (Sub_refl _) H2)].
      - intros [H1 H2]. split; [exact H1 | exact (flats_ok_lift _ _ _ (Sub_refl _) H2)].
    Qed.

    Lemma de_struct_obj_lift ps deny kvs :
      de_struct_obj T de1 df1 ps deny kvs <> None -> de_struct_obj T de2 df2 ps deny kvs <> None.
    Proof.
      rewrite !de_struct_obj_ok. intros [H1 H2]. split; [apply de_named_lift; exact H1 | apply flat_stage_lift; exact H2].
    Qed.

    Lemma de_struct_seq_lift ps l :
      de_struct_seq T de1 df1 ps l <> None -> de_struct_seq T de2 df2 ps l <> None.
    Proof.
      revert l. induction ps as [|p ps IH]; intros l; simpl; [exact (fun H => H)|].
      destruct l as [|j l].
      - intros H. assert (H1 : missing T de1 df1 p <> None) by (destruct (missing T de1 df1 p); congruence).
        apply missing_lift in H1. destruct (missing T de2 df2 p); [|congruence].
        assert (H2 : de_struct_seq T de1 df1 ps [] <> None).
        { destruct (missing T de1 df1 p); [|congruence]. destruct (de_struct_seq T de1 df1 ps []); congruence. }
        apply IH in H2. destruct (de_struct_seq T de2 df2 ps []); congruence.
      - intros H. assert (H1 : de1 (p_ty p) j <> None) by (destruct (de1 (p_ty p) j); congruence).
        apply Hde in H1. destruct (de2 (p_ty p) j); [|congruence].
        assert (H2 : de_struct_seq T de1 df1 ps l <> None).
        { destruct (de1 (p_ty p) j); [|congruence]. destruct (de_struct_seq T de1 df1 ps l); congruence. }
        apply IH in H2. destruct (de_struct_seq T de2 df2 ps l); congruence.
    Qed.

    Lemma de_struct_body_lift ps deny j :
      de_struct_body T de1 df1 ps deny j <> None -> de_struct_body T de2 df2 ps deny j <> None.
    Proof.
      unfold de_struct_body. destruct j; try exact (fun H => H).
      - destruct (flat_props ps); [|exact (fun H => H)].
        rewrite !option_map_ok. apply de_struct_seq_lift.
      - rewrite !option_map_ok. apply de_struct_obj_lift.
    Qed.

    Lemma zipM_lift ts l : zipM de1 ts l <> None -> zipM de2 ts l <> None.
    Proof. rewrite !zipM_ok. apply Forall2_imp. intros a b. apply Hde. Qed.

    Lemma mapM_lift t l : mapM (de1 t) l <> None -> mapM (de2 t) l <> None.
    Proof. rewrite !mapM_ok. intros H x Hin. apply Hde. apply H. exact Hin. Qed.

    Lemma de_payload_lift deny vd j :
      de_payload T de1 df1 deny vd j <> None -> de_payload T de2 df2 deny vd j <> None.
    Proof.
      unfold de_payload. destruct vd as [|t|ts|ps].
      - exact (fun H => H).
      - apply Hde.
      - destruct j; try exact (fun H => H). rewrite !option_map_ok. apply zipM_lift.
      - apply de_struct_body_lift.
    Qed.

    (* what an untagged enum tries for one variant: a struct variant is not read
       from an array *)
    Definition de_untagged_payload (de : id -> json -> option rval) (dflt : id -> option rval)
               (deny : bool) (v : variant) (j : json) : option rval :=
      match v_det v, j with
      | VStruct _, JArr _ => None
      | vd, _ => de_payload T de dflt deny vd j
      end.

    Lemma de_untagged_ok de dflt deny vs i j :
      de_untagged T de dflt deny vs i j <> None <->
      exists v, In v vs /\ de_untagged_payload de dflt deny v j <> None.
    Proof.
      revert i. induction vs as [|v vs IH]; intros i.
      - simpl. split; [congruence | intros [v [[] _]]].
      - change (de_untagged T de dflt deny (v :: vs) i j)
          with (match de_untagged_payload de dflt deny v j with
                | Some x => Some (REnum i x)
                | None => de_untagged T de dflt deny vs (S i) j
                end).
        simpl In.
        destruct (de_untagged_payload de dflt deny v j) eqn:E.
        + split; [intros _; exists v; split; [left; reflexivity | congruence] | congruence].
        + rewrite IH. split.
          * intros [w [Hin Hw]]. exists w. split; [right; exact Hin | exact Hw].
          * intros [w [[Ew|Hin] Hw]]; [subst w; congruence | exists w; split; assumption].
    Qed.

    Lemma de_untagged_payload_lift deny v j :
      de_untagged_payload de1 df1 deny v j <> None -> de_untagged_payload de2 df2 deny v j <> None.
    Proof.
      unfold de_untagged_payload.
      destruct (v_det v) eqn:E; destruct j; try exact (fun H => H);
        rewrite <- E; apply de_payload_lift.
    Qed.

    Lemma de_untagged_lift deny vs i j :
      de_untagged T de1 df1 deny vs i j <> None -> de_untagged T de2 df2 deny vs i j <> None.
    Proof.
      rewrite !de_untagged_ok. intros [v [Hin Hv]]. exists v.
      split; [exact Hin | apply de_untagged_payload_lift; exact Hv].
    Qed.

    Lemma de_enum_lift tag vs deny j :
      de_enum T de1 df1 tag vs deny j <> None -> de_enum T de2 df2 tag vs deny j <> None.
    Proof.
      unfold de_enum. destruct tag as [|tg|tg ct|].
      - destruct j as [| | | |s|l|kvs]; try exact (fun H => H).
        destruct kvs as [|[k pj] [|kv2 r]]; try exact (fun H => H).
        destruct (find_variant k vs 0) as [[i v]|]; [|exact (fun H => H)].
        rewrite !option_map_ok. apply de_payload_lift.
      - destruct j as [| | | |s|l|kvs]; try exact (fun H => H).
        destruct (assoc tg kvs) as [[| | | |s|l|o]|]; try exact (fun H => H).
        destruct (find_variant s vs 0) as [[i v]|]; [|exact (fun H => H)].
        destruct (v_det v) as [|t|ts|ps]; try exact (fun H => H).
        + rewrite !option_map_ok. apply Hde.
        + rewrite !option_map_ok. apply de_struct_body_lift.
      - destruct j as [| | | |s|l|kvs]; try exact (fun H => H).
        destruct (assoc tg kvs) as [[| | | |s|l|o]|]; try exact (fun H => H).
        destruct (find_variant s vs 0) as [[i v]|]; [|exact (fun H => H)].
        destruct (deny && negb (Nat.eqb (length (remove_key ct (remove_key tg kvs))) 0)); [exact (fun H => H)|].
        destruct (assoc ct kvs) as [pj|].
        + rewrite !option_map_ok. apply de_payload_lift.
        + destruct (v_det v); exact (fun H => H).
      - apply de_untagged_lift.
    Qed.
  End Lift.
End Helpers.

(* ------------------------------------------------------------------ de, one level *)
Section DeMono.
  Variable re_match : ustring -> ustring -> bool.
  Variable native_ok : ustring -> ustring -> bool.
  Variable T : space.

  Local Notation de := (Serde.de re_match native_ok T).
  Local Notation default_val := (Serde.default_val T).

  (* the clause of [de] for a resolved type, the recursive calls abstracted *)
  Definition de_node (dr : id -> json -> option rval) (df : id -> option rval)
             (d : details) (j : json) : option rval :=
    match d with
    | DBoolean => match j with JBool b => Some (RBool b) | _ => None end
    | DInteger n => match j with
                    | JInt z => if in_int_range n z then Some (RInt z) else None
                    | _ => None
                    end
    | DFloat _ => match j with
                  | JInt z => Some (RFlt (inject_Z z))
                  | JFlt q => Some (RFlt q)
                  | _ => None
                  end
    | DString => match j with JStr s => Some (RStr s) | _ => None end
    | DUnit => match j with JNull => Some RUnit | _ => None end
    | DJsonValue => Some (RJson j)
    | DOption t =>
        match j with
        | JNull => Some ROptNone
        | _ => match get_det T t with
               | Some (DOption _) => dr t j
               | _ => option_map ROptSome (dr t j)
               end
        end
    | DBox t => dr t j
    | DVec t | DSet t =>
        match j with JArr l => option_map RSeq (mapM (dr t) l) | _ => None end
    | DArray t n =>
        match j with
        | JArr l => if N.eqb (N.of_nat (length l)) n then option_map RSeq (mapM (dr t) l) else None
        | _ => None
        end
    | DTuple ts =>
        match j with JArr l => option_map RSeq (zipM dr ts l) | _ => None end
    | DMap k v =>
        match j with
        | JObj kvs =>
            option_map RMap
              (mapM (fun kv => match de_key dr k (fst kv), dr v (snd kv) with
                               | Some _, Some x => Some (fst kv, x)
                               | _, _ => None
                               end) kvs)
        | _ => None
        end
    | DNative name _ _ =>
        match j with JStr s => if native_ok name s then Some (RNative s) else None | _ => None end
    | DNewtype _ _ inner c =>
        match c with
        | CNone => dr inner j
        | CString mx mn pat =>
            match j with
            | JStr s => if str_constraints_ok re_match mx mn pat s then Some (RStr s) else None
            | _ => None
            end
        | CEnum vs =>
            match dr inner j with
            | Some x => if existsb (json_equiv j) vs then Some x else None
            | None => None
            end
        | CDeny vs =>
            match dr inner j with
            | Some x => if existsb (json_equiv j) vs then None else Some x
            | None => None
            end
        end
    | DStruct _ _ ps deny => de_struct_body T dr df ps deny j
    | DEnum _ _ tag vs deny _ => de_enum T dr df tag vs deny j
    | DReference _ => None
    end.

  Lemma de_S f t j :
    de (S f) t j = match get_det T t with
                   | None => None
                   | Some d => de_node (de f) (default_val f) d j
                   end.
  Proof. reflexivity. Qed.

  Lemma de_0 t j : de 0 t j = None.
  Proof. reflexivity. Qed.

  (* reading null as the bare None goes through Option and the transparent layers only *)
  Lemma de_node_null_lift dr1 dr2 df1 df2 :
    (forall t, dr1 t JNull = Some ROptNone -> dr2 t JNull = Some ROptNone) ->
    forall d, de_node dr1 df1 d JNull = Some ROptNone -> de_node dr2 df2 d JNull = Some ROptNone.
  Proof.
    intros Hn d. destruct d; cbn [de_node]; try discriminate; try exact (fun H => H).
    - (* DEnum *)
      destruct tag; simpl; try discriminate.
      intros H. apply de_untagged_renum in H. destruct H as [k [y H]]. discriminate H.
    - (* DNewtype *)
      destruct c; try discriminate.
      + apply Hn.
      + destruct (dr1 inner JNull) as [x|] eqn:E; [|discriminate].
        destruct (existsb (json_equiv JNull) vs) eqn:Ex; [|discriminate].
        intros H. inversion H. subst x. rewrite (Hn _ E). reflexivity.
      + destruct (dr1 inner JNull) as [x|] eqn:E; [|discriminate].
        destruct (existsb (json_equiv JNull) vs) eqn:Ex; [discriminate|].
        intros H. inversion H. subst x. rewrite (Hn _ E). reflexivity.
    - (* DBox *) apply Hn.
  Qed.

  Lemma de_node_lift dr1 dr2 df1 df2 :
    (forall t j, dr1 t j <> None -> dr2 t j <> None) ->
    (forall t, df1 t <> None -> df2 t <> None) ->
    (forall t, dr1 t JNull = Some ROptNone -> dr2 t JNull = Some ROptNone) ->
    (forall t k v s1 s2, get_det T t = Some (DMap k v) -> Sub s2 s1 ->
                         dr1 t (JObj s1) <> None -> dr2 t (JObj s2) <> None) ->
    forall d j, de_node dr1 df1 d j <> None -> de_node dr2 df2 d j <> None.
  Proof.
    intros Hde Hdf Hnull Hmap d j. destruct d; simpl; try exact (fun H => H).
    - (* DEnum *) apply de_enum_lift; assumption.
    - (* DStruct *) apply de_struct_body_lift; assumption.
    - (* DNewtype *)
      destruct c; try exact (fun H => H).
      + apply Hde.
      + intros H. assert (H1 : dr1 inner j <> None) by (destruct (dr1 inner j); congruence).
        apply Hde in H1. destruct (dr1 inner j); [|congruence]. destruct (dr2 inner j); [|congruence].
        destruct (existsb (json_equiv j) vs); congruence.
      + intros H. assert (H1 : dr1 inner j <> None) by (destruct (dr1 inner j); congruence).
        apply Hde in H1. destruct (dr1 inner j); [|congruence]. destruct (dr2 inner j); [|congruence].
        destruct (existsb (json_equiv j) vs); congruence.
    - (* DOption *)
      destruct j; try exact (fun H => H);
        (destruct (get_det T t) as [[]|]; rewrite ?option_map_ok; apply Hde).
    - (* DBox *) apply Hde.
    - (* DVec *) destruct j; try exact (fun H => H). rewrite !option_map_ok. apply mapM_lift. exact Hde.
    - (* DMap *)
      destruct j; try exact (fun H => H). rewrite !option_map_ok, !mapM_ok.
      intros H kv Hin. specialize (H kv Hin). unfold de_key in *.
      assert (H1 : dr1 k (JStr (fst kv)) <> None) by (destruct (dr1 k (JStr (fst kv))); congruence).
      assert (H2 : dr1 v (snd kv) <> None).
      { destruct (dr1 k (JStr (fst kv))); [|congruence]. destruct (dr1 v (snd kv)); congruence. }
      apply Hde in H1, H2.
      destruct (dr2 k (JStr (fst kv))); [|congruence]. destruct (dr2 v (snd kv)); congruence.
    - (* DSet *) destruct j; try exact (fun H => H). rewrite !option_map_ok. apply mapM_lift. exact Hde.
    - (* DArray *)
      destruct j; try exact (fun H => H). destruct (N.eqb (N.of_nat (length l)) n); [|exact (fun H => H)].
      rewrite !option_map_ok. apply mapM_lift. exact Hde.
    - (* DTuple *) destruct j; try exact (fun H => H). rewrite !option_map_ok. apply zipM_lift. exact Hde.
  Qed.

  (* ---------------------------------------------------------------- the chase behind [missing]
     What serde does for an absent member without default, spelled out: chase
     through Box, transparent newtypes and value-constrained newtypes to an
     Option.  At every fuel it is the same as "[de] reads null as the bare None",
     which is the test IR/Serde.v's [missing] makes. *)
  Fixpoint missing_val (fuel : nat) (i : id) : option rval :=
    match fuel with
    | O => None
    | S f =>
        match get_det T i with
        | Some (DOption _) => Some ROptNone
        | Some (DBox t) => missing_val f t
        | Some (DNewtype _ _ t c) =>
            match c with
            | CNone => missing_val f t
            | CEnum vs =>
                match missing_val f t with
                | Some x => if existsb (json_equiv JNull) vs then Some x else None
                | None => None
                end
            | CDeny vs =>
                match missing_val f t with
                | Some x => if existsb (json_equiv JNull) vs then None else Some x
                | None => None
                end
            | CString _ _ _ => None
            end
        | _ => None
        end
    end.

  Lemma missing_val_none_value : forall f i x, missing_val f i = Some x -> x = ROptNone.
  Proof.
    induction f as [|f IH]; intros i x; [discriminate|]. cbn [missing_val].
    destruct (get_det T i) as [[]|]; try discriminate.
    - destruct c; try discriminate.
      + apply IH.
      + destruct (missing_val f inner) eqn:E; [|discriminate].
        destruct (existsb (json_equiv JNull) vs); [|discriminate]. intros H. inversion H. subst. eapply IH; eassumption.
      + destruct (missing_val f inner) eqn:E; [|discriminate].
        destruct (existsb (json_equiv JNull) vs); [discriminate|]. intros H. inversion H. subst. eapply IH; eassumption.
    - intros H. inversion H. reflexivity.
    - apply IH.
  Qed.

  Lemma missing_val_de_null : forall f i x, missing_val f i = Some x -> de f i JNull = Some x.
  Proof.
    induction f as [|f IH]; intros i x; [discriminate|]. cbn [missing_val]. rewrite de_S.
    destruct (get_det T i) as [[]|]; try discriminate; cbn [de_node].
    - destruct c; try discriminate.
      + apply IH.
      + destruct (missing_val f inner) eqn:E; [|discriminate]. rewrite (IH _ _ E).
        destruct (existsb (json_equiv JNull) vs); [|discriminate]. exact (fun H => H).
      + destruct (missing_val f inner) eqn:E; [|discriminate]. rewrite (IH _ _ E).
        destruct (existsb (json_equiv JNull) vs); [discriminate|]. exact (fun H => H).
    - exact (fun H => H).
    - apply IH.
  Qed.

  Lemma de_null_missing_val : forall f i, de f i JNull = Some ROptNone -> missing_val f i = Some ROptNone.
  Proof.
    induction f as [|f IH]; intros i; [rewrite de_0; discriminate|]. rewrite de_S. cbn [missing_val].
    destruct (get_det T i) as [d|]; [|discriminate].
    destruct d; cbn [de_node]; try discriminate; try exact (fun H => H).
    - (* DEnum *)
      destruct tag; simpl; try discriminate.
      intros H. apply de_untagged_renum in H. destruct H as [k [y H]]. discriminate H.
    - (* DNewtype *)
      destruct c; try discriminate.
      + apply IH.
      + destruct (de f inner JNull) as [x|] eqn:E; [|discriminate].
        destruct (existsb (json_equiv JNull) vs) eqn:Ex; [|discriminate].
        intros H. inversion H. subst x. rewrite (IH _ E). reflexivity.
      + destruct (de f inner JNull) as [x|] eqn:E; [|discriminate].
        destruct (existsb (json_equiv JNull) vs) eqn:Ex; [discriminate|].
        intros H. inversion H. subst x. rewrite (IH _ E). reflexivity.
    - (* DBox *) apply IH.
  Qed.

  (* [missing] for a required member = the chase, at the fuel of the enclosing [de] *)
  Theorem missing_required_chase f df p :
    p_state p = PRequired -> missing T (de f) df p = missing_val f (p_ty p).
  Proof.
    intros Hs. destruct (missing_val f (p_ty p)) as [x|] eqn:E.
    - assert (x = ROptNone) by (eapply missing_val_none_value; exact E). subst x.
      apply missing_val_de_null in E. apply missing_required_null; [exact Hs | | exact E].
      destruct f as [|f]; [rewrite de_0 in E; discriminate|]. rewrite de_S in E.
      destruct (get_det T (p_ty p)); congruence.
    - apply missing_required_none; [exact Hs|]. intros H. apply de_null_missing_val in H. congruence.
  Qed.

  Lemma missing_required_option f df p t :
    p_state p = PRequired -> get_det T (p_ty p) = Some (DOption t) ->
    missing T (de (S f)) df p = Some ROptNone.
  Proof. intros Hs Hd. rewrite (missing_required_chase _ _ _ Hs). cbn [missing_val]. rewrite Hd. reflexivity. Qed.

  (* ---------------------------------------------------------------- default_val *)
  Lemma default_val_S : forall f t, default_val f t <> None -> default_val (S f) t <> None.
  Proof.
    induction f as [|f IH]; intros t; [simpl; congruence|].
    change (default_val (S (S f)) t) with
      (match get_det T t with
       | Some (DOption _) => Some ROptNone
       | Some (DVec _) | Some (DSet _) => Some (RSeq [])
       | Some (DMap _ _) => Some (RMap [])
       | Some DUnit => Some RUnit
       | Some DBoolean => Some (RBool false)
       | Some (DInteger n) => if in_int_range n 0 then Some (RInt 0) else None
       | Some (DFloat _) => Some (RFlt (inject_Z 0))
       | Some DString => Some (RStr [])
       | Some DJsonValue => Some (RJson JNull)
       | Some (DBox t) => default_val (S f) t
       | Some (DTuple ts) => option_map RSeq (mapM (default_val (S f)) ts)
       | _ => None
       end).
    change (default_val (S f) t) with
      (match get_det T t with
       | Some (DOption _) => Some ROptNone
       | Some (DVec _) | Some (DSet _) => Some (RSeq [])
       | Some (DMap _ _) => Some (RMap [])
       | Some DUnit => Some RUnit
       | Some DBoolean => Some (RBool false)
       | Some (DInteger n) => if in_int_range n 0 then Some (RInt 0) else None
       | Some (DFloat _) => Some (RFlt (inject_Z 0))
       | Some DString => Some (RStr [])
       | Some DJsonValue => Some (RJson JNull)
       | Some (DBox t) => default_val f t
       | Some (DTuple ts) => option_map RSeq (mapM (default_val f) ts)
       | _ => None
       end).
    destruct (get_det T t) as [[]|]; try exact (fun H => H).
    - apply IH.
    - rewrite !option_map_ok, !mapM_ok. intros H x Hin. apply IH. apply H. exact Hin.
  Qed.

  Lemma default_val_mono f f' t : f <= f' -> default_val f t <> None -> default_val f' t <> None.
  Proof.
    intros Hle H. induction Hle as [|m Hle IH]; [exact H | apply default_val_S; exact IH].
  Qed.

  (* ---------------------------------------------------------------- de *)
  Lemma null_S : forall f t, de f t JNull = Some ROptNone -> de (S f) t JNull = Some ROptNone.
  Proof.
    induction f as [|f IH]; intros t; [rewrite de_0; discriminate|].
    rewrite (de_S (S f)), (de_S f). destruct (get_det T t) as [d|]; [|exact (fun H => H)].
    apply de_node_null_lift. exact IH.
  Qed.

  Lemma null_mono f f' t : f <= f' -> de f t JNull = Some ROptNone -> de f' t JNull = Some ROptNone.
  Proof.
    intros Hle H. induction Hle as [|m Hle IH]; [exact H | apply null_S; exact IH].
  Qed.

  (* a map that takes a list of entries takes every sublist of it *)
  Lemma map_sub_node dr1 dr2 k v s1 s2 df1 df2 :
    (forall t j, dr1 t j <> None -> dr2 t j <> None) -> Sub s2 s1 ->
    de_node dr1 df1 (DMap k v) (JObj s1) <> None -> de_node dr2 df2 (DMap k v) (JObj s2) <> None.
  Proof.
    intros Hde Hs. cbn [de_node]. rewrite !option_map_ok, !mapM_ok. intros H kv Hin.
    specialize (H kv (Sub_In _ _ _ Hs Hin)). unfold de_key in *.
    assert (H1 : dr1 k (JStr (fst kv)) <> None) by (destruct (dr1 k (JStr (fst kv))); congruence).
    assert (H2 : dr1 v (snd kv) <> None).
    { destruct (dr1 k (JStr (fst kv))); [|congruence]. destruct (dr1 v (snd kv)); congruence. }
    apply Hde in H1, H2.
    destruct (dr2 k (JStr (fst kv))); [|congruence]. destruct (dr2 v (snd kv)); congruence.
  Qed.

  Lemma acc_S_both : forall f,
    (forall t j, de f t j <> None -> de (S f) t j <> None) /\
    (forall t k v s1 s2, get_det T t = Some (DMap k v) -> Sub s2 s1 ->
                         de f t (JObj s1) <> None -> de (S f) t (JObj s2) <> None).
  Proof.
    induction f as [|f [IH1 IH2]].
    - split; [intros t j; rewrite de_0; congruence | intros t k v s1 s2 _ _; rewrite de_0; congruence].
    - split.
      + intros t j. rewrite (de_S (S f)), (de_S f). destruct (get_det T t) as [d|]; [|exact (fun H => H)].
        apply de_node_lift; [exact IH1 | apply default_val_S | apply null_S | exact IH2].
      + intros t k v s1 s2 E Hs. rewrite (de_S (S f)), (de_S f), E. apply map_sub_node; [exact IH1 | exact Hs].
  Qed.

  Lemma acc_S : forall f t j, de f t j <> None -> de (S f) t j <> None.
  Proof. intros f. apply (proj1 (acc_S_both f)). Qed.

  Theorem acc_mono f f' t j : f <= f' -> de f t j <> None -> de f' t j <> None.
  Proof.
    intros Hle H. induction Hle as [|m Hle IH]; [exact H | apply acc_S; exact IH].
  Qed.

  Lemma map_sub_mono f f' t k v s1 s2 :
    f <= f' -> get_det T t = Some (DMap k v) -> Sub s2 s1 ->
    de f t (JObj s1) <> None -> de f' t (JObj s2) <> None.
  Proof.
    intros Hle E Hs H. apply (acc_mono f f'); [exact Hle|].
    destruct f as [|f]; [rewrite de_0 in H; congruence|]. rewrite de_S, E in *.
    revert H. apply map_sub_node; [exact (fun t j H => H) | exact Hs].
  Qed.

  (* lifting along the fuel, for the helpers *)
  Ltac lift_side Hle :=
    first [ (intros ? ?; apply acc_mono; exact Hle)
          | (intros ?; apply default_val_mono; exact Hle)
          | (intros ?; apply null_mono; exact Hle)
          | (intros ? ? ? ? ?; apply map_sub_mono; exact Hle) ].
  Lemma missing_mono f f' p :
    f <= f' -> missing T (de f) (default_val f) p <> None -> missing T (de f') (default_val f') p <> None.
  Proof.
    intros Hle. apply missing_lift; lift_side Hle.
  Qed.

  Lemma member_val_mono f f' kvs p w :
    f <= f' -> member_val T (de f) (default_val f) kvs p w <> None ->
    member_val T (de f') (default_val f') kvs p w <> None.
  Proof.
    intros Hle. apply member_val_lift; lift_side Hle.
  Qed.

  Lemma de_named_mono f f' ps kvs :
    f <= f' -> de_named T (de f) (default_val f) ps kvs <> None ->
    de_named T (de f') (default_val f') ps kvs <> None.
  Proof.
    intros Hle. apply de_named_lift; lift_side Hle.
  Qed.

  Lemma de_struct_obj_mono f f' ps deny kvs :
    f <= f' -> de_struct_obj T (de f) (default_val f) ps deny kvs <> None ->
    de_struct_obj T (de f') (default_val f') ps deny kvs <> None.
  Proof.
    intros Hle. apply de_struct_obj_lift; lift_side Hle.
  Qed.

  Lemma de_struct_seq_mono f f' ps l :
    f <= f' -> de_struct_seq T (de f) (default_val f) ps l <> None ->
    de_struct_seq T (de f') (default_val f') ps l <> None.
  Proof.
    intros Hle. apply de_struct_seq_lift; lift_side Hle.
  Qed.

  Lemma de_struct_body_mono f f' ps deny j :
    f <= f' -> de_struct_body T (de f) (default_val f) ps deny j <> None ->
    de_struct_body T (de f') (default_val f') ps deny j <> None.
  Proof.
    intros Hle. apply de_struct_body_lift; lift_side Hle.
  Qed.

  Lemma de_payload_mono f f' deny vd j :
    f <= f' -> de_payload T (de f) (default_val f) deny vd j <> None ->
    de_payload T (de f') (default_val f') deny vd j <> None.
  Proof.
    intros Hle. apply de_payload_lift; lift_side Hle.
  Qed.

  Lemma de_untagged_mono f f' deny vs i j :
    f <= f' -> de_untagged T (de f) (default_val f) deny vs i j <> None ->
    de_untagged T (de f') (default_val f') deny vs i j <> None.
  Proof.
    intros Hle. apply de_untagged_lift; lift_side Hle.
  Qed.

  Lemma de_enum_mono f f' tag vs deny j :
    f <= f' -> de_enum T (de f) (default_val f) tag vs deny j <> None ->
    de_enum T (de f') (default_val f') tag vs deny j <> None.
  Proof.
    intros Hle. apply de_enum_lift; lift_side Hle.
  Qed.

  Lemma mapM_de_mono f f' t l : f <= f' -> mapM (de f t) l <> None -> mapM (de f' t) l <> None.
  Proof. intros Hle. apply mapM_lift. intros t' j. apply acc_mono. exact Hle. Qed.

  Lemma zipM_de_mono f f' ts l : f <= f' -> zipM (de f) ts l <> None -> zipM (de f') ts l <> None.
  Proof. intros Hle. apply zipM_lift. intros t' j. apply acc_mono. exact Hle. Qed.

End DeMono.

(* the result itself is NOT monotone: with more fuel an earlier variant of an
   untagged enum starts to accept.  Space: 0 = untagged enum {V0(Box<Box<Value>>),
   V1(Value)}, 1 = Box<2>, 2 = Box<3>, 3 = serde_json::Value. *)
Definition nm_space : space :=
  mkSpace
    [ (0%N, mkEntry (DEnum [] None TagUntagged
                           [mkVariant [] [] (VItem 1%N); mkVariant [] [] (VItem 3%N)] false []) []);
      (1%N, mkEntry (DBox 2%N) []);
      (2%N, mkEntry (DBox 3%N) []);
      (3%N, mkEntry DJsonValue []) ]
    4%N (mkSettings None [] false []) false false false false [].

Theorem de_result_not_mono :
  exists re native T f f' t v x y,
    f <= f' /\ de re native T f t v = Some x /\ de re native T f' t v = Some y /\ x <> y.
Proof.
  exists (fun _ _ => true), (fun _ _ => true), nm_space, 2, 4, 0%N, JNull,
         (REnum 1 (RJson JNull)), (REnum 0 (RJson JNull)).
  split; [lia|]. split; [reflexivity|]. split; [reflexivity|]. discriminate.
Qed.
