(* Proofs/ConvertCoversProofs.v -- C02 on the converter fragment, through the
   specification ConvertShapeProofs.shape: the validator Check/Covers.v answers
   `true` on every type of the fragment shape (conv_C), hence on the output of
   the converter model for every document of the fragment (convert_covers), and
   with CoversProofs.covers_sound every valid instance deserialises
   (fragment_sound). *)
From Coq Require Import String ZArith NArith QArith List Bool Lia Permutation.
From Typify Require Import Base.Json Spec.Schema Spec.Valid IR.TypeIR IR.Serde Check.Covers.
From Typify Require Import Proofs.SerdeProofs Proofs.CoversProofs.
From Typify Require Algo.Heck Algo.Sanitize.
From Typify Require Import Algo.Convert Proofs.ConvertProofs Proofs.ConvertShapeProofs Proofs.ConvertIntProofs.
Import ListNotations.
Close Scope Q_scope.
Close Scope string_scope.
Open Scope list_scope.
Open Scope N_scope.

Lemma opt_le_refl a : opt_le a a = true.
Proof. destruct a; cbn; [apply N.leb_refl|reflexivity]. Qed.
Lemma opt_ge_refl a : opt_ge a a = true.
Proof. destruct a; cbn; [apply N.leb_refl|reflexivity]. Qed.
Lemma opt_pat_refl a : opt_pat a a = true.
Proof. destruct a; cbn; [apply ustr_eqb_refl|reflexivity]. Qed.

Lemma xall_names_In : forall bs names b, xall_names bs = Some names -> In b bs -> exists l, xnames b = Some l.
Proof.
  induction bs as [|b0 r IH]; intros names b Hn Hb; [destruct Hb|].
  destruct (xall_names_cons b0 r names Hn) as (l & rest & Hb0 & Hr & _).
  destruct Hb as [<-|Hb]; [exists l; exact Hb0|exact (IH rest b Hr Hb)].
Qed.

Section CoversMain.
  Variable cls : Heck.CharClasses.
  Variable re native : ustring -> ustring -> bool.
  Variable D : defs.
  Variable T : space.

  Local Notation keys := (map fst D).
  Local Notation A := (pairs_of D).
  Local Notation cov := (covers re native T A).
  Local Notation GS := (Gs re native D T).

  Definition Cv (s : schema) : Prop :=
    frag cls keys s = true -> forall t, shape cls D T s t -> forall ft nn, GS s (S (S ft)) nn t = true.

  Lemma Cv_covers s t nn : Cv s -> frag cls keys s = true -> shape cls D T s t -> cov s nn (TId t) = true.
  Proof.
    intros HC Hf Hs. rewrite (covers_frag_Gs cls re native D T s nn t Hf). unfold FT. apply HC; assumption.
  Qed.

  Lemma frag_not_one s : frag cls keys s = true -> is_one s = false ->
    no_one s \/ (forall t, shape cls D T s t -> exists i, get_det T t = Some (DOption i)).
  Proof.
    destruct s as [b|ty fmt enum cst nv sv ik items ai mni mxi uq props req ap mnp mxp allo anyo oneo no ref dflt title];
      [intros _ _; left; exact I|].
    intros Hf Hio. apply frag_obj_inv in Hf. destruct Hf as (nl & k & Hcl & _ & _ & Hone & _).
    unfold is_one in Hio. cbn [classify_s] in Hio. rewrite Hcl in Hio. cbn [no_one]. unfold union_spec in Hone.
    destruct k; try (left; exact Hone); try discriminate Hio.
    right. intros t Hs. cbn [shape] in Hs. rewrite Hcl in Hs. destruct Hone as [-> Hu]. cbn [kshape] in Hs.
    destruct (union_of oneo anyo) as [[|a [|b [|]]]|]; try contradiction. destruct Hs as (i & Hi & _). exists i. exact Hi.
  Qed.

  Lemma struct_case_gen skip ty (props : list (ustring * schema)) req ap nn ps deny :
    ty_is nn ty [TObject] = true ->
    NoDup (wire_names ps) ->
    ap_simple ap = Some deny ->
    (forall kv, In kv props -> is_skip skip (fst kv) = false ->
       Cv (snd kv) /\ frag cls keys (snd kv) = true /\ mem_ustr (fst kv) req || negb (is_one (snd kv)) = true) ->
    AllP (fun kv => is_skip skip (fst kv) = true \/ exists p, In p ps /\ member_sh cls T (shape cls D T) req kv p) props ->
    (forall p, In p ps -> exists kv, In kv props /\ is_skip skip (fst kv) = false /\ wire_name p = Some (fst kv)) ->
    struct_case re native T cov ty props req ap skip nn ps deny = true.
  Proof.
    intros Hty Hndw Hap Hall HM Hback.
    rewrite AllP_In in HM.
    unfold struct_case. rewrite Hty, (nodup_ustr_NoDup _ Hndw). cbn [andb].
    assert (H0 : match skip with Some tg => negb (mem_ustr tg (wire_names ps)) | None => true end = true).
    { destruct skip as [tg|]; [|reflexivity]. apply negb_true_iff.
      destruct (mem_ustr tg (wire_names ps)) eqn:E; [|reflexivity]. exfalso. apply mem_ustr_In in E.
      assert (Hex : exists p, In p ps /\ wire_name p = Some tg).
      { clear - E. induction ps as [|q l IH]; [destruct E|]. rewrite wire_names_cons in E.
        destruct (wire_name q) as [w'|] eqn:Hq.
        - destruct E as [<-|E]; [exists q; split; [left; reflexivity|exact Hq]|].
          destruct (IH E) as (p & Hp & Hpw). exists p. split; [right; exact Hp|exact Hpw].
        - destruct (IH E) as (p & Hp & Hpw). exists p. split; [right; exact Hp|exact Hpw]. }
      destruct Hex as (p & Hp & Hpw). destruct (Hback p Hp) as (kv & _ & Hsk & Hw). rewrite Hpw in Hw. injection Hw as Hw.
      cbn [is_skip] in Hsk. rewrite <- Hw, ustr_eqb_refl in Hsk. discriminate. }
    rewrite H0. cbn [andb].
    assert (H1 : props_ok re native T cov props req skip ps = true).
    { unfold props_ok. apply forallb_forall. intros [k s'] Hin. cbn [fst snd].
      destruct (is_skip skip k) eqn:Hsk; [reflexivity|]. cbn [orb].
      destruct (HM (k, s') Hin) as [Hx|(p & Hp & Hw & _ & Hcase)]; [cbn [fst] in Hx; congruence|]. cbn [fst snd] in *.
      rewrite (find_wire k ps p Hndw Hp Hw).
      destruct (Hall (k, s') Hin Hsk) as (HCs & Hfs & Hos). cbn [fst snd] in *.
      destruct Hcase as [(Hreq & _ & Hsh)|(Hnreq & Hst & [(Hsh & d & Hd & Hi)|(t' & Ht' & Hsh & Hni)])].
      - rewrite (Cv_covers s' _ false HCs Hfs Hsh), Hreq. reflexivity.
      - rewrite (Cv_covers s' _ false HCs Hfs Hsh). cbn [andb].
        rewrite (missing_optional re native T p d Hst Hd); [apply orb_true_r|].
        destruct d; try discriminate Hi; exact I.
      - rewrite (covers_frag_Gs cls re native D T s' false (p_ty p) Hfs). unfold FT.
        rewrite Hnreq in Hos. cbn [orb] in Hos. apply negb_true_iff in Hos.
        destruct (frag_not_one s' Hfs Hos) as [Hno1|Hopt'].
        2: { exfalso. destruct (Hopt' t' Hsh) as (i & Hi).
             match goal with Hni : forall d, has T t' d -> intrinsic d = false |- _ => pose proof (Hni _ Hi) as Hx end.
             discriminate Hx. }
        rewrite (Gs_option cls re native D T s' 5 false (p_ty p) t' Hfs Hno1 Ht' (HCs Hfs t' Hsh 3%nat true)).
        cbn [andb]. rewrite (missing_optional re native T p (DOption t') Hst Ht' I). apply orb_true_r. }
    rewrite H1. cbn [andb].
    assert (H2 : forallb (fun p => match wire_name p with None => true | Some w => has_key w props end) ps = true).
    { apply forallb_forall. intros p Hp. destruct (Hback p Hp) as ([k s'] & Hkv & _ & Hw). cbn [fst] in Hw. rewrite Hw.
      apply has_key_true. apply (In_assoc k props s'). exact Hkv. }
    rewrite H2. cbn [andb].
    assert (H3 : flat_props ps = []).
    { unfold flat_props. apply filter_none. intros p Hp. destruct (Hback p Hp) as (kv & _ & _ & Hw).
      unfold wire_name in Hw. destruct (p_rename p); [reflexivity|reflexivity|discriminate]. }
    unfold flat_map_value. rewrite H3.
    destruct ap as [[[|]|]|]; cbn in Hap; try discriminate; injection Hap as <-; reflexivity.
  Qed.

  Lemma struct_case_sh ty (props : list (ustring * schema)) req ap nn ps deny :
    ty_is nn ty [TObject] = true ->
    NoDup (wire_names ps) ->
    ap_simple ap = Some deny ->
    Forall (fun kv => Cv (snd kv)) props ->
    forallb (fun kv => frag cls keys (snd kv)) props = true ->
    forallb (fun kv => mem_ustr (fst kv) req || negb (is_one (snd kv))) props = true ->
    AllP (fun kv => exists p, In p ps /\ member_sh cls T (shape cls D T) req kv p) props ->
    (forall p, In p ps -> exists kv, In kv props /\ wire_name p = Some (fst kv)) ->
    struct_case re native T cov ty props req ap None nn ps deny = true.
  Proof.
    intros Hty Hndw Hap HC Hfr Hopt HM Hback.
    rewrite Forall_forall in HC. rewrite forallb_forall in Hfr. rewrite forallb_forall in Hopt.
    apply struct_case_gen; try assumption.
    - intros kv Hin _. split; [exact (HC kv Hin)|]. split; [exact (Hfr kv Hin)|exact (Hopt kv Hin)].
    - apply AllP_In. intros kv Hin. right. exact (proj1 (AllP_In _ _) HM kv Hin).
    - intros p Hp. destruct (Hback p Hp) as (kv & Hkv & Hw). exists kv. repeat split; assumption.
  Qed.

  Lemma cov_list_sh : forall its ts0, Forall Cv its -> forallb (frag cls keys) its = true ->
    AllP2 (shape cls D T) its ts0 -> length ts0 = length its /\ cov_list cov its ts0 = true.
  Proof.
    induction its as [|it its IHl]; intros [|tq ts0] HC Hfr HA; cbn [AllP2] in HA; try contradiction.
    - split; reflexivity.
    - destruct HA as [HA1 HA2]. cbn [forallb] in Hfr. apply andb_true_iff in Hfr. destruct Hfr as [Hf1 Hf2].
      destruct (IHl ts0 (Forall_inv_tail HC) Hf2 HA2) as [Hl Hc]. split; [cbn [length]; f_equal; exact Hl|].
      cbn [cov_list]. rewrite (Cv_covers _ _ false (Forall_inv HC) Hf1 HA1), Hc. reflexivity.
  Qed.

  (* a struct / tuple payload against the data of a variant *)
  Definition CvP (s : schema) : Prop :=
    frag cls keys s = true ->
    (forall ps deny, classify_s s = Some (false, KStruct deny) ->
       struct_sh cls T (shape cls D T) (sch_props s) (sch_required s) ps -> cov s false (TProps ps deny) = true) /\
    (forall ts, classify_s s = Some (false, KTuple) ->
       AllP2 (shape cls D T) (snd (sch_items s)) ts -> cov s false (TTuple ts) = true).
  Definition Cv2 (s : schema) : Prop := Cv s /\ CvP s.

  Lemma ty_is_one nn t : t <> TNull -> ty_is nn (Some [t]) [t] = true.
  Proof. intro H. destruct nn, t; try reflexivity; congruence. Qed.

  (* the data of a variant covers its payload schema *)
  Lemma payload_cov sc deny vr :
    Cv2 sc -> frag cls keys sc = true -> payload_sh cls T (shape cls D T) sc deny (v_det vr) ->
    payload_ok cov sc deny vr = true.
  Proof.
    intros [HCsc HCPsc] Hfb Hpsh.
    unfold payload_ok. destruct (v_det vr) as [|t'|ts|ps]; cbn [payload_sh] in Hpsh.
    - contradiction.
    - exact (Cv_covers sc t' false HCsc Hfb Hpsh).
    - destruct Hpsh as [Hcl' Hall]. apply (proj2 (HCPsc Hfb) ts Hcl').
      destruct sc; [contradiction|exact Hall].
    - destruct Hpsh as [Hcl' Hss]. apply (proj1 (HCPsc Hfb) ps deny Hcl').
      destruct sc; [contradiction|exact Hss].
  Qed.

  Lemma one_frags_In tg : forall bs b, one_frags cls D tg bs = true -> In b bs ->
    branch_fold cls tg (NRequired []) (fun sc _ => frag cls keys sc) andb true b = true.
  Proof.
    induction bs as [|b0 r IH]; intros b Hfrs Hb; [destruct Hb|].
    rewrite one_frags_cons in Hfrs. apply andb_true_iff in Hfrs. destruct Hfrs as [H1 H2].
    destruct Hb as [<-|Hb]; [exact H1|exact (IH b H2 Hb)].
  Qed.

  Lemma conv_C2 : forall s, Cv2 s.
  Proof.
    apply schema_ind_u.
    - intros b. split; [intros Hf; discriminate Hf|intros Hf; discriminate Hf].
    - intros ty fmt enum cst nv sv ik items ai mni mxi uq props req ap mnp mxp allo oneo no ref dflt title
             IHitems2 IHprops2 IHap2 IHone.
      assert (IHitems : Forall Cv items) by (eapply Forall_impl; [|exact IHitems2]; intros a Ha; exact (proj1 Ha)).
      assert (IHprops : Forall (fun kv => Cv (snd kv)) props)
        by (eapply Forall_impl; [|exact IHprops2]; intros a Ha; exact (proj1 Ha)).
      assert (IHap : OForall Cv ap) by (destruct ap; [exact (proj1 IHap2)|exact I]).
      clear IHitems2 IHprops2 IHap2.
      split.
      { (* ---- against a type id *)
      intros Hf t Hs ft nn.
      pose proof Hf as Hfi. apply frag_obj_inv0 in Hfi. destruct Hfi as (nl & k & Hcl & -> & -> & Hone & ->).
      pose proof Hcl as Hcases. apply classify_cases in Hcases.
      cbn [frag] in Hf. rewrite Hcl in Hf. change (frag_kind cls D k items props req ap oneo = true) in Hf.
      cbn [shape union_of] in Hs. rewrite Hcl in Hs. cbn [Gs].
      destruct Hcases as [(l & tt & -> & -> & Hsp & Hkt)
                         |(-> & -> & -> & -> & -> & -> & -> & -> & -> & -> & -> & -> & -> & Hrk)].
      + pose proof Hkt as Hinv. apply kind_of_type_inv in Hinv.
        destruct Hinv as (Hnv & Hsv & Hlen & Henum & Hikk & Hobj & Hfmt & Hinv).
        assert (Honone : oneo = None) by (destruct k; try exact Hone; contradiction).
        subst oneo.
        assert (Htyis : forall nn0 want, (nl = true -> nn0 = true) -> tt <> TNull ->
                  existsb (itype_eqb tt) want = true -> ty_is nn0 (Some l) want = true).
        { intros nn0 want Hnn Hnull Hw'. eapply ty_is_split; eassumption. }
        assert (Hleaf : forall t0, kshape cls D T (shape cls D T) k items props req ap None t0 ->
                  forall ft0 nn0, (nl = true -> nn0 = true) ->
                  go re native T A cov (Some l) fmt enum None nv sv ik items mni mxi props req ap
                     None None None None None (S ft0) nn0 t0 = true).
        { intros t0 Hk0 ft0 nn0 Hnn.
          destruct k as [| | | |mx mn pat|r|raws|deny| | |c|c|r| |tg|]; try contradiction; cbn [kshape] in Hk0.
          - subst tt. eapply go_leaf; [exact Hk0|reflexivity..|].
            cbn [leaf_ok]. apply Htyis; [exact Hnn|discriminate|reflexivity].
          - subst tt. eapply go_leaf; [exact Hk0|reflexivity..|].
            cbn [leaf_ok]. apply Htyis; [exact Hnn|discriminate|reflexivity].
          - subst tt. destruct (split_type_cases _ _ _ Hsp) as [[_ ->]|(_ & Hx & _)]; [|congruence].
            destruct nn0.
            + eapply go_vacuous; [exact Hk0|reflexivity|reflexivity].
            + eapply go_leaf; [exact Hk0|reflexivity..].
          - subst tt. eapply go_leaf; [exact Hk0|reflexivity..|].
            cbn [leaf_ok]. apply Htyis; [exact Hnn|discriminate|reflexivity].
          - (* KStrC *)
            destruct Hk0 as (n & sid & Hk0 & Hsid). subst tt. destruct Hsv as [-> _].
            eapply go_leaf; [exact Hk0|reflexivity..|].
            cbn [leaf_ok s_max_length s_min_length s_pattern].
            rewrite (Htyis nn0 [TString] Hnn); [|discriminate|reflexivity]. unfold has in Hsid. rewrite Hsid.
            rewrite opt_le_refl, opt_ge_refl, opt_pat_refl. reflexivity.
          - destruct Hinv as [-> (b & Hb & ->)]. eapply go_leaf; [exact Hk0|reflexivity..|].
            cbn [leaf_ok]. rewrite (Htyis nn0 [TInteger] Hnn); [|discriminate|reflexivity]. cbn [andb].
            destruct (choose_int_fits fmt nv b Hb) as (lo & hi & nz & Hr & Hlo & Hhi).
            rewrite Hr, Hlo, Hhi. reflexivity.
          - destruct Hk0 as (n & ids & Hv & Hk0). destruct Hinv as [-> (es & -> & Hjs)].
            eapply go_leaf; [exact Hk0|reflexivity..|].
            cbn [leaf_ok]. rewrite (Htyis nn0 [TString] Hnn); [|discriminate|reflexivity]. cbn [andb].
            rewrite (jstrs_map _ _ Hjs). apply forallb_forall. intros e Hein.
            apply in_map_iff in Hein. destruct Hein as (x & <- & Hx). cbn [str_simple].
            destruct (find_variant_simple (mk_variants raws ids) x 0) as (i & v & Hfv & Hvs).
            + intros v Hvin. unfold mk_variants in Hvin. apply in_map_iff in Hvin.
              destruct Hvin as (pp & <- & _). reflexivity.
            + unfold mk_variants. rewrite map_map. rewrite (map_ext _ fst) by (intros a; reflexivity).
              refine (eq_ind_r (fun l0 => In x l0) Hx _). apply map_fst_combine.
              symmetry. apply (variant_idents_length _ _ _ Hv).
            + rewrite Hfv, Hvs. reflexivity.
          - destruct Hk0 as (n & ps & Hk0 & Hndw & _ & HM & Hback). destruct Hinv as [-> Hap].
            cbn [frag_kind] in Hf. apply andb_true_iff in Hf. destruct Hf as [Hf Hfp].
            apply andb_true_iff in Hf. destruct Hf as [_ Hopt].
            eapply go_leaf; [exact Hk0|reflexivity..|].
            cbn [leaf_ok]. apply struct_case_sh; try assumption.
            apply Htyis; [exact Hnn|discriminate|reflexivity].
          - destruct Hk0 as (kid & vid & Hk0 & Hkid & Hval). destruct Hinv as (-> & -> & _).
            eapply go_leaf; [exact Hk0|reflexivity..|].
            cbn [leaf_ok]. rewrite (Htyis nn0 [TObject] Hnn); [|discriminate|reflexivity]. cbn [andb].
            unfold has in Hkid. rewrite Hkid. cbn [andb]. unfold addl_ok.
            destruct ap as [[b|aty afmt aenum acst anv asv aik aitems aai amni amxi auq aprops areq aap amnp amxp aallo aanyo aoneo ano aref adflt atitle]|].
            + destruct b; [|cbn [frag_kind frag] in Hf; discriminate].
              cbn [covers]. unfold FT. apply accepts_any_json. exact Hval.
            + cbn [frag_kind] in Hf. cbn [OForall] in IHap. apply (Cv_covers _ _ false IHap Hf Hval).
            + unfold FT. apply accepts_any_json. exact Hval.
          - (* KTuple *)
            destruct Hk0 as (ts & Hk0 & Hall). destruct Hinv as (-> & ->).
            apply tuple_len_inv in Hlen. destruct Hlen as [-> ->].
            cbn [frag_kind] in Hf.
            eapply go_leaf; [exact Hk0|reflexivity..|].
            cbn [leaf_ok]. unfold tuple_case. rewrite (Htyis nn0 [TArray] Hnn); [|discriminate|reflexivity]. cbn [andb].
            destruct (cov_list_sh items ts IHitems Hf Hall) as [Hl Hc]. rewrite Hl, N.eqb_refl, Hc. reflexivity.
          - destruct Hk0 as (i & Hk0 & Hit). destruct Hinv as (-> & -> & it & ->).
            cbn [frag_kind forallb] in Hf. rewrite andb_true_r in Hf.
            pose proof (Cv_covers _ _ false (Forall_inv IHitems) Hf Hit) as Hel.
            apply seq_kind_inv in Hlen.
            destruct c as [| |n]; cbn [seq_det] in Hk0; (eapply go_leaf; [exact Hk0|reflexivity..|]); cbn [leaf_ok];
              (rewrite (Htyis nn0 [TArray] Hnn); [|discriminate|reflexivity]); cbn [andb elem_ok]; try exact Hel.
            destruct Hlen as [-> ->]. rewrite N.eqb_refl. exact Hel.
          - destruct Hk0 as (i & Hk0 & Hj). destruct Hinv as (-> & -> & _).
            assert (Hel : accepts_any T FT i = true) by (unfold FT; apply accepts_any_json; exact Hj).
            apply seq_kind_inv in Hlen.
            destruct c as [| |n]; cbn [seq_det] in Hk0; (eapply go_leaf; [exact Hk0|reflexivity..|]); cbn [leaf_ok];
              (rewrite (Htyis nn0 [TArray] Hnn); [|discriminate|reflexivity]); cbn [andb elem_ok]; try exact Hel.
            destruct Hlen as [-> ->]. rewrite N.eqb_refl. exact Hel. }
        destruct nl.
        * destruct Hs as (i & Ht & Hki). eapply go_option; [exact Ht|]. apply (Hleaf i Hki ft true). reflexivity.
        * apply (Hleaf t Hs (S ft) nn). discriminate.
      + destruct Hrk as [(r & -> & ->)|[(-> & ->)|(bs & -> & -> & [(tg & -> & Hok)|(-> & Hos)])]]; cbn [kshape] in Hs.
        4: { (* Option of the non-null arm of a union *)
          destruct bs as [|a [|b [|]]]; try contradiction. destruct Hs as (i & Hd & Hsh).
          cbn [frag_kind] in Hf. cbn [OForall] in IHone.
          eapply go_union; [exact Hd|reflexivity|reflexivity|]. cbn [union_ok forallb]. rewrite andb_true_r.
          assert (Hnull : forall n, nullish n = true -> plain_null n = true -> forall d, get_det T i = Some d ->
                    cov n true (TId i) = true).
          { intros n Hn1 Hn2 d Hdi. unfold plain_null, scalar_arm in Hn2. destruct_matches Hn2.
            all: try discriminate Hn1.
            all: repeat match type of Hn2 with context [if ?c then _ else _] => destruct c eqn:? end; try discriminate Hn2.
            all: bool_facts; subst.
            all: cbn [covers covers_obj orb]; unfold FT; eapply go_vacuous; [exact Hdi|reflexivity|reflexivity]. }
          assert (Hhas : forall arm, frag cls keys arm = true -> shape cls D T arm i -> exists d, get_det T i = Some d).
          { intros arm Hfa Hsa.
            destruct arm as [|aty afmt aenum acst anv asv aik aitems aai amni amxi auq aprops areq aap amnp amxp aallo aanyo aoneo ano aref adflt atitle];
              [contradiction|]. cbn [shape] in Hsa.
            destruct (classify aty afmt aenum acst anv asv aik aitems aai amni amxi auq aprops areq aap amnp amxp aallo aanyo aoneo ano aref adflt atitle)
              as [[[|] k']|]; [| |contradiction].
            - destruct Hsa as (j & Hj & _). eexists. exact Hj.
            - destruct k'; cbn [kshape] in Hsa; try (destruct (union_of aoneo aanyo) as [[|a1 [|b1 [|]]]|]; try contradiction);
                try (destruct (union_of aoneo aanyo) as [bs1|]; [|contradiction]);
                repeat match goal with
                       | H : exists _, _ |- _ => destruct H as (? & H)
                       | H : _ /\ _ |- _ => destruct H as [H ?]
                       end; unfold has in *; eexists; eassumption. }
          unfold opt_shape in Hos.
          destruct ((2 <=? length [a; b])%nat && (length (filter (fun b0 => negb (nullish b0)) [a; b]) =? 1)%nat) eqn:Hcnt; [|discriminate].
          apply andb_true_iff in Hcnt. destruct Hcnt as [_ Hcnt]. cbn [filter] in Hcnt.
          destruct (nullish a) eqn:Hna; destruct (nullish b) eqn:Hnb; cbn [negb length Nat.eqb] in Hcnt; try discriminate Hcnt;
            cbn [andb orb] in Hos.
          - (* a is the null arm *)
            apply andb_true_iff in Hf. destruct Hf as [_ Hfb].
            destruct (Hhas b Hfb Hsh) as (d & Hdi).
            destruct (plain_null a) eqn:Hpa; [|discriminate Hos].
            rewrite (Hnull a Hna Hpa d Hdi). cbn [andb].
            exact (Cv_covers b i true (proj1 (proj1 (Forall_inv (Forall_inv_tail IHone)))) Hfb Hsh).
          - (* b is the null arm *)
            apply andb_true_iff in Hf. destruct Hf as [_ Hfa].
            destruct (Hhas a Hfa Hsh) as (d & Hdi).
            destruct (plain_null b) eqn:Hpb; [|discriminate Hos].
            rewrite (Hnull b Hnb Hpb d Hdi), andb_true_r.
            exact (Cv_covers a i true (proj1 (proj1 (Forall_inv IHone))) Hfa Hsh). }
        * subst oneo. destruct Hs as (Hri & d & Hd & _). eapply go_ref; [exact Hd|reflexivity|]. apply mem_pair_ref. exact Hri.
        * subst oneo. apply go_json. exact Hs.
        * (* a tagged oneOf *)
          destruct Hs as (n & vs & deny & bes & names & ids & Hd & Hnames & Hndn & Hv & Hraw & Hident & Hbr).
          cbn [frag_kind] in Hf. rewrite Hnames in Hf.
          apply andb_true_iff in Hf. destruct Hf as [Hf Hpt].
          apply andb_true_iff in Hf. destruct Hf as [Hf Hfrs]. apply andb_true_iff in Hf. destruct Hf as [_ Hbok].
          assert (Hndv : NoDup (map v_raw vs)) by (rewrite Hraw; exact Hndn).
          cbn [OForall] in IHone. rewrite Forall_forall in IHone.
          destruct tg as [|tg|tg ct|];
            (eapply go_union; [exact Hd|reflexivity|reflexivity|]); cbn [union_ok];
            apply forallb_forall; intros b Hb;
            pose proof (proj1 (AllP_In _ _) Hbr b Hb) as Hbsh; pose proof (proj2 (IHone b Hb)) as IHb;
            pose proof (proj1 (IHone b Hb)) as IHbB;
            pose proof (one_frags_In _ bs b Hfrs Hb) as Hfb.
          4: { (* untagged over scalar arms *)
             cbn [branches_ok] in Hbok. destruct (opt_all_map scalar_arm bs) as [tys|]; [|discriminate].
             apply andb_true_iff in Hbok. destruct Hbok as [_ Hsk]. rewrite forallb_forall in Hsk.
             destruct b as [|bty bfmt benum bcst bnv bsv bik bitems bai bmni bmxi buq bprops breq bap bmnp bmxp ballo banyo boneo bno bref bdflt btitle];
               [discriminate (Hsk _ Hb)|].
             cbn [branch_sh] in Hbsh. destruct Hbsh as (vr & Hvr & Hsh).
             apply existsb_exists. exists vr. split; [exact Hvr|]. unfold variant_ok.
             destruct (v_det vr) as [|t'|ts|ps]; try contradiction.
             exact (Cv_covers _ t' nn (proj1 IHbB) (scalar_frag cls D _ (Hsk _ Hb)) Hsh). }
          -- (* externally tagged *)
             cbn [variant_names] in Hnames.
             destruct (xall_names_In bs names b Hnames Hb) as (l & Hl).
             destruct (xnames_cases b l Hl) as [(es & -> & Hj & Hne)|(v & sc & -> & ->)].
             ++ cbn [external_branch_ok xsimple_sch]. rewrite ty_is_one by discriminate. cbn [andb].
                apply orb_true_iff. left. rewrite (jstrs_map _ _ Hj). apply forallb_forall. intros e Hein.
                apply in_map_iff in Hein. destruct Hein as (x & <- & Hx). cbn [str_simple].
                cbn [branch_sh xsimple_sch] in Hbsh.
                destruct (Hbsh l (xsimple_sch_spec es l Hj Hne) x Hx) as (vr & Hvr & Hrw & Hdt).
                destruct (find_variant_nodup vs Hndv vr 0%nat Hvr) as (i & Hfv). rewrite Hrw in Hfv. rewrite Hfv, Hdt. reflexivity.
             ++ cbn [external_branch_ok xbranch]. rewrite ty_is_one by discriminate. cbn [is_ap_false andb fst snd].
                apply orb_true_iff. right. unfold mem_ustr. cbn [existsb]. rewrite ustr_eqb_refl. cbn [orb andb].
                cbn [branch_sh xbranch] in Hbsh. destruct Hbsh as (vr & Hvr & Hrw & Hpsh).
                destruct (find_variant_nodup vs Hndv vr 0%nat Hvr) as (i & Hfv). rewrite Hrw in Hfv. rewrite Hfv.
                cbn [branch_fold xbranch] in Hfb.
                exact (payload_cov sc deny vr (IHb v sc (or_introl eq_refl)) Hfb Hpsh).
          -- (* internally tagged *)
             cbn [branches_ok] in Hbok. apply andb_true_iff in Hbok. destruct Hbok as [Hbok _].
             rewrite forallb_forall in Hbok. pose proof (Hbok b Hb) as Hcb. change (int_cond cls tg b = true) in Hcb.
             destruct (int_branch_cases cls tg b Hcb) as (bprops & breq & closed & x & -> & Ha & Hreq & Hhas & Hks & Hun & Hopt).
             cbn [internal_branch_ok tbranch]. rewrite ty_is_one by discriminate. rewrite Hreq, Ha. cbn [andb].
             cbn [str_enum_names xsimple_sch strs option_map forallb]. rewrite andb_true_r.
             cbn [branch_sh tbranch] in Hbsh. rewrite Ha in Hbsh. destruct (Hbsh x eq_refl) as (vr & Hvr & Hrw & Hdet).
             destruct (find_variant_nodup vs Hndv vr 0%nat Hvr) as (i & Hfv). rewrite Hrw in Hfv. rewrite Hfv.
             destruct bprops as [|[k1 s1'] [|kv2 rest]].
             ++ discriminate Ha.
             ++ rewrite Hdet. reflexivity.
             ++ destruct Hdet as (ps & Hdt & (Hndw & Hndn' & HM & Hback) & Hdeny). rewrite Hdt.
                cbn [branch_fold tbranch name_opt] in Hfb.
                rewrite (ifold_frag cls D tg ((k1, s1') :: kv2 :: rest)) in Hfb. rewrite forallb_forall in Hfb, Hopt.
                apply struct_case_gen.
                ** apply ty_is_one. discriminate.
                ** exact Hndw.
                ** rewrite Hdeny. destruct closed; reflexivity.
                ** intros kv Hin Hsk. cbn [is_skip] in Hsk.
                   assert (Hinr : In kv (rest_of tg ((k1, s1') :: kv2 :: rest))).
                   { unfold rest_of. apply filter_In. split; [exact Hin|]. rewrite Hsk. reflexivity. }
                   split; [exact (proj1 (IHb (fst kv) (snd kv) ltac:(destruct kv; exact Hin)))|].
                   split; [exact (Hfb kv Hinr)|exact (Hopt kv Hinr)].
                ** exact HM.
                ** exact Hback.
          -- (* adjacently tagged *)
             cbn [branches_ok] in Hbok. apply andb_true_iff in Hbok. destruct Hbok as [Hbok _].
             apply andb_true_iff in Hbok. destruct Hbok as [Hbok Htc]. apply negb_true_iff in Htc.
             rewrite forallb_forall in Hbok. pose proof (Hbok b Hb) as Hcb. change (adj_cond tg ct b = true) in Hcb.
             destruct (adj_branch_cases tg ct b Htc Hcb) as (breq & x & Hreq & [->|[(Hcr & sc & ->)|(Hcr & sc & ->)]]);
               cbn [adjacent_branch_ok tbranch]; rewrite ty_is_one by discriminate; rewrite Htc, Hreq; cbn [negb andb assoc];
               rewrite ?ustr_eqb_refl, ?Htc, ?(ueqb_sym ct tg);
               cbn [str_enum_names xsimple_sch strs option_map forallb]; rewrite ?andb_true_r;
               cbn [branch_sh tbranch] in Hbsh.
             ++ destruct (Hbsh x eq_refl) as (vr & Hvr & Hrw & Hdt).
                destruct (find_variant_nodup vs Hndv vr 0%nat Hvr) as (i & Hfv). rewrite Hrw in Hfv. rewrite Hfv.
                cbn [fst snd]. rewrite ustr_eqb_refl. cbn [orb andb].
                unfold has_key. cbn [assoc]. rewrite (ueqb_sym ct tg), Htc, Hdt. reflexivity.
             ++ rewrite ustr_eqb_refl in Hbsh. destruct (Hbsh x eq_refl) as (vr & Hvr & Hrw & Hpsh).
                destruct (find_variant_nodup vs Hndv vr 0%nat Hvr) as (i & Hfv). rewrite Hrw in Hfv. rewrite Hfv.
                cbn [branch_fold tbranch] in Hfb. rewrite ustr_eqb_refl in Hfb. cbn [cstr xsimple_sch] in Hfb.
                cbn [fst snd]. rewrite !ustr_eqb_refl, (ueqb_sym ct tg), Htc. cbn [orb andb].
                rewrite (payload_cov sc deny vr (IHb ct sc (or_intror (or_introl eq_refl))) Hfb Hpsh). cbn [andb].
                unfold has_key. cbn [assoc]. rewrite (ueqb_sym ct tg), Htc, ustr_eqb_refl, Hcr. cbn [is_ap_false andb].
                apply orb_true_r.
             ++ rewrite (ueqb_sym ct tg), Htc in Hbsh. destruct (Hbsh x eq_refl) as (vr & Hvr & Hrw & Hpsh).
                destruct (find_variant_nodup vs Hndv vr 0%nat Hvr) as (i & Hfv). rewrite Hrw in Hfv. rewrite Hfv.
                cbn [branch_fold tbranch] in Hfb. rewrite (ueqb_sym ct tg), Htc in Hfb. cbn [cstr xsimple_sch] in Hfb.
                cbn [fst snd]. rewrite !ustr_eqb_refl, (ueqb_sym ct tg), Htc. cbn [orb andb].
                rewrite (payload_cov sc deny vr (IHb ct sc (or_introl eq_refl)) Hfb Hpsh). cbn [andb].
                unfold has_key. cbn [assoc]. rewrite ustr_eqb_refl, Hcr. cbn [is_ap_false andb].
                apply orb_true_r. }
      { (* ---- a struct / tuple payload against the data of a variant *)
      intros Hf. split.
      + intros ps deny Hcl Hss. cbn [classify_s] in Hcl. cbn [sch_props sch_required] in Hss.
        pose proof Hf as Hfi. apply frag_obj_inv0 in Hfi. destruct Hfi as (nl & k & Hcl' & -> & -> & Hone & ->).
        rewrite Hcl in Hcl'. injection Hcl' as <- <-. cbn in Hone. subst oneo.
        cbn [frag] in Hf. rewrite Hcl in Hf. change (frag_kind cls D (KStruct deny) items props req ap None = true) in Hf.
        pose proof Hcl as Hcases. apply classify_cases in Hcases.
        destruct Hcases as [(l & tt & -> & -> & Hsp & Hkt)
                           |(_ & _ & _ & _ & _ & _ & _ & _ & _ & _ & _ & _ & _ & [(r & _ & Hk)|[(_ & Hk)|(bs & _ & _ & [(tg & Hk & _)|(Hk & _)])]])];
          try discriminate Hk.
        apply kind_of_type_inv in Hkt. destruct Hkt as (_ & _ & _ & _ & _ & _ & _ & -> & Hap).
        cbn [covers covers_obj orb]. destruct Hss as (Hndw & _ & HM & Hback).
        cbn [frag_kind] in Hf. apply andb_true_iff in Hf. destruct Hf as [Hf Hfp].
        apply andb_true_iff in Hf. destruct Hf as [_ Hopt].
        apply struct_case_sh; try assumption.
        eapply ty_is_split; [exact Hsp|discriminate|discriminate|reflexivity].
      + intros ts Hcl Hall. cbn [classify_s] in Hcl. cbn [sch_items snd] in Hall.
        pose proof Hf as Hfi. apply frag_obj_inv0 in Hfi. destruct Hfi as (nl & k & Hcl' & -> & -> & Hone & ->).
        rewrite Hcl in Hcl'. injection Hcl' as <- <-. cbn in Hone. subst oneo.
        cbn [frag] in Hf. rewrite Hcl in Hf. change (frag_kind cls D KTuple items props req ap None = true) in Hf.
        pose proof Hcl as Hcases. apply classify_cases in Hcases.
        destruct Hcases as [(l & tt & -> & -> & Hsp & Hkt)
                           |(_ & _ & _ & _ & _ & _ & _ & _ & _ & _ & _ & _ & _ & [(r & _ & Hk)|[(_ & Hk)|(bs & _ & _ & [(tg & Hk & _)|(Hk & _)])]])];
          try discriminate Hk.
        apply kind_of_type_inv in Hkt. destruct Hkt as (_ & _ & Hlen & _ & _ & _ & _ & -> & ->).
        apply tuple_len_inv in Hlen. destruct Hlen as [-> ->].
        cbn [covers covers_obj orb]. unfold tuple_case.
        rewrite (ty_is_split l false TArray false [TArray] Hsp) by (try discriminate; reflexivity). cbn [andb].
        cbn [frag_kind] in Hf.
        destruct (cov_list_sh items ts IHitems Hf Hall) as [Hl Hc]. rewrite Hl, N.eqb_refl, Hc. reflexivity. }
    - intros ty fmt enum cst nv sv ik items ai mni mxi uq props req ap mnp mxp allo bs no ref dflt title [HO1 HO2]. split.
      + intros Hf t Hs ft nn.
        destruct (frag_classify cls D _ _ _ _ _ _ _ _ _ _ _ _ _ _ _ _ _ _ _ _ _ _ _ _ Hf) as (x & Hcl).
        rewrite (any_frag cls D _ _ _ _ _ _ _ _ _ _ _ _ _ _ _ _ _ _ _ _ _ _ _ x Hcl) in Hf.
        cbn [shape] in Hs. rewrite Hcl in Hs.
        assert (Hs' : shape cls D T (SObj ty fmt enum cst nv sv ik items ai mni mxi uq props req ap mnp mxp allo None (Some bs) no ref dflt title) t).
        { cbn [shape]. rewrite (any_classify _ _ _ _ _ _ _ _ _ _ _ _ _ _ _ _ _ _ _ _ _ _ _ x Hcl). exact Hs. }
        pose proof (HO1 Hf t Hs' ft nn) as HG. cbn [Gs] in *. rewrite go_swap. exact HG.
      + intros Hf. destruct (frag_classify cls D _ _ _ _ _ _ _ _ _ _ _ _ _ _ _ _ _ _ _ _ _ _ _ _ Hf) as ([nl k] & Hcl).
        pose proof (classify_union _ _ _ _ _ _ _ _ _ _ _ _ _ _ _ _ _ _ _ _ _ _ _ nl k (any_classify _ _ _ _ _ _ _ _ _ _ _ _ _ _ _ _ _ _ _ _ _ _ _ _ Hcl)) as Hk.
        split.
        * intros ps deny Hc' _. cbn [classify_s] in Hc'. rewrite Hcl in Hc'. injection Hc' as _ ->. contradiction.
        * intros ts Hc' _. cbn [classify_s] in Hc'. rewrite Hcl in Hc'. injection Hc' as _ ->. contradiction.
    - intros ty fmt enum cst nv sv ik items ai mni mxi uq props req ap mnp mxp allo abs obs no ref dflt title. split; intros Hf; rewrite both_frag in Hf; discriminate Hf.
  Qed.

  Lemma conv_C : forall s, Cv s.
  Proof. intro s. exact (proj1 (conv_C2 s)). Qed.

  Lemma topshape_covers s t :
    frag cls keys s = true -> topshape cls D T s t -> cov s false (TId t) = true.
  Proof.
    intros Hf [[Hs _]|(n & i & Hd & Hs)].
    - apply Cv_covers; [apply conv_C|assumption..].
    - rewrite (covers_frag_Gs cls re native D T s false t Hf). unfold FT.
      apply (Gs_newtype cls re native D T s 5 false t n None i Hf Hd). apply (conv_C s Hf i Hs 3%nat false).
  Qed.
End CoversMain.

Theorem convert_covers cls re native D T :
  in_frag cls D = true -> convert_doc cls D = Some T ->
  covers_all re native D T (pairs_of D) = true.
Proof.
  intros Hin Hc. destruct (convert_shape cls D T Hin Hc) as (Hsh & _ & _).
  unfold in_frag in Hin.
  apply andb_true_iff in Hin. destruct Hin as [Hin _].
  apply andb_true_iff in Hin. destruct Hin as [Hin _].
  apply andb_true_iff in Hin. destruct Hin as [Hin Hfr].
  apply andb_true_iff in Hin. destruct Hin as [Hks _].
  rewrite forallb_forall in Hfr.
  unfold covers_all. apply forallb_forall. intros p Hpin. unfold pairs_of in Hpin.
  destruct (pairs_from_nth D 1 p Hpin) as (j & sch & Hn & Hs).
  unfold resolve_ref. rewrite (assoc_nth D j (fst p) sch (keys_sorted_NoDup _ Hks) Hn).
  rewrite Hs. replace (1 + N.of_nat j) with (N.of_nat j + 1) by lia.
  apply (topshape_covers cls re native D T sch); [exact (Hfr _ (nth_error_In _ _ Hn))|].
  exact (Hsh j (fst p) sch Hn).
Qed.

(* with CoversProofs.covers_sound: every valid instance of every definition deserialises *)
Theorem fragment_sound cls re fmt_ok native D T :
  (forall f n s, In (f, n) format_native_table -> fmt_ok f s = true -> native n s = true) ->
  in_frag cls D = true -> convert_doc cls D = Some T ->
  forall r t, In (r, t) (pairs_of D) ->
  forall v, in_dom v = true ->
  Valid re fmt_ok D (SRef r) v ->
  exists f, de re native T f t v <> None.
Proof.
  intros Hfmt Hin Hc. apply (covers_sound re fmt_ok native D T (pairs_of D) Hfmt).
  apply convert_covers with (cls := cls); assumption.
Qed.
