(* Proofs/MergeExactProofs.v — EXACTNESS of the model of typify's allOf merge (Algo/Merge.v) on the fragment
   [obj_frag]: both directions, never-soundness, closure, merge_all, permutation equivalence, [Valid]
   corollaries, examples.  Continues Proofs/MergeProofs.v. *)
From Coq Require Import String ZArith NArith QArith List Bool Lia Permutation Btauto.
From Typify Require Import Base.Json Spec.Schema Spec.Valid IR.TypeIR IR.Serde
     Algo.Merge Check.Uninhabited Proofs.ValidProofs Proofs.MergeProofs.
Import ListNotations.
Close Scope Q_scope.
Close Scope string_scope.
Open Scope list_scope.
Open Scope nat_scope.
Local Arguments all_itypes : simpl never.

(* ====================================================================== [obj_frag]: EXACTNESS of the merge
   (both directions), never-soundness, closure, merge_all, permutation equivalence, [Valid] corollaries;
   [wa] = arrays in the fragment, [tm] = tuple mode (tuple items + additionalItems instead of single items) *)





Definition tx_ok (tx : itype) : Prop := tx = TNumber \/ tx = TInteger.

(* with one of `number` / `integer` absent, the instance types are pairwise disjoint *)
Lemma type_ok_disjoint_x tx iaf t1 t2 v :
  tx_ok tx -> t1 <> tx -> t2 <> tx ->
  type_ok iaf t1 v = true -> type_ok iaf t2 v = true -> t1 = t2.
Proof.
  intros [->| ->] N1 N2;
  destruct t1, t2; try reflexivity; try (exfalso; apply N1; reflexivity); try (exfalso; apply N2; reflexivity);
    destruct v; simpl; intros H1 H2; try discriminate H1; try discriminate H2.
Qed.

Lemma notype_in tx l t : forallb (fun t => negb (itype_eqb t tx)) l = true -> In t l -> t <> tx.
Proof.
  intros H Hin E. subst t. rewrite forallb_forall in H. specialize (H _ Hin).
  rewrite itype_eqb_refl in H. discriminate H.
Qed.

Lemma mem_ty_In t l : mem_ty t l = true <-> In t l.
Proof.
  unfold mem_ty. rewrite existsb_exists. split.
  - intros [x [Hin E]]. apply itype_eqb_true in E. subst. exact Hin.
  - intros H. exists t. split; [exact H | apply itype_eqb_refl].
Qed.

(* merge_so_instance_type is EXACT when integer and number do not meet *)
Lemma merge_ty_exact tx o ta tb v :
  tx_ok tx -> notype tx ta = true -> notype tx tb = true ->
  match merge_ty ta tb with
  | Some t => notype tx t = true /\ valid_type o t v = valid_type o ta v && valid_type o tb v
  | None => valid_type o ta v && valid_type o tb v = false
  end.
Proof.
  intros Htx Na Nb. destruct ta as [la|], tb as [lb|]; unfold merge_ty; cbv zeta.
  - set (i := filter (fun t => mem_ty t la && mem_ty t lb) all_itypes).
    assert (Hi : forall t, In t i <-> In t la /\ In t lb).
    { intros t. unfold i. rewrite filter_In, andb_true_iff, !mem_ty_In. split.
      - intros [_ H]. exact H.
      - intros H. split; [|exact H]. unfold all_itypes. destruct t; simpl; tauto. }
    assert (Hv : existsb (fun t => type_ok (int_accepts_integral_float o) t v) i
                 = valid_type o (Some la) v && valid_type o (Some lb) v).
    { unfold valid_type, opt_all.
      destruct (existsb (fun t => type_ok (int_accepts_integral_float o) t v) i) eqn:E.
      - apply existsb_exists in E. destruct E as [t [Hin Hok]]. apply Hi in Hin. destruct Hin as [I1 I2].
        symmetry. apply andb_true_iff. split; apply existsb_exists; exists t; auto.
      - symmetry. apply not_true_is_false. intros H. apply andb_true_iff in H. destruct H as [H1 H2].
        apply existsb_exists in H1. destruct H1 as [t1 [I1 O1]].
        apply existsb_exists in H2. destruct H2 as [t2 [I2 O2]].
        assert (t1 = t2).
        { apply (type_ok_disjoint_x tx (int_accepts_integral_float o) t1 t2 v Htx);
            [exact (notype_in tx la t1 Na I1) | exact (notype_in tx lb t2 Nb I2) | exact O1 | exact O2]. }
        subst t2. rewrite <- not_true_iff_false in E. apply E. apply existsb_exists. exists t1.
        split; [apply Hi; auto | exact O1]. }
    destruct i as [|x r] eqn:Ei.
    + simpl in Hv. symmetry. exact Hv.
    + split.
      * unfold notype, opt_all. apply forallb_forall. intros t Ht. apply Hi in Ht. destruct Ht as [Ht _].
        unfold notype, opt_all in Na. rewrite forallb_forall in Na. apply Na. exact Ht.
      * exact Hv.
  - split; [exact Na|]. unfold valid_type at 3. simpl. rewrite andb_true_r. reflexivity.
  - split; [exact Nb|]. reflexivity.
  - split; reflexivity.
Qed.

Lemma merge_ty_all_object_x ta tb t :
  merge_ty ta tb = Some t -> all_object ta = true \/ all_object tb = true -> all_object t = true.
Proof. apply merge_ty_all_object. Qed.


Lemma simple_eqb_eq x y : simple_json x = true -> json_eqb x y = true -> x = y.
Proof.
  destruct x, y; simpl; intros S H; try discriminate S; try discriminate H; try reflexivity.
  - destruct b, b0; simpl in H; try discriminate H; reflexivity.
  - apply Z.eqb_eq in H. subst. reflexivity.
  - apply m_ustr_eqb_eq in H. subst. reflexivity.
Qed.

Lemma json_eqb_refl_simple x : simple_json x = true -> json_eqb x x = true.
Proof.
  destruct x; simpl; intros S; try discriminate S; try reflexivity.
  - destruct b; reflexivity.
  - apply Z.eqb_refl.
  - apply m_ustr_eqb_refl.
Qed.

Lemma enum_of_exact ae ac aa v :
  enum_of ae ac = MOk aa -> enum_sem aa v = valid_enum ae v && valid_const ac v.
Proof.
  destruct ae as [l|], ac as [c|]; simpl; intros E; inversion E; subst; simpl.
  - unfold valid_const. simpl. rewrite andb_true_r. reflexivity.
  - unfold valid_const, valid_enum. simpl. rewrite orb_false_r. reflexivity.
  - reflexivity.
Qed.

Lemma merge_enum_exact ae ac be bc v :
  simple_enum ae = true -> opt_all simple_json ac = true ->
  simple_enum be = true -> opt_all simple_json bc = true ->
  match merge_enum ae ac be bc with
  | MOk em => simple_enum em = true /\
              enum_sem em v = (valid_enum ae v && valid_const ac v) && (valid_enum be v && valid_const bc v)
  | MNever => (valid_enum ae v && valid_const ac v) && (valid_enum be v && valid_const bc v) = false
  | _ => True
  end.
Proof.
  intros Sa Sac Sb Sbc. unfold merge_enum.
  destruct (enum_of ae ac) as [aa| | |] eqn:Ea; simpl; try exact I;
    [|destruct ae, ac; simpl in Ea; discriminate Ea].
  destruct (enum_of be bc) as [bb| | |] eqn:Eb; simpl; try exact I;
    [|destruct be, bc; simpl in Eb; discriminate Eb].
  rewrite <- (enum_of_exact _ _ _ v Ea), <- (enum_of_exact _ _ _ v Eb).
  pose proof (enum_of_simple _ _ _ Ea Sa Sac) as Hsa.
  pose proof (enum_of_simple _ _ _ Eb Sb Sbc) as Hsb.
  destruct aa as [la|], bb as [lb|]; simpl.
  - simpl in Hsa, Hsb. rewrite forallb_forall in Hsa, Hsb.
    set (i := filter (fun v0 => existsb (json_eqb v0) lb) la).
    assert (Hv : existsb (fun x => json_equiv x v) i
                 = existsb (fun x => json_equiv x v) la && existsb (fun x => json_equiv x v) lb).
    { destruct (existsb (fun x => json_equiv x v) i) eqn:E.
      - apply existsb_exists in E. destruct E as [x [Hin Hx]]. unfold i in Hin. apply filter_In in Hin.
        destruct Hin as [Ia Hb]. apply existsb_exists in Hb. destruct Hb as [y [Ib Exy]].
        pose proof (simple_eqb_eq _ _ (Hsa _ Ia) Exy) as <-.
        symmetry. apply andb_true_iff. split; apply existsb_exists; exists x; auto.
      - symmetry. apply not_true_is_false. intros H. apply andb_true_iff in H. destruct H as [H1 H2].
        apply existsb_exists in H1. destruct H1 as [x [Ia Ex]].
        apply existsb_exists in H2. destruct H2 as [y [Ib Ey]].
        rewrite <- not_true_iff_false in E. apply E. apply existsb_exists. exists x. split; [|exact Ex].
        unfold i. apply filter_In. split; [exact Ia|]. apply existsb_exists. exists y. split; [exact Ib|].
        eapply simple_equiv_eqb; eauto. }
    destruct i as [|z r] eqn:Ei.
    + simpl in Hv. symmetry. exact Hv.
    + split; [|exact Hv].
      unfold simple_enum, opt_all. apply forallb_forall. intros w Hw.
      assert (In w (filter (fun v0 => existsb (json_eqb v0) lb) la)) by (fold i; rewrite Ei; exact Hw).
      apply filter_In in H. apply Hsa. apply H.
  - split; [exact Hsa|]. rewrite andb_true_r. reflexivity.
  - split; [exact Hsb|]. reflexivity.
  - split; reflexivity.
Qed.

(* the enum filter of merge_schema_object does not change the instance set *)
Lemma enum_filter_exact o t c ev v :
  forallb simple_json ev = true -> opt_all simple_json c = true ->
  valid_type o t v = true -> valid_const c v = true ->
  existsb (fun x => json_equiv x v) (filter (value_validate t None c) ev)
  = existsb (fun x => json_equiv x v) ev.
Proof.
  intros Sev Sc Tv Cv.
  destruct (existsb (fun x => json_equiv x v) ev) eqn:E.
  - apply existsb_exists in E. destruct E as [x [Ix Ex]].
    apply existsb_exists. exists x. split; [|exact Ex]. apply filter_In. split; [exact Ix|].
    rewrite forallb_forall in Sev. pose proof (Sev _ Ix) as Sx.
    unfold value_validate. simpl. rewrite andb_true_r. apply andb_true_iff. split.
    + destruct c as [cc|]; [|reflexivity]. simpl in *. unfold valid_const in Cv. simpl in Cv.
      eapply simple_equiv_eqb; eauto.
    + destruct t as [l|]; [|reflexivity]. simpl. unfold valid_type in Tv. simpl in Tv.
      apply existsb_exists in Tv. destruct Tv as [t1 [I1 O1]].
      apply existsb_exists. exists t1. split; [exact I1|].
      eapply simple_check_instance; eauto.
  - apply not_true_is_false. intros H. apply existsb_exists in H. destruct H as [x [Ix Ex]].
    apply filter_In in Ix. destruct Ix as [Ix _].
    rewrite <- not_true_iff_false in E. apply E. apply existsb_exists. exists x. auto.
Qed.


(* ---- association lists with unique keys *)
Lemma has_key_iff {A} k (l : list (ustring * A)) : has_key k l = true <-> exists x, In (k, x) l.
Proof.
  split.
  - intros H. destruct (has_key_assoc _ _ H) as [x Hx]. exists x. apply assoc_In. exact Hx.
  - intros [x Hx]. eapply In_has_key; eauto.
Qed.

Lemma uniq_assoc_In {A} k (x : A) l : uniq_keys l = true -> In (k, x) l -> assoc k l = Some x.
Proof.
  induction l as [|[k' y] r IH]; simpl; [intros _ []|].
  intros U [E|Hin].
  - inversion E; subst. rewrite m_ustr_eqb_refl. reflexivity.
  - apply andb_true_iff in U. destruct U as [U1 U2].
    destruct (ustr_eqb k k') eqn:Ek.
    + apply m_ustr_eqb_eq in Ek. subst k'. apply negb_true_iff in U1.
      rewrite (In_has_key _ _ _ Hin) in U1. discriminate U1.
    + apply IH; assumption.
Qed.

Lemma uniq_functional {A} k (x y : A) l : uniq_keys l = true -> In (k, x) l -> In (k, y) l -> x = y.
Proof.
  intros U H1 H2. apply (uniq_assoc_In _ _ _ U) in H1. apply (uniq_assoc_In _ _ _ U) in H2. congruence.
Qed.

Lemma wf_json_obj kvs :
  wf_json (JObj kvs) = true -> uniq_keys kvs = true /\ forall k x, In (k, x) kvs -> wf_json x = true.
Proof.
  induction kvs as [|[k x] r IH]; intros H.
  - split; [reflexivity | intros k x []].
  - change (negb (has_key k r) && wf_json x && wf_json (JObj r) = true) in H.
    apply andb_true_iff in H. destruct H as [H H3]. apply andb_true_iff in H. destruct H as [H1 H2].
    destruct (IH H3) as [U W]. split.
    + simpl. rewrite H1, U. reflexivity.
    + intros k' x' [E|Hin]; [inversion E; subst; exact H2 | eauto].
Qed.

(* validity of the object applicators, key by key *)
Definition keysem (F : schema -> json -> bool) (props : list (ustring * schema)) (ap : option schema)
           (k : ustring) (x : json) : bool :=
  match assoc k props with
  | Some s => F s x
  | None => opt_all (fun a => F a x) ap
  end.

Lemma valid_obj_keywise F props ap kvs :
  uniq_keys props = true -> uniq_keys kvs = true ->
  (valid_obj F props ap kvs = true <-> forall k x, In (k, x) kvs -> keysem F props ap k x = true).
Proof.
  intros Up Uk. rewrite valid_obj_spec. unfold keysem. split.
  - intros [H1 H2] k x Hin.
    destruct (assoc k props) as [s|] eqn:Es.
    + eapply H1; [apply assoc_In; exact Es | apply uniq_assoc_In; assumption].
    + destruct ap as [a|]; [|reflexivity]. simpl.
      destruct (H2 a eq_refl k x Hin) as [Hk|Hv]; [|exact Hv].
      unfold has_key in Hk. rewrite Es in Hk. discriminate Hk.
  - intros H. split.
    + intros k s x Hin Hx. apply assoc_In in Hx. specialize (H _ _ Hx).
      rewrite (uniq_assoc_In _ _ _ Up Hin) in H. exact H.
    + intros a -> k x Hin. specialize (H _ _ Hin).
      destruct (assoc k props) as [s|] eqn:Es.
      * left. unfold has_key. rewrite Es. reflexivity.
      * right. exact H.
Qed.

(* ---- props_loop keeps keys unique *)
Lemma props_loop_keys req apm ps pm k :
  props_loop req apm ps = MOk pm -> has_key k pm = true -> has_key k ps = true.
Proof.
  intros El Hk. apply has_key_iff in Hk. destruct Hk as [s Hs].
  destruct (props_loop_ok _ _ _ _ El) as (_ & P1 & _).
  apply has_key_iff. eexists. apply P1. exact Hs.
Qed.

Lemma props_loop_uniq req apm ps : forall pm,
  uniq_keys ps = true -> props_loop req apm ps = MOk pm -> uniq_keys pm = true.
Proof.
  induction ps as [|[k r] rest IH]; intros pm U El.
  - simpl in El. inversion El; subst. reflexivity.
  - simpl in U. apply andb_true_iff in U. destruct U as [U1 U2]. apply negb_true_iff in U1.
    destruct r as [s| | |]; try (simpl in El; discriminate El).
    rewrite props_loop_cons in El.
    assert (Hcons : forall l s', props_loop req apm rest = MOk l -> uniq_keys ((k, s') :: l) = true).
    { intros l s' E. simpl. rewrite (IH _ U2 E), andb_true_r. apply negb_true_iff.
      destruct (has_key k l) eqn:Hk; [|reflexivity].
      rewrite (props_loop_keys _ _ _ _ _ E Hk) in U1. discriminate U1. }
    destruct (is_false s).
    + destruct (mem_ustr k req); [discriminate El|].
      destruct (ap_is_false apm); [apply IH; assumption|].
      destruct (props_loop req apm rest) as [l| | |] eqn:E; simpl in El; try discriminate El.
      inversion El; subst. apply Hcons. reflexivity.
    + destruct (props_loop req apm rest) as [l| | |] eqn:E; simpl in El; try discriminate El.
      inversion El; subst. apply Hcons. reflexivity.
Qed.

(* ---- the instances of the theorems *)
Lemma inst_ok_obj wa kvs :
  inst_ok wa (JObj kvs) = true ->
  uniq_keys kvs = true /\ forall k x, In (k, x) kvs -> inst_ok wa x = true.
Proof.
  unfold inst_ok. intros H. apply andb_true_iff in H. destruct H as [W N].
  destruct (wf_json_obj _ W) as [U Wx]. split; [exact U|].
  intros k x Hin. rewrite (Wx _ _ Hin). simpl.
  destruct wa; [|reflexivity]. simpl in *. rewrite forallb_forall in N. apply (N (k, x) Hin).
Qed.

Lemma inst_ok_arr wa l :
  inst_ok wa (JArr l) = true ->
  (wa = true -> l <> []) /\ forall x, In x l -> inst_ok wa x = true.
Proof.
  unfold inst_ok. intros H. apply andb_true_iff in H. destruct H as [W N]. split.
  - intros -> ->. simpl in N. discriminate N.
  - intros x Hin. simpl in W. rewrite forallb_forall in W. rewrite (W _ Hin). simpl.
    destruct wa; [|reflexivity]. simpl in *. destruct l as [|y r]; [destruct Hin|].
    rewrite forallb_forall in N. apply N. exact Hin.
Qed.

Lemma inst_ok_wf wa v : inst_ok wa v = true -> wf_json v = true.
Proof. unfold inst_ok. intros H. apply andb_true_iff in H. apply H. Qed.


Lemma uniq_keys_map {A B} (f : A -> B) (l : list (ustring * A)) :
  uniq_keys (map (fun kv => (fst kv, f (snd kv))) l) = uniq_keys l.
Proof.
  induction l as [|[k x] r IH]; simpl; [reflexivity|]. rewrite IH. f_equal. f_equal.
  unfold has_key. clear IH. induction r as [|[k' y] r IH]; simpl; [reflexivity|].
  destruct (ustr_eqb k k'); [reflexivity | exact IH].
Qed.

Lemma uniq_keys_map2 {A B} (f : ustring * A -> B) (l : list (ustring * A)) :
  uniq_keys (map (fun kv => (fst kv, f kv)) l) = uniq_keys l.
Proof.
  induction l as [|[k x] r IH]; simpl; [reflexivity|]. rewrite IH. f_equal. f_equal.
  unfold has_key. clear IH. induction r as [|[k' y] r IH]; simpl; [reflexivity|].
  destruct (ustr_eqb k k'); [reflexivity | exact IH].
Qed.

Lemma uniq_keys_filter {A} (p : ustring * A -> bool) (l : list (ustring * A)) :
  uniq_keys l = true -> uniq_keys (filter p l) = true.
Proof.
  induction l as [|[k x] r IH]; simpl; [reflexivity|]. intros U.
  apply andb_true_iff in U. destruct U as [U1 U2].
  destruct (p (k, x)); [|apply IH; exact U2].
  simpl. rewrite (IH U2), andb_true_r. apply negb_true_iff. apply negb_true_iff in U1.
  destruct (has_key k (filter p r)) eqn:Hk; [|reflexivity].
  apply has_key_iff in Hk. destruct Hk as [y Hy]. apply filter_In in Hy. destruct Hy as [Hy _].
  rewrite (In_has_key _ _ _ Hy) in U1. discriminate U1.
Qed.

Lemma uniq_keys_app {A} (l1 l2 : list (ustring * A)) :
  uniq_keys l1 = true -> uniq_keys l2 = true ->
  (forall k, has_key k l1 = true -> has_key k l2 = true -> False) ->
  uniq_keys (l1 ++ l2) = true.
Proof.
  induction l1 as [|[k x] r IH]; simpl; intros U1 U2 D; [exact U2|].
  apply andb_true_iff in U1. destruct U1 as [Ua Ub].
  rewrite IH; [rewrite andb_true_r | exact Ub | exact U2 |].
  - apply negb_true_iff. apply negb_true_iff in Ua.
    destruct (has_key k (r ++ l2)) eqn:Hk; [|reflexivity].
    apply has_key_iff in Hk. destruct Hk as [y Hy]. apply in_app_iff in Hy. destruct Hy as [Hy|Hy].
    + rewrite (In_has_key _ _ _ Hy) in Ua. discriminate Ua.
    + exfalso. apply (D k).
      * unfold has_key. simpl. rewrite m_ustr_eqb_refl. reflexivity.
      * eapply In_has_key; eauto.
  - intros k' H1 H2. apply (D k'); [|exact H2].
    unfold has_key in *. simpl. destruct (ustr_eqb k' k); [reflexivity | exact H1].
Qed.

Section ObjExact.
  Variable re_match : ustring -> ustring -> bool.
  Variable fmt_ok : ustring -> ustring -> bool.
  Variable o : vopts.
  Variable DV : defs.
  Variable n : nat.
  Variable wa : bool.
  Variable tm : bool.
  Variable tx : itype.
  Local Notation V := (Valid.validx re_match fmt_ok o DV n).

  (* exactness invariant of a merge result *)
  Definition ex_ok (r : mres schema) (a b : schema) : Prop :=
    match r with
    | MOk m => obj_frag wa tm tx m = true /\ forall v, inst_ok wa v = true -> V m v = V a v && V b v
    | MNever => forall v, inst_ok wa v = true -> V a v && V b v = false
    | _ => True
    end.

  Variable mrg : schema -> schema -> mres schema.
  Hypothesis Hm : forall x y, obj_frag wa tm tx x = true -> obj_frag wa tm tx y = true -> ex_ok (mrg x y) x y.

  Local Notation apS := (apsem re_match fmt_ok o DV n).

  Lemma filter_prop_exact ap prop x : V (filter_prop ap prop) x = apS ap x && V prop x.
  Proof.
    unfold apsem.
    destruct ap as [[[|]|ty fmt enum cst nv sv ik items ai mni mxi uq props req ap mnp mxp allo anyo oneo no ref d t]|];
      simpl filter_prop; simpl opt_all.
    - rewrite valid_SBool. reflexivity.
    - rewrite valid_SBool. reflexivity.
    - rewrite valid_allOf. simpl. rewrite andb_true_r. reflexivity.
    - reflexivity.
  Qed.

  Lemma filter_prop_frag ap prop :
    opt_all (obj_frag wa tm tx) ap = true -> obj_frag wa tm tx prop = true -> obj_frag wa tm tx (filter_prop ap prop) = true.
  Proof.
    destruct ap as [[[|]|ty fmt enum cst nv sv ik items ai mni mxi uq props req ap mnp mxp allo anyo oneo no ref d t]|];
      intros A P; try exact P; try reflexivity.
    unfold filter_prop, SAllOf. cbn [obj_frag]. cbn [opt_all] in A.
    cbn [notype opt_all is_none simple_enum forallb uniq_keys andb].
    rewrite A, P. unfold arr_cond. simpl. rewrite ?orb_true_r. reflexivity.
  Qed.

  Lemma merge_ap_exact ap ap' :
    opt_all (obj_frag wa tm tx) ap = true -> opt_all (obj_frag wa tm tx) ap' = true ->
    match merge_ap mrg ap ap' with
    | MOk apm => opt_all (obj_frag wa tm tx) apm = true
                 /\ forall x, inst_ok wa x = true -> apS apm x = apS ap x && apS ap' x
    | MNever => False
    | _ => True
    end.
  Proof.
    unfold apsem.
    destruct ap as [x|], ap' as [y|]; simpl; intros A B.
    - pose proof (Hm x y A B) as H. unfold ex_ok in H.
      destruct (mrg x y) as [m| | |]; simpl; try exact I.
      + destruct H as [H1 H2]. split; [exact H1 | exact H2].
      + split; [reflexivity|]. intros z Wz. rewrite valid_SBool. symmetry. apply H. exact Wz.
    - split; [exact A|]. intros z _. rewrite andb_true_r. reflexivity.
    - split; [exact B|]. intros z _. reflexivity.
    - split; [reflexivity|]. intros z _. reflexivity.
  Qed.

  (* ---- the entries of the property loop *)
  Variables (props props' : list (ustring * schema)) (ap ap' : option schema).
  Hypothesis Fa : forallb (fun kv => obj_frag wa tm tx (snd kv)) props = true.
  Hypothesis Fb : forallb (fun kv => obj_frag wa tm tx (snd kv)) props' = true.
  Hypothesis Aa : opt_all (obj_frag wa tm tx) ap = true.
  Hypothesis Ab : opt_all (obj_frag wa tm tx) ap' = true.
  Hypothesis Ua : uniq_keys props = true.
  Hypothesis Ub : uniq_keys props' = true.

  Local Notation ps := (from_a mrg props props' ap' ++ from_b props props' ap).

  Lemma frag_in (l : list (ustring * schema)) k s :
    forallb (fun kv => obj_frag wa tm tx (snd kv)) l = true -> In (k, s) l -> obj_frag wa tm tx s = true.
  Proof. intros H Hin. rewrite forallb_forall in H. apply (H (k, s) Hin). Qed.

  Lemma ps_uniq : uniq_keys ps = true.
  Proof.
    apply uniq_keys_app.
    - unfold from_a.
      rewrite (uniq_keys_map2 (fun kv => match assoc (fst kv) props' with
                                         | Some sb => or_false (mrg (snd kv) sb)
                                         | None => MOk (filter_prop ap' (snd kv))
                                         end) props). exact Ua.
    - unfold from_b.
      rewrite (uniq_keys_map2 (fun kv => @MOk schema (filter_prop ap (snd kv)))).
      apply uniq_keys_filter. exact Ub.
    - intros k H1 H2. apply has_key_iff in H1. destruct H1 as [r1 H1]. apply has_key_iff in H2. destruct H2 as [r2 H2].
      apply in_from_a in H1. destruct H1 as [sa [Hin _]].
      apply in_from_b in H2. destruct H2 as [sb [_ [Hk _]]].
      rewrite (In_has_key _ _ _ Hin) in Hk. discriminate Hk.
  Qed.

  (* what the resolved schema of an entry means, for every (well-formed) member value *)
  Lemma entry_exact k s :
    In (k, MOk s) ps ->
    obj_frag wa tm tx s = true /\
    forall x, inst_ok wa x = true -> V s x = keysem V props ap k x && keysem V props' ap' k x.
  Proof.
    intros Hin. apply in_app_iff in Hin. unfold keysem. destruct Hin as [H|H].
    - apply in_from_a in H. destruct H as [sa [Hina E]].
      rewrite (uniq_assoc_In _ _ _ Ua Hina).
      pose proof (frag_in _ _ _ Fa Hina) as Fsa.
      destruct (assoc k props') as [sb|] eqn:Eb.
      + pose proof (assoc_In _ _ _ Eb) as Hinb. pose proof (frag_in _ _ _ Fb Hinb) as Fsb.
        pose proof (Hm sa sb Fsa Fsb) as Hx. unfold ex_ok in Hx.
        destruct (mrg sa sb) as [m| | |]; simpl in E; inversion E; subst.
        * exact Hx.
        * split; [reflexivity|]. intros x Wx. rewrite valid_SBool. symmetry. apply Hx. exact Wx.
      + inversion E; subst. split; [apply filter_prop_frag; assumption|].
        intros x _. rewrite filter_prop_exact. apply andb_comm.
    - apply in_from_b in H. destruct H as [sb [Hinb [Hk E]]]. inversion E; subst.
      rewrite (has_key_false_assoc _ _ Hk). rewrite (uniq_assoc_In _ _ _ Ub Hinb).
      split; [apply filter_prop_frag; [assumption | eapply frag_in; eauto]|].
      intros x _. apply filter_prop_exact.
  Qed.

  Lemma entry_exists k :
    has_key k props = true \/ has_key k props' = true -> exists r, In (k, r) ps.
  Proof.
    intros [H|H].
    - apply has_key_iff in H. destruct H as [sa Hsa]. eapply entries_cover_a; eauto.
    - apply has_key_iff in H. destruct H as [sb Hsb]. eapply entries_cover_b; eauto.
  Qed.

  Lemma entry_keys k r : In (k, r) ps -> has_key k props = true \/ has_key k props' = true.
  Proof.
    intros H. apply in_app_iff in H. destruct H as [H|H].
    - apply in_from_a in H. destruct H as [sa [Hin _]]. left. eapply In_has_key; eauto.
    - apply in_from_b in H. destruct H as [sb [Hin _]]. right. eapply In_has_key; eauto.
  Qed.

  (* key by key, the merged object group means the conjunction *)
  Lemma merged_keysem req0 apm pm k x :
    props_loop req0 apm ps = MOk pm ->
    (forall z, inst_ok wa z = true -> apS apm z = apS ap z && apS ap' z) ->
    inst_ok wa x = true ->
    keysem V pm apm k x = keysem V props ap k x && keysem V props' ap' k x.
  Proof.
    intros El Hap Wx.
    destruct (props_loop_ok _ _ _ _ El) as (P0 & P1 & P2 & P3).
    pose proof ps_uniq as Ups.
    destruct (has_key k props || has_key k props') eqn:Hk.
    - apply orb_true_iff in Hk. destruct (entry_exists k Hk) as [r Hr].
      destruct (P0 _ _ Hr) as [s ->]. destruct (entry_exact k s Hr) as [_ Hs].
      rewrite <- (Hs x Wx).
      destruct (is_false s) eqn:Fs.
      + pose proof (is_false_eq _ Fs) as ->. rewrite valid_SBool.
        unfold keysem. destruct (assoc k pm) as [s''|] eqn:Epm.
        * apply assoc_In in Epm. apply P1 in Epm.
          pose proof (uniq_functional _ _ _ _ Ups Epm Hr) as E. inversion E; subst. apply valid_SBool.
        * destruct (P3 _ _ Hr eq_refl) as [_ J].
          destruct (ap_is_false apm) eqn:Af.
          -- destruct apm as [[[|]|]|]; try discriminate Af. simpl. apply valid_SBool.
          -- pose proof (In_has_key _ _ _ (J eq_refl)) as C. unfold has_key in C. rewrite Epm in C. discriminate C.
      + pose proof (P2 _ _ Hr Fs) as Hpm.
        unfold keysem at 1. rewrite (uniq_assoc_In _ _ _ (props_loop_uniq _ _ _ _ Ups El) Hpm). reflexivity.
    - apply orb_false_iff in Hk. destruct Hk as [Ka Kb].
      unfold keysem. rewrite (has_key_false_assoc _ _ Ka), (has_key_false_assoc _ _ Kb).
      destruct (assoc k pm) as [s''|] eqn:Epm.
      + apply assoc_In in Epm. apply P1 in Epm. destruct (entry_keys _ _ Epm) as [C|C]; congruence.
      + apply Hap. exact Wx.
  Qed.
End ObjExact.


Lemma choose_max_iff a b len :
  opt_all (fun m => N.leb m len) (choose N.max a b) = true <->
  opt_all (fun m => N.leb m len) a = true /\ opt_all (fun m => N.leb m len) b = true.
Proof.
  destruct a as [x|], b as [y|]; simpl; rewrite ?N.leb_le; try tauto. lia.
Qed.

Lemma choose_min_iff a b len :
  opt_all (fun m => N.leb len m) (choose N.min a b) = true <->
  opt_all (fun m => N.leb len m) a = true /\ opt_all (fun m => N.leb len m) b = true.
Proof.
  destruct a as [x|], b as [y|]; simpl; rewrite ?N.leb_le; try tauto. lia.
Qed.

Lemma union_req_forallb (f : ustring -> bool) a b :
  forallb f (union_req a b) = true <-> forallb f a = true /\ forallb f b = true.
Proof.
  unfold union_req. rewrite forallb_app, andb_true_iff. split.
  - intros [H1 H2]. split; [exact H1|]. apply forallb_forall. intros k Hk.
    destruct (mem_ustr k a) eqn:M.
    + apply mem_ustr_In in M. rewrite forallb_forall in H1. apply H1. exact M.
    + rewrite forallb_forall in H2. apply H2. apply filter_In. split; [exact Hk|]. rewrite M. reflexivity.
  - intros [H1 H2]. split; [exact H1|]. apply forallb_forall. intros k Hk. apply filter_In in Hk.
    rewrite forallb_forall in H2. apply H2. apply Hk.
Qed.

Lemma valid_obj_local_merge req mnp mxp req' mnp' mxp' kvs :
  valid_obj_local (union_req req req') (choose N.max mnp mnp') (choose N.min mxp mxp') (JObj kvs) = true <->
  valid_obj_local req mnp mxp (JObj kvs) = true /\ valid_obj_local req' mnp' mxp' (JObj kvs) = true.
Proof.
  unfold valid_obj_local. rewrite !andb_true_iff, union_req_forallb, choose_max_iff, choose_min_iff. tauto.
Qed.

Lemma obj_absent_shape props req ap mnp mxp :
  obj_absent props req ap mnp mxp = true -> props = [] /\ req = [] /\ ap = None /\ mnp = None /\ mxp = None.
Proof.
  unfold obj_absent. destruct props, req, ap, mnp, mxp; simpl; intros H; try discriminate H. repeat split.
Qed.

Section ObjGroupExact.
  Variable re_match : ustring -> ustring -> bool.
  Variable fmt_ok : ustring -> ustring -> bool.
  Variable o : vopts.
  Variable DV : defs.
  Variable n : nat.
  Variable wa : bool.
  Variable tm : bool.
  Variable tx : itype.
  Local Notation V := (Valid.validx re_match fmt_ok o DV n).
  Local Notation exok := (ex_ok re_match fmt_ok o DV n wa tm tx).

  Variable mrg : schema -> schema -> mres schema.
  Hypothesis Hm : forall x y, obj_frag wa tm tx x = true -> obj_frag wa tm tx y = true -> exok (mrg x y) x y.

  Definition obool (props : list (ustring * schema)) (req : list ustring) (ap : option schema)
             (mnp mxp : option N) (kvs : list (ustring * json)) : bool :=
    valid_obj_local req mnp mxp (JObj kvs) && valid_obj V props ap kvs.

  Lemma merge_obj_exact props req ap mnp mxp props' req' ap' mnp' mxp' :
    forallb (fun kv => obj_frag wa tm tx (snd kv)) props = true ->
    forallb (fun kv => obj_frag wa tm tx (snd kv)) props' = true ->
    opt_all (obj_frag wa tm tx) ap = true -> opt_all (obj_frag wa tm tx) ap' = true ->
    uniq_keys props = true -> uniq_keys props' = true ->
    match merge_obj mrg (props, req, ap, mnp, mxp) (props', req', ap', mnp', mxp') with
    | MOk (pm, rm, apm, mnm, mxm) =>
        forallb (fun kv => obj_frag wa tm tx (snd kv)) pm = true /\ opt_all (obj_frag wa tm tx) apm = true
        /\ uniq_keys pm = true
        /\ (obj_absent props req ap mnp mxp = true -> obj_absent props' req' ap' mnp' mxp' = true ->
            obj_absent pm rm apm mnm mxm = true)
        /\ forall kvs, inst_ok wa (JObj kvs) = true ->
                       obool pm rm apm mnm mxm kvs = obool props req ap mnp mxp kvs && obool props' req' ap' mnp' mxp' kvs
    | MNever => obj_absent props req ap mnp mxp = false /\ obj_absent props' req' ap' mnp' mxp' = false
                /\ forall kvs, inst_ok wa (JObj kvs) = true ->
                               obool props req ap mnp mxp kvs && obool props' req' ap' mnp' mxp' kvs = false
    | _ => True
    end.
  Proof.
    intros Fa Fb Aa Ab Ua Ub.
    unfold merge_obj. cbv beta iota zeta.
    destruct (obj_absent props req ap mnp mxp) eqn:Oa.
    { destruct (obj_absent_shape _ _ _ _ _ Oa) as (-> & -> & -> & -> & ->).
      split; [exact Fb | split; [exact Ab | split; [exact Ub | split; [intros _ H; exact H|]]]].
      intros kvs _. unfold obool at 2. unfold valid_obj_local, valid_obj. simpl. reflexivity. }
    destruct (obj_absent props' req' ap' mnp' mxp') eqn:Ob.
    { destruct (obj_absent_shape _ _ _ _ _ Ob) as (-> & -> & -> & -> & ->).
      split; [exact Fa | split; [exact Aa | split; [exact Ua | split; [intros C; discriminate C|]]]].
      intros kvs _. unfold obool at 3. unfold valid_obj_local, valid_obj. simpl. rewrite andb_true_r. reflexivity. }
    pose proof (merge_ap_exact re_match fmt_ok o DV n wa tm tx mrg Hm ap ap' Aa Ab) as Hap.
    destruct (merge_ap mrg ap ap') as [apm| | |]; cbn [mbind]; try exact I; [|destruct Hap].
    destruct Hap as (Am & Sap).
    set (ps := from_a mrg props props' ap' ++ from_b props props' ap).
    pose proof (ps_uniq mrg props props' ap ap' Ua Ub) as Ups. fold ps in Ups.
    (* validity of both sides, key by key *)
    assert (Kboth : forall kvs, inst_ok wa (JObj kvs) = true ->
              (valid_obj V props ap kvs = true /\ valid_obj V props' ap' kvs = true <->
               forall k x, In (k, x) kvs -> keysem V props ap k x && keysem V props' ap' k x = true)).
    { intros kvs W. destruct (inst_ok_obj wa _ W) as [Uk _].
      rewrite (valid_obj_keywise V props ap kvs Ua Uk), (valid_obj_keywise V props' ap' kvs Ub Uk).
      split.
      - intros [H1 H2] k x Hin. rewrite (H1 _ _ Hin), (H2 _ _ Hin). reflexivity.
      - intros H. split; intros k x Hin; specialize (H _ _ Hin); apply andb_true_iff in H; apply H. }
    match goal with
    | |- context [props_loop ?r ?a ?l] => destruct (props_loop r a l) as [pm| | |] eqn:El
    end; cbn [mbind]; try exact I.
    - destruct (props_loop_ok (union_req req req') apm ps pm El) as (P0 & P1 & P2 & P3).
      pose proof (props_loop_uniq _ _ _ _ Ups El) as Upm.
      destruct (min_gt_max (choose N.max mnp mnp') (choose N.min mxp mxp')) eqn:Em.
      + split; [reflexivity|split; [reflexivity|]].
        intros kvs _. apply not_true_is_false. intros H.
        unfold obool in H. rewrite !andb_true_iff in H. destruct H as [[La _] [Lb _]].
        unfold valid_obj_local in La, Lb.
        apply andb_true_iff in La. destruct La as [La La3]. apply andb_true_iff in La. destruct La as [La1 La2].
        apply andb_true_iff in Lb. destruct Lb as [Lb Lb3]. apply andb_true_iff in Lb. destruct Lb as [Lb1 Lb2].
        rewrite (min_gt_max_false _ _ (N.of_nat (length kvs))) in Em; [discriminate Em | |].
        * apply choose_max_sem; assumption.
        * apply choose_min_sem; assumption.
      + split; [|split; [|split; [|split]]].
        * apply forallb_forall. intros [k s] Hin. simpl.
          apply (entry_exact re_match fmt_ok o DV n wa tm tx mrg Hm props props' ap ap' Fa Fb Aa Ab Ua Ub k s).
          apply P1. exact Hin.
        * exact Am.
        * exact Upm.
        * intros C. discriminate C.
        * intros kvs W. destruct (inst_ok_obj wa _ W) as [Uk Wx].
          apply eq_true_iff_eq. unfold obool.
          rewrite !andb_true_iff.
          rewrite valid_obj_local_merge.
          rewrite (valid_obj_keywise V pm apm kvs Upm Uk).
          assert (Hkey : (forall k x, In (k, x) kvs -> keysem V pm apm k x = true) <->
                         (valid_obj V props ap kvs = true /\ valid_obj V props' ap' kvs = true)).
          { rewrite (Kboth kvs W). split; intros H k x Hin.
            - rewrite <- (merged_keysem re_match fmt_ok o DV n wa tm tx mrg Hm props props' ap ap' Fa Fb Aa Ab Ua Ub
                            (union_req req req') apm pm k x El Sap (Wx _ _ Hin)). apply H. exact Hin.
            - rewrite (merged_keysem re_match fmt_ok o DV n wa tm tx mrg Hm props props' ap ap' Fa Fb Aa Ab Ua Ub
                         (union_req req req') apm pm k x El Sap (Wx _ _ Hin)). apply H. exact Hin. }
          rewrite Hkey. tauto.
    - split; [reflexivity|split; [reflexivity|]].
      intros kvs W. destruct (inst_ok_obj wa _ W) as [Uk Wx].
      apply not_true_is_false. intros H.
      unfold obool in H. rewrite !andb_true_iff in H. destruct H as [[La Va] [Lb Vb]].
      destruct (props_loop_never _ _ _ El) as [[k [Hin Hreq]]|[k Hin]].
      + apply mem_ustr_In in Hreq. unfold union_req in Hreq. apply in_app_iff in Hreq.
        unfold valid_obj_local in La, Lb.
        apply andb_true_iff in La. destruct La as [La _]. apply andb_true_iff in La. destruct La as [La1 _].
        apply andb_true_iff in Lb. destruct Lb as [Lb _]. apply andb_true_iff in Lb. destruct Lb as [Lb1 _].
        rewrite forallb_forall in La1, Lb1.
        assert (Hk : has_key k kvs = true).
        { destruct Hreq as [H|H]; [apply La1; exact H | apply filter_In in H; apply Lb1; apply H]. }
        apply has_key_iff in Hk. destruct Hk as [x0 Hx0].
        destruct (entry_exact re_match fmt_ok o DV n wa tm tx mrg Hm props props' ap ap' Fa Fb Aa Ab Ua Ub k _ Hin) as [_ Hs].
        specialize (Hs x0 (Wx _ _ Hx0)). rewrite valid_SBool in Hs.
        destruct (Kboth kvs W) as [K1 _]. specialize (K1 (conj Va Vb) _ _ Hx0). congruence.
      + eapply entries_no_never; eauto.
  Qed.
End ObjGroupExact.


(* ---- list plumbing for tuple-style items *)
Lemma nth_firstn_lt {A} (l : list A) p j d : j < p -> nth j (firstn p l) d = nth j l d.
Proof.
  revert l j. induction p as [|p IH]; intros l j H; [lia|].
  destruct l as [|x r]; [destruct j; reflexivity|].
  destruct j as [|j]; [reflexivity|]. simpl. apply IH. lia.
Qed.

Lemma nth_repeat_d {A} (d : A) k : forall j, nth j (repeat d k) d = d.
Proof. induction k as [|k IH]; intros [|j]; simpl; try reflexivity. apply IH. Qed.

Lemma nth_app_repeat {A} (l : list A) d k j : nth j (l ++ repeat d k) d = nth j l d.
Proof.
  revert j. induction l as [|x r IH]; intros j; simpl.
  - rewrite nth_repeat_d. destruct j; reflexivity.
  - destruct j; [reflexivity | apply IH].
Qed.

Lemma Forall2_nth_R {A B} (R : A -> B -> Prop) l1 l2 da db :
  Forall2 R l1 l2 -> forall j, j < length l2 -> R (nth j l1 da) (nth j l2 db).
Proof.
  intros H. induction H as [|x y l1 l2 Hxy H IH]; intros j Hj; simpl in Hj; [lia|].
  destruct j; [exact Hxy | apply IH; lia].
Qed.

Lemma nth_error_nth' {A} (l : list A) j x d : nth_error l j = Some x -> nth j l d = x.
Proof. revert j. induction l as [|y r IH]; intros [|j] H; simpl in *; try discriminate; [congruence | apply IH; exact H]. Qed.

Lemma nth_error_lt {A} (l : list A) j x : nth_error l j = Some x -> j < length l.
Proof. intros H. apply nth_error_Some. congruence. Qed.

Lemma nth_error_of_lt {A} (l : list A) j d : j < length l -> nth_error l j = Some (nth j l d).
Proof. revert j. induction l as [|y r IH]; intros [|j] H; simpl in *; try lia; [reflexivity | apply IH; lia]. Qed.

Definition dflt (ai : option schema) : schema := match ai with Some x => x | None => SBool true end.

Lemma pad_nth its ai n j : nth j (pad its ai n) (dflt ai) = nth j its (dflt ai).
Proof. unfold pad. apply nth_app_repeat. Qed.

Lemma pad_length its ai n : length its <= n -> length (pad its ai n) = n.
Proof. intros H. unfold pad. rewrite app_length, repeat_length. lia. Qed.

Section Tuples.
  Variable re_match : ustring -> ustring -> bool.
  Variable fmt_ok : ustring -> ustring -> bool.
  Variable o : vopts.
  Variable DV : defs.
  Variable n : nat.
  Local Notation V := (Valid.validx re_match fmt_ok o DV n).
  Local Notation apS := (apsem re_match fmt_ok o DV n).

  Fixpoint tupf (its : list schema) (ai : option schema) (l : list json) : bool :=
    match its with
    | [] => match ai with Some a => forallb (fun x => V a x) l | None => true end
    | s :: ss => match l with [] => true | x :: vs => V s x && tupf ss ai vs end
    end.

  Lemma valid_arr_tuple its ai l : valid_arr V ItemsTuple its ai l = tupf its ai l.
  Proof.
    unfold valid_arr. revert l. induction its as [|s ss IH]; intros l; [reflexivity|].
    destruct l as [|x vs]; [reflexivity|]. simpl. rewrite <- IH. reflexivity.
  Qed.

  Lemma V_dflt ai x : V (dflt ai) x = apS ai x.
  Proof. destruct ai; simpl; [reflexivity | apply valid_SBool]. Qed.

  Lemma tupf_nth its ai l :
    tupf its ai l = true <-> forall j x, nth_error l j = Some x -> V (nth j its (dflt ai)) x = true.
  Proof.
    revert l. induction its as [|s ss IH]; intros l.
    - cbn [tupf]. split.
      + intros H j x Hx. assert (E : nth j (@nil schema) (dflt ai) = dflt ai) by (destruct j; reflexivity).
        rewrite E, V_dflt. destruct ai as [a|]; [|reflexivity]. simpl. rewrite forallb_forall in H. apply H.
        eapply nth_error_In; eauto.
      + intros H. destruct ai as [a|]; [|reflexivity]. apply forallb_forall. intros x Hin.
        apply In_nth_error in Hin. destruct Hin as [j Hj]. specialize (H j x Hj).
        assert (E : nth j (@nil schema) (dflt (Some a)) = a) by (destruct j; reflexivity). rewrite E in H. exact H.
    - destruct l as [|x vs]; cbn [tupf].
      + split; [intros _ j y Hy; destruct j; discriminate Hy | reflexivity].
      + rewrite andb_true_iff, IH. split.
        * intros [H1 H2] [|j] y Hy; cbn [nth_error nth] in *; [inversion Hy; subst; exact H1 | apply H2; exact Hy].
        * intros H. split; [apply (H 0 x eq_refl) | intros j y Hy; apply (H (S j) y Hy)].
  Qed.

  Lemma tupf_cut its ai m l :
    length l <= m -> m <= length its -> tupf (firstn m its) None l = tupf its ai l.
  Proof.
    revert m l. induction its as [|s r IH]; intros m l Hl Hm.
    - simpl in Hm. assert (m = 0) by lia. subst. destruct l; [|simpl in Hl; lia]. simpl. destruct ai; reflexivity.
    - destruct m as [|m].
      + destruct l; [reflexivity | simpl in Hl; lia].
      + destruct l as [|x vs]; [reflexivity|]. simpl. f_equal. apply IH; simpl in *; lia.
  Qed.

  (* ---- merge_items_array *)
  Variable mrg : schema -> schema -> mres schema.
  Variables mn mx : option N.

  Definition thr : N := match mn with Some m => m | None => 1%N end.
  Definition hitmax (k : nat) : bool := match mx with Some m => N.eqb (N.of_nat (S k)) m | None => false end.

  Lemma items_loop_cons x y rest k :
    items_loop mrg ((x, y) :: rest) k mn mx =
    match mrg x y with
    | MOk s => if hitmax k then MOk ([s], false)
               else mbind (items_loop mrg rest (S k) mn mx) (fun r => MOk (s :: fst r, snd r))
    | MNever => if N.ltb (N.of_nat k) thr then MNever else MOk ([], false)
    | MPanic => MPanic
    | MUnsupp => MUnsupp
    end.
  Proof. reflexivity. Qed.

  Lemma items_loop_ok P : forall k its allow,
    items_loop mrg P k mn mx = MOk (its, allow) ->
    Forall2 (fun pr m => mrg (fst pr) (snd pr) = MOk m) (firstn (length its) P) its
    /\ length its <= length P
    /\ (if allow
        then length its = length P /\ (forall j, j < length its -> hitmax (k + j) = false)
        else (exists p, length its = S p /\ hitmax (k + p) = true /\ (forall j, j < p -> hitmax (k + j) = false))
             \/ ((forall j, j < length its -> hitmax (k + j) = false) /\
                 exists pr, nth_error P (length its) = Some pr /\ mrg (fst pr) (snd pr) = MNever
                            /\ N.ltb (N.of_nat (k + length its)) thr = false)).
  Proof.
    induction P as [|[x y] rest IH]; intros k its allow H.
    - simpl in H. inversion H; subst. simpl. split; [constructor|]. split; [lia|]. split; [reflexivity | intros j Hj; lia].
    - rewrite items_loop_cons in H.
      destruct (mrg x y) as [s| | |] eqn:Exy; try discriminate H.
      + destruct (hitmax k) eqn:Hk.
        * inversion H; subst. simpl. split; [constructor; [exact Exy | constructor]|]. split; [lia|].
          left. exists 0. rewrite Nat.add_0_r. split; [reflexivity|]. split; [exact Hk | intros j Hj; lia].
        * destruct (items_loop mrg rest (S k) mn mx) as [[its' allow']| | |] eqn:Er; simpl in H; try discriminate H.
          inversion H; subst. destruct (IH _ _ _ Er) as (F & L & C).
          simpl. split; [constructor; assumption|]. split; [lia|].
          destruct allow.
          -- destruct C as [C1 C2]. split; [lia|]. intros [|j] Hj; [rewrite Nat.add_0_r; exact Hk|].
             replace (k + S j) with (S k + j) by lia. apply C2. lia.
          -- destruct C as [[p [E1 [E2 E3]]]|[C1 [pr [E1 [E2 E3]]]]].
             ++ left. exists (S p). split; [lia|]. split.
                ** replace (k + S p) with (S k + p) by lia. exact E2.
                ** intros [|j] Hj; [rewrite Nat.add_0_r; exact Hk|].
                   replace (k + S j) with (S k + j) by lia. apply E3. lia.
             ++ right. split.
                ** intros [|j] Hj; [rewrite Nat.add_0_r; exact Hk|].
                   replace (k + S j) with (S k + j) by lia. apply C1. lia.
                ** exists pr. split; [exact E1|]. split; [exact E2|].
                   replace (k + S (length its')) with (S k + length its') by lia. exact E3.
      + destruct (N.ltb (N.of_nat k) thr) eqn:Hl; [discriminate H|].
        inversion H; subst. simpl. split; [constructor|]. split; [lia|].
        right. split; [intros j Hj; lia|]. exists (x, y). split; [reflexivity|]. split; [exact Exy|].
        rewrite Nat.add_0_r. exact Hl.
  Qed.

  Lemma items_loop_never P : forall k,
    items_loop mrg P k mn mx = MNever ->
    exists p pr, nth_error P p = Some pr /\ mrg (fst pr) (snd pr) = MNever /\ N.ltb (N.of_nat (k + p)) thr = true.
  Proof.
    induction P as [|[x y] rest IH]; intros k H; [simpl in H; discriminate H|].
    rewrite items_loop_cons in H.
    destruct (mrg x y) as [s| | |] eqn:Exy; try discriminate H.
    - destruct (hitmax k); [discriminate H|].
      destruct (items_loop mrg rest (S k) mn mx) as [[its' allow']| | |] eqn:Er; simpl in H; try discriminate H.
      destruct (IH _ Er) as [p [pr [E1 [E2 E3]]]]. exists (S p), pr. split; [exact E1|]. split; [exact E2|].
      replace (k + S p) with (S k + p) by lia. exact E3.
    - destruct (N.ltb (N.of_nat k) thr) eqn:Hl; [|discriminate H].
      exists 0, (x, y). split; [reflexivity|]. split; [exact Exy|]. rewrite Nat.add_0_r. exact Hl.
  Qed.
End Tuples.


Lemma forallb_nth_all {A} (f : A -> bool) l d :
  (forall j, j < length l -> f (nth j l d) = true) -> forallb f l = true.
Proof.
  induction l as [|x r IH]; intros H; [reflexivity|]. simpl.
  pose proof (H 0 ltac:(simpl; lia)) as H0. simpl in H0. rewrite H0. simpl.
  apply IH. intros j Hj. apply (H (S j)). simpl. lia.
Qed.

Lemma nth_forallb {A} (f : A -> bool) l d j : forallb f l = true -> f d = true -> f (nth j l d) = true.
Proof.
  intros H Hd. destruct (nth_in_or_default j l d) as [Hin| ->]; [|exact Hd].
  rewrite forallb_forall in H. apply H. exact Hin.
Qed.

Lemma hitmax_gt mx p :
  nonzero mx = true -> (forall j, j < p -> hitmax mx j = false) ->
  forall m, mx = Some m -> (N.of_nat p < m)%N.
Proof.
  intros Hz H m ->. unfold hitmax in H. simpl in Hz.
  destruct (N.ltb (N.of_nat p) m) eqn:E; [apply N.ltb_lt; exact E|].
  apply N.ltb_ge in E. exfalso.
  assert (Hm : m <> 0%N) by (destruct m; [discriminate Hz | discriminate]).
  set (j := N.to_nat m - 1).
  assert (Hj : j < p) by (unfold j; lia).
  specialize (H j Hj). apply N.eqb_neq in H. apply H. unfold j. lia.
Qed.

Section TupleTuple.
  Variable re_match : ustring -> ustring -> bool.
  Variable fmt_ok : ustring -> ustring -> bool.
  Variable o : vopts.
  Variable DV : defs.
  Variable n : nat.
  Variable wa : bool.
  Variable tm : bool.
  Variable tx : itype.
  Local Notation V := (Valid.validx re_match fmt_ok o DV n).
  Local Notation apS := (apsem re_match fmt_ok o DV n).
  Local Notation exok := (ex_ok re_match fmt_ok o DV n wa tm tx).
  Local Notation tupF := (tupf re_match fmt_ok o DV n).

  Variable mrg : schema -> schema -> mres schema.
  Hypothesis Hm : forall x y, obj_frag wa tm tx x = true -> obj_frag wa tm tx y = true -> exok (mrg x y) x y.
  Hypothesis Hwa : wa = true.

  Variables (ia ib : list schema) (ai ai' : option schema) (mn mx : option N) (u : bool).
  Hypothesis Fia : forallb (obj_frag wa tm tx) ia = true.
  Hypothesis Fib : forallb (obj_frag wa tm tx) ib = true.
  Hypothesis Fai : opt_all (obj_frag wa tm tx) ai = true.
  Hypothesis Fai' : opt_all (obj_frag wa tm tx) ai' = true.
  Hypothesis Zmn : nonzero mn = true.
  Hypothesis Zmx : nonzero mx = true.

  Let nn := Nat.max (length ia) (length ib).
  Let P := combine (pad ia ai nn) (pad ib ai' nn).
  Let Sem (j : nat) (x : json) : bool := V (nth j ia (dflt ai)) x && V (nth j ib (dflt ai')) x.

  Lemma frag_dflt a0 : opt_all (obj_frag wa tm tx) a0 = true -> obj_frag wa tm tx (dflt a0) = true.
  Proof. destruct a0; simpl; intros H; [exact H | reflexivity]. Qed.

  Lemma P_length : length P = nn.
  Proof.
    unfold P. rewrite combine_length, !pad_length; unfold nn; lia.
  Qed.

  Lemma P_nth j : j < nn -> nth_error P j = Some (nth j ia (dflt ai), nth j ib (dflt ai')).
  Proof.
    intros Hj. rewrite (nth_error_of_lt P j (dflt ai, dflt ai')) by (rewrite P_length; exact Hj).
    unfold P. rewrite combine_nth by (rewrite !pad_length; unfold nn; lia).
    rewrite !pad_nth. reflexivity.
  Qed.

  Lemma P_nth_inv j pr : nth_error P j = Some pr -> j < nn /\ pr = (nth j ia (dflt ai), nth j ib (dflt ai')).
  Proof.
    intros H. pose proof (nth_error_lt _ _ _ H) as Hl. rewrite P_length in Hl.
    split; [exact Hl|]. rewrite (P_nth j Hl) in H. congruence.
  Qed.

  Lemma pos_frag j : obj_frag wa tm tx (nth j ia (dflt ai)) = true /\ obj_frag wa tm tx (nth j ib (dflt ai')) = true.
  Proof. split; apply nth_forallb; try assumption; apply frag_dflt; assumption. Qed.

  Lemma both_tupf l :
    tupF ia ai l && tupF ib ai' l = true <-> forall j x, nth_error l j = Some x -> Sem j x = true.
  Proof.
    rewrite andb_true_iff, !tupf_nth. unfold Sem. split.
    - intros [H1 H2] j x Hx. rewrite (H1 j x Hx), (H2 j x Hx). reflexivity.
    - intros H. split; intros j x Hx; specialize (H j x Hx); apply andb_true_iff in H; apply H.
  Qed.

  Lemma pair_ok j m :
    j < nn -> mrg (nth j ia (dflt ai)) (nth j ib (dflt ai')) = MOk m ->
    obj_frag wa tm tx m = true /\ forall x, inst_ok wa x = true -> V m x = Sem j x.
  Proof.
    intros Hj E. destruct (pos_frag j) as [F1 F2]. pose proof (Hm _ _ F1 F2) as H. rewrite E in H. exact H.
  Qed.

  Lemma pair_never j x :
    mrg (nth j ia (dflt ai)) (nth j ib (dflt ai')) = MNever -> inst_ok wa x = true -> Sem j x = false.
  Proof.
    intros E Wx. destruct (pos_frag j) as [F1 F2]. pose proof (Hm _ _ F1 F2) as H. rewrite E in H. apply H. exact Wx.
  Qed.

  Lemma its_pos its :
    Forall2 (fun pr m => mrg (fst pr) (snd pr) = MOk m) (firstn (length its) P) its -> length its <= nn ->
    forall j, j < length its ->
      obj_frag wa tm tx (nth j its (SBool true)) = true
      /\ forall x, inst_ok wa x = true -> V (nth j its (SBool true)) x = Sem j x.
  Proof.
    intros F2 Lp j Hj.
    pose proof (Forall2_nth_R _ _ _ (dflt ai, dflt ai') (SBool true) F2 j Hj) as E. cbv beta in E.
    rewrite nth_firstn_lt in E by exact Hj.
    assert (Hn : j < nn) by lia.
    rewrite (nth_error_nth' P j _ (dflt ai, dflt ai') (P_nth j Hn)) in E. simpl in E.
    apply (pair_ok j _ Hn E).
  Qed.

  Lemma arr_elem_ok l j x : inst_ok wa (JArr l) = true -> nth_error l j = Some x -> inst_ok wa x = true.
  Proof. intros W Hx. destruct (inst_ok_arr wa l W) as [_ Wx]. apply Wx. eapply nth_error_In; eauto. Qed.

  Lemma local_len_max mn0 m u0 l :
    valid_arr_local mn0 (Some m) u0 (JArr l) = true -> (N.of_nat (length l) <= m)%N.
  Proof.
    unfold valid_arr_local. intros H. apply andb_true_iff in H. destruct H as [H _].
    apply andb_true_iff in H. destruct H as [_ H]. simpl in H. apply N.leb_le. exact H.
  Qed.

  Lemma local_len_min m mx0 u0 l :
    valid_arr_local (Some m) mx0 u0 (JArr l) = true -> (m <= N.of_nat (length l))%N.
  Proof.
    unfold valid_arr_local. intros H. apply andb_true_iff in H. destruct H as [H _].
    apply andb_true_iff in H. destruct H as [H _]. simpl in H. apply N.leb_le. exact H.
  Qed.

  Lemma local_max_swap mn0 a b u0 l :
    ((N.of_nat (length l) <=? a) = (N.of_nat (length l) <=? b))%N ->
    valid_arr_local mn0 (Some a) u0 (JArr l) = valid_arr_local mn0 (Some b) u0 (JArr l).
  Proof. unfold valid_arr_local. simpl. intros ->. reflexivity. Qed.

  Theorem tuple_tuple_exact :
    match mbind (items_loop mrg P 0 mn mx) (fun r =>
            if snd r then
              mbind (match ai, ai' with
                     | None, None => MOk (Some (SBool true))
                     | _, _ => merge_ap mrg ai ai'
                     end) (fun am => MOk (ItemsTuple, fst r, am, mn, mx, u))
            else MOk (ItemsTuple, fst r, None, mn, Some (N.of_nat (length (fst r))), u)) with
    | MOk (ikm, itm, aim, mnm, mxm, uqm) =>
        ikm = ItemsTuple /\ nonzero mnm = true /\ nonzero mxm = true
        /\ forallb (obj_frag wa tm tx) itm = true /\ opt_all (obj_frag wa tm tx) aim = true
        /\ forall l, inst_ok wa (JArr l) = true ->
                     valid_arr_local mnm mxm uqm (JArr l) && tupF itm aim l
                     = valid_arr_local mn mx u (JArr l) && (tupF ia ai l && tupF ib ai' l)
    | MNever => forall l, inst_ok wa (JArr l) = true ->
                          valid_arr_local mn mx u (JArr l) && (tupF ia ai l && tupF ib ai' l) = false
    | _ => True
    end.
  Proof.
    destruct (items_loop mrg P 0 mn mx) as [[its allow]| | |] eqn:El; cbn [mbind fst snd]; try exact I.
    - destruct (items_loop_ok mrg mn mx P 0 its allow El) as (F2 & Lp & C). rewrite P_length in Lp.
      pose proof (its_pos its F2 Lp) as Hits.
      assert (Fits : forallb (obj_frag wa tm tx) its = true).
      { apply (forallb_nth_all _ _ (SBool true)). intros j Hj. apply (Hits j Hj). }
      destruct allow.
      + (* every position merged; additional items *)
        destruct C as [Cl _]. rewrite P_length in Cl.
        assert (Ham : match (match ai, ai' with
                             | None, None => MOk (Some (SBool true))
                             | _, _ => merge_ap mrg ai ai'
                             end) with
                      | MOk am => opt_all (obj_frag wa tm tx) am = true
                                  /\ forall x, inst_ok wa x = true -> apS am x = apS ai x && apS ai' x
                      | MNever => False
                      | _ => True
                      end).
        { pose proof (merge_ap_exact re_match fmt_ok o DV n wa tm tx mrg Hm ai ai' Fai Fai') as H.
          destruct ai as [a0|], ai' as [b0|]; try exact H.
          split; [reflexivity|]. intros x _. unfold apsem. simpl. apply valid_SBool. }
        destruct (match ai, ai' with
                  | None, None => MOk (Some (SBool true))
                  | _, _ => merge_ap mrg ai ai'
                  end) as [am| | |]; cbn [mbind]; try exact I; [|destruct Ham].
        destruct Ham as [Fam Sam].
        split; [reflexivity|]. split; [exact Zmn|]. split; [exact Zmx|]. split; [exact Fits|]. split; [exact Fam|].
        intros l W. f_equal. apply eq_true_iff_eq. rewrite both_tupf, tupf_nth.
        assert (Hpos : forall j x, nth_error l j = Some x -> V (nth j its (dflt am)) x = Sem j x).
        { intros j x Hx. pose proof (arr_elem_ok l j x W Hx) as Wx.
          destruct (Nat.lt_ge_cases j (length its)) as [Hj|Hj].
          - rewrite (nth_indep its (dflt am) (SBool true) Hj). apply (Hits j Hj). exact Wx.
          - rewrite (nth_overflow its (dflt am) Hj), V_dflt, (Sam x Wx). unfold Sem.
            rewrite (nth_overflow ia (dflt ai)) by (unfold nn in Cl; lia).
            rewrite (nth_overflow ib (dflt ai')) by (unfold nn in Cl; lia).
            rewrite !V_dflt. reflexivity. }
        split; intros H j x Hx; specialize (H j x Hx); [rewrite <- (Hpos j x Hx) | rewrite (Hpos j x Hx)]; exact H.
      + destruct C as [[p [E1 [E2 E3]]]|[C1 [pr [E1 [E2 E3]]]]].
        * (* stopped at maxItems *)
          simpl in E2. unfold hitmax in E2. destruct mx as [m|] eqn:Emx; [|discriminate E2].
          apply N.eqb_eq in E2. rewrite E1. rewrite E2.
          split; [reflexivity|]. split; [exact Zmn|]. split; [exact Zmx|]. split; [exact Fits|]. split; [reflexivity|].
          intros l W. destruct (valid_arr_local mn (Some m) u (JArr l)) eqn:L; [|reflexivity].
          simpl. pose proof (local_len_max _ _ _ _ L) as Hlen.
          apply eq_true_iff_eq. rewrite both_tupf, tupf_nth.
          assert (Hpos : forall j x, nth_error l j = Some x -> V (nth j its (dflt None)) x = Sem j x).
          { intros j x Hx. pose proof (arr_elem_ok l j x W Hx) as Wx.
            pose proof (nth_error_lt _ _ _ Hx) as Hj.
            assert (Hj' : j < length its) by lia.
            rewrite (nth_indep its (dflt None) (SBool true) Hj'). apply (Hits j Hj'). exact Wx. }
          split; intros H j x Hx; specialize (H j x Hx); [rewrite <- (Hpos j x Hx) | rewrite (Hpos j x Hx)]; exact H.
        * (* an unmergeable pair at position [length its]: the tuple ends there *)
          destruct (P_nth_inv _ _ E1) as [Hp ->]. simpl in E2, E3.
          assert (Znew : nonzero (Some (N.of_nat (length its))) = true).
          { destruct (length its) as [|q] eqn:Eq; [|reflexivity]. exfalso.
            apply N.ltb_ge in E3. simpl in E3. unfold thr in E3.
            destruct mn as [[|m]|]; simpl in *; try discriminate Zmn; lia. }
          split; [reflexivity|]. split; [exact Zmn|]. split; [exact Znew|]. split; [exact Fits|]. split; [reflexivity|].
          intros l W.
          destruct (Nat.le_gt_cases (length l) (length its)) as [Hl|Hl].
          -- assert (EL : valid_arr_local mn (Some (N.of_nat (length its))) u (JArr l) = valid_arr_local mn mx u (JArr l)).
             { destruct mx as [m|] eqn:Emx.
               - apply local_max_swap.
                 pose proof (hitmax_gt (Some m) (length its) Zmx C1 m eq_refl) as Hgt.
                 assert (A1 : (N.of_nat (length l) <=? N.of_nat (length its))%N = true) by (apply N.leb_le; lia).
                 assert (A2 : (N.of_nat (length l) <=? m)%N = true) by (apply N.leb_le; lia).
                 rewrite A1, A2. reflexivity.
               - unfold valid_arr_local. simpl.
                 assert (A1 : (N.of_nat (length l) <=? N.of_nat (length its))%N = true) by (apply N.leb_le; lia).
                 rewrite A1. rewrite andb_true_r. reflexivity. }
             rewrite EL. f_equal. apply eq_true_iff_eq. rewrite both_tupf, tupf_nth.
             assert (Hpos : forall j x, nth_error l j = Some x -> V (nth j its (dflt None)) x = Sem j x).
             { intros j x Hx. pose proof (arr_elem_ok l j x W Hx) as Wx.
               pose proof (nth_error_lt _ _ _ Hx) as Hj.
               assert (Hj' : j < length its) by lia.
               rewrite (nth_indep its (dflt None) (SBool true) Hj'). apply (Hits j Hj'). exact Wx. }
             split; intros H j x Hx; specialize (H j x Hx); [rewrite <- (Hpos j x Hx) | rewrite (Hpos j x Hx)]; exact H.
          -- assert (L0 : valid_arr_local mn (Some (N.of_nat (length its))) u (JArr l) = false).
             { unfold valid_arr_local. simpl.
               assert (A1 : (N.of_nat (length l) <=? N.of_nat (length its))%N = false) by (apply N.leb_gt; lia).
               rewrite A1. rewrite andb_false_r. reflexivity. }
             rewrite L0. simpl. symmetry. apply not_true_is_false. intros H.
             apply andb_true_iff in H. destruct H as [_ H]. rewrite both_tupf in H.
             pose proof (nth_error_of_lt l (length its) JNull Hl) as Hx.
             specialize (H _ _ Hx).
             rewrite (pair_never (length its) _ E2 (arr_elem_ok l _ _ W Hx)) in H. discriminate H.
    - destruct (items_loop_never mrg mn mx P 0 El) as [p [pr [E1 [E2 E3]]]].
      destruct (P_nth_inv _ _ E1) as [Hp ->]. simpl in E2, E3.
      intros l W. apply not_true_is_false. intros H.
      apply andb_true_iff in H. destruct H as [L H]. rewrite both_tupf in H.
      assert (Hlen : p < length l).
      { apply N.ltb_lt in E3. unfold thr in E3. destruct mn as [m|].
        - pose proof (local_len_min _ _ _ _ L). lia.
        - destruct (inst_ok_arr wa l W) as [Hne _]. specialize (Hne Hwa).
          destruct l; [congruence | simpl; lia]. }
      pose proof (nth_error_of_lt l p JNull Hlen) as Hx.
      specialize (H _ _ Hx). rewrite (pair_never p _ E2 (arr_elem_ok l _ _ W Hx)) in H. discriminate H.
  Qed.
End TupleTuple.


Definition shape_b (wa tm : bool) (ik : items_kind) (items : list schema) (ai : option schema) : bool :=
  match ik, items with
  | ItemsAbsent, [] => is_none ai
  | ItemsSingle, [_] => wa && negb tm && is_none ai
  | ItemsTuple, _ => wa && tm
  | _, _ => false
  end.

Definition zero_ok (tm : bool) (mni mxi : option N) : bool := negb tm || (nonzero mni && nonzero mxi).

Lemma forallb_andb {A} (f g : A -> bool) l :
  forallb (fun x => f x && g x) l = forallb f l && forallb g l.
Proof.
  induction l as [|x r IH]; simpl; [reflexivity|]. rewrite IH. btauto.
Qed.

Lemma forallb_firstn {A} (f : A -> bool) l m : forallb f l = true -> forallb f (firstn m l) = true.
Proof.
  revert m. induction l as [|x r IH]; intros [|m] H; simpl in *; try reflexivity.
  apply andb_true_iff in H. destruct H as [H1 H2]. rewrite H1. simpl. apply IH. exact H2.
Qed.

Lemma valid_arr_local_merge mni mxi uq mni' mxi' uq' l :
  valid_arr_local (choose N.max mni mni') (choose N.min mxi mxi') (uq || uq') (JArr l)
  = valid_arr_local mni mxi uq (JArr l) && valid_arr_local mni' mxi' uq' (JArr l).
Proof.
  apply eq_true_iff_eq. unfold valid_arr_local. rewrite !andb_true_iff, choose_max_iff, choose_min_iff.
  destruct uq, uq'; simpl; tauto.
Qed.

Lemma nonzero_max a b : nonzero a = true -> nonzero b = true -> nonzero (choose N.max a b) = true.
Proof. destruct a as [[|x]|], b as [[|y]|]; simpl; intros H1 H2; try discriminate; try reflexivity.
       destruct (N.max (N.pos x) (N.pos y)) eqn:E; [|reflexivity]. lia. Qed.

Lemma nonzero_min a b : nonzero a = true -> nonzero b = true -> nonzero (choose N.min a b) = true.
Proof. destruct a as [[|x]|], b as [[|y]|]; simpl; intros H1 H2; try discriminate; try reflexivity.
       destruct (N.min (N.pos x) (N.pos y)) eqn:E; [|reflexivity]. lia. Qed.

Lemma zero_ok_merge tm mni mxi mni' mxi' :
  zero_ok tm mni mxi = true -> zero_ok tm mni' mxi' = true ->
  zero_ok tm (choose N.max mni mni') (choose N.min mxi mxi') = true.
Proof.
  unfold zero_ok. destruct tm; simpl; [|reflexivity]. rewrite !andb_true_iff. intros [A B] [C E].
  split; [apply nonzero_max | apply nonzero_min]; assumption.
Qed.

Section ArrGroupExact.
  Variable re_match : ustring -> ustring -> bool.
  Variable fmt_ok : ustring -> ustring -> bool.
  Variable o : vopts.
  Variable DV : defs.
  Variable n : nat.
  Variable wa : bool.
  Variable tm : bool.
  Variable tx : itype.
  Local Notation V := (Valid.validx re_match fmt_ok o DV n).
  Local Notation exok := (ex_ok re_match fmt_ok o DV n wa tm tx).
  Local Notation tupF := (tupf re_match fmt_ok o DV n).

  Variable mrg : schema -> schema -> mres schema.
  Hypothesis Hm : forall x y, obj_frag wa tm tx x = true -> obj_frag wa tm tx y = true -> exok (mrg x y) x y.

  Definition abool (ik : items_kind) (items : list schema) (ai : option schema) (mni mxi : option N) (uq : bool)
             (l : list json) : bool :=
    valid_arr_local mni mxi uq (JArr l) && valid_arr V ik items ai l.

  Lemma abool_absent ik items ai mni mxi uq l :
    shape_b wa tm ik items ai = true -> arr_absent ik ai mni mxi uq = true -> abool ik items ai mni mxi uq l = true.
  Proof.
    unfold arr_absent, abool. destruct ik, items as [|s [|]], ai, mni, mxi, uq; simpl; intros S H;
      try discriminate S; try discriminate H; reflexivity.
  Qed.

  Lemma shape_cases ik items ai :
    shape_b wa tm ik items ai = true ->
    (ik = ItemsAbsent /\ items = [] /\ ai = None)
    \/ (ik = ItemsSingle /\ (exists s, items = [s]) /\ ai = None /\ wa = true /\ tm = false)
    \/ (ik = ItemsTuple /\ wa = true /\ tm = true).
  Proof.
    unfold shape_b. destruct ik, items as [|s [|]], ai, wa, tm; simpl; intros H; try discriminate H;
      try (left; repeat split; reflexivity);
      try (right; left; repeat split; eauto; fail);
      try (right; right; repeat split; reflexivity).
  Qed.

  (* items absent on one side, a tuple on the other *)
  Lemma none_tuple_exact its add mn mx u :
    forallb (obj_frag wa tm tx) its = true -> opt_all (obj_frag wa tm tx) add = true ->
    let r := match mx with
             | Some m => if N.leb m (N.of_nat (length its))
                         then (ItemsTuple, firstn (N.to_nat m) its, @None schema, mn, mx, u)
                         else (ItemsTuple, its, add, mn, mx, u)
             | None => (ItemsTuple, its, add, mn, mx, u)
             end in
    let '(ikm, itm, aim, mnm, mxm, uqm) := r in
    ikm = ItemsTuple /\ mnm = mn /\ mxm = mx /\ uqm = u
    /\ forallb (obj_frag wa tm tx) itm = true /\ opt_all (obj_frag wa tm tx) aim = true
    /\ forall l, valid_arr_local mn mx u (JArr l) && valid_arr V ikm itm aim l
                  = valid_arr_local mn mx u (JArr l) && valid_arr V ItemsTuple its add l.
  Proof.
    intros Fi Fadd. cbv zeta.
    destruct mx as [m|]; [destruct (N.leb m (N.of_nat (length its))) eqn:Hle|];
      try (repeat split; try assumption; reflexivity).
    repeat split; try reflexivity; [apply forallb_firstn; exact Fi|].
    intros l. destruct (valid_arr_local mn (Some m) u (JArr l)) eqn:L; [|reflexivity]. cbn [andb].
    rewrite !valid_arr_tuple. apply tupf_cut.
    - pose proof (local_len_max _ _ _ _ L). lia.
    - apply N.leb_le in Hle. lia.
  Qed.

  Lemma merge_arr_exact ik items ai mni mxi uq ik' items' ai' mni' mxi' uq' :
    shape_b wa tm ik items ai = true -> shape_b wa tm ik' items' ai' = true ->
    zero_ok tm mni mxi = true -> zero_ok tm mni' mxi' = true ->
    forallb (obj_frag wa tm tx) items = true -> forallb (obj_frag wa tm tx) items' = true ->
    opt_all (obj_frag wa tm tx) ai = true -> opt_all (obj_frag wa tm tx) ai' = true ->
    match merge_arr mrg (ik, items, ai, mni, mxi, uq) (ik', items', ai', mni', mxi', uq') with
    | MOk (ikm, itm, aim, mnm, mxm, uqm) =>
        shape_b wa tm ikm itm aim = true /\ zero_ok tm mnm mxm = true
        /\ forallb (obj_frag wa tm tx) itm = true /\ opt_all (obj_frag wa tm tx) aim = true
        /\ (arr_absent ik ai mni mxi uq = true -> arr_absent ik' ai' mni' mxi' uq' = true ->
            arr_absent ikm aim mnm mxm uqm = true)
        /\ forall l, inst_ok wa (JArr l) = true ->
                     abool ikm itm aim mnm mxm uqm l
                     = abool ik items ai mni mxi uq l && abool ik' items' ai' mni' mxi' uq' l
    | MNever => arr_absent ik ai mni mxi uq = false /\ arr_absent ik' ai' mni' mxi' uq' = false
                /\ forall l, inst_ok wa (JArr l) = true ->
                             abool ik items ai mni mxi uq l && abool ik' items' ai' mni' mxi' uq' l = false
    | _ => True
    end.
  Proof.
    intros Sa Sb Za Zb Fa Fb Fai Fai'.
    unfold merge_arr. cbv beta iota zeta.
    destruct (arr_absent ik ai mni mxi uq) eqn:Oa.
    { split; [exact Sb | split; [exact Zb | split; [exact Fb | split; [exact Fai' | split; [intros _ H; exact H|]]]]].
      intros l _. rewrite (abool_absent ik items ai mni mxi uq l Sa Oa). reflexivity. }
    destruct (arr_absent ik' ai' mni' mxi' uq') eqn:Ob.
    { split; [exact Sa | split; [exact Za | split; [exact Fa | split; [exact Fai | split; [intros C; discriminate C|]]]]].
      intros l _. rewrite (abool_absent ik' items' ai' mni' mxi' uq' l Sb Ob), andb_true_r. reflexivity. }
    destruct (min_gt_max (choose N.max mni mni') (choose N.min mxi mxi')) eqn:Em.
    { split; [reflexivity | split; [reflexivity|]].
      intros l _. apply not_true_is_false. intros H. unfold abool in H. rewrite !andb_true_iff in H.
      destruct H as [[La _] [Lb _]]. unfold valid_arr_local in La, Lb.
      apply andb_true_iff in La. destruct La as [La _]. apply andb_true_iff in La. destruct La as [La1 La2].
      apply andb_true_iff in Lb. destruct Lb as [Lb _]. apply andb_true_iff in Lb. destruct Lb as [Lb1 Lb2].
      rewrite (min_gt_max_false _ _ (N.of_nat (length l))) in Em; [discriminate Em | |].
      - apply choose_max_sem; assumption.
      - apply choose_min_sem; assumption. }
    pose proof (zero_ok_merge tm mni mxi mni' mxi' Za Zb) as Zm.
    set (mnm := choose N.max mni mni') in *. set (mxm := choose N.min mxi mxi') in *. set (um := uq || uq') in *.
    assert (Hloc : forall l, valid_arr_local mnm mxm um (JArr l)
                             = valid_arr_local mni mxi uq (JArr l) && valid_arr_local mni' mxi' uq' (JArr l))
      by (intros l; apply valid_arr_local_merge).
    destruct (shape_cases _ _ _ Sa) as [(-> & -> & ->)|[(-> & [s ->] & -> & Hw & Ht)|(-> & Hw & Ht)]];
    destruct (shape_cases _ _ _ Sb) as [(-> & -> & ->)|[(-> & [s' ->] & -> & Hw' & Ht')|(-> & Hw' & Ht')]];
      try congruence.
    - (* absent / absent *)
      split; [reflexivity | split; [exact Zm | split; [reflexivity | split; [reflexivity | split; [intros C; discriminate C|]]]]].
      intros l _. unfold abool. rewrite Hloc. cbn [valid_arr]. btauto.
    - (* absent / single *)
      split; [exact Sb | split; [exact Zm | split; [exact Fb | split; [reflexivity | split; [intros C; discriminate C|]]]]].
      intros l _. unfold abool. rewrite Hloc. cbn [valid_arr]. btauto.
    - (* absent / tuple *)
      pose proof (none_tuple_exact items' ai' mnm mxm um Fb Fai') as H. cbv zeta in H.
      match goal with |- match match ?X with _ => _ end with _ => _ end => idtac | _ => idtac end.
      destruct mxm as [m|] eqn:Emx; [destruct (N.leb m (N.of_nat (length items'))) eqn:Hle|];
        destruct H as (_ & _ & _ & _ & Fi & Fadd & Hs);
        (split; [exact Sb | split; [exact Zm | split; [exact Fi | split; [exact Fadd | split; [intros C; discriminate C|]]]]];
         intros l _; unfold abool; try rewrite (Hs l); rewrite Hloc; cbn [valid_arr]; btauto).
    - (* single / absent *)
      split; [exact Sa | split; [exact Zm | split; [exact Fa | split; [reflexivity | split; [intros C; discriminate C|]]]]].
      intros l _. unfold abool. rewrite Hloc. cbn [valid_arr]. btauto.
    - (* single / single *)
      simpl in Fa, Fb. rewrite andb_true_r in Fa, Fb.
      pose proof (Hm s s' Fa Fb) as H. unfold ex_ok in H.
      destruct (mrg s s') as [m| | |]; cbn [mbind]; try exact I.
      + destruct H as [Fm Sm].
        split; [exact Sa | split; [exact Zm | split; [simpl; rewrite Fm; reflexivity | split; [reflexivity | split; [intros C; discriminate C|]]]]].
        intros l W. destruct (inst_ok_arr wa l W) as [_ Wx].
        unfold abool. rewrite Hloc. cbn [valid_arr].
        assert (E : forallb (fun x => V m x) l = forallb (fun x => V s x) l && forallb (fun x => V s' x) l).
        { rewrite <- forallb_andb. apply forallb_ext_in. intros x Hin. apply Sm. apply Wx. exact Hin. }
        rewrite E. btauto.
      + split; [reflexivity | split; [reflexivity|]].
        intros l W. destruct (inst_ok_arr wa l W) as [Hne Wx].
        destruct l as [|x r]; [exfalso; apply (Hne Hw); reflexivity|].
        unfold abool. cbn [valid_arr forallb].
        pose proof (H x (Wx x (or_introl eq_refl))) as Hx.
        destruct (V s x), (V s' x); simpl in Hx; try discriminate Hx; simpl; rewrite ?andb_false_r; reflexivity.
    - (* tuple / absent *)
      pose proof (none_tuple_exact items ai mnm mxm um Fa Fai) as H. cbv zeta in H.
      destruct mxm as [m|] eqn:Emx; [destruct (N.leb m (N.of_nat (length items))) eqn:Hle|];
        destruct H as (_ & _ & _ & _ & Fi & Fadd & Hs);
        (split; [exact Sa | split; [exact Zm | split; [exact Fi | split; [exact Fadd | split; [intros C; discriminate C|]]]]];
         intros l _; unfold abool; try rewrite (Hs l); rewrite Hloc; cbn [valid_arr]; btauto).
    - (* tuple / tuple *)
      unfold zero_ok in Zm. rewrite Ht in Zm. simpl in Zm. apply andb_true_iff in Zm. destruct Zm as [Zmn Zmx].
      pose proof (tuple_tuple_exact re_match fmt_ok o DV n wa tm tx mrg Hm Hw items items' ai ai' mnm mxm um
                                    Fa Fb Fai Fai' Zmn Zmx) as H.
      match goal with
      | |- match ?X with _ => _ end => match type of H with match ?Y with _ => _ end => change X with Y end
      end.
      match type of H with match ?Y with _ => _ end => destruct Y as [[[[[[ikm itm] aim] mn2] mx2] u2]| | |] end;
        try exact I.
      + destruct H as (-> & Z1 & Z2 & Fi & Fadd & Hs).
        split; [simpl; rewrite Hw, Ht; reflexivity|].
        split; [unfold zero_ok; rewrite Z1, Z2; apply orb_true_r|].
        split; [exact Fi | split; [exact Fadd | split; [intros C; discriminate C|]]].
        intros l W. unfold abool. rewrite !valid_arr_tuple, (Hs l W), Hloc. btauto.
      + split; [reflexivity | split; [reflexivity|]].
        intros l W. unfold abool. rewrite !valid_arr_tuple. specialize (H l W). rewrite Hloc in H.
        destruct (valid_arr_local mni mxi uq (JArr l)), (valid_arr_local mni' mxi' uq' (JArr l)),
          (tupF items ai l), (tupF items' ai' l); simpl in *; congruence.
  Qed.
End ArrGroupExact.


Lemma numv_none_valid nv v : numv_is_none nv = true -> valid_num nv v = true.
Proof.
  destruct nv as [a b c d e]. unfold numv_is_none, numv_eqb. simpl.
  destruct a, b, c, d, e; simpl; intros H; try discriminate H.
  unfold valid_num. destruct (num_of v); reflexivity.
Qed.

Lemma strv_none_valid re_match sv v : strv_is_none sv = true -> valid_str re_match sv v = true.
Proof.
  destruct sv as [a b c]. unfold strv_is_none, strv_eqb. simpl.
  destruct a, b, c; simpl; intros H; try discriminate H.
  unfold valid_str. destruct v; reflexivity.
Qed.

Lemma merge_nv_none a b : numv_is_none a = true -> merge_nv a b = MOk b.
Proof. unfold merge_nv. intros ->. reflexivity. Qed.
Lemma merge_sv_none a b : strv_is_none a = true -> merge_sv a b = MOk b.
Proof. unfold merge_sv. intros ->. reflexivity. Qed.

(* try_merge_with_subschemas when only allOf may be present *)
Definition with_allof (mrg : schema -> schema -> mres schema) (so : schema) (allo : option (list schema)) : mres schema :=
  match allo with
  | None => MOk so
  | Some l => mbind (fold_left (fun acc other => mbind acc (fun s => mrg s other)) l (MOk so))
                    (fun s => MOk (into_obj s))
  end.

Lemma with_subs_allof mrg rough so allo : with_subs mrg rough so allo None None None = with_allof mrg so allo.
Proof.
  destruct allo as [l|]; [|reflexivity].
  unfold with_subs, with_allof. simpl.
  destruct (fold_left (fun acc other => mbind acc (fun s => mrg s other)) l (MOk so)); reflexivity.
Qed.

(* the enum filter at the end of merge_schema_object *)
Definition enum_filter (m2 : schema) : schema :=
  match m2 with
  | SObj t2 f2 (Some ev) c2 n2 s2 ik2 it2 ai2 mni2 mxi2 uq2 p2 r2 ap2 mnp2 mxp2 al2 an2 on2 no2 ref2 d2 tt2 =>
      SObj t2 f2 (Some (filter (value_validate t2 None c2) ev)) c2 n2 s2 ik2 it2 ai2 mni2 mxi2 uq2
           p2 r2 ap2 mnp2 mxp2 al2 an2 on2 no2 ref2 d2 tt2
  | x => x
  end.

Section ObjWhole.
  Variable re_match : ustring -> ustring -> bool.
  Variable fmt_ok : ustring -> ustring -> bool.
  Variable o : vopts.
  Variable DV : defs.
  Variable n : nat.
  Variable wa : bool.
  Variable tm : bool.
  Variable tx : itype.
  Hypothesis Htx : tx_ok tx.
  Variable D : defs.
  Local Notation V := (Valid.validx re_match fmt_ok o DV n).
  Local Notation exok := (ex_ok re_match fmt_ok o DV n wa tm tx).

  Lemma V_frag ty enum cst nv sv ik items ai mni mxi uq props req ap mnp mxp allo d t v :
    numv_is_none nv = true -> strv_is_none sv = true ->
    V (SObj ty None enum cst nv sv ik items ai mni mxi uq props req ap mnp mxp allo
            None None None None d t) v
    = valid_type o ty v && valid_enum enum v && valid_const cst v
      && valid_arr_local mni mxi uq v && valid_obj_local req mnp mxp v
      && match v with JArr l => valid_arr V ik items ai l | _ => true end
      && match v with JObj kvs => valid_obj V props ap kvs | _ => true end
      && opt_all (forallb (fun s' => V s' v)) allo.
  Proof.
    intros Hn Hs.
    rewrite validx_SObj. cbv zeta. unfold combine_ref, here_v, valid_local, valid_format.
    rewrite (numv_none_valid nv v Hn), (strv_none_valid re_match sv v Hs).
    destruct v; simpl; rewrite ?andb_true_r; reflexivity.
  Qed.

  Lemma frag_shape ty fmt enum cst nv sv ik items ai mni mxi uq props req ap mnp mxp allo anyo oneo no ref d t :
    obj_frag wa tm tx (SObj ty fmt enum cst nv sv ik items ai mni mxi uq props req ap mnp mxp allo anyo oneo no ref d t) = true ->
    fmt = None /\ anyo = None /\ oneo = None /\ no = None /\ ref = None
    /\ notype tx ty = true /\ simple_enum enum = true /\ opt_all simple_json cst = true
    /\ numv_is_none nv = true /\ strv_is_none sv = true
    /\ shape_b wa tm ik items ai = true /\ zero_ok tm mni mxi = true
    /\ (arr_absent ik ai mni mxi uq || (wa && all_array ty) = true)
    /\ forallb (obj_frag wa tm tx) items = true /\ opt_all (obj_frag wa tm tx) ai = true
    /\ (obj_absent props req ap mnp mxp || all_object ty = true)
    /\ uniq_keys props = true
    /\ forallb (fun kv => obj_frag wa tm tx (snd kv)) props = true /\ opt_all (obj_frag wa tm tx) ap = true
    /\ opt_all (forallb (obj_frag wa tm tx)) allo = true.
  Proof.
    intros H. cbn [obj_frag] in H. unfold arr_cond in H.
    fold (shape_b wa tm ik items ai) in H. fold (zero_ok tm mni mxi) in H.
    repeat match goal with
           | Hx : _ && _ = true |- _ => apply andb_true_iff in Hx; destruct Hx
           end.
    destruct fmt; [simpl in *; congruence|].
    destruct anyo; [simpl in *; congruence|].
    destruct oneo; [simpl in *; congruence|].
    destruct no; [simpl in *; congruence|].
    destruct ref; [simpl in *; congruence|].
    repeat split; assumption.
  Qed.

  Lemma frag_build ty enum cst nv sv ik items ai mni mxi uq props req ap mnp mxp allo d t :
    notype tx ty = true -> simple_enum enum = true -> opt_all simple_json cst = true ->
    numv_is_none nv = true -> strv_is_none sv = true ->
    shape_b wa tm ik items ai = true -> zero_ok tm mni mxi = true ->
    (arr_absent ik ai mni mxi uq || (wa && all_array ty) = true) ->
    forallb (obj_frag wa tm tx) items = true -> opt_all (obj_frag wa tm tx) ai = true ->
    (obj_absent props req ap mnp mxp || all_object ty = true) -> uniq_keys props = true ->
    forallb (fun kv => obj_frag wa tm tx (snd kv)) props = true -> opt_all (obj_frag wa tm tx) ap = true ->
    opt_all (forallb (obj_frag wa tm tx)) allo = true ->
    obj_frag wa tm tx (SObj ty None enum cst nv sv ik items ai mni mxi uq props req ap mnp mxp allo
                            None None None None d t) = true.
  Proof.
    intros H1 H2 H3 H4 H5 H6 H6b H7 H8 H8b H9 H10 H11 H12 H13.
    cbn [obj_frag]. unfold arr_cond. fold (shape_b wa tm ik items ai). fold (zero_ok tm mni mxi).
    rewrite H1, H2, H3, H4, H5, H6, H6b, H7, H8, H8b, H9, H10, H11, H12, H13. reflexivity.
  Qed.

  Lemma frag_into_obj s : obj_frag wa tm tx s = true -> obj_frag wa tm tx (into_obj s) = true.
  Proof.
    destruct s as [[|]|]; intros H; try exact H.
    simpl into_obj. unfold SAny. cbn [obj_frag]. unfold arr_cond. simpl. rewrite ?orb_true_r. reflexivity.
  Qed.

  Lemma V_into_obj s v : V (into_obj s) v = V s v.
  Proof.
    destruct s as [[|]|]; try reflexivity.
    simpl into_obj. rewrite valid_SBool. unfold SAny. rewrite V_frag by reflexivity.
    destruct v; reflexivity.
  Qed.

  (* ---- folding the allOf members in *)
  Section Fold.
    Variable mrg : schema -> schema -> mres schema.
    Hypothesis Hm : forall x y, obj_frag wa tm tx x = true -> obj_frag wa tm tx y = true -> exok (mrg x y) x y.

    Definition acc_ex (r : mres schema) (F : json -> bool) : Prop :=
      match r with
      | MOk m => obj_frag wa tm tx m = true /\ forall v, inst_ok wa v = true -> V m v = F v
      | MNever => forall v, inst_ok wa v = true -> F v = false
      | _ => True
      end.

    Lemma fold_exact l : forall acc F,
      acc_ex acc F -> forallb (obj_frag wa tm tx) l = true ->
      acc_ex (fold_left (fun a other => mbind a (fun s => mrg s other)) l acc)
             (fun v => F v && forallb (fun s' => V s' v) l).
    Proof.
      induction l as [|s l IH]; intros acc F Hacc Hl.
      - simpl. destruct acc; unfold acc_ex in *; try exact I.
        + destruct Hacc as [H1 H2]. split; [exact H1|]. intros v Wv. rewrite andb_true_r. auto.
        + intros v Wv. rewrite andb_true_r. auto.
      - cbn [fold_left]. simpl in Hl. apply andb_true_iff in Hl. destruct Hl as [Hs Hl].
        assert (Hstep : acc_ex (mbind acc (fun x => mrg x s)) (fun v => F v && V s v)).
        { destruct acc as [x| | |]; unfold acc_ex, mbind in *; try exact I.
          - destruct Hacc as [Fx Hx]. pose proof (Hm x s Fx Hs) as H. unfold ex_ok in H.
            destruct (mrg x s); try exact I.
            + destruct H as [H1 H2]. split; [exact H1|]. intros v Wv. rewrite (H2 v Wv), (Hx v Wv). reflexivity.
            + intros v Wv. rewrite <- (Hx v Wv). apply H. exact Wv.
          - intros v Wv. rewrite (Hacc v Wv). reflexivity. }
        specialize (IH _ _ Hstep Hl).
        destruct (fold_left (fun a other => mbind a (fun s0 => mrg s0 other)) l (mbind acc (fun x => mrg x s)));
          unfold acc_ex in *; try exact I.
        + destruct IH as [H1 H2]. split; [exact H1|]. intros v Wv. rewrite (H2 v Wv). simpl.
          rewrite andb_assoc. reflexivity.
        + intros v Wv. simpl. rewrite andb_assoc. apply IH. exact Wv.
    Qed.

    Lemma with_allof_exact so allo F :
      acc_ex (MOk so) F -> opt_all (forallb (obj_frag wa tm tx)) allo = true ->
      acc_ex (with_allof mrg so allo) (fun v => F v && opt_all (forallb (fun s' => V s' v)) allo).
    Proof.
      intros Hso Hl. destruct allo as [l|]; simpl.
      - pose proof (fold_exact l _ _ Hso Hl) as H.
        destruct (fold_left (fun acc other => mbind acc (fun s => mrg s other)) l (MOk so)); simpl; try exact I.
        + destruct H as [H1 H2]. split; [apply frag_into_obj; exact H1|].
          intros v Wv. rewrite V_into_obj. apply H2. exact Wv.
        + exact H.
      - destruct Hso as [H1 H2]. split; [exact H1|]. intros v Wv. rewrite andb_true_r. auto.
    Qed.
  End Fold.

  (* ---- the enum filter keeps the instance set *)
  Lemma enum_filter_frag m : obj_frag wa tm tx m = true -> obj_frag wa tm tx (enum_filter m) = true.
  Proof.
    destruct m as [b|ty fmt enum cst nv sv ik items ai mni mxi uq props req ap mnp mxp allo anyo oneo no ref d t];
      [intros H; exact H|].
    destruct enum as [ev|]; [|intros H; exact H].
    intros H. pose proof (frag_shape _ _ _ _ _ _ _ _ _ _ _ _ _ _ _ _ _ _ _ _ _ _ _ _ H) as S.
    destruct S as (-> & -> & -> & -> & -> & Nt & Se & Sc & Hn & Hs & Sh & Zo & Ga & Fi & Fai & G & U & Fp & Fap & Fal).
    cbn [enum_filter]. apply frag_build; try assumption.
    simpl. apply forallb_forall. intros w Hw. apply filter_In in Hw. simpl in Se. rewrite forallb_forall in Se.
    apply Se. apply Hw.
  Qed.

  Lemma enum_filter_exact_V m v : obj_frag wa tm tx m = true -> V (enum_filter m) v = V m v.
  Proof.
    destruct m as [b|ty fmt enum cst nv sv ik items ai mni mxi uq props req ap mnp mxp allo anyo oneo no ref d t];
      [reflexivity|].
    destruct enum as [ev|]; [|reflexivity].
    intros H. pose proof (frag_shape _ _ _ _ _ _ _ _ _ _ _ _ _ _ _ _ _ _ _ _ _ _ _ _ H) as S.
    destruct S as (-> & -> & -> & -> & -> & Nt & Se & Sc & Hn & Hs & Sh & Zo & Ga & Fi & Fai & G & U & Fp & Fap & Fal).
    cbn [enum_filter]. rewrite !V_frag by assumption.
    destruct (valid_type o ty v) eqn:Tv; [|reflexivity].
    destruct (valid_const cst v) eqn:Cv; [|rewrite !andb_false_r; reflexivity].
    unfold valid_enum at 1 2. unfold opt_all.
    rewrite (enum_filter_exact o ty cst ev v Se Sc Tv Cv). reflexivity.
  Qed.
End ObjWhole.


Lemma all_array_arr o ty v : all_array ty = true -> valid_type o ty v = true -> exists l, v = JArr l.
Proof.
  destruct ty as [[|t l]|]; simpl; try discriminate. intros H Hv.
  unfold valid_type in Hv. simpl in Hv.
  assert (Hall : forall t', In t' (t :: l) -> t' = TArray).
  { intros t' Hin. apply andb_true_iff in H. destruct H as [H1 H2]. destruct Hin as [<-|Hin].
    - symmetry. apply itype_eqb_true. exact H1.
    - rewrite forallb_forall in H2. symmetry. apply itype_eqb_true. apply H2. exact Hin. }
  change (existsb (fun t0 => type_ok (int_accepts_integral_float o) t0 v) (t :: l) = true) in Hv.
  apply existsb_exists in Hv. destruct Hv as [t' [Hin Hok]].
  rewrite (Hall _ Hin) in Hok. destruct v; simpl in Hok; try discriminate Hok. eauto.
Qed.

Lemma merge_ty_all_array ta tb t :
  merge_ty ta tb = Some t -> all_array ta = true \/ all_array tb = true -> all_array t = true.
Proof.
  assert (K : forall la lb, all_array (Some la) = true \/ all_array (Some lb) = true ->
              forall x r, filter (fun t0 => mem_ty t0 la && mem_ty t0 lb) all_itypes = x :: r ->
              all_array (Some (x :: r)) = true).
  { intros la lb H x r Ef.
    assert (Hall : forall y, In y (x :: r) -> itype_eqb TArray y = true).
    { intros y Hy. rewrite <- Ef in Hy. apply filter_In in Hy. destruct Hy as [_ Hy].
      apply andb_true_iff in Hy. destruct Hy as [Ha Hb].
      apply mem_ty_In in Ha. apply mem_ty_In in Hb.
      destruct H as [H|H].
      - destruct la as [|t0 l0]; [discriminate H|].
        change (forallb (itype_eqb TArray) (t0 :: l0) = true) in H. rewrite forallb_forall in H. apply H. exact Ha.
      - destruct lb as [|t0 l0]; [discriminate H|].
        change (forallb (itype_eqb TArray) (t0 :: l0) = true) in H. rewrite forallb_forall in H. apply H. exact Hb. }
    unfold all_array. apply forallb_forall. exact Hall. }
  destruct ta as [la|], tb as [lb|]; unfold merge_ty; cbv zeta; intros E H.
  - destruct (filter (fun t0 => mem_ty t0 la && mem_ty t0 lb) all_itypes) as [|x r] eqn:Ef; [discriminate E|].
    inversion E; subst. eapply K; eauto.
  - inversion E; subst. destruct H as [H|H]; [exact H | discriminate H].
  - inversion E; subst. destruct H as [H|H]; [discriminate H | exact H].
  - destruct H as [H|H]; discriminate H.
Qed.

Section ObjThmExact.
  Variable re_match : ustring -> ustring -> bool.
  Variable fmt_ok : ustring -> ustring -> bool.
  Variable o : vopts.
  Variable DV : defs.
  Variable n : nat.
  Variable wa : bool.
  Variable tm : bool.
  Variable tx : itype.
  Hypothesis Htx : tx_ok tx.
  Variable D : defs.
  Local Notation V := (Valid.validx re_match fmt_ok o DV n).
  Local Notation exok := (ex_ok re_match fmt_ok o DV n wa tm tx).

  Lemma merge_frag_eq f ty enum cst nv sv ik items ai mni mxi uq props req ap mnp mxp allo d t
        ty' enum' cst' nv' sv' ik' items' ai' mni' mxi' uq' props' req' ap' mnp' mxp' allo' d' t' :
    merge D (S f)
          (SObj ty None enum cst nv sv ik items ai mni mxi uq props req ap mnp mxp allo
                None None None None d t)
          (SObj ty' None enum' cst' nv' sv' ik' items' ai' mni' mxi' uq' props' req' ap' mnp' mxp' allo'
                None None None None d' t')
    = match merge_ty ty ty' with
      | None => MNever
      | Some tym =>
          mbind (merge_nv nv nv') (fun nvm =>
          mbind (merge_sv sv sv') (fun svm =>
          mbind (merge_arr (merge D f) (ik, items, ai, mni, mxi, uq) (ik', items', ai', mni', mxi', uq')) (fun am =>
          mbind (merge_obj (merge D f) (props, req, ap, mnp, mxp) (props', req', ap', mnp', mxp')) (fun om =>
          mbind (merge_enum enum cst enum' cst') (fun em =>
            let '(ikm, itm, aim, mnim, mxim, uqm) := am in
            let '(pm, rm, apm, mnpm, mxpm) := om in
            mbind (with_allof (merge D f)
                     (SObj tym None em None nvm svm ikm itm aim mnim mxim uqm pm rm apm mnpm mxpm None
                           None None None None None None) allo) (fun m1 =>
            mbind (with_allof (merge D f) m1 allo') (fun m2 => MOk (enum_filter m2))))))))
      end.
  Proof.
    match goal with
    | |- merge D (S f) ?A ?B = _ => transitivity (merge_so (merge D f) (roughly (S f)) A B); [reflexivity|]
    end.
    unfold merge_so, merge_fmt.
    destruct (merge_ty ty ty'); [|reflexivity].
    destruct (merge_nv nv nv'); cbn [mbind]; try reflexivity.
    destruct (merge_sv sv sv'); cbn [mbind]; try reflexivity.
    destruct (merge_arr (merge D f) (ik, items, ai, mni, mxi, uq) (ik', items', ai', mni', mxi', uq'))
      as [[[[[[ikm itm] aim] mnim] mxim] uqm]| | |]; cbn [mbind]; try reflexivity.
    destruct (merge_obj (merge D f) (props, req, ap, mnp, mxp) (props', req', ap', mnp', mxp'))
      as [[[[[pm rm] apm] mnm] mxm]| | |]; cbn [mbind]; try reflexivity.
    destruct (merge_enum enum cst enum' cst') as [em| | |]; cbn [mbind]; try reflexivity.
    rewrite with_subs_allof.
    match goal with
    | |- context [with_allof ?g ?b allo] => destruct (with_allof g b allo) as [m1| | |]
    end; cbn [mbind]; try reflexivity.
    rewrite with_subs_allof.
    destruct (with_allof (merge D f) m1 allo') as [m2| | |]; cbn [mbind]; try reflexivity.
    destruct m2 as [bb|t2 f2 e2 c2 n2 s2 ik2 it2 ai2 mni2 mxi2 uq2 p2 r2 ap2 mnp2 mxp2 al2 an2 on2 no2 ref2 d2 tt2];
      [reflexivity|].
    destruct e2; reflexivity.
  Qed.

  Theorem merge_frag_exact : forall f a b,
    obj_frag wa tm tx a = true -> obj_frag wa tm tx b = true -> exok (merge D f a b) a b.
  Proof.
    induction f as [|f IH]; intros a b Fa Fb; [exact I|].
    destruct a as [ba|ty fmt enum cst nv sv ik items ai mni mxi uq props req ap mnp mxp allo anyo oneo no ref d t].
    { destruct ba; destruct b as [[|]|ty' fmt' enum' cst' nv' sv' ik' items' ai' mni' mxi' uq' props' req' ap' mnp' mxp' allo' anyo' oneo' no' ref' d' t'];
        try (split; [assumption | intros v _; rewrite !valid_SBool; reflexivity]);
        try (intros v _; rewrite !valid_SBool; reflexivity);
        try (intros v _; rewrite valid_SBool; apply andb_false_r). }
    destruct b as [[|]|ty' fmt' enum' cst' nv' sv' ik' items' ai' mni' mxi' uq' props' req' ap' mnp' mxp' allo' anyo' oneo' no' ref' d' t'].
    { split; [assumption | intros v _; rewrite valid_SBool, andb_true_r; reflexivity]. }
    { intros v _. rewrite valid_SBool. apply andb_false_r. }
    pose proof (frag_shape wa tm tx _ _ _ _ _ _ _ _ _ _ _ _ _ _ _ _ _ _ _ _ _ _ _ _ Fa) as Sa.
    pose proof (frag_shape wa tm tx _ _ _ _ _ _ _ _ _ _ _ _ _ _ _ _ _ _ _ _ _ _ _ _ Fb) as Sb.
    destruct Sa as (-> & -> & -> & -> & -> & Nt & Se & Sc & Hn & Hs & Sh & Zo & Gaa & Fi & Fai & Ga & Ua & Fp & Fap & Fal).
    destruct Sb as (-> & -> & -> & -> & -> & Nt' & Se' & Sc' & Hn' & Hs' & Sh' & Zo' & Gab & Fi' & Fai' & Gb & Ub & Fp' & Fap' & Fal').
    rewrite merge_frag_eq. unfold ex_ok.
    pose proof (merge_obj_exact re_match fmt_ok o DV n wa tm tx (merge D f) IH
                                props req ap mnp mxp props' req' ap' mnp' mxp' Fp Fp' Fap Fap' Ua Ub) as Hobj.
    pose proof (merge_arr_exact re_match fmt_ok o DV n wa tm tx (merge D f) IH
                                ik items ai mni mxi uq ik' items' ai' mni' mxi' uq' Sh Sh' Zo Zo' Fi Fi' Fai Fai') as Harr.
    (* what the two bodies (without their allOf members) mean *)
    set (A0 := fun v => valid_type o ty v && valid_enum enum v && valid_const cst v
                        && valid_arr_local mni mxi uq v && valid_obj_local req mnp mxp v
                        && match v with JArr l => valid_arr V ik items ai l | _ => true end
                        && match v with JObj kvs => valid_obj V props ap kvs | _ => true end).
    set (B0 := fun v => valid_type o ty' v && valid_enum enum' v && valid_const cst' v
                        && valid_arr_local mni' mxi' uq' v && valid_obj_local req' mnp' mxp' v
                        && match v with JArr l => valid_arr V ik' items' ai' l | _ => true end
                        && match v with JObj kvs => valid_obj V props' ap' kvs | _ => true end).
    set (LA := fun v => opt_all (forallb (fun s' => V s' v)) allo).
    set (LB := fun v => opt_all (forallb (fun s' => V s' v)) allo').
    assert (EA : forall v, V (SObj ty None enum cst nv sv ik items ai mni mxi uq props req ap mnp mxp allo
                                    None None None None d t) v = A0 v && LA v).
    { intros v. rewrite V_frag by assumption. reflexivity. }
    assert (EB : forall v, V (SObj ty' None enum' cst' nv' sv' ik' items' ai' mni' mxi' uq' props' req' ap' mnp' mxp' allo'
                                    None None None None d' t') v = B0 v && LB v).
    { intros v. rewrite V_frag by assumption. reflexivity. }
    pose proof (fun v => merge_ty_exact tx o ty ty' v Htx Nt Nt') as Hty.
    destruct (merge_ty ty ty') as [tym|] eqn:Et.
    - rewrite (merge_nv_none nv nv' Hn), (merge_sv_none sv sv' Hs). cbn [mbind].
      destruct (merge_arr (merge D f) (ik, items, ai, mni, mxi, uq) (ik', items', ai', mni', mxi', uq'))
        as [[[[[[ikm itm] aim] mnim] mxim] uqm]| | |]; cbn [mbind]; try exact I.
      + destruct Harr as (Shm & Zom & Fim & Faim & Habsa & Hsema).
        destruct (merge_obj (merge D f) (props, req, ap, mnp, mxp) (props', req', ap', mnp', mxp'))
          as [[[[[pm rm] apm] mnm] mxm]| | |]; cbn [mbind]; try exact I.
        * destruct Hobj as (Fpm & Am & Upm & Habs & Hsem).
          pose proof (fun v => merge_enum_exact enum cst enum' cst' v Se Sc Se' Sc') as Hen.
          destruct (merge_enum enum cst enum' cst') as [em| | |] eqn:Ee; cbn [mbind]; try exact I.
          -- (* the merged body *)
             set (body := SObj tym None em None nv' sv' ikm itm aim mnim mxim uqm pm rm apm mnm mxm None
                               None None None None None None).
             assert (Hbody : acc_ex re_match fmt_ok o DV n wa tm tx (MOk body) (fun v => A0 v && B0 v)).
             { split.
               - unfold body. destruct (Hty JNull) as [Ntm _]. destruct (Hen JNull) as [Sem _].
                 apply frag_build; try assumption; try reflexivity.
                 + apply orb_true_iff in Gaa. apply orb_true_iff in Gab. apply orb_true_iff.
                   destruct Gaa as [Gaa|Gaa].
                   * destruct Gab as [Gab|Gab].
                     -- left. apply Habsa; assumption.
                     -- right. apply andb_true_iff in Gab. destruct Gab as [-> Gab]. simpl.
                        eapply merge_ty_all_array; eauto.
                   * right. apply andb_true_iff in Gaa. destruct Gaa as [-> Gaa]. simpl.
                     eapply merge_ty_all_array; eauto.
                 + apply orb_true_iff in Ga. apply orb_true_iff in Gb. apply orb_true_iff.
                   destruct Ga as [Ga|Ga].
                   * destruct Gb as [Gb|Gb].
                     -- left. apply Habs; assumption.
                     -- right. eapply merge_ty_all_object; eauto.
                   * right. eapply merge_ty_all_object; eauto.
               - intros v Wv. unfold body. rewrite V_frag by assumption.
                 destruct (Hty v) as [_ Tv]. destruct (Hen v) as [_ Ev].
                 unfold valid_const at 1. unfold valid_enum at 1. cbn [opt_all]. fold (enum_sem em v).
                 rewrite Tv, Ev. unfold A0, B0.
                 destruct v as [| | | | |l|kvs]; try (simpl; btauto).
                 + pose proof (Hsema l Wv) as Ho. unfold abool in Ho.
                   change (valid_obj_local rm mnm mxm (JArr l)) with true.
                   change (valid_obj_local req mnp mxp (JArr l)) with true.
                   change (valid_obj_local req' mnp' mxp' (JArr l)) with true.
                   rewrite !andb_true_r.
                   rewrite <- (andb_assoc _ (valid_arr_local mnim mxim uqm (JArr l)) (valid_arr V ikm itm aim l)).
                   rewrite Ho. btauto.
                 + pose proof (Hsem kvs Wv) as Ho. unfold obool in Ho.
                   change (valid_arr_local mnim mxim uqm (JObj kvs)) with true.
                   change (valid_arr_local mni mxi uq (JObj kvs)) with true.
                   change (valid_arr_local mni' mxi' uq' (JObj kvs)) with true.
                   rewrite !andb_true_r.
                   rewrite <- (andb_assoc _ (valid_obj_local rm mnm mxm (JObj kvs)) (valid_obj V pm apm kvs)).
                   rewrite Ho. btauto. }
             pose proof (with_allof_exact re_match fmt_ok o DV n wa tm tx (merge D f) IH body allo _ Hbody Fal) as H1.
             destruct (with_allof (merge D f) body allo) as [m1| | |]; cbn [mbind]; try exact I.
             ++ pose proof (with_allof_exact re_match fmt_ok o DV n wa tm tx (merge D f) IH m1 allo' _ H1 Fal') as H2.
                destruct (with_allof (merge D f) m1 allo') as [m2| | |]; cbn [mbind]; try exact I.
                ** destruct H2 as [F2 S2]. split; [apply enum_filter_frag; exact F2|].
                   intros v Wv. rewrite (enum_filter_exact_V re_match fmt_ok o DV n wa tm tx m2 v F2), (S2 v Wv), EA, EB.
                   fold (LA v) (LB v).
                   destruct (A0 v), (B0 v), (LA v), (LB v); reflexivity.
                ** intros v Wv. rewrite EA, EB. specialize (H2 v Wv). cbv beta in H2.
                   fold (LA v) (LB v) in H2. rewrite <- H2. btauto.
             ++ intros v Wv. rewrite EA, EB. specialize (H1 v Wv). cbv beta in H1.
                fold (LA v) in H1. transitivity ((A0 v && B0 v && LA v) && LB v); [btauto | rewrite H1; reflexivity].
          -- intros v Wv. rewrite EA, EB. specialize (Hen v). unfold A0, B0.
             destruct (valid_enum enum v), (valid_const cst v), (valid_enum enum' v), (valid_const cst' v);
               simpl in Hen; try discriminate Hen; rewrite ?andb_false_r; try reflexivity;
               destruct (valid_type o ty v); simpl; rewrite ?andb_false_r; reflexivity.
        * destruct Hobj as (Na_ & Nb_ & Hnev).
          intros v Wv. rewrite EA, EB.
          rewrite Na_ in Ga. simpl in Ga.
          destruct (valid_type o ty v) eqn:Tv; [|unfold A0; rewrite Tv; reflexivity].
          destruct (all_object_obj o ty v Ga Tv) as [kvs ->].
          specialize (Hnev kvs Wv). unfold obool in Hnev. unfold A0, B0.
          destruct (valid_obj_local req mnp mxp (JObj kvs)), (valid_obj V props ap kvs),
            (valid_obj_local req' mnp' mxp' (JObj kvs)), (valid_obj V props' ap' kvs);
            simpl in Hnev; try discriminate Hnev; rewrite ?andb_false_r; simpl; rewrite ?andb_false_r; reflexivity.
      + destruct Harr as (Na_ & Nb_ & Hnev).
        intros v Wv. rewrite EA, EB.
        rewrite Na_ in Gaa. simpl in Gaa. apply andb_true_iff in Gaa. destruct Gaa as [_ Gaa].
        destruct (valid_type o ty v) eqn:Tv; [|unfold A0; rewrite Tv; reflexivity].
        destruct (all_array_arr o ty v Gaa Tv) as [l ->].
        specialize (Hnev l Wv). unfold abool in Hnev. unfold A0, B0.
        destruct (valid_arr_local mni mxi uq (JArr l)), (valid_arr V ik items ai l),
          (valid_arr_local mni' mxi' uq' (JArr l)), (valid_arr V ik' items' ai' l);
          simpl in Hnev; try discriminate Hnev; rewrite ?andb_false_r; simpl; rewrite ?andb_false_r; reflexivity.
    - intros v Wv. rewrite EA, EB. specialize (Hty v). unfold A0, B0.
      destruct (valid_type o ty v), (valid_type o ty' v); simpl in Hty; try discriminate Hty;
        simpl; rewrite ?andb_false_r; reflexivity.
  Qed.
End ObjThmExact.


(* ---- the fragment has no `$ref`: validity does not depend on the definitions nor on the fuel *)
Lemma obj_frag_ref_free wa tm tx : forall s, obj_frag wa tm tx s = true -> ref_free s = true.
Proof.
  induction s as [b|ty fmt enum cst nv sv ik items ai mni mxi uq props req ap mnp mxp allo anyo oneo no ref d t
                    IHi IHai IHp IHap IHal IHan IHon IHno] using schema_ind'; [reflexivity|].
  intros H. cbn [obj_frag] in H. unfold arr_cond in H.
  repeat match goal with
         | Hx : _ && _ = true |- _ => apply andb_true_iff in Hx; destruct Hx
         end.
  destruct anyo; [simpl in *; congruence|].
  destruct oneo; [simpl in *; congruence|].
  destruct no; [simpl in *; congruence|].
  destruct ref; [simpl in *; congruence|].
  cbn [ref_free opt_all andb].
  assert (Hi : forallb ref_free items = true).
  { apply forallb_forall. intros x Hin. rewrite Forall_forall in IHi. apply (IHi x Hin).
    match goal with Hf : forallb (obj_frag wa tm tx) items = true |- _ =>
      rewrite forallb_forall in Hf; apply Hf; exact Hin end. }
  rewrite Hi.
  assert (Hai : opt_all ref_free ai = true).
  { destruct ai as [a|]; [|reflexivity]. simpl in *. apply IHai. assumption. }
  rewrite Hai.
  assert (Hp : forallb (fun kv => ref_free (snd kv)) props = true).
  { apply forallb_forall. intros kv Hin. rewrite Forall_forall in IHp. apply (IHp kv Hin).
    match goal with Hf : forallb (fun kv => obj_frag wa tm tx (snd kv)) props = true |- _ =>
      rewrite forallb_forall in Hf; apply Hf; exact Hin end. }
  rewrite Hp.
  assert (Hap : opt_all ref_free ap = true).
  { destruct ap as [a|]; [|reflexivity]. simpl in *. apply IHap. assumption. }
  rewrite Hap.
  assert (Hal : opt_all (forallb ref_free) allo = true).
  { destruct allo as [l|]; [|reflexivity]. simpl in *. apply forallb_forall. intros x Hin.
    rewrite Forall_forall in IHal. apply (IHal x Hin).
    match goal with Hf : forallb (obj_frag wa tm tx) l = true |- _ =>
      rewrite forallb_forall in Hf; apply Hf; exact Hin end. }
  rewrite Hal. reflexivity.
Qed.

Section ObjAllExact.
  Variable re_match : ustring -> ustring -> bool.
  Variable fmt_ok : ustring -> ustring -> bool.
  Variable o : vopts.
  Variable DV : defs.
  Variable n : nat.
  Variable wa : bool.
  Variable tm : bool.
  Variable tx : itype.
  Hypothesis Htx : tx_ok tx.
  Variable D : defs.
  Variable f : nat.
  Local Notation V := (Valid.validx re_match fmt_ok o DV n).
  Local Notation accex := (acc_ex re_match fmt_ok o DV n wa tm tx).

  (* merge_all is exact: Ok m => the instances of m are exactly those of all members; never => there is none *)
  Theorem merge_all_frag_exact L :
    L <> [] -> forallb (obj_frag wa tm tx) L = true ->
    accex (merge_all D f L) (fun v => forallb (fun s => V s v) L).
  Proof.
    intros Hne HF. destruct L as [|a [|b rest]]; [congruence| |].
    - simpl in HF. rewrite andb_true_r in HF. cbn [merge_all]. split; [exact HF|].
      intros v _. simpl. rewrite andb_true_r. reflexivity.
    - cbn [merge_all]. simpl in HF. apply andb_true_iff in HF. destruct HF as [Ha HF].
      apply andb_true_iff in HF. destruct HF as [Hb HF].
      pose proof (merge_frag_exact re_match fmt_ok o DV n wa tm tx Htx D f a b Ha Hb) as H0.
      assert (Hacc : accex (merge D f a b) (fun v => V a v && V b v)).
      { unfold ex_ok in H0. unfold acc_ex. destruct (merge D f a b); try exact I; exact H0. }
      pose proof (fold_exact re_match fmt_ok o DV n wa tm tx (merge D f)
                             (merge_frag_exact re_match fmt_ok o DV n wa tm tx Htx D f) rest _ _ Hacc HF) as H.
      destruct (fold_left (fun acc s => mbind acc (fun o0 => merge D f o0 s)) rest (merge D f a b));
        unfold acc_ex in *; try exact I.
      + destruct H as [H1 H2]. split; [exact H1|]. intros v Wv. rewrite (H2 v Wv). simpl.
        rewrite andb_assoc. reflexivity.
      + intros v Wv. simpl. rewrite andb_assoc. apply H. exact Wv.
  Qed.

  (* the instance set of a merge_all outcome; never = the empty set *)
  Definition inst_set (r : mres schema) (v : json) : bool :=
    match r with MOk m => V m v | _ => false end.
  Definition defined (r : mres schema) : bool :=
    match r with MOk _ | MNever => true | _ => false end.

  Lemma merge_all_inst L v :
    L <> [] -> forallb (obj_frag wa tm tx) L = true -> defined (merge_all D f L) = true -> inst_ok wa v = true ->
    inst_set (merge_all D f L) v = forallb (fun s => V s v) L.
  Proof.
    intros Hne HF Hd Wv. pose proof (merge_all_frag_exact L Hne HF) as H.
    destruct (merge_all D f L); simpl in *; try discriminate Hd.
    - apply H. exact Wv.
    - symmetry. apply H. exact Wv.
  Qed.

  (* order independence at full strength on the fragment: every permutation of the list merges to the same
     instance set (semantic equality; the schemas themselves may differ) *)
  Theorem merge_all_perm_equiv_frag L L' v :
    Permutation L L' -> forallb (obj_frag wa tm tx) L = true ->
    defined (merge_all D f L) = true -> defined (merge_all D f L') = true -> inst_ok wa v = true ->
    inst_set (merge_all D f L) v = inst_set (merge_all D f L') v.
  Proof.
    intros HP HF D1 D2 Wv.
    assert (HF' : forallb (obj_frag wa tm tx) L' = true) by (rewrite <- (forallb_perm _ _ _ HP); exact HF).
    destruct L as [|a L0].
    - apply Permutation_nil in HP. subst L'. reflexivity.
    - assert (Hne' : L' <> []).
      { intros ->. apply Permutation_sym in HP. apply Permutation_nil in HP. discriminate HP. }
      rewrite (merge_all_inst (a :: L0) v), (merge_all_inst L' v); try assumption; try discriminate.
      apply forallb_perm. exact HP.
  Qed.
End ObjAllExact.

(* ---- the same statements with Spec/Valid.v's [Valid] (definite evaluation at some fuel) *)
Section ObjValid.
  Variable re_match : ustring -> ustring -> bool.
  Variable fmt_ok : ustring -> ustring -> bool.
  Variable DV : defs.
  Variable wa : bool.
  Variable tm : bool.
  Variable tx : itype.
  Hypothesis Htx : tx_ok tx.
  Variable D : defs.
  Local Notation Valid := (Valid.Valid re_match fmt_ok DV).

  Lemma Valid_ref_free s v :
    ref_free s = true -> (Valid s v <-> Valid.validx re_match fmt_ok draft07 DV 0 s v = true).
  Proof.
    intros R. unfold Valid.Valid, Validx. split.
    - intros [k [Hd Hv]].
      destruct (valid_fuel_stable re_match fmt_ok draft07 DV 0 k s v (Nat.le_0_l k)
                  (definitex_ref_free draft07 DV 0 s v R)) as [_ E].
      rewrite <- E. exact Hv.
    - intros H. exists 0. split; [apply definitex_ref_free; exact R | exact H].
  Qed.

  Theorem merge_frag_exact_Valid f a b m v :
    obj_frag wa tm tx a = true -> obj_frag wa tm tx b = true -> merge D f a b = MOk m -> inst_ok wa v = true ->
    (Valid m v <-> Valid a v /\ Valid b v).
  Proof.
    intros Fa Fb E Wv.
    pose proof (merge_frag_exact re_match fmt_ok draft07 DV 0 wa tm tx Htx D f a b Fa Fb) as H.
    rewrite E in H. destruct H as [Fm Hm].
    rewrite (Valid_ref_free m v (obj_frag_ref_free wa tm tx m Fm)),
            (Valid_ref_free a v (obj_frag_ref_free wa tm tx a Fa)),
            (Valid_ref_free b v (obj_frag_ref_free wa tm tx b Fb)).
    rewrite (Hm v Wv), andb_true_iff. tauto.
  Qed.

  Theorem merge_frag_never_Valid f a b v :
    obj_frag wa tm tx a = true -> obj_frag wa tm tx b = true -> merge D f a b = MNever -> inst_ok wa v = true ->
    ~ (Valid a v /\ Valid b v).
  Proof.
    intros Fa Fb E Wv.
    pose proof (merge_frag_exact re_match fmt_ok draft07 DV 0 wa tm tx Htx D f a b Fa Fb) as H.
    rewrite E in H. specialize (H v Wv).
    rewrite (Valid_ref_free a v (obj_frag_ref_free wa tm tx a Fa)), (Valid_ref_free b v (obj_frag_ref_free wa tm tx b Fb)).
    intros [H1 H2]. rewrite H1, H2 in H. discriminate H.
  Qed.
End ObjValid.
(* ---- statements in the form used by Props/C09.v *)
Lemma inst_ok_false v : wf_json v = true -> inst_ok false v = true.
Proof. unfold inst_ok. intros ->. reflexivity. Qed.

Lemma inst_ok_true v : wf_json v = true -> no_empty_arr v = true -> inst_ok true v = true.
Proof. unfold inst_ok. intros -> ->. reflexivity. Qed.

Theorem merge_sound_frag re_match fmt_ok o DV n wa tm tx D f a b m :
  tx_ok tx -> obj_frag wa tm tx a = true -> obj_frag wa tm tx b = true -> merge D f a b = MOk m ->
  obj_frag wa tm tx m = true /\
  forall v, inst_ok wa v = true ->
            validx re_match fmt_ok o DV n m v = validx re_match fmt_ok o DV n a v && validx re_match fmt_ok o DV n b v.
Proof.
  intros Htx Fa Fb E. pose proof (merge_frag_exact re_match fmt_ok o DV n wa tm tx Htx D f a b Fa Fb) as H.
  rewrite E in H. exact H.
Qed.

Theorem merge_never_frag re_match fmt_ok o DV n wa tm tx D f a b :
  tx_ok tx -> obj_frag wa tm tx a = true -> obj_frag wa tm tx b = true -> merge D f a b = MNever ->
  forall v, inst_ok wa v = true ->
            validx re_match fmt_ok o DV n a v && validx re_match fmt_ok o DV n b v = false.
Proof.
  intros Htx Fa Fb E. pose proof (merge_frag_exact re_match fmt_ok o DV n wa tm tx Htx D f a b Fa Fb) as H.
  rewrite E in H. exact H.
Qed.

Theorem merge_sound_obj re_match fmt_ok o DV n tx D f a b m :
  tx_ok tx -> obj_frag false false tx a = true -> obj_frag false false tx b = true -> merge D f a b = MOk m ->
  obj_frag false false tx m = true /\
  forall v, wf_json v = true ->
            validx re_match fmt_ok o DV n m v = validx re_match fmt_ok o DV n a v && validx re_match fmt_ok o DV n b v.
Proof.
  intros Htx Fa Fb E. destruct (merge_sound_frag re_match fmt_ok o DV n false false tx D f a b m Htx Fa Fb E) as [H1 H2].
  split; [exact H1|]. intros v Wv. apply H2. apply inst_ok_false. exact Wv.
Qed.

Theorem merge_never_obj re_match fmt_ok o DV n tx D f a b :
  tx_ok tx -> obj_frag false false tx a = true -> obj_frag false false tx b = true -> merge D f a b = MNever ->
  forall v, wf_json v = true ->
            validx re_match fmt_ok o DV n a v && validx re_match fmt_ok o DV n b v = false.
Proof.
  intros Htx Fa Fb E v Wv. apply (merge_never_frag re_match fmt_ok o DV n false false tx D f a b Htx Fa Fb E).
  apply inst_ok_false. exact Wv.
Qed.

Theorem merge_sound_arr re_match fmt_ok o DV n tx D f a b m :
  tx_ok tx -> obj_frag true false tx a = true -> obj_frag true false tx b = true -> merge D f a b = MOk m ->
  obj_frag true false tx m = true /\
  forall v, wf_json v = true -> no_empty_arr v = true ->
            validx re_match fmt_ok o DV n m v = validx re_match fmt_ok o DV n a v && validx re_match fmt_ok o DV n b v.
Proof.
  intros Htx Fa Fb E. destruct (merge_sound_frag re_match fmt_ok o DV n true false tx D f a b m Htx Fa Fb E) as [H1 H2].
  split; [exact H1|]. intros v Wv Nv. apply H2. apply inst_ok_true; assumption.
Qed.

Theorem merge_never_arr re_match fmt_ok o DV n tx D f a b :
  tx_ok tx -> obj_frag true false tx a = true -> obj_frag true false tx b = true -> merge D f a b = MNever ->
  forall v, wf_json v = true -> no_empty_arr v = true ->
            validx re_match fmt_ok o DV n a v && validx re_match fmt_ok o DV n b v = false.
Proof.
  intros Htx Fa Fb E v Wv Nv. apply (merge_never_frag re_match fmt_ok o DV n true false tx D f a b Htx Fa Fb E).
  apply inst_ok_true; assumption.
Qed.

(* non-vacuity: nested objects, required, a closed member, an additionalProperties schema, an allOf member *)
Definition ex_inner_a : schema :=
  obj_of [([120%N], ty_only [TInteger]); ([121%N], ty_only [TString])] [[120%N]] None.
Definition ex_inner_b : schema :=
  obj_of [([120%N], ty_only [TInteger; TNull])] [] (Some (SBool false)).
Definition ex_a : schema :=
  obj_of [([97%N], ty_only [TString]); ([110%N], ex_inner_a)] [[97%N]] (Some (ty_only [TInteger])).
Definition ex_b : schema :=
  SObj (Some [TObject]) None None None numv_none strv_none ItemsAbsent [] None None None false
       [([98%N], ty_only [TInteger]); ([110%N], ex_inner_b)] [[110%N]] None None None
       (Some [obj_of [] [[98%N]] None]) None None None None None None.
Definition ex_closed : schema := obj_of [([98%N], ty_only [TInteger])] [] (Some (SBool false)).

Definition ex_v_ok : json :=
  JObj [([97%N], JStr [104%N]); ([98%N], JInt 3); ([110%N], JObj [([120%N], JInt 1)])].
Definition ex_v_bad1 : json :=   (* inner member y is forbidden by the closed inner_b *)
  JObj [([97%N], JStr [104%N]); ([98%N], JInt 3); ([110%N], JObj [([120%N], JInt 1); ([121%N], JStr [])])].
Definition ex_v_bad2 : json :=   (* b must be an integer both as b's property and under a's additionalProperties *)
  JObj [([97%N], JStr [104%N]); ([98%N], JStr []); ([110%N], JObj [([120%N], JInt 1)])].

Lemma obj_exact_example :
  obj_frag false false TNumber ex_a = true /\ obj_frag false false TNumber ex_b = true /\
  exists m, merge [] 6 ex_a ex_b = MOk m /\ obj_frag false false TNumber m = true
            /\ Vd [] 0 m ex_v_ok = true /\ Vd [] 0 ex_a ex_v_ok = true /\ Vd [] 0 ex_b ex_v_ok = true
            /\ Vd [] 0 m ex_v_bad1 = false /\ Vd [] 0 ex_b ex_v_bad1 = false
            /\ Vd [] 0 m ex_v_bad2 = false /\ Vd [] 0 ex_b ex_v_bad2 = false
            /\ wf_json ex_v_ok = true.
Proof. split; [reflexivity|]. split; [reflexivity|]. eexists. vm_compute. repeat split. Qed.

Lemma obj_never_example :
  obj_frag false false TNumber ex_a = true /\ obj_frag false false TNumber ex_closed = true /\ merge [] 6 ex_a ex_closed = MNever.
Proof. vm_compute. repeat split. Qed.

Lemma obj_perm_example :
  exists m m', merge_all [] 8 [ex_a; ex_b; ty_only [TObject]] = MOk m
               /\ merge_all [] 8 [ty_only [TObject]; ex_b; ex_a] = MOk m'
               /\ Vd [] 0 m ex_v_ok = true /\ Vd [] 0 m' ex_v_ok = true
               /\ Vd [] 0 m ex_v_bad1 = false /\ Vd [] 0 m' ex_v_bad1 = false.
Proof. eexists. eexists. vm_compute. repeat split. Qed.

(* arrays: an object with an array-valued member whose items are narrowed, length bounds, uniqueItems *)
Definition arr_s (it : option schema) (mn mx : option N) (uq : bool) : schema :=
  SObj (Some [TArray]) None None None numv_none strv_none
       (match it with Some _ => ItemsSingle | None => ItemsAbsent end)
       (match it with Some s => [s] | None => [] end) None mn mx uq
       [] [] None None None None None None None None None None.
Definition exa_a : schema :=
  obj_of [([116%N], arr_s (Some (ty_only [TString])) None (Some 3%N) false)] [[116%N]] None.
Definition exa_b : schema :=
  obj_of [([116%N], arr_s (Some (str_enum [JStr [97%N]; JStr [98%N]])) (Some 1%N) None true)] [] None.
Definition exa_c : schema := obj_of [([116%N], arr_s (Some (ty_only [TInteger])) None None false)] [] None.
Definition exa_v_ok : json := JObj [([116%N], JArr [JStr [97%N]; JStr [98%N]])].
Definition exa_v_dup : json := JObj [([116%N], JArr [JStr [97%N]; JStr [97%N]])].
Definition exa_v_long : json := JObj [([116%N], JArr [JStr [97%N]; JStr [98%N]; JStr [97%N]; JStr [98%N]])].

Lemma arr_exact_example :
  obj_frag true false TNumber exa_a = true /\ obj_frag true false TNumber exa_b = true /\
  exists m, merge [] 6 exa_a exa_b = MOk m /\ obj_frag true false TNumber m = true
            /\ Vd [] 0 m exa_v_ok = true /\ Vd [] 0 m exa_v_dup = false /\ Vd [] 0 exa_b exa_v_dup = false
            /\ Vd [] 0 m exa_v_long = false /\ Vd [] 0 exa_a exa_v_long = false
            /\ inst_ok true exa_v_ok = true.
Proof. split; [reflexivity|]. split; [reflexivity|]. eexists. vm_compute. repeat split. Qed.

(* required member with conflicting item schemas: never; the exclusion [no_empty_arr] is what finding F5 is about *)
Lemma arr_never_example :
  obj_frag true false TNumber exa_a = true /\ obj_frag true false TNumber exa_c = true /\ merge [] 6 exa_a exa_c = MNever
  /\ Vd [] 0 exa_a (JObj [([116%N], JArr [])]) = true /\ Vd [] 0 exa_c (JObj [([116%N], JArr [])]) = true
  /\ no_empty_arr (JObj [([116%N], JArr [])]) = false.
Proof. vm_compute. repeat split. Qed.

(* tuple mode *)
Theorem merge_sound_tuple re_match fmt_ok o DV n tx D f a b m :
  tx_ok tx -> obj_frag true true tx a = true -> obj_frag true true tx b = true -> merge D f a b = MOk m ->
  obj_frag true true tx m = true /\
  forall v, wf_json v = true -> no_empty_arr v = true ->
            validx re_match fmt_ok o DV n m v = validx re_match fmt_ok o DV n a v && validx re_match fmt_ok o DV n b v.
Proof.
  intros Htx Fa Fb E. destruct (merge_sound_frag re_match fmt_ok o DV n true true tx D f a b m Htx Fa Fb E) as [H1 H2].
  split; [exact H1|]. intros v Wv Nv. apply H2. apply inst_ok_true; assumption.
Qed.

Theorem merge_never_tuple re_match fmt_ok o DV n tx D f a b :
  tx_ok tx -> obj_frag true true tx a = true -> obj_frag true true tx b = true -> merge D f a b = MNever ->
  forall v, wf_json v = true -> no_empty_arr v = true ->
            validx re_match fmt_ok o DV n a v && validx re_match fmt_ok o DV n b v = false.
Proof.
  intros Htx Fa Fb E v Wv Nv. apply (merge_never_frag re_match fmt_ok o DV n true true tx D f a b Htx Fa Fb E).
  apply inst_ok_true; assumption.
Qed.

Definition tup_s (its : list schema) (ai : option schema) (mn mx : option N) : schema :=
  SObj (Some [TArray]) None None None numv_none strv_none ItemsTuple its ai mn mx false
       [] [] None None None None None None None None None None.
Definition ext_a : schema := tup_s [ty_only [TInteger]; ty_only [TString]] (Some (SBool false)) (Some 2%N) (Some 2%N).
Definition ext_b : schema := tup_s [ty_only [TInteger]] None None None.
Definition ext_c : schema := tup_s [ty_only [TInteger]; str_enum [JStr [97%N]]; ty_only [TString]] (Some (ty_only [TInteger])) None None.
Definition ext_v_ok : json := JArr [JInt 1; JStr [97%N]].
Definition ext_v_long : json := JArr [JInt 1; JStr [97%N]; JStr [98%N]].
Definition ext_v_bad : json := JArr [JInt 1; JStr [98%N]].

(* the integrator's first seeded regression lived here: tuples of different lengths, the longer one closed *)
Lemma tuple_exact_example :
  obj_frag true true TNumber ext_a = true /\ obj_frag true true TNumber ext_b = true /\ obj_frag true true TNumber ext_c = true /\
  exists m m2, merge [] 6 ext_a ext_b = MOk m /\ obj_frag true true TNumber m = true
            /\ Vd [] 0 m ext_v_ok = true /\ Vd [] 0 m ext_v_long = false /\ Vd [] 0 ext_a ext_v_long = false
            /\ merge [] 6 ext_b ext_c = MOk m2
            /\ Vd [] 0 m2 ext_v_ok = true /\ Vd [] 0 m2 ext_v_long = true /\ Vd [] 0 m2 ext_v_bad = false
            /\ Vd [] 0 ext_c ext_v_bad = false /\ inst_ok true ext_v_ok = true.
Proof. split; [reflexivity|]. split; [reflexivity|]. split; [reflexivity|]. eexists. eexists. vm_compute. repeat split. Qed.

(* why explicit zero bounds are excluded in tuple mode: with maxItems 0 a conflict at a later position REPLACES
   maxItems by that position (merge.rs:842/888 `Some(len)`): the result is wider than the operand *)
Lemma exact_refuted_maxitems0 :
  exists a b m v, merge [] 6 a b = MOk m /\ Vd [] 0 m v = true /\ Vd [] 0 a v = false.
Proof.
  exists (tup_s [ty_only [TString]; ty_only [TInteger]] None None (Some 0%N)),
         (tup_s [ty_only [TString]; ty_only [TString]] None None None).
  eexists. exists (JArr [JStr [97%N]]). vm_compute. repeat split.
Qed.

(* ---- the fragment lies inside the complement of the F1 class: [tx] does not occur, so `integer` and `number`
   cannot both occur in a pair of fragment schemas *)
Lemma obj_frag_not_uses wa tm tx : forall s, obj_frag wa tm tx s = true -> uses_type tx s = false.
Proof.
  induction s as [b|ty fmt enum cst nv sv ik items ai mni mxi uq props req ap mnp mxp allo anyo oneo no ref d t
                    IHi IHai IHp IHap IHal IHan IHon IHno] using schema_ind'; [reflexivity|].
  intros H. cbn [obj_frag] in H.
  repeat match goal with
         | Hx : _ && _ = true |- _ => apply andb_true_iff in Hx; destruct Hx
         end.
  destruct anyo; [simpl in *; congruence|].
  destruct oneo; [simpl in *; congruence|].
  destruct no; [simpl in *; congruence|].
  cbn [uses_type].
  assert (Hty : match ty with Some l => mem_ty tx l | None => false end = false).
  { destruct ty as [l|]; [|reflexivity]. apply not_true_is_false. intros C. apply mem_ty_In in C.
    match goal with Hn : notype tx (Some l) = true |- _ =>
      unfold notype, opt_all in Hn; rewrite forallb_forall in Hn; specialize (Hn _ C);
      rewrite itype_eqb_refl in Hn; discriminate Hn end. }
  rewrite Hty.
  assert (Hi : existsb (uses_type tx) items = false).
  { apply not_true_is_false. intros C. apply existsb_exists in C. destruct C as [x [Hin Hx]].
    rewrite Forall_forall in IHi.
    match goal with Hf : forallb (obj_frag wa tm tx) items = true |- _ =>
      rewrite forallb_forall in Hf; rewrite (IHi x Hin (Hf x Hin)) in Hx; discriminate Hx end. }
  rewrite Hi.
  assert (Hai : match ai with Some x => uses_type tx x | None => false end = false).
  { destruct ai as [a|]; [|reflexivity]. simpl in *. apply IHai. assumption. }
  rewrite Hai.
  assert (Hp : existsb (fun kv => uses_type tx (snd kv)) props = false).
  { apply not_true_is_false. intros C. apply existsb_exists in C. destruct C as [kv [Hin Hx]].
    rewrite Forall_forall in IHp.
    match goal with Hf : forallb (fun kv => obj_frag wa tm tx (snd kv)) props = true |- _ =>
      rewrite forallb_forall in Hf; rewrite (IHp kv Hin (Hf kv Hin)) in Hx; discriminate Hx end. }
  rewrite Hp.
  assert (Hap : match ap with Some x => uses_type tx x | None => false end = false).
  { destruct ap as [a|]; [|reflexivity]. simpl in *. apply IHap. assumption. }
  rewrite Hap.
  assert (Hal : match allo with Some l => existsb (uses_type tx) l | None => false end = false).
  { destruct allo as [l|]; [|reflexivity]. simpl in *.
    apply not_true_is_false. intros C. apply existsb_exists in C. destruct C as [x [Hin Hx]].
    rewrite Forall_forall in IHal.
    match goal with Hf : forallb (obj_frag wa tm tx) l = true |- _ =>
      rewrite forallb_forall in Hf; rewrite (IHal x Hin (Hf x Hin)) in Hx; discriminate Hx end. }
  rewrite Hal. reflexivity.
Qed.

Theorem obj_frag_not_Known_F1 wa tm tx a b :
  tx_ok tx -> obj_frag wa tm tx a = true -> obj_frag wa tm tx b = true -> Known_F1 a b = false.
Proof.
  intros [->| ->] Fa Fb; unfold Known_F1;
    rewrite (obj_frag_not_uses _ _ _ a Fa), (obj_frag_not_uses _ _ _ b Fb); simpl;
    [apply andb_false_r | reflexivity].
Qed.


(* ====================================================================== fuel stability of the merge on [obj_frag]:
   once the outcome is defined (Ok or never) more fuel does not change it *)
Definition mdef {A} (r : mres A) : bool := match r with MOk _ | MNever => true | _ => false end.

Lemma mbind_ext {A B} (r r' : mres A) (k k' : A -> mres B) :
  (mdef r = true -> r' = r) ->
  (forall x, r = MOk x -> mdef (k x) = true -> k' x = k x) ->
  mdef (mbind r k) = true -> mbind r' k' = mbind r k.
Proof.
  intros Hr Hk H. destruct r as [x| | |]; simpl in H; try discriminate H.
  - rewrite (Hr eq_refl). simpl. apply Hk; [reflexivity | exact H].
  - rewrite (Hr eq_refl). reflexivity.
Qed.

Lemma mdef_or_false r : mdef (or_false r) = mdef r.
Proof. destruct r; reflexivity. Qed.

Lemma shape_cases' wa tm ik items ai :
  shape_b wa tm ik items ai = true ->
  (ik = ItemsAbsent /\ items = [] /\ ai = None)
  \/ (ik = ItemsSingle /\ (exists s, items = [s]) /\ ai = None /\ wa = true /\ tm = false)
  \/ (ik = ItemsTuple /\ wa = true /\ tm = true).
Proof.
  unfold shape_b. destruct ik, items as [|s [|]], ai, wa, tm; simpl; intros H; try discriminate H;
    try (left; repeat split; reflexivity);
    try (right; left; repeat split; eauto; fail);
    try (right; right; repeat split; reflexivity).
Qed.

Section Ext.
  Variable wa tm : bool.
  Variable tx : itype.
  Variables g g' : schema -> schema -> mres schema.
  (* closure of g on the fragment (from the exactness theorem) and g' extends g *)
  Hypothesis Gfrag : forall x y m, obj_frag wa tm tx x = true -> obj_frag wa tm tx y = true ->
                                   g x y = MOk m -> obj_frag wa tm tx m = true.
  Hypothesis Gext : forall x y, obj_frag wa tm tx x = true -> obj_frag wa tm tx y = true ->
                                mdef (g x y) = true -> g' x y = g x y.

  Lemma merge_ap_ext ap ap' :
    opt_all (obj_frag wa tm tx) ap = true -> opt_all (obj_frag wa tm tx) ap' = true ->
    mdef (merge_ap g ap ap') = true -> merge_ap g' ap ap' = merge_ap g ap ap'.
  Proof.
    destruct ap as [x|], ap' as [y|]; simpl; intros A B H; try reflexivity.
    apply mbind_ext; [|reflexivity|exact H].
    intros Hd. rewrite mdef_or_false in Hd. rewrite (Gext x y A B Hd). reflexivity.
  Qed.

  Lemma items_loop_ext mn mx P : forall k,
    forallb (fun pr => obj_frag wa tm tx (fst pr) && obj_frag wa tm tx (snd pr)) P = true ->
    mdef (items_loop g P k mn mx) = true -> items_loop g' P k mn mx = items_loop g P k mn mx.
  Proof.
    induction P as [|[x y] rest IH]; intros k F H; [reflexivity|].
    simpl in F. apply andb_true_iff in F. destruct F as [Fxy Fr]. apply andb_true_iff in Fxy. destruct Fxy as [Fx Fy].
    rewrite !items_loop_cons in *.
    assert (Hd : mdef (g x y) = true).
    { destruct (g x y); try reflexivity; simpl in H; discriminate H. }
    rewrite (Gext x y Fx Fy Hd).
    destruct (g x y) as [s| | |]; try reflexivity.
    destruct (hitmax mx k); [reflexivity|].
    apply mbind_ext; [|reflexivity|exact H].
    intros Hd'. apply IH; assumption.
  Qed.

  Lemma fold_undef {A} (f : A -> schema -> mres A) l acc :
    mdef acc = false -> mdef (fold_left (fun a s => mbind a (fun x => f x s)) l acc) = false.
  Proof.
    revert acc. induction l as [|s l IH]; intros acc H; [exact H|].
    simpl. apply IH. destruct acc; simpl in *; congruence.
  Qed.

  Lemma fold_never l :
    fold_left (fun a s => mbind a (fun x => g x s)) l MNever = MNever.
  Proof. induction l; simpl; auto. Qed.
  Lemma fold_never' l :
    fold_left (fun a s => mbind a (fun x => g' x s)) l MNever = MNever.
  Proof. induction l; simpl; auto. Qed.

  Lemma fold_ext l : forall acc,
    (forall x, acc = MOk x -> obj_frag wa tm tx x = true) -> forallb (obj_frag wa tm tx) l = true ->
    mdef (fold_left (fun a s => mbind a (fun x => g x s)) l acc) = true ->
    fold_left (fun a s => mbind a (fun x => g' x s)) l acc = fold_left (fun a s => mbind a (fun x => g x s)) l acc.
  Proof.
    induction l as [|s l IH]; intros acc Facc Fl H; [reflexivity|].
    simpl in Fl. apply andb_true_iff in Fl. destruct Fl as [Fs Fl]. cbn [fold_left] in *.
    destruct acc as [x| | |].
    - cbn [mbind] in *.
      assert (Hd : mdef (g x s) = true).
      { destruct (mdef (g x s)) eqn:E; [reflexivity|]. rewrite (fold_undef _ l _ E) in H. discriminate H. }
      rewrite (Gext x s (Facc x eq_refl) Fs Hd). apply IH; [|exact Fl|exact H].
      intros m Em. eapply Gfrag; [apply (Facc x eq_refl) | exact Fs | exact Em].
    - cbn [mbind]. rewrite fold_never, fold_never'. reflexivity.
    - cbn [mbind] in H. rewrite (fold_undef _ l MPanic eq_refl) in H. discriminate H.
    - cbn [mbind] in H. rewrite (fold_undef _ l MUnsupp eq_refl) in H. discriminate H.
  Qed.

  Lemma with_allof_ext so allo :
    obj_frag wa tm tx so = true -> opt_all (forallb (obj_frag wa tm tx)) allo = true ->
    mdef (with_allof g so allo) = true -> with_allof g' so allo = with_allof g so allo.
  Proof.
    destruct allo as [l|]; [|reflexivity]. simpl. intros Fso Fl H.
    apply mbind_ext; [|reflexivity|exact H].
    intros Hd. apply fold_ext; [intros x E; inversion E; subst; exact Fso | exact Fl | exact Hd].
  Qed.

  (* ---- the property loop: entries related pointwise *)
  Definition erel (e e' : ustring * mres schema) : Prop :=
    fst e = fst e' /\ (mdef (snd e) = true -> snd e' = snd e).

  Lemma props_loop_ext req apm ps ps' :
    Forall2 erel ps ps' ->
    mdef (props_loop req apm ps) = true -> props_loop req apm ps' = props_loop req apm ps.
  Proof.
    intros HF. induction HF as [|[k r] [k' r'] ps ps' [Ek Er] HF IH]; intros H; [reflexivity|].
    simpl in Ek, Er. subst k'.
    assert (Hd : mdef r = true).
    { destruct r; try reflexivity; simpl in H; discriminate H. }
    rewrite (Er Hd). destruct r as [s| | |]; try reflexivity.
    rewrite !props_loop_cons in *.
    destruct (is_false s).
    - destruct (mem_ustr k req); [reflexivity|].
      destruct (ap_is_false apm); [apply IH; exact H|].
      apply mbind_ext; [exact IH|reflexivity|exact H].
    - apply mbind_ext; [exact IH|reflexivity|exact H].
  Qed.

  Lemma Forall2_map_same {A B} (R : B -> B -> Prop) (f f' : A -> B) l :
    (forall x, In x l -> R (f x) (f' x)) -> Forall2 R (map f l) (map f' l).
  Proof.
    induction l as [|x r IH]; intros H; simpl; constructor.
    - apply H. left. reflexivity.
    - apply IH. intros y Hy. apply H. right. exact Hy.
  Qed.

  Lemma Forall2_refl_erel l : Forall2 erel l l.
  Proof. induction l as [|x r IH]; constructor; [split; auto | exact IH]. Qed.

  Lemma merge_obj_ext props req ap mnp mxp props' req' ap' mnp' mxp' :
    forallb (fun kv => obj_frag wa tm tx (snd kv)) props = true ->
    forallb (fun kv => obj_frag wa tm tx (snd kv)) props' = true ->
    opt_all (obj_frag wa tm tx) ap = true -> opt_all (obj_frag wa tm tx) ap' = true ->
    mdef (merge_obj g (props, req, ap, mnp, mxp) (props', req', ap', mnp', mxp')) = true ->
    merge_obj g' (props, req, ap, mnp, mxp) (props', req', ap', mnp', mxp')
    = merge_obj g (props, req, ap, mnp, mxp) (props', req', ap', mnp', mxp').
  Proof.
    intros Fa Fb Aa Ab. unfold merge_obj. cbv beta iota zeta.
    destruct (obj_absent props req ap mnp mxp); [reflexivity|].
    destruct (obj_absent props' req' ap' mnp' mxp'); [reflexivity|].
    intros H. apply mbind_ext; [apply merge_ap_ext; assumption| |exact H].
    intros apm _ H2. apply mbind_ext; [|reflexivity|exact H2].
    apply props_loop_ext. apply Forall2_app; [|apply Forall2_refl_erel].
    apply Forall2_map_same. intros [k sa] Hin. split; [reflexivity|]. simpl.
    destruct (assoc k props') as [sb|] eqn:Eb; [|reflexivity].
    intros Hd. rewrite mdef_or_false in Hd.
    assert (Fsa : obj_frag wa tm tx sa = true) by (rewrite forallb_forall in Fa; apply (Fa (k, sa) Hin)).
    assert (Fsb : obj_frag wa tm tx sb = true).
    { apply assoc_In in Eb. rewrite forallb_forall in Fb. apply (Fb (k, sb) Eb). }
    rewrite (Gext sa sb Fsa Fsb Hd). reflexivity.
  Qed.

  Lemma pad_frag its ai nn :
    forallb (obj_frag wa tm tx) its = true -> opt_all (obj_frag wa tm tx) ai = true ->
    forallb (obj_frag wa tm tx) (pad its ai nn) = true.
  Proof.
    intros Fi Fai. unfold pad. rewrite forallb_app, Fi. simpl.
    apply forallb_forall. intros x Hx. apply repeat_spec in Hx. subst x.
    destruct ai; [exact Fai | reflexivity].
  Qed.

  Lemma combine_frag A B :
    forallb (obj_frag wa tm tx) A = true -> forallb (obj_frag wa tm tx) B = true ->
    forallb (fun pr => obj_frag wa tm tx (fst pr) && obj_frag wa tm tx (snd pr)) (combine A B) = true.
  Proof.
    revert B. induction A as [|x A IH]; intros [|y B] FA FB; simpl in *; try reflexivity.
    apply andb_true_iff in FA. destruct FA as [Fx FA]. apply andb_true_iff in FB. destruct FB as [Fy FB].
    rewrite Fx, Fy. simpl. apply IH; assumption.
  Qed.

  Lemma merge_arr_ext ik items ai mni mxi uq ik' items' ai' mni' mxi' uq' :
    shape_b wa tm ik items ai = true -> shape_b wa tm ik' items' ai' = true ->
    forallb (obj_frag wa tm tx) items = true -> forallb (obj_frag wa tm tx) items' = true ->
    opt_all (obj_frag wa tm tx) ai = true -> opt_all (obj_frag wa tm tx) ai' = true ->
    mdef (merge_arr g (ik, items, ai, mni, mxi, uq) (ik', items', ai', mni', mxi', uq')) = true ->
    merge_arr g' (ik, items, ai, mni, mxi, uq) (ik', items', ai', mni', mxi', uq')
    = merge_arr g (ik, items, ai, mni, mxi, uq) (ik', items', ai', mni', mxi', uq').
  Proof.
    intros Sa Sb Fa Fb Fai Fai'. unfold merge_arr. cbv beta iota zeta.
    destruct (arr_absent ik ai mni mxi uq); [reflexivity|].
    destruct (arr_absent ik' ai' mni' mxi' uq'); [reflexivity|].
    destruct (min_gt_max (choose N.max mni mni') (choose N.min mxi mxi')); [reflexivity|].
    destruct (shape_cases' wa tm _ _ _ Sa) as [(-> & -> & ->)|[(-> & [s ->] & -> & Hw & Ht)|(-> & Hw & Ht)]];
    destruct (shape_cases' wa tm _ _ _ Sb) as [(-> & -> & ->)|[(-> & [s' ->] & -> & Hw' & Ht')|(-> & Hw' & Ht')]];
      try congruence; try reflexivity.
    - (* single / single *)
      simpl in Fa, Fb. rewrite andb_true_r in Fa, Fb. intros H.
      apply mbind_ext; [|reflexivity|exact H]. intros Hd. apply Gext; assumption.
    - (* tuple / tuple *)
      intros H. apply mbind_ext; [| |exact H].
      + intros Hd. apply items_loop_ext; [|exact Hd].
        apply combine_frag; apply pad_frag; assumption.
      + intros r _ H2. destruct (snd r); [|reflexivity].
        apply mbind_ext; [|reflexivity|exact H2].
        destruct ai, ai'; try reflexivity; intros Hd; apply merge_ap_ext; assumption.
  Qed.
End Ext.


Section FuelStable.
  Variable wa tm : bool.
  Variable tx : itype.
  Hypothesis Htx : tx_ok tx.
  Variable D : defs.

  (* any instantiation of the validity side will do: only the closure part of the exactness theorem is used *)
  Local Notation nr := (fun _ _ : ustring => false).
  Local Notation exact_at f := (merge_frag_exact nr nr draft07 [] 0 wa tm tx Htx D f).

  Lemma merge_closed f x y m :
    obj_frag wa tm tx x = true -> obj_frag wa tm tx y = true -> merge D f x y = MOk m -> obj_frag wa tm tx m = true.
  Proof. intros Fx Fy E. pose proof (exact_at f x y Fx Fy) as H. rewrite E in H. apply H. Qed.

  Lemma body_frag f ty enum cst ik items ai mni mxi uq props req ap mnp mxp
        ty' enum' cst' nv' sv' ik' items' ai' mni' mxi' uq' props' req' ap' mnp' mxp'
        tym ikm itm aim mnim mxim uqm pm rm apm mnm mxm em :
    notype tx ty = true -> notype tx ty' = true ->
    simple_enum enum = true -> opt_all simple_json cst = true ->
    simple_enum enum' = true -> opt_all simple_json cst' = true ->
    numv_is_none nv' = true -> strv_is_none sv' = true ->
    shape_b wa tm ik items ai = true -> shape_b wa tm ik' items' ai' = true ->
    zero_ok tm mni mxi = true -> zero_ok tm mni' mxi' = true ->
    (arr_absent ik ai mni mxi uq || (wa && all_array ty) = true) ->
    (arr_absent ik' ai' mni' mxi' uq' || (wa && all_array ty') = true) ->
    forallb (obj_frag wa tm tx) items = true -> forallb (obj_frag wa tm tx) items' = true ->
    opt_all (obj_frag wa tm tx) ai = true -> opt_all (obj_frag wa tm tx) ai' = true ->
    (obj_absent props req ap mnp mxp || all_object ty = true) ->
    (obj_absent props' req' ap' mnp' mxp' || all_object ty' = true) ->
    uniq_keys props = true -> uniq_keys props' = true ->
    forallb (fun kv => obj_frag wa tm tx (snd kv)) props = true ->
    forallb (fun kv => obj_frag wa tm tx (snd kv)) props' = true ->
    opt_all (obj_frag wa tm tx) ap = true -> opt_all (obj_frag wa tm tx) ap' = true ->
    merge_ty ty ty' = Some tym ->
    merge_arr (merge D f) (ik, items, ai, mni, mxi, uq) (ik', items', ai', mni', mxi', uq')
      = MOk (ikm, itm, aim, mnim, mxim, uqm) ->
    merge_obj (merge D f) (props, req, ap, mnp, mxp) (props', req', ap', mnp', mxp') = MOk (pm, rm, apm, mnm, mxm) ->
    merge_enum enum cst enum' cst' = MOk em ->
    obj_frag wa tm tx (SObj tym None em None nv' sv' ikm itm aim mnim mxim uqm pm rm apm mnm mxm None
                            None None None None None None) = true.
  Proof.
    intros Nt Nt' Se Sc Se' Sc' Hn' Hs' Sh Sh' Zo Zo' Gaa Gab Fi Fi' Fai Fai' Ga Gb Ua Ub Fp Fp' Fap Fap' Et Ea Eo Ee.
    pose proof (merge_obj_exact nr nr draft07 [] 0 wa tm tx (merge D f) (exact_at f)
                                props req ap mnp mxp props' req' ap' mnp' mxp' Fp Fp' Fap Fap' Ua Ub) as Hobj.
    pose proof (merge_arr_exact nr nr draft07 [] 0 wa tm tx (merge D f) (exact_at f)
                                ik items ai mni mxi uq ik' items' ai' mni' mxi' uq' Sh Sh' Zo Zo' Fi Fi' Fai Fai') as Harr.
    rewrite Eo in Hobj. rewrite Ea in Harr.
    destruct Hobj as (Fpm & Am & Upm & Habs & _). destruct Harr as (Shm & Zom & Fim & Faim & Habsa & _).
    pose proof (merge_ty_exact tx draft07 ty ty' JNull Htx Nt Nt') as Hty. rewrite Et in Hty. destruct Hty as [Ntm _].
    pose proof (merge_enum_simple _ _ _ _ _ Ee Se Sc Se' Sc') as Sem.
    apply frag_build; try assumption; try reflexivity.
    - apply orb_true_iff in Gaa. apply orb_true_iff in Gab. apply orb_true_iff.
      destruct Gaa as [Gaa|Gaa].
      + destruct Gab as [Gab|Gab].
        * left. apply Habsa; assumption.
        * right. apply andb_true_iff in Gab. destruct Gab as [-> Gab]. simpl. eapply merge_ty_all_array; eauto.
      + right. apply andb_true_iff in Gaa. destruct Gaa as [-> Gaa]. simpl. eapply merge_ty_all_array; eauto.
    - apply orb_true_iff in Ga. apply orb_true_iff in Gb. apply orb_true_iff.
      destruct Ga as [Ga|Ga].
      + destruct Gb as [Gb|Gb].
        * left. apply Habs; assumption.
        * right. eapply merge_ty_all_object; eauto.
      + right. eapply merge_ty_all_object; eauto.
  Qed.

  Lemma with_allof_closed f so allo m1 :
    obj_frag wa tm tx so = true -> opt_all (forallb (obj_frag wa tm tx)) allo = true ->
    with_allof (merge D f) so allo = MOk m1 -> obj_frag wa tm tx m1 = true.
  Proof.
    intros Fso Fal E.
    pose proof (with_allof_exact nr nr draft07 [] 0 wa tm tx (merge D f) (exact_at f) so allo
                                 (fun v => validx nr nr draft07 [] 0 so v)
                                 (conj Fso (fun v _ => eq_refl)) Fal) as H.
    rewrite E in H. apply H.
  Qed.

  Theorem merge_fuel_step : forall f a b,
    obj_frag wa tm tx a = true -> obj_frag wa tm tx b = true ->
    mdef (merge D f a b) = true -> merge D (S f) a b = merge D f a b.
  Proof.
    induction f as [|f IH]; intros a b Fa Fb H; [discriminate H|].
    destruct a as [ba|ty fmt enum cst nv sv ik items ai mni mxi uq props req ap mnp mxp allo anyo oneo no ref d t].
    { destruct ba; destruct b as [[|]|]; reflexivity. }
    destruct b as [[|]|ty' fmt' enum' cst' nv' sv' ik' items' ai' mni' mxi' uq' props' req' ap' mnp' mxp' allo' anyo' oneo' no' ref' d' t'];
      [reflexivity | reflexivity |].
    pose proof (frag_shape wa tm tx _ _ _ _ _ _ _ _ _ _ _ _ _ _ _ _ _ _ _ _ _ _ _ _ Fa) as Sa.
    pose proof (frag_shape wa tm tx _ _ _ _ _ _ _ _ _ _ _ _ _ _ _ _ _ _ _ _ _ _ _ _ Fb) as Sb.
    destruct Sa as (-> & -> & -> & -> & -> & Nt & Se & Sc & Hn & Hs & Sh & Zo & Gaa & Fi & Fai & Ga & Ua & Fp & Fap & Fal).
    destruct Sb as (-> & -> & -> & -> & -> & Nt' & Se' & Sc' & Hn' & Hs' & Sh' & Zo' & Gab & Fi' & Fai' & Gb & Ub & Fp' & Fap' & Fal').
    rewrite (merge_frag_eq D (S f)). rewrite (merge_frag_eq D f) in H |- *.
    set (g := merge D f) in *. set (g' := merge D (S f)) in *.
    assert (Gfrag : forall x y m, obj_frag wa tm tx x = true -> obj_frag wa tm tx y = true ->
                                  g x y = MOk m -> obj_frag wa tm tx m = true)
      by (intros x y m; apply merge_closed).
    assert (Gext : forall x y, obj_frag wa tm tx x = true -> obj_frag wa tm tx y = true ->
                               mdef (g x y) = true -> g' x y = g x y)
      by (intros x y Fx Fy Hd; apply IH; assumption).
    destruct (merge_ty ty ty') as [tym|] eqn:Et; [|reflexivity].
    rewrite (merge_nv_none nv nv' Hn), (merge_sv_none sv sv' Hs) in *. cbn [mbind] in *.
    apply mbind_ext; [| |exact H].
    { intros Hd. apply (merge_arr_ext wa tm tx g g' Gext); assumption. }
    intros [[[[[ikm itm] aim] mnim] mxim] uqm] Ea H2.
    apply mbind_ext; [| |exact H2].
    { intros Hd. apply (merge_obj_ext wa tm tx g g' Gext); assumption. }
    intros [[[[pm rm] apm] mnm] mxm] Eo H3.
    apply mbind_ext; [reflexivity| |exact H3].
    intros em Ee H4.
    assert (Fbody : obj_frag wa tm tx (SObj tym None em None nv' sv' ikm itm aim mnim mxim uqm pm rm apm mnm mxm None
                                            None None None None None None) = true).
    { eapply (body_frag f ty enum cst ik items ai mni mxi uq props req ap mnp mxp
                        ty' enum' cst' nv' sv' ik' items' ai' mni' mxi' uq' props' req' ap' mnp' mxp'); eassumption. }
    apply mbind_ext; [| |exact H4].
    { intros Hd. apply (with_allof_ext wa tm tx g g' Gfrag Gext); assumption. }
    intros m1 E1 H5.
    apply mbind_ext; [|reflexivity|exact H5].
    intros Hd. apply (with_allof_ext wa tm tx g g' Gfrag Gext); try assumption.
    exact (with_allof_closed f _ allo m1 Fbody Fal E1).
  Qed.

  Theorem merge_fuel_stable f f' a b :
    f <= f' -> obj_frag wa tm tx a = true -> obj_frag wa tm tx b = true ->
    mdef (merge D f a b) = true -> merge D f' a b = merge D f a b.
  Proof.
    intros Hle Fa Fb Hd. induction Hle as [|k Hle IH]; [reflexivity|].
    rewrite <- IH. apply merge_fuel_step; try assumption. rewrite IH. exact Hd.
  Qed.

  Theorem merge_all_fuel_stable f f' L :
    f <= f' -> forallb (obj_frag wa tm tx) L = true ->
    mdef (merge_all D f L) = true -> merge_all D f' L = merge_all D f L.
  Proof.
    intros Hle HF Hd. destruct L as [|a [|b rest]]; try reflexivity.
    cbn [merge_all] in *. simpl in HF. apply andb_true_iff in HF. destruct HF as [Fa HF].
    apply andb_true_iff in HF. destruct HF as [Fb HF].
    assert (Gext : forall x y, obj_frag wa tm tx x = true -> obj_frag wa tm tx y = true ->
                               mdef (merge D f x y) = true -> merge D f' x y = merge D f x y)
      by (intros x y Fx Fy Hxy; apply merge_fuel_stable; assumption).
    assert (Hab : mdef (merge D f a b) = true).
    { destruct (mdef (merge D f a b)) eqn:E; [reflexivity|].
      rewrite (fold_undef (merge D f) rest _ E) in Hd. discriminate Hd. }
    rewrite (Gext a b Fa Fb Hab).
    apply (fold_ext wa tm tx (merge D f) (merge D f')); try assumption.
    - intros x y m Fx Fy E. exact (merge_closed f x y m Fx Fy E).
    - intros x E. exact (merge_closed f a b x Fa Fb E).
  Qed.
End FuelStable.

Lemma mdef_defined (r : mres schema) : mdef r = defined r.
Proof. destruct r; reflexivity. Qed.

(* permutation equivalence with independent fuels: whenever both outcomes are defined, at whatever fuels *)
Theorem merge_all_perm_equiv_fuels re_match fmt_ok o DV n wa tm tx D f f' L L' v :
  tx_ok tx -> Permutation L L' -> forallb (obj_frag wa tm tx) L = true ->
  defined (merge_all D f L) = true -> defined (merge_all D f' L') = true -> inst_ok wa v = true ->
  inst_set re_match fmt_ok o DV n (merge_all D f L) v = inst_set re_match fmt_ok o DV n (merge_all D f' L') v.
Proof.
  intros Htx HP HF D1 D2 Wv.
  assert (HF' : forallb (obj_frag wa tm tx) L' = true) by (rewrite <- (forallb_perm _ _ _ HP); exact HF).
  rewrite <- mdef_defined in D1, D2.
  pose proof (merge_all_fuel_stable wa tm tx Htx D f (Nat.max f f') L (Nat.le_max_l f f') HF D1) as E1.
  pose proof (merge_all_fuel_stable wa tm tx Htx D f' (Nat.max f f') L' (Nat.le_max_r f f') HF' D2) as E2.
  rewrite <- E1, <- E2.
  apply (merge_all_perm_equiv_frag re_match fmt_ok o DV n wa tm tx Htx D (Nat.max f f') L L' v HP HF); try exact Wv.
  - rewrite E1, <- mdef_defined. exact D1.
  - rewrite E2, <- mdef_defined. exact D2.
Qed.

(* ====================================================================== merge_so_format is exact on the asserted
   string formats, for every format recogniser that satisfies the lattice ip >= ipv4, ipv6 and the pairwise
   disjointness of unrelated formats (component lemma: formats are not part of [obj_frag]) *)
Section FormatExact.
  Variable re_match : ustring -> ustring -> bool.
  Variable fmt_ok : ustring -> ustring -> bool.
  Hypothesis Hsub4 : forall s, fmt_ok f_ipv4 s = true -> fmt_ok f_ip s = true.
  Hypothesis Hsub6 : forall s, fmt_ok f_ipv6 s = true -> fmt_ok f_ip s = true.
  Hypothesis Hdisj : forall x y s, is_string_format x = true -> is_string_format y = true ->
                                   fmt_related x y = false -> fmt_ok x s = true -> fmt_ok y s = true -> False.

  Local Notation vf := (Valid.valid_format fmt_ok).

  Lemma vf_string_format o x s : is_string_format x = true -> vf o (Some x) (JStr s) = fmt_ok x s.
  Proof.
    intros H. unfold Valid.valid_format. rewrite H.
    assert (E : int_format_range x = None).
    { unfold is_string_format in H. apply mem_ustr_In in H. unfold string_format_names in H. simpl in H.
      destruct H as [<-|[<-|[<-|[<-|[<-|[<-|[]]]]]]]; reflexivity. }
    rewrite E. reflexivity.
  Qed.

  Theorem merge_fmt_exact o fa fb s :
    asserted fa = true -> asserted fb = true ->
    match merge_fmt fa fb with
    | Some f => asserted f = true /\ vf o f (JStr s) = vf o fa (JStr s) && vf o fb (JStr s)
    | None => vf o fa (JStr s) && vf o fb (JStr s) = false
    end.
  Proof.
    destruct fa as [x|], fb as [y|]; simpl asserted; intros Ax Ay; unfold merge_fmt.
    - rewrite !(vf_string_format o) by assumption.
      destruct (ustr_eqb x f_ip && (ustr_eqb y f_ipv4 || ustr_eqb y f_ipv6)) eqn:T1.
      + split; [exact Ay|]. rewrite (vf_string_format o y s Ay).
        apply andb_true_iff in T1. destruct T1 as [Ex Ey]. apply m_ustr_eqb_eq in Ex. subst x.
        destruct (fmt_ok y s) eqn:Fy; [|symmetry; apply andb_false_r]. rewrite andb_true_r. symmetry.
        apply orb_true_iff in Ey. destruct Ey as [Ey|Ey]; apply m_ustr_eqb_eq in Ey; subst y; auto.
      + destruct (ustr_eqb y f_ip && (ustr_eqb x f_ipv4 || ustr_eqb x f_ipv6)) eqn:T2.
        * split; [exact Ax|]. rewrite (vf_string_format o x s Ax).
          apply andb_true_iff in T2. destruct T2 as [Ey Ex]. apply m_ustr_eqb_eq in Ey. subst y.
          destruct (fmt_ok x s) eqn:Fx; [|reflexivity]. simpl. symmetry.
          apply orb_true_iff in Ex. destruct Ex as [Ex|Ex]; apply m_ustr_eqb_eq in Ex; subst x; auto.
        * destruct (ustr_eqb x y) eqn:T3.
          -- split; [exact Ax|]. rewrite (vf_string_format o x s Ax). apply m_ustr_eqb_eq in T3. subst y.
             destruct (fmt_ok x s); reflexivity.
          -- destruct (fmt_ok x s) eqn:Fx, (fmt_ok y s) eqn:Fy; try reflexivity.
             exfalso. apply (Hdisj x y s Ax Ay); [|exact Fx|exact Fy]. unfold fmt_related. rewrite T1, T2, T3. reflexivity.
    - split; [exact Ax|]. simpl. rewrite andb_true_r. reflexivity.
    - split; [exact Ay|]. reflexivity.
    - split; reflexivity.
  Qed.
End FormatExact.
