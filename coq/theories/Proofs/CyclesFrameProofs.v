(* C07 — part 2: the frame property (d) and minimality (c) of break_cycles,
   relative to the INPUT space s0. *)
From Coq Require Import NArith List Bool String Lia Relations Relation_Operators Operators_Properties.
From Typify Require Import Algo.Cycles Proofs.CyclesProofs.
Import ListNotations.
Open Scope N_scope.

Lemma t_rt_t : forall g y z,
    clos_refl_trans N (edge g) y z -> forall a, clos_trans N (edge g) a y -> clos_trans N (edge g) a z.
Proof.
  induction 1 as [y z H|y|y w z _ IH1 _ IH2]; intros a Ha.
  - eapply t_trans; [eassumption|apply t_step; assumption].
  - assumption.
  - apply IH2. apply IH1. assumption.
Qed.

Lemma edge_rt_cyclic : forall g n c,
    edge g n c -> clos_refl_trans N (edge g) c n -> cyclic g n.
Proof.
  intros g n c He Hrt. unfold cyclic. apply (t_rt_t g c n Hrt). apply t_step. assumption.
Qed.

Lemma last_In : forall (l : list N) d, l <> [] -> In (last l d) l.
Proof.
  induction l as [|a l IH]; intros d Hne; [congruence|].
  destruct l as [|b l]; [left; reflexivity|].
  right. apply IH. discriminate.
Qed.

Lemma space_eta : forall s, mkSpace (sp_g s) (sp_bidx s) (sp_next s) = s.
Proof. intros []. reflexivity. Qed.

Lemma map_children_apply_nil : forall nd, map_children (apply_replace []) nd = nd.
Proof. intros nd. apply map_children_id. intros c _. reflexivity. Qed.

(* extra facts about the Start step, derived from start_step_spec *)
Lemma start_step_extra : forall s act id nd snip descend s1 repl,
    wf s ->
    lookup (sp_g s) id = Some nd ->
    partition (fun c => mem c act) (children nd) = (snip, descend) ->
    make_replace s snip = (s1, repl) ->
    let s2 := start_space s1 id repl nd in
    (forall b t, lookup (sp_g s) b = Some (NBox t) -> lookup (sp_g s2) b = Some (NBox t)) /\
    (forall n, lookup (sp_g s) n = None ->
               lookup (sp_g s2) n = None \/ exists t, lookup (sp_g s2) n = Some (NBox t)) /\
    (forall n, n <> id -> lookup (sp_g s) n <> None -> lookup (sp_g s2) n = lookup (sp_g s) n) /\
    lookup (sp_g s2) id = Some (map_children (apply_replace repl) nd) /\
    (snip = [] -> s2 = s) /\
    sp_next s <= sp_next s2.
Proof.
  intros s act id nd snip descend s1 repl Hwf Hl Hp Hm s2.
  destruct (start_step_spec _ _ _ _ _ _ _ _ Hwf Hl Hp Hm)
    as [Hl1 [Hwf2 [Hext [Hneq _]]]].
  fold s2 in Hwf2, Hneq.
  destruct Hext as [A [B C]].
  assert (E4 : lookup (sp_g s2) id = Some (map_children (apply_replace repl) nd)).
  { unfold s2, start_space. cbn [sp_g]. apply lookup_set_eq. }
  split; [|split; [|split; [|split; [assumption|split]]]].
  - intros b t Hb. destruct (N.eq_dec b id) as [->|Hne].
    + rewrite E4. rewrite Hl in Hb. injection Hb as ->. reflexivity.
    + rewrite Hneq by assumption. rewrite A; [assumption|]. rewrite Hb. discriminate.
  - intros n Hn. assert (Hne : n <> id) by (intros ->; congruence).
    rewrite Hneq by assumption. apply B. assumption.
  - intros n Hne Hn. rewrite Hneq by assumption. apply A. assumption.
  - intros ->. unfold make_replace in Hm. cbn [fold_left] in Hm. injection Hm as <- <-.
    unfold s2, start_space. rewrite map_children_apply_nil.
    rewrite lookup_set_same by assumption. apply space_eta.
  - unfold s2, start_space. cbn [sp_next]. assumption.
Qed.

Section Frame.
  Variable s0 : space.
  Variable allroots : list N.

  Definition Rch (n : N) : Prop :=
    exists r, In r allroots /\ clos_refl_trans N (edge (sp_g s0)) r n.

  (* slot c of node n, re-pointed by f *)
  Definition slot_ok (g : graph) (n : N) (f : N -> N) (c : N) : Prop :=
    f c = c \/
    (lookup g (f c) = Some (NBox c) /\ clos_refl_trans N (edge (sp_g s0)) c n /\ Rch n).

  Definition has_cycle : Prop :=
    exists n c, Rch n /\ edge (sp_g s0) n c /\ clos_refl_trans N (edge (sp_g s0)) c n.

  Definition rel (s : space) (vis : list N) : Prop :=
    wf s /\
    (forall n, lookup (sp_g s0) n = None ->
               lookup (sp_g s) n = None \/ exists t, lookup (sp_g s) n = Some (NBox t)) /\
    (forall n nd, lookup (sp_g s0) n = Some nd -> mem n vis = false -> lookup (sp_g s) n = Some nd) /\
    (forall n nd, lookup (sp_g s0) n = Some nd ->
                  exists f, lookup (sp_g s) n = Some (map_children f nd) /\
                            forall c, In c (children nd) -> slot_ok (sp_g s) n f c) /\
    sp_next s0 <= sp_next s /\
    (s = s0 \/ has_cycle).

  Fixpoint chain (st : list frame) : Prop :=
    match st with
    | [] => True
    | f :: rest =>
        (match f with
         | Processing p pend => forall c, In c pend -> edge (sp_g s0) p c
         | Start _ => True
         end) /\
        (match rest with
         | [] => True
         | f2 :: _ => edge (sp_g s0) (frame_id f2) (frame_id f)
         end) /\
        chain rest
    end.

  Lemma chain_reach : forall rest f x,
      chain (f :: rest) -> In x (ids (f :: rest)) ->
      clos_refl_trans N (edge (sp_g s0)) x (frame_id f).
  Proof.
    induction rest as [|f2 rest IH]; intros f x Hc Hx.
    - destruct Hx as [<-|[]]. apply rt_refl.
    - cbn [ids map In] in Hx. destruct Hx as [<-|Hx]; [apply rt_refl|].
      cbn [chain] in Hc. destruct Hc as [_ [He Hc]].
      eapply rt_trans; [|apply rt_step; exact He].
      apply IH; assumption.
  Qed.

  Record FInv (root : N) (d : dfs) : Prop := {
    f_rel : rel (d_sp d) (d_visited d);
    f_active : forall x, mem x (d_active d) = true -> In x (ids (d_stack d));
    f_chain : chain (d_stack d);
    f_last : last (ids (d_stack d)) root = root;
    f_root : In root allroots
  }.

  Lemma step_finv : forall root d d',
      FInv root d -> step d = Next d' -> FInv root d'.
  Proof.
    intros root [s vis act st] d' HI Hs.
    destruct HI as [Hrel Hact Hchain Hlast Hroot]. cbn [d_sp d_visited d_active d_stack] in *.
    unfold step in Hs. cbn [d_sp d_visited d_active d_stack] in Hs.
    destruct st as [|[id|id pend] rest]; [discriminate| |].
    - destruct (mem id vis) eqn:Ev.
      + destruct (mem id act) eqn:Ea; [|discriminate]. injection Hs as <-.
        constructor; cbn [d_sp d_visited d_active d_stack]; try assumption.
        cbn [chain] in *. destruct Hchain as [_ [H2 H3]]. split; [intros c []|]. split; assumption.
      + destruct (mem id act) eqn:Ea; cbn [negb] in Hs; [|discriminate].
        destruct (lookup (sp_g s) id) as [nd|] eqn:El; [|discriminate].
        destruct (partition (fun c => mem c act) (children nd)) as [snip descend] eqn:Ep.
        destruct (make_replace s snip) as [s1 repl] eqn:Em.
        destruct Hrel as [Hwf [Hnew [Hunv [Hslots [Hnext Hcyc]]]]].
        destruct (start_step_spec _ _ _ _ _ _ _ _ Hwf El Ep Em)
          as [Hl1 [Hwf2 [Hext [Hneq [Hch [Hchid [Hsn [Hds [Hdesc Hsnip]]]]]]]]].
        destruct (start_step_extra _ _ _ _ _ _ _ _ Hwf El Ep Em)
          as [E1 [E2 [E3 [E4 [E5 E6]]]]].
        rewrite Hl1 in Hs. injection Hs as <-.
        fold (start_space s1 id repl nd).
        set (s2 := start_space s1 id repl nd) in *.
        assert (Hreach_id : forall x, In x (ids (Start id :: rest)) ->
                                      clos_refl_trans N (edge (sp_g s0)) x id).
        { intros x Hx. apply (chain_reach rest (Start id) x); assumption. }
        assert (HRid : Rch id).
        { exists root. split; [assumption|]. apply Hreach_id.
          rewrite <- Hlast at 1. apply last_In. discriminate. }
        constructor; cbn [d_sp d_visited d_active d_stack]; try assumption.
        * split; [assumption|]. split; [|split; [|split; [|split]]].
          -- intros n Hn. destruct (Hnew n Hn) as [H|[t H]]; [apply E2; assumption|].
             right. exists t. apply E1. assumption.
          -- intros n nd0 Hn0 Hv.
             assert (Hne : n <> id).
             { intros ->. rewrite (proj2 (mem_insert id id vis)) in Hv; [discriminate|left; reflexivity]. }
             assert (Hv0 : mem n vis = false).
             { destruct (mem n vis) eqn:E; [|reflexivity].
               rewrite (proj2 (mem_insert id n vis)) in Hv; [discriminate|right; assumption]. }
             rewrite E3; [apply Hunv; assumption|assumption|].
             rewrite (Hunv _ _ Hn0 Hv0). discriminate.
          -- intros n nd0 Hn0. destruct (N.eq_dec n id) as [->|Hne].
             ++ pose proof (Hunv _ _ Hn0 Ev) as Hnd. rewrite El in Hnd. injection Hnd as ->.
                exists (apply_replace repl). split; [assumption|].
                intros c Hc. destruct (mem c act) eqn:Eca.
                ** right. split; [apply Hsn; assumption|]. split; [|assumption].
                   apply Hreach_id. apply Hact. assumption.
                ** left. apply Hds. assumption.
             ++ destruct (Hslots _ _ Hn0) as [f [Hf Hsl]]. exists f. split.
                ** rewrite E3; [assumption|assumption|]. rewrite Hf. discriminate.
                ** intros c Hc. destruct (Hsl c Hc) as [H|[H1 H2]]; [left; assumption|].
                   right. split; [apply E1; assumption|assumption].
          -- lia.
          -- destruct snip as [|c0 snip'].
             ++ rewrite E5 by reflexivity. assumption.
             ++ right. assert (Hc0 : In c0 (children nd) /\ mem c0 act = true).
                { apply Hsnip. left. reflexivity. }
                destruct Hc0 as [Hc0 Hc0a].
                destruct (lookup (sp_g s0) id) as [nd0|] eqn:E0.
                ** pose proof (Hunv _ _ E0 Ev) as Hnd. rewrite El in Hnd. injection Hnd as ->.
                   exists id, c0. split; [assumption|]. split.
                   --- unfold edge, children_of. rewrite E0. assumption.
                   --- apply Hreach_id. apply Hact. assumption.
                ** exfalso. destruct (Hnew id E0) as [H|[t H]]; rewrite El in H; [discriminate|].
                   injection H as ->. destruct Hc0.
        * cbn [chain] in *. destruct Hchain as [_ [H2 H3]]. split; [|split; assumption].
          intros c Hc. apply in_rev in Hc. apply Hdesc in Hc. destruct Hc as [Hc Hca].
          destruct (lookup (sp_g s0) id) as [nd0|] eqn:E0.
          -- pose proof (Hunv _ _ E0 Ev) as Hnd. rewrite El in Hnd. injection Hnd as ->.
             unfold edge, children_of. rewrite E0. assumption.
          -- exfalso. destruct (Hnew id E0) as [H|[t H]]; rewrite El in H; [discriminate|].
             injection H as ->. destruct Hc.
    - cbn [chain] in Hchain. destruct Hchain as [Hpend [Hlink Hchain]].
      destruct pend as [|c pend'].
      + injection Hs as <-.
        constructor; cbn [d_sp d_visited d_active d_stack]; try assumption.
        * intros x Hx. apply mem_In in Hx. apply remove_In in Hx. destruct Hx as [Hx Hne].
          apply mem_In in Hx. apply Hact in Hx. cbn [ids map frame_id In] in Hx.
          destruct Hx as [Hx|Hx]; [congruence|assumption].
        * cbn [ids map frame_id] in Hlast. destruct rest as [|f2 rest2]; [reflexivity|].
          exact Hlast.
      + injection Hs as <-.
        constructor; cbn [d_sp d_visited d_active d_stack]; try assumption.
        * intros x Hx. apply mem_insert in Hx. destruct Hx as [->|Hx]; [left; reflexivity|].
          right. apply Hact. assumption.
        * cbn [chain]. split; [exact I|]. split; [|split; [|split; assumption]].
          -- cbn [frame_id]. apply Hpend. left. reflexivity.
          -- intros c0 Hc0. apply Hpend. right. assumption.
  Qed.

  Lemma run_finv : forall fuel root d d',
      FInv root d -> run fuel d = Done d' -> FInv root d'.
  Proof.
    induction fuel as [|f IH]; intros root d d' HI Hr; cbn [run] in Hr.
    - discriminate.
    - destruct (step d) as [|d1|m] eqn:Es.
      + injection Hr as <-. assumption.
      + apply (IH root d1 d'); [|assumption]. eapply step_finv; eassumption.
      + discriminate.
  Qed.

  Lemma outer_rel : forall fuel roots s vis s' vis',
      incl roots allroots ->
      rel s vis -> outer fuel roots s vis = Done (s', vis') -> rel s' vis'.
  Proof.
    intros fuel roots. induction roots as [|r rs IH]; intros s vis s' vis' Hincl Hrel H; cbn [outer] in H.
    - injection H as <- <-. assumption.
    - assert (Hincl' : incl rs allroots) by (intros x Hx; apply Hincl; right; assumption).
      destruct (mem r vis) eqn:Er.
      + apply (IH _ _ _ _ Hincl' Hrel H).
      + destruct (run fuel (mkDfs s vis (insert r []) [Start r])) as [d| |] eqn:Erun; try discriminate.
        assert (HI : FInv r (mkDfs s vis (insert r []) [Start r])).
        { constructor; cbn [d_sp d_visited d_active d_stack ids map frame_id]; try assumption.
          - intros x Hx. apply mem_insert in Hx. destruct Hx as [->|Hx]; [left; reflexivity|discriminate].
          - cbn [chain]. auto.
          - reflexivity.
          - apply Hincl. left. reflexivity. }
        pose proof (run_finv _ _ _ _ HI Erun) as [Hrel' _ _ _ _].
        apply (IH _ _ _ _ Hincl' Hrel' H).
  Qed.
End Frame.

Lemma rel_init : forall s roots, wf s -> rel s roots s [].
Proof.
  intros s roots Hwf. split; [assumption|]. split; [|split; [|split; [|split]]].
  - intros n Hn. left. assumption.
  - intros n nd Hn _. assumption.
  - intros n nd Hn. exists (fun c => c). split.
    + rewrite map_children_id; [assumption|reflexivity].
    + intros c _. left. reflexivity.
  - lia.
  - left. reflexivity.
Qed.

(* (d) frame property *)
Theorem break_cycles_frame : forall fuel s lo hi s',
    wf s -> break_cycles fuel s lo hi = Done s' ->
    (forall n, lookup (sp_g s) n = None ->
               lookup (sp_g s') n = None \/ exists t, lookup (sp_g s') n = Some (NBox t)) /\
    (forall n nd, lookup (sp_g s) n = Some nd ->
       exists f, lookup (sp_g s') n = Some (map_children f nd) /\
                 forall c, In c (children nd) ->
                           f c = c \/
                           (lookup (sp_g s') (f c) = Some (NBox c) /\
                            clos_refl_trans N (edge (sp_g s)) c n /\
                            reachable (sp_g s) lo hi n)) /\
    sp_next s <= sp_next s'.
Proof.
  intros fuel s lo hi s' Hwf H. unfold break_cycles in H.
  destruct (outer fuel (range lo hi) s []) as [[s1 vis1]| |] eqn:Eo; try discriminate.
  injection H as ->.
  pose proof (outer_rel s (range lo hi) fuel (range lo hi) s [] s' vis1 (incl_refl _)
                        (rel_init s (range lo hi) Hwf) Eo) as [_ [Hnew [_ [Hslots [Hnext _]]]]].
  split; [assumption|]. split; [|assumption].
  intros n nd Hn. destruct (Hslots n nd Hn) as [f [Hf Hsl]]. exists f. split; [assumption|].
  intros c Hc. destruct (Hsl c Hc) as [H|[H1 [H2 [r [Hr1 Hr2]]]]]; [left; assumption|].
  right. split; [assumption|]. split; [assumption|].
  exists r. split; [apply range_In; assumption|assumption].
Qed.

(* (c) minimality *)
Theorem break_cycles_minimal : forall fuel s lo hi s',
    wf s -> break_cycles fuel s lo hi = Done s' ->
    (forall n, reachable (sp_g s) lo hi n -> ~ cyclic (sp_g s) n) ->
    s' = s.
Proof.
  intros fuel s lo hi s' Hwf H Hac. unfold break_cycles in H.
  destruct (outer fuel (range lo hi) s []) as [[s1 vis1]| |] eqn:Eo; try discriminate.
  injection H as ->.
  pose proof (outer_rel s (range lo hi) fuel (range lo hi) s [] s' vis1 (incl_refl _)
                        (rel_init s (range lo hi) Hwf) Eo) as [_ [_ [_ [_ [_ Hcyc]]]]].
  destruct Hcyc as [H|[n [c [[r [Hr1 Hr2]] [He Hrt]]]]]; [assumption|].
  exfalso. apply (Hac n).
  - exists r. split; [apply range_In; assumption|assumption].
  - apply (edge_rt_cyclic _ _ _ He Hrt).
Qed.
