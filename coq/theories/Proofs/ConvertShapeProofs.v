(* Proofs/ConvertShapeProofs.v -- what the converter model (Algo/Convert.v)
   produces on the fragment, as a validator-independent SPECIFICATION:

   * [shape cls D T s t]: type [t] of the space [T] is the representation of
     schema [s] the fragment converter chooses (one clause per kind of
     Algo/Convert.v: scalars, string enums, structs with their members and the
     Required / Optional / Option-wrapping discipline, maps, arrays, references,
     nullable wrappers);
   * [space_ok]: every entry of the space has one of the fragment's shapes with
     children that exist (the closure the C03 class needs).

   [convert_shape]: for every document of the fragment, every definition's type
   has the shape of its schema (directly, or through an alias newtype), and the
   space is [space_ok].  The proofs that the proven validators of C02 / C05 /
   C03 accept such spaces are in ConvertExactProofs.v / ConvertRtProofs.v
   (and, for C02, ConvertProofs.v). *)
From Coq Require Import String ZArith NArith QArith List Bool Lia Permutation.
From Typify Require Import Base.Json Spec.Schema Spec.Valid IR.TypeIR IR.Serde Check.Covers.
From Typify Require Import Proofs.SerdeProofs.
From Typify Require Algo.Heck Algo.Sanitize Proofs.SanitizeProofs Check.RoundTrip.
From Typify Require Import Algo.Convert Proofs.ConvertProofs.
Import ListNotations.
Close Scope Q_scope.
Close Scope string_scope.
Open Scope list_scope.
Open Scope N_scope.

Definition AllP {X} (P : X -> Prop) : list X -> Prop :=
  fix go (l : list X) : Prop := match l with [] => True | x :: r => P x /\ go r end.

Lemma AllP_In {X} (P : X -> Prop) l : AllP P l <-> forall x, In x l -> P x.
Proof.
  induction l as [|a l IH]; cbn [AllP In].
  - split; [intros _ x []|intros _; exact I].
  - rewrite IH. split.
    + intros [H1 H2] x [<-|Hx]; [exact H1|exact (H2 x Hx)].
    + intro H. split; [apply H; left; reflexivity|intros x Hx; apply H; right; exact Hx].
Qed.

(* the kind of the schema a struct / tuple / unit entry came from *)
Definition te_kind (s : schema) (te : details) : Prop :=
  match te with
  | DStruct _ _ _ dn => classify_s s = Some (false, KStruct dn)
  | DTuple _ => classify_s s = Some (false, KTuple)
  | DUnit => classify_s s = Some (false, KNull)
  | _ => True
  end.

Definition AllP2 {X Y} (P : X -> Y -> Prop) : list X -> list Y -> Prop :=
  fix go (l : list X) (m : list Y) : Prop :=
    match l, m with
    | [], [] => True
    | x :: l', y :: m' => P x y /\ go l' m'
    | _, _ => False
    end.

Definition intrinsic (d : details) : bool :=
  match d with DOption _ | DVec _ | DMap _ _ | DUnit => true | _ => false end.

Definition mk_variants (raws ids : list ustring) : list variant :=
  map (fun p => mkVariant (fst p) (snd p) VSimple) (combine raws ids).

(* ------------------------------------------------------------------ the shape of a fragment type *)
Section Shape.
  Variable cls : Heck.CharClasses.
  Variable D : defs.
  Variable T : space.

  Definition has (t : id) (d : details) : Prop := get_det T t = Some d.

  Section Node.
    Variable sh : schema -> id -> Prop.

    (* struct member for the property kv = (key, schema) *)
    Definition member_sh (req : list ustring) (kv : ustring * schema) (p : prop) : Prop :=
      wire_name p = Some (fst kv) /\
      p_name p = fst (Sanitize.recase cls (fst kv) Sanitize.Snake) /\
      ((mem_ustr (fst kv) req = true /\ p_state p = PRequired /\ sh (snd kv) (p_ty p)) \/
       (mem_ustr (fst kv) req = false /\ p_state p = POptional /\
        ((sh (snd kv) (p_ty p) /\ exists d, has (p_ty p) d /\ intrinsic d = true) \/
         (exists t', has (p_ty p) (DOption t') /\ sh (snd kv) t' /\
                     forall d, has t' d -> intrinsic d = false)))).

    (* the members of a struct (or of a struct variant) for the properties of an object schema *)
    Definition struct_sh (props : list (ustring * schema)) (req : list ustring) (ps : list prop) : Prop :=
      NoDup (wire_names ps) /\ NoDup (map p_name ps) /\
      AllP (fun kv => exists p, In p ps /\ member_sh req kv p) props /\
      (forall p, In p ps -> exists kv, In kv props /\ wire_name p = Some (fst kv)).

    (* the data of the variant for the payload schema [sc] (enums.rs external_variant): a tuple or a struct is
       dissolved into the variant, anything else is a newtype variant; [deny] is the ENUM's flag *)
    Definition payload_sh (sc : schema) (deny : bool) (vd : vdetails) : Prop :=
      match vd with
      | VSimple => False
      | VItem t' => sh sc t'
      | VTuple ts =>
          classify_s sc = Some (false, KTuple) /\
          match sc with
          | SObj _ _ _ _ _ _ _ its _ _ _ _ _ _ _ _ _ _ _ _ _ _ _ _ => AllP2 sh its ts
          | SBool _ => False
          end
      | VStruct ps =>
          classify_s sc = Some (false, KStruct deny) /\
          match sc with
          | SObj _ _ _ _ _ _ _ _ _ _ _ _ bprops breq _ _ _ _ _ _ _ _ _ _ => struct_sh bprops breq ps
          | SBool _ => False
          end
      end.

    (* the members of a struct variant of an internally tagged enum: the properties other than the tag *)
    Definition struct_sh_skip (t : ustring) (props : list (ustring * schema)) (req : list ustring) (ps : list prop) : Prop :=
      NoDup (wire_names ps) /\ NoDup (map p_name ps) /\
      AllP (fun kv => ustr_eqb (fst kv) t = true \/ exists p, In p ps /\ member_sh req kv p) props /\
      (forall p, In p ps -> exists kv, In kv props /\ ustr_eqb (fst kv) t = false /\ wire_name p = Some (fst kv)).

    (* one branch of a tagged oneOf against the variants *)
    Definition branch_sh (tg : tagty) (vs : list variant) (deny : bool) (b : schema) : Prop :=
      match b with
      | SObj _ _ _ _ _ _ _ _ _ _ _ _ bprops breq bap _ _ _ _ _ _ _ _ _ =>
          match tg with
          | TagExternal =>
              match bprops with
              | [(v, sc)] => exists vr, In vr vs /\ v_raw vr = v /\ payload_sh sc deny (v_det vr)
              | _ => forall raws, xsimple b = Some raws ->
                     forall x, In x raws -> exists vr, In vr vs /\ v_raw vr = x /\ v_det vr = VSimple
              end
          | TagAdjacent t c =>
              match bprops with
              | [(k1, s1)] => forall x, cstr s1 = Some x -> exists vr, In vr vs /\ v_raw vr = x /\ v_det vr = VSimple
              | [(k1, s1); (k2, s2)] =>
                  if ustr_eqb k1 t
                  then forall x, cstr s1 = Some x -> exists vr, In vr vs /\ v_raw vr = x /\ payload_sh s2 deny (v_det vr)
                  else forall x, cstr s2 = Some x -> exists vr, In vr vs /\ v_raw vr = x /\ payload_sh s1 deny (v_det vr)
              | _ => True
              end
          | TagInternal t =>
              forall x, match assoc t bprops with Some ts => cstr ts | None => None end = Some x ->
              exists vr, In vr vs /\ v_raw vr = x /\
                match bprops with
                | [_] => v_det vr = VSimple
                | _ => exists ps, v_det vr = VStruct ps /\ struct_sh_skip t bprops breq ps /\
                                  deny = match bap with Some (SBool false) => true | _ => false end
                end
          | TagUntagged => exists vr, In vr vs /\ match v_det vr with VItem t' => sh b t' | _ => False end
          end
      | SBool _ => True
      end.

    Definition kshape (k : kind) (items : list schema) (props : list (ustring * schema))
               (req : list ustring) (ap : option schema) (oneo : option (list schema)) (t : id) : Prop :=
      match k with
      | KOpt =>
          match oneo with
          | Some (a :: b :: nil) => exists i, has t (DOption i) /\ (if nullish a then sh b i else sh a i)
          | _ => False
          end
      | KOne tg =>
          match oneo with
          | Some bs =>
              exists n vs deny bes names ids,
                has t (DEnum n None tg vs deny bes) /\
                variant_names tg bs = Some names /\ NoDup names /\
                Sanitize.variant_idents cls names = Sanitize.Ok ids /\
                map v_raw vs = names /\ map v_ident vs = ids /\
                AllP (branch_sh tg vs deny) bs
          | None => False
          end
      | KBool => has t DBoolean
      | KStr => has t DString
      | KNull => has t DUnit
      | KNum => has t (DFloat s_f64)
      | KInt r => has t (DInteger r)
      | KStrC mx mn pat => exists n sid, has t (DNewtype n None sid (CString mx mn pat)) /\ has sid DString
      | KEnum raws =>
          exists n ids, Sanitize.variant_idents cls raws = Sanitize.Ok ids /\
                        has t (DEnum n None TagExternal (mk_variants raws ids) false [AllSimpleVariants])
      | KStruct deny =>
          exists n ps, has t (DStruct n None ps deny) /\ struct_sh props req ps
      | KMap =>
          exists kid vid, has t (DMap kid vid) /\ has kid DString /\
                          match ap with
                          | None => has vid DJsonValue
                          | Some (SBool _) => has vid DJsonValue
                          | Some sa => sh sa vid
                          end
      | KTuple => exists ts, has t (DTuple ts) /\ AllP2 sh items ts
      | KVec c => exists i, has t (seq_det c i) /\ match items with [it] => sh it i | _ => False end
      | KVecAny c => exists i, has t (seq_det c i) /\ has i DJsonValue
      | KRef r => ref_id D r = Some t /\ exists d, has t d /\ det_name d <> None
      | KAny => has t DJsonValue
      end.
  End Node.

  Fixpoint shape (s : schema) {struct s} : id -> Prop :=
    match s with
    | SBool _ => fun _ => False
    | SObj ty fmt enum cst nv sv ik items ai mni mxi uq props req ap mnp mxp allo anyo oneo no ref dflt title =>
        fun t =>
        match classify ty fmt enum cst nv sv ik items ai mni mxi uq props req ap mnp mxp allo anyo oneo no ref dflt title with
        | None => False
        | Some (false, k) => kshape shape k items props req ap (union_of oneo anyo) t
        | Some (true, k) => exists i, has t (DOption i) /\ kshape shape k items props req ap (union_of oneo anyo) i
        end
    end.

  (* what a struct / tuple / unit type entry says about the schema it came from (needed where the
     entry is dissolved into an enum variant instead of being assigned an id) *)
  Definition payload_of (s : schema) (te : details) : Prop :=
    match te with
    | DStruct _ _ ps dn =>
        match s with
        | SObj _ _ _ _ _ _ _ _ _ _ _ _ bprops breq _ _ _ _ _ _ _ _ _ _ => struct_sh shape bprops breq ps
        | SBool _ => False
        end
    | DTuple ts =>
        match s with
        | SObj _ _ _ _ _ _ _ its _ _ _ _ _ _ _ _ _ _ _ _ _ _ _ _ => AllP2 shape its ts
        | SBool _ => False
        end
    | _ => True
    end.

  (* a definition: its schema's shape, or an alias newtype around it *)
  Definition topshape (s : schema) (t : id) : Prop :=
    (shape s t /\ exists d, has t d /\ det_name d <> None) \/
    (exists n i, has t (DNewtype n None i CNone) /\ shape s i).
End Shape.

(* ------------------------------------------------------------------ every entry is a fragment entry *)
Section Ok.
  Variable nD : N.      (* number of definitions: ids 1..nD are theirs *)

  Definition idok (look : id -> option entry) (t : id) : Prop :=
    (1 <= t /\ t <= nD) \/ exists e, look t = Some e.

  Definition not_option (e : entry) : Prop := match e_det e with DOption _ => False | _ => True end.

  Definition vdet_ok (look : id -> option entry) (vd : vdetails) : Prop :=
    match vd with
    | VSimple => True
    | VItem t => idok look t
    | VTuple ts => forall t, In t ts -> idok look t
    | VStruct ps => RoundTrip.props_ok ps = true /\ forall p, In p ps -> idok look (p_ty p)
    end.

  Definition det_ok (look : id -> option entry) (d : details) : Prop :=
    match d with
    | DStruct _ _ ps _ => RoundTrip.props_ok ps = true /\ forall p, In p ps -> idok look (p_ty p)
    | DEnum _ _ tag vs _ _ =>
        match tag with
        | TagExternal => forall v, In v vs -> vdet_ok look (v_det v)
        | TagAdjacent tg ct => ustr_eqb tg ct = false /\ forall v, In v vs -> vdet_ok look (v_det v)
        | TagInternal tg =>
            forall v, In v vs ->
            match v_det v with
            | VSimple => True
            | VStruct ps => vdet_ok look (VStruct ps) /\ mem_ustr tg (wire_names ps) = false
            | _ => False
            end
        | TagUntagged => forall v, In v vs -> vdet_ok look (v_det v)
        end
    | DOption t => idok look t /\ forall e, look t = Some e -> not_option e
    | DVec t | DSet t | DArray t _ => idok look t
    | DTuple ts => forall t, In t ts -> idok look t
    | DMap k v => (exists e, look k = Some e /\ e_det e = DString) /\ idok look v
    | DNewtype _ _ t c => match c with CNone | CString _ _ _ => idok look t | _ => False end
    | DUnit | DBoolean | DInteger _ | DFloat _ | DString | DJsonValue => True
    | _ => False
    end.

  (* all entries are fragment entries; the definitions' slots hold named types *)
  Definition ents_ok (look : id -> option entry) : Prop :=
    (forall i e, look i = Some e -> det_ok look (e_det e)) /\
    (forall i e, 1 <= i -> i <= nD -> look i = Some e -> det_name (e_det e) <> None).

  Definition te_ok (look : id -> option entry) (te : details) : Prop :=
    match te with
    | DReference i => 1 <= i /\ i <= nD
    | _ => det_ok look te
    end.

  Lemma named_not_option e : det_name (e_det e) <> None -> not_option e.
  Proof. unfold not_option. destruct (e_det e); try exact (fun _ => I). intro H. apply H. reflexivity. Qed.

  Lemma idok_mono look look' t :
    (forall i e, look i = Some e -> look' i = Some e) -> idok look t -> idok look' t.
  Proof. intros Hm [H|(e & H)]; [left; exact H|right; exists e; apply Hm; exact H]. Qed.

  Lemma det_ok_mono look look' d :
    (forall i e, look i = Some e -> look' i = Some e) ->
    (forall i e, 1 <= i -> i <= nD -> look' i = Some e -> det_name (e_det e) <> None) ->
    det_ok look d -> det_ok look' d.
  Proof.
    intros Hm Hdef.
    destruct d as [? ? tag ? ? ?|? ? ? ?|? ? t c|? ? ?|t|?|t|? ?|t|t ?|ts| | |?|?| | |?];
      cbn [det_ok]; try exact (fun H => H).
    - assert (Hvm : forall vd, vdet_ok look vd -> vdet_ok look' vd).
      { intros [|t|ts|ps]; cbn [vdet_ok]; [exact (fun H => H)|apply idok_mono; exact Hm| |].
        - intros H t Ht. eapply idok_mono; [exact Hm|exact (H t Ht)].
        - intros [H1 H2]. split; [exact H1|]. intros p Hp. eapply idok_mono; [exact Hm|exact (H2 p Hp)]. }
      destruct tag as [|tg|tg ct|]; try exact (fun H => H).
      4: { intros H v Hv. exact (Hvm _ (H v Hv)). }
      + intros H v Hv. exact (Hvm _ (H v Hv)).
      + intros H v Hv. specialize (H v Hv). destruct (v_det v) as [|t|ts|ps]; try exact H.
        destruct H as [H1 H2]. split; [exact (Hvm _ H1)|exact H2].
      + intros [H0 H]. split; [exact H0|]. intros v Hv. exact (Hvm _ (H v Hv)).
    - intros [H1 H2]. split; [exact H1|]. intros p Hp. eapply idok_mono; [exact Hm|apply H2; exact Hp].
    - destruct c; try exact (fun H => H); apply idok_mono; exact Hm.
    - intros [H1 H2]. split; [eapply idok_mono; eassumption|].
      intros e He. destruct H1 as [[Ha Hb]|(e0 & He0)].
      + apply named_not_option. exact (Hdef t e Ha Hb He).
      + pose proof (Hm _ _ He0) as He0'. rewrite He in He0'. injection He0' as ->. exact (H2 _ He0).
    - apply idok_mono. exact Hm.
    - intros [(e & He & Hd) H2]. split; [exists e; split; [apply Hm; exact He|exact Hd]|].
      eapply idok_mono; eassumption.
    - apply idok_mono. exact Hm.
    - apply idok_mono. exact Hm.
    - intros H t Ht. eapply idok_mono; [exact Hm|exact (H t Ht)].
  Qed.

  Lemma te_ok_mono look look' d :
    (forall i e, look i = Some e -> look' i = Some e) ->
    (forall i e, 1 <= i -> i <= nD -> look' i = Some e -> det_name (e_det e) <> None) ->
    te_ok look d -> te_ok look' d.
  Proof.
    intros Hm Hdef. destruct d; cbn [te_ok]; try (apply det_ok_mono; assumption). exact (fun H => H).
  Qed.
End Ok.

(* ------------------------------------------------------------------ assign keeps the entries well formed *)
Lemma frame_mono s s' : wf s -> frame s s' -> forall i e, lk s i = Some e -> lk s' i = Some e.
Proof. intros Hw Hf i e H. eapply frame_keeps; eassumption. Qed.

Lemma assign_new te s t s' :
  assign te s = (t, s') ->
  forall i e, lk s' i = Some e ->
  lk s i = Some e \/ (i = t /\ e = mkEntry te [] /\ match te with DReference _ => False | _ => True end).
Proof.
  intros Ha i e H.
  assert (Hgen : forall te0, te0 = te -> match te with DReference _ => False | _ => True end ->
    (match det_name te0 with
     | Some n =>
         match assoc n (st_names s) with
         | Some i => (i, s)
         | None => (st_next s, mkSt (st_next s + 1) (put (st_next s) (mkEntry te0 []) (st_ents s))
                                    ((n, st_next s) :: st_names s) (st_types s) (st_flags s))
         end
     | None =>
         match find_type te0 (st_types s) with
         | Some i => (i, s)
         | None => (st_next s, mkSt (st_next s + 1) (put (st_next s) (mkEntry te0 []) (st_ents s)) (st_names s)
                                    ((te0, st_next s) :: st_types s) (st_flags s))
         end
     end) = (t, s') ->
    lk s i = Some e \/ (i = t /\ e = mkEntry te [] /\ match te with DReference _ => False | _ => True end)).
  { intros te0 -> Hnr Hq.
    destruct (det_name te).
    - destruct (assoc u (st_names s)); injection Hq as <- <-; [left; exact H|].
      unfold lk in H. cbn [st_ents] in H. rewrite lookup_put in H.
      destruct (i =? st_next s) eqn:E; [|left; exact H].
      apply N.eqb_eq in E. injection H as <-. right. repeat split; assumption.
    - destruct (find_type te (st_types s)); injection Hq as <- <-; [left; exact H|].
      unfold lk in H. cbn [st_ents] in H. rewrite lookup_put in H.
      destruct (i =? st_next s) eqn:E; [|left; exact H].
      apply N.eqb_eq in E. injection H as <-. right. repeat split; assumption. }
  destruct te; cbn [assign] in Ha; try exact (Hgen _ eq_refl I Ha).
  injection Ha as <- <-. left. exact H.
Qed.

Lemma assign_ents_ok nD te s t s' :
  assign te s = (t, s') -> wf s -> nD < st_next s ->
  ents_ok nD (lk s) -> te_ok nD (lk s) te ->
  (forall n, det_name te = Some n -> ~ In n (nkeys s)) ->
  ents_ok nD (lk s') /\ idok nD (lk s') t /\ nD < st_next s'.
Proof.
  intros Ha Hw Hn [Hg1 Hg2] Hte Hfresh.
  destruct (assign_ok te s t s' Ha Hw Hfresh) as (Hw' & Hf & Hr & _ & _).
  assert (Hm : forall i e, lk s i = Some e -> lk s' i = Some e) by (apply frame_mono; assumption).
  assert (Hnx : nD < st_next s') by (destruct Hf as [Hx _]; lia).
  assert (Hdef' : forall i e, 1 <= i -> i <= nD -> lk s' i = Some e -> det_name (e_det e) <> None).
  { intros i e H1 H2 H. destruct Hf as [_ Hy]. rewrite Hy in H by lia. exact (Hg2 i e H1 H2 H). }
  split; [|split; [|exact Hnx]].
  - split; [|exact Hdef'].
    intros i e H. destruct (N.ltb_spec i (st_next s)) as [Hlt|Hge].
    + destruct Hf as [_ Hy]. rewrite Hy in H by exact Hlt.
      eapply det_ok_mono; [exact Hm|exact Hdef'|exact (Hg1 i e H)].
    + (* a new entry: it is the one assign stored *)
      destruct (assign_new te s t s' Ha i e H) as [Hold|Hnew]; [pose proof (wf_lt s Hw i e Hold); lia|].
      destruct Hnew as (-> & -> & Hnr). cbn [e_det].
      eapply det_ok_mono; [exact Hm|exact Hdef'|].
      destruct te; try contradiction; exact Hte.
  - destruct te; cbn [realizes] in Hr; try (right; eexists; exact Hr).
    subst t. left. exact Hte.
Qed.

Lemma rt_nodup_ustr_NoDup l : NoDup l -> RoundTrip.nodup_ustr l = true.
Proof.
  induction 1 as [|x l Hx Hl IH]; cbn [RoundTrip.nodup_ustr]; [reflexivity|].
  rewrite IH, andb_true_r. apply negb_true_iff.
  destruct (mem_ustr x l) eqn:E; [|reflexivity]. apply mem_ustr_In in E. contradiction.
Qed.

Lemma ref_id_range D r i : ref_id D r = Some i -> 1 <= i /\ i <= N.of_nat (length D).
Proof.
  unfold ref_id. intro H. destruct (ref_index_nth D r 1 i H) as (j & kv & Hn & ->).
  assert (j < length D)%nat by (apply nth_error_Some; congruence). lia.
Qed.

(* ------------------------------------------------------------------ conversion produces shapes *)
Section ShapeMain.
  Variable cls : Heck.CharClasses.
  Variable D : defs.

  Local Notation keys := (map fst D).
  Local Notation cvf := (conv cls (ref_id D)).
  Local Notation nD := (N.of_nat (length D)).

  (* in the final space the definitions' slots hold named types *)
  Definition DefsNamed (T : space) : Prop :=
    forall i, 1 <= i -> i <= nD -> exists d, get_det T i = Some d /\ det_name d <> None.

  Record SPost (s : schema) (nm : name) (s0 : st) (te : details) (s1 : st) : Prop := {
    sp_wf : wf s1;
    sp_frame : frame s0 s1;
    sp_names : exists L, names_of cls s nm = own_of te ++ L /\ names_sub s0 s1 L;
    sp_ents : ents_ok nD (lk s1);
    sp_te : te_ok nD (lk s1) te;
    sp_kind : te_kind s te;
    sp_payload : forall T, ext s1 T -> DefsNamed T -> payload_of cls D T s te;
    sp_shape : forall T, ext s1 T -> DefsNamed T -> forall t, realizes (get T) t te -> shape cls D T s t }.

  Definition SP (s : schema) : Prop :=
    frag cls keys s = true -> forall nm s0 te s1,
    cvf s nm s0 = Some (te, s1) -> wf s0 -> nD < st_next s0 -> ents_ok nD (lk s0) ->
    NoDup (names_of cls s nm) -> (forall n, In n (names_of cls s nm) -> ~ In n (nkeys s0)) ->
    SPost s nm s0 te s1.

  Record SPostA (s : schema) (nm : name) (s0 : st) (t : id) (s2 : st) : Prop := {
    spa_wf : wf s2;
    spa_frame : frame s0 s2;
    spa_names : names_sub s0 s2 (names_of cls s nm);
    spa_ents : ents_ok nD (lk s2);
    spa_id : idok nD (lk s2) t;
    spa_shape : forall T, ext s2 T -> DefsNamed T -> shape cls D T s t }.

  Lemma SP_assign s : SP s -> frag cls keys s = true -> forall nm s0 te s1 t s2,
    cvf s nm s0 = Some (te, s1) -> assign te s1 = (t, s2) -> wf s0 -> nD < st_next s0 ->
    ents_ok nD (lk s0) ->
    NoDup (names_of cls s nm) -> (forall n, In n (names_of cls s nm) -> ~ In n (nkeys s0)) ->
    SPostA s nm s0 t s2.
  Proof.
    intros HP Hf nm s0 te s1 t s2 Hc Ha Hw Hnx Hg Hnd Hfr.
    destruct (HP Hf nm s0 te s1 Hc Hw Hnx Hg Hnd Hfr) as [Hw1 Hf1 (L & HL & Hns) Hg1 Hte _ _ HS].
    assert (Hfresh : forall n, det_name te = Some n -> ~ In n (nkeys s1)).
    { intros n Hn Hin. unfold own_of in HL. rewrite Hn in HL.
      destruct (Hns n Hin) as [H|H].
      - apply (Hfr n); [rewrite HL; left; reflexivity|exact H].
      - rewrite HL in Hnd. cbn in Hnd. inversion Hnd; subst. contradiction. }
    assert (Hnx1 : nD < st_next s1) by (destruct Hf1 as [Hx _]; lia).
    destruct (assign_ok te s1 t s2 Ha Hw1 Hfresh) as (Hw2 & Hf2 & Hr & _ & Hns2).
    destruct (assign_ents_ok nD te s1 t s2 Ha Hw1 Hnx1 Hg1 Hte Hfresh) as (Hg2 & Hid & _).
    split; [exact Hw2|eapply frame_trans; eassumption| |exact Hg2|exact Hid|].
    - eapply names_sub_weaken; [eapply names_sub_trans; eassumption|].
      rewrite HL. unfold own_of. intros x Hx. apply in_app_or in Hx. apply in_or_app.
      destruct Hx; [right|left]; assumption.
    - intros T He Hp. apply (HS T); [eapply ext_frame; eassumption|exact Hp|].
      eapply realizes_ext; eassumption.
  Qed.

  (* ---------------------------------------------------------------- members *)
  Definition mrel (req : list ustring) (s1 : st) (kv : ustring * schema) (p : prop) : Prop :=
    wire_name p = Some (fst kv) /\ idok nD (lk s1) (p_ty p) /\
    forall T, ext s1 T -> DefsNamed T -> member_sh cls T (shape cls D T) req kv p.

  Lemma mrel_mono req s s' kv p : wf s -> frame s s' -> mrel req s kv p -> mrel req s' kv p.
  Proof.
    intros Hw Hf (H1 & H2 & H3). split; [exact H1|]. split.
    - eapply idok_mono; [apply frame_mono; eassumption|exact H2].
    - intros T He Hp. apply H3; [eapply ext_frame; eassumption|exact Hp].
  Qed.

  Lemma recase_name k ident rn : Sanitize.recase cls k Sanitize.Snake = (ident, rn) ->
    ident = fst (Sanitize.recase cls k Sanitize.Snake).
  Proof. intro H. rewrite H. reflexivity. Qed.

  Lemma conv_prop_shape base req k s' : SP s' -> frag cls keys s' = true -> forall s0 p s3,
    conv_prop cls cvf base req k s' s0 = Some (p, s3) -> wf s0 -> nD < st_next s0 -> ents_ok nD (lk s0) ->
    NoDup (names_of cls s' (prop_type_name cls base k)) ->
    (forall n, In n (names_of cls s' (prop_type_name cls base k)) -> ~ In n (nkeys s0)) ->
    wf s3 /\ frame s0 s3 /\ names_sub s0 s3 (names_of cls s' (prop_type_name cls base k)) /\
    ents_ok nD (lk s3) /\ mrel req s3 (k, s') p.
  Proof.
    intros HP Hf s0 p s3 Hcp Hw Hnx Hg Hnd Hfr. unfold conv_prop in Hcp.
    destruct (cvf s' (prop_type_name cls base k) s0) as [[te s1]|] eqn:Hc; [|discriminate].
    destruct (assign te s1) as [t s2] eqn:Ha.
    destruct (SP_assign s' HP Hf _ _ _ _ _ _ Hc Ha Hw Hnx Hg Hnd Hfr) as [Hw2 Hf2 Hns2 Hg2 Hid2 HS].
    destruct (Sanitize.recase cls k Sanitize.Snake) as [ident rn] eqn:Hrc.
    pose proof (recase_name _ _ _ Hrc) as Hident.
    destruct (mem_ustr k req) eqn:Hreq.
    - injection Hcp as <- <-. repeat (split; [assumption|]).
      split; [apply (recase_wire _ _ _ _ _ _ Hrc)|]. split; [exact Hid2|].
      intros T He Hp. split; [apply (recase_wire _ _ _ _ _ _ Hrc)|]. split; [exact Hident|].
      left. cbn [fst snd p_state p_ty]. split; [exact Hreq|]. split; [reflexivity|]. apply HS; assumption.
    - destruct (has_intrinsic_default s2 t) eqn:Hd.
      + injection Hcp as <- <-. repeat (split; [assumption|]).
        split; [apply (recase_wire _ _ _ _ _ _ Hrc)|]. split; [exact Hid2|].
        intros T He Hp. split; [apply (recase_wire _ _ _ _ _ _ Hrc)|]. split; [exact Hident|].
        right. cbn [fst snd p_state p_ty]. split; [exact Hreq|]. split; [reflexivity|]. left.
        split; [apply HS; assumption|].
        unfold has_intrinsic_default in Hd.
        destruct (lookup_id t (st_ents s2)) as [e|] eqn:Hl; [|discriminate].
        exists (e_det e). split.
        * unfold has, get_det. rewrite (He t e Hl). reflexivity.
        * unfold intrinsic. destruct (e_det e); try discriminate; reflexivity.
      + destruct (assign (DOption t) s2) as [o s3'] eqn:Ha2.
        injection Hcp as <- <-.
        assert (Hfresh : forall n, det_name (DOption t) = Some n -> ~ In n (nkeys s2)) by (intros n Hn; discriminate).
        assert (Hnx2 : nD < st_next s2) by (destruct Hf2 as [Hx _]; lia).
        assert (Hteo : te_ok nD (lk s2) (DOption t)).
        { cbn [te_ok det_ok]. split; [exact Hid2|]. intros e He. unfold not_option.
          unfold has_intrinsic_default in Hd. unfold lk in He. rewrite He in Hd.
          destruct (e_det e); try exact I. discriminate. }
        destruct (assign_ok _ _ _ _ Ha2 Hw2 Hfresh) as (Hw3 & Hf3 & Hr3 & _ & Hns3).
        destruct (assign_ents_ok nD _ _ _ _ Ha2 Hw2 Hnx2 Hg2 Hteo Hfresh) as (Hg3 & Hid3 & _).
        cbn [realizes] in Hr3. cbn [det_name] in Hns3.
        split; [exact Hw3|]. split; [eapply frame_trans; eassumption|]. split.
        * eapply names_sub_weaken; [eapply names_sub_trans; eassumption|].
          rewrite app_nil_r. apply incl_refl.
        * split; [exact Hg3|].
          split; [apply (recase_wire _ _ _ _ _ _ Hrc)|]. split; [exact Hid3|].
          intros T He Hp. split; [apply (recase_wire _ _ _ _ _ _ Hrc)|]. split; [exact Hident|].
          right. cbn [fst snd p_state p_ty]. split; [exact Hreq|]. split; [reflexivity|]. right.
          exists t. split; [exact (get_det_of T o _ _ (He o _ Hr3))|].
          split; [apply HS; [eapply ext_frame; eassumption|exact Hp]|].
          intros d Hhd. unfold has_intrinsic_default in Hd.
          destruct (lookup_id t (st_ents s2)) as [e|] eqn:Hl.
          -- pose proof (He t e (frame_keeps _ _ _ _ Hw2 Hf3 Hl)) as Hgt. unfold has, get_det in Hhd.
             rewrite Hgt in Hhd. injection Hhd as <-. unfold intrinsic.
             destruct (e_det e); try discriminate; reflexivity.
          -- destruct Hid2 as [[Ha1 Hb1]|(e & He2)]; [|unfold lk in He2; congruence].
             destruct (Hp t Ha1 Hb1) as (d' & Hd' & Hn'). unfold has in Hhd. rewrite Hd' in Hhd.
             injection Hhd as <-. destruct d'; try reflexivity; exfalso; apply Hn'; reflexivity.
  Qed.

  Lemma conv_props_shape base req : forall props,
    Forall (fun kv => SP (snd kv)) props ->
    forallb (fun kv => frag cls keys (snd kv)) props = true ->
    forall s0 ps s1,
    conv_props cls cvf base req props s0 = Some (ps, s1) -> wf s0 -> nD < st_next s0 -> ents_ok nD (lk s0) ->
    NoDup (prop_names cls base props) ->
    (forall n, In n (prop_names cls base props) -> ~ In n (nkeys s0)) ->
    wf s1 /\ frame s0 s1 /\ names_sub s0 s1 (prop_names cls base props) /\ ents_ok nD (lk s1) /\
    Forall2 (mrel req s1) props ps.
  Proof.
    induction props as [|[k s'] props IH]; intros HP Hf s0 ps s1 Hc Hw Hnx Hg Hnd Hfr.
    - cbn [conv_props] in Hc. injection Hc as <- <-.
      split; [exact Hw|]. split; [apply frame_refl|]. split; [apply names_sub_refl|]. split; [exact Hg|constructor].
    - cbn [conv_props] in Hc.
      destruct (conv_prop cls cvf base req k s' s0) as [[p sa]|] eqn:Hcp; [|discriminate].
      destruct (conv_props cls cvf base req props sa) as [[l sb]|] eqn:Hcr; [|discriminate].
      injection Hc as <- <-.
      inversion HP as [|? ? HP1 HP2]; subst.
      cbn [forallb snd] in Hf. apply andb_true_iff in Hf. destruct Hf as [Hf1 Hf2].
      unfold prop_names in Hnd, Hfr. cbn [flat_map fst snd] in Hnd, Hfr.
      destruct (conv_prop_shape base req k s' HP1 Hf1 s0 p sa Hcp Hw Hnx Hg (NoDup_app_l _ _ Hnd))
        as (Hwa & Hfa & Hnsa & Hga & Hra).
      { intros n Hn. apply Hfr. apply in_or_app. left. exact Hn. }
      assert (Hnxa : nD < st_next sa) by (destruct Hfa as [Hx _]; lia).
      destruct (IH HP2 Hf2 sa l sb Hcr Hwa Hnxa Hga (NoDup_app_r _ _ Hnd)) as (Hwb & Hfb & Hnsb & Hgb & Hrb).
      { intros n Hn Hin. destruct (Hnsa n Hin) as [H|H].
        - apply (Hfr n); [apply in_or_app; right; exact Hn|exact H].
        - exact (NoDup_app_disj _ _ n Hnd H Hn). }
      split; [exact Hwb|]. split; [eapply frame_trans; eassumption|]. split.
      + unfold prop_names. cbn [flat_map fst snd]. eapply names_sub_trans; eassumption.
      + split; [exact Hgb|]. constructor; [|exact Hrb]. exact (mrel_mono req sa sb _ _ Hwa Hfb Hra).
  Qed.

  (* ---------------------------------------------------------------- one kind *)
  Definition kkind (k : kind) (te : details) : Prop :=
    match te with
    | DStruct _ _ _ dn => k = KStruct dn
    | DTuple _ => k = KTuple
    | DUnit => k = KNull
    | _ => True
    end.
  Definition kpayload (T : space) (items : list schema) (props : list (ustring * schema)) (req : list ustring)
             (te : details) : Prop :=
    match te with
    | DStruct _ _ ps _ => struct_sh cls T (shape cls D T) props req ps
    | DTuple ts => AllP2 (shape cls D T) items ts
    | _ => True
    end.

  Record KSPost (items : list schema) (props : list (ustring * schema)) (req : list ustring) (ap : option schema)
         (oneo : option (list schema))
         (k : kind) (nm' : name) (s0 : st) (te : details) (s1 : st) : Prop := {
    ks_wf : wf s1;
    ks_frame : frame s0 s1;
    ks_own : own_names cls nm' k = own_of te;
    ks_names : names_sub s0 s1 (sub_names cls k nm' items props ap oneo);
    ks_ents : ents_ok nD (lk s1);
    ks_te : te_ok nD (lk s1) te;
    ks_nonopt : match te with DOption _ => k = KOpt | _ => True end;
    ks_kind : kkind k te;
    ks_payload : forall T, ext s1 T -> DefsNamed T -> kpayload T items props req te;
    ks_shape : forall T, ext s1 T -> DefsNamed T -> forall t, realizes (get T) t te ->
                 kshape cls D T (shape cls D T) k items props req ap oneo t }.

  Lemma scalar_kspost items props req ap oneo k nm' s0 te :
    wf s0 -> ents_ok nD (lk s0) ->
    own_names cls nm' k = [] -> sub_names cls k nm' items props ap oneo = [] -> det_name te = None ->
    det_ok nD (lk s0) te ->
    match te with DOption _ | DReference _ | DStruct _ _ _ _ | DTuple _ => False | _ => True end ->
    kkind k te ->
    (forall T t, get_det T t = Some te -> kshape cls D T (shape cls D T) k items props req ap oneo t) ->
    KSPost items props req ap oneo k nm' s0 te s0.
  Proof.
    intros Hw Hg Ho Hs Hn Hd Hnr Hkk HS.
    split; [exact Hw|apply frame_refl|unfold own_of; rewrite Hn; exact Ho|rewrite Hs; apply names_sub_refl|exact Hg| | |exact Hkk| |].
    - destruct te; try contradiction; exact Hd.
    - destruct te; try contradiction; exact I.
    - intros T _ _. destruct te; try contradiction; exact I.
    - intros T He Hp t Hr. apply HS.
      destruct te; try contradiction; cbn [realizes] in Hr; exact (get_det_of _ _ _ _ Hr).
  Qed.

  Lemma json_assigned s0 i s1 :
    assign DJsonValue (set_json s0) = (i, s1) -> wf s0 -> nD < st_next s0 -> ents_ok nD (lk s0) ->
    wf s1 /\ frame s0 s1 /\ names_sub s0 s1 [] /\ ents_ok nD (lk s1) /\ idok nD (lk s1) i /\
    lk s1 i = Some (mkEntry DJsonValue []).
  Proof.
    intros Ha Hw Hnx Hg.
    assert (Hf0 : forall n, det_name DJsonValue = Some n -> ~ In n (nkeys (set_json s0))) by (intros n Hn; discriminate).
    destruct (assign_ok _ _ _ _ Ha (wf_set_json _ Hw) Hf0) as (Hw1 & Hf1 & Hr1 & _ & Hns1).
    destruct (assign_ents_ok nD _ _ _ _ Ha (wf_set_json _ Hw) Hnx Hg I Hf0) as (Hg1 & Hid1 & _).
    cbn [realizes] in Hr1. cbn [det_name] in Hns1.
    split; [exact Hw1|]. split; [destruct Hf1 as [Hx Hy]; split; [exact Hx|exact Hy]|].
    split; [intros n Hn; exact (Hns1 n Hn)|]. split; [exact Hg1|]. split; [exact Hid1|exact Hr1].
  Qed.

  Lemma conv_items_shape nm : forall items,
    Forall SP items -> forallb (frag cls keys) items = true ->
    forall i s0 ts s1,
    conv_items cvf nm i items s0 = Some (ts, s1) -> wf s0 -> nD < st_next s0 -> ents_ok nD (lk s0) ->
    NoDup (idx_names cls nm items i) ->
    (forall n, In n (idx_names cls nm items i) -> ~ In n (nkeys s0)) ->
    wf s1 /\ frame s0 s1 /\ names_sub s0 s1 (idx_names cls nm items i) /\ ents_ok nD (lk s1) /\
    (forall t, In t ts -> idok nD (lk s1) t) /\
    forall T, ext s1 T -> DefsNamed T -> AllP2 (shape cls D T) items ts.
  Proof.
    induction items as [|it items IH]; intros HP Hf i s0 ts s1 Hc Hw Hnx Hg Hnd Hfr.
    - cbn [conv_items] in Hc. injection Hc as <- <-.
      split; [exact Hw|]. split; [apply frame_refl|]. split; [apply names_sub_refl|]. split; [exact Hg|].
      split; [intros t []|intros T _ _; exact I].
    - cbn [conv_items] in Hc. cbn [idx_names] in Hnd, Hfr.
      destruct (cvf it (idx_name nm i) s0) as [[te sa]|] eqn:Hcv; [|discriminate].
      destruct (assign te sa) as [t sb] eqn:Ha.
      destruct (conv_items cvf nm (S i) items sb) as [[ts' sc]|] eqn:Hr; [|discriminate].
      injection Hc as <- <-.
      cbn [forallb] in Hf. apply andb_true_iff in Hf. destruct Hf as [Hf1 Hf2].
      destruct (SP_assign _ (Forall_inv HP) Hf1 _ _ _ _ _ _ Hcv Ha Hw Hnx Hg (NoDup_app_l _ _ Hnd))
        as [Hwb Hfb Hnsb Hgb Hidb HSb].
      { intros n Hn. apply Hfr. apply in_or_app. left. exact Hn. }
      assert (Hnxb : nD < st_next sb) by (destruct Hfb as [Hx _]; lia).
      destruct (IH (Forall_inv_tail HP) Hf2 (S i) sb ts' sc Hr Hwb Hnxb Hgb (NoDup_app_r _ _ Hnd))
        as (Hwc & Hfc & Hnsc & Hgc & Hidc & HSc).
      { intros n Hn Hin. destruct (Hnsb n Hin) as [H|H].
        - apply (Hfr n); [apply in_or_app; right; exact Hn|exact H].
        - exact (NoDup_app_disj _ _ n Hnd H Hn). }
      split; [exact Hwc|]. split; [eapply frame_trans; eassumption|]. split.
      + cbn [idx_names]. eapply names_sub_trans; eassumption.
      + split; [exact Hgc|]. split.
        * intros t0 [<-|Ht0]; [exact (idok_mono nD _ _ _ (frame_mono sb sc Hwb Hfc) Hidb)|exact (Hidc t0 Ht0)].
        * intros T He Hp. cbn [AllP2]. split; [apply HSb; [exact (ext_frame sb sc T Hwb Hfc He)|exact Hp]|exact (HSc T He Hp)].
  Qed.

  Lemma str_assigned (pat : option ustring) s0 i s1 :
    assign DString (match pat with Some _ => set_regress s0 | None => s0 end) = (i, s1) ->
    wf s0 -> nD < st_next s0 -> ents_ok nD (lk s0) ->
    wf s1 /\ frame s0 s1 /\ names_sub s0 s1 [] /\ ents_ok nD (lk s1) /\ idok nD (lk s1) i /\
    lk s1 i = Some (mkEntry DString []).
  Proof.
    intros Ha Hw Hnx Hg.
    set (s' := match pat with Some _ => set_regress s0 | None => s0 end) in *.
    assert (Hw' : wf s') by (destruct pat; [destruct Hw as [H1 H2 H3]; split; [exact H1|exact H2|exact H3]|exact Hw]).
    assert (Hnx' : nD < st_next s') by (destruct pat; exact Hnx).
    assert (Hg' : ents_ok nD (lk s')) by (destruct pat; exact Hg).
    assert (Hf0 : forall n, det_name DString = Some n -> ~ In n (nkeys s')) by (intros n Hn; discriminate).
    destruct (assign_ok _ _ _ _ Ha Hw' Hf0) as (Hw1 & Hf1 & Hr1 & _ & Hns1).
    destruct (assign_ents_ok nD _ _ _ _ Ha Hw' Hnx' Hg' I Hf0) as (Hg1 & Hid1 & _).
    cbn [realizes] in Hr1. cbn [det_name] in Hns1.
    split; [exact Hw1|]. split; [destruct pat; destruct Hf1 as [Hx Hy]; split; assumption|].
    split; [destruct pat; intros n Hn; exact (Hns1 n Hn)|]. split; [exact Hg1|]. split; [exact Hid1|exact Hr1].
  Qed.

  (* ---------------------------------------------------------------- the variants of a tagged oneOf *)
  Definition vd_ok (look : id -> option entry) (vd : vdetails) : Prop :=
    match vd with
    | VSimple => True
    | VItem t => idok nD look t
    | VTuple ts => forall t, In t ts -> idok nD look t
    | VStruct ps => RoundTrip.props_ok ps = true /\ forall p, In p ps -> idok nD look (p_ty p)
    end.

  Lemma vd_ok_mono look look' vd :
    (forall i e, look i = Some e -> look' i = Some e) -> vd_ok look vd -> vd_ok look' vd.
  Proof.
    intros Hm. destruct vd as [|t|ts|ps]; cbn [vd_ok]; [exact (fun H => H)|apply idok_mono; exact Hm| |].
    - intros H t Ht. eapply idok_mono; [exact Hm|exact (H t Ht)].
    - intros [H1 H2]. split; [exact H1|]. intros p Hp. eapply idok_mono; [exact Hm|exact (H2 p Hp)].
  Qed.

  Definition own_deny (sc : schema) : bool := match struct_deny sc with Some d => d | None => false end.
  Definition bs_deny (bs : list schema) : bool := existsb own_deny (xpayloads bs).

  Definition rv_rel (T : space) (rvs : list (ustring * vdetails)) (b : schema) : Prop :=
    match b with
    | SObj _ _ _ _ _ _ _ _ _ _ _ _ bprops _ _ _ _ _ _ _ _ _ _ _ =>
        match bprops with
        | [(v, sc)] => exists vd, In (v, vd) rvs /\ payload_sh cls T (shape cls D T) sc (own_deny sc) vd
        | _ => forall raws, xsimple b = Some raws -> forall x, In x raws -> In (x, VSimple) rvs
        end
    | SBool _ => True
    end.

  Lemma rv_rel_mono T rvs rvs' b : incl rvs rvs' -> rv_rel T rvs b -> rv_rel T rvs' b.
  Proof.
    intro Hi. destruct b as [|ty fmt enum cst nv sv ik items ai mni mxi uq props req ap mnp mxp allo anyo oneo no ref dflt title];
      [exact (fun H => H)|]. cbn [rv_rel].
    destruct props as [|[v sc] [|]].
    - intros H raws Hx x Hin. apply Hi. exact (H raws Hx x Hin).
    - intros (vd & Hin & Hp). exists vd. split; [apply Hi; exact Hin|exact Hp].
    - intros H raws Hx x Hin. apply Hi. exact (H raws Hx x Hin).
  Qed.

  (* a struct schema converts to a struct entry *)
  Lemma conv_struct_te sc nm s0 te s1 d :
    cvf sc nm s0 = Some (te, s1) -> classify_s sc = Some (false, KStruct d) -> exists n ps, te = DStruct n None ps d.
  Proof.
    destruct sc as [[|]|ty fmt enum cst nv sv ik items ai mni mxi uq props req ap mnp mxp allo anyo oneo no ref dflt title];
      try discriminate.
    cbn [conv classify_s union_of]. intros Hc Hcl. rewrite Hcl in Hc. cbn [conv_node conv_kind] in Hc.
    destruct (type_name cls nm) as [base|]; [|discriminate].
    destruct (conv_props cls cvf base req props s0) as [[ps sa]|]; [|discriminate].
    destruct (Sanitize.unique _); [|discriminate]. injection Hc as <- _. eexists _, _. reflexivity.
  Qed.

  Lemma own_deny_other sc nm s0 te s1 :
    cvf sc nm s0 = Some (te, s1) -> (forall n d ps dn, te <> DStruct n d ps dn) -> own_deny sc = false.
  Proof.
    intros Hc Hns. unfold own_deny, struct_deny.
    destruct (classify_s sc) as [[[|] k]|] eqn:Hcl; try reflexivity. destruct k; try reflexivity.
    destruct (conv_struct_te sc nm s0 te s1 deny Hc Hcl) as (n & ps & ->). exfalso. eapply Hns. reflexivity.
  Qed.

  Lemma conv_xvar_shape nm v sc : SP sc -> frag cls keys sc = true -> classify_s sc <> Some (false, KNull) ->
    forall s0 vd dn s1, conv_xvar cvf nm v sc s0 = Some (vd, dn, s1) -> wf s0 -> nD < st_next s0 -> ents_ok nD (lk s0) ->
    NoDup (names_of cls sc (append_name nm v)) ->
    (forall n, In n (names_of cls sc (append_name nm v)) -> ~ In n (nkeys s0)) ->
    wf s1 /\ frame s0 s1 /\ names_sub s0 s1 (names_of cls sc (append_name nm v)) /\ ents_ok nD (lk s1) /\
    vd_ok (lk s1) vd /\ dn = own_deny sc /\
    forall T, ext s1 T -> DefsNamed T -> payload_sh cls T (shape cls D T) sc (own_deny sc) vd.
  Proof.
    intros HP Hf Hnn s0 vd dn s1 Hc Hw Hnx Hg Hnd Hfr. unfold conv_xvar in Hc.
    destruct (cvf sc (append_name nm v) s0) as [[te sa]|] eqn:Hcv; [|discriminate].
    pose proof (HP Hf _ _ _ _ Hcv Hw Hnx Hg Hnd Hfr) as [Hw1 Hf1 (L & HL & Hns) Hg1 Hte Hkd HPy HS].
    assert (HnsL : names_sub s0 sa (names_of cls sc (append_name nm v))).
    { eapply names_sub_weaken; [exact Hns|]. rewrite HL. apply incl_appr, incl_refl. }
    assert (Hother : forall t s2, assign te sa = (t, s2) -> (forall n d ps dn', te <> DStruct n d ps dn') ->
              Some (VItem t, false, s2) = Some (vd, dn, s1) ->
              wf s1 /\ frame s0 s1 /\ names_sub s0 s1 (names_of cls sc (append_name nm v)) /\ ents_ok nD (lk s1) /\
              vd_ok (lk s1) vd /\ dn = own_deny sc /\
              forall T, ext s1 T -> DefsNamed T -> payload_sh cls T (shape cls D T) sc (own_deny sc) vd).
    { intros t s2 Ha Hns' H. injection H as <- <- <-.
      destruct (SP_assign sc HP Hf _ _ _ _ _ _ Hcv Ha Hw Hnx Hg Hnd Hfr) as [Hw2 Hf2 Hns2 Hg2 Hid2 HS2].
      split; [exact Hw2|]. split; [exact Hf2|]. split; [exact Hns2|]. split; [exact Hg2|].
      split; [exact Hid2|]. split; [symmetry; exact (own_deny_other _ _ _ _ _ Hcv Hns')|].
      intros T He Hp. cbn [payload_sh]. exact (HS2 T He Hp). }
    destruct te as [? ? ? ? ? ?|n0 d0 ps dn0|? ? ? ?|? ? ?|?|?|?|? ?|?|? ?|ts| | |?|?| | |r0];
      try (destruct (assign _ sa) as [t9 s9] eqn:Ha; refine (Hother t9 s9 eq_refl _ Hc); discriminate).
    - (* a struct: dissolved *)
      injection Hc as <- <- <-. cbn [te_kind] in Hkd.
      assert (Hod : own_deny sc = dn0) by (unfold own_deny, struct_deny; rewrite Hkd; reflexivity).
      split; [exact Hw1|]. split; [exact Hf1|]. split; [exact HnsL|]. split; [exact Hg1|].
      split; [exact Hte|]. split; [symmetry; exact Hod|].
      intros T He Hp. cbn [payload_sh]. rewrite Hod. split; [exact Hkd|]. exact (HPy T He Hp).
    - (* a tuple: dissolved *)
      injection Hc as <- <- <-. cbn [te_kind] in Hkd.
      assert (Hod : own_deny sc = false) by (unfold own_deny, struct_deny; rewrite Hkd; reflexivity).
      split; [exact Hw1|]. split; [exact Hf1|]. split; [exact HnsL|]. split; [exact Hg1|].
      split; [exact Hte|]. split; [symmetry; exact Hod|].
      intros T He Hp. cbn [payload_sh]. split; [exact Hkd|]. exact (HPy T He Hp).
    - (* unit: excluded *)
      cbn [te_kind] in Hkd. contradiction.
  Qed.

  Lemma one_names_cons tg nm b r :
    one_names cls tg nm (b :: r) = branch_fold cls tg nm (names_of cls) (@app ustring) [] b ++ one_names cls tg nm r.
  Proof. reflexivity. Qed.

  Lemma xpayloads_simple es r : xpayloads (xsimple_sch es :: r) = xpayloads r.
  Proof. reflexivity. Qed.
  Lemma xpayloads_typed v sc r : xpayloads (xbranch v sc :: r) = sc :: xpayloads r.
  Proof. unfold xpayloads. cbn [flat_map]. rewrite xtyped_sch. reflexivity. Qed.

  Lemma conv_xbranches_shape nm : forall bs names,
    Forall (PayP SP) bs -> xall_names bs = Some names -> one_frags cls D TagExternal bs = true ->
    (forall sc, In sc (xpayloads bs) -> classify_s sc <> Some (false, KNull)) ->
    forall s0 rvs dn s1, conv_xbranches cvf nm bs s0 = Some (rvs, dn, s1) -> wf s0 -> nD < st_next s0 ->
    ents_ok nD (lk s0) ->
    NoDup (one_names cls TagExternal nm bs) -> (forall n, In n (one_names cls TagExternal nm bs) -> ~ In n (nkeys s0)) ->
    wf s1 /\ frame s0 s1 /\ names_sub s0 s1 (one_names cls TagExternal nm bs) /\ ents_ok nD (lk s1) /\
    (forall rv, In rv rvs -> vd_ok (lk s1) (snd rv)) /\ dn = bs_deny bs /\
    forall T, ext s1 T -> DefsNamed T -> AllP (rv_rel T rvs) bs.
  Proof.
    induction bs as [|b r IH]; intros names HP Hn Hf Hnn s0 rvs dn s1 Hc Hw Hnx Hg Hnd Hfr.
    - cbn in Hc. injection Hc as <- <- <-.
      split; [exact Hw|]. split; [apply frame_refl|]. split; [apply names_sub_refl|]. split; [exact Hg|].
      split; [intros rv []|]. split; [reflexivity|]. intros T _ _. exact I.
    - destruct (xall_names_cons b r names Hn) as (l & rest & Hb & Hr & ->).
      rewrite one_frags_cons in Hf. apply andb_true_iff in Hf. destruct Hf as [Hf1 Hf2].
      rewrite one_names_cons in Hnd, Hfr.
      destruct (xnames_cases b l Hb) as [(es & -> & Hj & Hne)|(v & sc & -> & ->)].
      + rewrite conv_xbranches_simple, (xsimple_sch_spec es l Hj Hne) in Hc.
        destruct (conv_xbranches cvf nm r s0) as [[[vs2 d2] s2]|] eqn:Hrr; [|discriminate].
        injection Hc as <- <- <-. cbn [branch_fold xsimple_sch app] in Hnd, Hfr.
        rewrite xpayloads_simple in Hnn.
        destruct (IH rest (Forall_inv_tail HP) Hr Hf2 Hnn s0 vs2 d2 s2 Hrr Hw Hnx Hg Hnd Hfr)
          as (Hw2 & Hfr2 & Hns2 & Hg2 & Hvd2 & Hd2 & HR2).
        split; [exact Hw2|]. split; [exact Hfr2|]. split; [rewrite one_names_cons; exact Hns2|]. split; [exact Hg2|].
        split; [|split].
        * intros rv Hin. apply in_app_or in Hin. destruct Hin as [Hin|Hin]; [|exact (Hvd2 rv Hin)].
          apply in_map_iff in Hin. destruct Hin as (x & <- & _). exact I.
        * unfold bs_deny. rewrite xpayloads_simple. exact Hd2.
        * intros T He Hp. cbn [AllP]. split.
          -- cbn [rv_rel xsimple_sch]. intros raws Hx x Hin. rewrite (xsimple_sch_spec es l Hj Hne) in Hx.
             injection Hx as <-. apply in_or_app. left. apply in_map_iff. exists x. split; [reflexivity|exact Hin].
          -- apply AllP_In. intros b' Hb'. eapply rv_rel_mono; [apply incl_appr, incl_refl|].
             exact (proj1 (AllP_In _ _) (HR2 T He Hp) b' Hb').
      + rewrite conv_xbranches_typed in Hc. cbn [branch_fold xbranch] in Hf1, Hnd, Hfr.
        destruct (conv_xvar cvf nm v sc s0) as [[[vd deny] sa]|] eqn:Hv; [|discriminate].
        destruct (conv_xbranches cvf nm r sa) as [[[vs2 d2] s2]|] eqn:Hrr; [|discriminate].
        injection Hc as <- <- <-.
        rewrite xpayloads_typed in Hnn.
        destruct (conv_xvar_shape nm v sc (Forall_inv HP v sc (xtyped_sch v sc)) Hf1 (Hnn sc (or_introl eq_refl))
                    s0 vd deny sa Hv Hw Hnx Hg (NoDup_app_l _ _ Hnd))
          as (Hwa & Hfa & Hnsa & Hga & Hvda & Hda & HSa).
        { intros n Hin. apply Hfr. apply in_or_app. left. exact Hin. }
        assert (Hnxa : nD < st_next sa) by (destruct Hfa as [Hx _]; lia).
        destruct (IH rest (Forall_inv_tail HP) Hr Hf2 (fun sc' H => Hnn sc' (or_intror H)) sa vs2 d2 s2 Hrr Hwa Hnxa Hga
                    (NoDup_app_r _ _ Hnd))
          as (Hw2 & Hfr2 & Hns2 & Hg2 & Hvd2 & Hd2 & HR2).
        { intros n Hin Hin'. destruct (Hnsa n Hin') as [H|H].
          - apply (Hfr n); [apply in_or_app; right; exact Hin|exact H].
          - exact (NoDup_app_disj _ _ n Hnd H Hin). }
        split; [exact Hw2|]. split; [eapply frame_trans; eassumption|]. split.
        * rewrite one_names_cons. cbn [branch_fold xbranch]. eapply names_sub_trans; eassumption.
        * split; [exact Hg2|]. split; [|split].
          -- intros rv [<-|Hin]; [|exact (Hvd2 rv Hin)]. cbn [snd].
             eapply vd_ok_mono; [exact (frame_mono sa s2 Hwa Hfr2)|exact Hvda].
          -- unfold bs_deny. rewrite xpayloads_typed. cbn [existsb]. rewrite Hda. f_equal. exact Hd2.
          -- intros T He Hp. cbn [AllP]. split.
             ++ cbn [rv_rel xbranch]. exists vd. split; [left; reflexivity|].
                apply HSa; [eapply ext_frame; eassumption|exact Hp].
             ++ apply AllP_In. intros b' Hb'. eapply rv_rel_mono; [apply incl_tl, incl_refl|].
                exact (proj1 (AllP_In _ _) (HR2 T He Hp) b' Hb').
  Qed.

  (* the uniformity condition of payloads_ok: every struct payload carries the enum's flag *)
  Lemma payloads_uniform_l L sc d :
    payloads_ok_l L = true -> In sc L -> struct_deny sc = Some d -> d = existsb own_deny L.
  Proof.
    unfold payloads_ok_l. intros H Hin Hsd. apply andb_true_iff in H. destruct H as [_ H].
    assert (Hall : forall d0 r, flat_map (fun sc => match struct_deny sc with Some d => [d] | None => [] end) L = d0 :: r ->
                   forallb (Bool.eqb d0) r = true -> forall sc' d', In sc' L -> struct_deny sc' = Some d' -> d' = d0).
    { intros d0 r HL Hr sc' d' Hin' Hsd'.
      assert (Hd' : In d' (d0 :: r)).
      { rewrite <- HL. apply in_flat_map. exists sc'. split; [exact Hin'|]. rewrite Hsd'. left. reflexivity. }
      destruct Hd' as [<-|Hd']; [reflexivity|].
      rewrite forallb_forall in Hr. symmetry. apply Bool.eqb_prop. exact (Hr d' Hd'). }
    destruct (flat_map _ L) as [|d0 r] eqn:HL.
    - exfalso. assert (Hd : In d (@nil bool)); [|exact Hd].
      rewrite <- HL. apply in_flat_map. exists sc. split; [exact Hin|]. rewrite Hsd. left. reflexivity.
    - pose proof (Hall d0 r eq_refl H) as Hu. rewrite (Hu sc d Hin Hsd).
      destruct d0.
      + symmetry. apply existsb_exists.
        assert (Hex : exists sc', In sc' L /\ struct_deny sc' = Some true).
        { assert (Hd0 : In true (flat_map (fun sc => match struct_deny sc with Some d => [d] | None => [] end) L))
            by (rewrite HL; left; reflexivity).
          apply in_flat_map in Hd0. destruct Hd0 as (sc' & Hin' & Hx). exists sc'. split; [exact Hin'|].
          destruct (struct_deny sc') as [[|]|]; [reflexivity|destruct Hx as [Hx|[]]; discriminate Hx|destruct Hx]. }
        destruct Hex as (sc' & Hin' & Hsd'). exists sc'. split; [exact Hin'|]. unfold own_deny. rewrite Hsd'. reflexivity.
      + symmetry. apply Bool.not_true_is_false. intro Hex. apply existsb_exists in Hex.
        destruct Hex as (sc' & Hin' & Hod). unfold own_deny in Hod.
        destruct (struct_deny sc') as [d'|] eqn:Hsd'; [|discriminate]. subst d'.
        pose proof (Hu sc' true Hin' Hsd'). discriminate.
  Qed.

  Lemma payloads_uniform bs sc d :
    payloads_ok bs = true -> In sc (xpayloads bs) -> struct_deny sc = Some d -> d = bs_deny bs.
  Proof. exact (payloads_uniform_l (xpayloads bs) sc d). Qed.

  Lemma variant_idents_nodup names ids : Sanitize.variant_idents cls names = Sanitize.Ok ids -> NoDup names.
  Proof.
    intro H.
    assert (Hex : exists f : ustring -> ustring, NoDup (map f names)).
    { unfold Sanitize.variant_idents in H. cbv zeta in H.
      repeat match type of H with context [if ?c then _ else _] => destruct c eqn:? end; try discriminate H;
        eexists; apply unique_true_iff; eassumption. }
    destruct Hex as (f & Hf). exact (NoDup_map_inv _ _ Hf).
  Qed.

  Lemma combine_variants (rvs : list (ustring * vdetails)) : forall ids, length ids = length rvs ->
    let vs := map (fun p => mkVariant (fst (fst p)) (snd p) (snd (fst p))) (combine rvs ids) in
    map v_raw vs = map fst rvs /\ map v_ident vs = ids /\
    (forall x vd, In (x, vd) rvs -> exists vr, In vr vs /\ v_raw vr = x /\ v_det vr = vd) /\
    (forall vr, In vr vs -> In (v_raw vr, v_det vr) rvs).
  Proof.
    induction rvs as [|[x vd] rvs IH]; intros [|i ids] Hl; try discriminate; cbn [combine map fst snd].
    - repeat split; try reflexivity; intros; contradiction.
    - injection Hl as Hl. destruct (IH ids Hl) as (H1 & H2 & H3 & H4). cbn zeta in *.
      split; [cbn [v_raw]; f_equal; exact H1|]. split; [cbn [v_ident]; f_equal; exact H2|]. split.
      + intros x' vd' [H|H].
        * injection H as <- <-. eexists. split; [left; reflexivity|split; reflexivity].
        * destruct (H3 x' vd' H) as (vr & Hin & Hr & Hd). exists vr. split; [right; exact Hin|split; assumption].
      + intros vr [<-|H]; [left; reflexivity|right; exact (H4 vr H)].
  Qed.

  (* ---------------------------------------------------------------- members of a struct / struct variant *)
  Lemma members_facts req props ps sa :
    Forall2 (mrel req sa) props ps -> NoDup (map fst props) ->
    Sanitize.unique (map p_name (sort_props ps)) = true ->
    RoundTrip.props_ok (sort_props ps) = true /\
    (forall p, In p (sort_props ps) -> idok nD (lk sa) (p_ty p)) /\
    wire_names ps = map fst props /\
    forall T, ext sa T -> DefsNamed T -> struct_sh cls T (shape cls D T) props req (sort_props ps).
  Proof.
    intros HR Hks Hun.
    assert (Hperm : Permutation (sort_props ps) ps) by apply sort_props_perm.
    assert (Hwn : wire_names ps = map fst props).
    { apply wire_names_map. eapply Forall2_weaken; [|exact HR]. intros x y [H _]. exact H. }
    assert (Hndw : NoDup (wire_names (sort_props ps))).
    { eapply Permutation_NoDup; [apply Permutation_sym, wire_names_perm, Hperm|]. rewrite Hwn. exact Hks. }
    assert (Hndn : NoDup (map p_name (sort_props ps))) by (apply unique_true_iff; exact Hun).
    assert (Hin' : forall p, In p (sort_props ps) -> In p ps) by (intros p Hp; eapply Permutation_in; eassumption).
    split; [|split; [|split; [exact Hwn|]]].
    - unfold RoundTrip.props_ok. rewrite (rt_nodup_ustr_NoDup _ Hndn), (rt_nodup_ustr_NoDup _ Hndw), !andb_true_r.
      apply forallb_forall. intros p Hp. destruct (Forall2_In_r _ _ _ _ HR (Hin' p Hp)) as (kv & _ & Hwp & _).
      unfold RoundTrip.no_flatten. unfold wire_name in Hwp. destruct (p_rename p); [reflexivity|reflexivity|discriminate].
    - intros p Hp. destruct (Forall2_In_r _ _ _ _ HR (Hin' p Hp)) as (kv & _ & _ & Hid & _). exact Hid.
    - intros T He Hp. split; [exact Hndw|]. split; [exact Hndn|]. split.
      + apply AllP_In. intros kv Hkv. destruct (Forall2_In_l _ _ _ _ HR Hkv) as (p & Hpin & _ & _ & HM).
        exists p. split; [eapply Permutation_in; [apply Permutation_sym; exact Hperm|exact Hpin]|]. exact (HM T He Hp).
      + intros p Hpin. destruct (Forall2_In_r _ _ _ _ HR (Hin' p Hpin)) as (kv & Hkv & Hwp & _).
        exists kv. split; assumption.
  Qed.

  (* ---------------------------------------------------------------- assembling a tagged enum *)
  Definition tag_det_ok (tg : tagty) (rvs : list (ustring * vdetails)) : Prop :=
    match tg with
    | TagExternal => True
    | TagAdjacent t c => ustr_eqb t c = false
    | TagInternal t =>
        forall rv, In rv rvs ->
        match snd rv with
        | VSimple => True
        | VStruct ps => mem_ustr t (wire_names ps) = false
        | _ => False
        end
    | TagUntagged => True
    end.

  Lemma tagged_kspost items props req ap bs tg nm' n s0 sa rvs deny names ids te :
    type_name cls nm' = Some n -> variant_names tg bs = Some names ->
    Sanitize.variant_idents cls names = Sanitize.Ok ids -> map fst rvs = names ->
    wf sa -> frame s0 sa -> names_sub s0 sa (one_names cls tg nm' bs) -> ents_ok nD (lk sa) ->
    (forall rv, In rv rvs -> vd_ok (lk sa) (snd rv)) ->
    tag_det_ok tg rvs ->
    (forall T, ext sa T -> DefsNamed T -> forall vs,
       (forall x vd, In (x, vd) rvs -> exists vr, In vr vs /\ v_raw vr = x /\ v_det vr = vd) ->
       AllP (branch_sh cls T (shape cls D T) tg vs deny) bs) ->
    mk_tagged cls n tg rvs deny = Some te ->
    KSPost items props req ap (Some bs) (KOne tg) nm' s0 te sa.
  Proof.
    intros Hn Hnames Hv Hfst Hwa Hfa Hnsa Hga Hvda Htd HBr Hmk.
    unfold mk_tagged in Hmk. rewrite Hfst, Hv in Hmk. injection Hmk as <-.
    assert (Hlen : length ids = length rvs).
    { rewrite (variant_idents_length cls names ids Hv), <- Hfst. apply map_length. }
    destruct (combine_variants rvs ids Hlen) as (Hraw & Hident & Hfind & Hback). cbn zeta in *.
    set (vs := map (fun p => mkVariant (fst (fst p)) (snd p) (snd (fst p))) (combine rvs ids)) in *.
    split; [exact Hwa|exact Hfa|cbn [own_names]; rewrite Hn; reflexivity|cbn [sub_names]; exact Hnsa|exact Hga| |exact I|exact I
           |intros T _ _; exact I|].
    - cbn [te_ok det_ok].
      assert (Hvr : forall vr, In vr vs -> vdet_ok nD (lk sa) (v_det vr)).
      { intros vr Hvr. exact (Hvda _ (Hback vr Hvr)). }
      destruct tg as [|t|t c|]; cbn [tag_det_ok] in Htd.
      + exact Hvr.
      + intros vr Hin. pose proof (Htd _ (Hback vr Hin)) as H1. pose proof (Hvr vr Hin) as H2. cbn [snd] in H1.
        destruct (v_det vr); try exact H1. split; [exact H2|exact H1].
      + split; [exact Htd|exact Hvr].
      + exact Hvr.
    - intros T He Hp t Hr. cbn [realizes] in Hr. apply get_det_of in Hr. cbn [kshape].
      eexists n, vs, deny, _, names, ids.
      split; [exact Hr|]. split; [exact Hnames|]. split; [exact (variant_idents_nodup names ids Hv)|]. split; [exact Hv|].
      split; [exact (eq_trans Hraw Hfst)|]. split; [exact Hident|].
      exact (HBr T He Hp vs Hfind).
  Qed.

  (* ---------------------------------------------------------------- adjacently tagged *)
  Definition arv_rel (t c : ustring) (T : space) (rvs : list (ustring * vdetails)) (b : schema) : Prop :=
    forall x, assoc t (sch_props b) = Some (xsimple_sch [JStr x]) ->
      (sch_props b = [(t, xsimple_sch [JStr x])] -> In (x, VSimple) rvs) /\
      (forall sc, assoc c (sch_props b) = Some sc ->
         exists vd, In (x, vd) rvs /\ payload_sh cls T (shape cls D T) sc (own_deny sc) vd).

  Lemma arv_rel_mono t c T rvs rvs' b : incl rvs rvs' -> arv_rel t c T rvs b -> arv_rel t c T rvs' b.
  Proof.
    intros Hi H x Hx. destruct (H x Hx) as [H1 H2]. split.
    - intro Hp. apply Hi. exact (H1 Hp).
    - intros sc Hsc. destruct (H2 sc Hsc) as (vd & Hin & Hps). exists vd. split; [apply Hi; exact Hin|exact Hps].
  Qed.

  Lemma contents_cons c b r : contents c (b :: r) = (match assoc c (sch_props b) with Some sc => [sc] | None => [] end) ++ contents c r.
  Proof. reflexivity. Qed.

  Lemma conv_abranches_shape nm t c : ustr_eqb t c = false -> forall bs,
    Forall (PropP SP) bs -> forallb (adj_cond t c) bs = true -> one_frags cls D (TagAdjacent t c) bs = true ->
    (forall sc, In sc (contents c bs) -> classify_s sc <> Some (false, KNull)) ->
    forall s0 rvs dn s1, conv_abranches cvf nm t c bs s0 = Some (rvs, dn, s1) -> wf s0 -> nD < st_next s0 ->
    ents_ok nD (lk s0) ->
    NoDup (one_names cls (TagAdjacent t c) nm bs) ->
    (forall n, In n (one_names cls (TagAdjacent t c) nm bs) -> ~ In n (nkeys s0)) ->
    wf s1 /\ frame s0 s1 /\ names_sub s0 s1 (one_names cls (TagAdjacent t c) nm bs) /\ ents_ok nD (lk s1) /\
    (forall rv, In rv rvs -> vd_ok (lk s1) (snd rv)) /\ dn = existsb own_deny (contents c bs) /\
    forall T, ext s1 T -> DefsNamed T -> AllP (arv_rel t c T rvs) bs.
  Proof.
    intros Htc. induction bs as [|b r IH]; intros HP Hc Hf Hnn s0 rvs dn s1 Hcv Hw Hnx Hg Hnd Hfr.
    - cbn in Hcv. injection Hcv as <- <- <-.
      split; [exact Hw|]. split; [apply frame_refl|]. split; [apply names_sub_refl|]. split; [exact Hg|].
      split; [intros rv []|]. split; [reflexivity|]. intros T _ _. exact I.
    - cbn [forallb] in Hc. apply andb_true_iff in Hc. destruct Hc as [Hc1 Hc2].
      rewrite one_frags_cons in Hf. apply andb_true_iff in Hf. destruct Hf as [Hf1 Hf2].
      rewrite one_names_cons in Hnd, Hfr. rewrite contents_cons in Hnn.
      cbn [conv_abranches] in Hcv.
      destruct (conv_avariant_cases cls D nm t c b s0 Htc Hc1) as (x & Hax & [[Hv Hlone]|(sc & Hin & Hac & Hfold & Hnm & Hv)]);
        rewrite Hv in Hcv.
      + (* the tag alone: a unit variant *)
        destruct (conv_abranches cvf nm t c r s0) as [[[vs2 d2] s2]|] eqn:Hrr; [|discriminate].
        injection Hcv as <- <- <-.
        assert (Hnoc : assoc c (sch_props b) = None).
        { rewrite Hlone. cbn [assoc]. rewrite (ueqb_sym c t), Htc. reflexivity. }
        rewrite Hnoc in Hnn. cbn [app] in Hnn.
        assert (Hnil : branch_fold cls (TagAdjacent t c) nm (names_of cls) (@app ustring) [] b = []).
        { destruct b as [|bty bfmt benum bcst bnv bsv bik bitems bai bmni bmxi buq bprops breq bap bmnp bmxp ballo banyo boneo bno bref bdflt btitle];
            [reflexivity|]. cbn [sch_props] in Hlone. subst bprops. reflexivity. }
        rewrite Hnil in Hnd, Hfr. cbn [app] in Hnd, Hfr.
        destruct (IH (Forall_inv_tail HP) Hc2 Hf2 Hnn s0 vs2 d2 s2 Hrr Hw Hnx Hg Hnd Hfr)
          as (Hw2 & Hfr2 & Hns2 & Hg2 & Hvd2 & Hd2 & HR2).
        split; [exact Hw2|]. split; [exact Hfr2|]. split; [rewrite one_names_cons, Hnil; exact Hns2|]. split; [exact Hg2|].
        split; [|split].
        * intros rv [<-|Hin]; [exact I|exact (Hvd2 rv Hin)].
        * rewrite contents_cons, Hnoc. exact Hd2.
        * intros T He Hp. cbn [AllP]. split.
          -- intros x' Hx'. rewrite Hax in Hx'. injection Hx' as <-. split; [intros _; left; reflexivity|].
             intros sc Hsc. rewrite Hnoc in Hsc. discriminate.
          -- apply AllP_In. intros b' Hb'. eapply arv_rel_mono; [apply incl_tl, incl_refl|].
             exact (proj1 (AllP_In _ _) (HR2 T He Hp) b' Hb').
      + (* tag + content *)
        rewrite Hfold in Hf1. rewrite (Hnm nm) in Hnd, Hfr. rewrite Hac in Hnn. cbn [app] in Hnn.
        destruct (conv_xvar cvf nm _ sc s0) as [[[vd deny] sa]|] eqn:Hx; [|discriminate].
        destruct (conv_abranches cvf nm t c r sa) as [[[vs2 d2] s2]|] eqn:Hrr; [|discriminate].
        injection Hcv as <- <- <-.
        destruct (conv_xvar_shape nm _ sc (Forall_inv HP c sc Hin) Hf1 (Hnn sc (or_introl eq_refl))
                    s0 vd deny sa Hx Hw Hnx Hg (NoDup_app_l _ _ Hnd))
          as (Hwa & Hfa & Hnsa & Hga & Hvda & Hda & HSa).
        { intros n Hin'. apply Hfr. apply in_or_app. left. exact Hin'. }
        assert (Hnxa : nD < st_next sa) by (destruct Hfa as [Hx' _]; lia).
        destruct (IH (Forall_inv_tail HP) Hc2 Hf2 (fun sc' H => Hnn sc' (or_intror H)) sa vs2 d2 s2 Hrr Hwa Hnxa Hga
                    (NoDup_app_r _ _ Hnd))
          as (Hw2 & Hfr2 & Hns2 & Hg2 & Hvd2 & Hd2 & HR2).
        { intros n Hin1 Hin2. destruct (Hnsa n Hin2) as [H|H].
          - apply (Hfr n); [apply in_or_app; right; exact Hin1|exact H].
          - exact (NoDup_app_disj _ _ n Hnd H Hin1). }
        split; [exact Hw2|]. split; [eapply frame_trans; eassumption|]. split.
        * rewrite one_names_cons, (Hnm nm). eapply names_sub_trans; eassumption.
        * split; [exact Hg2|]. split; [|split].
          -- intros rv [<-|Hin']; [|exact (Hvd2 rv Hin')]. cbn [snd].
             eapply vd_ok_mono; [exact (frame_mono sa s2 Hwa Hfr2)|exact Hvda].
          -- rewrite contents_cons, Hac. cbn [app existsb]. rewrite Hda. f_equal. exact Hd2.
          -- intros T He Hp. cbn [AllP]. split.
             ++ intros x' Hx'. rewrite Hax in Hx'. injection Hx' as <-. split.
                ** intro Hl. exfalso. rewrite Hl in Hin. destruct Hin as [Hin|[]]. injection Hin as Hin _.
                   subst c. rewrite ustr_eqb_refl in Htc. discriminate.
                ** intros sc' Hsc'. rewrite Hac in Hsc'. injection Hsc' as <-. exists vd. split; [left; reflexivity|].
                   apply HSa; [eapply ext_frame; eassumption|exact Hp].
             ++ apply AllP_In. intros b' Hb'. eapply arv_rel_mono; [apply incl_tl, incl_refl|].
                exact (proj1 (AllP_In _ _) (HR2 T He Hp) b' Hb').
  Qed.

  (* ---------------------------------------------------------------- internally tagged *)
  Definition irv_rel (t : ustring) (T : space) (rvs : list (ustring * vdetails)) (b : schema) : Prop :=
    forall x, assoc t (sch_props b) = Some (xsimple_sch [JStr x]) ->
      (sch_props b = [(t, xsimple_sch [JStr x])] -> In (x, VSimple) rvs) /\
      ((forall k1 s1, sch_props b <> [(k1, s1)]) ->
         exists ps, In (x, VStruct ps) rvs /\
                    struct_sh_skip cls T (shape cls D T) t (sch_props b) (sch_required b) ps).

  Lemma irv_rel_mono t T rvs rvs' b : incl rvs rvs' -> irv_rel t T rvs b -> irv_rel t T rvs' b.
  Proof.
    intros Hi H x Hx. destruct (H x Hx) as [H1 H2]. split.
    - intro Hp. apply Hi. exact (H1 Hp).
    - intros Hn. destruct (H2 Hn) as (ps & Hin & Hs). exists ps. split; [apply Hi; exact Hin|exact Hs].
  Qed.

  Lemma struct_sh_rest T t props req ps :
    struct_sh cls T (shape cls D T) (rest_of t props) req ps -> struct_sh_skip cls T (shape cls D T) t props req ps.
  Proof.
    intros (H1 & H2 & H3 & H4). split; [exact H1|]. split; [exact H2|]. split.
    - apply AllP_In. intros kv Hkv. destruct (ustr_eqb (fst kv) t) eqn:E; [left; reflexivity|right].
      apply (proj1 (AllP_In _ _) H3 kv). unfold rest_of. apply filter_In. split; [exact Hkv|]. rewrite E. reflexivity.
    - intros p Hp. destruct (H4 p Hp) as (kv & Hkv & Hw). unfold rest_of in Hkv. apply filter_In in Hkv.
      destruct Hkv as [Hkv E]. apply negb_true_iff in E. exists kv. repeat split; assumption.
  Qed.

  Lemma rest_keys_nodup t props : keys_sorted (map fst props) = true -> NoDup (map fst (rest_of t props)).
  Proof.
    intro H. apply keys_sorted_NoDup in H. revert H. unfold rest_of.
    induction props as [|[k s'] q IH]; intro H; [constructor|]. cbn [map fst] in H. inversion H as [|? ? Hni Hq]; subst.
    cbn [filter fst]. destruct (negb (ustr_eqb k t)); [|exact (IH Hq)]. cbn [map fst]. constructor; [|exact (IH Hq)].
    intro Hin. apply Hni. apply in_map_iff in Hin. destruct Hin as (x & Hx & Hxin). apply filter_In in Hxin.
    apply in_map_iff. exists x. split; [exact Hx|exact (proj1 Hxin)].
  Qed.

  Lemma rest_no_tag t props : ~ In t (map fst (rest_of t props)).
  Proof.
    intro Hin. apply in_map_iff in Hin. destruct Hin as ([k s'] & Hk & Hin). cbn [fst] in Hk. subst k.
    unfold rest_of in Hin. apply filter_In in Hin. destruct Hin as [_ E]. cbn [fst] in E. rewrite ustr_eqb_refl in E. discriminate.
  Qed.

  Lemma conv_ibranches_shape nm base t : name_opt nm = Some base -> forall bs,
    Forall (PropP SP) bs -> forallb (int_cond cls t) bs = true -> one_frags cls D (TagInternal t) bs = true ->
    forall s0 rvs s1, conv_ibranches cls cvf nm t bs s0 = Some (rvs, s1) -> wf s0 -> nD < st_next s0 ->
    ents_ok nD (lk s0) ->
    NoDup (one_names cls (TagInternal t) nm bs) ->
    (forall n, In n (one_names cls (TagInternal t) nm bs) -> ~ In n (nkeys s0)) ->
    wf s1 /\ frame s0 s1 /\ names_sub s0 s1 (one_names cls (TagInternal t) nm bs) /\ ents_ok nD (lk s1) /\
    (forall rv, In rv rvs -> vd_ok (lk s1) (snd rv)) /\ tag_det_ok (TagInternal t) rvs /\
    forall T, ext s1 T -> DefsNamed T -> AllP (irv_rel t T rvs) bs.
  Proof.
    intros Hb. induction bs as [|b r IH]; intros HP Hc Hf s0 rvs s1 Hcv Hw Hnx Hg Hnd Hfr.
    - cbn in Hcv. injection Hcv as <- <-.
      split; [exact Hw|]. split; [apply frame_refl|]. split; [apply names_sub_refl|]. split; [exact Hg|].
      split; [intros rv []|]. split; [intros rv []|]. intros T _ _. exact I.
    - cbn [forallb] in Hc. apply andb_true_iff in Hc. destruct Hc as [Hc1 Hc2].
      rewrite one_frags_cons in Hf. apply andb_true_iff in Hf. destruct Hf as [Hf1 Hf2].
      rewrite one_names_cons in Hnd, Hfr.
      cbn [conv_ibranches] in Hcv.
      destruct (conv_ivariant_cases cls D nm base t b s0 Hb Hc1)
        as (props & req & closed & x & -> & Ha & Hreq & Hhas & Hks & Hun & Hopt & [[-> Hv]|[Hnl Hv]]); rewrite Hv in Hcv.
      + (* the tag alone *)
        destruct (conv_ibranches cls cvf nm t r s0) as [[vs2 s2]|] eqn:Hrr; [|discriminate].
        injection Hcv as <- <-.
        assert (Hnil : branch_fold cls (TagInternal t) nm (names_of cls) (@app ustring) [] (tbranch [(t, xsimple_sch [JStr x])] req closed) = []).
        { cbn [branch_fold tbranch]. rewrite Hb. rewrite ustr_eqb_refl. reflexivity. }
        rewrite Hnil in Hnd, Hfr. cbn [app] in Hnd, Hfr.
        destruct (IH (Forall_inv_tail HP) Hc2 Hf2 s0 vs2 s2 Hrr Hw Hnx Hg Hnd Hfr)
          as (Hw2 & Hfr2 & Hns2 & Hg2 & Hvd2 & Htd2 & HR2).
        split; [exact Hw2|]. split; [exact Hfr2|]. split; [rewrite one_names_cons, Hnil; exact Hns2|]. split; [exact Hg2|].
        split; [|split].
        * intros rv [<-|Hin]; [exact I|exact (Hvd2 rv Hin)].
        * intros rv [<-|Hin]; [exact I|exact (Htd2 rv Hin)].
        * intros T He Hp. cbn [AllP]. split.
          -- intros x' Hx'. cbn [sch_props tbranch] in *. rewrite Ha in Hx'. injection Hx' as <-.
             split; [intros _; left; reflexivity|]. intros Hn. exfalso. exact (Hn _ _ eq_refl).
          -- apply AllP_In. intros b' Hb'. eapply irv_rel_mono; [apply incl_tl, incl_refl|].
             exact (proj1 (AllP_In _ _) (HR2 T He Hp) b' Hb').
      + (* a struct variant *)
        assert (Hfoldn : branch_fold cls (TagInternal t) nm (names_of cls) (@app ustring) [] (tbranch props req closed)
                         = prop_names cls base (rest_of t props)).
        { cbn [branch_fold tbranch]. rewrite Hb. apply (ifold_names cls t base props). }
        cbn [branch_fold tbranch name_opt] in Hf1. rewrite (ifold_frag cls D t props) in Hf1.
        rewrite Hfoldn in Hnd, Hfr.
        assert (HPp : Forall (fun kv => SP (snd kv)) (rest_of t props)).
        { apply Forall_forall. intros [k sc] Hin. unfold rest_of in Hin. apply filter_In in Hin.
          exact (Forall_inv HP k sc (proj1 Hin)). }
        destruct (conv_props cls cvf base req (rest_of t props) s0) as [[ps sa]|] eqn:Hcp; [|discriminate].
        destruct (Sanitize.unique (map p_name (sort_props ps))) eqn:Hu; [|discriminate].
        destruct (conv_ibranches cls cvf nm t r sa) as [[vs2 s2]|] eqn:Hrr; [|discriminate].
        injection Hcv as <- <-.
        destruct (conv_props_shape base req (rest_of t props) HPp Hf1 s0 ps sa Hcp Hw Hnx Hg (NoDup_app_l _ _ Hnd))
          as (Hwa & Hfa & Hnsa & Hga & HR).
        { intros n Hin. apply Hfr. apply in_or_app. left. exact Hin. }
        destruct (members_facts req (rest_of t props) ps sa HR (rest_keys_nodup t props Hks) Hu) as (Hpok & Hpid & Hwn & HSS).
        assert (Hnxa : nD < st_next sa) by (destruct Hfa as [Hx' _]; lia).
        destruct (IH (Forall_inv_tail HP) Hc2 Hf2 sa vs2 s2 Hrr Hwa Hnxa Hga (NoDup_app_r _ _ Hnd))
          as (Hw2 & Hfr2 & Hns2 & Hg2 & Hvd2 & Htd2 & HR2).
        { intros n Hin1 Hin2. destruct (Hnsa n Hin2) as [H|H].
          - apply (Hfr n); [apply in_or_app; right; exact Hin1|exact H].
          - exact (NoDup_app_disj _ _ n Hnd H Hin1). }
        assert (Hnot : mem_ustr t (wire_names (sort_props ps)) = false).
        { destruct (mem_ustr t (wire_names (sort_props ps))) eqn:E; [|reflexivity]. exfalso.
          apply mem_ustr_In in E. apply (rest_no_tag t props). rewrite <- Hwn.
          eapply Permutation_in; [apply wire_names_perm, sort_props_perm|exact E]. }
        split; [exact Hw2|]. split; [eapply frame_trans; eassumption|]. split.
        * rewrite one_names_cons, Hfoldn. eapply names_sub_trans; eassumption.
        * split; [exact Hg2|]. split; [|split].
          -- intros rv [<-|Hin']; [|exact (Hvd2 rv Hin')]. cbn [snd vd_ok]. split; [exact Hpok|].
             intros p Hp. eapply idok_mono; [exact (frame_mono sa s2 Hwa Hfr2)|exact (Hpid p Hp)].
          -- intros rv [<-|Hin']; [exact Hnot|exact (Htd2 rv Hin')].
          -- intros T He Hp. cbn [AllP]. split.
             ++ intros x' Hx'. cbn [sch_props sch_required tbranch] in *. rewrite Ha in Hx'. injection Hx' as <-. split.
                ** intro Hl. exfalso. exact (Hnl _ _ Hl).
                ** intros _. exists (sort_props ps). split; [left; reflexivity|].
                   apply struct_sh_rest. apply HSS; [eapply ext_frame; eassumption|exact Hp].
             ++ apply AllP_In. intros b' Hb'. eapply irv_rel_mono; [apply incl_tl, incl_refl|].
                exact (proj1 (AllP_In _ _) (HR2 T He Hp) b' Hb').
  Qed.

  (* ---------------------------------------------------------------- untagged over scalar arms *)
  Definition urv_rel (T : space) (rvs : list (ustring * vdetails)) (b : schema) : Prop :=
    exists x t', In (x, VItem t') rvs /\ shape cls D T b t'.

  Lemma conv_ubranches_shape n : forall bs i,
    Forall SP bs -> forallb scalar_kind bs = true ->
    forall s0 rvs dn s1, conv_ubranches cvf n i bs s0 = Some (rvs, dn, s1) -> wf s0 -> nD < st_next s0 ->
    ents_ok nD (lk s0) ->
    wf s1 /\ frame s0 s1 /\ names_sub s0 s1 [] /\ ents_ok nD (lk s1) /\
    (forall rv, In rv rvs -> vd_ok (lk s1) (snd rv)) /\
    forall T, ext s1 T -> DefsNamed T -> AllP (urv_rel T rvs) bs.
  Proof.
    induction bs as [|b r IH]; intros i HP Hk s0 rvs dn s1 Hcv Hw Hnx Hg.
    - cbn in Hcv. injection Hcv as <- <- <-.
      split; [exact Hw|]. split; [apply frame_refl|]. split; [apply names_sub_refl|]. split; [exact Hg|].
      split; [intros rv []|]. intros T _ _. exact I.
    - cbn [forallb] in Hk. apply andb_true_iff in Hk. destruct Hk as [Hk1 Hk2].
      cbn [conv_ubranches] in Hcv.
      destruct (conv_xvar cvf (NSuggested n) _ b s0) as [[[vd d1] sa]|] eqn:Hx; [|discriminate].
      destruct (conv_ubranches cvf n (S i) r sa) as [[[vs2 d2] s2]|] eqn:Hrr; [|discriminate].
      injection Hcv as <- <- <-.
      assert (Hnn : classify_s b <> Some (false, KNull)).
      { intro Hc. unfold scalar_kind in Hk1. rewrite Hc in Hk1. discriminate. }
      set (v := s_Variant ++ ulit (show_N (N.of_nat i))) in *.
      pose proof (scalar_names cls b (append_name (NSuggested n) v) Hk1) as Hnil.
      destruct (conv_xvar_shape (NSuggested n) v b (Forall_inv HP) (scalar_frag cls D b Hk1) Hnn s0 vd d1 sa Hx Hw Hnx Hg)
        as (Hwa & Hfa & Hnsa & Hga & Hvda & _ & HSa).
      { rewrite Hnil. constructor. }
      { rewrite Hnil. intros x []. }
      rewrite Hnil in Hnsa.
      assert (Hnxa : nD < st_next sa) by (destruct Hfa as [Hx' _]; lia).
      destruct (IH (S i) (Forall_inv_tail HP) Hk2 sa vs2 d2 s2 Hrr Hwa Hnxa Hga) as (Hw2 & Hfr2 & Hns2 & Hg2 & Hvd2 & HR2).
      destruct (conv_xvar_scalar cls D _ _ b s0 vd d1 sa Hk1 Hx) as (t & -> & ->).
      split; [exact Hw2|]. split; [eapply frame_trans; eassumption|]. split.
      + eapply names_sub_trans with (L1 := []) (L2 := []); eassumption.
      + split; [exact Hg2|]. split.
        * intros rv [<-|Hin']; [|exact (Hvd2 rv Hin')]. cbn [snd].
          eapply vd_ok_mono; [exact (frame_mono sa s2 Hwa Hfr2)|exact Hvda].
        * intros T He Hp. cbn [AllP]. split.
          -- exists v, t. split; [left; reflexivity|].
             pose proof (HSa T (ext_frame _ _ T Hwa Hfr2 He) Hp) as Hps. cbn [payload_sh] in Hps. exact Hps.
          -- apply AllP_In. intros b' Hb'. destruct (proj1 (AllP_In _ _) (HR2 T He Hp) b' Hb') as (x & t' & Hin & Hsh).
             exists x, t'. split; [right; exact Hin|exact Hsh].
  Qed.

  (* only a nullable node or an Option union converts to an Option entry *)
  Lemma conv_nonopt_te sc nm s0 te s1 k :
    cvf sc nm s0 = Some (te, s1) -> classify_s sc = Some (false, k) -> k <> KOpt ->
    match te with DOption _ => False | _ => True end.
  Proof.
    destruct sc as [[|]|ty fmt enum cst nv sv ik items ai mni mxi uq props req ap mnp mxp allo anyo oneo no ref dflt title];
      try discriminate.
    cbn [conv classify_s]. intros Hc Hcl Hk. rewrite Hcl in Hc. cbn [conv_node] in Hc.
    destruct k as [| | | |mx mn pat|r|raws|deny| | |c|c|r| |tg|]; cbn [conv_kind] in Hc; try congruence;
      try (injection Hc as <- _; exact I).
    - destruct (assign DString _). destruct (type_name cls nm); [|discriminate]. injection Hc as <- _. exact I.
    - destruct (type_name cls nm); [|discriminate]. unfold mk_enum in Hc.
      destruct (Sanitize.variant_idents cls raws); try discriminate. injection Hc as <- _. exact I.
    - destruct (type_name cls nm); [|discriminate]. destruct (conv_props cls cvf u req props s0) as [[ps sa]|]; [|discriminate].
      destruct (Sanitize.unique _); [|discriminate]. injection Hc as <- _. exact I.
    - destruct (assign DString s0). destruct ap.
      + destruct (cvf s2 _ s); [|discriminate]. destruct p. destruct (assign d s3). injection Hc as <- _. exact I.
      + destruct (assign DJsonValue _). injection Hc as <- _. exact I.
    - destruct (conv_items cvf nm 0 items s0) as [[ts sa]|]; [|discriminate]. injection Hc as <- _. exact I.
    - destruct items as [|it [|? ?]]; try discriminate. destruct (cvf it _ s0) as [[tei sa]|]; [|discriminate].
      destruct (assign tei sa). injection Hc as <- _. destruct c; exact I.
    - destruct (assign DJsonValue _). injection Hc as <- _. destruct c; exact I.
    - destruct (ref_id D r); [|discriminate]. injection Hc as <- _. exact I.
    - destruct tg as [|t|t c|]; (destruct (type_name cls nm); [|discriminate]); (destruct (union_of oneo anyo) as [bs|]; [|discriminate]).
      + destruct (conv_xbranches cvf nm bs s0) as [[[rvs dn] sa]|]; [|discriminate]. unfold mk_tagged in Hc.
        destruct (Sanitize.variant_idents cls (map fst rvs)); try discriminate. injection Hc as <- _. exact I.
      + destruct (conv_ibranches cls cvf nm t bs s0) as [[rvs sa]|]; [|discriminate]. unfold mk_tagged in Hc.
        destruct (Sanitize.variant_idents cls (map fst rvs)); try discriminate. injection Hc as <- _. exact I.
      + destruct (conv_abranches cvf nm t c bs s0) as [[[rvs dn] sa]|]; [|discriminate]. unfold mk_tagged in Hc.
        destruct (Sanitize.variant_idents cls (map fst rvs)); try discriminate. injection Hc as <- _. exact I.
      + destruct (conv_ubranches cvf u 0 bs s0) as [[[rvs dn] sa]|]; [|discriminate]. destruct (_ <=? _)%nat; [discriminate|].
        unfold mk_tagged in Hc.
        destruct (Sanitize.variant_idents cls (map fst rvs)); try discriminate. injection Hc as <- _. exact I.
  Qed.

  Lemma kind_shape items props req ap oneo k nm' s0 te s1
      (Hfk : frag_kind cls D k items props req ap oneo = true)
      (IHitems : Forall SP items)
      (IHprops : Forall (fun kv => SP (snd kv)) props)
      (IHap : OForall SP ap)
      (IHone0 : OForall (Forall (fun b => SP b /\ PropP SP b)) oneo) :
    conv_kind cls (ref_id D) cvf k nm' items props req ap oneo s0 = Some (te, s1) -> wf s0 -> nD < st_next s0 ->
    ents_ok nD (lk s0) ->
    NoDup (own_names cls nm' k ++ sub_names cls k nm' items props ap oneo) ->
    (forall n, In n (own_names cls nm' k ++ sub_names cls k nm' items props ap oneo) -> ~ In n (nkeys s0)) ->
    KSPost items props req ap oneo k nm' s0 te s1.
  Proof.
    intros Hc Hw Hnx Hg Hnd Hfr.
    destruct k as [| | | |mx mn pat|r|raws|deny| | |c|c|r| |tg|]; cbn [conv_kind] in Hc.
    16: { (* KOpt: Option of the non-null arm *)
      destruct (arms_props SP oneo IHone0) as [_ IHoneB].
      cbn [frag_kind] in Hfk. destruct oneo as [[|a [|b [|]]]|]; try discriminate. cbn [OForall] in IHoneB.
      cbn [own_names sub_names app] in Hnd, Hfr.
      assert (Hgen : forall arm, SP arm -> opt_arm_ok arm && frag cls keys arm = true ->
                match cvf arm (inner_name nm') s0 with
                | Some (te0, s1') => let '(i, s2) := assign te0 s1' in Some (DOption i, s2)
                | None => None
                end = Some (te, s1) ->
                NoDup (names_of cls arm (inner_name nm')) ->
                (forall n, In n (names_of cls arm (inner_name nm')) -> ~ In n (nkeys s0)) ->
                exists i, te = DOption i /\ wf s1 /\ frame s0 s1 /\ names_sub s0 s1 (names_of cls arm (inner_name nm')) /\
                  ents_ok nD (lk s1) /\ te_ok nD (lk s1) te /\
                  forall T, ext s1 T -> DefsNamed T -> shape cls D T arm i).
      { intros arm HPa Hok Hcv Hnda Hfra. apply andb_true_iff in Hok. destruct Hok as [Hok Hfa].
        destruct (cvf arm (inner_name nm') s0) as [[te0 s1']|] eqn:Hca; [|discriminate].
        destruct (assign te0 s1') as [i s2] eqn:Ha. injection Hcv as <- <-.
        destruct (SP_assign arm HPa Hfa _ _ _ _ _ _ Hca Ha Hw Hnx Hg Hnda Hfra) as [Hw2 Hf2 Hns2 Hg2 Hid2 HS2].
        exists i. split; [reflexivity|]. split; [exact Hw2|]. split; [exact Hf2|]. split; [exact Hns2|]. split; [exact Hg2|].
        split; [|exact HS2].
        cbn [te_ok det_ok]. split; [exact Hid2|]. intros e He.
        assert (Hno : match te0 with DOption _ => False | _ => True end).
        { unfold opt_arm_ok in Hok. destruct (classify_s arm) as [[[|] k']|] eqn:Hcl'; try discriminate.
          apply (conv_nonopt_te arm _ s0 te0 s1' k' Hca Hcl'). intros ->. discriminate Hok. }
        destruct (HPa Hfa _ _ _ _ Hca Hw Hnx Hg Hnda Hfra) as [Hw1 Hf1 (L & HL & Hns1) Hg1 Hte1 _ _ _].
        assert (Hfresh : forall n, det_name te0 = Some n -> ~ In n (nkeys s1')).
        { intros n Hn Hin. unfold own_of in HL. rewrite Hn in HL.
          destruct (Hns1 n Hin) as [H|H].
          - apply (Hfra n); [rewrite HL; left; reflexivity|exact H].
          - rewrite HL in Hnda. cbn in Hnda. inversion Hnda; subst. contradiction. }
        destruct (assign_ok te0 s1' i s2 Ha Hw1 Hfresh) as (_ & _ & Hr2 & _ & _).
        destruct te0; cbn [realizes] in Hr2; try contradiction;
          try (rewrite Hr2 in He; injection He as <-; exact I).
        subst i. cbn [te_ok] in Hte1. destruct Hg2 as [_ Hg2b].
        apply named_not_option. exact (Hg2b _ e (proj1 Hte1) (proj2 Hte1) He). }
      destruct (nullish a) eqn:Hna.
      - destruct (Hgen b (Forall_inv (Forall_inv_tail IHoneB)) Hfk Hc Hnd Hfr) as (i & -> & Hw1 & Hf1 & Hns1 & Hg1 & Hte1 & HS1).
        split; [exact Hw1|exact Hf1|reflexivity|cbn [sub_names]; rewrite Hna; exact Hns1|exact Hg1|exact Hte1|reflexivity|exact I
               |intros T _ _; exact I|].
        intros T He Hp t Hr. cbn [realizes] in Hr. apply get_det_of in Hr. cbn [kshape]. rewrite Hna.
        exists i. split; [exact Hr|exact (HS1 T He Hp)].
      - destruct (Hgen a (Forall_inv IHoneB) Hfk Hc Hnd Hfr) as (i & -> & Hw1 & Hf1 & Hns1 & Hg1 & Hte1 & HS1).
        split; [exact Hw1|exact Hf1|reflexivity|cbn [sub_names]; rewrite Hna; exact Hns1|exact Hg1|exact Hte1|reflexivity|exact I
               |intros T _ _; exact I|].
        intros T He Hp t Hr. cbn [realizes] in Hr. apply get_det_of in Hr. cbn [kshape]. rewrite Hna.
        exists i. split; [exact Hr|exact (HS1 T He Hp)]. }
    - injection Hc as <- <-. apply scalar_kspost; try reflexivity; try assumption; try exact I. intros T t H; exact H.
    - injection Hc as <- <-. apply scalar_kspost; try reflexivity; try assumption; try exact I. intros T t H; exact H.
    - injection Hc as <- <-. apply scalar_kspost; try reflexivity; try assumption; try exact I. intros T t H; exact H.
    - injection Hc as <- <-. apply scalar_kspost; try reflexivity; try assumption; try exact I. intros T t H; exact H.
    - (* KStrC *)
      destruct (assign DString _) as [sid s1'] eqn:Ha.
      destruct (type_name cls nm') as [n|] eqn:Hn; [|discriminate]. injection Hc as <- <-.
      destruct (str_assigned pat s0 sid s1' Ha Hw Hnx Hg) as (Hw3 & Hf3 & Hns3 & Hg3 & Hid3 & Hl3).
      split; [exact Hw3|exact Hf3|cbn [own_names]; rewrite Hn; reflexivity|exact Hns3|exact Hg3|exact Hid3|exact I|exact I
             |intros T _ _; exact I|].
      intros T He Hp t Hr. cbn [realizes] in Hr. apply get_det_of in Hr. cbn [kshape].
      exists n, sid. split; [exact Hr|exact (get_det_of _ _ _ _ (He _ _ Hl3))].
    - injection Hc as <- <-. apply scalar_kspost; try reflexivity; try assumption; try exact I. intros T t H; exact H.
    - (* KEnum *)
      destruct (type_name cls nm') as [n|] eqn:Hn; [|discriminate].
      unfold mk_enum in Hc.
      destruct (Sanitize.variant_idents cls raws) as [ids| |] eqn:Hv; try discriminate.
      injection Hc as <- <-.
      split; [exact Hw|apply frame_refl|cbn [own_names]; rewrite Hn; reflexivity|apply names_sub_refl|exact Hg| |exact I|exact I
             |intros T _ _; exact I|].
      + cbn [te_ok det_ok]. intros v Hvin. apply in_map_iff in Hvin. destruct Hvin as (pp & <- & _). exact I.
      + intros T He Hp t Hr. cbn [realizes] in Hr. apply get_det_of in Hr. cbn [kshape].
        exists n, ids. split; [exact Hv|exact Hr].
    - (* KStruct *)
      destruct (type_name cls nm') as [base|] eqn:Hn; [|discriminate].
      destruct (conv_props cls cvf base req props s0) as [[ps sa]|] eqn:Hcp; [|discriminate].
      destruct (Sanitize.unique (map p_name (sort_props ps))) eqn:Hun; [|discriminate].
      injection Hc as <- <-.
      cbn [frag_kind] in Hfk. apply andb_true_iff in Hfk. destruct Hfk as [Hfk Hfp].
      apply andb_true_iff in Hfk. destruct Hfk as [Hfk _].
      apply andb_true_iff in Hfk. destruct Hfk as [Hfk _]. apply andb_true_iff in Hfk. destruct Hfk as [Hks _].
      cbn [own_names sub_names] in Hnd, Hfr. rewrite Hn in Hnd, Hfr.
      destruct (conv_props_shape base req props IHprops Hfp s0 ps sa Hcp Hw Hnx Hg) as (Hwa & Hfa & Hnsa & Hga & HR).
      { apply (NoDup_app_r _ _ Hnd). }
      { intros n Hin. apply Hfr. apply in_or_app. right. exact Hin. }
      assert (Hperm : Permutation (sort_props ps) ps) by apply sort_props_perm.
      assert (Hwn : wire_names ps = map fst props).
      { apply wire_names_map. eapply Forall2_weaken; [|exact HR]. intros x y [H _]. exact H. }
      assert (Hndw : NoDup (wire_names (sort_props ps))).
      { eapply Permutation_NoDup; [apply Permutation_sym, wire_names_perm, Hperm|]. rewrite Hwn.
        apply keys_sorted_NoDup. exact Hks. }
      assert (Hndn : NoDup (map p_name (sort_props ps))) by (apply unique_true_iff; exact Hun).
      assert (Hin' : forall p, In p (sort_props ps) -> In p ps) by (intros p Hp; eapply Permutation_in; eassumption).
      assert (HSS : forall T, ext sa T -> DefsNamed T -> struct_sh cls T (shape cls D T) props req (sort_props ps)).
      { intros T He Hp. split; [exact Hndw|]. split; [exact Hndn|]. split.
        * apply AllP_In. intros kv Hkv. destruct (Forall2_In_l _ _ _ _ HR Hkv) as (p & Hpin & _ & _ & HM).
          exists p. split; [eapply Permutation_in; [apply Permutation_sym; exact Hperm|exact Hpin]|]. exact (HM T He Hp).
        * intros p Hpin. destruct (Forall2_In_r _ _ _ _ HR (Hin' p Hpin)) as (kv & Hkv & Hwp & _).
          exists kv. split; assumption. }
      split; [exact Hwa|exact Hfa|cbn [own_names]; rewrite Hn; reflexivity|cbn [sub_names]; rewrite Hn; exact Hnsa
             |exact Hga| |exact I|reflexivity|exact HSS|].
      + cbn [te_ok det_ok]. split.
        * unfold RoundTrip.props_ok. rewrite (rt_nodup_ustr_NoDup _ Hndn), (rt_nodup_ustr_NoDup _ Hndw), !andb_true_r.
          apply forallb_forall. intros p Hp. destruct (Forall2_In_r _ _ _ _ HR (Hin' p Hp)) as (kv & _ & Hwp & _).
          unfold RoundTrip.no_flatten. unfold wire_name in Hwp. destruct (p_rename p); [reflexivity|reflexivity|discriminate].
        * intros p Hp. destruct (Forall2_In_r _ _ _ _ HR (Hin' p Hp)) as (kv & _ & _ & Hid & _). exact Hid.
      + intros T He Hp t Hr. cbn [realizes] in Hr. apply get_det_of in Hr. cbn [kshape].
        exists base, (sort_props ps). split; [exact Hr|exact (HSS T He Hp)].
    - (* KMap *)
      destruct (assign DString s0) as [kid sk] eqn:Hak.
      assert (Hfk0 : forall n, det_name DString = Some n -> ~ In n (nkeys s0)) by (intros n Hn0; discriminate).
      destruct (assign_ok _ _ _ _ Hak Hw Hfk0) as (Hwk & Hfrk & Hrk & _ & Hnsk).
      destruct (assign_ents_ok nD _ _ _ _ Hak Hw Hnx Hg I Hfk0) as (Hgk & Hidk & Hnxk).
      cbn [realizes] in Hrk. cbn [det_name] in Hnsk.
      cbn [own_names sub_names app] in Hnd, Hfr.
      assert (Hfin : forall s3 vid, wf s3 -> frame sk s3 -> ents_ok nD (lk s3) -> idok nD (lk s3) vid ->
                 names_sub sk s3 (sub_names cls KMap nm' items props ap oneo) ->
                 (forall T, ext s3 T -> DefsNamed T ->
                    match ap with None => has T vid DJsonValue | Some (SBool _) => has T vid DJsonValue
                                | Some sa => shape cls D T sa vid end) ->
                 KSPost items props req ap oneo KMap nm' s0 (DMap kid vid) s3).
      { intros s3 vid Hw3 Hf3 Hg3 Hid3 Hns3 HV.
        pose proof (frame_keeps _ _ _ _ Hwk Hf3 Hrk) as Hk3.
        split; [exact Hw3|eapply frame_trans; eassumption|reflexivity| |exact Hg3| |exact I|exact I|intros T _ _; exact I|].
        - intros n Hin. destruct (Hns3 n Hin) as [H|H]; [|right; exact H]. destruct (Hnsk n H) as [H'|[]]. left. exact H'.
        - cbn [te_ok det_ok]. split; [eexists; split; [exact Hk3|reflexivity]|exact Hid3].
        - intros T He Hp t Hr. cbn [realizes] in Hr. apply get_det_of in Hr. cbn [kshape].
          exists kid, vid. split; [exact Hr|]. split; [exact (get_det_of _ _ _ _ (He _ _ Hk3))|]. exact (HV T He Hp). }
      destruct ap as [vs|].
      + destruct (cvf vs (value_name nm') sk) as [[tev s2]|] eqn:Hcv; [|discriminate].
        destruct (assign tev s2) as [vid s3] eqn:Hav. injection Hc as <- <-.
        destruct vs as [[|]|vty vfmt venum vcst vnv vsv vik vitems vai vmni vmxi vuq vprops vreq vap vmnp vmxp vallo vanyo voneo vno vref vdflt vtitle].
        * cbn [conv union_of] in Hcv. injection Hcv as <- <-.
          destruct (json_assigned sk vid s3 Hav Hwk Hnxk Hgk) as (Hw3 & Hf3 & Hns3 & Hg3 & Hid3 & Hl3).
          apply (Hfin s3 vid Hw3 Hf3 Hg3 Hid3).
          -- cbn [sub_names names_of union_of]. exact Hns3.
          -- intros T He Hp. exact (get_det_of _ _ _ _ (He _ _ Hl3)).
        * cbn [frag_kind frag] in Hfk. discriminate.
        * cbn [frag_kind] in Hfk. cbn [OForall] in IHap.
          destruct (SP_assign _ IHap Hfk _ _ _ _ _ _ Hcv Hav Hwk Hnxk Hgk) as [Hw3 Hf3 Hns3 Hg3 Hid3 HS3].
          { exact Hnd. }
          { intros n Hin Hin'. destruct (Hnsk n Hin') as [H|[]]. exact (Hfr n Hin H). }
          apply (Hfin s3 vid Hw3 Hf3 Hg3 Hid3); [cbn [sub_names]; exact Hns3|exact HS3].
      + destruct (assign DJsonValue (set_json sk)) as [vid s3] eqn:Hav. injection Hc as <- <-.
        destruct (json_assigned sk vid s3 Hav Hwk Hnxk Hgk) as (Hw3 & Hf3 & Hns3 & Hg3 & Hid3 & Hl3).
        apply (Hfin s3 vid Hw3 Hf3 Hg3 Hid3).
        * cbn [sub_names]. exact Hns3.
        * intros T He Hp. exact (get_det_of _ _ _ _ (He _ _ Hl3)).
    - (* KTuple *)
      destruct (conv_items cvf nm' 0 items s0) as [[ts s1']|] eqn:Hci; [|discriminate]. injection Hc as <- <-.
      cbn [frag_kind] in Hfk. cbn [own_names sub_names app] in Hnd, Hfr.
      destruct (conv_items_shape nm' items IHitems Hfk 0%nat s0 ts s1' Hci Hw Hnx Hg Hnd Hfr)
        as (Hw1 & Hf1 & Hns1 & Hg1 & Hid1 & HS1).
      split; [exact Hw1|exact Hf1|reflexivity|exact Hns1|exact Hg1|exact Hid1|exact I|reflexivity|exact HS1|].
      intros T He Hp t Hr. cbn [realizes] in Hr. apply get_det_of in Hr. cbn [kshape].
      exists ts. split; [exact Hr|exact (HS1 T He Hp)].
    - (* KVec *)
      destruct items as [|it [|it2 items']]; try discriminate.
      destruct (cvf it (seq_item_name cls c nm') s0) as [[tei s2]|] eqn:Hcv; [|discriminate].
      destruct (assign tei s2) as [iid s3] eqn:Hav. injection Hc as <- <-.
      cbn [frag_kind forallb] in Hfk. rewrite andb_true_r in Hfk.
      pose proof (Forall_inv IHitems) as HPit.
      cbn [own_names sub_names app flat_map] in Hnd, Hfr. rewrite app_nil_r in Hnd, Hfr.
      destruct (SP_assign _ HPit Hfk _ _ _ _ _ _ Hcv Hav Hw Hnx Hg Hnd Hfr) as [Hw3 Hf3 Hns3 Hg3 Hid3 HS3].
      split; [exact Hw3|exact Hf3|destruct c; reflexivity| |exact Hg3|destruct c; exact Hid3|destruct c; exact I
             |destruct c; exact I|intros T _ _; destruct c; exact I|].
      + cbn [sub_names flat_map]. rewrite app_nil_r. exact Hns3.
      + intros T He Hp t Hr. cbn [kshape]. exists iid. split; [|exact (HS3 T He Hp)].
        destruct c; cbn [realizes seq_det] in Hr; exact (get_det_of _ _ _ _ Hr).
    - (* KVecAny *)
      destruct (assign DJsonValue (set_json s0)) as [iid s3] eqn:Hav. injection Hc as <- <-.
      destruct (json_assigned s0 iid s3 Hav Hw Hnx Hg) as (Hw3 & Hf3 & Hns3 & Hg3 & Hid3 & Hl3).
      split; [exact Hw3|exact Hf3|destruct c; reflexivity|exact Hns3|exact Hg3|destruct c; exact Hid3|destruct c; exact I
             |destruct c; exact I|intros T _ _; destruct c; exact I|].
      intros T He Hp t Hr. cbn [kshape]. exists iid. split; [|exact (get_det_of _ _ _ _ (He _ _ Hl3))].
      destruct c; cbn [realizes seq_det] in Hr; exact (get_det_of _ _ _ _ Hr).
    - (* KRef *)
      destruct (ref_id D r) as [i|] eqn:Hri; [|discriminate]. injection Hc as <- <-.
      destruct (ref_id_range D r i Hri) as [Hr1 Hr2].
      split; [exact Hw|apply frame_refl|reflexivity|apply names_sub_refl|exact Hg|split; assumption|exact I|exact I
             |intros T _ _; exact I|].
      intros T He Hp t Hr. cbn [realizes] in Hr. subst t. cbn [kshape]. split; [exact Hri|].
      destruct (Hp i Hr1 Hr2) as (d & Hd & Hn). exists d. split; assumption.
    - (* KAny *)
      injection Hc as <- <-.
      split; [apply wf_set_json; exact Hw|split; [cbn; lia|reflexivity]|reflexivity|intros n Hin; left; exact Hin
             |exact Hg|exact I|exact I|exact I|intros T _ _; exact I|].
      intros T He Hp t Hr. cbn [realizes] in Hr. exact (get_det_of _ _ _ _ Hr).
    - (* KOne: a tagged enum *)
      destruct (arms_props SP oneo IHone0) as [IHone IHoneB].
      cbn [frag_kind] in Hfk. destruct oneo as [bs|]; [|discriminate]. cbn [OForall] in IHone, IHoneB.
      apply andb_true_iff in Hfk. destruct Hfk as [Hfk Hpt].
      apply andb_true_iff in Hfk. destruct Hfk as [Hfk Hfr']. apply andb_true_iff in Hfk. destruct Hfk as [Hid Hbok].
      destruct (variant_names tg bs) as [names|] eqn:Hnames; [|discriminate].
      destruct (Sanitize.variant_idents cls names) as [ids| |] eqn:Hv; try discriminate Hid.
      cbn [own_names sub_names] in Hnd, Hfr.
      destruct tg as [|t|t c|];
        (destruct (type_name cls nm') as [n|] eqn:Hn; [|discriminate]).
      4: { (* ---- untagged *)
        cbn [variant_names] in Hnames. cbn [branches_ok] in Hbok.
        destruct (opt_all_map scalar_arm bs) as [tys|]; [|discriminate].
        apply andb_true_iff in Hbok. destruct Hbok as [_ Hsk].
        destruct (conv_ubranches cvf n 0 bs s0) as [[[rvs deny] sa]|] eqn:Hcb; [|discriminate].
        destruct (conv_ubranches_spec cls D n bs 0%nat s0 rvs deny sa Hsk Hcb) as (Hfst & _ & Hitem).
        assert (Hnone : filter (fun p : ustring * vdetails => match snd p with VSimple => true | _ => false end) rvs = []).
        { apply filter_none. intros rv Hin. destruct (Hitem rv Hin) as (t & ->). reflexivity. }
        rewrite Hnone in Hc. cbn [length Nat.leb] in Hc.
        destruct (conv_ubranches_shape n bs 0%nat IHoneB Hsk s0 rvs deny sa Hcb Hw Hnx Hg)
          as (Hwa & Hfa & Hnsa & Hga & Hvda & HRa).
        destruct (mk_tagged cls n TagUntagged rvs deny) as [te'|] eqn:Hmk; [|discriminate]. injection Hc as <- <-.
        injection Hnames as Hnames'.
        assert (Hon : one_names cls TagUntagged nm' bs = []).
        { clear. induction bs as [|b r IH]; [reflexivity|]. rewrite one_names_cons, IH.
          destruct b; reflexivity. }
        refine (tagged_kspost items props req ap bs TagUntagged nm' n s0 sa rvs deny names ids te' Hn _ Hv _
                  Hwa Hfa _ Hga Hvda I _ Hmk).
        - cbn [variant_names]. rewrite Hnames'. reflexivity.
        - rewrite Hfst. exact Hnames'.
        - rewrite Hon. exact Hnsa.
        - intros T He Hp vs Hfind. apply AllP_In. intros b Hb.
          destruct (proj1 (AllP_In _ _) (HRa T He Hp) b Hb) as (x & t' & Hin & Hsh).
          destruct (Hfind x (VItem t') Hin) as (vr & Hvr & _ & Hdt).
          destruct b as [|bty bfmt benum bcst bnv bsv bik bitems bai bmni bmxi buq bprops breq bap bmnp bmxp ballo banyo boneo bno bref bdflt btitle];
            [contradiction|]. cbn [branch_sh]. exists vr. split; [exact Hvr|]. rewrite Hdt. exact Hsh. }
      + (* ---- externally tagged *)
        cbn [variant_names] in Hnames. cbn [branches_ok] in Hbok. rename Hbok into Hpay.
        destruct (conv_xbranches cvf nm' bs s0) as [[[rvs deny] sa]|] eqn:Hcb; [|discriminate].
        pose proof (conv_xbranches_names cvf nm' bs names s0 rvs deny sa Hnames Hcb) as Hfst.
        assert (Hnn : forall sc, In sc (xpayloads bs) -> classify_s sc <> Some (false, KNull)).
        { intros sc Hin Hcl. unfold payloads_ok in Hpay. apply andb_true_iff in Hpay. destruct Hpay as [Hpay' _].
          rewrite forallb_forall in Hpay'. specialize (Hpay' sc Hin). rewrite Hcl in Hpay'. discriminate. }
        assert (IHone' : Forall (PayP SP) bs) by (eapply Forall_impl; [|exact IHone]; intros a0 Ha0; exact (PropP_PayP _ a0 Ha0)).
        destruct (conv_xbranches_shape nm' bs names IHone' Hnames Hfr' Hnn s0 rvs deny sa Hcb Hw Hnx Hg (NoDup_app_r _ _ Hnd))
          as (Hwa & Hfa & Hnsa & Hga & Hvda & Hda & HRa).
        { intros x Hin. apply Hfr. apply in_or_app. right. exact Hin. }
        destruct (mk_tagged cls n TagExternal rvs deny) as [te'|] eqn:Hmk; [|discriminate]. injection Hc as <- <-.
        refine (tagged_kspost items props req ap bs TagExternal nm' n s0 sa rvs deny names ids te' Hn Hnames Hv Hfst
                  Hwa Hfa Hnsa Hga Hvda I _ Hmk).
        intros T He Hp vs Hfind.
        apply AllP_In. intros b Hb. pose proof (proj1 (AllP_In _ _) (HRa T He Hp) b Hb) as Hrel.
        destruct b as [|bty bfmt benum bcst bnv bsv bik bitems bai bmni bmxi buq bprops breq bap bmnp bmxp ballo banyo boneo bno bref bdflt btitle];
          [exact I|]. cbn [rv_rel branch_sh] in *.
        assert (Hsimple : (forall raws, xsimple (SObj bty bfmt benum bcst bnv bsv bik bitems bai bmni bmxi buq bprops breq bap bmnp bmxp ballo banyo boneo bno bref bdflt btitle) = Some raws ->
                           forall x, In x raws -> In (x, VSimple) rvs) ->
                          forall raws, xsimple (SObj bty bfmt benum bcst bnv bsv bik bitems bai bmni bmxi buq bprops breq bap bmnp bmxp ballo banyo boneo bno bref bdflt btitle) = Some raws ->
                          forall x, In x raws -> exists vr, In vr vs /\ v_raw vr = x /\ v_det vr = VSimple).
        { intros H raws Hx x Hin. exact (Hfind x VSimple (H raws Hx x Hin)). }
        destruct bprops as [|[v sc] [|]]; try exact (Hsimple Hrel).
        destruct Hrel as (vd & Hin & Hpsh). destruct (Hfind v vd Hin) as (vr & Hvr & Hrw & Hdt).
        exists vr. split; [exact Hvr|]. split; [exact Hrw|]. rewrite Hdt.
        assert (Hscin : In sc (xpayloads bs)).
        { clear - Hb Hnames. revert names Hnames Hb. induction bs as [|b0 r IH]; intros names Hn Hb; [destruct Hb|].
          destruct (xall_names_cons b0 r names Hn) as (l & rest & Hb0 & Hr & _).
          destruct Hb as [->|Hb].
          - destruct (xnames_cases _ l Hb0) as [(es & He & _)|(v' & sc' & He & _)]; [discriminate He|].
            pose proof He as He'. rewrite He, xpayloads_typed. left. unfold xbranch in He'. inversion He'. reflexivity.
          - destruct (xnames_cases _ l Hb0) as [(es & -> & _)|(v' & sc' & -> & _)].
            + rewrite xpayloads_simple. exact (IH rest Hr Hb).
            + rewrite xpayloads_typed. right. exact (IH rest Hr Hb). }
        destruct vd as [|t'|ts|ps]; cbn [payload_sh] in *; try exact Hpsh.
        destruct Hpsh as [Hcl Hss].
        assert (Hod : own_deny sc = deny).
        { rewrite Hda. apply (payloads_uniform bs sc (own_deny sc) Hpay Hscin).
          unfold struct_deny, own_deny, struct_deny. rewrite Hcl. reflexivity. }
        rewrite <- Hod. split; assumption.
      + (* ---- internally tagged *)
        cbn [branches_ok] in Hbok. apply andb_true_iff in Hbok. destruct Hbok as [Hbok Hunif].
        change (forallb (int_cond cls t) bs = true) in Hbok.
        destruct (conv_ibranches cls cvf nm' t bs s0) as [[rvs sa]|] eqn:Hcb; [|discriminate].
        assert (Hnm : name_opt nm' <> None).
        { unfold type_name in Hn. destruct (name_opt nm'); [discriminate|discriminate Hn]. }
        destruct (name_opt nm') as [base|] eqn:Hbase; [|congruence].
        pose proof (conv_ibranches_names cls D nm' t (eq_ind_r (fun o => o <> None) Hnm Hbase) bs names s0 rvs sa Hbok Hnames Hcb) as Hfst.
        destruct (conv_ibranches_shape nm' base t Hbase bs IHone Hbok Hfr' s0 rvs sa Hcb Hw Hnx Hg (NoDup_app_r _ _ Hnd))
          as (Hwa & Hfa & Hnsa & Hga & Hvda & Htd & HRa).
        { intros x Hin. apply Hfr. apply in_or_app. right. exact Hin. }
        match type of Hc with context [mk_tagged cls n (TagInternal t) rvs ?d] => set (deny := d) in * end.
        destruct (mk_tagged cls n (TagInternal t) rvs deny) as [te'|] eqn:Hmk; [|discriminate]. injection Hc as <- <-.
        refine (tagged_kspost items props req ap bs (TagInternal t) nm' n s0 sa rvs deny names ids te' Hn Hnames Hv Hfst
                  Hwa Hfa Hnsa Hga Hvda Htd _ Hmk).
        intros T He Hp vs Hfind.
        apply AllP_In. intros b Hb. pose proof (proj1 (AllP_In _ _) (HRa T He Hp) b Hb) as Hrel.
        rewrite forallb_forall in Hbok. pose proof (Hbok b Hb) as Hcb'.
        destruct (int_branch_cases cls t b Hcb') as (bprops & breq & closed & x & -> & Ha & _).
        cbn [branch_sh tbranch]. intros x' Hx'. rewrite Ha in Hx'. cbn [cstr xsimple_sch] in Hx'. injection Hx' as <-.
        destruct (Hrel x Ha) as [H1 H2]. cbn [sch_props sch_required tbranch] in H1, H2.
        destruct bprops as [|[k1 s1'] [|kv2 rest]].
        * discriminate Ha.
        * cbn [assoc] in Ha. destruct (ustr_eqb t k1) eqn:E; [|discriminate]. apply ustr_eqb_eq in E. subst k1.
          injection Ha as ->. destruct (Hfind x VSimple (H1 eq_refl)) as (vr & Hvr & Hrw & Hdt).
          exists vr. repeat split; assumption.
        * destruct H2 as (ps & Hin & Hss); [intros k1' s1'' H; discriminate H|].
          destruct (Hfind x (VStruct ps) Hin) as (vr & Hvr & Hrw & Hdt).
          exists vr. split; [exact Hvr|]. split; [exact Hrw|]. exists ps. split; [exact Hdt|]. split; [exact Hss|].
          (* the enum's flag is this branch's: the branches are all closed or all open *)
          unfold deny. clear - Hunif Hb.
          set (f := fun b0 : schema => match sch_additional_props b0 with Some (SBool false) => true | _ => false end) in *.
          set (bb := tbranch ((k1, s1') :: kv2 :: rest) breq closed) in *.
          transitivity (f bb); [|destruct closed; reflexivity].
          destruct bs as [|b0 r]; [destruct Hb|].
          assert (Hall : forall b', In b' (b0 :: r) -> f b' = f b0).
          { intros b' [<-|Hb']; [reflexivity|]. rewrite forallb_forall in Hunif. symmetry. apply Bool.eqb_prop. exact (Hunif b' Hb'). }
          rewrite (Hall _ Hb). destruct (f b0) eqn:E.
          -- apply existsb_exists. exists b0. split; [left; reflexivity|exact E].
          -- apply Bool.not_true_is_false. intro Hex. apply existsb_exists in Hex. destruct Hex as (b' & Hb' & Hfb').
             rewrite (Hall b' Hb') in Hfb'. congruence.
      + (* ---- adjacently tagged *)
        cbn [branches_ok] in Hbok. apply andb_true_iff in Hbok. destruct Hbok as [Hbok Hpay].
        apply andb_true_iff in Hbok. destruct Hbok as [Hbok Htc]. apply negb_true_iff in Htc.
        change (forallb (adj_cond t c) bs = true) in Hbok.
        destruct (conv_abranches cvf nm' t c bs s0) as [[[rvs deny] sa]|] eqn:Hcb; [|discriminate].
        pose proof (conv_abranches_names cls D nm' t c Htc bs names s0 rvs deny sa Hbok Hnames Hcb) as Hfst.
        assert (Hnn : forall sc, In sc (contents c bs) -> classify_s sc <> Some (false, KNull)).
        { intros sc Hin Hcl. unfold payloads_ok_l in Hpay. apply andb_true_iff in Hpay. destruct Hpay as [Hpay' _].
          rewrite forallb_forall in Hpay'. specialize (Hpay' sc Hin). rewrite Hcl in Hpay'. discriminate. }
        destruct (conv_abranches_shape nm' t c Htc bs IHone Hbok Hfr' Hnn s0 rvs deny sa Hcb Hw Hnx Hg (NoDup_app_r _ _ Hnd))
          as (Hwa & Hfa & Hnsa & Hga & Hvda & Hda & HRa).
        { intros x Hin. apply Hfr. apply in_or_app. right. exact Hin. }
        destruct (mk_tagged cls n (TagAdjacent t c) rvs deny) as [te'|] eqn:Hmk; [|discriminate]. injection Hc as <- <-.
        refine (tagged_kspost items props req ap bs (TagAdjacent t c) nm' n s0 sa rvs deny names ids te' Hn Hnames Hv Hfst
                  Hwa Hfa Hnsa Hga Hvda Htc _ Hmk).
        intros T He Hp vs Hfind.
        apply AllP_In. intros b Hb. pose proof (proj1 (AllP_In _ _) (HRa T He Hp) b Hb) as Hrel.
        rewrite forallb_forall in Hbok. pose proof (Hbok b Hb) as Hcb'.
        assert (Hcont : forall sc, assoc c (sch_props b) = Some sc -> In sc (contents c bs)).
        { intros sc Hsc. clear - Hb Hsc. induction bs as [|b0 r IH]; [destruct Hb|]. rewrite contents_cons.
          apply in_or_app. destruct Hb as [->|Hb]; [left; rewrite Hsc; left; reflexivity|right; exact (IH Hb)]. }
        assert (Hpl : forall x sc, assoc t (sch_props b) = Some (xsimple_sch [JStr x]) -> assoc c (sch_props b) = Some sc ->
                  exists vr, In vr vs /\ v_raw vr = x /\ payload_sh cls T (shape cls D T) sc deny (v_det vr)).
        { intros x sc Hax Hac. destruct (Hrel x Hax) as [_ H2]. destruct (H2 sc Hac) as (vd & Hin & Hpsh).
          destruct (Hfind x vd Hin) as (vr & Hvr & Hrw & Hdt). exists vr. split; [exact Hvr|]. split; [exact Hrw|].
          rewrite Hdt. destruct vd as [|t'|ts|ps]; cbn [payload_sh] in *; try exact Hpsh.
          destruct Hpsh as [Hcl Hss].
          assert (Hod : own_deny sc = deny).
          { rewrite Hda. apply (payloads_uniform_l (contents c bs) sc (own_deny sc) Hpay (Hcont sc Hac)).
            unfold struct_deny, own_deny, struct_deny. rewrite Hcl. reflexivity. }
          rewrite <- Hod. split; assumption. }
        destruct (adj_branch_cases t c b Htc Hcb') as (breq & x & _ & [->|[(_ & sc & ->)|(_ & sc & ->)]]);
          cbn [branch_sh tbranch]; cbn [sch_props tbranch assoc] in Hpl.
        * intros x' Hx'. cbn [cstr xsimple_sch] in Hx'. injection Hx' as <-.
          assert (Hax : assoc t (sch_props (tbranch [(t, xsimple_sch [JStr x])] breq true)) = Some (xsimple_sch [JStr x])).
          { cbn [sch_props tbranch assoc]. rewrite ustr_eqb_refl. reflexivity. }
          destruct (Hrel x Hax) as [H1 _].
          destruct (Hfind x VSimple (H1 eq_refl)) as (vr & Hvr & Hrw & Hdt). exists vr. repeat split; assumption.
        * rewrite ustr_eqb_refl. intros x' Hx'. cbn [cstr xsimple_sch] in Hx'. injection Hx' as <-.
          apply (Hpl x sc).
          -- rewrite ustr_eqb_refl. reflexivity.
          -- rewrite (ueqb_sym c t), Htc, ustr_eqb_refl. reflexivity.
        * rewrite (ueqb_sym c t), Htc. intros x' Hx'. cbn [cstr xsimple_sch] in Hx'. injection Hx' as <-.
          apply (Hpl x sc).
          -- rewrite Htc, ustr_eqb_refl. reflexivity.
          -- rewrite ustr_eqb_refl. reflexivity.
  Qed.

  Lemma conv_SP : forall s, SP s.
  Proof.
    apply schema_ind_u.
    - intros b Hf. discriminate Hf.
    - intros ty fmt enum cst nv sv ik items ai mni mxi uq props req ap mnp mxp allo oneo no ref dflt title
             IHitems IHprops IHap IHone.
      intros Hf nm s0 te s1 Hc Hw Hnx Hg Hnd Hfr.
      pose proof Hf as Hfi. apply frag_obj_inv0 in Hfi. destruct Hfi as (nl & k & Hcl & _ & _ & Hone & _).
      cbn [frag] in Hf. rewrite Hcl in Hf. change (frag_kind cls D k items props req ap oneo = true) in Hf.
      cbn [conv union_of] in Hc. rewrite Hcl in Hc.
      cbn [names_of union_of] in Hnd, Hfr. rewrite Hcl in Hnd, Hfr.
      change (NoDup (own_names cls (if nl then inner_name nm else nm) k ++
                     sub_names cls k (if nl then inner_name nm else nm) items props ap oneo)) in Hnd.
      change (forall n, In n (own_names cls (if nl then inner_name nm else nm) k ++
                     sub_names cls k (if nl then inner_name nm else nm) items props ap oneo) -> ~ In n (nkeys s0)) in Hfr.
      destruct nl; cbn [conv_node] in Hc.
      + destruct (conv_kind cls (ref_id D) cvf k (inner_name nm) items props req ap oneo s0) as [[te' s1']|] eqn:Hck;
          [|discriminate].
        destruct (assign te' s1') as [i s2] eqn:Ha. injection Hc as <- <-.
        destruct (kind_shape items props req ap oneo k (inner_name nm) s0 te' s1' Hf IHitems IHprops IHap IHone Hck Hw Hnx Hg Hnd Hfr)
          as [Hw1 Hf1 Hown Hns Hg1 Hte1 Hno _ _ HS].
        assert (Hfresh : forall n, det_name te' = Some n -> ~ In n (nkeys s1')).
        { intros n Hn Hin. unfold own_of in Hown. rewrite Hn in Hown.
          destruct (Hns n Hin) as [H|H].
          - apply (Hfr n); [apply in_or_app; left; rewrite Hown; left; reflexivity|exact H].
          - rewrite Hown in Hnd. cbn in Hnd. inversion Hnd; subst. contradiction. }
        assert (Hnx1 : nD < st_next s1') by (destruct Hf1 as [Hx _]; lia).
        destruct (assign_ok te' s1' i s2 Ha Hw1 Hfresh) as (Hw2 & Hf2 & Hr2 & _ & Hns2).
        destruct (assign_ents_ok nD te' s1' i s2 Ha Hw1 Hnx1 Hg1 Hte1 Hfresh) as (Hg2 & Hid2 & _).
        split; [exact Hw2|eapply frame_trans; eassumption| |exact Hg2| |exact I|intros T _ _; exact I|].
        * eexists. split; [cbn [names_of own_of det_name app union_of]; rewrite Hcl; reflexivity|].
          eapply names_sub_weaken; [eapply names_sub_trans; eassumption|].
          rewrite Hown. unfold own_of. intros x Hx. apply in_app_or in Hx. apply in_or_app.
          destruct Hx; [right|left]; assumption.
        * cbn [te_ok det_ok]. split; [exact Hid2|]. intros e He.
          assert (Hno' : match te' with DOption _ => False | _ => True end).
          { destruct te'; try exact I. rewrite Hno in Hone. destruct Hone as [Hx _]. discriminate Hx. }
          destruct te'; cbn [realizes] in Hr2; try contradiction;
            try (rewrite Hr2 in He; injection He as <-; exact I).
          subst i. cbn [te_ok] in Hte1. destruct Hg2 as [_ Hg2b].
          apply named_not_option. exact (Hg2b _ e (proj1 Hte1) (proj2 Hte1) He).
        * intros T He Hp t Hr. cbn [realizes] in Hr. apply get_det_of in Hr. cbn [shape]. rewrite Hcl.
          exists i. split; [exact Hr|].
          apply (HS T (ext_frame _ _ T Hw1 Hf2 He) Hp i (realizes_ext _ _ _ _ Hr2 He)).
      + destruct (kind_shape items props req ap oneo k nm s0 te s1 Hf IHitems IHprops IHap IHone Hc Hw Hnx Hg Hnd Hfr)
          as [Hw1 Hf1 Hown Hns Hg1 Hte1 Hno Hkk Hpy HS].
        split; [exact Hw1|exact Hf1| |exact Hg1|exact Hte1| | |].
        * eexists. split; [cbn [names_of union_of]; rewrite Hcl, <- Hown; reflexivity|exact Hns].
        * unfold te_kind. cbn [classify_s]. rewrite Hcl.
          destruct te; try exact I; cbn [kkind] in Hkk; rewrite Hkk; reflexivity.
        * intros T He Hp. specialize (Hpy T He Hp). unfold payload_of. destruct te; try exact I; exact Hpy.
        * intros T He Hp t Hr. cbn [shape]. rewrite Hcl. exact (HS T He Hp t Hr).
    - intros ty fmt enum cst nv sv ik items ai mni mxi uq props req ap mnp mxp allo bs no ref dflt title HO Hf nm s0 te s1 Hc Hw Hnx Hg Hnd Hfr.
      destruct (frag_classify cls D _ _ _ _ _ _ _ _ _ _ _ _ _ _ _ _ _ _ _ _ _ _ _ _ Hf) as (x & Hcl).
      rewrite (any_frag cls D _ _ _ _ _ _ _ _ _ _ _ _ _ _ _ _ _ _ _ _ _ _ _ x Hcl) in Hf. rewrite (any_conv cls D _ _ _ _ _ _ _ _ _ _ _ _ _ _ _ _ _ _ _ _ _ _ _ x Hcl) in Hc.
      rewrite (any_names cls _ _ _ _ _ _ _ _ _ _ _ _ _ _ _ _ _ _ _ _ _ _ _ x Hcl) in Hnd, Hfr.
      destruct (HO Hf nm s0 te s1 Hc Hw Hnx Hg Hnd Hfr) as [H1 H2 H3 H4 H5 H6 H7 H8].
      split; [exact H1|exact H2|rewrite (any_names cls _ _ _ _ _ _ _ _ _ _ _ _ _ _ _ _ _ _ _ _ _ _ _ x Hcl); exact H3|exact H4|exact H5| | |].
      + unfold te_kind in *. cbn [classify_s] in *. rewrite Hcl. rewrite (any_classify _ _ _ _ _ _ _ _ _ _ _ _ _ _ _ _ _ _ _ _ _ _ _ x Hcl) in H6. exact H6.
      + intros T He Hp. specialize (H7 T He Hp). unfold payload_of in *. destruct te; exact H7.
      + intros T He Hp t Hr. specialize (H8 T He Hp t Hr). cbn [shape] in *.
        rewrite Hcl. rewrite (any_classify _ _ _ _ _ _ _ _ _ _ _ _ _ _ _ _ _ _ _ _ _ _ _ x Hcl) in H8. exact H8.
    - intros ty fmt enum cst nv sv ik items ai mni mxi uq props req ap mnp mxp allo abs obs no ref dflt title Hf. rewrite both_frag in Hf. discriminate Hf.
  Qed.

  (* ---------------------------------------------------------------- definitions *)
  Local Notation san d := (Sanitize.sanitize cls d Sanitize.Pascal).

  Record SInv (done : list (ustring * schema)) (s : st) : Prop := {
    si_wf : wf s;
    si_next : nD < st_next s;
    si_empty : forall i, N.of_nat (length done) < i -> i <= nD -> lk s i = None;
    si_names : forall n, In n (nkeys s) -> In n (flat_map (def_all_names cls) done);
    si_ents : ents_ok nD (lk s);
    si_done : forall j d sch, nth_error done j = Some (d, sch) ->
      (exists e, lk s (N.of_nat j + 1) = Some e) /\
      forall T, ext s T -> DefsNamed T -> topshape cls D T sch (N.of_nat j + 1) }.

  Lemma conv_def_shape done d sch todo s0 s3 :
    D = done ++ (d, sch) :: todo ->
    conv_def cls (ref_id D) d sch (N.of_nat (length done) + 1) s0 = Some s3 ->
    frag cls keys sch = true -> NoDup (all_names cls D) ->
    SInv done s0 -> SInv (done ++ [(d, sch)]) s3.
  Proof.
    intros HD Hcd Hf Hnd [Hw Hnx Hem Hnm Hg Hdn].
    set (t := N.of_nat (length done) + 1) in *.
    assert (Htn : t <= nD).
    { unfold t. pose proof (f_equal (@length _) HD) as HL. rewrite app_length in HL. cbn [length] in HL. lia. }
    assert (Ht1 : 1 <= t) by (unfold t; lia).
    unfold all_names in Hnd. rewrite HD, flat_map_app in Hnd. cbn [flat_map] in Hnd.
    destruct (def_all_names_spec cls d sch) as [Hincl Hndn].
    assert (Hnd1 : NoDup (def_all_names cls (d, sch))) by exact (NoDup_app_l _ _ (NoDup_app_r _ _ Hnd)).
    assert (Hdisj : forall x, In x (def_all_names cls (d, sch)) -> ~ In x (nkeys s0)).
    { intros x Hx Hin. apply (NoDup_app_disj _ _ x Hnd (Hnm x Hin)). apply in_or_app. left. exact Hx. }
    unfold conv_def in Hcd.
    destruct (cvf sch (NRequired d) s0) as [[te s1]|] eqn:Hc; [|discriminate].
    destruct (conv_SP sch Hf (NRequired d) s0 te s1 Hc Hw Hnx Hg (Hndn Hnd1))
      as [Hw1 Hf1 (L & HL & Hns1) Hg1 Hte1 _ _ HS].
    { intros x Hx. apply Hdisj. apply Hincl. right. exact Hx. }
    assert (Hnx1 : nD < st_next s1) by (destruct Hf1 as [Hx _]; lia).
    pose (Goal2 := fun (ent : details) (s2 : st) (en : ustring) =>
      Some s3 = Some (mkSt (st_next s2) (put t (mkEntry ent []) (st_ents s2)) ((en, t) :: st_names s2)
                           (st_types s2) (st_flags s2)) /\
      wf s2 /\ frame s0 s2 /\ names_sub s0 s2 (names_of cls sch (NRequired d)) /\
      In en (san d :: names_of cls sch (NRequired d)) /\
      ents_ok nD (lk s2) /\ det_ok nD (lk s2) ent /\ det_name ent = Some en /\
      forall T, ext s2 T -> DefsNamed T -> get T t = Some (mkEntry ent []) -> topshape cls D T sch t).
    assert (Hent : exists ent s2 en, Goal2 ent s2 en).
    { assert (Hnamed : forall n, det_name te = Some n ->
        match det_name te with None => None
        | Some en => Some (mkSt (st_next s1) (put t (mkEntry te []) (st_ents s1)) ((en, t) :: st_names s1)
                                (st_types s1) (st_flags s1)) end = Some s3 ->
        exists ent s2 en, Goal2 ent s2 en).
      { intros n Hn H. rewrite Hn in H. exists te, s1, n. unfold Goal2. split; [symmetry; exact H|].
        split; [exact Hw1|]. split; [exact Hf1|]. split.
        - eapply names_sub_weaken; [exact Hns1|]. rewrite HL. apply incl_appr, incl_refl.
        - split; [right; rewrite HL; unfold own_of; rewrite Hn; left; reflexivity|].
          split; [exact Hg1|]. split; [destruct te; try discriminate Hn; exact Hte1|]. split; [exact Hn|].
          intros T He Hp Hgt. left. split.
          + apply (HS T He Hp t). destruct te; try discriminate Hn; exact Hgt.
          + exists te. split; [exact (get_det_of _ _ _ _ Hgt)|congruence]. }
      assert (Halias : forall i s2, assign te s1 = (i, s2) -> det_name te = None ->
        match te with DReference _ => False | _ => True end ->
        Some (mkSt (st_next s2) (put t (mkEntry (DNewtype (san d) None i CNone) []) (st_ents s2))
                   ((san d, t) :: st_names s2) (st_types s2) (st_flags s2)) = Some s3 ->
        exists ent s2 en, Goal2 ent s2 en).
      { intros i s2 Ha Hn Hnr H.
        assert (Hfresh : forall n, det_name te = Some n -> ~ In n (nkeys s1)) by (intros n Hn'; congruence).
        destruct (assign_ok te s1 i s2 Ha Hw1 Hfresh) as (Hw2 & Hf2 & Hr2 & _ & Hns2).
        destruct (assign_ents_ok nD te s1 i s2 Ha Hw1 Hnx1 Hg1 Hte1 Hfresh) as (Hg2 & Hid2 & _).
        rewrite Hn in Hns2.
        exists (DNewtype (san d) None i CNone), s2, (san d). unfold Goal2. split; [symmetry; exact H|].
        split; [exact Hw2|]. split; [eapply frame_trans; eassumption|]. split.
        - intros x Hx. destruct (Hns2 x Hx) as [Hx'|[]]. destruct (Hns1 x Hx') as [Hx''|Hx''].
          + left. exact Hx''.
          + right. rewrite HL. apply in_or_app. right. exact Hx''.
        - split; [left; reflexivity|]. split; [exact Hg2|]. split; [exact Hid2|]. split; [reflexivity|].
          intros T He Hp Hgt. right. exists (san d), i. split; [exact (get_det_of _ _ _ _ Hgt)|].
          apply (HS T (ext_frame _ _ T Hw1 Hf2 He) Hp i (realizes_ext _ _ _ _ Hr2 He)). }
      destruct te as [? ? ? ? ? ?|? ? ? ?|? ? ? ?|? ? ?|?|?|?|? ?|?|? ?|?| | |?|?| | |r0];
        try (destruct (assign _ s1) as [i s2] eqn:Ha; cbn [det_name] in Hcd;
             exact (Halias i s2 eq_refl eq_refl I Hcd));
        try (exact (Hnamed _ eq_refl Hcd)).
      cbn [det_name] in Hcd. cbn [te_ok] in Hte1.
      exists (DNewtype (san d) None r0 CNone), s1, (san d). unfold Goal2. split; [symmetry; exact Hcd|].
      split; [exact Hw1|]. split; [exact Hf1|]. split.
      - eapply names_sub_weaken; [exact Hns1|]. rewrite HL. apply incl_appr, incl_refl.
      - split; [left; reflexivity|]. split; [exact Hg1|]. split; [left; exact Hte1|]. split; [reflexivity|].
        intros T He Hp Hgt. right. exists (san d), r0. split; [exact (get_det_of _ _ _ _ Hgt)|].
        apply (HS T He Hp r0 eq_refl). }
    destruct Hent as (ent & s2 & en & Hs3 & Hw2 & Hf2 & Hns2 & Hen & Hg2 & Hdo & Hdn2 & HT2).
    injection Hs3 as ->.
    assert (Hnx2 : nD < st_next s2) by (destruct Hf2 as [Hx _]; lia).
    assert (Ht2 : lk s2 t = None).
    { destruct Hf2 as [_ Hy]. rewrite Hy by lia. apply Hem; [unfold t; lia|exact Htn]. }
    set (s3 := mkSt (st_next s2) (put t (mkEntry ent []) (st_ents s2)) ((en, t) :: st_names s2)
                    (st_types s2) (st_flags s2)).
    assert (Hlk3 : forall i, lk s3 i = if i =? t then Some (mkEntry ent []) else lk s2 i).
    { intro i. unfold lk, s3. cbn [st_ents]. apply lookup_put. }
    assert (Hm23 : forall i e, lk s2 i = Some e -> lk s3 i = Some e).
    { intros i e Hi. rewrite Hlk3. destruct (i =? t) eqn:E; [|exact Hi].
      apply N.eqb_eq in E. subst i. rewrite Ht2 in Hi. discriminate. }
    assert (Hext3 : forall T, ext s3 T -> ext s2 T) by (intros T He i e Hi; apply He, Hm23, Hi).
    assert (Hdef3 : forall i e, 1 <= i -> i <= nD -> lk s3 i = Some e -> det_name (e_det e) <> None).
    { intros i e H1 H2. rewrite Hlk3. destruct (i =? t) eqn:E.
      - intro H. injection H as <-. cbn [e_det]. congruence.
      - intro H. exact (proj2 Hg2 i e H1 H2 H). }
    split.
    - split.
      + intros i e. rewrite Hlk3. unfold s3. cbn [st_next]. destruct (i =? t) eqn:E.
        * apply N.eqb_eq in E. subst i. intros _. lia.
        * apply (wf_lt s2 Hw2).
      + intros d' j Hin. unfold s3 in Hin. cbn [st_types] in Hin. rewrite Hlk3.
        pose proof (wf_types s2 Hw2 d' j Hin) as H.
        destruct (j =? t) eqn:E; [|exact H]. apply N.eqb_eq in E. subst j. rewrite Ht2 in H. discriminate.
      + unfold s3. cbn [st_ents]. apply put_sorted. exact (wf_sorted s2 Hw2).
    - unfold s3. cbn [st_next]. exact Hnx2.
    - intros i Hi1 Hi2. rewrite Hlk3. rewrite app_length in Hi1. cbn [length] in Hi1.
      destruct (i =? t) eqn:E; [apply N.eqb_eq in E; unfold t in E; lia|].
      destruct Hf2 as [_ Hy]. rewrite Hy by lia. apply Hem; [lia|exact Hi2].
    - intros x Hx. unfold nkeys, s3 in Hx. cbn [st_names map fst] in Hx. rewrite flat_map_app. cbn [flat_map].
      rewrite app_nil_r. apply in_or_app.
      destruct Hx as [<-|Hx]; [right; apply Hincl; exact Hen|].
      destruct (Hns2 x Hx) as [H|H]; [left; apply Hnm; exact H|right; apply Hincl; right; exact H].
    - split; [|exact Hdef3].
      intros i e. rewrite Hlk3. destruct (i =? t) eqn:E.
      + intro H. injection H as <-. cbn [e_det]. eapply det_ok_mono; [exact Hm23|exact Hdef3|exact Hdo].
      + intro H. eapply det_ok_mono; [exact Hm23|exact Hdef3|exact (proj1 Hg2 i e H)].
    - intros j d' sch' Hnth.
      destruct (Nat.lt_ge_cases j (length done)) as [Hj|Hj].
      + rewrite nth_error_app1 in Hnth by exact Hj.
        destruct (Hdn j d' sch' Hnth) as [(e & He0) HC]. split.
        * exists e. apply Hm23. exact (frame_keeps s0 s2 _ _ Hw Hf2 He0).
        * intros T He Hp. apply HC; [|exact Hp]. eapply ext_frame; [exact Hw|exact Hf2|]. apply Hext3. exact He.
      + rewrite nth_error_app2 in Hnth by exact Hj.
        destruct (j - length done)%nat as [|j'] eqn:Hjj; [|destruct j'; discriminate].
        cbn [nth_error] in Hnth. injection Hnth as <- <-.
        assert (Hjt : N.of_nat j + 1 = t) by (unfold t; lia). rewrite Hjt. split.
        * eexists. rewrite Hlk3, N.eqb_refl. reflexivity.
        * intros T He Hp. apply (HT2 T (Hext3 T He) Hp). apply He. rewrite Hlk3, N.eqb_refl. reflexivity.
  Qed.

  Lemma conv_defs_shape : forall todo done s0 sf,
    D = done ++ todo ->
    conv_defs cls (ref_id D) todo (N.of_nat (length done) + 1) s0 = Some sf ->
    forallb (fun kv => frag cls keys (snd kv)) todo = true -> NoDup (all_names cls D) ->
    SInv done s0 -> SInv D sf.
  Proof.
    induction todo as [|[d sch] todo IH]; intros done s0 sf HD Hc Hf Hnd HI.
    - cbn [conv_defs] in Hc. injection Hc as <-. rewrite app_nil_r in HD. rewrite HD. exact HI.
    - cbn [conv_defs] in Hc.
      destruct (conv_def cls (ref_id D) d sch (N.of_nat (length done) + 1) s0) as [s1|] eqn:Hcd; [|discriminate].
      cbn [forallb snd] in Hf. apply andb_true_iff in Hf. destruct Hf as [Hf1 Hf2].
      pose proof (conv_def_shape done d sch todo s0 s1 HD Hcd Hf1 Hnd HI) as HI1.
      apply (IH (done ++ [(d, sch)]) s1 sf); [rewrite <- app_assoc; exact HD| |exact Hf2|exact Hnd|exact HI1].
      rewrite app_length. cbn [length].
      replace (N.of_nat (length done + 1) + 1) with (N.of_nat (length done) + 1 + 1) by lia. exact Hc.
  Qed.

  (* THE specification theorem *)
  Theorem convert_shape T :
    in_frag cls D = true -> convert_doc cls D = Some T ->
    (forall j d sch, nth_error D j = Some (d, sch) -> topshape cls D T sch (N.of_nat j + 1)) /\
    ents_ok nD (get T) /\ DefsNamed T.
  Proof.
    intros Hin Hc. unfold in_frag in Hin.
    apply andb_true_iff in Hin. destruct Hin as [Hin _].
    apply andb_true_iff in Hin. destruct Hin as [Hin Hun].
    apply andb_true_iff in Hin. destruct Hin as [Hin Hfr].
    apply unique_true_iff in Hun.
    unfold convert_doc in Hc. destruct (negb (Sanitize.unique (def_names cls D))); [discriminate|].
    destruct (conv_defs cls (ref_id D) D 1 _) as [sf|] eqn:Hcd; [|discriminate]. injection Hc as <-.
    assert (HI0 : SInv [] (mkSt (1 + nD) [] [] [] (mkFlags false false))).
    { split.
      - split; [intros i e H; discriminate H|intros d i []|exact I].
      - cbn [st_next]. lia.
      - intros i _ _. reflexivity.
      - intros n [].
      - split; intros i e; [|intros _ _]; intro H; discriminate H.
      - intros j d sch H. destruct j; discriminate H. }
    pose proof (conv_defs_shape D [] _ sf eq_refl Hcd Hfr Hun HI0) as [Hw Hnx Hem Hnm Hg Hdn].
    assert (He : ext sf (space_of sf)) by (intros i e H; exact H).
    assert (Hp : DefsNamed (space_of sf)).
    { intros i H1 H2. destruct (nth_error D (N.to_nat i - 1)) as [[d sch]|] eqn:Hn.
      - destruct (Hdn _ d sch Hn) as [(e & Hl) _].
        replace (N.of_nat (N.to_nat i - 1) + 1) with i in Hl by lia.
        exists (e_det e). split; [unfold get_det; rewrite (He _ _ Hl); reflexivity|].
        exact (proj2 Hg i e H1 H2 Hl).
      - apply nth_error_None in Hn. lia. }
    split; [|split; [exact Hg|exact Hp]].
    intros j d sch Hn. destruct (Hdn j d sch Hn) as [_ HC]. apply HC; assumption.
  Qed.

  Theorem convert_nodup T :
    in_frag cls D = true -> convert_doc cls D = Some T -> NoDup (map fst (sp_entries T)).
  Proof.
    intros Hin Hc. unfold in_frag in Hin.
    apply andb_true_iff in Hin. destruct Hin as [Hin _].
    apply andb_true_iff in Hin. destruct Hin as [Hin Hun].
    apply andb_true_iff in Hin. destruct Hin as [Hin Hfr].
    apply unique_true_iff in Hun.
    unfold convert_doc in Hc. destruct (negb (Sanitize.unique (def_names cls D))); [discriminate|].
    destruct (conv_defs cls (ref_id D) D 1 _) as [sf|] eqn:Hcd; [|discriminate]. injection Hc as <-.
    assert (HI0 : SInv [] (mkSt (1 + nD) [] [] [] (mkFlags false false))).
    { split.
      - split; [intros i e H; discriminate H|intros d i []|exact I].
      - cbn [st_next]. lia.
      - intros i _ _. reflexivity.
      - intros n [].
      - split; intros i e; [|intros _ _]; intro H; discriminate H.
      - intros j d sch H. destruct j; discriminate H. }
    pose proof (conv_defs_shape D [] _ sf eq_refl Hcd Hfr Hun HI0) as [Hw _ _ _ _ _].
    cbn [space_of sp_entries]. apply ksorted_NoDup. exact (wf_sorted sf Hw).
  Qed.
End ShapeMain.
