(* Proofs/ConvertIntTie.v -- the integer table of Algo/Convert.v ([int_rows], plain
   integers) is the table C10's translator regenerates from convert.rs on every
   run (Gen/IntTable.v, doubles) read through IntSelectZ.int_formats_Z.  This
   file - and no theorem of Props/C0xF.v - inherits Flocq's classical axioms,
   because the regenerated table is made of Flocq binary64 values.  If the
   Rust table changes, this lemma stops compiling. *)
From Coq Require Import String ZArith NArith List Bool.
From Typify Require Import Base.Json IR.TypeIR Algo.IntSelectZ Algo.Convert.
Import ListNotations.

Lemma int_rows_tie :
  map (fun r => (string_of_ustring (ir_fmt r), string_of_ustring (ir_ty r), string_of_ustring (ir_nz r),
                 ir_lo r, ir_hi r)) int_rows
  = map (fun z => (z_fmt z, z_ty z, z_nz z, z_lo z, z_hi z)) int_formats_Z.
Proof. vm_compute. reflexivity. Qed.

(* spot agreement of the two selection functions (the general statement is not proved; both are
   compared with the real convert_integer on every run: C10's correspondence and py/convert_check.py) *)
Definition tie_b (mn mx emn emx : option Z) (mu : bool) : bool :=
  forallb (fun f =>
    match choose_integer_Z (option_map string_of_ustring f) (Build_zbounds mn mx emn emx mu) None with
    | IntSelect.Chosen ty => String.eqb ty (string_of_ustring (choose_int f (mkIb mn mx emn emx mu)))
    | _ => false
    end) (None :: Some (Valid.ulit "nope") :: map (fun r => Some (ir_fmt r)) int_rows).

Lemma choose_int_tie_samples :
  forallb (fun mn => forallb (fun mx => forallb (fun e => tie_b mn mx e None false && tie_b mn mx None e true)
                                        [None; Some 0%Z; Some 255%Z])
                             [None; Some 0%Z; Some 1%Z; Some 127%Z; Some 255%Z; Some 65535%Z; Some (2^63)%Z; Some (-1)%Z])
          [None; Some 0%Z; Some 1%Z; Some (-128)%Z; Some (-32768)%Z; Some (-(2^63))%Z; Some 10%Z] = true.
Proof. vm_compute. reflexivity. Qed.
