(* Proofs/RoundTripProofs.v — C03 on the model of generated code (IR/Serde.v).

   For a set of type ids [S] closed under children whose entries all satisfy
   [node_ok] ([rt_set T S = true]; [rt_simple] computes such a set):

     rt_core      de f t v = Some x  ->  exists w,
                    (forall g > f, ser g t x = Some w /\ de g t w = Some x)
                    /\ (w = JNull -> v = JNull)
     rt_contains  ... /\ decl_only f t v = true -> contained (prune v) (prune w)

   by induction on the fuel of [de]; [ser] and the second [de] are obtained at
   EVERY larger fuel, which is what makes the induction go through without a
   separate value-monotonicity lemma (the value of [de] is not monotone in
   general: untagged enums). *)
From Coq Require Import String ZArith NArith QArith List Bool Lia Arith.
From Typify Require Import Base.Json Spec.Schema Spec.Valid IR.TypeIR IR.Serde Check.RoundTrip
  Proofs.SerdeProofs.
Import ListNotations.
Close Scope Q_scope.
Close Scope string_scope.
Close Scope N_scope.
Open Scope list_scope.
Open Scope nat_scope.

(* ------------------------------------------------------------------ small facts *)
Lemma find_variant_nth s vs n i v :
  find_variant s vs n = Some (i, v) -> exists k, i = n + k /\ nth_error vs k = Some v /\ v_raw v = s.
Proof.
  revert n. induction vs as [|a r IH]; intros n H; cbn in H; [discriminate|].
  destruct (ustr_eqb s (v_raw a)) eqn:E.
  - injection H as <- <-. exists 0. repeat split; [lia|]. apply ustr_eqb_eq in E. auto.
  - apply IH in H as (k & -> & Hk & Hr). exists (S k). repeat split; auto. lia.
Qed.

Lemma find_variant_0 s vs i v :
  find_variant s vs 0 = Some (i, v) -> nth_error vs i = Some v /\ v_raw v = s /\ In v vs.
Proof.
  intros H. apply find_variant_nth in H as (k & -> & Hk & Hr). cbn. repeat split; auto.
  eapply nth_error_In; eauto.
Qed.

Lemma mem_id_In i l : mem_id i l = true <-> In i l.
Proof.
  unfold mem_id. rewrite existsb_exists. split.
  - intros (x & Hx & E). apply N.eqb_eq in E. subst. exact Hx.
  - intros H. exists i. split; [exact H | apply N.eqb_refl].
Qed.

Lemma filter_nil {X} (f : X -> bool) l : (forall x, In x l -> f x = false) -> filter f l = [].
Proof.
  induction l as [|a l IH]; intros H; cbn; [reflexivity|].
  rewrite (H a (or_introl eq_refl)). apply IH. intros x Hx. apply H. right. exact Hx.
Qed.

Lemma mem_ustr_false_cons k a l : mem_ustr k (a :: l) = false -> ustr_eqb k a = false /\ mem_ustr k l = false.
Proof. unfold mem_ustr. cbn. intros H. apply orb_false_iff in H. exact H. Qed.

Lemma no_flatten_wire p : no_flatten p = true -> exists w, wire_name p = Some w.
Proof. unfold no_flatten, wire_name. destruct (p_rename p); try discriminate; eauto. Qed.

Lemma flat_props_nil ps : forallb no_flatten ps = true -> flat_props ps = [].
Proof.
  intros H. unfold flat_props. apply filter_nil. intros p Hp.
  rewrite forallb_forall in H. specialize (H p Hp). unfold no_flatten in H.
  destruct (p_rename p); try reflexivity. discriminate.
Qed.

Lemma wire_names_cons p ps w : wire_name p = Some w -> wire_names (p :: ps) = w :: wire_names ps.
Proof. intros H. unfold wire_names. cbn. rewrite H. reflexivity. Qed.

Lemma mapM_length {X Y} (g : X -> option Y) l ys : mapM g l = Some ys -> length ys = length l.
Proof.
  revert ys. induction l as [|a l IH]; intros ys H; cbn in H.
  - injection H as <-. reflexivity.
  - destruct (g a); [|discriminate]. destruct (mapM g l) eqn:E; [|discriminate].
    injection H as <-. cbn. f_equal. apply IH. reflexivity.
Qed.

Lemma option_map_Some {X Y} (g : X -> Y) o y : option_map g o = Some y -> exists x, o = Some x /\ y = g x.
Proof. destruct o; cbn; [|discriminate]. intros H. injection H as <-. eauto. Qed.

Lemma json_eq_null (v : json) : v = JNull \/ v <> JNull.
Proof. destruct v; [left; reflexivity | right; discriminate ..]. Qed.

(* irrelevance of an entry no member looks at *)
Lemma ser_fields_irrel T sr ps n x fs :
  mem_ustr n (map p_name ps) = false ->
  ser_fields T sr ps ((n, x) :: fs) = ser_fields T sr ps fs.
Proof.
  induction ps as [|p ps IH]; intros H; [reflexivity|].
  cbn [map] in H. apply mem_ustr_false_cons in H as [H1 H2].
  cbn [ser_fields assoc]. rewrite ustr_eqb_sym, H1, (IH H2). reflexivity.
Qed.

Lemma de_named_irrel T dr df ps k j m :
  mem_ustr k (wire_names ps) = false ->
  de_named T dr df ps ((k, j) :: m) = de_named T dr df ps m.
Proof.
  induction ps as [|p ps IH]; intros H; [reflexivity|].
  cbn [de_named]. destruct (wire_name p) as [w|] eqn:Ew.
  - rewrite (wire_names_cons _ _ _ Ew) in H. apply mem_ustr_false_cons in H as [H1 H2].
    cbn [assoc]. rewrite ustr_eqb_sym, H1, (IH H2). reflexivity.
  - apply IH. unfold wire_names in *. cbn in H. rewrite Ew in H. exact H.
Qed.

(* shape of what [de_named] / [de_struct_seq] return *)
Definition member_src T (dr : id -> json -> option rval) (df : id -> option rval) (p : prop) (x : rval) : Prop :=
  (exists j, dr (p_ty p) j = Some x) \/ missing T dr df p = Some x.

Lemma de_named_shape T dr df ps kvs fs :
  forallb no_flatten ps = true ->
  de_named T dr df ps kvs = Some fs ->
  Forall2 (fun p fx => fst fx = p_name p /\ member_src T dr df p (snd fx)) ps fs.
Proof.
  revert fs. induction ps as [|p ps IH]; intros fs Hn H.
  - cbn in H. injection H as <-. constructor.
  - cbn [forallb] in Hn. apply andb_true_iff in Hn as [Hp Hn].
    destruct (no_flatten_wire _ Hp) as [w Ew].
    cbn [de_named] in H. rewrite Ew in H.
    destruct (match assoc w kvs with Some j => dr (p_ty p) j | None => missing T dr df p end) as [x|] eqn:Ex;
      [|discriminate].
    destruct (de_named T dr df ps kvs) as [xs|] eqn:Er; [|discriminate].
    injection H as <-. constructor.
    + split; [reflexivity|]. cbn. unfold member_src. destruct (assoc w kvs); eauto.
    + apply IH; auto.
Qed.

Lemma de_struct_seq_shape T dr df ps l fs :
  de_struct_seq T dr df ps l = Some fs ->
  Forall2 (fun p fx => fst fx = p_name p /\ member_src T dr df p (snd fx)) ps fs.
Proof.
  revert l fs. induction ps as [|p ps IH]; intros l fs H.
  - cbn in H. destruct l; [|discriminate]. injection H as <-. constructor.
  - cbn [de_struct_seq] in H. destruct l as [|j l].
    + destruct (missing T dr df p) as [x|] eqn:Ex; [|discriminate].
      destruct (de_struct_seq T dr df ps []) as [xs|] eqn:Er; [|discriminate].
      injection H as <-. constructor; [split; [reflexivity | right; exact Ex]|]. eapply IH; eauto.
    + destruct (dr (p_ty p) j) as [x|] eqn:Ex; [|discriminate].
      destruct (de_struct_seq T dr df ps l) as [xs|] eqn:Er; [|discriminate].
      injection H as <-. constructor; [split; [reflexivity | left; eauto]|]. eapply IH; eauto.
Qed.

(* ------------------------------------------------------------------ ser, one level *)
Section SerNode.
  Variable T : space.
  Local Notation ser := (Serde.ser T).

  Definition ser_node (sr : id -> rval -> option json) (d : details) (x : rval) : option json :=
    match d, x with
    | DBoolean, RBool b => Some (JBool b)
    | DInteger _, RInt z => Some (JInt z)
    | DFloat _, RFlt q => Some (JFlt q)
    | DString, RStr s => Some (JStr s)
    | DUnit, RUnit => Some JNull
    | DJsonValue, RJson j => Some j
    | DOption t, _ =>
        match get_det T t, x with
        | Some (DOption _), _ => sr t x
        | _, ROptNone => Some JNull
        | _, ROptSome y => sr t y
        | _, _ => None
        end
    | DBox t, _ => sr t x
    | DVec t, RSeq l | DSet t, RSeq l | DArray t _, RSeq l => option_map JArr (mapM (sr t) l)
    | DTuple ts, RSeq l => option_map JArr (zipM sr ts l)
    | DMap _ v, RMap kvs =>
        option_map JObj (mapM (fun kv => option_map (fun j => (fst kv, j)) (sr v (snd kv))) kvs)
    | DNative _ _ _, RNative s => Some (JStr s)
    | DNewtype _ _ inner CNone, _ => sr inner x
    | DNewtype _ _ inner (CEnum _), _ | DNewtype _ _ inner (CDeny _), _ => sr inner x
    | DNewtype _ _ _ (CString _ _ _), RStr s => Some (JStr s)
    | DStruct _ _ ps _, RStruct fs => option_map JObj (ser_fields T sr ps fs)
    | DEnum _ _ tag vs _ _, _ => ser_enum T sr tag vs x
    | _, _ => None
    end.

  Lemma ser_S f t x :
    ser (S f) t x = match get_det T t with
                    | None => None
                    | Some d => ser_node (ser f) d x
                    end.
  Proof. reflexivity. Qed.

  Lemma ser_node_option sr t x :
    match get_det T t with Some (DOption _) => false | _ => true end = true ->
    ser_node sr (DOption t) x =
    match x with ROptNone => Some JNull | ROptSome y => sr t y | _ => None end.
  Proof.
    intros H. cbn [ser_node]. destruct (get_det T t) as [[]|]; try discriminate H; destruct x; reflexivity.
  Qed.
End SerNode.

Lemma de_node_option_nonnull re nat T dr df t j :
  j <> JNull ->
  match get_det T t with Some (DOption _) => false | _ => true end = true ->
  de_node re nat T dr df (DOption t) j = option_map ROptSome (dr t j).
Proof.
  intros Hj H. cbn [de_node]. destruct j; try congruence;
    destruct (get_det T t) as [[]|]; try discriminate H; reflexivity.
Qed.

(* ------------------------------------------------------------------ the core *)
Section Core.
  Variable re_match : ustring -> ustring -> bool.
  Variable native_ok : ustring -> ustring -> bool.
  Variable T : space.
  Variable S0 : list id.
  Hypothesis HS : rt_set T S0 = true.

  Local Notation De := (Serde.de re_match native_ok T).
  Local Notation Ser := (Serde.ser T).
  Local Notation Dflt := (Serde.default_val T).
  Local Notation dnode := (de_node re_match native_ok T).

  Definition inS (t : id) : Prop := mem_id t S0 = true.

  Lemma set_node t : inS t ->
    exists d, get_det T t = Some d /\ node_ok T d = true /\ (forall c, In c (children d) -> inS c).
  Proof.
    intros Ht. unfold rt_set in HS. rewrite forallb_forall in HS.
    apply mem_id_In in Ht. specialize (HS t Ht).
    destruct (get_det T t) as [d|]; [|discriminate].
    apply andb_true_iff in HS as [H1 H2]. exists d. repeat split; auto.
    intros c Hc. rewrite forallb_forall in H2. apply H2. exact Hc.
  Qed.

  (* round trip of a value at every fuel above f *)
  Definition RT (f : nat) (t : id) (x : rval) (w : json) : Prop :=
    forall g, f < g -> Ser g t x = Some w /\ De g t w = Some x.

  Lemma RT_S f t d x w :
    get_det T t = Some d ->
    (forall g, f < g -> ser_node T (Ser g) d x = Some w /\ dnode (De g) (Dflt g) d w = Some x) ->
    RT (S f) t x w.
  Proof.
    intros Hd H g Hg. destruct g as [|g]; [lia|].
    rewrite ser_S, de_S, Hd. apply H. lia.
  Qed.

  Lemma RT_any f t d x w :
    get_det T t = Some d ->
    (forall g, ser_node T (Ser g) d x = Some w /\ dnode (De g) (Dflt g) d w = Some x) ->
    RT f t x w.
  Proof.
    intros Hd H g Hg. destruct g as [|g]; [lia|].
    rewrite ser_S, de_S, Hd. apply H.
  Qed.

  Definition P (f : nat) : Prop :=
    forall t v x, inS t -> De f t v = Some x ->
      exists w, RT f t x w /\ (w = JNull -> v = JNull).

  (* ---- defaults *)
  Lemma dflt_tuple f ts xs :
    (forall t x, inS t -> Dflt f t = Some x -> exists w, RT f t x w) ->
    (forall c, In c ts -> inS c) ->
    mapM (Dflt f) ts = Some xs ->
    exists ws, forall g, f < g -> zipM (Ser g) ts xs = Some ws /\ zipM (De g) ts ws = Some xs.
  Proof.
    intros IH. revert xs. induction ts as [|t ts IHl]; intros xs Hin H; cbn in H.
    - injection H as <-. exists []. intros g _. split; reflexivity.
    - destruct (Dflt f t) as [x|] eqn:Ex; [|discriminate].
      destruct (mapM (Dflt f) ts) as [xs'|] eqn:Er; [|discriminate]. injection H as <-.
      destruct (IH t x (Hin t (or_introl eq_refl)) Ex) as [w Hw].
      destruct (IHl xs' (fun c Hc => Hin c (or_intror Hc)) eq_refl) as [ws Hws].
      exists (w :: ws). intros g Hg. destruct (Hw g Hg) as [A B]. destruct (Hws g Hg) as [C D].
      cbn. rewrite A, B, C, D. split; reflexivity.
  Qed.

  Lemma dflt_rt : forall f t x, inS t -> Dflt f t = Some x -> exists w, RT f t x w.
  Proof.
    induction f as [|f IH]; intros t x Ht H; [discriminate|].
    destruct (set_node t Ht) as (d & Hd & Hok & Hch).
    cbn [default_val] in H. rewrite Hd in H.
    destruct d; try discriminate.
    - (* Option *) injection H as <-. exists JNull. eapply RT_S; [exact Hd|]. intros g _.
      rewrite ser_node_option by exact Hok. split; reflexivity.
    - (* Box *) destruct (IH t0 x (Hch t0 (or_introl eq_refl)) H) as [w Hw]. exists w.
      eapply RT_S; [exact Hd|]. intros g Hg. apply Hw. exact Hg.
    - (* Vec *) injection H as <-. exists (JArr []). eapply RT_S; [exact Hd|]. intros g _. split; reflexivity.
    - (* Map *) injection H as <-. exists (JObj []). eapply RT_S; [exact Hd|]. intros g _. split; reflexivity.
    - (* Set *) injection H as <-. exists (JArr []). eapply RT_S; [exact Hd|]. intros g _. split; reflexivity.
    - (* Tuple *) apply option_map_Some in H as (xs & Hxs & ->).
      destruct (dflt_tuple f ts xs IH Hch Hxs) as [ws Hws]. exists (JArr ws).
      eapply RT_S; [exact Hd|]. intros g Hg. destruct (Hws g Hg) as [A B]. cbn. rewrite A, B. split; reflexivity.
    - (* Unit *) injection H as <-. exists JNull. eapply RT_S; [exact Hd|]. intros g _. split; reflexivity.
    - (* Boolean *) injection H as <-. exists (JBool false). eapply RT_S; [exact Hd|]. intros g _. split; reflexivity.
    - (* Integer *) destruct (in_int_range name 0) eqn:E; [|discriminate]. injection H as <-.
      exists (JInt 0). eapply RT_S; [exact Hd|]. intros g _. cbn. rewrite E. split; reflexivity.
    - (* Float *) injection H as <-. exists (JFlt (inject_Z 0)). eapply RT_S; [exact Hd|]. intros g _. split; reflexivity.
    - (* String *) injection H as <-. exists (JStr []). eapply RT_S; [exact Hd|]. intros g _. split; reflexivity.
    - (* JsonValue *) injection H as <-. exists JNull. eapply RT_S; [exact Hd|]. intros g _. split; reflexivity.
  Qed.

  (* ---- sequences, tuples, maps *)
  Lemma mapM_rt f t l xs :
    P f -> inS t -> mapM (De f t) l = Some xs ->
    exists ws, (forall g, f < g -> mapM (Ser g t) xs = Some ws /\ mapM (De g t) ws = Some xs)
               /\ length ws = length l.
  Proof.
    intros HP Ht. revert xs. induction l as [|j l IH]; intros xs H; cbn in H.
    - injection H as <-. exists []. split; [intros g _; split; reflexivity | reflexivity].
    - destruct (De f t j) as [x|] eqn:Ex; [|discriminate].
      destruct (mapM (De f t) l) as [xs'|] eqn:Er; [|discriminate]. injection H as <-.
      destruct (HP t j x Ht Ex) as (w & Hw & _). destruct (IH xs' eq_refl) as (ws & Hws & Hl).
      exists (w :: ws). split; [|cbn; congruence].
      intros g Hg. destruct (Hw g Hg) as [A B]. destruct (Hws g Hg) as [C D].
      cbn. rewrite A, B, C, D. split; reflexivity.
  Qed.

  Lemma zipM_rt f ts l xs :
    P f -> (forall c, In c ts -> inS c) -> zipM (De f) ts l = Some xs ->
    exists ws, forall g, f < g -> zipM (Ser g) ts xs = Some ws /\ zipM (De g) ts ws = Some xs.
  Proof.
    intros HP. revert l xs. induction ts as [|t ts IH]; intros l xs Hin H; destruct l as [|j l]; cbn in H;
      try discriminate.
    - injection H as <-. exists []. intros g _. split; reflexivity.
    - destruct (De f t j) as [x|] eqn:Ex; [|discriminate].
      destruct (zipM (De f) ts l) as [xs'|] eqn:Er; [|discriminate]. injection H as <-.
      destruct (HP t j x (Hin t (or_introl eq_refl)) Ex) as (w & Hw & _).
      destruct (IH l xs' (fun c Hc => Hin c (or_intror Hc)) Er) as [ws Hws].
      exists (w :: ws). intros g Hg. destruct (Hw g Hg) as [A B]. destruct (Hws g Hg) as [C D].
      cbn. rewrite A, B, C, D. split; reflexivity.
  Qed.

  Definition de_entry (dr : id -> json -> option rval) (k v : id) (kv : ustring * json) : option (ustring * rval) :=
    match de_key dr k (fst kv), dr v (snd kv) with
    | Some _, Some x => Some (fst kv, x)
    | _, _ => None
    end.
  Definition ser_entry (sr : id -> rval -> option json) (v : id) (kv : ustring * rval) : option (ustring * json) :=
    option_map (fun j => (fst kv, j)) (sr v (snd kv)).

  Lemma map_rt f k v kvs xs :
    P f -> get_det T k = Some DString -> inS v ->
    mapM (de_entry (De f) k v) kvs = Some xs ->
    exists ws, forall g, f < g ->
      mapM (ser_entry (Ser g) v) xs = Some ws /\ mapM (de_entry (De g) k v) ws = Some xs.
  Proof.
    intros HP Hk Hv. revert xs. induction kvs as [|[key j] kvs IH]; intros xs H; cbn in H.
    - injection H as <-. exists []. intros g _. split; reflexivity.
    - unfold de_entry at 1 in H. cbn [fst snd] in H.
      destruct (de_key (De f) k key); [|discriminate].
      destruct (De f v j) as [x|] eqn:Ex; [|discriminate].
      destruct (mapM (de_entry (De f) k v) kvs) as [xs'|] eqn:Er; [|discriminate]. injection H as <-.
      destruct (HP v j x Hv Ex) as (w & Hw & _). destruct (IH xs' eq_refl) as [ws Hws].
      exists ((key, w) :: ws). intros g Hg. destruct (Hw g Hg) as [A B]. destruct (Hws g Hg) as [C D].
      cbn. unfold ser_entry at 1, de_entry at 1. cbn [fst snd]. rewrite A. cbn. rewrite C, B, D.
      destruct g as [|g]; [lia|]. unfold de_key. rewrite de_S, Hk. cbn. split; reflexivity.
  Qed.

  (* ---- struct members *)
  Definition MRT (f : nat) (p : prop) (x : rval) (w : json) : Prop :=
    forall g, f < g ->
      Ser g (p_ty p) x = Some w /\ De g (p_ty p) w = Some x /\
      (skip_if T p x = true -> missing T (De g) (Dflt g) p = Some x).

  Lemma skip_cases p x : skip_if T p x = true ->
    p_state p = POptional /\
    ((exists t, unbox_det T (p_ty p) = Some (DOption t) /\ x = ROptNone) \/
     (exists t, unbox_det T (p_ty p) = Some (DVec t) /\ x = RSeq []) \/
     (exists k v, unbox_det T (p_ty p) = Some (DMap k v) /\ x = RMap [])).
  Proof.
    unfold skip_if. destruct (p_state p); try discriminate.
    destruct (unbox_det T (p_ty p)) as [[]|]; try discriminate;
      destruct x as [| | | | | | |l|l| | | |]; try discriminate;
      try (destruct l; try discriminate); intros _; split; eauto 6.
  Qed.

  (* the default of a type whose (unboxed) details are Option / Vec / Map *)
  Lemma dflt_unboxed t d g :
    unbox_det T t = Some d -> 2 <= g ->
    match d with
    | DOption _ => default_val T g t = Some ROptNone
    | DVec _ => default_val T g t = Some (RSeq [])
    | DMap _ _ => default_val T g t = Some (RMap [])
    | _ => True
    end.
  Proof.
    intros Hu Hg. destruct g as [|[|g]]; try lia. unfold unbox_det in Hu.
    destruct (get_det T t) as [dt|] eqn:Et; [|discriminate].
    destruct dt as [? ? ? ? ? ?|? ? ? ?|? ? ? ?|? ? ?|?|b|?|? ?|?|? ?|?| | |?|?| | |?];
      try (injection Hu as <-; cbn [default_val]; try rewrite Et; first [exact I | reflexivity]).
    (* Box *)
    destruct (get_det T b) as [db|] eqn:Eb; injection Hu as <-; [|exact I].
    destruct db; try exact I; cbn [default_val]; rewrite Et, Eb; reflexivity.
  Qed.

  Lemma skip_missing p x g : 2 <= g -> skip_if T p x = true -> missing T (De g) (Dflt g) p = Some x.
  Proof.
    intros Hg Hs. destruct (skip_cases p x Hs) as [Hst Hc]. unfold missing. rewrite Hst.
    destruct Hc as [(t & Hu & ->)|[(t & Hu & ->)|(k & v & Hu & ->)]];
      exact (dflt_unboxed _ _ g Hu Hg).
  Qed.

  Lemma src_pos f p x : member_src T (De f) (Dflt f) p x -> p_state p = POptional -> 1 <= f.
  Proof.
    intros [[j Hj]|Hm] Hst; (destruct f; [|lia]); [discriminate Hj|].
    unfold missing in Hm. rewrite Hst in Hm. discriminate Hm.
  Qed.

  Lemma member_fact f p x :
    P f -> inS (p_ty p) -> member_src T (De f) (Dflt f) p x -> exists w, MRT f p x w.
  Proof.
    intros HP Ht Hsrc.
    assert (Hrt : exists w, RT f (p_ty p) x w).
    { destruct Hsrc as [[j Hj]|Hm].
      - destruct (HP _ _ _ Ht Hj) as (w & Hw & _). eauto.
      - destruct (p_state p) eqn:Es.
        + (* an absent required member is taken exactly like null (IR/Serde.v [missing]) *)
          destruct (missing_required_some T _ _ p x Es Hm) as [-> Hj].
          destruct (HP _ _ _ Ht Hj) as (w & Hw & _). eauto.
        + unfold missing in Hm. rewrite Es in Hm. apply dflt_rt; assumption.
        + unfold missing in Hm. rewrite Es in Hm.
          destruct (HP _ _ _ Ht Hm) as (w & Hw & _). eauto. }
    destruct Hrt as [w Hw]. exists w. intros g Hg. destruct (Hw g Hg) as [A B]. repeat split; auto.
    intros Hsk. apply skip_missing; [|exact Hsk].
    pose proof (src_pos f p x Hsrc (proj1 (skip_cases p x Hsk))). lia.
  Qed.

  Lemma no_flatten_cases p : no_flatten p = true -> p_rename p = RNone \/ exists s, p_rename p = RRename s.
  Proof. unfold no_flatten. destruct (p_rename p); try discriminate; eauto. Qed.

  Lemma fields_rt f ps fs :
    forallb no_flatten ps = true -> nodup_ustr (map p_name ps) = true -> nodup_ustr (wire_names ps) = true ->
    Forall2 (fun p fx => fst fx = p_name p /\ exists w, MRT f p (snd fx) w) ps fs ->
    exists m, (forall g, f < g -> ser_fields T (Ser g) ps fs = Some m /\ de_named T (De g) (Dflt g) ps m = Some fs)
              /\ (forall k x, In (k, x) m -> mem_ustr k (wire_names ps) = true).
  Proof.
    intros Hnf Hn Hw F. induction F as [|p [n x] ps fs [Hname [w Hm]] F IH].
    - exists []. split; [intros; split; reflexivity | intros k x []].
    - cbn [fst snd] in *. subst n.
      cbn [forallb] in Hnf. apply andb_true_iff in Hnf as [Hp Hnf].
      destruct (no_flatten_wire _ Hp) as [wn Ewn].
      cbn [map nodup_ustr] in Hn. apply andb_true_iff in Hn as [Hn1 Hn2]. apply negb_true_iff in Hn1.
      rewrite (wire_names_cons _ _ _ Ewn) in Hw |- *. cbn [nodup_ustr] in Hw.
      apply andb_true_iff in Hw as [Hw1 Hw2]. apply negb_true_iff in Hw1.
      destruct (IH Hnf Hn2 Hw2) as (m' & Hm' & Hk').
      assert (Hnone : assoc wn m' = None).
      { destruct (assoc wn m') eqn:E; [|reflexivity]. apply assoc_In in E. apply Hk' in E. congruence. }
      exists (if skip_if T p x then m' else (wn, w) :: m'). split.
      + intros g Hg. destruct (Hm g Hg) as (A & B & C). destruct (Hm' g Hg) as [D E].
        destruct (skip_if T p x) eqn:Esk.
        * cbn [ser_fields de_named assoc].
          rewrite ustr_eqb_refl, (ser_fields_irrel _ _ _ _ _ _ Hn1), D, Ewn, Esk, Hnone. cbn [assoc].
          rewrite (C eq_refl), E.
          split; [|reflexivity]. destruct (no_flatten_cases _ Hp) as [Er|[s Er]]; rewrite Er; reflexivity.
        * cbn [ser_fields de_named assoc].
          rewrite !ustr_eqb_refl, (ser_fields_irrel _ _ _ _ _ _ Hn1), D, Ewn, Esk, A. cbn [assoc].
          rewrite (ustr_eqb_refl wn), B, (de_named_irrel _ _ _ _ _ _ _ Hw1), E.
          split; [|reflexivity]. destruct (no_flatten_cases _ Hp) as [Er|[s Er]]; rewrite Er; reflexivity.
      + intros k y Hin. apply mem_ustr_In. destruct (skip_if T p x).
        * right. apply mem_ustr_In. eapply Hk'; eauto.
        * destruct Hin as [E|Hin]; [injection E as <- <-; left; reflexivity|].
          right. apply mem_ustr_In. eapply Hk'; eauto.
  Qed.

  Definition props_in (ps : list prop) : Prop := forall p, In p ps -> inS (p_ty p).

  Lemma shape_to_mrt f ps fs :
    P f -> props_in ps ->
    Forall2 (fun p fx => fst fx = p_name p /\ member_src T (De f) (Dflt f) p (snd fx)) ps fs ->
    Forall2 (fun p fx => fst fx = p_name p /\ exists w, MRT f p (snd fx) w) ps fs.
  Proof.
    intros HP Hin F. induction F as [|p fx ps fs [A B] F IH]; constructor.
    - split; [exact A|]. apply member_fact; auto. apply Hin. left; reflexivity.
    - apply IH. intros q Hq. apply Hin. right; exact Hq.
  Qed.

  Lemma struct_rt f ps deny j x :
    P f -> props_ok ps = true -> props_in ps ->
    de_struct_body T (De f) (Dflt f) ps deny j = Some x ->
    exists fs m, x = RStruct fs /\
      (forall g, f < g -> ser_fields T (Ser g) ps fs = Some m /\
                          de_struct_body T (De g) (Dflt g) ps deny (JObj m) = Some (RStruct fs)) /\
      (forall k y, In (k, y) m -> mem_ustr k (wire_names ps) = true).
  Proof.
    intros HP Hok Hin H. unfold props_ok in Hok.
    apply andb_true_iff in Hok as [Hok Hw]. apply andb_true_iff in Hok as [Hnf Hn].
    assert (Hshape : exists fs, x = RStruct fs /\
              Forall2 (fun p fx => fst fx = p_name p /\ member_src T (De f) (Dflt f) p (snd fx)) ps fs).
    { unfold de_struct_body in H. destruct j; try discriminate.
      - rewrite (flat_props_nil _ Hnf) in H. apply option_map_Some in H as (fs & Hfs & ->).
        exists fs. split; [reflexivity|]. eapply de_struct_seq_shape; eauto.
      - apply option_map_Some in H as (fs & Hfs & ->). exists fs. split; [reflexivity|].
        unfold de_struct_obj in Hfs.
        destruct (de_named T (De f) (Dflt f) ps kvs) as [named|] eqn:En; [|discriminate].
        rewrite (flat_props_nil _ Hnf) in Hfs. destruct (deny && _); [discriminate|].
        injection Hfs as <-. eapply de_named_shape; eauto. }
    destruct Hshape as (fs & -> & F). apply (shape_to_mrt f ps fs HP Hin) in F.
    destruct (fields_rt f ps fs Hnf Hn Hw F) as (m & Hm & Hk). exists fs, m.
    split; [reflexivity|]. split; [|exact Hk].
    intros g Hg. destruct (Hm g Hg) as [A B]. split; [exact A|].
    unfold de_struct_body, de_struct_obj. rewrite B, (flat_props_nil _ Hnf).
    assert (Hu : unknown_entries ps m = []).
    { unfold unknown_entries. apply filter_nil. intros [k y] Hy. cbn. rewrite (Hk _ _ Hy). reflexivity. }
    rewrite Hu. cbn. rewrite andb_false_r. reflexivity.
  Qed.

  (* ---- enum payloads *)
  Definition vd_ok (vd : vdetails) : Prop :=
    match vd with
    | VSimple => True
    | VItem t => inS t
    | VTuple ts => forall c, In c ts -> inS c
    | VStruct ps => props_ok ps = true /\ props_in ps
    end.

  Lemma payload_rt f deny vd j px :
    P f -> vd_ok vd -> de_payload T (De f) (Dflt f) deny vd j = Some px ->
    exists pw,
      (forall g, f < g -> ser_payload T (Ser g) vd px = Some pw /\
                          de_payload T (De g) (Dflt g) deny vd pw = Some px)
      /\ match vd with
         | VStruct ps => exists m, pw = JObj m /\ (forall k y, In (k, y) m -> mem_ustr k (wire_names ps) = true)
         | VSimple => px = RUnit /\ pw = JNull
         | _ => True
         end.
  Proof.
    intros HP Hok H. destruct vd as [|t|ts|ps]; cbn [de_payload] in H.
    - destruct j; try discriminate. injection H as <-. exists JNull.
      split; [intros; split; reflexivity | split; reflexivity].
    - destruct (HP _ _ _ Hok H) as (w & Hw & _). exists w. split; [|exact I].
      intros g Hg. cbn [ser_payload de_payload]. apply Hw; exact Hg.
    - destruct j; try discriminate. apply option_map_Some in H as (xs & Hxs & ->).
      destruct (zipM_rt f ts l xs HP Hok Hxs) as [ws Hws]. exists (JArr ws). split; [|exact I].
      intros g Hg. destruct (Hws g Hg) as [A B]. cbn [ser_payload de_payload]. rewrite A, B. split; reflexivity.
    - destruct Hok as [Hok Hin].
      destruct (struct_rt f ps deny j px HP Hok Hin H) as (fs & m & -> & Hm & Hk).
      exists (JObj m). split; [|eauto]. intros g Hg. destruct (Hm g Hg) as [A B].
      cbn [ser_payload de_payload]. rewrite A. split; [reflexivity | exact B].
  Qed.

  (* ---- enums *)
  Lemma variant_children n dv tag vs deny bes v :
    (forall c, In c (children (DEnum n dv tag vs deny bes)) -> inS c) -> In v vs ->
    match v_det v with
    | VSimple => True
    | VItem t => inS t
    | VTuple ts => forall c, In c ts -> inS c
    | VStruct ps => props_in ps
    end.
  Proof.
    intros H Hv. cbn [children] in H. destruct (v_det v) eqn:E; auto.
    - apply H. apply in_flat_map. exists v. rewrite E. split; [auto | left; reflexivity].
    - intros c Hc. apply H. apply in_flat_map. exists v. rewrite E. auto.
    - intros p Hp. apply H. apply in_flat_map. exists v. rewrite E. split; auto. apply in_map. exact Hp.
  Qed.

  Lemma remove_key_notin {X} k (m : list (ustring * X)) :
    (forall k' y, In (k', y) m -> ustr_eqb k k' = false) -> remove_key k m = m.
  Proof.
    induction m as [|[k' y] m IH]; intros H; cbn; [reflexivity|].
    rewrite (H k' y (or_introl eq_refl)). f_equal. apply IH. intros a b Hab. eapply H. right. exact Hab.
  Qed.

  Lemma enum_rt f n dv tag vs deny bes j x :
    P f -> node_ok T (DEnum n dv tag vs deny bes) = true ->
    (forall c, In c (children (DEnum n dv tag vs deny bes)) -> inS c) ->
    de_enum T (De f) (Dflt f) tag vs deny j = Some x ->
    exists w, (forall g, f < g -> ser_enum T (Ser g) tag vs x = Some w /\
                                  de_enum T (De g) (Dflt g) tag vs deny w = Some x) /\ w <> JNull.
  Proof.
    intros HP Hok Hch H.
    assert (Hv : forall v, In v vs -> vd_ok (v_det v) /\
               match tag, v_det v with
               | TagInternal tg, VStruct ps => mem_ustr tg (wire_names ps) = false
               | TagInternal _, VItem _ | TagInternal _, VTuple _ => False
               | _, _ => True
               end).
    { intros v Hin. pose proof (variant_children _ _ _ _ _ _ v Hch Hin) as Hc.
      cbn [node_ok] in Hok. destruct tag as [|tg|tg ct|]; try discriminate.
      - rewrite forallb_forall in Hok. specialize (Hok v Hin). unfold vd_ok.
        revert Hc Hok. destruct (v_det v); intros Hc Hok; repeat split; auto.
      - rewrite forallb_forall in Hok. specialize (Hok v Hin). unfold vd_ok.
        revert Hc Hok. destruct (v_det v); intros Hc Hok; try discriminate Hok; repeat split; auto.
        + apply andb_true_iff in Hok as [A B]. exact A.
        + apply andb_true_iff in Hok as [A B]. apply negb_true_iff in B. exact B.
      - apply andb_true_iff in Hok as [_ Hok]. rewrite forallb_forall in Hok. specialize (Hok v Hin).
        unfold vd_ok. revert Hc Hok. destruct (v_det v); intros Hc Hok; repeat split; auto. }
    destruct tag as [|tg|tg ct|]; [| | |discriminate Hok]; cbn [de_enum] in H.
    - (* external *)
      destruct j as [| | | |s| |kvs]; try discriminate.
      + destruct (find_variant s vs 0) as [[i v]|] eqn:Ef; [|discriminate].
        destruct (find_variant_0 _ _ _ _ Ef) as (Hn & Hr & Hi). subst s.
        destruct (v_det v) eqn:Ev; try discriminate. injection H as <-.
        exists (JStr (v_raw v)). split; [|discriminate]. intros g _. cbn [ser_enum de_enum].
        rewrite Hn, Ef, Ev. split; reflexivity.
      + destruct kvs as [|[k pj] [|]]; try discriminate.
        destruct (find_variant k vs 0) as [[i v]|] eqn:Ef; [|discriminate].
        destruct (find_variant_0 _ _ _ _ Ef) as (Hn & Hr & Hi). subst k.
        apply option_map_Some in H as (px & Hpx & ->).
        destruct (Hv v Hi) as [Hvd _].
        destruct (payload_rt f deny (v_det v) pj px HP Hvd Hpx) as (pw & Hpw & Hsh).
        destruct (v_det v) eqn:Ev.
        * destruct Hsh as [-> ->]. exists (JStr (v_raw v)). split; [|discriminate]. intros g _.
          cbn [ser_enum de_enum]. rewrite Hn, Ef, Ev. split; reflexivity.
        * exists (JObj [(v_raw v, pw)]). split; [|discriminate]. intros g Hg. destruct (Hpw g Hg) as [A B].
          cbn [ser_enum de_enum]. rewrite Hn, Ef, Ev, A, B. split; reflexivity.
        * exists (JObj [(v_raw v, pw)]). split; [|discriminate]. intros g Hg. destruct (Hpw g Hg) as [A B].
          cbn [ser_enum de_enum]. rewrite Hn, Ef, Ev, A, B. split; reflexivity.
        * exists (JObj [(v_raw v, pw)]). split; [|discriminate]. intros g Hg. destruct (Hpw g Hg) as [A B].
          cbn [ser_enum de_enum]. rewrite Hn, Ef, Ev, A, B. split; reflexivity.
    - (* internal *)
      destruct j as [| | | | | |kvs]; try discriminate.
      destruct (assoc tg kvs) as [[| | | |s| |]|] eqn:Ea; try discriminate.
      destruct (find_variant s vs 0) as [[i v]|] eqn:Ef; [|discriminate].
      destruct (find_variant_0 _ _ _ _ Ef) as (Hn & Hr & Hi). subst s.
      destruct (Hv v Hi) as [Hvd Hint]. revert Hvd Hint H.
      destruct (v_det v) eqn:Ev; intros Hvd Hint H; try (destruct Hint; fail).
      + injection H as <-.
        exists (JObj [(tg, JStr (v_raw v))]). split; [|discriminate]. intros g _.
        cbn [ser_enum de_enum assoc remove_key]. rewrite Hn, Ev, !ustr_eqb_refl, Ef, Ev.
        cbn. try rewrite andb_false_r. split; reflexivity.
      + apply option_map_Some in H as (px & Hpx & ->). destruct Hvd as [Hpo Hpi].
        destruct (struct_rt f ps deny _ px HP Hpo Hpi Hpx) as (fs & m & -> & Hm & Hk).
        exists (JObj ((tg, JStr (v_raw v)) :: m)). split; [|discriminate]. intros g Hg.
        destruct (Hm g Hg) as [A B].
        assert (Hrm : remove_key tg m = m).
        { apply remove_key_notin. intros k' y Hy. destruct (ustr_eqb tg k') eqn:E; [|reflexivity].
          apply ustr_eqb_eq in E. subst k'. rewrite (Hk _ _ Hy) in Hint. discriminate. }
        cbn [ser_enum ser_payload de_enum assoc remove_key]. rewrite Hn, Ev, A. cbn [option_map].
        rewrite !ustr_eqb_refl, Ef, Ev, Hrm, B. split; reflexivity.
    - (* adjacent *)
      cbn [node_ok] in Hok. apply andb_true_iff in Hok as [Hne _]. apply negb_true_iff in Hne.
      assert (Hne' : ustr_eqb ct tg = false) by (rewrite ustr_eqb_sym; exact Hne).
      destruct j as [| | | | | |kvs]; try discriminate.
      destruct (assoc tg kvs) as [[| | | |s| |]|] eqn:Ea; try discriminate.
      destruct (find_variant s vs 0) as [[i v]|] eqn:Ef; [|discriminate].
      destruct (find_variant_0 _ _ _ _ Ef) as (Hn & Hr & Hi). subst s.
      destruct (deny && _); [discriminate|].
      destruct (Hv v Hi) as [Hvd _].
      assert (Hsimple : v_det v = VSimple -> x = REnum i RUnit).
      { intros Ev. rewrite Ev in H. destruct (assoc ct kvs) as [pj|]; [|congruence].
        cbn in H. destruct pj; try discriminate H; cbn in H; congruence. }
      destruct (v_det v) eqn:Ev.
      + rewrite (Hsimple eq_refl). exists (JObj [(tg, JStr (v_raw v))]). split; [|discriminate]. intros g _.
        cbn [ser_enum de_enum assoc remove_key]. rewrite Hn, Ev, !ustr_eqb_refl, Ef, Ev, Hne'.
        cbn. rewrite andb_false_r. split; reflexivity.
      + destruct (assoc ct kvs) as [pj|]; [|discriminate].
        apply option_map_Some in H as (px & Hpx & ->).
        destruct (payload_rt f deny _ pj px HP Hvd Hpx) as (pw & Hpw & _).
        exists (JObj [(tg, JStr (v_raw v)); (ct, pw)]). split; [|discriminate]. intros g Hg.
        destruct (Hpw g Hg) as [A B].
        cbn [ser_enum de_enum assoc remove_key]. rewrite Hn, Ev, A. cbn [option_map].
        rewrite !ustr_eqb_refl, Ef, Ev, Hne, Hne'. cbn [remove_key assoc]. rewrite (ustr_eqb_refl ct), B.
        cbn. rewrite andb_false_r. split; reflexivity.
      + destruct (assoc ct kvs) as [pj|]; [|discriminate].
        apply option_map_Some in H as (px & Hpx & ->).
        destruct (payload_rt f deny _ pj px HP Hvd Hpx) as (pw & Hpw & _).
        exists (JObj [(tg, JStr (v_raw v)); (ct, pw)]). split; [|discriminate]. intros g Hg.
        destruct (Hpw g Hg) as [A B].
        cbn [ser_enum de_enum assoc remove_key]. rewrite Hn, Ev, A. cbn [option_map].
        rewrite !ustr_eqb_refl, Ef, Ev, Hne, Hne'. cbn [remove_key assoc]. rewrite (ustr_eqb_refl ct), B.
        cbn. rewrite andb_false_r. split; reflexivity.
      + destruct (assoc ct kvs) as [pj|]; [|discriminate].
        apply option_map_Some in H as (px & Hpx & ->).
        destruct (payload_rt f deny _ pj px HP Hvd Hpx) as (pw & Hpw & _).
        exists (JObj [(tg, JStr (v_raw v)); (ct, pw)]). split; [|discriminate]. intros g Hg.
        destruct (Hpw g Hg) as [A B].
        cbn [ser_enum de_enum assoc remove_key]. rewrite Hn, Ev, A. cbn [option_map].
        rewrite !ustr_eqb_refl, Ef, Ev, Hne, Hne'. cbn [remove_key assoc]. rewrite (ustr_eqb_refl ct), B.
        cbn. rewrite andb_false_r. split; reflexivity.
  Qed.

  (* ---- scalar inner types of allow/deny-list newtypes: the output is the input *)
  Lemma scalar_exact f t v x :
    exact_scalar T t = true -> De f t v = Some x ->
    forall g, 0 < g -> Ser g t x = Some v /\ De g t v = Some x.
  Proof.
    intros He H g Hg. destruct f as [|f]; [discriminate|]. destruct g as [|g]; [lia|].
    rewrite de_S in H. rewrite ser_S, de_S. unfold exact_scalar in He.
    destruct (get_det T t) as [[]|]; try discriminate He; cbn [de_node] in *.
    - destruct v; try discriminate. injection H as <-. split; reflexivity.
    - destruct v; try discriminate. destruct (in_int_range name z) eqn:E; [|discriminate].
      injection H as <-. cbn [ser_node de_node]. try rewrite E. split; reflexivity.
    - destruct v; try discriminate. injection H as <-. split; reflexivity.
  Qed.

  (* ---- the core theorem *)
  Theorem rt_core : forall f, P f.
  Proof.
    induction f as [|f IH]; intros t v x Ht H; [discriminate|].
    destruct (set_node t Ht) as (d & Hd & Hok & Hch).
    rewrite de_S, Hd in H.
    destruct d; cbn [de_node] in H.
    - (* Enum *)
      destruct (enum_rt f _ _ _ _ _ _ _ _ IH Hok Hch H) as (w & Hw & Hnn).
      exists w. split; [|congruence]. eapply RT_S; [exact Hd|]. intros g Hg. cbn [ser_node de_node]. apply Hw. exact Hg.
    - (* Struct *)
      cbn [node_ok] in Hok.
      assert (Hin : props_in props) by (intros p Hp; apply Hch; cbn [children]; apply in_map; exact Hp).
      destruct (struct_rt f _ _ _ _ IH Hok Hin H) as (fs & m & -> & Hm & _).
      exists (JObj m). split; [|discriminate]. eapply RT_S; [exact Hd|]. intros g Hg.
      destruct (Hm g Hg) as [A B]. cbn [ser_node de_node]. rewrite A. split; [reflexivity | exact B].
    - (* Newtype *)
      assert (Hi : inS inner) by (apply Hch; left; reflexivity).
      destruct c as [|vs|vs|mx mn pat].
      + destruct (IH _ _ _ Hi H) as (w & Hw & Hn). exists w. split; [|exact Hn].
        eapply RT_S; [exact Hd|]. intros g Hg. cbn [ser_node de_node]. apply Hw. exact Hg.
      + destruct (De f inner v) as [x'|] eqn:Ex; [|discriminate].
        destruct (existsb (json_equiv v) vs) eqn:Ee; [|discriminate]. injection H as <-.
        exists v. split; [|auto]. eapply RT_S; [exact Hd|]. intros g Hg.
        destruct (scalar_exact _ _ _ _ Hok Ex g) as [A B]; [lia|].
        cbn [ser_node de_node]. rewrite A, B, Ee. split; reflexivity.
      + destruct (De f inner v) as [x'|] eqn:Ex; [|discriminate].
        destruct (existsb (json_equiv v) vs) eqn:Ee; [discriminate|]. injection H as <-.
        exists v. split; [|auto]. eapply RT_S; [exact Hd|]. intros g Hg.
        destruct (scalar_exact _ _ _ _ Hok Ex g) as [A B]; [lia|].
        cbn [ser_node de_node]. rewrite A, B, Ee. split; reflexivity.
      + destruct v; try discriminate.
        destruct (str_constraints_ok re_match mx mn pat s) eqn:Ec; [|discriminate]. injection H as <-.
        exists (JStr s). split; [|discriminate]. eapply RT_S; [exact Hd|]. intros g _.
        cbn [ser_node de_node]. rewrite Ec. split; reflexivity.
    - (* Native *)
      destruct v; try discriminate. destruct (native_ok type_name s) eqn:En; [|discriminate]. injection H as <-.
      exists (JStr s). split; [|discriminate]. eapply RT_S; [exact Hd|]. intros g _.
      cbn [ser_node de_node]. rewrite En. split; reflexivity.
    - (* Option *)
      cbn [node_ok] in Hok.
      assert (Hi : inS t0) by (apply Hch; left; reflexivity).
      destruct (json_eq_null v) as [->|Hv].
      + injection H as <-. exists JNull. split; [|auto]. eapply RT_S; [exact Hd|]. intros g _.
        rewrite ser_node_option by exact Hok. split; reflexivity.
      + change (dnode (De f) (Dflt f) (DOption t0) v = Some x) in H.
        rewrite (de_node_option_nonnull _ _ _ _ _ _ _ Hv Hok) in H.
        apply option_map_Some in H as (y & Hy & ->).
        destruct (IH _ _ _ Hi Hy) as (w & Hw & Hn).
        assert (Hwn : w <> JNull) by (intros E; apply Hv; apply Hn; exact E).
        exists w. split; [|intros E; contradiction]. eapply RT_S; [exact Hd|]. intros g Hg.
        destruct (Hw g Hg) as [A B].
        rewrite ser_node_option by exact Hok.
        rewrite (de_node_option_nonnull _ _ _ _ _ _ _ Hwn Hok), A, B. split; reflexivity.
    - (* Box *)
      assert (Hi : inS t0) by (apply Hch; left; reflexivity).
      destruct (IH _ _ _ Hi H) as (w & Hw & Hn). exists w. split; [|exact Hn].
      eapply RT_S; [exact Hd|]. intros g Hg. cbn [ser_node de_node]. apply Hw. exact Hg.
    - (* Vec *)
      assert (Hi : inS t0) by (apply Hch; left; reflexivity).
      destruct v; try discriminate. apply option_map_Some in H as (xs & Hxs & ->).
      destruct (mapM_rt f _ _ _ IH Hi Hxs) as (ws & Hws & _). exists (JArr ws). split; [|discriminate].
      eapply RT_S; [exact Hd|]. intros g Hg. destruct (Hws g Hg) as [A B].
      cbn [ser_node de_node]. rewrite A, B. split; reflexivity.
    - (* Map *)
      cbn [node_ok] in Hok.
      assert (Hk : get_det T k = Some DString) by (destruct (get_det T k) as [[]|]; try discriminate; reflexivity).
      assert (Hi : inS v0) by (apply Hch; right; left; reflexivity).
      destruct v; try discriminate. apply option_map_Some in H as (xs & Hxs & ->).
      destruct (map_rt f k v0 kvs xs IH Hk Hi Hxs) as [ws Hws]. exists (JObj ws). split; [|discriminate].
      eapply RT_S; [exact Hd|]. intros g Hg. destruct (Hws g Hg) as [A B].
      cbn [ser_node de_node]. fold (ser_entry (Ser g) v0). fold (de_entry (De g) k v0).
      rewrite A, B. split; reflexivity.
    - (* Set *)
      assert (Hi : inS t0) by (apply Hch; left; reflexivity).
      destruct v; try discriminate. apply option_map_Some in H as (xs & Hxs & ->).
      destruct (mapM_rt f _ _ _ IH Hi Hxs) as (ws & Hws & _). exists (JArr ws). split; [|discriminate].
      eapply RT_S; [exact Hd|]. intros g Hg. destruct (Hws g Hg) as [A B].
      cbn [ser_node de_node]. rewrite A, B. split; reflexivity.
    - (* Array *)
      assert (Hi : inS t0) by (apply Hch; left; reflexivity).
      destruct v; try discriminate.
      destruct (N.eqb (N.of_nat (length l)) n) eqn:El; [|discriminate].
      apply option_map_Some in H as (xs & Hxs & ->).
      destruct (mapM_rt f _ _ _ IH Hi Hxs) as (ws & Hws & Hl). exists (JArr ws). split; [|discriminate].
      eapply RT_S; [exact Hd|]. intros g Hg. destruct (Hws g Hg) as [A B].
      cbn [ser_node de_node]. rewrite Hl, El, A, B. split; reflexivity.
    - (* Tuple *)
      destruct v; try discriminate. apply option_map_Some in H as (xs & Hxs & ->).
      destruct (zipM_rt f ts l xs IH Hch Hxs) as [ws Hws]. exists (JArr ws). split; [|discriminate].
      eapply RT_S; [exact Hd|]. intros g Hg. destruct (Hws g Hg) as [A B].
      cbn [ser_node de_node]. rewrite A, B. split; reflexivity.
    - (* Unit *)
      destruct v; try discriminate. injection H as <-. exists JNull. split; [|auto].
      eapply RT_S; [exact Hd|]. intros g _. split; reflexivity.
    - (* Boolean *)
      destruct v; try discriminate. injection H as <-. exists (JBool b). split; [|discriminate].
      eapply RT_S; [exact Hd|]. intros g _. split; reflexivity.
    - (* Integer *)
      destruct v; try discriminate. destruct (in_int_range name z) eqn:E; [|discriminate]. injection H as <-.
      exists (JInt z). split; [|discriminate]. eapply RT_S; [exact Hd|]. intros g _.
      cbn [ser_node de_node]. rewrite E. split; reflexivity.
    - (* Float *)
      destruct v; try discriminate; injection H as <-.
      + exists (JFlt (inject_Z z)). split; [|discriminate]. eapply RT_S; [exact Hd|]. intros g _. split; reflexivity.
      + exists (JFlt q). split; [|discriminate]. eapply RT_S; [exact Hd|]. intros g _. split; reflexivity.
    - (* String *)
      destruct v; try discriminate. injection H as <-. exists (JStr s). split; [|discriminate].
      eapply RT_S; [exact Hd|]. intros g _. split; reflexivity.
    - (* JsonValue *)
      injection H as <-. exists v. split; [|auto]. eapply RT_S; [exact Hd|]. intros g _. split; reflexivity.
    - (* Reference *) discriminate.
  Qed.
End Core.

(* ------------------------------------------------------------------ per-type statements *)
Lemma rt_simple_set T t :
  rt_simple T t = true -> exists S0, rt_set T S0 = true /\ mem_id t S0 = true.
Proof.
  unfold rt_simple, rt_simple_at. intros H. apply andb_true_iff in H as [A B]. eauto.
Qed.

Theorem rt_fixed_point re nat T t :
  rt_simple T t = true ->
  forall f v x, de re nat T f t v = Some x ->
  exists w, (forall g, f < g -> ser T g t x = Some w /\ de re nat T g t w = Some x) /\ (w = JNull -> v = JNull).
Proof.
  intros H f v x Hd. destruct (rt_simple_set T t H) as (S0 & HS & Ht).
  exact (rt_core re nat T S0 HS f t v x Ht Hd).
Qed.

Theorem ser_total re nat T t :
  rt_simple T t = true ->
  forall f v x, de re nat T f t v = Some x -> exists w, ser T (S f) t x = Some w.
Proof.
  intros H f v x Hd. destruct (rt_fixed_point re nat T t H f v x Hd) as (w & Hw & _).
  exists w. apply Hw. lia.
Qed.

Theorem rt_idempotent re nat T t :
  rt_simple T t = true ->
  forall f v x, de re nat T f t v = Some x ->
  forall g w, f < g -> ser T g t x = Some w ->
    de re nat T g t w = Some x /\
    (forall x', de re nat T g t w = Some x' -> ser T g t x' = Some w).
Proof.
  intros H f v x Hd g w Hg Hs. destruct (rt_fixed_point re nat T t H f v x Hd) as (w0 & Hw & _).
  destruct (Hw g Hg) as [A B]. rewrite A in Hs. injection Hs as <-. split; [exact B|].
  intros x' Hx'. rewrite B in Hx'. injection Hx' as <-. exact A.
Qed.

(* ------------------------------------------------------------------ DESIGN 3.7 on the model *)
(* After fix b9da3ef the attribute selection looks through one Box: an Optional
   member of type Box<Option<_>> whose value is None is skipped like an
   Option<_> member, an absent one is read as None, so nothing is emitted. *)
Lemma boxed_option_skipped T p b u :
  p_state p = POptional -> get_det T (p_ty p) = Some (DBox b) -> get_det T b = Some (DOption u) ->
  skip_if T p ROptNone = true.
Proof. intros Hs Ht Hb. unfold skip_if, unbox_det. rewrite Hs, Ht, Hb. reflexivity. Qed.

Lemma boxed_option_absent_is_none T p b u dr g :
  p_state p = POptional -> get_det T (p_ty p) = Some (DBox b) -> get_det T b = Some (DOption u) ->
  missing T dr (default_val T (S (S g))) p = Some ROptNone.
Proof. intros Hs Ht Hb. unfold missing. rewrite Hs. cbn [default_val]. rewrite Ht, Hb. reflexivity. Qed.

Lemma boxed_option_member_omitted T sr p b u fs :
  p_state p = POptional -> p_rename p <> RFlatten ->
  get_det T (p_ty p) = Some (DBox b) -> get_det T b = Some (DOption u) ->
  ser_fields T sr [p] ((p_name p, ROptNone) :: fs) = Some [].
Proof.
  intros Hs Hr Ht Hb. cbn [ser_fields assoc].
  rewrite ustr_eqb_refl, (boxed_option_skipped T p b u Hs Ht Hb).
  destruct (p_rename p); try reflexivity. congruence.
Qed.

(* ------------------------------------------------------------------ untagged enums *)
(* what the untagged search offers to variant [vd]: its payload deserialiser,
   except that a struct variant is not read from an array *)
Definition untagged_payload T dr df (deny : bool) (vd : vdetails) (j : json) : option rval :=
  match vd, j with
  | VStruct _, JArr _ => None
  | vd, _ => de_payload T dr df deny vd j
  end.

Lemma de_untagged_cons T dr df deny a vs i j :
  de_untagged T dr df deny (a :: vs) i j =
  match untagged_payload T dr df deny (v_det a) j with
  | Some x => Some (REnum i x)
  | None => de_untagged T dr df deny vs (S i) j
  end.
Proof. cbn [de_untagged]. unfold untagged_payload. destruct (v_det a); destruct j; reflexivity. Qed.

(* the order lemma: the result of the untagged search is the FIRST variant whose
   payload deserialiser accepts the value *)
Lemma de_untagged_first T dr df deny vs i j x :
  de_untagged T dr df deny vs i j = Some x ->
  exists k v px, nth_error vs k = Some v /\ x = REnum (i + k) px /\
    untagged_payload T dr df deny (v_det v) j = Some px /\
    (forall k' v', k' < k -> nth_error vs k' = Some v' -> untagged_payload T dr df deny (v_det v') j = None).
Proof.
  revert i. induction vs as [|a vs IH]; intros i H; [discriminate|].
  rewrite de_untagged_cons in H.
  destruct (untagged_payload T dr df deny (v_det a) j) as [px|] eqn:E.
  - injection H as <-. exists 0, a, px. repeat split; auto. f_equal. lia. intros k' v' Hk. lia.
  - destruct (IH _ H) as (k & v & px & Hn & -> & Hp & Hfirst). exists (S k), v, px. repeat split; auto.
    + f_equal. lia.
    + intros [|k'] v' Hk Hn'; cbn in Hn'.
      * injection Hn' as <-. exact E.
      * eapply Hfirst; [|exact Hn']. lia.
Qed.

(* ================================================================== containment *)
Lemma prune_obj kvs : prune (JObj kvs) = JObj (prune_kvs kvs).
Proof.
  reflexivity.
Qed.

Lemma prune_arr l : prune (JArr l) = JArr (map prune l).
Proof. reflexivity. Qed.

Lemma prune_kvs_In k px kvs :
  In (k, px) (prune_kvs kvs) -> exists j, In (k, j) kvs /\ px = prune j /\ is_empty (prune j) = false.
Proof.
  induction kvs as [|[k' x] r IH]; cbn [prune_kvs]; [intros []|].
  destruct (is_empty (prune x)) eqn:E.
  - intros H. destruct (IH H) as (j & A & B & C). exists j. split; [right; exact A | auto].
  - intros [H|H].
    + injection H as <- <-. exists x. split; [left; reflexivity | auto].
    + destruct (IH H) as (j & A & B & C). exists j. split; [right; exact A | auto].
Qed.

Lemma assoc_prune_kvs k m y :
  assoc k m = Some y -> is_empty (prune y) = false -> assoc k (prune_kvs m) = Some (prune y).
Proof.
  induction m as [|[k' x] r IH]; cbn [assoc prune_kvs]; [discriminate|].
  destruct (ustr_eqb k k') eqn:E.
  - intros H Hy. injection H as ->. rewrite Hy. cbn [assoc]. rewrite E. reflexivity.
  - intros H Hy. destruct (is_empty (prune x)); [exact (IH H Hy)|]. cbn [assoc]. rewrite E. exact (IH H Hy).
Qed.

Lemma contained_nonempty a b : contained a b -> is_empty a = false -> is_empty b = false.
Proof.
  intros H. destruct H as [a|a b Hs He|l m F|kvs kvs' Hk]; intros Ha.
  - exact Ha.
  - destruct a; try discriminate Hs; destruct b as [| | | | |l|l]; try reflexivity; try discriminate He;
      try discriminate Ha; destruct l; reflexivity || discriminate He.
  - destruct F; [discriminate Ha | reflexivity].
  - destruct kvs as [|[k x] r]; [discriminate Ha|].
    destruct (Hk k x (or_introl eq_refl)) as (y & Hy & _). destruct kvs'; [discriminate Hy | reflexivity].
Qed.

Lemma nodup_keys_assoc {X} k (j : X) kvs : nodup_keys kvs = true -> In (k, j) kvs -> assoc k kvs = Some j.
Proof.
  induction kvs as [|[k' x] r IH]; cbn [nodup_keys assoc]; [intros _ []|].
  intros H Hin. apply andb_true_iff in H as [H1 H2]. apply negb_true_iff in H1.
  destruct Hin as [E|Hin].
  - injection E as <- <-. rewrite ustr_eqb_refl. reflexivity.
  - destruct (ustr_eqb k k') eqn:E; [|exact (IH H2 Hin)].
    apply ustr_eqb_eq in E. subst k'. apply In_assoc in Hin. apply has_key_false in H1.
    destruct Hin as [y Hy]. congruence.
Qed.

Lemma find_prop_spec k ps p : find_prop k ps = Some p -> In p ps /\ wire_name p = Some k.
Proof.
  induction ps as [|q ps IH]; cbn [find_prop]; [discriminate|].
  destruct (wire_name q) as [w|] eqn:Ew.
  - destruct (ustr_eqb k w) eqn:E.
    + intros H. injection H as <-. apply ustr_eqb_eq in E. subst w. split; [left; reflexivity | exact Ew].
    + intros H. destruct (IH H). split; [right|]; assumption.
  - intros H. destruct (IH H). split; [right|]; assumption.
Qed.

Lemma wire_in p ps k : In p ps -> wire_name p = Some k -> mem_ustr k (wire_names ps) = true.
Proof.
  induction ps as [|q ps IH]; [intros []|]. intros [->|Hin] Hw.
  - rewrite (wire_names_cons _ _ _ Hw). apply mem_ustr_In. left. reflexivity.
  - apply mem_ustr_In. destruct (wire_name q) as [w|] eqn:Ew.
    + rewrite (wire_names_cons _ _ _ Ew). right. apply mem_ustr_In. exact (IH Hin Hw).
    + unfold wire_names. cbn. rewrite Ew. apply mem_ustr_In. exact (IH Hin Hw).
Qed.

Lemma name_in p ps : In p ps -> mem_ustr (p_name p) (map p_name ps) = true.
Proof. intros H. apply mem_ustr_In. apply in_map. exact H. Qed.

(* member values by field identifier *)
Lemma de_named_assoc T dr df ps kvs fs :
  forallb no_flatten ps = true -> nodup_ustr (map p_name ps) = true ->
  de_named T dr df ps kvs = Some fs ->
  forall p, In p ps -> exists k x, wire_name p = Some k /\ assoc (p_name p) fs = Some x /\
    match assoc k kvs with Some j => dr (p_ty p) j | None => missing T dr df p end = Some x.
Proof.
  revert fs. induction ps as [|q ps IH]; intros fs Hnf Hn H p Hp; [destruct Hp|].
  cbn [forallb] in Hnf. apply andb_true_iff in Hnf as [Hq Hnf].
  cbn [map nodup_ustr] in Hn. apply andb_true_iff in Hn as [Hn1 Hn2]. apply negb_true_iff in Hn1.
  destruct (no_flatten_wire _ Hq) as [w Ew]. cbn [de_named] in H. rewrite Ew in H.
  destruct (match assoc w kvs with Some j => dr (p_ty q) j | None => missing T dr df q end) as [x|] eqn:Ex;
    [|discriminate].
  destruct (de_named T dr df ps kvs) as [xs|] eqn:Er; [|discriminate]. injection H as <-.
  destruct Hp as [<-|Hp].
  - exists w, x. cbn [assoc]. rewrite ustr_eqb_refl. auto.
  - destruct (IH xs Hnf Hn2 eq_refl p Hp) as (k & y & A & B & C). exists k, y. split; [exact A|]. split; [|exact C].
    cbn [assoc]. destruct (ustr_eqb (p_name p) (p_name q)) eqn:E; [|exact B].
    apply ustr_eqb_eq in E. rewrite <- E, (name_in p ps Hp) in Hn1. discriminate.
Qed.

Lemma ser_fields_assoc T sr ps fs m :
  forallb no_flatten ps = true -> nodup_ustr (wire_names ps) = true ->
  ser_fields T sr ps fs = Some m ->
  forall p, In p ps -> exists x, assoc (p_name p) fs = Some x /\
    (skip_if T p x = true \/
     exists k wj, wire_name p = Some k /\ sr (p_ty p) x = Some wj /\ assoc k m = Some wj).
Proof.
  revert m. induction ps as [|q ps IH]; intros m Hnf Hw H p Hp; [destruct Hp|].
  cbn [forallb] in Hnf. apply andb_true_iff in Hnf as [Hq Hnf].
  destruct (no_flatten_wire _ Hq) as [w Ew]. rewrite (wire_names_cons _ _ _ Ew) in Hw.
  cbn [nodup_ustr] in Hw. apply andb_true_iff in Hw as [Hw1 Hw2]. apply negb_true_iff in Hw1.
  cbn [ser_fields] in H. destruct (assoc (p_name q) fs) as [x|] eqn:Ex; [|discriminate].
  destruct (ser_fields T sr ps fs) as [rest|] eqn:Er; [|discriminate].
  assert (H' : (if skip_if T q x then Some rest
                else match sr (p_ty q) x with Some j => Some ((w, j) :: rest) | None => None end) = Some m).
  { rewrite Ew in H. destruct (no_flatten_cases _ Hq) as [E|[s E]]; rewrite E in H; exact H. }
  clear H. destruct Hp as [<-|Hp].
  - exists x. split; [exact Ex|]. destruct (skip_if T q x); [left; reflexivity|].
    destruct (sr (p_ty q) x) as [j|]; [|discriminate]. injection H' as <-. right. exists w, j.
    cbn [assoc]. rewrite ustr_eqb_refl. auto.
  - destruct (IH rest Hnf Hw2 eq_refl p Hp) as (y & A & B). exists y. split; [exact A|].
    destruct B as [B|(k & wj & B1 & B2 & B3)]; [left; exact B|]. right. exists k, wj. split; [exact B1|]. split; [exact B2|].
    destruct (skip_if T q x); [injection H' as <-; exact B3|].
    destruct (sr (p_ty q) x) as [j|]; [|discriminate]. injection H' as <-.
    cbn [assoc]. destruct (ustr_eqb k w) eqn:E; [|exact B3].
    apply ustr_eqb_eq in E. subst k. rewrite (wire_in p ps w Hp B1) in Hw1. discriminate.
Qed.

Lemma Forall2_map {X Y} (R : X -> Y -> Prop) (g : X -> X) (h : Y -> Y) l m :
  Forall2 (fun a b => R (g a) (h b)) l m -> Forall2 R (map g l) (map h m).
Proof. intros F. induction F; cbn; constructor; auto. Qed.

Lemma obj_contains kvs m :
  (forall k j, In (k, j) kvs -> is_empty (prune j) = false ->
     exists wj, assoc k m = Some wj /\ contained (prune j) (prune wj)) ->
  contained (prune (JObj kvs)) (prune (JObj m)).
Proof.
  intros H. rewrite !prune_obj. apply C_obj. intros k px Hin.
  destruct (prune_kvs_In _ _ _ Hin) as (j & A & -> & C). destruct (H k j A C) as (wj & B & D).
  exists (prune wj). split; [|exact D]. apply assoc_prune_kvs; [exact B|]. eapply contained_nonempty; eauto.
Qed.

Lemma remove_key_In {X} tg k (j : X) kvs :
  In (k, j) kvs -> ustr_eqb tg k = false -> In (k, j) (remove_key tg kvs).
Proof.
  induction kvs as [|[k' x] r IH]; cbn [remove_key]; [intros []|]. intros [E|Hin] Hne.
  - injection E as -> ->. rewrite Hne. left. reflexivity.
  - destruct (ustr_eqb tg k'); [|right]; apply IH; assumption.
Qed.

Lemma remove_key_nil {X} tg k (j : X) kvs :
  length (remove_key tg kvs) = 0 -> In (k, j) kvs -> ustr_eqb tg k = true.
Proof.
  intros Hl Hin. destruct (ustr_eqb tg k) eqn:E; [reflexivity|].
  pose proof (remove_key_In tg k j kvs Hin E) as H. destruct (remove_key tg kvs); [destruct H | discriminate Hl].
Qed.

Section Contains.
  Variable re_match : ustring -> ustring -> bool.
  Variable native_ok : ustring -> ustring -> bool.
  Variable T : space.
  Variable S0 : list id.
  Hypothesis HS : rt_set T S0 = true.

  Local Notation De := (Serde.de re_match native_ok T).
  Local Notation Ser := (Serde.ser T).
  Local Notation Dflt := (Serde.default_val T).
  Local Notation Decl := (decl_only T).
  Local Notation inS := (inS S0).

  Definition Q (f : nat) : Prop :=
    forall t v x w, inS t -> De f t v = Some x -> Decl f t v = true -> Ser (S f) t x = Some w ->
      contained (prune v) (prune w).

  (* a skipped value comes from null / [] / {} *)
  Lemma de_empty f t d j x :
    inS t -> get_det T t = Some d -> De f t j = Some x ->
    match d, x with
    | DOption _, ROptNone => j = JNull
    | DVec _, RSeq [] => j = JArr []
    | DMap _ _, RMap [] => j = JObj []
    | _, _ => True
    end.
  Proof.
    intros Ht Hd H. destruct (set_node T S0 HS t Ht) as (d' & Hd' & Hok & _).
    rewrite Hd in Hd'. injection Hd' as <-.
    destruct f as [|f]; [discriminate|]. rewrite de_S, Hd in H.
    destruct d; try exact I.
    - destruct x; try exact I. cbn [node_ok] in Hok.
      destruct (json_eq_null j) as [->|Hj]; [reflexivity|].
      rewrite (de_node_option_nonnull _ _ _ _ _ _ _ Hj Hok) in H. destruct (De f t0 j); discriminate.
    - destruct x as [| | | | | | |l| | | | |]; try exact I. destruct l; [|exact I].
      cbn [de_node] in H. destruct j; try discriminate. apply option_map_Some in H as (xs & Hxs & E).
      injection E as <-. apply mapM_length in Hxs. destruct l; [reflexivity | discriminate].
    - destruct x as [| | | | | | | |l| | | |]; try exact I. destruct l; [|exact I].
      cbn [de_node] in H. destruct j; try discriminate. apply option_map_Some in H as (xs & Hxs & E).
      injection E as <-. apply mapM_length in Hxs. destruct kvs; [reflexivity | discriminate].
  Qed.

  Lemma unbox_de f t j x d :
    inS t -> unbox_det T t = Some d -> De f t j = Some x ->
    exists t1 f1, inS t1 /\ get_det T t1 = Some d /\ (De f1 t1 j = Some x \/ d = DBox t1).
  Proof.
    intros Ht Hu H. destruct (set_node T S0 HS t Ht) as (d0 & Hd0 & _ & Hch).
    unfold unbox_det in Hu. rewrite Hd0 in Hu.
    destruct d0 as [? ? ? ? ? ?|? ? ? ?|? ? ? ?|? ? ?|?|b|?|? ?|?|? ?|?| | |?|?| | |?];
      try (injection Hu as <-; exists t, f; auto).
    destruct f as [|f]; [discriminate|]. rewrite de_S, Hd0 in H. cbn [de_node] in H.
    assert (Hb : inS b) by (apply Hch; left; reflexivity).
    destruct (set_node T S0 HS b Hb) as (db & Hdb & _). rewrite Hdb in Hu. injection Hu as <-.
    exists b, f. auto.
  Qed.

  Lemma skip_empty f p x j :
    inS (p_ty p) -> skip_if T p x = true -> De f (p_ty p) j = Some x -> is_empty (prune j) = true.
  Proof.
    intros Ht Hs H. destruct (skip_cases T p x Hs) as [_ Hc].
    destruct Hc as [(t0 & Hu & ->)|[(t0 & Hu & ->)|(k & v & Hu & ->)]];
      destruct (unbox_de _ _ _ _ _ Ht Hu H) as (t1 & f1 & A & B & [C|C]); try discriminate C;
      pose proof (de_empty f1 t1 _ j _ A B C) as E; cbn in E; subst j; reflexivity.
  Qed.

  (* ---- lists *)
  Lemma mapM_contains f t l xs ws :
    Q f -> inS t -> mapM (De f t) l = Some xs -> forallb (Decl f t) l = true ->
    mapM (Ser (S f) t) xs = Some ws -> Forall2 (fun a b => contained (prune a) (prune b)) l ws.
  Proof.
    intros HQ Ht. revert xs ws. induction l as [|j l IH]; intros xs ws H Hd Hs; cbn [mapM] in H.
    - injection H as <-. cbn in Hs. injection Hs as <-. constructor.
    - destruct (De f t j) as [x|] eqn:Ex; [|discriminate].
      destruct (mapM (De f t) l) as [xs'|] eqn:Er; [|discriminate]. injection H as <-.
      cbn [forallb] in Hd. apply andb_true_iff in Hd as [Hd1 Hd2]. cbn [mapM] in Hs.
      destruct (Ser (S f) t x) as [w|] eqn:Ew; [|discriminate].
      destruct (mapM (Ser (S f) t) xs') as [ws'|] eqn:Ews; [|discriminate]. injection Hs as <-.
      constructor; [eapply HQ; eauto | eapply IH; eauto].
  Qed.

  Lemma zipM_contains f ts l xs ws :
    Q f -> (forall c, In c ts -> inS c) -> zipM (De f) ts l = Some xs -> zip_all (Decl f) ts l = true ->
    zipM (Ser (S f)) ts xs = Some ws -> Forall2 (fun a b => contained (prune a) (prune b)) l ws.
  Proof.
    intros HQ. revert l xs ws. induction ts as [|t ts IH]; intros l xs ws Hin H Hd Hs; destruct l as [|j l];
      cbn [zipM] in H; try discriminate.
    - injection H as <-. cbn in Hs. injection Hs as <-. constructor.
    - destruct (De f t j) as [x|] eqn:Ex; [|discriminate].
      destruct (zipM (De f) ts l) as [xs'|] eqn:Er; [|discriminate]. injection H as <-.
      cbn [zip_all] in Hd. apply andb_true_iff in Hd as [Hd1 Hd2]. cbn [zipM] in Hs.
      destruct (Ser (S f) t x) as [w|] eqn:Ew; [|discriminate].
      destruct (zipM (Ser (S f)) ts xs') as [ws'|] eqn:Ews; [|discriminate]. injection Hs as <-.
      constructor; [eapply HQ; eauto; apply Hin; left; reflexivity|].
      eapply IH; eauto. intros c Hc. apply Hin. right. exact Hc.
  Qed.

  Lemma map_contains f k v kvs xs ws :
    Q f -> inS v -> mapM (de_entry (De f) k v) kvs = Some xs ->
    forallb (fun kv => Decl f v (snd kv)) kvs = true ->
    mapM (ser_entry (Ser (S f)) v) xs = Some ws ->
    forall key j, assoc key kvs = Some j ->
      exists wj, assoc key ws = Some wj /\ contained (prune j) (prune wj).
  Proof.
    intros HQ Hv. revert xs ws. induction kvs as [|[k0 j0] kvs IH]; intros xs ws H Hd Hs key j Ha;
      [discriminate Ha|].
    cbn [mapM] in H. unfold de_entry at 1 in H. cbn [fst snd] in H.
    destruct (de_key (De f) k k0); [|discriminate].
    destruct (De f v j0) as [x|] eqn:Ex; [|discriminate].
    destruct (mapM (de_entry (De f) k v) kvs) as [xs'|] eqn:Er; [|discriminate]. injection H as <-.
    cbn [forallb snd] in Hd. apply andb_true_iff in Hd as [Hd1 Hd2].
    cbn [mapM] in Hs. unfold ser_entry at 1 in Hs. cbn [fst snd] in Hs.
    destruct (Ser (S f) v x) as [w|] eqn:Ew; [|discriminate]. cbn [option_map] in Hs.
    destruct (mapM (ser_entry (Ser (S f)) v) xs') as [ws'|] eqn:Ews; [|discriminate]. injection Hs as <-.
    cbn [assoc] in Ha |- *. destruct (ustr_eqb key k0).
    - injection Ha as <-. exists w. split; [reflexivity|]. eapply HQ; eauto.
    - eapply IH; eauto.
  Qed.

  (* ---- struct members *)
  Lemma struct_members_contain f ps deny kvs fs m :
    Q f -> props_ok ps = true -> props_in S0 ps ->
    de_struct_body T (De f) (Dflt f) ps deny (JObj kvs) = Some (RStruct fs) ->
    decl_members (Decl f) ps kvs = true ->
    ser_fields T (Ser (S f)) ps fs = Some m ->
    forall k j, In (k, j) kvs -> is_empty (prune j) = false ->
      exists wj, assoc k m = Some wj /\ contained (prune j) (prune wj).
  Proof.
    intros HQ Hok Hin H Hdecl Hs k j Hkj Hne.
    unfold props_ok in Hok. apply andb_true_iff in Hok as [Hok Hw]. apply andb_true_iff in Hok as [Hnf Hn].
    unfold de_struct_body in H. apply option_map_Some in H as (fs' & Hfs & E). injection E as <-.
    unfold de_struct_obj in Hfs.
    destruct (de_named T (De f) (Dflt f) ps kvs) as [named|] eqn:En; [|discriminate].
    rewrite (flat_props_nil _ Hnf) in Hfs. destruct (deny && _); [discriminate|]. injection Hfs as <-.
    unfold decl_members in Hdecl. apply andb_true_iff in Hdecl as [Hnd Hall].
    rewrite forallb_forall in Hall. specialize (Hall (k, j) Hkj). cbn [fst snd] in Hall.
    destruct (find_prop k ps) as [p|] eqn:Ef; [|discriminate].
    destruct (find_prop_spec _ _ _ Ef) as [Hp Hwp].
    pose proof (nodup_keys_assoc k j kvs Hnd Hkj) as Ha.
    destruct (de_named_assoc _ _ _ _ _ _ Hnf Hn En p Hp) as (k' & x & A & B & C).
    rewrite Hwp in A. injection A as <-. rewrite Ha in C.
    destruct (ser_fields_assoc _ _ _ _ _ Hnf Hw Hs p Hp) as (x' & B' & D).
    rewrite B in B'. injection B' as <-.
    destruct D as [D|(k' & wj & D1 & D2 & D3)].
    - rewrite (skip_empty f p x j (Hin p Hp) D C) in Hne. discriminate.
    - rewrite Hwp in D1. injection D1 as <-. exists wj. split; [exact D3|].
      eapply HQ; eauto.
  Qed.

  (* ---- enum payloads *)
  Lemma payload_contains f deny vd j px pw :
    Q f -> vd_ok S0 vd ->
    de_payload T (De f) (Dflt f) deny vd j = Some px ->
    decl_payload (Decl f) vd j = true ->
    ser_payload T (Ser (S f)) vd px = Some pw ->
    contained (prune j) (prune pw).
  Proof.
    intros HQ Hok H Hd Hs. destruct vd as [|t|ts|ps]; cbn [de_payload decl_payload ser_payload] in *.
    - discriminate Hd.
    - eapply HQ; eauto.
    - destruct j; try discriminate. apply option_map_Some in H as (xs & Hxs & ->).
      apply option_map_Some in Hs as (ws & Hws & ->).
      rewrite !prune_arr. apply C_arr. apply Forall2_map. eapply zipM_contains; eauto.
    - destruct Hok as [Hok Hin]. unfold decl_struct in Hd. destruct j; try discriminate.
      pose proof H as H'. unfold de_struct_body in H'. apply option_map_Some in H' as (fs & _ & ->).
      apply option_map_Some in Hs as (m & Hm & ->).
      apply obj_contains. eapply struct_members_contain; eauto.
  Qed.

  Lemma variant_ok n dv tag vs deny bes v :
    node_ok T (DEnum n dv tag vs deny bes) = true ->
    (forall c, In c (children (DEnum n dv tag vs deny bes)) -> inS c) -> In v vs ->
    vd_ok S0 (v_det v).
  Proof.
    intros Hok Hch Hin. pose proof (variant_children S0 _ _ _ _ _ _ v Hch Hin) as Hc.
    cbn [node_ok] in Hok. destruct tag as [|tg|tg ct|]; try discriminate.
    - rewrite forallb_forall in Hok. specialize (Hok v Hin). unfold vd_ok.
      revert Hc Hok. destruct (v_det v); intros Hc Hok; repeat split; auto.
    - rewrite forallb_forall in Hok. specialize (Hok v Hin). unfold vd_ok.
      revert Hc Hok. destruct (v_det v); intros Hc Hok; try discriminate Hok; repeat split; auto.
      apply andb_true_iff in Hok as [A B]. exact A.
    - apply andb_true_iff in Hok as [_ Hok]. rewrite forallb_forall in Hok. specialize (Hok v Hin).
      unfold vd_ok. revert Hc Hok. destruct (v_det v); intros Hc Hok; repeat split; auto.
  Qed.

  Lemma enum_contains f n dv tag vs deny bes j x w :
    Q f -> node_ok T (DEnum n dv tag vs deny bes) = true ->
    (forall c, In c (children (DEnum n dv tag vs deny bes)) -> inS c) ->
    de_enum T (De f) (Dflt f) tag vs deny j = Some x ->
    decl_enum (Decl f) tag vs j = true ->
    ser_enum T (Ser (S f)) tag vs x = Some w ->
    contained (prune j) (prune w).
  Proof.
    intros HQ Hok Hch H Hd Hs.
    pose proof (fun v => variant_ok _ _ _ _ _ _ v Hok Hch) as Hv.
    destruct tag as [|tg|tg ct|]; [| | |discriminate Hd]; cbn [de_enum decl_enum] in H, Hd.
    - (* external *)
      destruct j as [| | | |s| |kvs]; try discriminate.
      + destruct (find_variant s vs 0) as [[i v]|] eqn:Ef; [|discriminate].
        destruct (find_variant_0 _ _ _ _ Ef) as (Hn & Hr & Hi). subst s.
        destruct (v_det v) eqn:Ev; try discriminate. injection H as <-.
        cbn [ser_enum] in Hs. rewrite Hn, Ev in Hs. injection Hs as <-. apply C_refl.
      + destruct kvs as [|[k pj] [|]]; try discriminate.
        destruct (find_variant k vs 0) as [[i v]|] eqn:Ef; [|discriminate].
        destruct (find_variant_0 _ _ _ _ Ef) as (Hn & Hr & Hi). subst k.
        apply option_map_Some in H as (px & Hpx & ->).
        cbn [ser_enum] in Hs. rewrite Hn in Hs.
        assert (Hpw : exists pw, ser_payload T (Ser (S f)) (v_det v) px = Some pw /\ w = JObj [(v_raw v, pw)]).
        { destruct (v_det v) eqn:Ev; [discriminate Hd| | |];
            apply option_map_Some in Hs as (pw & Hpw & ->); eauto. }
        destruct Hpw as (pw & Hpw & ->).
        pose proof (payload_contains f deny _ pj px pw HQ (Hv v Hi) Hpx Hd Hpw) as Hc.
        apply obj_contains. intros k j [E|[]] Hne. injection E as <- <-.
        exists pw. cbn [assoc]. rewrite ustr_eqb_refl. auto.
    - (* internal *)
      destruct j as [| | | | | |kvs]; try discriminate.
      apply andb_true_iff in Hd as [Hnd Hd].
      destruct (assoc tg kvs) as [[| | | |s| |]|] eqn:Ea; try discriminate.
      destruct (find_variant s vs 0) as [[i v]|] eqn:Ef; [|discriminate].
      destruct (find_variant_0 _ _ _ _ Ef) as (Hn & Hr & Hi). subst s.
      pose proof (Hv v Hi) as Hvd.
      destruct (v_det v) eqn:Ev; try discriminate.
      + injection H as <-. cbn [ser_enum] in Hs. rewrite Hn, Ev in Hs. injection Hs as <-.
        apply Nat.eqb_eq in Hd. apply obj_contains. intros k j Hkj Hne.
        pose proof (remove_key_nil tg k j kvs Hd Hkj) as E. apply ustr_eqb_eq in E. subst k.
        rewrite (nodup_keys_assoc _ _ _ Hnd Hkj) in Ea. injection Ea as ->.
        exists (JStr (v_raw v)). cbn [assoc]. rewrite ustr_eqb_refl. split; [reflexivity | apply C_refl].
      + apply option_map_Some in H as (px & Hpx & ->). cbn [ser_enum] in Hs. rewrite Hn, Ev in Hs.
        pose proof Hpx as H'. unfold de_struct_body in H'. apply option_map_Some in H' as (fs & _ & ->).
        cbn [ser_payload] in Hs. destruct (ser_fields T (Ser (S f)) ps fs) as [m|] eqn:Em; [|discriminate].
        cbn [option_map] in Hs. injection Hs as <-. destruct Hvd as [Hpo Hpi].
        apply obj_contains. intros k j Hkj Hne.
        destruct (ustr_eqb tg k) eqn:E.
        * apply ustr_eqb_eq in E. subst k. rewrite (nodup_keys_assoc _ _ _ Hnd Hkj) in Ea. injection Ea as ->.
          exists (JStr (v_raw v)). cbn [assoc]. rewrite ustr_eqb_refl. split; [reflexivity | apply C_refl].
        * destruct (struct_members_contain f ps deny _ fs m HQ Hpo Hpi Hpx Hd Em k j
                      (remove_key_In tg k j kvs Hkj E) Hne) as (wj & A & B).
          exists wj. cbn [assoc]. rewrite ustr_eqb_sym, E. auto.
    - (* adjacent *)
      cbn [node_ok] in Hok. apply andb_true_iff in Hok as [Hne _]. apply negb_true_iff in Hne.
      assert (Hne' : ustr_eqb ct tg = false) by (rewrite ustr_eqb_sym; exact Hne).
      destruct j as [| | | | | |kvs]; try discriminate.
      apply andb_true_iff in Hd as [Hd0 Hd]. apply andb_true_iff in Hd0 as [Hnd Hoth]. apply Nat.eqb_eq in Hoth.
      destruct (assoc tg kvs) as [[| | | |s| |]|] eqn:Ea; try discriminate.
      destruct (find_variant s vs 0) as [[i v]|] eqn:Ef; [|discriminate].
      destruct (find_variant_0 _ _ _ _ Ef) as (Hn & Hr & Hi). subst s.
      destruct (deny && _); [discriminate|].
      pose proof (Hv v Hi) as Hvd.
      assert (Hkeys : forall k j, In (k, j) kvs -> k = tg \/ k = ct).
      { intros k j Hkj. destruct (ustr_eqb tg k) eqn:E; [left; apply ustr_eqb_eq in E; auto|].
        right. pose proof (remove_key_In tg k j kvs Hkj E) as Hin'.
        pose proof (remove_key_nil ct k j _ Hoth Hin') as E'. apply ustr_eqb_eq in E'. auto. }
      destruct (assoc ct kvs) as [pj|] eqn:Ec.
      + apply option_map_Some in H as (px & Hpx & ->). cbn [ser_enum] in Hs. rewrite Hn in Hs.
        assert (Hpw : exists pw, ser_payload T (Ser (S f)) (v_det v) px = Some pw /\
                                 w = JObj [(tg, JStr (v_raw v)); (ct, pw)]).
        { destruct (v_det v) eqn:Ev; [discriminate Hd| | |];
            apply option_map_Some in Hs as (pw & Hpw & ->); eauto. }
        destruct Hpw as (pw & Hpw & ->).
        pose proof (payload_contains f deny _ pj px pw HQ Hvd Hpx Hd Hpw) as Hc.
        apply obj_contains. intros k j Hkj Hnej.
        pose proof (nodup_keys_assoc _ _ _ Hnd Hkj) as Hak.
        destruct (Hkeys k j Hkj) as [->| ->].
        * rewrite Hak in Ea. injection Ea as ->. exists (JStr (v_raw v)). cbn [assoc].
          rewrite ustr_eqb_refl. split; [reflexivity | apply C_refl].
        * rewrite Hak in Ec. injection Ec as ->. exists pw. cbn [assoc].
          rewrite Hne', ustr_eqb_refl. auto.
      + destruct (v_det v) eqn:Ev; try discriminate. injection H as <-.
        cbn [ser_enum] in Hs. rewrite Hn, Ev in Hs. injection Hs as <-.
        apply obj_contains. intros k j Hkj Hnej.
        pose proof (nodup_keys_assoc _ _ _ Hnd Hkj) as Hak.
        destruct (Hkeys k j Hkj) as [->| ->]; [|congruence].
        rewrite Hak in Ea. injection Ea as ->. exists (JStr (v_raw v)). cbn [assoc].
        rewrite ustr_eqb_refl. split; [reflexivity | apply C_refl].
  Qed.

  (* ---- the containment theorem *)
  Theorem contains_core : forall f, Q f.
  Proof.
    induction f as [|f IH]; intros t v x w Ht H Hdecl Hs; [discriminate|].
    destruct (set_node T S0 HS t Ht) as (d & Hd & Hok & Hch).
    rewrite de_S, Hd in H. rewrite ser_S, Hd in Hs. cbn [decl_only] in Hdecl. rewrite Hd in Hdecl.
    destruct d.
    - (* Enum *) cbn [de_node] in H. cbn [ser_node] in Hs. eapply enum_contains; eauto.
    - (* Struct *)
      cbn [de_node] in H. cbn [node_ok] in Hok. unfold decl_struct in Hdecl. destruct v; try discriminate.
      assert (Hin : props_in S0 props) by (intros p Hp; apply Hch; cbn [children]; apply in_map; exact Hp).
      pose proof H as H'. unfold de_struct_body in H'. apply option_map_Some in H' as (fs & _ & ->).
      cbn [ser_node] in Hs. apply option_map_Some in Hs as (m & Hm & ->).
      apply obj_contains. eapply struct_members_contain; eauto.
    - (* Newtype *)
      assert (Hi : inS inner) by (apply Hch; left; reflexivity).
      cbn [de_node] in H. destruct c as [|vs|vs|mx mn pat]; cbn [ser_node] in Hs.
      + eapply IH; eauto.
      + destruct (De f inner v) as [x'|] eqn:Ex; [|discriminate].
        destruct (existsb (json_equiv v) vs); [|discriminate]. injection H as <-.
        destruct (scalar_exact _ _ _ _ _ _ _ Hok Ex (S f)) as [A _]; [lia|].
        rewrite A in Hs. injection Hs as <-. apply C_refl.
      + destruct (De f inner v) as [x'|] eqn:Ex; [|discriminate].
        destruct (existsb (json_equiv v) vs); [discriminate|]. injection H as <-.
        destruct (scalar_exact _ _ _ _ _ _ _ Hok Ex (S f)) as [A _]; [lia|].
        rewrite A in Hs. injection Hs as <-. apply C_refl.
      + destruct v; try discriminate. destruct (str_constraints_ok re_match mx mn pat s); [|discriminate].
        injection H as <-. injection Hs as <-. apply C_refl.
    - (* Native *)
      cbn [de_node] in H. destruct v; try discriminate. destruct (native_ok type_name s); [|discriminate].
      injection H as <-. cbn [ser_node] in Hs. injection Hs as <-. apply C_refl.
    - (* Option *)
      cbn [node_ok] in Hok. assert (Hi : inS t0) by (apply Hch; left; reflexivity).
      rewrite ser_node_option in Hs by exact Hok.
      destruct (json_eq_null v) as [->|Hv].
      + cbn [de_node] in H. injection H as <-. injection Hs as <-. apply C_refl.
      + rewrite (de_node_option_nonnull _ _ _ _ _ _ _ Hv Hok) in H.
        apply option_map_Some in H as (y & Hy & ->).
        assert (Hdecl' : Decl f t0 v = true) by (destruct v; try congruence; exact Hdecl).
        eapply IH; eauto.
    - (* Box *)
      cbn [de_node] in H. cbn [ser_node] in Hs.
      exact (IH t0 v x w (Hch t0 (or_introl eq_refl)) H Hdecl Hs).
    - (* Vec *)
      assert (Hi : inS t0) by (apply Hch; left; reflexivity).
      cbn [de_node] in H. destruct v; try discriminate. apply option_map_Some in H as (xs & Hxs & ->).
      cbn [ser_node] in Hs. apply option_map_Some in Hs as (ws & Hws & ->).
      rewrite !prune_arr. apply C_arr. apply Forall2_map. eapply mapM_contains; eauto.
    - (* Map *)
      cbn [node_ok] in Hok. assert (Hi : inS v0) by (apply Hch; right; left; reflexivity).
      cbn [de_node] in H. destruct v; try discriminate. apply option_map_Some in H as (xs & Hxs & ->).
      cbn [ser_node] in Hs. apply option_map_Some in Hs as (ws & Hws & ->).
      apply andb_true_iff in Hdecl as [Hnd Hall].
      change (mapM (de_entry (De f) k v0) kvs = Some xs) in Hxs.
      change (mapM (ser_entry (Ser (S f)) v0) xs = Some ws) in Hws.
      apply obj_contains. intros key j Hkj _.
      exact (map_contains f k v0 kvs xs ws IH Hi Hxs Hall Hws key j (nodup_keys_assoc _ _ _ Hnd Hkj)).
    - (* Set *)
      assert (Hi : inS t0) by (apply Hch; left; reflexivity).
      cbn [de_node] in H. destruct v; try discriminate. apply option_map_Some in H as (xs & Hxs & ->).
      cbn [ser_node] in Hs. apply option_map_Some in Hs as (ws & Hws & ->).
      rewrite !prune_arr. apply C_arr. apply Forall2_map. eapply mapM_contains; eauto.
    - (* Array *)
      assert (Hi : inS t0) by (apply Hch; left; reflexivity).
      cbn [de_node] in H. destruct v; try discriminate.
      destruct (N.eqb (N.of_nat (length l)) n); [|discriminate].
      apply option_map_Some in H as (xs & Hxs & ->).
      cbn [ser_node] in Hs. apply option_map_Some in Hs as (ws & Hws & ->).
      rewrite !prune_arr. apply C_arr. apply Forall2_map. eapply mapM_contains; eauto.
    - (* Tuple *)
      cbn [de_node] in H. destruct v; try discriminate. apply option_map_Some in H as (xs & Hxs & ->).
      cbn [ser_node] in Hs. apply option_map_Some in Hs as (ws & Hws & ->).
      rewrite !prune_arr. apply C_arr. apply Forall2_map. eapply zipM_contains; eauto.
    - (* Unit *)
      cbn [de_node] in H. destruct v; try discriminate. injection H as <-. injection Hs as <-. apply C_refl.
    - (* Boolean *)
      cbn [de_node] in H. destruct v; try discriminate. injection H as <-. injection Hs as <-. apply C_refl.
    - (* Integer *)
      cbn [de_node] in H. destruct v; try discriminate. destruct (in_int_range name z); [|discriminate].
      injection H as <-. injection Hs as <-. apply C_refl.
    - (* Float *)
      cbn [de_node] in H. destruct v; try discriminate; injection H as <-; injection Hs as <-.
      + apply C_scalar; [reflexivity|]. cbn. apply Qeq_bool_iff. reflexivity.
      + apply C_refl.
    - (* String *)
      cbn [de_node] in H. destruct v; try discriminate. injection H as <-. injection Hs as <-. apply C_refl.
    - (* JsonValue *)
      cbn [de_node] in H. injection H as <-. injection Hs as <-. apply C_refl.
    - (* Reference *) discriminate.
  Qed.
End Contains.

Theorem rt_contains re nat T t :
  rt_simple T t = true ->
  forall f v x, de re nat T f t v = Some x -> decl_only T f t v = true ->
  forall g w, f < g -> ser T g t x = Some w -> contained (prune v) (prune w).
Proof.
  intros H f v x Hd Hdecl g w Hg Hs. destruct (rt_simple_set T t H) as (S0 & HS & Ht).
  destruct (rt_core re nat T S0 HS f t v x Ht Hd) as (w0 & Hw & _).
  destruct (Hw g Hg) as [A _]. rewrite A in Hs. injection Hs as <-.
  destruct (Hw (S f) (Nat.lt_succ_diag_r f)) as [B _].
  exact (contains_core re nat T S0 HS f t v x w0 Ht Hd Hdecl B).
Qed.
