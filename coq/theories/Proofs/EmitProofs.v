(* Proofs/EmitProofs.v - lemmas about Algo/Emit.v (property C19).

   Pattern: the named entries fall into the finite set [all_kinds]; every fact
   about the REGENERATED tables (Gen/DeriveTable.v) is a [forallb .. = true]
   over that finite set / over the regenerated lists, closed by vm_compute, and
   lifted to all spaces and entries by structural lemmas about the BTreeSet
   operations.  A change of the tables that falsifies a fact makes the
   corresponding [vm_compute. reflexivity.] fail. *)
From Coq Require Import String Ascii NArith List Bool Lia Sorting.Sorted.
From Typify Require Import Base.Json IR.TypeIR Gen.DeriveTable Algo.Emit.
Import ListNotations.

(* ------------------------------------------------------------------ ustrings *)
Lemma ustr_eqb_refl : forall a, ustr_eqb a a = true.
Proof.
  induction a as [|x a IH]; cbn [ustr_eqb]; [reflexivity|].
  rewrite N.eqb_refl, IH. reflexivity.
Qed.

Lemma ustr_eqb_eq : forall a b, ustr_eqb a b = true <-> a = b.
Proof.
  induction a as [|x a IH]; destruct b as [|y b]; cbn [ustr_eqb]; split; intro H;
    try reflexivity; try discriminate.
  - apply andb_true_iff in H. destruct H as [H1 H2].
    apply N.eqb_eq in H1. apply IH in H2. subst. reflexivity.
  - inversion H; subst. rewrite N.eqb_refl. cbn. apply ustr_eqb_refl.
Qed.

Lemma mem_ustr_In : forall x l, mem_ustr x l = true <-> In x l.
Proof.
  intros x l. unfold mem_ustr. rewrite existsb_exists. split.
  - intros (y & Hy & E). apply ustr_eqb_eq in E. subst. exact Hy.
  - intro H. exists x. split; [exact H | apply ustr_eqb_refl].
Qed.

Lemma subset_In : forall a b, subset a b = true <-> (forall x, In x a -> In x b).
Proof.
  intros a b. unfold subset. rewrite forallb_forall. split; intros H x Hx.
  - apply mem_ustr_In. apply H. exact Hx.
  - apply mem_ustr_In. apply H. exact Hx.
Qed.

(* ------------------------------------------------------------------ set operations *)
Lemma In_set_insert : forall y x l, In y (set_insert x l) <-> y = x \/ In y l.
Proof.
  intros y x l. induction l as [|a l IH]; cbn [set_insert].
  - cbn. intuition.
  - destruct (ustr_eqb x a) eqn:E.
    + apply ustr_eqb_eq in E. subst. cbn. intuition.
    + destruct (ustr_ltb x a); cbn [In]; [|rewrite IH]; intuition.
Qed.

Lemma In_set_extend : forall xs s y, In y (set_extend s xs) <-> In y s \/ In y xs.
Proof.
  unfold set_extend. induction xs as [|a xs IH]; intros s y; cbn [fold_left].
  - cbn. intuition.
  - rewrite IH, In_set_insert. cbn [In]. intuition.
Qed.

Lemma In_set_remove : forall x s y, In y (set_remove x s) <-> In y s /\ y <> x.
Proof.
  intros x s y. unfold set_remove. rewrite filter_In, negb_true_iff. split; intros [H1 H2]; split; auto.
  - intros ->. rewrite ustr_eqb_refl in H2. discriminate.
  - destruct (ustr_eqb x y) eqn:E; [|reflexivity]. apply ustr_eqb_eq in E. congruence.
Qed.

Lemma In_set_remove_all : forall xs s y, In y (set_remove_all xs s) <-> In y s /\ ~ In y xs.
Proof.
  unfold set_remove_all. induction xs as [|a xs IH]; intros s y; cbn [fold_left].
  - cbn. intuition.
  - rewrite IH, In_set_remove. cbn [In]. intuition.
Qed.

Lemma In_strings_to_derives : forall ds td ed y,
  In y (strings_to_derives ds td ed) <-> In y ds \/ In y ed \/ In y td.
Proof.
  intros. unfold strings_to_derives. rewrite !In_set_extend. intuition.
Qed.

(* ------------------------------------------------------------------ kinds *)
Definition named (e : entry) : Prop := exists n, det_name (e_det e) = Some n.

Lemma all_kinds_complete : forall k, In k all_kinds.
Proof. intros [[|]| |[|] [| | |]]; vm_compute; tauto. Qed.

Lemma kind_named : forall T e, named e -> exists k, kind_of T (e_det e) = Some k.
Proof.
  intros T [d ds] [n Hn]. destruct d; cbn in Hn; try discriminate; cbn [e_det kind_of]; eauto.
Qed.

Lemma kind_named_inv : forall T e k, kind_of T (e_det e) = Some k -> named e.
Proof.
  intros T [d ds] k H. destruct d; cbn in H; try discriminate; unfold named; cbn; eauto.
Qed.

Lemma derives_of_kind : forall T e k, kind_of T (e_det e) = Some k ->
  derives_of T e = strings_to_derives (builtin_for k) (e_derives e) (s_derives (sp_settings T)).
Proof. intros T e k H. unfold derives_of. rewrite H. reflexivity. Qed.

Lemma builtin_in_derives : forall T e x, In x (builtin_derives T e) -> In x (derives_of T e).
Proof.
  intros T e x. unfold builtin_derives, derives_of. destruct (kind_of T (e_det e)); [|tauto].
  intro H. apply In_strings_to_derives. auto.
Qed.

Lemma validating_kind : forall T d k, kind_of T d = Some k ->
  emits_validating_deserialize d = validating_for k.
Proof. intros T d k H. destruct d; cbn in H; try discriminate; inversion H; subst; reflexivity. Qed.

Lemma from_ref_kind : forall T d k, kind_of T d = Some k -> emits_from_ref_self d = from_ref_for k.
Proof. intros T d k H. destruct d; cbn in H; try discriminate; inversion H; subst; reflexivity. Qed.

Lemma lift_kinds : forall (P : kind -> bool), forallb P all_kinds = true -> forall k, P k = true.
Proof. intros P H k. rewrite forallb_forall in H. apply H. apply all_kinds_complete. Qed.

(* ------------------------------------------------------------------ facts about the regenerated tables *)
Definition req_base : list string := ["Debug"; "Clone"; "::serde::Serialize"].
Definition deser : ustring := u "::serde::Deserialize".
Definition req_simple_enum : list string := ["Copy"; "PartialOrd"; "Ord"; "PartialEq"; "Eq"; "Hash"].
Definition req_string_newtype : list string := ["PartialOrd"; "Ord"; "PartialEq"; "Eq"; "Hash"].

(* The condition / initialiser TEXTS the model was written against (simple_enum_cond,
   is_str_def, newtype_inner_def, struct_derive_ops, assembly_ops) are pinned by the check
   as separate obligations (py/props/c19.py: shape_pins), not here: a changed text must
   not take the theorems over the regenerated literals down with it. *)
Lemma items_pub : enum_item_pub = true /\ struct_item_pub = true /\ newtype_item_pub = true.
Proof. repeat split; vm_compute; reflexivity. Qed.

Lemma kinds_surface :
  forallb (fun k => subset (map u req_base) (builtin_for k)
                    && (mem_ustr deser (builtin_for k) || validating_for k)
                    && from_ref_for k) all_kinds = true.
Proof. vm_compute. reflexivity. Qed.

Lemma kinds_deserialize_once :
  forallb (fun k => negb (mem_ustr deser (builtin_for k) && validating_for k)) all_kinds = true.
Proof. vm_compute. reflexivity. Qed.

Lemma simple_enum_has : subset (map u req_simple_enum) (builtin_for (KindEnum true)) = true.
Proof. vm_compute. reflexivity. Qed.

Lemma string_newtype_has :
  forallb (fun c => subset (map u req_string_newtype) (builtin_for (KindNewtype true c)))
          [KNone; KEnumValue; KDenyValue; KString] = true.
Proof. vm_compute. reflexivity. Qed.

(* the base list itself (what the task calls the regenerated base list) *)
Lemma base_always_derivable : forallb always_derivable (map u base_derives) = true.
Proof. vm_compute. reflexivity. Qed.

(* what a built-in derive needs from the contents, per kind: nothing when the
   trait is always derivable; otherwise the item must have no contents (simple
   enum) or a String content that has the trait (string newtype) *)
Definition content_ok_for (k : kind) (x : ustring) : bool :=
  match k, strait_of x with
  | KindEnum true, Some _ => true
  | KindNewtype true _, Some s => heap_has s
  | _, _ => false
  end.

Lemma kinds_builtin_derivable :
  forallb (fun k => forallb (fun x => subset (supertraits x) (builtin_for k)
                                      && (always_derivable x || content_ok_for k x))
                            (builtin_for k)) all_kinds = true.
Proof. vm_compute. reflexivity. Qed.

Lemma field_pub_table :
  struct_field_pub = true /\
  lookup_b (ckind_name KNone) newtype_field_pub = true /\
  lookup_b (ckind_name KEnumValue) newtype_field_pub = false /\
  lookup_b (ckind_name KDenyValue) newtype_field_pub = false /\
  lookup_b (ckind_name KString) newtype_field_pub = false.
Proof. repeat split; vm_compute; reflexivity. Qed.

(* expected_impls agrees with the regenerated surface tables: the From<&..> header is listed for every
   kind the template emits it for, and the Deserialize header exactly for the validating kinds *)
Lemma kinds_expected_impls :
  forallb (fun k => Bool.eqb (has_header "::serde::Deserialize<'de>" k) (validating_for k)
                    && Bool.eqb (has_header "::std::convert::From<&Self>" k || has_header "::std::convert::From<&$T>" k)
                                (from_ref_for k)) all_kinds = true.
Proof. vm_compute. reflexivity. Qed.

Theorem expected_impls_cover_surface : forall T e k, kind_of T (e_det e) = Some k ->
  (has_header "::serde::Deserialize<'de>" k = emits_validating_deserialize (e_det e)) /\
  ((has_header "::std::convert::From<&Self>" k || has_header "::std::convert::From<&$T>" k)
   = emits_from_ref_self (e_det e)).
Proof.
  intros T e k Hk. pose proof (lift_kinds _ kinds_expected_impls k) as H. cbn beta in H.
  apply andb_true_iff in H. destruct H as [H1 H2].
  apply eqb_prop in H1. apply eqb_prop in H2.
  rewrite (validating_kind T _ k Hk), (from_ref_kind T _ k Hk). split; assumption.
Qed.

(* ------------------------------------------------------------------ surface theorems *)
Theorem surface_base : forall T e, named e ->
  item_vis (e_det e) = Some Pub /\
  (forall x, In x req_base -> In (u x) (derives_of T e)) /\
  (In deser (derives_of T e) \/ emits_validating_deserialize (e_det e) = true) /\
  emits_from_ref_self (e_det e) = true.
Proof.
  intros T e Hn. destruct (kind_named T e Hn) as [k Hk].
  pose proof (lift_kinds _ kinds_surface k) as Hs. cbn beta in Hs.
  apply andb_true_iff in Hs. destruct Hs as [Hs Hfr].
  apply andb_true_iff in Hs. destruct Hs as [Hsub Hde].
  destruct items_pub as (Pe & Ps & Pn).
  split; [|split; [|split]].
  - destruct e as [d ds]. destruct d; cbn in Hk; try discriminate; cbn [e_det item_vis];
      rewrite ?Pe, ?Ps, ?Pn; reflexivity.
  - intros x Hx. apply builtin_in_derives. unfold builtin_derives. rewrite Hk.
    rewrite subset_In in Hsub. apply Hsub. apply in_map. exact Hx.
  - apply orb_true_iff in Hde. destruct Hde as [Hd|Hv].
    + left. apply builtin_in_derives. unfold builtin_derives. rewrite Hk. apply mem_ustr_In. exact Hd.
    + right. rewrite (validating_kind T _ k Hk). exact Hv.
  - rewrite (from_ref_kind T _ k Hk). exact Hfr.
Qed.

Lemma all_simple_spec : forall vs, all_simple vs = true <-> (forall v, In v vs -> v_det v = VSimple).
Proof.
  intro vs. unfold all_simple. rewrite forallb_forall. split; intros H v Hv; specialize (H v Hv).
  - destruct (v_det v); try discriminate; reflexivity.
  - rewrite H. reflexivity.
Qed.

Theorem simple_enum_surface : forall T n df tag vs deny bes ds,
  (forall v, In v vs -> v_det v = VSimple) ->
  forall x, In x req_simple_enum ->
  In (u x) (derives_of T (mkEntry (DEnum n df tag vs deny bes) ds)).
Proof.
  intros T n df tag vs deny bes ds Hs x Hx. apply builtin_in_derives.
  unfold builtin_derives. cbn [e_det kind_of]. apply all_simple_spec in Hs. rewrite Hs.
  pose proof simple_enum_has as H. rewrite subset_In in H. apply H. apply in_map. exact Hx.
Qed.

Theorem string_newtype_surface : forall T n df inner c ds,
  get_det T inner = Some DString ->
  forall x, In x req_string_newtype ->
  In (u x) (derives_of T (mkEntry (DNewtype n df inner c) ds)).
Proof.
  intros T n df inner c ds Hi x Hx. apply builtin_in_derives.
  unfold builtin_derives. cbn [e_det kind_of]. unfold is_str. rewrite Hi.
  pose proof string_newtype_has as H. rewrite forallb_forall in H.
  assert (Hc : In (ckind_of c) [KNone; KEnumValue; KDenyValue; KString])
    by (destruct c; cbn; tauto).
  specialize (H _ Hc). rewrite subset_In in H. apply H. apply in_map. exact Hx.
Qed.

Theorem extra_derives_everywhere : forall T e, named e ->
  forall x, In x (s_derives (sp_settings T)) -> In x (derives_of T e).
Proof.
  intros T e Hn x Hx. destruct (kind_named T e Hn) as [k Hk].
  rewrite (derives_of_kind T e k Hk). apply In_strings_to_derives. auto.
Qed.

Theorem type_derives_everywhere : forall T e, named e ->
  forall x, In x (e_derives e) -> In x (derives_of T e).
Proof.
  intros T e Hn x Hx. destruct (kind_named T e Hn) as [k Hk].
  rewrite (derives_of_kind T e k Hk). apply In_strings_to_derives. auto.
Qed.

(* nothing else: a derive of the item comes from the built-in set, the settings or the entry *)
Theorem derives_of_exact : forall T e x,
  In x (derives_of T e) <->
  In x (builtin_derives T e) \/
  (named e /\ (In x (s_derives (sp_settings T)) \/ In x (e_derives e))).
Proof.
  intros T e x. unfold derives_of, builtin_derives. destruct (kind_of T (e_det e)) as [k|] eqn:Hk.
  - rewrite In_strings_to_derives. pose proof (kind_named_inv T e k Hk). tauto.
  - split; [intros []|]. intros [[]|[[n Hn] _]].
    destruct e as [d ds]; destruct d; cbn in Hk, Hn; discriminate.
Qed.

Theorem deserialize_not_twice : forall T e,
  ~ (In deser (builtin_derives T e) /\ emits_validating_deserialize (e_det e) = true).
Proof.
  intros T e [H1 H2]. unfold builtin_derives in H1. destruct (kind_of T (e_det e)) as [k|] eqn:Hk; [|destruct H1].
  pose proof (lift_kinds _ kinds_deserialize_once k) as H. cbn beta in H.
  rewrite (validating_kind T _ k Hk) in H2. apply mem_ustr_In in H1. rewrite H1, H2 in H. discriminate.
Qed.

Theorem field_visibility :
  (forall n df ps deny v, In v (field_vis (DStruct n df ps deny)) -> v = Pub) /\
  (forall n df inner c, field_vis (DNewtype n df inner c) =
                        [match c with CNone => Pub | _ => Private end]).
Proof.
  destruct field_pub_table as (Hs & H0 & H1 & H2 & H3). split.
  - intros n df ps deny v Hv. cbn [field_vis] in Hv. apply in_map_iff in Hv.
    destruct Hv as (p & <- & _). rewrite Hs. reflexivity.
  - intros n df inner c. cbn [field_vis]. destruct c; cbn [ckind_of]; rewrite ?H0, ?H1, ?H2, ?H3; reflexivity.
Qed.

Theorem derives_ignore_tagging : forall T n df tag deny bes n' df' tag' deny' bes' vs ds,
  derives_of T (mkEntry (DEnum n df tag vs deny bes) ds) =
  derives_of T (mkEntry (DEnum n' df' tag' vs deny' bes') ds).
Proof. reflexivity. Qed.

Theorem empty_enum_is_simple : forall T n df tag deny bes ds x, In x req_simple_enum ->
  In (u x) (derives_of T (mkEntry (DEnum n df tag [] deny bes) ds)).
Proof. intros. apply simple_enum_surface; [intros v []|assumption]. Qed.

Theorem unnamed_emit_nothing : forall T e, det_name (e_det e) = None ->
  derives_of T e = [] /\ item_vis (e_det e) = None /\ field_vis (e_det e) = [] /\
  emits_from_ref_self (e_det e) = false /\ emits_validating_deserialize (e_det e) = false.
Proof.
  intros T [d ds] H. destruct d; cbn in H; try discriminate; repeat split; reflexivity.
Qed.

(* the comparison / hash / Copy derives of a NEWTYPE come from the String test alone: whatever else the
   inner entry is - in particular a Native, which is how replacement and conversion types of the settings
   are represented, with whatever impls the settings list - none of them is built in *)
Definition cmp_traits : list string := ["Copy"; "PartialOrd"; "Ord"; "PartialEq"; "Eq"; "Hash"].

Lemma non_string_newtype_no_cmp :
  forallb (fun c => forallb (fun x => negb (mem_ustr (u x) (builtin_for (KindNewtype false c)))) cmp_traits)
          [KNone; KEnumValue; KDenyValue; KString] = true.
Proof. vm_compute. reflexivity. Qed.

Theorem comparison_derives_only_over_string : forall T n df inner c ds x,
  get_det T inner <> Some DString -> In x cmp_traits ->
  ~ In (u x) (builtin_derives T (mkEntry (DNewtype n df inner c) ds)).
Proof.
  intros T n df inner c ds x Hns Hx Hin. unfold builtin_derives in Hin. cbn [e_det kind_of] in Hin.
  assert (Hs : is_str T inner = false).
  { unfold is_str. destruct (get_det T inner) as [d|]; [|reflexivity].
    destruct d; try reflexivity. exfalso. apply Hns. reflexivity. }
  rewrite Hs in Hin. pose proof non_string_newtype_no_cmp as H. rewrite forallb_forall in H.
  assert (Hc : In (ckind_of c) [KNone; KEnumValue; KDenyValue; KString]) by (destruct c; cbn; tauto).
  specialize (H _ Hc). rewrite forallb_forall in H. specialize (H x Hx).
  apply mem_ustr_In in Hin. rewrite Hin in H. discriminate.
Qed.

Theorem no_comparison_derives_over_settings_native : forall T n df inner c ds name impls params x,
  get_det T inner = Some (DNative name impls params) -> In x cmp_traits ->
  ~ In (u x) (builtin_derives T (mkEntry (DNewtype n df inner c) ds)).
Proof.
  intros T n df inner c ds name impls params x Hn. apply comparison_derives_only_over_string.
  rewrite Hn. discriminate.
Qed.

(* ------------------------------------------------------------------ derivability *)
Lemma all_simple_no_contents : forall vs, all_simple vs = true ->
  flat_map (fun v => match v_det v with
                     | VSimple => []
                     | VItem t => [t]
                     | VTuple ts => ts
                     | VStruct ps => map p_ty ps
                     end) vs = [].
Proof.
  induction vs as [|v vs IH]; intro H; [reflexivity|].
  unfold all_simple in H. cbn [forallb] in H. apply andb_true_iff in H. destruct H as [H1 H2].
  cbn [flat_map]. destruct (v_det v); try discriminate. cbn. apply IH. exact H2.
Qed.

Lemma is_str_has_trait : forall T inner s f, is_str T inner = true ->
  has_trait s T (S f) inner = heap_has s.
Proof.
  intros T inner s f H. unfold is_str, get_det in H. cbn [has_trait].
  destruct (get T inner) as [e|]; cbn in H; [|discriminate].
  destruct (e_det e); try discriminate. reflexivity.
Qed.

Lemma content_ok_sound : forall T d k x f, kind_of T d = Some k -> content_ok_for k x = true ->
  exists s, strait_of x = Some s /\ forallb (has_trait s T (S f)) (contents d) = true.
Proof.
  intros T d k x f Hk Hc. unfold content_ok_for in Hc.
  destruct d; cbn in Hk; try discriminate; inversion Hk; subst k; clear Hk.
  - destruct (all_simple vs) eqn:Ha; [|discriminate].
    destruct (strait_of x) as [s|]; [|discriminate]. exists s. split; [reflexivity|].
    cbn [contents]. rewrite (all_simple_no_contents vs Ha). reflexivity.
  - discriminate.
  - destruct (is_str T inner) eqn:Hi; [|discriminate].
    destruct (strait_of x) as [s|]; [|discriminate]. exists s. split; [reflexivity|].
    cbn [contents forallb]. rewrite (is_str_has_trait T inner s f Hi), Hc. reflexivity.
Qed.

(* Known finding C19-F1 / C19-F2: an item that holds, by value or through Option / Box / Vec / map /
   array / tuple, an array longer than 32 or a tuple longer than 12 (16 for serde) - the base derives
   cannot be satisfied there (serde / std stop implementing the traits at those sizes). *)
Definition Known_unsupported_aggregate (T : space) (e : entry) : Prop :=
  exists serde fuel i, In i (contents (e_det e)) /\ gap_inside serde T fuel i = true.

Theorem builtin_derivable_entry : forall T e x fuel,
  ~ Known_unsupported_aggregate T e ->
  In x (builtin_derives T e) -> derivable_entry x T (S fuel) e = true.
Proof.
  intros T e x fuel Hknown Hx. unfold derivable_entry. pose proof Hx as Hx0.
  unfold builtin_derives in Hx. destruct (kind_of T (e_det e)) as [k|] eqn:Hk; [|destruct Hx].
  pose proof (lift_kinds _ kinds_builtin_derivable k) as H. cbn beta in H.
  rewrite forallb_forall in H. specialize (H x Hx).
  apply andb_true_iff in H. destruct H as [Hsup Hc].
  apply andb_true_iff. split.
  - apply subset_In. intros y Hy. rewrite subset_In in Hsup.
    apply builtin_in_derives. unfold builtin_derives. rewrite Hk. apply Hsup. exact Hy.
  - destruct (always_derivable x).
    + apply forallb_forall. intros i Hi.
      destruct (gap_inside (is_serde_trait x) T (S fuel) i) eqn:G; [|reflexivity].
      exfalso. apply Hknown. exists (is_serde_trait x), (S fuel), i. split; assumption.
    + cbn [orb] in Hc.
      destruct (content_ok_sound T (e_det e) k x fuel Hk Hc) as (s & Hs & Hf).
      rewrite Hs. exact Hf.
Qed.

(* the comparison / hash / Copy extensions need no exclusion: they only land on items whose
   contents are empty or a String *)
Theorem extension_derivable_entry : forall T e x fuel,
  In x (builtin_derives T e) -> always_derivable x = false -> derivable_entry x T (S fuel) e = true.
Proof.
  intros T e x fuel Hx Ha. unfold derivable_entry.
  unfold builtin_derives in Hx. destruct (kind_of T (e_det e)) as [k|] eqn:Hk; [|destruct Hx].
  pose proof (lift_kinds _ kinds_builtin_derivable k) as H. cbn beta in H.
  rewrite forallb_forall in H. specialize (H x Hx).
  apply andb_true_iff in H. destruct H as [Hsup Hc].
  apply andb_true_iff. split.
  - apply subset_In. intros y Hy. rewrite subset_In in Hsup.
    apply builtin_in_derives. unfold builtin_derives. rewrite Hk. apply Hsup. exact Hy.
  - rewrite Ha in *. cbn [orb] in Hc.
    destruct (content_ok_sound T (e_det e) k x fuel Hk Hc) as (s & Hs & Hf).
    rewrite Hs. exact Hf.
Qed.

Theorem builtin_derives_derivable : forall T i e x fuel,
  ~ Known_unsupported_aggregate T e ->
  get T i = Some e -> In x (builtin_derives T e) -> derivable x T (S fuel) i = true.
Proof.
  intros T i e x fuel Hk Hg Hx. unfold derivable. rewrite Hg. apply builtin_derivable_entry; assumption.
Qed.

(* witnesses: the exclusion is not vacuous and not wider than the defect *)
Definition known_settings : settings := mkSettings None [] false (u "HashMap").
Definition long_array_space : space :=
  mkSpace [ (1%N, mkEntry (DNewtype (u "A") None 2%N CNone) [])
          ; (2%N, mkEntry (DArray 3%N 33%N) []); (3%N, mkEntry (DInteger (u "i64")) []) ]
          4%N known_settings false false false false [].
Definition long_tuple_space : space :=
  mkSpace [ (1%N, mkEntry (DNewtype (u "T") None 2%N CNone) [])
          ; (2%N, mkEntry (DTuple (repeat 3%N 13)) []); (3%N, mkEntry (DInteger (u "i64")) []) ]
          4%N known_settings false false false false [].

Lemma known_long_array_fails :
  exists T i e x, get T i = Some e /\ Known_unsupported_aggregate T e /\
                  In x (builtin_derives T e) /\ forall fuel, derivable x T (S (S fuel)) i = false.
Proof.
  exists long_array_space, 1%N, (mkEntry (DNewtype (u "A") None 2%N CNone) []), (u "::serde::Serialize").
  split; [reflexivity|]. split; [exists true, 2%nat, 2%N; split; [left; reflexivity | vm_compute; reflexivity]|].
  split; [vm_compute; tauto|]. intro fuel. reflexivity.
Qed.

Lemma known_long_tuple_fails :
  exists T i e x, get T i = Some e /\ Known_unsupported_aggregate T e /\
                  In x (builtin_derives T e) /\ forall fuel, derivable x T (S (S fuel)) i = false.
Proof.
  exists long_tuple_space, 1%N, (mkEntry (DNewtype (u "T") None 2%N CNone) []), (u "Debug").
  split; [reflexivity|]. split; [exists false, 2%nat, 2%N; split; [left; reflexivity | vm_compute; reflexivity]|].
  split; [vm_compute; tauto|]. intro fuel. reflexivity.
Qed.

(* with no user-supplied derives the whole derive list is the built-in one *)
Lemma set_extend_nil : forall s, set_extend s [] = s.
Proof. reflexivity. Qed.

Theorem derives_no_extras : forall T e, e_derives e = [] -> s_derives (sp_settings T) = [] ->
  derives_of T e = builtin_derives T e.
Proof.
  intros T e H1 H2. unfold derives_of, builtin_derives, strings_to_derives.
  destruct (kind_of T (e_det e)); [|reflexivity]. rewrite H1, H2. reflexivity.
Qed.

(* floats *)
Lemma has_trait_no_float : forall T fuel s, float_has s = false ->
  forall i, has_trait s T fuel i = true -> float_inside T fuel i = false.
Proof.
  intros T. induction fuel as [|f IH]; intros s Hs i H; [reflexivity|].
  cbn [has_trait] in H. cbn [float_inside]. unfold get_det.
  destruct (get T i) as [e|]; [|reflexivity]. cbn [option_map].
  destruct (e_det e) eqn:Hd; try reflexivity.
  - apply (IH s Hs). exact H.
  - apply andb_true_iff in H. apply (IH s Hs). apply H.
  - apply andb_true_iff in H. apply (IH s Hs). apply H.
  - apply andb_true_iff in H. destruct H as [H Hv].
    apply andb_true_iff in H. destruct H as [H _].
    apply andb_true_iff in H. destruct H as [_ Hk].
    apply orb_false_iff. split; [apply (IH SEq); [reflexivity|exact Hk] | apply (IH s Hs); exact Hv].
  - apply andb_true_iff in H. apply (IH s Hs). apply H.
  - apply (IH s Hs). exact H.
  - apply andb_true_iff in H. destruct H as [_ H]. clear Hd.
    induction ts as [|t ts IHts]; [reflexivity|].
    cbn [forallb] in H. apply andb_true_iff in H. destruct H as [H1 H2].
    cbn [existsb]. rewrite (IH s Hs t H1). cbn. apply IHts. exact H2.
  - rewrite Hs in H. discriminate.
Qed.

Lemma cmp_hash_straits : forall x, In x ["Eq"; "Ord"; "Hash"]%string ->
  always_derivable (u x) = false /\ exists s, strait_of (u x) = Some s /\ float_has s = false.
Proof.
  intros x [<-|[<-|[<-|[]]]]; (split; [vm_compute; reflexivity|]).
  - exists SEq. split; vm_compute; reflexivity.
  - exists SOrd. split; vm_compute; reflexivity.
  - exists SHash. split; vm_compute; reflexivity.
Qed.

Theorem cmp_hash_never_on_float : forall T e x,
  In x ["Eq"; "Ord"; "Hash"]%string -> In (u x) (builtin_derives T e) ->
  forall i, In i (contents (e_det e)) -> forall fuel, float_inside T fuel i = false.
Proof.
  intros T e x Hx Hb i Hi fuel. destruct fuel as [|f]; [reflexivity|].
  destruct (cmp_hash_straits x Hx) as (Ha & s & Hs & Hf).
  pose proof (extension_derivable_entry T e (u x) f Hb Ha) as Hd.
  unfold derivable_entry in Hd. destruct (kind_of T (e_det e)); [|discriminate].
  apply andb_true_iff in Hd. destruct Hd as [_ Hd]. rewrite Ha, Hs in Hd.
  rewrite forallb_forall in Hd. apply (has_trait_no_float T (S f) s Hf i). apply Hd. exact Hi.
Qed.

(* ------------------------------------------------------------------ BTreeSet order *)
Definition ult (a b : ustring) : Prop := ustr_ltb a b = true.

Lemma ustr_ltb_irrefl : forall a, ustr_ltb a a = false.
Proof.
  induction a as [|x a IH]; cbn [ustr_ltb]; [reflexivity|].
  rewrite N.ltb_irrefl, N.eqb_refl, IH. reflexivity.
Qed.

Lemma ustr_ltb_trans : forall a b c, ustr_ltb a b = true -> ustr_ltb b c = true -> ustr_ltb a c = true.
Proof.
  induction a as [|x a IH]; destruct b as [|y b]; destruct c as [|z c]; cbn [ustr_ltb];
    intros H1 H2; try discriminate; try reflexivity.
  apply orb_true_iff in H1. apply orb_true_iff in H2. apply orb_true_iff.
  destruct H1 as [H1|H1]; destruct H2 as [H2|H2].
  - left. apply N.ltb_lt in H1. apply N.ltb_lt in H2. apply N.ltb_lt. lia.
  - apply andb_true_iff in H2. destruct H2 as [E _]. apply N.eqb_eq in E. subst. left. exact H1.
  - apply andb_true_iff in H1. destruct H1 as [E _]. apply N.eqb_eq in E. subst. left. exact H2.
  - apply andb_true_iff in H1. apply andb_true_iff in H2.
    destruct H1 as [E1 L1]. destruct H2 as [E2 L2].
    apply N.eqb_eq in E1. apply N.eqb_eq in E2. subst. right. rewrite N.eqb_refl. cbn [andb].
    exact (IH b c L1 L2).
Qed.

Lemma ustr_ltb_total : forall a b, ustr_eqb a b = false -> ustr_ltb a b = false -> ustr_ltb b a = true.
Proof.
  induction a as [|x a IH]; destruct b as [|y b]; cbn [ustr_eqb ustr_ltb]; intros H1 H2;
    try discriminate; try reflexivity.
  apply orb_false_iff in H2. destruct H2 as [L E].
  destruct (N.eqb x y) eqn:Exy.
  - apply N.eqb_eq in Exy. subst. cbn [andb] in H1, E. rewrite N.eqb_refl, (IH b H1 E).
    apply orb_true_r.
  - apply N.eqb_neq in Exy. apply N.ltb_ge in L.
    assert (Hlt : (y < x)%N) by lia. apply N.ltb_lt in Hlt. rewrite Hlt. reflexivity.
Qed.

Lemma set_insert_sorted : forall x l, StronglySorted ult l -> StronglySorted ult (set_insert x l).
Proof.
  intros x l Hl. induction Hl as [|a l Hs IH Hf]; cbn [set_insert].
  - repeat constructor.
  - destruct (ustr_eqb x a) eqn:E; [constructor; assumption|].
    destruct (ustr_ltb x a) eqn:L.
    + constructor; [constructor; assumption|]. constructor; [exact L|].
      rewrite Forall_forall in Hf. apply Forall_forall. intros b Hb.
      exact (ustr_ltb_trans x a b L (Hf b Hb)).
    + constructor; [exact IH|]. rewrite Forall_forall in Hf. apply Forall_forall. intros b Hb.
      apply In_set_insert in Hb. destruct Hb as [->|Hb]; [|exact (Hf b Hb)].
      exact (ustr_ltb_total x a E L).
Qed.

Lemma set_extend_sorted : forall xs s, StronglySorted ult s -> StronglySorted ult (set_extend s xs).
Proof.
  unfold set_extend. induction xs as [|a xs IH]; intros s Hs; cbn [fold_left]; [exact Hs|].
  apply IH. apply set_insert_sorted. exact Hs.
Qed.

Lemma filter_sorted : forall (f : ustring -> bool) l, StronglySorted ult l -> StronglySorted ult (filter f l).
Proof.
  intros f l Hl. induction Hl as [|a l Hs IH Hf]; cbn [filter]; [constructor|].
  destruct (f a); [|exact IH]. constructor; [exact IH|].
  rewrite Forall_forall in Hf. apply Forall_forall. intros b Hb. apply filter_In in Hb. apply Hf. apply Hb.
Qed.

Lemma set_remove_all_sorted : forall xs s, StronglySorted ult s -> StronglySorted ult (set_remove_all xs s).
Proof.
  unfold set_remove_all. induction xs as [|a xs IH]; intros s Hs; cbn [fold_left]; [exact Hs|].
  apply IH. unfold set_remove. apply filter_sorted. exact Hs.
Qed.

Lemma sorted_NoDup : forall l, StronglySorted ult l -> NoDup l.
Proof.
  intros l Hl. induction Hl as [|a l Hs IH Hf]; constructor; [|exact IH].
  intro Hin. rewrite Forall_forall in Hf. specialize (Hf a Hin). unfold ult in Hf.
  rewrite ustr_ltb_irrefl in Hf. discriminate.
Qed.

Lemma builtin_for_sorted : forall k, StronglySorted ult (builtin_for k).
Proof.
  assert (Hb : StronglySorted ult base_set) by (apply set_extend_sorted; constructor).
  intros [[|]| |s c]; cbn [builtin_for]; try exact Hb.
  - apply set_extend_sorted. exact Hb.
  - apply set_remove_all_sorted. destruct s; [apply set_extend_sorted|]; exact Hb.
Qed.

(* the derive list is a BTreeSet iteration: strictly increasing in scalar (= UTF-8 byte) order *)
Theorem derives_sorted_nodup : forall T e,
  StronglySorted ult (derives_of T e) /\ NoDup (derives_of T e).
Proof.
  intros T e. assert (H : StronglySorted ult (derives_of T e)).
  { unfold derives_of. destruct (kind_of T (e_det e)); [|constructor].
    unfold strings_to_derives. apply set_extend_sorted. apply set_extend_sorted. apply builtin_for_sorted. }
  split; [exact H | apply sorted_NoDup; exact H].
Qed.
