(* Proofs/MergeProofs.v — lemmas about Algo/Merge.v (the model of typify's allOf
   merge) and Check/Uninhabited.v. *)
From Coq Require Import String ZArith NArith QArith List Bool Lia Permutation Btauto.
From Typify Require Import Base.Json Spec.Schema Spec.Valid IR.TypeIR IR.Serde
     Algo.Merge Check.Uninhabited Proofs.ValidProofs.
Import ListNotations.
Close Scope Q_scope.
Close Scope string_scope.
Open Scope list_scope.
Open Scope nat_scope.

(* ====================================================================== uninhabited *)
Section Uninhabited.
  Variable re_match : ustring -> ustring -> bool.
  Variable native_ok : ustring -> ustring -> bool.
  Variable T : space.

  Local Notation de := (Serde.de re_match native_ok T).

  Lemma find_variant_nil raw i : find_variant raw [] i = None.
  Proof. reflexivity. Qed.

  Lemma de_enum_nil (d : id -> json -> option rval) (df : id -> option rval) tag deny j :
    de_enum T d df tag [] deny j = None.
  Proof.
    destruct tag; simpl.
    - destruct j as [| | | |s|l|kvs]; try reflexivity.
      destruct kvs as [|[k pj] [|]]; reflexivity.
    - destruct j as [| | | |s|l|kvs]; try reflexivity.
      destruct (assoc tag kvs) as [[| | | |s|l|kvs']|]; reflexivity.
    - destruct j as [| | | |s|l|kvs]; try reflexivity.
      destruct (assoc tag kvs) as [[| | | |s|l|kvs']|]; reflexivity.
    - reflexivity.
  Qed.

  Lemma de_named_none (d : id -> json -> option rval) (df : id -> option rval) p ps kvs :
    In p ps -> wire_name p <> None ->
    (forall j, d (p_ty p) j = None) -> missing T d df p = None ->
    de_named T d df ps kvs = None.
  Proof.
    intros Hin Hw Hd Hm. induction ps as [|q r IH]; [destruct Hin|].
    destruct Hin as [->|Hin].
    - simpl. destruct (wire_name p) as [w|]; [|congruence].
      destruct (assoc w kvs) as [j|]; [rewrite Hd|rewrite Hm]; reflexivity.
    - simpl. specialize (IH Hin). rewrite IH.
      destruct (wire_name q) as [w|]; [|reflexivity].
      destruct (match assoc w kvs with Some j => d (p_ty q) j | None => missing T d df q end); reflexivity.
  Qed.

  Lemma de_struct_seq_none (d : id -> json -> option rval) (df : id -> option rval) p ps :
    In p ps ->
    (forall j, d (p_ty p) j = None) -> missing T d df p = None ->
    forall l, de_struct_seq T d df ps l = None.
  Proof.
    intros Hin Hd Hm. induction ps as [|q r IH]; [destruct Hin|].
    destruct Hin as [->|Hin]; intros l.
    - simpl. destruct l as [|j l']; [rewrite Hm|rewrite Hd]; reflexivity.
    - simpl. specialize (IH Hin).
      destruct l as [|j l'].
      + rewrite IH. destruct (missing T d df q); reflexivity.
      + rewrite IH. destruct (d (p_ty q) j); reflexivity.
  Qed.

  Theorem uninhabited_sound : forall f t,
    uninhabited T f t = true -> forall f' v, de f' t v = None.
  Proof.
    induction f as [|f IH]; intros t H; [discriminate H|].
    intros [|f'] v; [reflexivity|].
    simpl in H. simpl.
    destruct (get_det T t) as [d|] eqn:Ed; [|reflexivity].
    destruct d; try discriminate H.
    - (* enum *)
      destruct vs; [|discriminate H]. apply de_enum_nil.
    - (* struct *)
      apply existsb_exists in H. destruct H as [p [Hin Hp]].
      destruct (p_state p) eqn:Es; try discriminate Hp.
      destruct (wire_name p) as [w|] eqn:Ew; [|discriminate Hp].
      apply andb_true_iff in Hp. destruct Hp as [Hno Hu].
      assert (Hd : forall j, de f' (p_ty p) j = None) by (intros j; apply (IH _ Hu)).
      assert (Hm : missing T (de f') (default_val T f') p = None).
      { (* an absent required member is taken only by a type that takes null,
           and an uninhabited type takes nothing *)
        unfold missing. rewrite Es. destruct (get_det T (p_ty p)); [|reflexivity].
        rewrite Hd. reflexivity. }
      unfold de_struct_body.
      destruct v as [| | | |s|l|kvs]; try reflexivity.
      + destruct (flat_props props); [|reflexivity].
        rewrite (de_struct_seq_none _ _ p props Hin Hd Hm). reflexivity.
      + unfold de_struct_obj.
        rewrite (de_named_none _ _ p props kvs Hin); [reflexivity| congruence | exact Hd | exact Hm].
    - (* newtype *)
      destruct c; try discriminate H; rewrite (IH _ H); reflexivity.
    - (* box *)
      apply (IH _ H).
  Qed.
End Uninhabited.

(* ====================================================================== merge: component lemmas *)
Local Arguments all_itypes : simpl never.
Lemma m_ustr_eqb_eq : forall a b, ustr_eqb a b = true <-> a = b.
Proof.
  induction a as [|x a IH]; destruct b as [|y b]; simpl; split; intros H; try reflexivity; try discriminate.
  - apply andb_true_iff in H. destruct H as [H1 H2]. apply N.eqb_eq in H1. apply IH in H2. subst. reflexivity.
  - inversion H; subst. rewrite N.eqb_refl. simpl. apply IH. reflexivity.
Qed.

Lemma itype_eqb_refl t : itype_eqb t t = true.
Proof. destruct t; reflexivity. Qed.

Lemma itype_eqb_true a b : itype_eqb a b = true -> a = b.
Proof. destruct a, b; simpl; intros H; try reflexivity; discriminate H. Qed.


(* without `number`, the instance types are pairwise disjoint *)
Lemma type_ok_disjoint iaf t1 t2 v :
  t1 <> TNumber -> t2 <> TNumber ->
  type_ok iaf t1 v = true -> type_ok iaf t2 v = true -> t1 = t2.
Proof.
  intros N1 N2.
  destruct t1, t2; try reflexivity; try (exfalso; apply N1; reflexivity); try (exfalso; apply N2; reflexivity);
    destruct v; simpl; intros H1 H2; try discriminate H1; try discriminate H2.
Qed.

Lemma nonum_in l t : forallb (fun t => negb (itype_eqb t TNumber)) l = true -> In t l -> t <> TNumber.
Proof.
  intros H Hin E. subst t. rewrite forallb_forall in H. specialize (H _ Hin). discriminate H.
Qed.

Lemma merge_ty_sem o ta tb v :
  nonum ta = true -> nonum tb = true ->
  valid_type o ta v = true -> valid_type o tb v = true ->
  exists t, merge_ty ta tb = Some t /\ nonum t = true /\ valid_type o t v = true.
Proof.
  intros Na Nb Va Vb. destruct ta as [la|], tb as [lb|]; unfold merge_ty; cbv zeta.
  - unfold valid_type, opt_all in Va, Vb.
    apply existsb_exists in Va. destruct Va as [t1 [I1 O1]].
    apply existsb_exists in Vb. destruct Vb as [t2 [I2 O2]].
    assert (E : t1 = t2).
    { eapply type_ok_disjoint; eauto using nonum_in. }
    subst t2.
    assert (Hin : In t1 (filter (fun t => mem_ty t la && mem_ty t lb) all_itypes)).
    { apply filter_In. split; [unfold all_itypes; destruct t1; simpl; tauto|].
      apply andb_true_iff. split; unfold mem_ty; apply existsb_exists; exists t1;
        (split; [assumption | apply itype_eqb_refl]). }
    destruct (filter (fun t => mem_ty t la && mem_ty t lb) all_itypes) as [|x r] eqn:Ef; [destruct Hin|].
    eexists. split; [reflexivity|]. split.
    + unfold nonum, opt_all. rewrite <- Ef. rewrite forallb_forall. intros t Ht. apply filter_In in Ht.
      destruct Ht as [_ Ht]. apply andb_true_iff in Ht. destruct Ht as [Ht _].
      unfold mem_ty in Ht. apply existsb_exists in Ht. destruct Ht as [t' [It' Et']].
      apply itype_eqb_true in Et'. subst t'.
      unfold nonum, opt_all in Na. rewrite forallb_forall in Na. apply Na. exact It'.
    + unfold valid_type, opt_all. rewrite <- Ef. apply existsb_exists. exists t1. split; [rewrite Ef; exact Hin | exact O1].
  - eexists. split; [reflexivity|]. split; assumption.
  - eexists. split; [reflexivity|]. split; assumption.
  - eexists. split; [reflexivity|]. split; reflexivity.
Qed.

(* ---- enum values *)
Lemma Qeq_bool_int x y q : Qeq_bool (x # 1) q = true -> Qeq_bool (y # 1) q = true -> x = y.
Proof.
  intros H1 H2. apply Qeq_bool_iff in H1. apply Qeq_bool_iff in H2.
  assert (E : (x # 1 == y # 1)%Q) by (rewrite H1, H2; reflexivity).
  unfold Qeq in E. simpl in E. lia.
Qed.

Lemma simple_equiv_eqb x y v :
  simple_json x = true -> simple_json y = true ->
  json_equiv x v = true -> json_equiv y v = true -> json_eqb x y = true.
Proof.
  destruct x, y; simpl; intros Sx Sy; try discriminate Sx; try discriminate Sy;
    destruct v; simpl; intros H1 H2; try discriminate H1; try discriminate H2; try reflexivity.
  - destruct b, b0, b1; simpl in *; congruence.
  - apply Z.eqb_eq in H1. apply Z.eqb_eq in H2. subst. apply Z.eqb_refl.
  - rewrite (Qeq_bool_int _ _ _ H1 H2). apply Z.eqb_refl.
  - apply m_ustr_eqb_eq in H1. apply m_ustr_eqb_eq in H2. subst. apply m_ustr_eqb_eq. reflexivity.
Qed.

Lemma simple_check_instance iaf t e v :
  simple_json e = true -> json_equiv e v = true -> type_ok iaf t v = true -> check_instance t e = true.
Proof.
  destruct e; simpl; intros S; try discriminate S; destruct v; simpl; intros H; try discriminate H;
    destruct t; simpl; intros H2; try reflexivity; try discriminate H2.
Qed.

(* what enum + const say together *)
Definition enum_sem (e : option (list json)) (v : json) : bool :=
  opt_all (existsb (fun x => json_equiv x v)) e.

Lemma enum_of_sem ae ac aa v :
  enum_of ae ac = MOk aa ->
  valid_enum ae v = true -> valid_const ac v = true -> enum_sem aa v = true.
Proof.
  destruct ae as [l|], ac as [c|]; simpl; intros E; inversion E; subst; simpl; intros H1 H2.
  - exact H1.
  - unfold valid_const in H2. simpl in H2. rewrite H2. reflexivity.
  - reflexivity.
Qed.


Lemma enum_of_simple ae ac aa :
  enum_of ae ac = MOk aa -> simple_enum ae = true -> opt_all simple_json ac = true -> simple_enum aa = true.
Proof.
  destruct ae as [l|], ac as [c|]; simpl; intros E; inversion E; subst; simpl; intros H1 H2; auto;
    try (rewrite H2; reflexivity).
Qed.

Lemma merge_enum_sem ae ac be bc v :
  simple_enum ae = true -> opt_all simple_json ac = true ->
  simple_enum be = true -> opt_all simple_json bc = true ->
  valid_enum ae v = true -> valid_const ac v = true ->
  valid_enum be v = true -> valid_const bc v = true ->
  match merge_enum ae ac be bc with
  | MOk em => simple_enum em = true /\ enum_sem em v = true
  | MNever => False
  | _ => True
  end.
Proof.
  intros Sa Sac Sb Sbc Va Vac Vb Vbc. unfold merge_enum.
  destruct (enum_of ae ac) as [aa| | |] eqn:Ea; simpl; try exact I.
  - destruct (enum_of be bc) as [bb| | |] eqn:Eb; simpl; try exact I.
    + pose proof (enum_of_sem _ _ _ v Ea Va Vac) as Ha.
      pose proof (enum_of_sem _ _ _ v Eb Vb Vbc) as Hb.
      pose proof (enum_of_simple _ _ _ Ea Sa Sac) as Hsa.
      pose proof (enum_of_simple _ _ _ Eb Sb Sbc) as Hsb.
      destruct aa as [la|], bb as [lb|]; simpl; try (split; assumption); try (split; reflexivity).
      simpl in Ha, Hb, Hsa, Hsb.
        apply existsb_exists in Ha. destruct Ha as [x [Ix Ex]].
        apply existsb_exists in Hb. destruct Hb as [y [Iy Ey]].
        rewrite forallb_forall in Hsa, Hsb.
        assert (Hin : In x (filter (fun v0 => existsb (json_eqb v0) lb) la)).
        { apply filter_In. split; [exact Ix|]. apply existsb_exists. exists y. split; [exact Iy|].
          eapply simple_equiv_eqb; eauto. }
        destruct (filter (fun v0 => existsb (json_eqb v0) lb) la) as [|z r] eqn:Ef; [destruct Hin|].
        split.
        * unfold simple_enum, opt_all. rewrite <- Ef. apply forallb_forall. intros w Hw. apply filter_In in Hw. apply Hsa. apply Hw.
        * unfold enum_sem, opt_all. rewrite <- Ef. apply existsb_exists. exists x. split; [rewrite Ef; exact Hin | exact Ex].
    + destruct be, bc; simpl in Eb; discriminate Eb.
  - destruct ae, ac; simpl in Ea; discriminate Ea.
Qed.

Lemma merge_nv_res a b r : merge_nv a b = MOk r -> r = a \/ r = b.
Proof.
  unfold merge_nv. destruct (numv_is_none a); [intros E; inversion E; auto|].
  destruct (numv_is_none b); [intros E; inversion E; auto|].
  destruct (numv_eqb a b); intros E; inversion E; auto.
Qed.

Lemma merge_sv_res a b r : merge_sv a b = MOk r -> r = a \/ r = b.
Proof.
  unfold merge_sv. destruct (strv_is_none a); [intros E; inversion E; auto|].
  destruct (strv_is_none b); [intros E; inversion E; auto|].
  destruct (strv_eqb a b); intros E; inversion E; auto.
Qed.

Lemma merge_nv_not_never a b : merge_nv a b <> MNever.
Proof. unfold merge_nv. destruct (numv_is_none a), (numv_is_none b), (numv_eqb a b); discriminate. Qed.
Lemma merge_sv_not_never a b : merge_sv a b <> MNever.
Proof. unfold merge_sv. destruct (strv_is_none a), (strv_is_none b), (strv_eqb a b); discriminate. Qed.

(* ====================================================================== the scalar fragment *)
Section Scalar.
  Variable re_match : ustring -> ustring -> bool.
  Variable fmt_ok : ustring -> ustring -> bool.
  Variable o : vopts.
  Variable DV : defs.     (* definitions / fuel of the validity side: irrelevant without `$ref` *)
  Variable n : nat.
  Variable D : defs.      (* definitions of the merge *)

  Local Notation V := (Valid.validx re_match fmt_ok o DV n).

  Lemma V_scalar ty enum cst nv sv items d t v :
    V (SObj ty None enum cst nv sv ItemsAbsent items None None None false [] [] None None None
            None None None None None d t) v
    = valid_type o ty v && valid_enum enum v && valid_const cst v && valid_num nv v
      && valid_str re_match sv v.
  Proof.
    rewrite validx_SObj. cbv zeta. unfold combine_ref, here_v, valid_local, valid_format,
      valid_arr_local, valid_obj_local.
    destruct v; simpl; rewrite ?andb_true_r; reflexivity.
  Qed.

  Lemma merge_scalar_eq f ty enum cst nv sv items ty' enum' cst' nv' sv' items' d t d' t' :
    merge D (S f)
          (SObj ty None enum cst nv sv ItemsAbsent items None None None false [] [] None None None
                None None None None None d t)
          (SObj ty' None enum' cst' nv' sv' ItemsAbsent items' None None None false [] [] None None None
                None None None None None d' t')
    = match merge_ty ty ty' with
      | None => MNever
      | Some tym =>
          mbind (merge_nv nv nv') (fun nvm =>
          mbind (merge_sv sv sv') (fun svm =>
          mbind (merge_enum enum cst enum' cst') (fun em =>
            MOk (SObj tym None (option_map (filter (value_validate tym None None)) em) None nvm svm
                      ItemsAbsent items' None None None false [] [] None None None
                      None None None None None None None))))
      end.
  Proof.
    simpl. destruct (merge_ty ty ty'); [|reflexivity].
    destruct (merge_nv nv nv'); simpl; try reflexivity.
    destruct (merge_sv sv sv'); simpl; try reflexivity.
    destruct (merge_enum enum cst enum' cst') as [[ev|]| | |]; reflexivity.
  Qed.

  Lemma merge_ty_nonum ta tb t :
    merge_ty ta tb = Some t -> nonum ta = true -> nonum tb = true -> nonum t = true.
  Proof.
    destruct ta as [la|], tb as [lb|]; unfold merge_ty; cbv zeta; intros E Na Nb; try (inversion E; subst; assumption).
    - destruct (filter (fun t0 => mem_ty t0 la && mem_ty t0 lb) all_itypes) as [|x r] eqn:Ef; [discriminate E|].
      inversion E; subst. unfold nonum, opt_all. rewrite <- Ef. apply forallb_forall. intros y Hy.
      apply filter_In in Hy. destruct Hy as [_ Hy]. apply andb_true_iff in Hy. destruct Hy as [Hy _].
      unfold mem_ty in Hy. apply existsb_exists in Hy. destruct Hy as [t' [It' Et']].
      apply itype_eqb_true in Et'. subst t'.
      unfold nonum, opt_all in Na. rewrite forallb_forall in Na. apply Na. exact It'.
  Qed.

  Lemma merge_enum_simple ae ac be bc em :
    merge_enum ae ac be bc = MOk em ->
    simple_enum ae = true -> opt_all simple_json ac = true ->
    simple_enum be = true -> opt_all simple_json bc = true -> simple_enum em = true.
  Proof.
    unfold merge_enum. intros E Sa Sac Sb Sbc.
    destruct (enum_of ae ac) as [aa| | |] eqn:Ea; simpl in E; try discriminate E.
    destruct (enum_of be bc) as [bb| | |] eqn:Eb; simpl in E; try discriminate E.
    pose proof (enum_of_simple _ _ _ Ea Sa Sac) as Hsa.
    pose proof (enum_of_simple _ _ _ Eb Sb Sbc) as Hsb.
    destruct aa as [la|], bb as [lb|]; try (inversion E; subst; assumption).
    - destruct (filter (fun v0 => existsb (json_eqb v0) lb) la) as [|z r] eqn:Ef; [discriminate E|].
      inversion E; subst. unfold simple_enum, opt_all. rewrite <- Ef. apply forallb_forall. intros w Hw.
      apply filter_In in Hw. simpl in Hsa. rewrite forallb_forall in Hsa. apply Hsa. apply Hw.
  Qed.

  Lemma sfrag_shape ty fmt enum cst nv sv ik items ai mni mxi uq props req ap mnp mxp allo anyo oneo no ref d t :
    sfrag (SObj ty fmt enum cst nv sv ik items ai mni mxi uq props req ap mnp mxp allo anyo oneo no ref d t) = true ->
    fmt = None /\ ik = ItemsAbsent /\ ai = None /\ mni = None /\ mxi = None /\ uq = false
    /\ props = [] /\ req = [] /\ ap = None /\ mnp = None /\ mxp = None
    /\ allo = None /\ anyo = None /\ oneo = None /\ no = None /\ ref = None
    /\ nonum ty = true /\ simple_enum enum = true /\ opt_all simple_json cst = true.
  Proof.
    unfold sfrag, arr_absent, obj_absent. intros H.
    repeat match goal with
           | Hx : _ && _ = true |- _ => apply andb_true_iff in Hx; destruct Hx
           end.
    destruct fmt; [simpl in *; congruence|].
    destruct ik; try (simpl in *; congruence).
    destruct ai; [simpl in *; congruence|].
    destruct mni; [simpl in *; congruence|].
    destruct mxi; [simpl in *; congruence|].
    destruct uq; [simpl in *; congruence|].
    destruct props; [|simpl in *; congruence].
    destruct req; [|simpl in *; congruence].
    destruct ap; [simpl in *; congruence|].
    destruct mnp; [simpl in *; congruence|].
    destruct mxp; [simpl in *; congruence|].
    destruct allo; [simpl in *; congruence|].
    destruct anyo; [simpl in *; congruence|].
    destruct oneo; [simpl in *; congruence|].
    destruct no; [simpl in *; congruence|].
    destruct ref; [simpl in *; congruence|].
    repeat split; assumption.
  Qed.

  Definition scalar_ok (r : mres schema) (a b : schema) (v : json) : Prop :=
    match r with
    | MOk m => sfrag m = true /\ (V a v = true -> V b v = true -> V m v = true)
    | MNever => V a v = true -> V b v = true -> False
    | _ => True
    end.

  Theorem merge_scalar_sound f a b v :
    sfrag a = true -> sfrag b = true -> scalar_ok (merge D (S f) a b) a b v.
  Proof.
    intros Fa Fb.
    destruct a as [ba|ty fmt enum cst nv sv ik items ai mni mxi uq props req ap mnp mxp allo anyo oneo no ref d t].
    { destruct ba; destruct b as [[|]|ty' fmt' enum' cst' nv' sv' ik' items' ai' mni' mxi' uq' props' req' ap' mnp' mxp' allo' anyo' oneo' no' ref' d' t'];
        try (split; [assumption | intros; assumption]);
        try (intros H1 H2; rewrite valid_SBool in *; discriminate). }
    destruct b as [[|]|ty' fmt' enum' cst' nv' sv' ik' items' ai' mni' mxi' uq' props' req' ap' mnp' mxp' allo' anyo' oneo' no' ref' d' t'].
    { split; [assumption | intros; assumption]. }
    { intros H1 H2; rewrite valid_SBool in *; discriminate. }
    apply sfrag_shape in Fa. apply sfrag_shape in Fb.
    destruct Fa as (-> & -> & -> & -> & -> & -> & -> & -> & -> & -> & -> & -> & -> & -> & -> & -> & Nt & Se & Sc).
    destruct Fb as (-> & -> & -> & -> & -> & -> & -> & -> & -> & -> & -> & -> & -> & -> & -> & -> & Nt' & Se' & Sc').
    rewrite merge_scalar_eq. unfold scalar_ok.
    destruct (merge_ty ty ty') as [tym|] eqn:Et.
    - destruct (merge_nv nv nv') as [nvm| | |] eqn:En; simpl; try exact I;
        [|exfalso; eapply merge_nv_not_never; eauto].
      destruct (merge_sv sv sv') as [svm| | |] eqn:Es; simpl; try exact I;
        [|exfalso; eapply merge_sv_not_never; eauto].
      destruct (merge_enum enum cst enum' cst') as [em| | |] eqn:Ee; simpl; try exact I.
      + pose proof (merge_ty_nonum _ _ _ Et Nt Nt') as Ntm.
        pose proof (merge_enum_simple _ _ _ _ _ Ee Se Sc Se' Sc') as Sem.
        split.
        * unfold sfrag, arr_absent, obj_absent. rewrite Ntm. simpl. destruct em as [ev|]; simpl; [|reflexivity].
          rewrite !andb_true_r. apply forallb_forall. intros w Hw. apply filter_In in Hw.
          simpl in Sem. rewrite forallb_forall in Sem. apply Sem. apply Hw.
        * rewrite !V_scalar. rewrite !andb_true_iff.
          intros [[[[Ta Ea] Ca] Na] Sa] [[[[Tb Eb] Cb] Nb] Sb].
          destruct (merge_ty_sem o ty ty' v Nt Nt' Ta Tb) as [t0 [Et0 [_ Tm]]].
          rewrite Et in Et0. inversion Et0; subst t0.
          pose proof (merge_enum_sem enum cst enum' cst' v Se Sc Se' Sc' Ea Ca Eb Cb) as Hem.
          rewrite Ee in Hem. destruct Hem as [_ Hem].
          repeat split.
          -- exact Tm.
          -- destruct em as [ev|]; [|reflexivity]. simpl in *.
             apply existsb_exists in Hem. destruct Hem as [x [Ix Ex]].
             apply existsb_exists. exists x. split; [|exact Ex].
             apply filter_In. split; [exact Ix|].
             unfold value_validate. simpl.
             destruct tym as [l|]; [|reflexivity]. simpl.
             unfold valid_type in Tm. simpl in Tm.
             apply existsb_exists in Tm. destruct Tm as [t1 [I1 O1]].
             apply existsb_exists. exists t1. split; [exact I1|].
             rewrite forallb_forall in Sem.
             eapply simple_check_instance; [apply Sem; exact Ix | exact Ex | exact O1].
          -- destruct (merge_nv_res _ _ _ En) as [->| ->]; assumption.
          -- destruct (merge_sv_res _ _ _ Es) as [->| ->]; assumption.
      + rewrite !V_scalar. rewrite !andb_true_iff.
        intros [[[[Ta Ea] Ca] Na] Sa] [[[[Tb Eb] Cb] Nb] Sb].
        pose proof (merge_enum_sem enum cst enum' cst' v Se Sc Se' Sc' Ea Ca Eb Cb) as Hem.
        rewrite Ee in Hem. exact Hem.
    - rewrite !V_scalar. rewrite !andb_true_iff.
      intros [[[[Ta Ea] Ca] Na] Sa] [[[[Tb Eb] Cb] Nb] Sb].
      destruct (merge_ty_sem o ty ty' v Nt Nt' Ta Tb) as [t0 [Et0 _]].
      rewrite Et in Et0. discriminate Et0.
  Qed.
End Scalar.

(* ====================================================================== merge_all on the scalar fragment *)
Section ScalarAll.
  Variable re_match : ustring -> ustring -> bool.
  Variable fmt_ok : ustring -> ustring -> bool.
  Variable o : vopts.
  Variable DV : defs.
  Variable n : nat.
  Variable D : defs.
  Variable f : nat.
  Variable v : json.

  Local Notation V := (Valid.validx re_match fmt_ok o DV n).

  Definition acc_ok (r : mres schema) (P : Prop) : Prop :=
    match r with
    | MOk m => sfrag m = true /\ (P -> V m v = true)
    | MNever => P -> False
    | _ => True
    end.

  Lemma fold_scalar rest : forall acc P,
    acc_ok acc P -> Forall (fun s => sfrag s = true) rest ->
    acc_ok (fold_left (fun a s => mbind a (fun x => merge D (S f) x s)) rest acc)
           (P /\ Forall (fun s => V s v = true) rest).
  Proof.
    induction rest as [|s rest IH]; intros acc P Hacc HF.
    - simpl. destruct acc; simpl in *; try exact I.
      + destruct Hacc as [H1 H2]. split; [exact H1 | intros [HP _]; auto].
      + intros [HP _]. auto.
    - cbn [fold_left]. inversion HF as [|? ? Hs HF']; subst.
      assert (Hstep : acc_ok (mbind acc (fun x => merge D (S f) x s)) (P /\ V s v = true)).
      { destruct acc as [x| | |]; unfold acc_ok, mbind in *; try exact I.
        - destruct Hacc as [Fx Hx].
          pose proof (merge_scalar_sound re_match fmt_ok o DV n D f x s v Fx Hs) as H.
          unfold scalar_ok in H. destruct (merge D (S f) x s); try exact I.
          + destruct H as [H1 H2]. split; [exact H1 | intros [HP Hv]; auto].
          + intros [HP Hv]. auto.
        - intros [HP _]. auto. }
      specialize (IH _ _ Hstep HF').
      destruct (fold_left (fun a s0 => mbind a (fun x => merge D (S f) x s0)) rest
                          (mbind acc (fun x => merge D (S f) x s))); unfold acc_ok in *; try exact I.
      + destruct IH as [H1 H2]. split; [exact H1|]. intros [HP HA]. inversion HA; subst. apply H2. auto.
      + intros [HP HA]. inversion HA; subst. apply IH. auto.
  Qed.

  Theorem merge_all_scalar_sound L :
    Forall (fun s => sfrag s = true) L ->
    match merge_all D (S f) L with
    | MOk m => Forall (fun s => V s v = true) L -> V m v = true
    | MNever => Forall (fun s => V s v = true) L -> False
    | _ => True
    end.
  Proof.
    intros HF. destruct L as [|a [|b rest]]; cbn [merge_all]; try exact I.
    - intros H. inversion H; subst. assumption.
    - inversion HF as [|? ? Ha HF1]; subst. inversion HF1 as [|? ? Hb HF2]; subst.
      pose proof (merge_scalar_sound re_match fmt_ok o DV n D f a b v Ha Hb) as H0.
      assert (Hacc : acc_ok (merge D (S f) a b) (V a v = true /\ V b v = true)).
      { unfold scalar_ok in H0. unfold acc_ok. destruct (merge D (S f) a b); try exact I.
        - destruct H0 as [H1 H2]. split; [exact H1| intros [? ?]; auto].
        - intros [? ?]; auto. }
      pose proof (fold_scalar rest _ _ Hacc HF2) as H.
      unfold acc_ok in H.
      destruct (fold_left (fun a0 s => mbind a0 (fun x => merge D (S f) x s)) rest (merge D (S f) a b));
        try exact I.
      + destruct H as [_ H]. intros HA. inversion HA as [|? ? Va HA1]; subst.
        inversion HA1 as [|? ? Vb HA2]; subst. apply H. auto.
      + intros HA. inversion HA as [|? ? Va HA1]; subst.
        inversion HA1 as [|? ? Vb HA2]; subst. apply H. auto.
  Qed.
End ScalarAll.

(* ====================================================================== refutation witnesses
   (each replayed on the real `verif::merge_all` and the compiled pipeline: corpus/C09/f*.json) *)
Open Scope string_scope.
Definition nore : ustring -> ustring -> bool := fun _ _ => false.
Definition Vd (D : defs) (n : nat) := Valid.valid nore nore D n.

Definition ty_only (l : list itype) : schema :=
  SObj (Some l) None None None numv_none strv_none ItemsAbsent [] None None None false
       [] [] None None None None None None None None None None.
Definition arr_of (it : schema) (mn mx : option N) : schema :=
  SObj (Some [TArray]) None None None numv_none strv_none ItemsSingle [it] None mn mx false
       [] [] None None None None None None None None None None.
Definition str_enum (l : list json) : schema :=
  SObj (Some [TString]) None (Some l) None numv_none strv_none ItemsAbsent [] None None None false
       [] [] None None None None None None None None None None.

Definition w_A := ulit "A".
Definition w_defs : defs := [(w_A, arr_of (ty_only [TString]) None None)].
Definition w_fixed := arr_of (ty_only [TString]) (Some 2%N) (Some 2%N).
Definition w_narrow := arr_of (str_enum [JStr (ulit "a"); JStr (ulit "b")]) None None.
Definition w_abc := JArr [JStr (ulit "a"); JStr (ulit "b"); JStr (ulit "a")].
Close Scope string_scope.

(* F1: integer and number are treated as disjoint *)
Lemma never_refuted_int_number :
  exists a b v, merge [] 5 a b = MNever /\ Vd [] 0 a v = true /\ Vd [] 0 b v = true.
Proof. exists (ty_only [TNumber]), (ty_only [TInteger]), (JInt 5). vm_compute. repeat split. Qed.

(* F5: conflicting `items` give never although the empty array satisfies both *)
Lemma never_refuted_items :
  exists a b v, merge [] 5 a b = MNever /\ Vd [] 0 a v = true /\ Vd [] 0 b v = true.
Proof.
  exists (arr_of (ty_only [TString]) None None), (arr_of (ty_only [TInteger]) None None), (JArr []).
  vm_compute. repeat split.
Qed.

(* keywords of a group are merged without looking at `type`: never for instances of another type *)
Lemma never_refuted_untyped :
  exists a b v, merge [] 5 a b = MNever /\ Vd [] 0 a v = true /\ Vd [] 0 b v = true.
Proof.
  exists (SObj None None None None numv_none strv_none ItemsAbsent [] None None (Some 1%N) false
               [] [] None None None None None None None None None None),
         (SObj None None None None numv_none strv_none ItemsAbsent [] None (Some 2%N) None false
               [] [] None None None None None None None None None None),
         (JStr []).
  vm_compute. repeat split.
Qed.

(* F2 (fixed by /repo 884aa7b: roughly_array compares every keyword): the former witness.  Merging the
   reference with the fixed-length member no longer collapses to the bare reference, and the two orders of
   the three-member list merge to schemas that agree on the former distinguishing instance. *)
Lemma f2_witness_keeps_bounds :
  exists m, merge w_defs 5 (SRef w_A) w_fixed = MOk m /\ Vd w_defs 3 m w_abc = false.
Proof. eexists. vm_compute. repeat split. Qed.

Lemma f2_witness_orders_agree :
  exists m m', Permutation [SRef w_A; w_fixed; w_narrow] ([w_fixed; w_narrow] ++ [SRef w_A])
               /\ merge_all w_defs 8 [SRef w_A; w_fixed; w_narrow] = MOk m
               /\ merge_all w_defs 8 ([w_fixed; w_narrow] ++ [SRef w_A]) = MOk m'
               /\ Vd w_defs 3 m w_abc = false /\ Vd w_defs 3 m' w_abc = false
               /\ Vd w_defs 3 m (JArr [JStr (ulit "a"); JStr (ulit "b")]) = true
               /\ Vd w_defs 3 m' (JArr [JStr (ulit "a"); JStr (ulit "b")]) = true.
Proof.
  eexists. eexists. split; [apply Permutation_cons_append|]. vm_compute. repeat split.
Qed.

(* non-vacuity of the scalar theorems *)
Lemma scalar_example_ok :
  exists m, merge [] 3 (ty_only [TString; TNull])
                  (SObj None None (Some [JStr [97%N]; JNull; JInt 3]) None numv_none strv_none ItemsAbsent []
                        None None None false [] [] None None None None None None None None None None) = MOk m
            /\ sfrag m = true /\ Vd [] 0 m (JStr [97%N]) = true /\ Vd [] 0 m (JInt 3) = false.
Proof. eexists. vm_compute. repeat split. Qed.

Lemma scalar_example_never :
  merge [] 3 (ty_only [TString]) (ty_only [TObject]) = MNever
  /\ sfrag (ty_only [TString]) = true /\ sfrag (ty_only [TObject]) = true.
Proof. vm_compute. repeat split. Qed.

(* ====================================================================== the object fragment [ofrag]
   merge soundness / never-soundness / closure by induction on the merge fuel *)



Lemma m_ustr_eqb_refl k : ustr_eqb k k = true.
Proof. apply m_ustr_eqb_eq. reflexivity. Qed.

Lemma assoc_In {A} k (l : list (ustring * A)) x : assoc k l = Some x -> In (k, x) l.
Proof.
  induction l as [|[k' y] r IH]; simpl; [discriminate|].
  destruct (ustr_eqb k k') eqn:E.
  - intros H. inversion H; subst. apply m_ustr_eqb_eq in E. subst. left. reflexivity.
  - intros H. right. apply IH. exact H.
Qed.

Lemma In_has_key {A} k (x : A) l : In (k, x) l -> has_key k l = true.
Proof.
  unfold has_key. induction l as [|[k' y] r IH]; simpl; [intros []|].
  intros [H|H].
  - inversion H; subst. rewrite m_ustr_eqb_refl. reflexivity.
  - destruct (ustr_eqb k k'); [reflexivity|]. apply IH. exact H.
Qed.

Lemma has_key_false_assoc {A} k (l : list (ustring * A)) : has_key k l = false -> assoc k l = None.
Proof. unfold has_key. destruct (assoc k l); [discriminate|reflexivity]. Qed.

Lemma mem_ustr_In k l : mem_ustr k l = true <-> In k l.
Proof.
  unfold mem_ustr. rewrite existsb_exists. split.
  - intros [x [Hin E]]. apply m_ustr_eqb_eq in E. subst. exact Hin.
  - intros H. exists k. split; [exact H | apply m_ustr_eqb_refl].
Qed.

(* the two halves of valid_obj, as statements about membership *)
Lemma valid_obj_spec (F : schema -> json -> bool) props ap kvs :
  valid_obj F props ap kvs = true <->
  (forall k s x, In (k, s) props -> assoc k kvs = Some x -> F s x = true)
  /\ (forall a, ap = Some a -> forall k x, In (k, x) kvs -> has_key k props = true \/ F a x = true).
Proof.
  unfold valid_obj. rewrite andb_true_iff.
  assert (P : forall ps,
    (fix pr (ps : list (ustring * schema)) : bool :=
       match ps with
       | [] => true
       | (k, s) :: r => match assoc k kvs with Some x => F s x | None => true end && pr r
       end) ps = true <->
    (forall k s x, In (k, s) ps -> assoc k kvs = Some x -> F s x = true)).
  { induction ps as [|[k s] r IH]; simpl.
    - split; [intros _ k s x [] | reflexivity].
    - rewrite andb_true_iff, IH. split.
      + intros [H1 H2] k' s' x [E|Hin] Hx.
        * inversion E; subst. rewrite Hx in H1. exact H1.
        * eapply H2; eauto.
      + intros H. split.
        * destruct (assoc k kvs) as [x|] eqn:Ex; [|reflexivity]. eapply H; [left; reflexivity | exact Ex].
        * intros k' s' x Hin Hx. eapply H; [right; exact Hin | exact Hx]. }
  rewrite P. clear P.
  split; intros [H1 H2]; (split; [exact H1|]).
  - intros a -> k x Hin. rewrite forallb_forall in H2. specialize (H2 _ Hin). simpl in H2.
    apply orb_true_iff in H2. exact H2.
  - destruct ap as [a|]; [|reflexivity]. apply forallb_forall. intros [k x] Hin. simpl.
    apply orb_true_iff. eapply H2; [reflexivity | exact Hin].
Qed.


Definition is_false (s : schema) : bool := match s with SBool false => true | _ => false end.
Definition ap_is_false (ap : option schema) : bool := match ap with Some (SBool false) => true | _ => false end.

Lemma is_false_eq s : is_false s = true -> s = SBool false.
Proof. destruct s as [[|]|]; simpl; intros H; try discriminate H; reflexivity. Qed.

Lemma props_loop_cons req apm k s rest :
  props_loop req apm ((k, MOk s) :: rest) =
  if is_false s then
    if mem_ustr k req then MNever
    else if ap_is_false apm then props_loop req apm rest
         else mbind (props_loop req apm rest) (fun l => MOk ((k, SBool false) :: l))
  else mbind (props_loop req apm rest) (fun l => MOk ((k, s) :: l)).
Proof.
  destruct s as [[|]|]; simpl; try reflexivity.
  destruct (mem_ustr k req); [reflexivity|].
  destruct apm as [[[|]|]|]; reflexivity.
Qed.

Lemma props_loop_ok req apm ps : forall pm,
  props_loop req apm ps = MOk pm ->
  (forall k r, In (k, r) ps -> exists s, r = MOk s)
  /\ (forall k s, In (k, s) pm -> In (k, MOk s) ps)
  /\ (forall k s, In (k, MOk s) ps -> is_false s = false -> In (k, s) pm)
  /\ (forall k s, In (k, MOk s) ps -> is_false s = true -> mem_ustr k req = false /\ (ap_is_false apm = false -> In (k, s) pm)).
Proof.
  induction ps as [|[k r] rest IH]; intros pm H.
  - simpl in H. inversion H; subst. repeat split; intros; try contradiction.
  - destruct r as [s| | |]; try (simpl in H; discriminate H).
    rewrite props_loop_cons in H.
    destruct (is_false s) eqn:Fs.
    + destruct (mem_ustr k req) eqn:Mk; [discriminate H|].
      pose proof (is_false_eq _ Fs) as ->.
      destruct (ap_is_false apm) eqn:Af.
      * destruct (IH _ H) as (I0 & I1 & I2 & I3).
        split; [|split; [|split]].
        -- intros k' r' [E|Hin]; [inversion E; subst; eauto | eauto].
        -- intros k' s' Hin. right. eauto.
        -- intros k' s' [E|Hin] Hf; [inversion E; subst; discriminate Hf | eauto].
        -- intros k' s' [E|Hin] Hf.
           ++ inversion E; subst. split; [exact Mk | intros C; discriminate C].
           ++ eauto.
      * destruct (props_loop req apm rest) as [l| | |] eqn:El; simpl in H; try discriminate H.
        inversion H; subst.
        destruct (IH _ eq_refl) as (I0 & I1 & I2 & I3).
        split; [|split; [|split]].
        -- intros k' r' [E|Hin]; [inversion E; subst; eauto | eauto].
        -- intros k' s' [E|Hin]; [inversion E; subst; left; reflexivity | right; eauto].
        -- intros k' s' [E|Hin] Hf; [inversion E; subst; discriminate Hf | right; eauto].
        -- intros k' s' [E|Hin] Hf.
           ++ inversion E; subst. split; [exact Mk | intros _; left; reflexivity].
           ++ destruct (I3 _ _ Hin Hf) as [J1 J2]. split; [exact J1 | intros C; right; auto].
    + destruct (props_loop req apm rest) as [l| | |] eqn:El; simpl in H; try discriminate H.
      inversion H; subst.
      destruct (IH _ eq_refl) as (I0 & I1 & I2 & I3).
      split; [|split; [|split]].
      -- intros k' r' [E|Hin]; [inversion E; subst; eauto | eauto].
      -- intros k' s' [E|Hin]; [inversion E; subst; left; reflexivity | right; eauto].
      -- intros k' s' [E|Hin] Hf; [inversion E; subst; left; reflexivity | right; eauto].
      -- intros k' s' [E|Hin] Hf.
         ++ inversion E; subst. rewrite Fs in Hf. discriminate Hf.
         ++ destruct (I3 _ _ Hin Hf) as [J1 J2]. split; [exact J1 | intros C; right; auto].
Qed.

Lemma props_loop_never req apm ps :
  props_loop req apm ps = MNever ->
  (exists k, In (k, MOk (SBool false)) ps /\ mem_ustr k req = true) \/ (exists k, In (k, MNever) ps).
Proof.
  induction ps as [|[k r] rest IH]; intros H; [simpl in H; discriminate H|].
  destruct r as [s| | |]; try (simpl in H; discriminate H).
  - rewrite props_loop_cons in H.
    assert (Hrest : props_loop req apm rest = MNever ->
                    (exists k0, In (k0, MOk (SBool false)) ((k, MOk s) :: rest) /\ mem_ustr k0 req = true) \/
                    (exists k0, In (k0, @MNever schema) ((k, MOk s) :: rest))).
    { intros Hr. destruct (IH Hr) as [[k0 [Hin Hm]]|[k0 Hin]]; [left|right]; exists k0; simpl; auto. }
    destruct (is_false s) eqn:Fs.
    + destruct (mem_ustr k req) eqn:Mk.
      * left. exists k. apply is_false_eq in Fs. subst. split; [left; reflexivity | exact Mk].
      * destruct (ap_is_false apm); [auto|].
        destruct (props_loop req apm rest); simpl in H; try discriminate H. auto.
    + destruct (props_loop req apm rest); simpl in H; try discriminate H. auto.
  - right. exists k. left. reflexivity.
Qed.


Lemma choose_max_sem a b len :
  opt_all (fun m => N.leb m len) a = true -> opt_all (fun m => N.leb m len) b = true ->
  opt_all (fun m => N.leb m len) (choose N.max a b) = true.
Proof.
  destruct a as [x|], b as [y|]; simpl; intros H1 H2; auto.
  apply N.leb_le in H1. apply N.leb_le in H2. apply N.leb_le. lia.
Qed.

Lemma choose_min_sem a b len :
  opt_all (fun m => N.leb len m) a = true -> opt_all (fun m => N.leb len m) b = true ->
  opt_all (fun m => N.leb len m) (choose N.min a b) = true.
Proof.
  destruct a as [x|], b as [y|]; simpl; intros H1 H2; auto.
  apply N.leb_le in H1. apply N.leb_le in H2. apply N.leb_le. lia.
Qed.

Lemma min_gt_max_false mn mx len :
  opt_all (fun m => N.leb m len) mn = true -> opt_all (fun m => N.leb len m) mx = true ->
  min_gt_max mn mx = false.
Proof.
  destruct mn as [x|], mx as [y|]; simpl; intros H1 H2; auto.
  apply N.leb_le in H1. apply N.leb_le in H2. apply N.ltb_ge. lia.
Qed.

Section Obj.
  Variable re_match : ustring -> ustring -> bool.
  Variable fmt_ok : ustring -> ustring -> bool.
  Variable o : vopts.
  Variable DV : defs.
  Variable n : nat.
  Local Notation V := (Valid.validx re_match fmt_ok o DV n).

  Definition rs_ok (r : mres schema) (a b : schema) : Prop :=
    match r with
    | MOk m => ofrag m = true /\ forall v, V a v = true -> V b v = true -> V m v = true
    | MNever => forall v, V a v = true -> V b v = true -> False
    | _ => True
    end.

  Variable mrg : schema -> schema -> mres schema.
  Hypothesis Hm : forall x y, ofrag x = true -> ofrag y = true -> rs_ok (mrg x y) x y.
  Hypothesis Hbool : forall bx by_,
      mrg (SBool bx) (SBool by_) = (if bx && by_ then MOk (SBool true) else MNever)
      \/ mrg (SBool bx) (SBool by_) = MUnsupp.

  Definition apsem (ap : option schema) (x : json) : bool := opt_all (fun a => V a x) ap.

  Lemma filter_prop_sem ap prop x :
    ap_bool ap = true -> apsem ap x = true -> V prop x = true -> V (filter_prop ap prop) x = true.
  Proof.
    destruct ap as [[[|]|]|]; simpl; intros A H1 H2; try exact H2; try discriminate A.
    rewrite valid_SBool in H1. discriminate H1.
  Qed.

  Lemma filter_prop_ofrag ap prop : ap_bool ap = true -> ofrag prop = true -> ofrag (filter_prop ap prop) = true.
  Proof. destruct ap as [[[|]|]|]; simpl; intros A H; try exact H; try reflexivity; discriminate A. Qed.

  Lemma merge_ap_sound ap ap' :
    ap_bool ap = true -> ap_bool ap' = true ->
    match merge_ap mrg ap ap' with
    | MOk apm => ap_bool apm = true
                 /\ (forall x, apsem ap x = true -> apsem ap' x = true -> apsem apm x = true)
                 /\ (ap_is_false apm = true -> ap_is_false ap = true \/ ap_is_false ap' = true)
                 /\ (ap = None -> ap' = None -> apm = None)
    | MNever => False
    | _ => True
    end.
  Proof.
    destruct ap as [[bx|]|], ap' as [[by_|]|]; simpl; intros A B; try discriminate A; try discriminate B.
    - destruct (Hbool bx by_) as [E|E]; rewrite E; [|exact I].
      destruct bx, by_; simpl; repeat split; auto; try (intros; discriminate);
        try (intros x H1 H2; rewrite valid_SBool in *; congruence).
    - repeat split; auto; try (intros; discriminate).
    - repeat split; auto; try (intros; discriminate).
    - repeat split; auto.
  Qed.

  (* ---- the entries fed to props_loop *)
  Variables (props props' : list (ustring * schema)) (ap ap' : option schema).
  Hypothesis Fa : forallb (fun kv => ofrag (snd kv)) props = true.
  Hypothesis Fb : forallb (fun kv => ofrag (snd kv)) props' = true.
  Hypothesis Aa : ap_bool ap = true.
  Hypothesis Ab : ap_bool ap' = true.

  Definition from_a :=
    map (fun kv : ustring * schema =>
           (fst kv, match assoc (fst kv) props' with
                    | Some sb => or_false (mrg (snd kv) sb)
                    | None => MOk (filter_prop ap' (snd kv))
                    end)) props.
  Definition from_b :=
    map (fun kv : ustring * schema => (fst kv, @MOk schema (filter_prop ap (snd kv))))
        (filter (fun kv => negb (has_key (fst kv) props)) props').

  Lemma ofrag_in (l : list (ustring * schema)) k s :
    forallb (fun kv => ofrag (snd kv)) l = true -> In (k, s) l -> ofrag s = true.
  Proof. intros H Hin. rewrite forallb_forall in H. apply (H (k, s) Hin). Qed.

  Lemma in_from_a k r :
    In (k, r) from_a ->
    exists sa, In (k, sa) props /\
      r = match assoc k props' with
          | Some sb => or_false (mrg sa sb)
          | None => MOk (filter_prop ap' sa)
          end.
  Proof.
    unfold from_a. rewrite in_map_iff. intros [[k' sa] [E Hin]]. simpl in E. inversion E; subst.
    exists sa. split; [exact Hin | reflexivity].
  Qed.

  Lemma in_from_b k r :
    In (k, r) from_b ->
    exists sb, In (k, sb) props' /\ has_key k props = false /\ r = MOk (filter_prop ap sb).
  Proof.
    unfold from_b. rewrite in_map_iff. intros [[k' sb] [E Hin]]. simpl in E. inversion E; subst.
    apply filter_In in Hin. destruct Hin as [Hin Hk]. simpl in Hk. apply negb_true_iff in Hk.
    exists sb. repeat split; assumption.
  Qed.

  Lemma entries_no_never k : ~ In (k, @MNever schema) (from_a ++ from_b).
  Proof.
    rewrite in_app_iff. intros [H|H].
    - apply in_from_a in H. destruct H as [sa [_ E]].
      destruct (assoc k props'); [|discriminate E].
      destruct (mrg sa s); simpl in E; discriminate E.
    - apply in_from_b in H. destruct H as [sb [_ [_ E]]]. discriminate E.
  Qed.

  Lemma entries_frag k s : In (k, MOk s) (from_a ++ from_b) -> ofrag s = true.
  Proof.
    rewrite in_app_iff. intros [H|H].
    - apply in_from_a in H. destruct H as [sa [Hin E]].
      pose proof (ofrag_in _ _ _ Fa Hin) as Fsa.
      destruct (assoc k props') as [sb|] eqn:Eb.
      + apply assoc_In in Eb. pose proof (ofrag_in _ _ _ Fb Eb) as Fsb.
        pose proof (Hm sa sb Fsa Fsb) as H. unfold rs_ok in H.
        destruct (mrg sa sb); simpl in E; inversion E; subst; [apply H | reflexivity].
      + inversion E; subst. apply filter_prop_ofrag; assumption.
    - apply in_from_b in H. destruct H as [sb [Hin [_ E]]]. inversion E; subst.
      apply filter_prop_ofrag; [assumption | eapply ofrag_in; eauto].
  Qed.

  Lemma entries_sem kvs k s x :
    valid_obj V props ap kvs = true -> valid_obj V props' ap' kvs = true ->
    In (k, MOk s) (from_a ++ from_b) -> assoc k kvs = Some x -> V s x = true.
  Proof.
    intros Ha Hb Hin Hx.
    apply valid_obj_spec in Ha. destruct Ha as [Ha1 Ha2].
    apply valid_obj_spec in Hb. destruct Hb as [Hb1 Hb2].
    pose proof (assoc_In _ _ _ Hx) as Hkx.
    apply in_app_iff in Hin. destruct Hin as [H|H].
    - apply in_from_a in H. destruct H as [sa [Hina E]].
      pose proof (Ha1 _ _ _ Hina Hx) as Vsa.
      pose proof (ofrag_in _ _ _ Fa Hina) as Fsa.
      destruct (assoc k props') as [sb|] eqn:Eb.
      + pose proof (assoc_In _ _ _ Eb) as Hinb.
        pose proof (Hb1 _ _ _ Hinb Hx) as Vsb.
        pose proof (ofrag_in _ _ _ Fb Hinb) as Fsb.
        pose proof (Hm sa sb Fsa Fsb) as H. unfold rs_ok in H.
        destruct (mrg sa sb); simpl in E; inversion E; subst.
        * apply H; assumption.
        * exfalso. eapply H; eassumption.
      + inversion E; subst. apply filter_prop_sem; [exact Ab | | exact Vsa].
        unfold apsem. destruct ap' as [a'|]; [|reflexivity]. simpl.
        destruct (Hb2 a' eq_refl _ _ Hkx) as [Hk|Hv]; [|exact Hv].
        unfold has_key in Hk. rewrite Eb in Hk. discriminate Hk.
    - apply in_from_b in H. destruct H as [sb [Hinb [Hk E]]]. inversion E; subst.
      pose proof (Hb1 _ _ _ Hinb Hx) as Vsb.
      apply filter_prop_sem; [exact Aa | | exact Vsb].
      unfold apsem. destruct ap as [a0|]; [|reflexivity]. simpl.
      destruct (Ha2 a0 eq_refl _ _ Hkx) as [Hk'|Hv]; [|exact Hv].
      rewrite Hk in Hk'. discriminate Hk'.
  Qed.

  Lemma entries_cover_a k sa : In (k, sa) props -> exists r, In (k, r) (from_a ++ from_b).
  Proof.
    intros Hin. eexists. apply in_app_iff. left. unfold from_a. apply in_map_iff.
    exists (k, sa). split; [reflexivity | exact Hin].
  Qed.

  Lemma entries_cover_b k sb : In (k, sb) props' -> exists r, In (k, r) (from_a ++ from_b).
  Proof.
    intros Hin. destruct (has_key k props) eqn:Hk.
    - unfold has_key in Hk. destruct (assoc k props) as [sa|] eqn:Ea; [|discriminate Hk].
      apply assoc_In in Ea. eapply entries_cover_a; eauto.
    - eexists. apply in_app_iff. right. unfold from_b. apply in_map_iff.
      exists (k, sb). split; [reflexivity|]. apply filter_In. split; [exact Hin|]. simpl. rewrite Hk. reflexivity.
  Qed.
End Obj.


Section ObjGroup.
  Variable re_match : ustring -> ustring -> bool.
  Variable fmt_ok : ustring -> ustring -> bool.
  Variable o : vopts.
  Variable DV : defs.
  Variable n : nat.
  Local Notation V := (Valid.validx re_match fmt_ok o DV n).
  Local Notation rsok := (rs_ok re_match fmt_ok o DV n).

  Variable mrg : schema -> schema -> mres schema.
  Hypothesis Hm : forall x y, ofrag x = true -> ofrag y = true -> rsok (mrg x y) x y.
  Hypothesis Hbool : forall bx by_,
      mrg (SBool bx) (SBool by_) = (if bx && by_ then MOk (SBool true) else MNever)
      \/ mrg (SBool bx) (SBool by_) = MUnsupp.

  Definition osem (props : list (ustring * schema)) (req : list ustring) (ap : option schema)
             (mnp mxp : option N) (kvs : list (ustring * json)) : Prop :=
    valid_obj_local req mnp mxp (JObj kvs) = true /\ valid_obj V props ap kvs = true.

  Lemma has_key_assoc {A} k (l : list (ustring * A)) : has_key k l = true -> exists x, assoc k l = Some x.
  Proof. unfold has_key. destruct (assoc k l) as [x|]; [eauto | discriminate]. Qed.

  Lemma merge_obj_sound props req ap mnp mxp props' req' ap' mnp' mxp' :
    forallb (fun kv => ofrag (snd kv)) props = true ->
    forallb (fun kv => ofrag (snd kv)) props' = true ->
    ap_bool ap = true -> ap_bool ap' = true ->
    match merge_obj mrg (props, req, ap, mnp, mxp) (props', req', ap', mnp', mxp') with
    | MOk (pm, rm, apm, mnm, mxm) =>
        forallb (fun kv => ofrag (snd kv)) pm = true /\ ap_bool apm = true
        /\ (obj_absent props req ap mnp mxp = true -> obj_absent props' req' ap' mnp' mxp' = true ->
            obj_absent pm rm apm mnm mxm = true)
        /\ forall kvs, osem props req ap mnp mxp kvs -> osem props' req' ap' mnp' mxp' kvs ->
                       osem pm rm apm mnm mxm kvs
    | MNever => obj_absent props req ap mnp mxp = false /\ obj_absent props' req' ap' mnp' mxp' = false
                /\ forall kvs, osem props req ap mnp mxp kvs -> osem props' req' ap' mnp' mxp' kvs -> False
    | _ => True
    end.
  Proof.
    intros Fa Fb Aa Ab.
    unfold merge_obj. cbv beta iota zeta.
    destruct (obj_absent props req ap mnp mxp) eqn:Oa.
    { split; [exact Fb | split; [exact Ab | split; [intros _ H; exact H | intros kvs _ H; exact H]]]. }
    destruct (obj_absent props' req' ap' mnp' mxp') eqn:Ob.
    { split; [exact Fa | split; [exact Aa | split; [intros C; discriminate C | intros kvs H _; exact H]]]. }
    pose proof (merge_ap_sound re_match fmt_ok o DV n mrg Hbool ap ap' Aa Ab) as Hap.
    destruct (merge_ap mrg ap ap') as [apm| | |]; cbn [mbind]; try exact I; [|destruct Hap].
    destruct Hap as (Am & Sap & Fap & _).
    set (ps := from_a mrg props props' ap' ++ from_b props props' ap).
    assert (Esem : forall kvs k s x, valid_obj V props ap kvs = true -> valid_obj V props' ap' kvs = true ->
                                     In (k, MOk s) ps -> assoc k kvs = Some x -> V s x = true).
    { intros kvs k s x Ha Hb. eapply entries_sem; eauto. }
    assert (Enofalse : forall kvs k x, valid_obj V props ap kvs = true -> valid_obj V props' ap' kvs = true ->
                                       In (k, MOk (SBool false)) ps -> assoc k kvs = Some x -> False).
    { intros kvs k x Ha Hb Hin Hx. pose proof (Esem kvs k _ x Ha Hb Hin Hx) as C.
      rewrite valid_SBool in C. discriminate C. }
    match goal with
    | |- context [props_loop ?r ?a ?l] => destruct (props_loop r a l) as [pm| | |] eqn:El
    end; cbn [mbind]; try exact I.
    - (* the loop succeeded *)
      destruct (props_loop_ok (union_req req req') apm ps pm El) as (P0 & P1 & P2 & P3).
      destruct (min_gt_max (choose N.max mnp mnp') (choose N.min mxp mxp')) eqn:Em.
      + split; [reflexivity|split; [reflexivity|]].
        intros kvs [La _] [Lb _]. unfold valid_obj_local in La, Lb.
        apply andb_true_iff in La. destruct La as [La La3]. apply andb_true_iff in La. destruct La as [La1 La2].
        apply andb_true_iff in Lb. destruct Lb as [Lb Lb3]. apply andb_true_iff in Lb. destruct Lb as [Lb1 Lb2].
        rewrite (min_gt_max_false _ _ (N.of_nat (length kvs))) in Em; [discriminate Em | |].
        * apply choose_max_sem; assumption.
        * apply choose_min_sem; assumption.
      + split; [|split; [|split]].
        * apply forallb_forall. intros [k s] Hin. simpl.
          eapply (entries_frag re_match fmt_ok o DV n mrg Hm props props' ap ap' Fa Fb Aa Ab k). apply P1. exact Hin.
        * exact Am.
        * intros C. discriminate C.
        * intros kvs [La Va] [Lb Vb]. split.
          -- unfold valid_obj_local in *.
             apply andb_true_iff in La. destruct La as [La La3]. apply andb_true_iff in La. destruct La as [La1 La2].
             apply andb_true_iff in Lb. destruct Lb as [Lb Lb3]. apply andb_true_iff in Lb. destruct Lb as [Lb1 Lb2].
             rewrite !andb_true_iff. repeat split.
             ++ unfold union_req. rewrite forallb_app. rewrite La1. simpl.
                apply forallb_forall. intros k Hk. apply filter_In in Hk. destruct Hk as [Hk _].
                rewrite forallb_forall in Lb1. apply Lb1. exact Hk.
             ++ apply choose_max_sem; assumption.
             ++ apply choose_min_sem; assumption.
          -- apply valid_obj_spec. split.
             ++ intros k s x Hin Hx. eapply Esem; eauto.
             ++ intros a Ea k x Hkx. subst apm.
                destruct a as [[|]|]; try discriminate Am.
                { right. apply valid_SBool. }
                left.
                assert (Hk : has_key k kvs = true) by (eapply In_has_key; eauto).
                destruct (has_key_assoc _ _ Hk) as [x0 Hx0].
                assert (Hent : exists r, In (k, r) ps).
                { destruct (Fap eq_refl) as [F|F].
                  - destruct ap as [[[|]|]|]; try discriminate F.
                    pose proof Va as Va'. apply valid_obj_spec in Va'. destruct Va' as [_ Va2].
                    destruct (Va2 _ eq_refl _ _ Hkx) as [Hp|C]; [|rewrite valid_SBool in C; discriminate C].
                    destruct (has_key_assoc _ _ Hp) as [sa Hsa]. apply assoc_In in Hsa.
                    eapply entries_cover_a; eauto.
                  - destruct ap' as [[[|]|]|]; try discriminate F.
                    pose proof Vb as Vb'. apply valid_obj_spec in Vb'. destruct Vb' as [_ Vb2].
                    destruct (Vb2 _ eq_refl _ _ Hkx) as [Hp|C]; [|rewrite valid_SBool in C; discriminate C].
                    destruct (has_key_assoc _ _ Hp) as [sb Hsb]. apply assoc_In in Hsb.
                    eapply entries_cover_b; eauto. }
                destruct Hent as [r Hr]. destruct (P0 _ _ Hr) as [s ->].
                destruct (is_false s) eqn:Fs.
                { exfalso. apply is_false_eq in Fs. subst s. eapply Enofalse; eauto. }
                eapply In_has_key. eapply P2; eauto.
    - (* the loop reported never *)
      split; [reflexivity|split; [reflexivity|]].
      intros kvs [La Va] [Lb Vb].
      destruct (props_loop_never _ _ _ El) as [[k [Hin Hreq]]|[k Hin]].
      + apply mem_ustr_In in Hreq. unfold union_req in Hreq. apply in_app_iff in Hreq.
        unfold valid_obj_local in La, Lb.
        apply andb_true_iff in La. destruct La as [La _]. apply andb_true_iff in La. destruct La as [La1 _].
        apply andb_true_iff in Lb. destruct Lb as [Lb _]. apply andb_true_iff in Lb. destruct Lb as [Lb1 _].
        rewrite forallb_forall in La1, Lb1.
        assert (Hk : has_key k kvs = true).
        { destruct Hreq as [H|H]; [apply La1; exact H | apply filter_In in H; apply Lb1; apply H]. }
        destruct (has_key_assoc _ _ Hk) as [x0 Hx0].
        eapply Enofalse; eauto.
      + eapply entries_no_never; eauto.
  Qed.
End ObjGroup.


Lemma all_object_obj o ty v : all_object ty = true -> valid_type o ty v = true -> exists kvs, v = JObj kvs.
Proof.
  destruct ty as [[|t l]|]; simpl; try discriminate. intros H Hv.
  unfold valid_type in Hv. simpl in Hv.
  assert (Hall : forall t', In t' (t :: l) -> t' = TObject).
  { intros t' Hin. apply andb_true_iff in H. destruct H as [H1 H2]. destruct Hin as [<-|Hin].
    - symmetry. apply itype_eqb_true. exact H1.
    - rewrite forallb_forall in H2. symmetry. apply itype_eqb_true. apply H2. exact Hin. }
  change (existsb (fun t0 => type_ok (int_accepts_integral_float o) t0 v) (t :: l) = true) in Hv.
  apply existsb_exists in Hv. destruct Hv as [t' [Hin Hok]].
  rewrite (Hall _ Hin) in Hok. destruct v; simpl in Hok; try discriminate Hok. eauto.
Qed.

Lemma merge_ty_all_object ta tb t :
  merge_ty ta tb = Some t -> all_object ta = true \/ all_object tb = true -> all_object t = true.
Proof.
  assert (K : forall la lb, all_object (Some la) = true \/ all_object (Some lb) = true ->
              forall x r, filter (fun t0 => mem_ty t0 la && mem_ty t0 lb) all_itypes = x :: r ->
              all_object (Some (x :: r)) = true).
  { intros la lb H x r Ef.
    assert (Hall : forall y, In y (x :: r) -> itype_eqb TObject y = true).
    { intros y Hy. rewrite <- Ef in Hy. apply filter_In in Hy. destruct Hy as [_ Hy].
      apply andb_true_iff in Hy. destruct Hy as [Ha Hb].
      unfold mem_ty in Ha, Hb. apply existsb_exists in Ha. apply existsb_exists in Hb.
      destruct Ha as [ya [Iya Eya]]. destruct Hb as [yb [Iyb Eyb]].
      apply itype_eqb_true in Eya. apply itype_eqb_true in Eyb. subst ya yb.
      destruct H as [H|H].
      - destruct la as [|t0 l0]; [discriminate H|]. simpl in H.
        change (forallb (itype_eqb TObject) (t0 :: l0) = true) in H. rewrite forallb_forall in H. apply H. exact Iya.
      - destruct lb as [|t0 l0]; [discriminate H|]. simpl in H.
        change (forallb (itype_eqb TObject) (t0 :: l0) = true) in H. rewrite forallb_forall in H. apply H. exact Iyb. }
    unfold all_object. apply forallb_forall. exact Hall. }
  destruct ta as [la|], tb as [lb|]; unfold merge_ty; cbv zeta; intros E H.
  - destruct (filter (fun t0 => mem_ty t0 la && mem_ty t0 lb) all_itypes) as [|x r] eqn:Ef; [discriminate E|].
    inversion E; subst. eapply K; eauto.
  - inversion E; subst. destruct H as [H|H]; [exact H | discriminate H].
  - inversion E; subst. destruct H as [H|H]; [discriminate H | exact H].
  - destruct H as [H|H]; discriminate H.
Qed.


Section ObjMain.
  Variable re_match : ustring -> ustring -> bool.
  Variable fmt_ok : ustring -> ustring -> bool.
  Variable o : vopts.
  Variable DV : defs.
  Variable n : nat.
  Variable D : defs.
  Local Notation V := (Valid.validx re_match fmt_ok o DV n).
  Local Notation rsok := (rs_ok re_match fmt_ok o DV n).

  Lemma V_ofrag ty enum cst nv sv items props req ap mnp mxp d t v :
    V (SObj ty None enum cst nv sv ItemsAbsent items None None None false props req ap mnp mxp None
            None None None None d t) v
    = valid_type o ty v && valid_enum enum v && valid_const cst v && valid_num nv v
      && valid_str re_match sv v && valid_obj_local req mnp mxp v
      && match v with JObj kvs => valid_obj V props ap kvs | _ => true end.
  Proof.
    rewrite validx_SObj. cbv zeta. unfold combine_ref, here_v, valid_local, valid_format, valid_arr_local.
    destruct v; simpl; rewrite ?andb_true_r; reflexivity.
  Qed.

  Lemma ofrag_shape ty fmt enum cst nv sv ik items ai mni mxi uq props req ap mnp mxp allo anyo oneo no ref d t :
    ofrag (SObj ty fmt enum cst nv sv ik items ai mni mxi uq props req ap mnp mxp allo anyo oneo no ref d t) = true ->
    fmt = None /\ ik = ItemsAbsent /\ ai = None /\ mni = None /\ mxi = None /\ uq = false
    /\ allo = None /\ anyo = None /\ oneo = None /\ no = None /\ ref = None
    /\ nonum ty = true /\ simple_enum enum = true /\ opt_all simple_json cst = true
    /\ ap_bool ap = true /\ (obj_absent props req ap mnp mxp || all_object ty = true)
    /\ forallb (fun kv => ofrag (snd kv)) props = true.
  Proof.
    intros H. cbn [ofrag] in H. unfold arr_absent in H.
    repeat match goal with
           | Hx : _ && _ = true |- _ => apply andb_true_iff in Hx; destruct Hx
           end.
    destruct fmt; [simpl in *; congruence|].
    destruct ik; try (simpl in *; congruence).
    destruct ai; [simpl in *; congruence|].
    destruct mni; [simpl in *; congruence|].
    destruct mxi; [simpl in *; congruence|].
    destruct uq; [simpl in *; congruence|].
    destruct allo; [simpl in *; congruence|].
    destruct anyo; [simpl in *; congruence|].
    destruct oneo; [simpl in *; congruence|].
    destruct no; [simpl in *; congruence|].
    destruct ref; [simpl in *; congruence|].
    repeat split; assumption.
  Qed.

  Lemma merge_obj_eq f ty enum cst nv sv items props req ap mnp mxp d t
        ty' enum' cst' nv' sv' items' props' req' ap' mnp' mxp' d' t' :
    merge D (S f)
          (SObj ty None enum cst nv sv ItemsAbsent items None None None false props req ap mnp mxp None
                None None None None d t)
          (SObj ty' None enum' cst' nv' sv' ItemsAbsent items' None None None false props' req' ap' mnp' mxp' None
                None None None None d' t')
    = match merge_ty ty ty' with
      | None => MNever
      | Some tym =>
          mbind (merge_nv nv nv') (fun nvm =>
          mbind (merge_sv sv sv') (fun svm =>
          mbind (merge_obj (merge D f) (props, req, ap, mnp, mxp) (props', req', ap', mnp', mxp')) (fun om =>
          mbind (merge_enum enum cst enum' cst') (fun em =>
            let '(pm, rm, apm, mnpm, mxpm) := om in
            MOk (SObj tym None (option_map (filter (value_validate tym None None)) em) None nvm svm
                      ItemsAbsent items' None None None false pm rm apm mnpm mxpm None
                      None None None None None None)))))
      end.
  Proof.
    match goal with
    | |- merge D (S f) ?A ?B = _ => transitivity (merge_so (merge D f) (roughly (S f)) A B); [reflexivity|]
    end.
    unfold merge_so, merge_fmt.
    destruct (merge_ty ty ty'); [|reflexivity].
    destruct (merge_nv nv nv'); cbn [mbind]; try reflexivity.
    destruct (merge_sv sv sv'); cbn [mbind]; try reflexivity.
    assert (Earr : merge_arr (merge D f) (ItemsAbsent, items, @None schema, @None N, @None N, false)
                             (ItemsAbsent, items', @None schema, @None N, @None N, false)
                   = MOk (ItemsAbsent, items', None, None, None, false)) by reflexivity.
    rewrite Earr. cbn [mbind].
    destruct (merge_obj (merge D f) (props, req, ap, mnp, mxp) (props', req', ap', mnp', mxp'))
      as [[[[[pm rm] apm] mnm] mxm]| | |]; cbn [mbind]; try reflexivity.
    destruct (merge_enum enum cst enum' cst') as [[ev|]| | |]; reflexivity.
  Qed.
End ObjMain.


Section ObjThm.
  Variable re_match : ustring -> ustring -> bool.
  Variable fmt_ok : ustring -> ustring -> bool.
  Variable o : vopts.
  Variable DV : defs.
  Variable n : nat.
  Variable D : defs.
  Local Notation V := (Valid.validx re_match fmt_ok o DV n).
  Local Notation rsok := (rs_ok re_match fmt_ok o DV n).

  Lemma merge_bools f bx by_ :
    merge D f (SBool bx) (SBool by_) = (if bx && by_ then MOk (SBool true) else MNever)
    \/ merge D f (SBool bx) (SBool by_) = MUnsupp.
  Proof. destruct f; [right; reflexivity | left; destruct bx, by_; reflexivity]. Qed.

  Lemma enum_filter_sem tym em v :
    simple_enum em = true -> enum_sem em v = true -> valid_type o tym v = true ->
    valid_enum (option_map (filter (value_validate tym None None)) em) v = true.
  Proof.
    intros Sem Hem Tm. destruct em as [ev|]; [|reflexivity]. simpl in *.
    apply existsb_exists in Hem. destruct Hem as [x [Ix Ex]].
    apply existsb_exists. exists x. split; [|exact Ex].
    apply filter_In. split; [exact Ix|].
    unfold value_validate. simpl.
    destruct tym as [l|]; [|reflexivity]. simpl.
    unfold valid_type in Tm. simpl in Tm.
    apply existsb_exists in Tm. destruct Tm as [t1 [I1 O1]].
    apply existsb_exists. exists t1. split; [exact I1|].
    rewrite forallb_forall in Sem.
    eapply simple_check_instance; [apply Sem; exact Ix | exact Ex | exact O1].
  Qed.

  Theorem merge_ofrag_sound : forall f a b,
    ofrag a = true -> ofrag b = true -> rsok (merge D f a b) a b.
  Proof.
    induction f as [|f IH]; intros a b Fa Fb; [exact I|].
    destruct a as [ba|ty fmt enum cst nv sv ik items ai mni mxi uq props req ap mnp mxp allo anyo oneo no ref d t].
    { destruct ba; destruct b as [[|]|ty' fmt' enum' cst' nv' sv' ik' items' ai' mni' mxi' uq' props' req' ap' mnp' mxp' allo' anyo' oneo' no' ref' d' t'];
        try (split; [assumption | intros; assumption]);
        try (intros v H1 H2; rewrite valid_SBool in *; discriminate). }
    destruct b as [[|]|ty' fmt' enum' cst' nv' sv' ik' items' ai' mni' mxi' uq' props' req' ap' mnp' mxp' allo' anyo' oneo' no' ref' d' t'].
    { split; [assumption | intros; assumption]. }
    { intros v H1 H2; rewrite valid_SBool in *; discriminate. }
    apply ofrag_shape in Fa. apply ofrag_shape in Fb.
    destruct Fa as (-> & -> & -> & -> & -> & -> & -> & -> & -> & -> & -> & Nt & Se & Sc & Aa & Ga & Fp).
    destruct Fb as (-> & -> & -> & -> & -> & -> & -> & -> & -> & -> & -> & Nt' & Se' & Sc' & Ab & Gb & Fp').
    rewrite merge_obj_eq. unfold rs_ok.
    pose proof (merge_obj_sound re_match fmt_ok o DV n (merge D f) IH (merge_bools f)
                                props req ap mnp mxp props' req' ap' mnp' mxp' Fp Fp' Aa Ab) as Hobj.
    destruct (merge_ty ty ty') as [tym|] eqn:Et.
    - destruct (merge_nv nv nv') as [nvm| | |] eqn:En; cbn [mbind]; try exact I;
        [|exfalso; eapply merge_nv_not_never; eauto].
      destruct (merge_sv sv sv') as [svm| | |] eqn:Es; cbn [mbind]; try exact I;
        [|exfalso; eapply merge_sv_not_never; eauto].
      destruct (merge_obj (merge D f) (props, req, ap, mnp, mxp) (props', req', ap', mnp', mxp'))
        as [[[[[pm rm] apm] mnm] mxm]| | |]; cbn [mbind]; try exact I.
      + destruct Hobj as (Fpm & Am & Habs & Hsem).
        destruct (merge_enum enum cst enum' cst') as [em| | |] eqn:Ee; cbn [mbind]; try exact I.
        * pose proof (merge_ty_nonum _ _ _ Et Nt Nt') as Ntm.
          pose proof (merge_enum_simple _ _ _ _ _ Ee Se Sc Se' Sc') as Sem.
          split.
          -- cbn [ofrag]. unfold arr_absent. rewrite Ntm, Am, Fpm. cbn [is_none negb andb opt_all].
             assert (Hs : simple_enum (option_map (filter (value_validate tym None None)) em) = true).
             { destruct em as [ev|]; [|reflexivity]. simpl. apply forallb_forall. intros w Hw.
               apply filter_In in Hw. simpl in Sem. rewrite forallb_forall in Sem. apply Sem. apply Hw. }
             rewrite Hs. cbn [andb].
             assert (Hg : obj_absent pm rm apm mnm mxm || all_object tym = true).
             { apply orb_true_iff in Ga. apply orb_true_iff in Gb. apply orb_true_iff.
               destruct Ga as [Ga|Ga].
               - destruct Gb as [Gb|Gb].
                 + left. apply Habs; assumption.
                 + right. eapply merge_ty_all_object; eauto.
               - right. eapply merge_ty_all_object; eauto. }
             rewrite Hg. reflexivity.
          -- intros v. rewrite !V_ofrag. rewrite !andb_true_iff.
             intros [[[[[[Ta Ea] Ca] Na] Sa] La] Oa] [[[[[[Tb Eb] Cb] Nb] Sb] Lb] Ob].
             destruct (merge_ty_sem o ty ty' v Nt Nt' Ta Tb) as [t0 [Et0 [_ Tm]]].
             rewrite Et in Et0. inversion Et0; subst t0.
             pose proof (merge_enum_sem enum cst enum' cst' v Se Sc Se' Sc' Ea Ca Eb Cb) as Hem.
             rewrite Ee in Hem. destruct Hem as [_ Hem].
             assert (Hov : valid_obj_local rm mnm mxm v = true /\
                           match v with JObj kvs => valid_obj V pm apm kvs | _ => true end = true).
             { destruct v as [| | | | | |kvs]; try (split; reflexivity).
               apply (Hsem kvs); split; assumption. }
             destruct Hov as [Lm Om].
             repeat split.
             ++ exact Tm.
             ++ apply enum_filter_sem; assumption.
             ++ destruct (merge_nv_res _ _ _ En) as [->| ->]; assumption.
             ++ destruct (merge_sv_res _ _ _ Es) as [->| ->]; assumption.
             ++ exact Lm.
             ++ exact Om.
        * intros v. rewrite !V_ofrag. rewrite !andb_true_iff.
          intros [[[[[[Ta Ea] Ca] Na] Sa] La] Oa] [[[[[[Tb Eb] Cb] Nb] Sb] Lb] Ob].
          pose proof (merge_enum_sem enum cst enum' cst' v Se Sc Se' Sc' Ea Ca Eb Cb) as Hem.
          rewrite Ee in Hem. exact Hem.
      + destruct Hobj as (Na_ & Nb_ & Hnev).
        intros v. rewrite !V_ofrag. rewrite !andb_true_iff.
        intros [[[[[[Ta Ea] Ca] Na] Sa] La] Oa] [[[[[[Tb Eb] Cb] Nb] Sb] Lb] Ob].
        rewrite Na_ in Ga. simpl in Ga.
        destruct (all_object_obj o ty v Ga Ta) as [kvs ->].
        apply (Hnev kvs); split; assumption.
    - intros v. rewrite !V_ofrag. rewrite !andb_true_iff.
      intros [[[[[[Ta Ea] Ca] Na] Sa] La] Oa] [[[[[[Tb Eb] Cb] Nb] Sb] Lb] Ob].
      destruct (merge_ty_sem o ty ty' v Nt Nt' Ta Tb) as [t0 [Et0 _]].
      rewrite Et in Et0. discriminate Et0.
  Qed.
End ObjThm.

(* ====================================================================== merge_all on the object fragment *)
Section ObjAll.
  Variable re_match : ustring -> ustring -> bool.
  Variable fmt_ok : ustring -> ustring -> bool.
  Variable o : vopts.
  Variable DV : defs.
  Variable n : nat.
  Variable D : defs.
  Variable f : nat.
  Variable v : json.

  Local Notation V := (Valid.validx re_match fmt_ok o DV n).

  Definition oacc_ok (r : mres schema) (P : Prop) : Prop :=
    match r with
    | MOk m => ofrag m = true /\ (P -> V m v = true)
    | MNever => P -> False
    | _ => True
    end.

  Lemma fold_ofrag rest : forall acc P,
    oacc_ok acc P -> Forall (fun s => ofrag s = true) rest ->
    oacc_ok (fold_left (fun a s => mbind a (fun x => merge D f x s)) rest acc)
            (P /\ Forall (fun s => V s v = true) rest).
  Proof.
    induction rest as [|s rest IH]; intros acc P Hacc HF.
    - simpl. destruct acc; unfold oacc_ok in *; try exact I.
      + destruct Hacc as [H1 H2]. split; [exact H1 | intros [HP _]; auto].
      + intros [HP _]. auto.
    - cbn [fold_left]. inversion HF as [|? ? Hs HF']; subst.
      assert (Hstep : oacc_ok (mbind acc (fun x => merge D f x s)) (P /\ V s v = true)).
      { destruct acc as [x| | |]; unfold oacc_ok, mbind in *; try exact I.
        - destruct Hacc as [Fx Hx].
          pose proof (merge_ofrag_sound re_match fmt_ok o DV n D f x s Fx Hs) as H.
          unfold rs_ok in H. destruct (merge D f x s); try exact I.
          + destruct H as [H1 H2]. split; [exact H1 | intros [HP Hv]; apply H2; auto].
          + intros [HP Hv]. eapply H; eauto.
        - intros [HP _]. auto. }
      specialize (IH _ _ Hstep HF').
      destruct (fold_left (fun a s0 => mbind a (fun x => merge D f x s0)) rest
                          (mbind acc (fun x => merge D f x s))); unfold oacc_ok in *; try exact I.
      + destruct IH as [H1 H2]. split; [exact H1|]. intros [HP HA]. inversion HA; subst. apply H2. auto.
      + intros [HP HA]. inversion HA; subst. apply IH. auto.
  Qed.

  Theorem merge_all_ofrag_sound L :
    Forall (fun s => ofrag s = true) L ->
    match merge_all D f L with
    | MOk m => Forall (fun s => V s v = true) L -> V m v = true
    | MNever => Forall (fun s => V s v = true) L -> False
    | _ => True
    end.
  Proof.
    intros HF. destruct L as [|a [|b rest]]; cbn [merge_all]; try exact I.
    - intros H. inversion H; subst. assumption.
    - inversion HF as [|? ? Ha HF1]; subst. inversion HF1 as [|? ? Hb HF2]; subst.
      pose proof (merge_ofrag_sound re_match fmt_ok o DV n D f a b Ha Hb) as H0.
      assert (Hacc : oacc_ok (merge D f a b) (V a v = true /\ V b v = true)).
      { unfold rs_ok in H0. unfold oacc_ok. destruct (merge D f a b); try exact I.
        - destruct H0 as [H1 H2]. split; [exact H1| intros [? ?]; apply H2; auto].
        - intros [? ?]; eapply H0; eauto. }
      pose proof (fold_ofrag rest _ _ Hacc HF2) as H.
      unfold oacc_ok in H.
      destruct (fold_left (fun a0 s => mbind a0 (fun x => merge D f x s)) rest (merge D f a b));
        try exact I.
      + destruct H as [_ H]. intros HA. inversion HA as [|? ? Va HA1]; subst.
        inversion HA1 as [|? ? Vb HA2]; subst. apply H. auto.
      + intros HA. inversion HA as [|? ? Va HA1]; subst.
        inversion HA1 as [|? ? Vb HA2]; subst. apply H. auto.
  Qed.
End ObjAll.

(* non-vacuity of the object theorems: the corpus cases s2 and s3 *)
Definition obj_of (props : list (ustring * schema)) (req : list ustring) (ap : option schema) : schema :=
  SObj (Some [TObject]) None None None numv_none strv_none ItemsAbsent [] None None None false
       props req ap None None None None None None None None None.

Lemma obj_example_ok :
  let a := obj_of [([97%N], ty_only [TString])] [] None in
  let b := obj_of [([98%N], ty_only [TInteger])] [] (Some (SBool false)) in
  ofrag a = true /\ ofrag b = true /\
  exists m, merge [] 4 a b = MOk m /\ ofrag m = true
            /\ Vd [] 0 m (JObj [([98%N], JInt 1)]) = true /\ Vd [] 0 m (JObj [([97%N], JStr [])]) = false.
Proof. cbv zeta. split; [reflexivity|]. split; [reflexivity|]. eexists. vm_compute. repeat split. Qed.

Lemma obj_example_never :
  let a := obj_of [([97%N], ty_only [TString])] [[97%N]] None in
  let b := obj_of [([98%N], ty_only [TInteger])] [] (Some (SBool false)) in
  ofrag a = true /\ ofrag b = true /\ merge [] 4 a b = MNever.
Proof. vm_compute. repeat split. Qed.
