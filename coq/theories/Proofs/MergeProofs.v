(* Proofs/MergeProofs.v — lemmas about Algo/Merge.v (the model of typify's allOf
   merge) and Check/Uninhabited.v. *)
From Coq Require Import String ZArith NArith QArith List Bool Lia Permutation.
From Typify Require Import Base.Json Spec.Schema Spec.Valid IR.TypeIR IR.Serde
     Algo.Merge Check.Uninhabited Proofs.ValidProofs.
Import ListNotations.
Close Scope Q_scope.
Close Scope string_scope.
Open Scope list_scope.
Open Scope nat_scope.

(* ====================================================================== uninhabited *)
Section Uninhabited.
  Variable re_match : ustring -> ustring -> bool.
  Variable native_ok : ustring -> ustring -> bool.
  Variable T : space.

  Local Notation de := (Serde.de re_match native_ok T).

  Lemma find_variant_nil raw i : find_variant raw [] i = None.
  Proof. reflexivity. Qed.

  Lemma de_enum_nil (d : id -> json -> option rval) (df : id -> option rval) tag deny j :
    de_enum T d df tag [] deny j = None.
  Proof.
    destruct tag; simpl.
    - destruct j as [| | | |s|l|kvs]; try reflexivity.
      destruct kvs as [|[k pj] [|]]; reflexivity.
    - destruct j as [| | | |s|l|kvs]; try reflexivity.
      destruct (assoc tag kvs) as [[| | | |s|l|kvs']|]; reflexivity.
    - destruct j as [| | | |s|l|kvs]; try reflexivity.
      destruct (assoc tag kvs) as [[| | | |s|l|kvs']|]; reflexivity.
    - reflexivity.
  Qed.

  Lemma de_named_none (d : id -> json -> option rval) (df : id -> option rval) p ps kvs :
    In p ps -> wire_name p <> None ->
    (forall j, d (p_ty p) j = None) -> missing T d df p = None ->
    de_named T d df ps kvs = None.
  Proof.
    intros Hin Hw Hd Hm. induction ps as [|q r IH]; [destruct Hin|].
    destruct Hin as [->|Hin].
    - simpl. destruct (wire_name p) as [w|]; [|congruence].
      destruct (assoc w kvs) as [j|]; [rewrite Hd|rewrite Hm]; reflexivity.
    - simpl. specialize (IH Hin). rewrite IH.
      destruct (wire_name q) as [w|]; [|reflexivity].
      destruct (match assoc w kvs with Some j => d (p_ty q) j | None => missing T d df q end); reflexivity.
  Qed.

  Lemma de_struct_seq_none (d : id -> json -> option rval) (df : id -> option rval) p ps :
    In p ps ->
    (forall j, d (p_ty p) j = None) -> missing T d df p = None ->
    forall l, de_struct_seq T d df ps l = None.
  Proof.
    intros Hin Hd Hm. induction ps as [|q r IH]; [destruct Hin|].
    destruct Hin as [->|Hin]; intros l.
    - simpl. destruct l as [|j l']; [rewrite Hm|rewrite Hd]; reflexivity.
    - simpl. specialize (IH Hin).
      destruct l as [|j l'].
      + rewrite IH. destruct (missing T d df q); reflexivity.
      + rewrite IH. destruct (d (p_ty q) j); reflexivity.
  Qed.

  Theorem uninhabited_sound : forall f t,
    uninhabited T f t = true -> forall f' v, de f' t v = None.
  Proof.
    induction f as [|f IH]; intros t H; [discriminate H|].
    intros [|f'] v; [reflexivity|].
    simpl in H. simpl.
    destruct (get_det T t) as [d|] eqn:Ed; [|reflexivity].
    destruct d; try discriminate H.
    - (* enum *)
      destruct vs; [|discriminate H]. apply de_enum_nil.
    - (* struct *)
      apply existsb_exists in H. destruct H as [p [Hin Hp]].
      destruct (p_state p) eqn:Es; try discriminate Hp.
      destruct (wire_name p) as [w|] eqn:Ew; [|discriminate Hp].
      apply andb_true_iff in Hp. destruct Hp as [Hno Hu].
      assert (Hd : forall j, de f' (p_ty p) j = None) by (intros j; apply (IH _ Hu)).
      assert (Hm : missing T (de f') (default_val T f') p = None).
      { unfold missing. rewrite Es. unfold is_option in Hno.
        destruct (get_det T (p_ty p)) as [[]|]; try reflexivity. discriminate Hno. }
      unfold de_struct_body.
      destruct v as [| | | |s|l|kvs]; try reflexivity.
      + destruct (flat_props props); [|reflexivity].
        rewrite (de_struct_seq_none _ _ p props Hin Hd Hm). reflexivity.
      + unfold de_struct_obj.
        rewrite (de_named_none _ _ p props kvs Hin); [reflexivity| congruence | exact Hd | exact Hm].
    - (* newtype *)
      destruct c; try discriminate H; rewrite (IH _ H); reflexivity.
    - (* box *)
      apply (IH _ H).
  Qed.
End Uninhabited.

(* ====================================================================== merge: component lemmas *)
Local Arguments all_itypes : simpl never.
Lemma m_ustr_eqb_eq : forall a b, ustr_eqb a b = true <-> a = b.
Proof.
  induction a as [|x a IH]; destruct b as [|y b]; simpl; split; intros H; try reflexivity; try discriminate.
  - apply andb_true_iff in H. destruct H as [H1 H2]. apply N.eqb_eq in H1. apply IH in H2. subst. reflexivity.
  - inversion H; subst. rewrite N.eqb_refl. simpl. apply IH. reflexivity.
Qed.

Lemma itype_eqb_refl t : itype_eqb t t = true.
Proof. destruct t; reflexivity. Qed.

Lemma itype_eqb_true a b : itype_eqb a b = true -> a = b.
Proof. destruct a, b; simpl; intros H; try reflexivity; discriminate H. Qed.


(* without `number`, the instance types are pairwise disjoint *)
Lemma type_ok_disjoint iaf t1 t2 v :
  t1 <> TNumber -> t2 <> TNumber ->
  type_ok iaf t1 v = true -> type_ok iaf t2 v = true -> t1 = t2.
Proof.
  intros N1 N2.
  destruct t1, t2; try reflexivity; try (exfalso; apply N1; reflexivity); try (exfalso; apply N2; reflexivity);
    destruct v; simpl; intros H1 H2; try discriminate H1; try discriminate H2.
Qed.

Lemma nonum_in l t : forallb (fun t => negb (itype_eqb t TNumber)) l = true -> In t l -> t <> TNumber.
Proof.
  intros H Hin E. subst t. rewrite forallb_forall in H. specialize (H _ Hin). discriminate H.
Qed.

Lemma merge_ty_sem o ta tb v :
  nonum ta = true -> nonum tb = true ->
  valid_type o ta v = true -> valid_type o tb v = true ->
  exists t, merge_ty ta tb = Some t /\ nonum t = true /\ valid_type o t v = true.
Proof.
  intros Na Nb Va Vb. destruct ta as [la|], tb as [lb|]; unfold merge_ty; cbv zeta.
  - unfold valid_type, opt_all in Va, Vb.
    apply existsb_exists in Va. destruct Va as [t1 [I1 O1]].
    apply existsb_exists in Vb. destruct Vb as [t2 [I2 O2]].
    assert (E : t1 = t2).
    { eapply type_ok_disjoint; eauto using nonum_in. }
    subst t2.
    assert (Hin : In t1 (filter (fun t => mem_ty t la && mem_ty t lb) all_itypes)).
    { apply filter_In. split; [unfold all_itypes; destruct t1; simpl; tauto|].
      apply andb_true_iff. split; unfold mem_ty; apply existsb_exists; exists t1;
        (split; [assumption | apply itype_eqb_refl]). }
    destruct (filter (fun t => mem_ty t la && mem_ty t lb) all_itypes) as [|x r] eqn:Ef; [destruct Hin|].
    eexists. split; [reflexivity|]. split.
    + unfold nonum, opt_all. rewrite <- Ef. rewrite forallb_forall. intros t Ht. apply filter_In in Ht.
      destruct Ht as [_ Ht]. apply andb_true_iff in Ht. destruct Ht as [Ht _].
      unfold mem_ty in Ht. apply existsb_exists in Ht. destruct Ht as [t' [It' Et']].
      apply itype_eqb_true in Et'. subst t'.
      unfold nonum, opt_all in Na. rewrite forallb_forall in Na. apply Na. exact It'.
    + unfold valid_type, opt_all. rewrite <- Ef. apply existsb_exists. exists t1. split; [rewrite Ef; exact Hin | exact O1].
  - eexists. split; [reflexivity|]. split; assumption.
  - eexists. split; [reflexivity|]. split; assumption.
  - eexists. split; [reflexivity|]. split; reflexivity.
Qed.

(* ---- enum values *)
Lemma Qeq_bool_int x y q : Qeq_bool (x # 1) q = true -> Qeq_bool (y # 1) q = true -> x = y.
Proof.
  intros H1 H2. apply Qeq_bool_iff in H1. apply Qeq_bool_iff in H2.
  assert (E : (x # 1 == y # 1)%Q) by (rewrite H1, H2; reflexivity).
  unfold Qeq in E. simpl in E. lia.
Qed.

Lemma simple_equiv_eqb x y v :
  simple_json x = true -> simple_json y = true ->
  json_equiv x v = true -> json_equiv y v = true -> json_eqb x y = true.
Proof.
  destruct x, y; simpl; intros Sx Sy; try discriminate Sx; try discriminate Sy;
    destruct v; simpl; intros H1 H2; try discriminate H1; try discriminate H2; try reflexivity.
  - destruct b, b0, b1; simpl in *; congruence.
  - apply Z.eqb_eq in H1. apply Z.eqb_eq in H2. subst. apply Z.eqb_refl.
  - rewrite (Qeq_bool_int _ _ _ H1 H2). apply Z.eqb_refl.
  - apply m_ustr_eqb_eq in H1. apply m_ustr_eqb_eq in H2. subst. apply m_ustr_eqb_eq. reflexivity.
Qed.

Lemma simple_check_instance iaf t e v :
  simple_json e = true -> json_equiv e v = true -> type_ok iaf t v = true -> check_instance t e = true.
Proof.
  destruct e; simpl; intros S; try discriminate S; destruct v; simpl; intros H; try discriminate H;
    destruct t; simpl; intros H2; try reflexivity; try discriminate H2.
Qed.

(* what enum + const say together *)
Definition enum_sem (e : option (list json)) (v : json) : bool :=
  opt_all (existsb (fun x => json_equiv x v)) e.

Lemma enum_of_sem ae ac aa v :
  enum_of ae ac = MOk aa ->
  valid_enum ae v = true -> valid_const ac v = true -> enum_sem aa v = true.
Proof.
  destruct ae as [l|], ac as [c|]; simpl; intros E; inversion E; subst; simpl; intros H1 H2.
  - exact H1.
  - unfold valid_const in H2. simpl in H2. rewrite H2. reflexivity.
  - reflexivity.
Qed.


Lemma enum_of_simple ae ac aa :
  enum_of ae ac = MOk aa -> simple_enum ae = true -> opt_all simple_json ac = true -> simple_enum aa = true.
Proof.
  destruct ae as [l|], ac as [c|]; simpl; intros E; inversion E; subst; simpl; intros H1 H2; auto.
  rewrite H2. reflexivity.
Qed.

Lemma merge_enum_sem ae ac be bc v :
  simple_enum ae = true -> opt_all simple_json ac = true ->
  simple_enum be = true -> opt_all simple_json bc = true ->
  valid_enum ae v = true -> valid_const ac v = true ->
  valid_enum be v = true -> valid_const bc v = true ->
  match merge_enum ae ac be bc with
  | MOk em => simple_enum em = true /\ enum_sem em v = true
  | MNever => False
  | _ => True
  end.
Proof.
  intros Sa Sac Sb Sbc Va Vac Vb Vbc. unfold merge_enum.
  destruct (enum_of ae ac) as [aa| | |] eqn:Ea; simpl; try exact I.
  - destruct (enum_of be bc) as [bb| | |] eqn:Eb; simpl; try exact I.
    + pose proof (enum_of_sem _ _ _ v Ea Va Vac) as Ha.
      pose proof (enum_of_sem _ _ _ v Eb Vb Vbc) as Hb.
      pose proof (enum_of_simple _ _ _ Ea Sa Sac) as Hsa.
      pose proof (enum_of_simple _ _ _ Eb Sb Sbc) as Hsb.
      destruct aa as [la|], bb as [lb|]; simpl; try (split; assumption); try (split; reflexivity).
      simpl in Ha, Hb, Hsa, Hsb.
        apply existsb_exists in Ha. destruct Ha as [x [Ix Ex]].
        apply existsb_exists in Hb. destruct Hb as [y [Iy Ey]].
        rewrite forallb_forall in Hsa, Hsb.
        assert (Hin : In x (filter (fun v0 => existsb (json_eqb v0) lb) la)).
        { apply filter_In. split; [exact Ix|]. apply existsb_exists. exists y. split; [exact Iy|].
          eapply simple_equiv_eqb; eauto. }
        destruct (filter (fun v0 => existsb (json_eqb v0) lb) la) as [|z r] eqn:Ef; [destruct Hin|].
        split.
        * unfold simple_enum, opt_all. rewrite <- Ef. apply forallb_forall. intros w Hw. apply filter_In in Hw. apply Hsa. apply Hw.
        * unfold enum_sem, opt_all. rewrite <- Ef. apply existsb_exists. exists x. split; [rewrite Ef; exact Hin | exact Ex].
    + destruct be, bc; simpl in Eb; discriminate Eb.
  - destruct ae, ac; simpl in Ea; discriminate Ea.
Qed.

Lemma merge_nv_res a b r : merge_nv a b = MOk r -> r = a \/ r = b.
Proof.
  unfold merge_nv. destruct (numv_is_none a); [intros E; inversion E; auto|].
  destruct (numv_is_none b); [intros E; inversion E; auto|].
  destruct (numv_eqb a b); intros E; inversion E; auto.
Qed.

Lemma merge_sv_res a b r : merge_sv a b = MOk r -> r = a \/ r = b.
Proof.
  unfold merge_sv. destruct (strv_is_none a); [intros E; inversion E; auto|].
  destruct (strv_is_none b); [intros E; inversion E; auto|].
  destruct (strv_eqb a b); intros E; inversion E; auto.
Qed.

Lemma merge_nv_not_never a b : merge_nv a b <> MNever.
Proof. unfold merge_nv. destruct (numv_is_none a), (numv_is_none b), (numv_eqb a b); discriminate. Qed.
Lemma merge_sv_not_never a b : merge_sv a b <> MNever.
Proof. unfold merge_sv. destruct (strv_is_none a), (strv_is_none b), (strv_eqb a b); discriminate. Qed.

(* ====================================================================== the scalar fragment *)
Section Scalar.
  Variable re_match : ustring -> ustring -> bool.
  Variable fmt_ok : ustring -> ustring -> bool.
  Variable o : vopts.
  Variable DV : defs.     (* definitions / fuel of the validity side: irrelevant without `$ref` *)
  Variable n : nat.
  Variable D : defs.      (* definitions of the merge *)

  Local Notation V := (Valid.validx re_match fmt_ok o DV n).

  Lemma V_scalar ty enum cst nv sv items d t v :
    V (SObj ty None enum cst nv sv ItemsAbsent items None None None false [] [] None None None
            None None None None None d t) v
    = valid_type o ty v && valid_enum enum v && valid_const cst v && valid_num nv v
      && valid_str re_match sv v.
  Proof.
    rewrite validx_SObj. cbv zeta. unfold combine_ref, here_v, valid_local, valid_format,
      valid_arr_local, valid_obj_local.
    destruct v; simpl; rewrite ?andb_true_r; reflexivity.
  Qed.

  Lemma merge_scalar_eq f ty enum cst nv sv items ty' enum' cst' nv' sv' items' d t d' t' :
    merge D (S f)
          (SObj ty None enum cst nv sv ItemsAbsent items None None None false [] [] None None None
                None None None None None d t)
          (SObj ty' None enum' cst' nv' sv' ItemsAbsent items' None None None false [] [] None None None
                None None None None None d' t')
    = match merge_ty ty ty' with
      | None => MNever
      | Some tym =>
          mbind (merge_nv nv nv') (fun nvm =>
          mbind (merge_sv sv sv') (fun svm =>
          mbind (merge_enum enum cst enum' cst') (fun em =>
            MOk (SObj tym None (option_map (filter (value_validate tym None None)) em) None nvm svm
                      ItemsAbsent items' None None None false [] [] None None None
                      None None None None None None None))))
      end.
  Proof.
    simpl. destruct (merge_ty ty ty'); [|reflexivity].
    destruct (merge_nv nv nv'); simpl; try reflexivity.
    destruct (merge_sv sv sv'); simpl; try reflexivity.
    destruct (merge_enum enum cst enum' cst') as [[ev|]| | |]; reflexivity.
  Qed.

  Lemma merge_ty_nonum ta tb t :
    merge_ty ta tb = Some t -> nonum ta = true -> nonum tb = true -> nonum t = true.
  Proof.
    destruct ta as [la|], tb as [lb|]; unfold merge_ty; cbv zeta; intros E Na Nb; try (inversion E; subst; assumption).
    - destruct (filter (fun t0 => mem_ty t0 la && mem_ty t0 lb) all_itypes) as [|x r] eqn:Ef; [discriminate E|].
      inversion E; subst. unfold nonum, opt_all. rewrite <- Ef. apply forallb_forall. intros y Hy.
      apply filter_In in Hy. destruct Hy as [_ Hy]. apply andb_true_iff in Hy. destruct Hy as [Hy _].
      unfold mem_ty in Hy. apply existsb_exists in Hy. destruct Hy as [t' [It' Et']].
      apply itype_eqb_true in Et'. subst t'.
      unfold nonum, opt_all in Na. rewrite forallb_forall in Na. apply Na. exact It'.
  Qed.

  Lemma merge_enum_simple ae ac be bc em :
    merge_enum ae ac be bc = MOk em ->
    simple_enum ae = true -> opt_all simple_json ac = true ->
    simple_enum be = true -> opt_all simple_json bc = true -> simple_enum em = true.
  Proof.
    unfold merge_enum. intros E Sa Sac Sb Sbc.
    destruct (enum_of ae ac) as [aa| | |] eqn:Ea; simpl in E; try discriminate E.
    destruct (enum_of be bc) as [bb| | |] eqn:Eb; simpl in E; try discriminate E.
    pose proof (enum_of_simple _ _ _ Ea Sa Sac) as Hsa.
    pose proof (enum_of_simple _ _ _ Eb Sb Sbc) as Hsb.
    destruct aa as [la|], bb as [lb|]; try (inversion E; subst; assumption).
    - destruct (filter (fun v0 => existsb (json_eqb v0) lb) la) as [|z r] eqn:Ef; [discriminate E|].
      inversion E; subst. unfold simple_enum, opt_all. rewrite <- Ef. apply forallb_forall. intros w Hw.
      apply filter_In in Hw. simpl in Hsa. rewrite forallb_forall in Hsa. apply Hsa. apply Hw.
  Qed.

  Lemma sfrag_shape ty fmt enum cst nv sv ik items ai mni mxi uq props req ap mnp mxp allo anyo oneo no ref d t :
    sfrag (SObj ty fmt enum cst nv sv ik items ai mni mxi uq props req ap mnp mxp allo anyo oneo no ref d t) = true ->
    fmt = None /\ ik = ItemsAbsent /\ ai = None /\ mni = None /\ mxi = None /\ uq = false
    /\ props = [] /\ req = [] /\ ap = None /\ mnp = None /\ mxp = None
    /\ allo = None /\ anyo = None /\ oneo = None /\ no = None /\ ref = None
    /\ nonum ty = true /\ simple_enum enum = true /\ opt_all simple_json cst = true.
  Proof.
    unfold sfrag, arr_absent, obj_absent. intros H.
    repeat match goal with
           | Hx : _ && _ = true |- _ => apply andb_true_iff in Hx; destruct Hx
           end.
    destruct fmt; [simpl in *; congruence|].
    destruct ik; try (simpl in *; congruence).
    destruct ai; [simpl in *; congruence|].
    destruct mni; [simpl in *; congruence|].
    destruct mxi; [simpl in *; congruence|].
    destruct uq; [simpl in *; congruence|].
    destruct props; [|simpl in *; congruence].
    destruct req; [|simpl in *; congruence].
    destruct ap; [simpl in *; congruence|].
    destruct mnp; [simpl in *; congruence|].
    destruct mxp; [simpl in *; congruence|].
    destruct allo; [simpl in *; congruence|].
    destruct anyo; [simpl in *; congruence|].
    destruct oneo; [simpl in *; congruence|].
    destruct no; [simpl in *; congruence|].
    destruct ref; [simpl in *; congruence|].
    repeat split; assumption.
  Qed.

  Definition scalar_ok (r : mres schema) (a b : schema) (v : json) : Prop :=
    match r with
    | MOk m => sfrag m = true /\ (V a v = true -> V b v = true -> V m v = true)
    | MNever => V a v = true -> V b v = true -> False
    | _ => True
    end.

  Theorem merge_scalar_sound f a b v :
    sfrag a = true -> sfrag b = true -> scalar_ok (merge D (S f) a b) a b v.
  Proof.
    intros Fa Fb.
    destruct a as [ba|ty fmt enum cst nv sv ik items ai mni mxi uq props req ap mnp mxp allo anyo oneo no ref d t].
    { destruct ba; destruct b as [[|]|ty' fmt' enum' cst' nv' sv' ik' items' ai' mni' mxi' uq' props' req' ap' mnp' mxp' allo' anyo' oneo' no' ref' d' t'];
        try (split; [assumption | intros; assumption]);
        try (intros H1 H2; rewrite valid_SBool in *; discriminate). }
    destruct b as [[|]|ty' fmt' enum' cst' nv' sv' ik' items' ai' mni' mxi' uq' props' req' ap' mnp' mxp' allo' anyo' oneo' no' ref' d' t'].
    { split; [assumption | intros; assumption]. }
    { intros H1 H2; rewrite valid_SBool in *; discriminate. }
    apply sfrag_shape in Fa. apply sfrag_shape in Fb.
    destruct Fa as (-> & -> & -> & -> & -> & -> & -> & -> & -> & -> & -> & -> & -> & -> & -> & -> & Nt & Se & Sc).
    destruct Fb as (-> & -> & -> & -> & -> & -> & -> & -> & -> & -> & -> & -> & -> & -> & -> & -> & Nt' & Se' & Sc').
    rewrite merge_scalar_eq. unfold scalar_ok.
    destruct (merge_ty ty ty') as [tym|] eqn:Et.
    - destruct (merge_nv nv nv') as [nvm| | |] eqn:En; simpl; try exact I;
        [|exfalso; eapply merge_nv_not_never; eauto].
      destruct (merge_sv sv sv') as [svm| | |] eqn:Es; simpl; try exact I;
        [|exfalso; eapply merge_sv_not_never; eauto].
      destruct (merge_enum enum cst enum' cst') as [em| | |] eqn:Ee; simpl; try exact I.
      + pose proof (merge_ty_nonum _ _ _ Et Nt Nt') as Ntm.
        pose proof (merge_enum_simple _ _ _ _ _ Ee Se Sc Se' Sc') as Sem.
        split.
        * unfold sfrag, arr_absent, obj_absent. rewrite Ntm. simpl. destruct em as [ev|]; simpl; [|reflexivity].
          rewrite !andb_true_r. apply forallb_forall. intros w Hw. apply filter_In in Hw.
          simpl in Sem. rewrite forallb_forall in Sem. apply Sem. apply Hw.
        * rewrite !V_scalar. rewrite !andb_true_iff.
          intros [[[[Ta Ea] Ca] Na] Sa] [[[[Tb Eb] Cb] Nb] Sb].
          destruct (merge_ty_sem o ty ty' v Nt Nt' Ta Tb) as [t0 [Et0 [_ Tm]]].
          rewrite Et in Et0. inversion Et0; subst t0.
          pose proof (merge_enum_sem enum cst enum' cst' v Se Sc Se' Sc' Ea Ca Eb Cb) as Hem.
          rewrite Ee in Hem. destruct Hem as [_ Hem].
          repeat split.
          -- exact Tm.
          -- destruct em as [ev|]; [|reflexivity]. simpl in *.
             apply existsb_exists in Hem. destruct Hem as [x [Ix Ex]].
             apply existsb_exists. exists x. split; [|exact Ex].
             apply filter_In. split; [exact Ix|].
             unfold value_validate. simpl.
             destruct tym as [l|]; [|reflexivity]. simpl.
             unfold valid_type in Tm. simpl in Tm.
             apply existsb_exists in Tm. destruct Tm as [t1 [I1 O1]].
             apply existsb_exists. exists t1. split; [exact I1|].
             rewrite forallb_forall in Sem.
             eapply simple_check_instance; [apply Sem; exact Ix | exact Ex | exact O1].
          -- destruct (merge_nv_res _ _ _ En) as [->| ->]; assumption.
          -- destruct (merge_sv_res _ _ _ Es) as [->| ->]; assumption.
      + rewrite !V_scalar. rewrite !andb_true_iff.
        intros [[[[Ta Ea] Ca] Na] Sa] [[[[Tb Eb] Cb] Nb] Sb].
        pose proof (merge_enum_sem enum cst enum' cst' v Se Sc Se' Sc' Ea Ca Eb Cb) as Hem.
        rewrite Ee in Hem. exact Hem.
    - rewrite !V_scalar. rewrite !andb_true_iff.
      intros [[[[Ta Ea] Ca] Na] Sa] [[[[Tb Eb] Cb] Nb] Sb].
      destruct (merge_ty_sem o ty ty' v Nt Nt' Ta Tb) as [t0 [Et0 _]].
      rewrite Et in Et0. discriminate Et0.
  Qed.
End Scalar.

(* ====================================================================== merge_all on the scalar fragment *)
Section ScalarAll.
  Variable re_match : ustring -> ustring -> bool.
  Variable fmt_ok : ustring -> ustring -> bool.
  Variable o : vopts.
  Variable DV : defs.
  Variable n : nat.
  Variable D : defs.
  Variable f : nat.
  Variable v : json.

  Local Notation V := (Valid.validx re_match fmt_ok o DV n).

  Definition acc_ok (r : mres schema) (P : Prop) : Prop :=
    match r with
    | MOk m => sfrag m = true /\ (P -> V m v = true)
    | MNever => P -> False
    | _ => True
    end.

  Lemma fold_scalar rest : forall acc P,
    acc_ok acc P -> Forall (fun s => sfrag s = true) rest ->
    acc_ok (fold_left (fun a s => mbind a (fun x => merge D (S f) x s)) rest acc)
           (P /\ Forall (fun s => V s v = true) rest).
  Proof.
    induction rest as [|s rest IH]; intros acc P Hacc HF.
    - simpl. destruct acc; simpl in *; try exact I.
      + destruct Hacc as [H1 H2]. split; [exact H1 | intros [HP _]; auto].
      + intros [HP _]. auto.
    - cbn [fold_left]. inversion HF as [|? ? Hs HF']; subst.
      assert (Hstep : acc_ok (mbind acc (fun x => merge D (S f) x s)) (P /\ V s v = true)).
      { destruct acc as [x| | |]; unfold acc_ok, mbind in *; try exact I.
        - destruct Hacc as [Fx Hx].
          pose proof (merge_scalar_sound re_match fmt_ok o DV n D f x s v Fx Hs) as H.
          unfold scalar_ok in H. destruct (merge D (S f) x s); try exact I.
          + destruct H as [H1 H2]. split; [exact H1 | intros [HP Hv]; auto].
          + intros [HP Hv]. auto.
        - intros [HP _]. auto. }
      specialize (IH _ _ Hstep HF').
      destruct (fold_left (fun a s0 => mbind a (fun x => merge D (S f) x s0)) rest
                          (mbind acc (fun x => merge D (S f) x s))); unfold acc_ok in *; try exact I.
      + destruct IH as [H1 H2]. split; [exact H1|]. intros [HP HA]. inversion HA; subst. apply H2. auto.
      + intros [HP HA]. inversion HA; subst. apply IH. auto.
  Qed.

  Theorem merge_all_scalar_sound L :
    Forall (fun s => sfrag s = true) L ->
    match merge_all D (S f) L with
    | MOk m => Forall (fun s => V s v = true) L -> V m v = true
    | MNever => Forall (fun s => V s v = true) L -> False
    | _ => True
    end.
  Proof.
    intros HF. destruct L as [|a [|b rest]]; cbn [merge_all]; try exact I.
    - intros H. inversion H; subst. assumption.
    - inversion HF as [|? ? Ha HF1]; subst. inversion HF1 as [|? ? Hb HF2]; subst.
      pose proof (merge_scalar_sound re_match fmt_ok o DV n D f a b v Ha Hb) as H0.
      assert (Hacc : acc_ok (merge D (S f) a b) (V a v = true /\ V b v = true)).
      { unfold scalar_ok in H0. unfold acc_ok. destruct (merge D (S f) a b); try exact I.
        - destruct H0 as [H1 H2]. split; [exact H1| intros [? ?]; auto].
        - intros [? ?]; auto. }
      pose proof (fold_scalar rest _ _ Hacc HF2) as H.
      unfold acc_ok in H.
      destruct (fold_left (fun a0 s => mbind a0 (fun x => merge D (S f) x s)) rest (merge D (S f) a b));
        try exact I.
      + destruct H as [_ H]. intros HA. inversion HA as [|? ? Va HA1]; subst.
        inversion HA1 as [|? ? Vb HA2]; subst. apply H. auto.
      + intros HA. inversion HA as [|? ? Va HA1]; subst.
        inversion HA1 as [|? ? Vb HA2]; subst. apply H. auto.
  Qed.
End ScalarAll.

(* ====================================================================== refutation witnesses
   (each replayed on the real `verif::merge_all` and the compiled pipeline: corpus/C09/f*.json) *)
Open Scope string_scope.
Definition nore : ustring -> ustring -> bool := fun _ _ => false.
Definition Vd (D : defs) (n : nat) := Valid.valid nore nore D n.

Definition ty_only (l : list itype) : schema :=
  SObj (Some l) None None None numv_none strv_none ItemsAbsent [] None None None false
       [] [] None None None None None None None None None None.
Definition arr_of (it : schema) (mn mx : option N) : schema :=
  SObj (Some [TArray]) None None None numv_none strv_none ItemsSingle [it] None mn mx false
       [] [] None None None None None None None None None None.
Definition str_enum (l : list json) : schema :=
  SObj (Some [TString]) None (Some l) None numv_none strv_none ItemsAbsent [] None None None false
       [] [] None None None None None None None None None None.

Definition w_A := ulit "A".
Definition w_defs : defs := [(w_A, arr_of (ty_only [TString]) None None)].
Definition w_fixed := arr_of (ty_only [TString]) (Some 2%N) (Some 2%N).
Definition w_narrow := arr_of (str_enum [JStr (ulit "a"); JStr (ulit "b")]) None None.
Definition w_abc := JArr [JStr (ulit "a"); JStr (ulit "b"); JStr (ulit "a")].
Close Scope string_scope.

(* F1: integer and number are treated as disjoint *)
Lemma never_refuted_int_number :
  exists a b v, merge [] 5 a b = MNever /\ Vd [] 0 a v = true /\ Vd [] 0 b v = true.
Proof. exists (ty_only [TNumber]), (ty_only [TInteger]), (JInt 5). vm_compute. repeat split. Qed.

(* F5: conflicting `items` give never although the empty array satisfies both *)
Lemma never_refuted_items :
  exists a b v, merge [] 5 a b = MNever /\ Vd [] 0 a v = true /\ Vd [] 0 b v = true.
Proof.
  exists (arr_of (ty_only [TString]) None None), (arr_of (ty_only [TInteger]) None None), (JArr []).
  vm_compute. repeat split.
Qed.

(* keywords of a group are merged without looking at `type`: never for instances of another type *)
Lemma never_refuted_untyped :
  exists a b v, merge [] 5 a b = MNever /\ Vd [] 0 a v = true /\ Vd [] 0 b v = true.
Proof.
  exists (SObj None None None None numv_none strv_none ItemsAbsent [] None None (Some 1%N) false
               [] [] None None None None None None None None None None),
         (SObj None None None None numv_none strv_none ItemsAbsent [] None (Some 2%N) None false
               [] [] None None None None None None None None None None),
         (JStr []).
  vm_compute. repeat split.
Qed.

(* F2 (fixed by /repo 884aa7b: roughly_array compares every keyword): the former witness.  Merging the
   reference with the fixed-length member no longer collapses to the bare reference, and the two orders of
   the three-member list merge to schemas that agree on the former distinguishing instance. *)
Lemma f2_witness_keeps_bounds :
  exists m, merge w_defs 5 (SRef w_A) w_fixed = MOk m /\ Vd w_defs 3 m w_abc = false.
Proof. eexists. vm_compute. repeat split. Qed.

Lemma f2_witness_orders_agree :
  exists m m', Permutation [SRef w_A; w_fixed; w_narrow] ([w_fixed; w_narrow] ++ [SRef w_A])
               /\ merge_all w_defs 8 [SRef w_A; w_fixed; w_narrow] = MOk m
               /\ merge_all w_defs 8 ([w_fixed; w_narrow] ++ [SRef w_A]) = MOk m'
               /\ Vd w_defs 3 m w_abc = false /\ Vd w_defs 3 m' w_abc = false
               /\ Vd w_defs 3 m (JArr [JStr (ulit "a"); JStr (ulit "b")]) = true
               /\ Vd w_defs 3 m' (JArr [JStr (ulit "a"); JStr (ulit "b")]) = true.
Proof.
  eexists. eexists. split; [apply Permutation_cons_append|]. vm_compute. repeat split.
Qed.

(* non-vacuity of the scalar theorems *)
Lemma scalar_example_ok :
  exists m, merge [] 3 (ty_only [TString; TNull])
                  (SObj None None (Some [JStr [97%N]; JNull; JInt 3]) None numv_none strv_none ItemsAbsent []
                        None None None false [] [] None None None None None None None None None None) = MOk m
            /\ sfrag m = true /\ Vd [] 0 m (JStr [97%N]) = true /\ Vd [] 0 m (JInt 3) = false.
Proof. eexists. vm_compute. repeat split. Qed.

Lemma scalar_example_never :
  merge [] 3 (ty_only [TString]) (ty_only [TObject]) = MNever
  /\ sfrag (ty_only [TString]) = true /\ sfrag (ty_only [TObject]) = true.
Proof. vm_compute. repeat split. Qed.
