(* Proofs/ConvertExactProofs.v -- C05 on the converter fragment: the proven
   transfer validator Check/Exact.v answers `true` on the type space the
   converter model produces, for every document of the fragment without a
   nullable string enum ([in_frag_exact]); with ExactProofs.exact_sound:
   every instance violating an enforced-kind constraint is rejected.
   The proof goes through the validator-independent specification
   ConvertShapeProofs.shape. *)
From Coq Require Import String ZArith NArith QArith List Bool Lia Permutation.
From Typify Require Import Base.Json Spec.Schema Spec.Valid IR.TypeIR IR.Serde Check.Covers Check.Exact.
From Typify Require Import Proofs.SerdeProofs Proofs.ExactProofs.
From Typify Require Algo.Heck Algo.Sanitize.
From Typify Require Import Algo.Convert Proofs.ConvertProofs Proofs.ConvertShapeProofs.
From Typify Require Proofs.ConvertIntProofs.
Import ListNotations.
Close Scope Q_scope.
Close Scope string_scope.
Open Scope list_scope.
Open Scope N_scope.

(* ------------------------------------------------------------------ small facts *)
Lemma valid_type_split l nl tt v :
  split_type l = Some (nl, tt) -> type_ok false tt v = true -> valid_type serde_ints (Some l) v = true.
Proof.
  intros Hs Hv. unfold valid_type, opt_all. cbn [int_accepts_integral_float serde_ints].
  destruct (split_type_cases l nl tt Hs) as [[_ ->]|(_ & _ & [->| ->])]; cbn [existsb]; rewrite Hv;
    [reflexivity|reflexivity|apply orb_true_r].
Qed.

Lemma valid_type_null l tt : split_type l = Some (true, tt) -> valid_type serde_ints (Some l) JNull = true.
Proof.
  intros Hs. unfold valid_type, opt_all.
  destruct (split_type_cases l true tt Hs) as [[H _]|(_ & _ & [->| ->])]; [discriminate| |].
  - cbn [existsb]. destruct tt; reflexivity.
  - reflexivity.
Qed.

Lemma find_wire_x k l p :
  NoDup (wire_names l) -> In p l -> wire_name p = Some k -> Exact.find_wire k l = Some p.
Proof.
  induction l as [|q l IH]; intros Hnd Hin Hw; [destruct Hin|].
  cbn [Exact.find_wire]. rewrite wire_names_cons in Hnd.
  destruct Hin as [->|Hin].
  - rewrite Hw, ustr_eqb_refl. reflexivity.
  - destruct (wire_name q) as [w'|] eqn:Hq.
    + inversion Hnd as [|? ? Hni Hnd']; subst.
      destruct (ustr_eqb k w') eqn:E.
      * apply ustr_eqb_eq in E. subst. exfalso. apply Hni. eapply wire_names_In; eassumption.
      * apply IH; assumption.
    + apply IH; assumption.
Qed.

Lemma mem_pair_x_index D r : forall i0 i, ref_index D r i0 = Some i -> mem_pair_x (pairs_from D i0) r i = true.
Proof.
  induction D as [|[k s] D IH]; intros i0 i H; cbn [ref_index] in H; [discriminate|].
  cbn [pairs_from]. unfold mem_pair_x. cbn [existsb fst snd].
  destruct (ustr_eqb r k) eqn:E.
  - injection H as <-. rewrite N.eqb_refl. reflexivity.
  - cbn [andb orb]. apply (IH _ _ H).
Qed.

Lemma in_combine_fst {X Y} (l : list X) (l' : list Y) a b : In (a, b) (combine l l') -> In a l.
Proof. apply in_combine_l. Qed.

Lemma len_plain_arity mni mxi : len_plain mni mxi = true -> arity_of mni mxi = None.
Proof.
  unfold len_plain, arity_of. destruct mni as [a|], mxi as [b|]; try reflexivity.
  intro H. apply negb_true_iff in H. rewrite H. reflexivity.
Qed.

Lemma ref_index_assoc : forall (l : defs) r i0 i,
  ref_index l r i0 = Some i ->
  exists j s, nth_error l j = Some (r, s) /\ i = i0 + N.of_nat j /\ assoc r l = Some s.
Proof.
  induction l as [|[k s] l IH]; intros r i0 i H; cbn [ref_index] in H; [discriminate|].
  cbn [assoc]. destruct (ustr_eqb r k) eqn:E.
  - injection H as <-. apply ustr_eqb_eq in E. subst k. exists 0%nat, s. split; [reflexivity|]. split; [lia|reflexivity].
  - destruct (IH r (i0 + 1) i H) as (j & s' & Hn & Hi & Ha). exists (S j), s'. split; [exact Hn|]. split; [lia|exact Ha].
Qed.

Lemma reaches_option_more T : forall n i, reaches_option T n i = false -> reaches_option T (S n) i = false.
Proof.
  induction n as [|n IH]; intros i H; [discriminate H|].
  cbn [reaches_option] in H. cbn [reaches_option].
  destruct (get_det T i) as [[]|]; try exact H; try reflexivity.
  - destruct c; try reflexivity; apply IH; exact H.
  - apply IH. exact H.
Qed.

Lemma reaches_option_newtype T k t n d i :
  get_det T t = Some (DNewtype n d i CNone) -> reaches_option T (S k) t = reaches_option T k i.
Proof. intros H. cbn [reaches_option]. rewrite H. reflexivity. Qed.

Lemma reaches_option_le T n m i : (n <= m)%nat -> reaches_option T n i = false -> reaches_option T m i = false.
Proof. intros Hle H. induction Hle as [|m Hle IH]; [exact H | apply reaches_option_more; exact IH]. Qed.

(* ------------------------------------------------------------------ a oneOf with a common tag against an
   internally / adjacently tagged enum whose variants are named by the tag constants *)
Lemma tagged_union_x tg bs names (vs : list variant) :
  (forall b, In b bs -> exists x, assoc tg (sch_props b) = Some (xsimple_sch [JStr x]) /\
                                  mem_ustr tg (sch_required b) = true /\ null_only b = false) ->
  opt_all_map (fun b => match assoc tg (sch_props b) with Some ts => cstr ts | None => None end) bs = Some names ->
  map v_raw vs = names ->
  no_null bs && ctag_ok bs tg && tags_x tg bs vs = true.
Proof.
  intros Hbs Hnames Hraw.
  assert (Hbt : forall b, In b bs -> exists x, branch_tag_of tg b = Some x /\ In x names /\ mem_ustr tg (sch_required b) = true).
  { clear Hraw. revert names Hnames. induction bs as [|b0 r IH]; intros names Hn b Hb; [destruct Hb|].
    cbn [opt_all_map] in Hn.
    destruct (Hbs b0 (or_introl eq_refl)) as (x0 & Ha0 & Hr0 & _). rewrite Ha0 in Hn. cbn [cstr xsimple_sch] in Hn.
    destruct (opt_all_map _ r) as [rest|] eqn:Hrest; [|discriminate]. injection Hn as <-.
    destruct Hb as [<-|Hb].
    - exists x0. split; [unfold branch_tag_of; rewrite Ha0; reflexivity|]. split; [left; reflexivity|exact Hr0].
    - destruct (IH (fun b' Hb' => Hbs b' (or_intror Hb')) rest eq_refl b Hb) as (x & H1 & H2 & H3).
      exists x. split; [exact H1|]. split; [right; exact H2|exact H3]. }
  assert (Hvb : forall x, In x names -> exists b, In b bs /\ branch_tag_of tg b = Some x).
  { clear Hraw Hbt. revert names Hnames. induction bs as [|b0 r IH]; intros names Hn x Hx.
    - cbn in Hn. injection Hn as <-. destruct Hx.
    - cbn [opt_all_map] in Hn.
      destruct (Hbs b0 (or_introl eq_refl)) as (x0 & Ha0 & _). rewrite Ha0 in Hn. cbn [cstr xsimple_sch] in Hn.
      destruct (opt_all_map _ r) as [rest|] eqn:Hrest; [|discriminate]. injection Hn as <-.
      destruct Hx as [<-|Hx].
      + exists b0. split; [left; reflexivity|]. unfold branch_tag_of. rewrite Ha0. reflexivity.
      + destruct (IH (fun b' Hb' => Hbs b' (or_intror Hb')) rest eq_refl x Hx) as (b & Hb & Ht).
        exists b. split; [right; exact Hb|exact Ht]. }
  assert (H1 : no_null bs = true).
  { unfold no_null. apply negb_true_iff. apply Bool.not_true_is_false. intro Hex.
    apply existsb_exists in Hex. destruct Hex as (b & Hb & Hnull).
    destruct (Hbs b Hb) as (x & _ & _ & Hn). congruence. }
  assert (H2 : ctag_ok bs tg = true).
  { unfold ctag_ok, common_tag. destruct bs as [|b0 r]; [reflexivity|].
    destruct (filter _ (map fst (sch_props b0))) as [|tg' [|]] eqn:Hfl; try reflexivity.
    assert (Hin : In tg (filter (fun tg0 => forallb (fun b => is_some (branch_tag_of tg0 b) && mem_ustr tg0 (sch_required b)) (b0 :: r))
                                (map fst (sch_props b0)))).
    { apply filter_In. split.
      - destruct (Hbs b0 (or_introl eq_refl)) as (x0 & Ha0 & _). apply assoc_In in Ha0.
        apply in_map_iff. exists (tg, xsimple_sch [JStr x0]). split; [reflexivity|exact Ha0].
      - apply forallb_forall. intros b Hb. destruct (Hbt b Hb) as (x & Hx & _ & Hr). rewrite Hx, Hr. reflexivity. }
    rewrite Hfl in Hin. destruct Hin as [<-|[]]. apply ustr_eqb_refl. }
  rewrite H1, H2. cbn [andb]. unfold tags_x. apply andb_true_iff. split.
  - apply forallb_forall. intros b Hb. unfold branch_tag. destruct (Hbt b Hb) as (x & Hx & Hin & Hr). rewrite Hx, Hr.
    unfold raws. rewrite Hraw. rewrite (proj2 (mem_ustr_In x names) Hin). reflexivity.
  - apply forallb_forall. intros vr Hvr. apply existsb_exists.
    destruct (Hvb (v_raw vr)) as (b & Hb & Ht); [rewrite <- Hraw; apply in_map; exact Hvr|].
    exists b. split; [exact Hb|]. unfold branch_tag. rewrite Ht. apply ustr_eqb_refl.
Qed.

Section ExactMain.
  Variable cls : Heck.CharClasses.
  Variable re : ustring -> ustring -> bool.
  Variable D : defs.
  Variable T : space.

  Local Notation keys := (map fst D).
  Local Notation A := (pairs_of D).
  Local Notation ex := (exact re D T A).
  (* what ConvertShapeProofs.convert_shape establishes for every definition (needed to see
     that the type of a "$ref" to a non-nullable definition does not reach an Option) *)
  Hypothesis Htop : forall j d sch, nth_error D j = Some (d, sch) -> topshape cls D T sch (N.of_nat j + 1).
  Hypothesis Hfrag : forall kv, In kv D -> frag cls keys (snd kv) = true.

  Section Unfold.
    Variable ty : option (list itype).
    Variable enum : option (list json).
    Variable cst : option json.
    Variable sv : strv.
    Variable ik : items_kind.
    Variable items : list schema.
    Variable mni mxi : option N.
    Variable props : list (ustring * schema).
    Variable req : list ustring.
    Variable ap : option schema.
    Variable no : option schema.

    Local Notation GP := (go_plain re D T ex ty enum cst sv ik items mni mxi props req ap no).

    Lemma gp_leaf ft t d :
      get_det T t = Some d ->
      match d with
      | DOption _ | DBox _ => False
      | DNewtype _ _ _ c => match c with CString _ _ _ => True | _ => False end
      | _ => True
      end ->
      GP false false (S ft) t = leaf_x re D T ex ty enum cst sv ik items mni mxi props req ap no false false d.
    Proof.
      intros Hd Hl. cbn [go_plain]. rewrite Hd. destruct d; try contradiction; try reflexivity.
      destruct c; try contradiction. reflexivity.
    Qed.

    Lemma gp_option ft t i :
      get_det T t = Some (DOption i) ->
      GP false false (S ft) t =
      valid_type serde_ints ty JNull && (valid_enum enum JNull && valid_const cst JNull)
      && deny_ok no JNull && GP false false ft i.
    Proof. intros Hd. cbn [go_plain]. rewrite Hd. reflexivity. Qed.

    Lemma gp_newtype ft t n dv i :
      get_det T t = Some (DNewtype n dv i CNone) -> GP false false (S ft) t = GP false false ft i.
    Proof. intros Hd. cbn [go_plain]. rewrite Hd. reflexivity. Qed.
  End Unfold.

  Lemma refx_here r ft t : mem_pair_x A r t = true -> ref_x T A r ft t = true.
  Proof. intro H. destruct ft; cbn [ref_x]; rewrite H; reflexivity. Qed.

  Lemma refx_newtype r ft t n dv i :
    get_det T t = Some (DNewtype n dv i CNone) -> ref_x T A r ft i = true -> ref_x T A r (S ft) t = true.
  Proof. intros Hd Hi. cbn [ref_x]. rewrite Hd, Hi. destruct (mem_pair_x A r t); reflexivity. Qed.

  Definition Es (s : schema) (ft : nat) (t : id) : bool :=
    match s with
    | SBool _ => true
    | SObj ty fmt enum cst nv sv ik items ai mni mxi uq props req ap mnp mxp allo anyo oneo no ref dflt title =>
        match ref with
        | Some r => ref_x T A r ft t
        | None =>
            match anyo, oneo with
            | None, None => go_plain re D T ex ty enum cst sv ik items mni mxi props req ap no false false ft t
            | Some bs, None | None, Some bs => union_x T ex bs ft t
            | Some _, Some _ => true
            end
        end
    end.

  Lemma exact_frag_Es s t : frag cls keys s = true -> ex s t = Es s FT t.
  Proof.
    destruct s as [b|ty fmt enum cst nv sv ik items ai mni mxi uq props req ap mnp mxp allo anyo oneo no ref dflt title];
      [discriminate|].
    intro Hf. apply frag_obj_inv in Hf. destruct Hf as (nl & k & _ & _ & -> & _ & _).
    cbn [exact exact_obj Es]. destruct ref; [reflexivity|]. destruct anyo, oneo; reflexivity.
  Qed.

  (* a type of non-nullable shape is not an Option *)
  Lemma shape_not_option s t :
    frag cls keys s = true -> shape cls D T s t -> nullable D NFUEL s = false ->
    is_option_det (get_det T t) = false.
  Proof.
    destruct s as [b|ty fmt enum cst nv sv ik items ai mni mxi uq props req ap mnp mxp allo anyo oneo no ref dflt title];
      [discriminate|].
    intros Hf Hs Hn. cbn [shape] in Hs.
    pose proof Hf as Hfi. apply frag_obj_inv in Hfi. destruct Hfi as (nl0 & k0 & Hcl0 & -> & -> & Hu0 & ->).
    destruct anyo as [abs|].
    { (* a union written with "anyOf": [nullable] answers "maybe" *)
      exfalso. unfold union_spec in Hu0.
      destruct k0; try (destruct Hu0 as [_ Hx]; discriminate Hx);
        destruct Hu0 as [_ [(bs & _ & Hx)|(bs & -> & _ & -> & -> & ->)]]; try discriminate Hx;
        unfold NFUEL in Hn; cbn [nullable] in Hn; discriminate Hn. }
    cbn [union_of] in Hs.
    destruct (classify _ _ _ _ _ _ _ _ _ _ _ _ _ _ _ _ _ _ _ _ _ _ _ _) as [[nl k]|] eqn:Hcl; [|contradiction].
    pose proof Hcl as Hcases. apply classify_cases in Hcases.
    destruct Hcases as [(l & tt & -> & -> & Hsp & Hk)|(-> & -> & _ & _ & _ & _ & _ & -> & _ & _ & _ & _ & _ & Hrk)].
    - destruct nl.
      + exfalso. cbn [nullable] in Hn.
        destruct (split_type_cases l true tt Hsp) as [[H _]|(_ & _ & [->| ->])]; [discriminate| |].
        * cbn [existsb itype_eqb] in Hn. destruct tt; discriminate Hn.
        * discriminate Hn.
      + pose proof Hk as Hinv. apply kind_of_type_inv in Hinv. destruct Hinv as (_ & _ & _ & _ & _ & _ & _ & Hinv).
        destruct k; try contradiction; cbn [kshape] in Hs.
        * unfold has in Hs. rewrite Hs. reflexivity.
        * unfold has in Hs. rewrite Hs. reflexivity.
        * unfold has in Hs. rewrite Hs. reflexivity.
        * unfold has in Hs. rewrite Hs. reflexivity.
        * destruct Hs as (n & sid & Hs & _). unfold has in Hs. rewrite Hs. reflexivity.
        * unfold has in Hs. rewrite Hs. reflexivity.
        * destruct Hs as (n & ids & _ & Hs). unfold has in Hs. rewrite Hs. reflexivity.
        * destruct Hs as (n & ps & Hs & _). unfold has in Hs. rewrite Hs. reflexivity.
        * destruct Hs as (kid & vid & Hs & _). unfold has in Hs. rewrite Hs. reflexivity.
        * destruct Hs as (ts & Hs & _). unfold has in Hs. rewrite Hs. reflexivity.
        * destruct Hs as (i & Hs & _). unfold has in Hs. rewrite Hs. destruct c; reflexivity.
        * destruct Hs as (i & Hs & _). unfold has in Hs. rewrite Hs. destruct c; reflexivity.
    - destruct Hrk as [(r & -> & ->)|[(-> & ->)|(bs & -> & -> & _)]]; cbn [kshape] in Hs.
      + destruct Hs as (_ & d & Hd & Hnm). unfold has in Hd. rewrite Hd.
        destruct d; try reflexivity. exfalso. apply Hnm. reflexivity.
      + unfold has in Hs. rewrite Hs. reflexivity.
      + (* a union: [nullable] answers "maybe" *)
        exfalso. unfold NFUEL in Hn. cbn [nullable] in Hn. discriminate Hn.
  Qed.

  (* ... and does not reach an Option through Box / newtype layers either (a "$ref" to a
     non-nullable definition is that definition's type, or an alias newtype around it):
     a required member of such a type cannot be absent (IR/Serde.v [missing]) *)
  Lemma shape_no_reach : forall fuel s t,
    frag cls keys s = true -> shape cls D T s t -> nullable D fuel s = false ->
    reaches_option T (S (2 * fuel)) t = false.
  Proof.
    induction fuel as [|fuel IH]; intros s t;
      (destruct s as [b|ty fmt enum cst nv sv ik items ai mni mxi uq props req ap mnp mxp allo anyo oneo no ref dflt title];
        [discriminate|]);
      intros Hf Hs Hn; cbn [shape] in Hs;
      pose proof Hf as Hfi; apply frag_obj_inv in Hfi; destruct Hfi as (nl0 & k0 & Hcl0 & -> & -> & Hu0 & ->);
      (destruct anyo as [abs|];
       [ exfalso; unfold union_spec in Hu0;
         destruct k0; try (destruct Hu0 as [_ Hx]; discriminate Hx);
           destruct Hu0 as [_ [(bs & _ & Hx)|(bs & -> & _ & -> & -> & ->)]]; try discriminate Hx;
           cbn [nullable] in Hn; discriminate Hn
       | cbn [union_of] in Hs ]);
      (destruct (classify _ _ _ _ _ _ _ _ _ _ _ _ _ _ _ _ _ _ _ _ _ _ _ _) as [[nl k]|] eqn:Hcl; [|contradiction]);
      pose proof Hcl as Hcases; apply classify_cases in Hcases;
      (destruct Hcases as [(l & tt & -> & -> & Hsp & Hk)|(-> & -> & _ & _ & _ & _ & _ & -> & _ & _ & _ & _ & _ & Hrk)]).
    1,3: (destruct nl;
      [ exfalso; cbn [nullable] in Hn;
        destruct (split_type_cases l true tt Hsp) as [[H _]|(_ & _ & [->| ->])];
        [discriminate| cbn [existsb itype_eqb] in Hn; destruct tt; discriminate Hn | discriminate Hn]
      | pose proof Hk as Hinv; apply kind_of_type_inv in Hinv;
        destruct Hinv as (_ & _ & _ & _ & _ & _ & _ & Hinv);
        destruct k; try contradiction; cbn [kshape] in Hs; cbn [reaches_option];
        try (unfold has in Hs; rewrite Hs; reflexivity);
        try (destruct Hs as (? & ? & Hs & _); unfold has in Hs; rewrite Hs; reflexivity);
        try (destruct Hs as (? & ? & _ & Hs); unfold has in Hs; rewrite Hs; reflexivity);
        try (destruct Hs as (? & Hs & _); unfold has in Hs; rewrite Hs; try reflexivity;
             match goal with c : _ |- _ => destruct c; reflexivity end) ]).
    - (* fuel 0, "$ref" or no type: nullable answers true for a "$ref" *)
      destruct Hrk as [(r & -> & ->)|[(-> & ->)|(bs & -> & -> & _)]]; cbn [kshape] in Hs.
      + cbn [nullable] in Hn. discriminate Hn.
      + cbn [reaches_option]. unfold has in Hs. rewrite Hs. reflexivity.
      + exfalso. cbn [nullable] in Hn. discriminate Hn.
    - destruct Hrk as [(r & -> & ->)|[(-> & ->)|(bs & -> & -> & _)]]; cbn [kshape] in Hs.
      3: { exfalso. cbn [nullable] in Hn. discriminate Hn. }
      + destruct Hs as (Hri & _). cbn [nullable] in Hn.
        unfold ref_id in Hri. destruct (ref_index_assoc D r 1 t Hri) as (j & sr & Hnth & Hi & Ha).
        unfold resolve_ref in Hn. rewrite Ha in Hn.
        assert (Hts : topshape cls D T sr t).
        { replace t with (N.of_nat j + 1) by lia. eapply Htop. exact Hnth. }
        assert (Hfs : frag cls keys sr = true) by (apply (Hfrag (r, sr)); eapply nth_error_In; exact Hnth).
        replace (S (2 * S fuel)) with (S (S (S (2 * fuel)))) by lia.
        destruct Hts as [[Hsh _]|(n & i & Hd & Hsh)].
        * apply reaches_option_more, reaches_option_more. exact (IH sr t Hfs Hsh Hn).
        * unfold has in Hd. rewrite (reaches_option_newtype T _ _ _ _ _ Hd).
          apply reaches_option_more. exact (IH sr i Hfs Hsh Hn).
      + cbn [reaches_option]. unfold has in Hs. rewrite Hs. reflexivity.
  Qed.

  Definition E (s : schema) : Prop :=
    frag cls keys s = true -> no_nullable_enum s = true ->
    forall t, shape cls D T s t -> forall ft, Es s (S (S ft)) t = true.

  Lemma E_exact s t : E s -> frag cls keys s = true -> no_nullable_enum s = true ->
    shape cls D T s t -> ex s t = true.
  Proof. intros HE Hf Hn Hs. rewrite (exact_frag_Es s t Hf). unfold FT. apply HE; assumption. Qed.

  Lemma struct_x_ok ty (props : list (ustring * schema)) req ap ps deny :
    valid_type serde_ints ty (JObj []) = true ->
    NoDup (map fst props) -> NoDup (wire_names ps) ->
    forallb (fun r => has_key r props) req = true ->
    ap_simple ap = Some deny ->
    Forall (fun kv => E (snd kv)) props ->
    forallb (fun kv => frag cls keys (snd kv)) props = true ->
    forallb (fun kv => no_nullable_enum (snd kv)) props = true ->
    AllP (fun kv => exists p, In p ps /\ member_sh cls T (shape cls D T) req kv p) props ->
    (forall p, In p ps -> exists kv, In kv props /\ wire_name p = Some (fst kv)) ->
    struct_x D T ex ty props req ap ps deny = true.
  Proof.
    intros Hty Hndk Hndw Hreq Hap HE Hfr Hne HM Hback.
    rewrite AllP_In in HM. rewrite Forall_forall in HE.
    rewrite forallb_forall in Hfr, Hne, Hreq.
    unfold struct_x, ty_rep. cbn [forallb]. rewrite Hty. rewrite (nodup_ustr_NoDup _ Hndw). cbn [andb].
    assert (H1 : forallb (fun k => match Exact.find_wire k ps with
                                   | Some p => match p_state p with PRequired => true | _ => false end
                                               && negb (reaches_option T RFUEL (p_ty p))
                                   | None => false end) (req_enf D props req) = true).
    { apply forallb_forall. intros k Hk. unfold req_enf in Hk. apply filter_In in Hk. destruct Hk as [Hkr Hnn].
      pose proof (Hreq k Hkr) as Hhk. apply has_key_true in Hhk. destruct Hhk as (s' & Has).
      rewrite Has in Hnn. apply negb_true_iff in Hnn.
      pose proof (assoc_In _ _ _ Has) as Hin.
      destruct (HM (k, s') Hin) as (p & Hp & Hw & _ & Hcase). cbn [fst snd] in *.
      rewrite (find_wire_x k ps p Hndw Hp Hw).
      assert (Hkreq : mem_ustr k req = true) by (apply mem_ustr_In; exact Hkr).
      destruct Hcase as [(_ & Hst & Hsh)|(Hf & _)]; [|congruence].
      rewrite Hst. cbn [andb]. apply negb_true_iff.
      apply (reaches_option_le T (S (2 * NFUEL)) RFUEL); [unfold NFUEL, RFUEL; lia|].
      exact (shape_no_reach NFUEL s' (p_ty p) (Hfr _ Hin) Hsh Hnn). }
    rewrite H1. cbn [andb].
    assert (Hflat : flat_props ps = []).
    { unfold flat_props. apply filter_none. intros p Hp. destruct (Hback p Hp) as (kv & _ & Hw).
      unfold wire_name in Hw. destruct (p_rename p); [reflexivity|reflexivity|discriminate]. }
    assert (Hdecl : forallb (fun w => has_key w props) (wire_names ps) = true).
    { apply forallb_forall. intros w Hw.
      assert (Hex : exists p, In p ps /\ wire_name p = Some w).
      { clear - Hw. induction ps as [|q l IH]; [destruct Hw|]. rewrite wire_names_cons in Hw.
        destruct (wire_name q) as [w'|] eqn:Hq.
        - destruct Hw as [<-|Hw]; [exists q; split; [left; reflexivity|exact Hq]|].
          destruct (IH Hw) as (p & Hp & Hpw). exists p. split; [right; exact Hp|exact Hpw].
        - destruct (IH Hw) as (p & Hp & Hpw). exists p. split; [right; exact Hp|exact Hpw]. }
      destruct Hex as (p & Hp & Hpw). destruct (Hback p Hp) as ([k s'] & Hkv & Hw'). cbn [fst] in Hw'.
      rewrite Hpw in Hw'. injection Hw' as ->. apply has_key_true. apply (In_assoc k props s'). exact Hkv. }
    assert (H2 : (negb (is_closed ap)
                  || (deny && match flat_props ps with [] => true | _ => false end
                      && forallb (fun w => has_key w props) (wire_names ps))) = true).
    { rewrite Hflat, Hdecl. destruct ap as [[[|]|]|]; cbn in Hap; try discriminate; injection Hap as <-; reflexivity. }
    rewrite H2. cbn [andb].
    assert (H3 : forallb (fun kv => match Exact.find_wire (fst kv) ps with
                                    | Some p => ex (snd kv) (p_ty p)
                                                || match p_state p, get_det T (p_ty p) with
                                                   | POptional, Some (DOption t') => ex (snd kv) t'
                                                   | _, _ => false end
                                    | None => false end) props = true).
    { apply forallb_forall. intros [k s'] Hin. cbn [fst snd].
      destruct (HM (k, s') Hin) as (p & Hp & Hw & _ & Hcase). cbn [fst snd] in *.
      rewrite (find_wire_x k ps p Hndw Hp Hw).
      pose proof (HE _ Hin) as HEs. pose proof (Hfr _ Hin) as Hfs. pose proof (Hne _ Hin) as Hns. cbn [snd] in *.
      destruct Hcase as [(_ & _ & Hsh)|(_ & Hst & [(Hsh & _)|(t' & Ht' & Hsh & _)])].
      - rewrite (E_exact s' _ HEs Hfs Hns Hsh). reflexivity.
      - rewrite (E_exact s' _ HEs Hfs Hns Hsh). reflexivity.
      - rewrite Hst. unfold has in Ht'. rewrite Ht'. rewrite (E_exact s' _ HEs Hfs Hns Hsh). apply orb_true_r. }
    rewrite H3. cbn [andb].
    destruct ap as [[[|]|]|]; cbn in Hap; try discriminate; reflexivity.
  Qed.

  Lemma conv_E : forall s, E s.
  Proof.
    apply schema_ind_u.
    - intros b Hf. discriminate Hf.
    - intros ty fmt enum cst nv sv ik items ai mni mxi uq props req ap mnp mxp allo oneo no ref dflt title
             IHitems IHprops IHap IHone0.
      assert (IHone : OForall (Forall E) oneo) by (exact (proj2 (arms_props E oneo IHone0))).
      intros Hf Hne t Hs ft.
      pose proof Hf as Hfi. apply frag_obj_inv0 in Hfi. destruct Hfi as (nl & k & Hcl & -> & -> & Hone & ->).
      pose proof Hcl as Hcases. apply classify_cases in Hcases.
      cbn [frag] in Hf. rewrite Hcl in Hf. change (frag_kind cls D k items props req ap oneo = true) in Hf.
      cbn [no_nullable_enum union_of] in Hne. rewrite Hcl in Hne.
      cbn [shape union_of] in Hs. rewrite Hcl in Hs.
      destruct Hcases as [(l & tt & -> & -> & Hsp & Hkt)
                         |(-> & -> & -> & -> & -> & -> & -> & -> & -> & -> & -> & -> & -> & Hrk)].
      + (* typed node *)
        pose proof Hkt as Hinv. apply kind_of_type_inv in Hinv.
        destruct Hinv as (_ & Hsv & Hlen & Henum & Hikk & Hobj & Hfmt & Hinv).
        assert (Honone : oneo = None) by (destruct k; try exact Hone; contradiction).
        subst oneo. cbn [Es].
        assert (Hvt : forall v, type_ok false tt v = true -> valid_type serde_ints (Some l) v = true)
          by (intros v; apply valid_type_split with (nl := nl); exact Hsp).
        (* reduce to the non-null part *)
        assert (Hred : forall t0,
          kshape cls D T (shape cls D T) k items props req ap None t0 ->
          (forall d, get_det T t0 = Some d ->
             match d with
             | DOption _ | DBox _ => False
             | DNewtype _ _ _ c => match c with CString _ _ _ => True | _ => False end
             | _ => True
             end /\
             leaf_x re D T ex (Some l) enum None sv ik items mni mxi props req ap None false false d = true) ->
          forall ft0, go_plain re D T ex (Some l) enum None sv ik items mni mxi props req ap None
                               false false (S ft0) t0 = true).
        { intros t0 Hk0 Hl ft0.
          destruct (get_det T t0) as [d|] eqn:Hd.
          - destruct (Hl d eq_refl) as [Hly Hlx]. rewrite (gp_leaf _ _ _ _ _ _ _ _ _ _ _ _ _ _ d Hd Hly). exact Hlx.
          - exfalso. clear - Hd Hk0. destruct k; cbn [kshape] in Hk0; unfold has in Hk0;
              repeat match goal with
                     | H : exists _, _ |- _ => destruct H as (? & H)
                     | H : _ /\ _ |- _ => destruct H as [H ?]
                     end; try contradiction; congruence. }
        assert (Hleaf : forall t0, kshape cls D T (shape cls D T) k items props req ap None t0 ->
                  (nl = true -> match k with KEnum _ => False | _ => True end) ->
                  forall d, get_det T t0 = Some d ->
                  match d with
             | DOption _ | DBox _ => False
             | DNewtype _ _ _ c => match c with CString _ _ _ => True | _ => False end
             | _ => True
             end /\
                  leaf_x re D T ex (Some l) enum None sv ik items mni mxi props req ap None false false d = true).
        { intros t0 Hk0 Hnle d Hd.
          destruct k as [| | | |mx mn pat|r|raws|deny| | |c|c|r| |tg|]; try contradiction; cbn [kshape] in Hk0;
            cbn beta iota in Hsv, Hlen, Henum, Hikk, Hobj.
          - unfold has in Hk0. rewrite Hk0 in Hd. injection Hd as <-. split; [exact I|]. subst tt enum sv.
            cbn [leaf_x]. unfold common, ty_rep. cbn [forallb]. rewrite (Hvt (JBool true) eq_refl). reflexivity.
          - unfold has in Hk0. rewrite Hk0 in Hd. injection Hd as <-. split; [exact I|]. subst tt enum sv.
            cbn [leaf_x]. unfold common, ty_rep. cbn [forallb]. rewrite (Hvt (JStr []) eq_refl). reflexivity.
          - unfold has in Hk0. rewrite Hk0 in Hd. injection Hd as <-. split; [exact I|]. subst tt enum sv.
            cbn [leaf_x]. unfold common, ty_rep. cbn [forallb]. rewrite (Hvt JNull eq_refl). reflexivity.
          - unfold has in Hk0. rewrite Hk0 in Hd. injection Hd as <-. split; [exact I|]. subst tt enum sv.
            cbn [leaf_x]. unfold common, ty_rep. cbn [forallb].
            rewrite (Hvt (JInt 0%Z) eq_refl), (Hvt (JFlt 0%Q) eq_refl). reflexivity.
          - (* KStrC *)
            destruct Hk0 as (n & sid & Hk0 & _). unfold has in Hk0. rewrite Hk0 in Hd. injection Hd as <-.
            split; [exact I|]. subst tt enum. destruct Hsv as [-> _].
            cbn [leaf_x s_max_length s_min_length s_pattern]. unfold common, ty_rep. cbn [forallb].
            rewrite (Hvt (JStr []) eq_refl).
            assert (H1 : opt_imp_N mx mx = true) by (destruct mx; cbn; [apply N.eqb_refl|reflexivity]).
            assert (H2 : opt_imp_N mn mn = true) by (destruct mn; cbn; [apply N.eqb_refl|reflexivity]).
            assert (H3 : opt_imp_ustr pat pat = true) by (destruct pat; cbn; [apply ustr_eqb_refl|reflexivity]).
            rewrite H1, H2, H3. reflexivity.
          - unfold has in Hk0. rewrite Hk0 in Hd. injection Hd as <-. split; [exact I|]. destruct Hinv as [-> _].
            subst enum sv.
            cbn [leaf_x]. unfold common, ty_rep. cbn [forallb]. rewrite (Hvt (JInt 0%Z) eq_refl). reflexivity.
          - (* KEnum *)
            destruct Hk0 as (n & ids & Hv & Hk0). unfold has in Hk0. rewrite Hk0 in Hd. injection Hd as <-.
            split; [exact I|]. destruct Hinv as [-> (es & -> & Hjs)]. subst sv.
            cbn [leaf_x]. unfold ty_rep. cbn [forallb]. rewrite (Hvt (JStr []) eq_refl).
            assert (Hall : all_simple (mk_variants raws ids) = true).
            { unfold all_simple, mk_variants. apply forallb_forall. intros v Hvin.
              apply in_map_iff in Hvin. destruct Hvin as (pp & <- & _). reflexivity. }
            rewrite Hall. cbn [andb deny_of is_none orb].
            apply forallb_forall. intros v Hvin. unfold mk_variants in Hvin.
            apply in_map_iff in Hvin. destruct Hvin as ([a b] & <- & Hab). cbn [v_raw fst].
            apply in_combine_l in Hab.
            rewrite (jstrs_map _ _ Hjs). unfold valid_enum, valid_const, opt_all.
            assert (Hex : existsb (fun e => json_equiv e (JStr a)) (map JStr raws) = true).
            { apply existsb_exists. exists (JStr a). split; [apply in_map; exact Hab|].
              cbn [json_equiv]. apply ustr_eqb_refl. }
            rewrite Hex. reflexivity.
          - (* KStruct *)
            destruct Hk0 as (n & ps & Hk0 & Hndw & Hndn & HM & Hback).
            unfold has in Hk0. rewrite Hk0 in Hd. injection Hd as <-. split; [exact I|]. destruct Hinv as [-> Hap].
            destruct Hikk as [-> ->]. subst enum sv.
            cbn [frag_kind] in Hf. apply andb_true_iff in Hf. destruct Hf as [Hf Hfp].
            apply andb_true_iff in Hf. destruct Hf as [Hf _].
            apply andb_true_iff in Hf. destruct Hf as [Hf _]. apply andb_true_iff in Hf. destruct Hf as [Hks Hreq].
            cbn [leaf_x]. unfold common. cbn [is_none deny_of orb andb no_items].
            apply struct_x_ok; try assumption.
            + apply Hvt. reflexivity.
            + apply keys_sorted_NoDup. exact Hks.
            + destruct nl; exact Hne.
          - (* KMap *)
            destruct Hk0 as (kid & vid & Hk0 & Hkid & Hval).
            unfold has in Hk0. rewrite Hk0 in Hd. injection Hd as <-. split; [exact I|].
            destruct Hinv as (-> & -> & -> & Hncl). subst enum sv.
            assert (Hcl0 : is_closed ap = false) by (destruct ap as [[[|]|]|]; try reflexivity; contradiction).
            cbn [leaf_x]. unfold common, ty_rep, no_obj_claims. cbn [forallb req_enf filter is_none deny_of orb andb].
            rewrite (Hvt (JObj []) eq_refl), Hcl0. cbn [andb negb].
            destruct ap as [[b|aty afmt aenum acst anv asv aik aitems aai amni amxi auq aprops areq aap amnp amxp aallo aanyo aoneo ano aref adflt atitle]|];
              [reflexivity| |reflexivity].
            cbn [frag_kind] in Hf. cbn [OForall] in IHap.
            apply (E_exact _ _ IHap Hf); [destruct nl; exact Hne|exact Hval].
          - (* KTuple *)
            destruct Hk0 as (ts & Hk0 & Hall).
            unfold has in Hk0. rewrite Hk0 in Hd. injection Hd as <-. split; [exact I|].
            destruct Hinv as (-> & ->). subst enum sv.
            apply tuple_len_inv in Hlen. destruct Hlen as [-> ->].
            cbn [frag_kind] in Hf.
            assert (Hne' : forallb no_nullable_enum items = true) by (destruct nl; exact Hne).
            assert (Hxl : forall its ts0, Forall E its -> forallb (frag cls keys) its = true ->
                       forallb no_nullable_enum its = true ->
                       AllP2 (shape cls D T) its ts0 -> length ts0 = length its /\ ex_list ex its ts0 = true).
            { induction its as [|it its IHl]; intros [|tq ts0] HC Hfr Hn0 HA; cbn [AllP2] in HA; try contradiction.
              - split; reflexivity.
              - destruct HA as [HA1 HA2]. cbn [forallb] in Hfr, Hn0.
                apply andb_true_iff in Hfr. destruct Hfr as [Hf1 Hf2]. apply andb_true_iff in Hn0. destruct Hn0 as [Hn1 Hn2].
                destruct (IHl ts0 (Forall_inv_tail HC) Hf2 Hn2 HA2) as [Hl Hc]. split; [cbn [length]; f_equal; exact Hl|].
                cbn [ex_list]. rewrite (E_exact _ _ (Forall_inv HC) Hf1 Hn1 HA1), Hc. reflexivity. }
            destruct (Hxl items ts IHitems Hf Hne' Hall) as [Hl Hc].
            cbn [leaf_x]. unfold common, ty_rep. cbn [forallb is_none deny_of orb andb].
            rewrite (Hvt (JArr []) eq_refl). unfold arity_of. rewrite N.eqb_refl, Hl, N.eqb_refl, Hc. reflexivity.
          - (* KVec *)
            destruct Hk0 as (i & Hk0 & Hit).
            unfold has in Hk0. rewrite Hk0 in Hd. injection Hd as <-.
            destruct Hinv as (-> & -> & it & ->). subst enum sv.
            cbn [frag_kind forallb] in Hf. rewrite andb_true_r in Hf.
            assert (Hel : ex it i = true).
            { apply (E_exact _ _ (Forall_inv IHitems) Hf); [|exact Hit].
              destruct nl; cbn [forallb] in Hne; rewrite andb_true_r in Hne; exact Hne. }
            apply seq_kind_inv in Hlen.
            destruct c as [| |n]; (split; [exact I|]); cbn [seq_det leaf_x]; unfold common, ty_rep;
              cbn [forallb is_none deny_of orb andb elem_x]; rewrite (Hvt (JArr []) eq_refl).
            + rewrite (len_plain_arity _ _ Hlen). exact Hel.
            + rewrite (len_plain_arity _ _ Hlen). exact Hel.
            + destruct Hlen as [-> ->]. unfold arity_of. rewrite N.eqb_refl. cbn [andb]. rewrite N.eqb_refl. exact Hel.
          - (* KVecAny *)
            destruct Hk0 as (i & Hk0 & _).
            unfold has in Hk0. rewrite Hk0 in Hd. injection Hd as <-.
            destruct Hinv as (-> & -> & ->). subst enum sv.
            apply seq_kind_inv in Hlen.
            destruct c as [| |n]; (split; [exact I|]); cbn [seq_det leaf_x]; unfold common, ty_rep;
              cbn [forallb is_none deny_of orb andb elem_x]; rewrite (Hvt (JArr []) eq_refl).
            + rewrite (len_plain_arity _ _ Hlen). reflexivity.
            + rewrite (len_plain_arity _ _ Hlen). reflexivity.
            + destruct Hlen as [-> ->]. unfold arity_of. rewrite N.eqb_refl. cbn [andb]. rewrite N.eqb_refl. reflexivity. }
        destruct nl.
        * destruct Hs as (i & Ht & Hki). unfold has in Ht.
          rewrite (gp_option _ _ _ _ _ _ _ _ _ _ _ _ _ _ _ Ht).
          rewrite (valid_type_null l tt Hsp).
          assert (Hen : enum = None).
          { destruct k; try exact Henum. discriminate Hne. }
          rewrite Hen. cbn [valid_enum valid_const opt_all deny_ok deny_of andb].
          rewrite Hen in Hleaf, Hred.
          apply (Hred i Hki). intros d Hd. apply (Hleaf i Hki); [|exact Hd].
          intros _. destruct k; try exact I. discriminate Hne.
        * apply (Hred t Hs). intros d Hd. apply (Hleaf t Hs); [discriminate|exact Hd].
      + (* reference / anything / tagged oneOf *)
        destruct Hrk as [(r & -> & ->)|[(-> & ->)|(bs & -> & -> & [(tg & -> & Hok)|(-> & Hos)])]]; cbn [kshape] in Hs; cbn [Es].
        4: { (* Option of the non-null arm: no common tag, the arm exact at the inner type *)
          destruct bs as [|a [|b [|]]]; try contradiction. destruct Hs as (i & Hd & Hsh).
          unfold has in Hd. cbn [union_x]. rewrite Hd. cbn [wrapper_of forallb]. rewrite andb_true_r.
          cbn [frag_kind] in Hf. cbn beta iota in Hne. cbn [OForall] in IHone.
          unfold opt_shape in Hos.
          destruct ((2 <=? length [a; b])%nat && (length (filter (fun b0 => negb (nullish b0)) [a; b]) =? 1)%nat) eqn:Hcnt; [|discriminate].
          apply andb_true_iff in Hcnt. destruct Hcnt as [_ Hcnt]. cbn [filter] in Hcnt.
          assert (Hnull : forall n, nullish n = true -> plain_null n = true -> null_only n = true /\ sch_props n = []).
          { intros n Hn1 Hn2. unfold plain_null, scalar_arm in Hn2. destruct_matches Hn2; try discriminate Hn1.
            all: repeat match type of Hn2 with context [if ?c then _ else _] => destruct c eqn:? end; try discriminate Hn2.
            all: split; reflexivity. }
          destruct (nullish a) eqn:Hna; destruct (nullish b) eqn:Hnb; cbn [negb length Nat.eqb] in Hcnt; try discriminate Hcnt;
            cbn [andb orb] in Hos.
          - destruct (plain_null a) eqn:Hpa; [|discriminate Hos]. destruct (Hnull a Hna Hpa) as [Hno Hpr].
            apply andb_true_iff in Hf. destruct Hf as [_ Hfb].
            assert (Hct : common_tag [a; b] = None) by (unfold common_tag; rewrite Hpr; reflexivity).
            rewrite Hct, Hno. cbn [is_none andb orb].
            rewrite (E_exact b i (Forall_inv (Forall_inv_tail IHone)) Hfb Hne Hsh). apply orb_true_r.
          - destruct (plain_null b) eqn:Hpb; [|discriminate Hos]. destruct (Hnull b Hnb Hpb) as [Hno Hpr].
            apply andb_true_iff in Hf. destruct Hf as [_ Hfa].
            assert (Hct : common_tag [a; b] = None).
            { unfold common_tag. match goal with |- match filter ?f ?l with _ => _ end = None => assert (Hfl : filter f l = []) end.
              { apply filter_none. intros tg0 _. cbn [forallb]. unfold branch_tag_of at 2. rewrite Hpr. cbn [assoc is_some andb].
                rewrite andb_false_r. reflexivity. }
              rewrite Hfl. reflexivity. }
            rewrite Hct, Hno. cbn [is_none andb orb]. rewrite ?orb_true_r, ?andb_true_r.
            rewrite (E_exact a i (Forall_inv IHone) Hfa Hne Hsh). apply orb_true_r. }
        * destruct Hs as (Hri & _). apply refx_here. apply mem_pair_x_index. exact Hri.
        * subst oneo. unfold has in Hs. rewrite (gp_leaf _ _ _ _ _ _ _ _ _ _ _ _ _ _ _ Hs I). reflexivity.
        * destruct tg as [|tg|tg ct|].
          4: { (* untagged over non-null scalar arms: no null branch, no common tag *)
            destruct Hs as (n & vs & deny & bes & names & ids & Hd & Hnames & Hndn & Hv & Hraw & Hident & Hbr).
            unfold has in Hd. cbn [union_x]. rewrite Hd. cbn [wrapper_of].
            cbn [frag_kind] in Hf. rewrite Hnames in Hf.
            apply andb_true_iff in Hf. destruct Hf as [Hf _].
            apply andb_true_iff in Hf. destruct Hf as [Hf _]. apply andb_true_iff in Hf. destruct Hf as [_ Hbok].
            cbn [branches_ok] in Hbok. destruct (opt_all_map scalar_arm bs) as [tys|] eqn:Harms; [|discriminate].
            apply andb_true_iff in Hbok. destruct Hbok as [Hbok Hsk].
            apply andb_true_iff in Hbok. destruct Hbok as [Hbok _]. apply andb_true_iff in Hbok. destruct Hbok as [Hnonull _].
            assert (Harm : forall b, In b bs -> exists t0, scalar_arm b = Some t0 /\ In t0 tys).
            { clear - Harms. revert tys Harms. induction bs as [|b0 r IH]; intros tys H b Hb; [destruct Hb|].
              cbn [opt_all_map] in H. destruct (scalar_arm b0) as [t0|] eqn:E0; [|discriminate].
              destruct (opt_all_map scalar_arm r) as [rest|]; [|discriminate]. injection H as <-.
              destruct Hb as [<-|Hb]; [exists t0; split; [exact E0|left; reflexivity]|].
              destruct (IH rest eq_refl b Hb) as (t1 & H1 & H2). exists t1. split; [exact H1|right; exact H2]. }
            assert (H1 : no_null bs = true).
            { unfold no_null. apply negb_true_iff. apply Bool.not_true_is_false. intro Hex.
              apply existsb_exists in Hex. destruct Hex as (b & Hb & Hnull).
              destruct (Harm b Hb) as (t0 & Ht0 & Hin).
              assert (t0 = TNull).
              { unfold scalar_arm in Ht0. unfold null_only in Hnull. destruct_matches Hnull. destruct_matches Ht0; try discriminate Hnull.
                all: try (destruct (_ && _); [|discriminate]); try (destruct (strv_is_none _); [|discriminate]);
                  injection Ht0 as <-; reflexivity. }
              subst t0. apply negb_true_iff in Hnonull.
              assert (existsb (itype_eqb TNull) tys = true); [|congruence].
              apply existsb_exists. exists TNull. split; [exact Hin|reflexivity]. }
            assert (H2 : common_tag bs = None).
            { destruct bs as [|b0 r]; [reflexivity|]. unfold common_tag.
              destruct (Harm b0 (or_introl eq_refl)) as (t0 & Ht0 & _). unfold scalar_arm in Ht0. destruct_matches Ht0.
              all: reflexivity. }
            rewrite H1, H2. reflexivity. }
          2: { (* internally tagged *)
            destruct Hs as (n & vs & deny & bes & names & ids & Hd & Hnames & Hndn & Hv & Hraw & Hident & Hbr).
            unfold has in Hd. cbn [union_x]. rewrite Hd. cbn [wrapper_of].
            cbn [frag_kind] in Hf. rewrite Hnames in Hf.
            apply andb_true_iff in Hf. destruct Hf as [Hf _].
            apply andb_true_iff in Hf. destruct Hf as [Hf _]. apply andb_true_iff in Hf. destruct Hf as [_ Hbok].
            cbn [branches_ok] in Hbok. apply andb_true_iff in Hbok. destruct Hbok as [Hbok _].
            rewrite forallb_forall in Hbok.
            apply (tagged_union_x tg bs names vs); [|exact Hnames|exact Hraw].
            intros b Hb. pose proof (Hbok b Hb) as Hcb. change (int_cond cls tg b = true) in Hcb.
            destruct (int_branch_cases cls tg b Hcb) as (bprops & breq & closed & x & -> & Ha & Hreq & _).
            exists x. split; [exact Ha|]. split; [exact Hreq|reflexivity]. }
          2: { (* adjacently tagged *)
            destruct Hs as (n & vs & deny & bes & names & ids & Hd & Hnames & Hndn & Hv & Hraw & Hident & Hbr).
            unfold has in Hd. cbn [union_x]. rewrite Hd. cbn [wrapper_of].
            cbn [frag_kind] in Hf. rewrite Hnames in Hf.
            apply andb_true_iff in Hf. destruct Hf as [Hf _].
            apply andb_true_iff in Hf. destruct Hf as [Hf _]. apply andb_true_iff in Hf. destruct Hf as [_ Hbok].
            cbn [branches_ok] in Hbok. apply andb_true_iff in Hbok. destruct Hbok as [Hbok _].
            apply andb_true_iff in Hbok. destruct Hbok as [Hbok Htc]. apply negb_true_iff in Htc.
            rewrite forallb_forall in Hbok.
            apply (tagged_union_x tg bs names vs); [|exact Hnames|exact Hraw].
            intros b Hb. pose proof (Hbok b Hb) as Hcb. change (adj_cond tg ct b = true) in Hcb.
            destruct (adj_branch_cases tg ct b Htc Hcb) as (breq & x & Hreq & [->|[(_ & sc & ->)|(_ & sc & ->)]]);
              exists x; cbn [sch_props sch_required tbranch assoc]; rewrite ?ustr_eqb_refl, ?Htc;
              (split; [reflexivity|]); (split; [exact Hreq|reflexivity]). }
          (* externally tagged: no null branch, no common tag, every branch names variants of the right kind *)
          destruct Hs as (n & vs & deny & bes & names & ids & Hd & Hnames & Hndn & Hv & Hraw & Hident & Hbr).
          cbn [variant_names] in Hnames.
          unfold has in Hd. cbn [union_x]. rewrite Hd. cbn [wrapper_of].
          assert (Hndv : NoDup (map v_raw vs)) by (rewrite Hraw; exact Hndn).
          assert (Hcase : forall b, In b bs ->
                    (exists es l, b = xsimple_sch es /\ jstrs es = Some l /\ l <> []) \/ (exists v sc, b = xbranch v sc /\ In v names)).
          { clear - Hnames. revert names Hnames. induction bs as [|b0 r IH]; intros names Hn b Hb; [destruct Hb|].
            destruct (xall_names_cons b0 r names Hn) as (l & rest & Hb0 & Hr & ->).
            destruct Hb as [<-|Hb].
            - destruct (xnames_cases b0 l Hb0) as [(es & -> & Hj & Hne)|(v & sc & -> & ->)].
              + left. exists es, l. repeat split; assumption.
              + right. exists v, sc. split; [reflexivity|left; reflexivity].
            - destruct (IH rest Hr b Hb) as [H|(v & sc & H1 & H2)]; [left; exact H|].
              right. exists v, sc. split; [exact H1|apply in_or_app; right; exact H2]. }
          assert (H1 : no_null bs = true).
          { unfold no_null. apply negb_true_iff. apply Bool.not_true_is_false. intro Hex.
            apply existsb_exists in Hex. destruct Hex as (b & Hb & Hnull).
            destruct (Hcase b Hb) as [(es & l & -> & _)|(v & sc & -> & _)]; discriminate Hnull. }
          assert (H2 : common_tag bs = None).
          { cbn beta iota in Hne.
            destruct bs as [|b0 r]; [reflexivity|]. unfold common_tag.
            destruct (Hcase b0 (or_introl eq_refl)) as [(es & l & -> & _)|(v & sc & -> & Hvin)]; [reflexivity|].
            cbn [sch_props xbranch map fst filter].
            match goal with |- context [if ?c then _ else _] => destruct c eqn:Hall end; [|reflexivity].
            exfalso. rewrite forallb_forall in Hall.
            destruct r as [|b1 r'].
            - (* a single branch: excluded by no_pinned *)
              cbn [no_pinned] in Hne. rewrite xtyped_sch in Hne. apply negb_true_iff in Hne.
              specialize (Hall _ (or_introl eq_refl)). apply andb_true_iff in Hall. destruct Hall as [Hall _].
              unfold branch_tag_of in Hall. cbn [sch_props xbranch assoc] in Hall. rewrite ustr_eqb_refl in Hall.
              unfold pins in Hne. destruct (sch_enum sc) as [[|[] [|]]|]; destruct (sch_const sc) as [[]|]; discriminate.
            - (* another branch does not have the property [v] *)
              specialize (Hall b1 (or_intror (or_introl eq_refl))). apply andb_true_iff in Hall. destruct Hall as [Hall _].
              destruct (Hcase b1 (or_intror (or_introl eq_refl))) as [(es & l & -> & _)|(v1 & sc1 & -> & _)]; [discriminate Hall|].
              unfold branch_tag_of in Hall. cbn [sch_props xbranch assoc] in Hall.
              destruct (ustr_eqb v v1) eqn:E; [|discriminate Hall]. apply ustr_eqb_eq in E. subst v1.
              (* v twice among the names *)
              cbn [xall_names] in Hnames. rewrite !(fun a b => xnames_typed a b) in Hnames.
              destruct (xall_names r') as [rest|]; [|discriminate]. injection Hnames as <-.
              cbn [app] in Hndn. inversion Hndn as [|? ? Hni _]; subst. apply Hni. left. reflexivity. }
          rewrite H1, H2. cbn [is_none andb].
          apply forallb_forall. intros b Hb.
          pose proof (proj1 (AllP_In _ _) Hbr b Hb) as Hbsh.
          destruct (Hcase b Hb) as [(es & l & -> & Hj & Hnel)|(v & sc & -> & Hvin)].
          -- unfold ext_branch_x. cbn [sch_enum xsimple_sch]. rewrite (jstrs_map _ _ Hj).
             apply forallb_forall. intros e Hein. apply in_map_iff in Hein. destruct Hein as (x & <- & Hx).
             cbn [branch_sh xsimple_sch] in Hbsh.
             destruct (Hbsh l (xsimple_sch_spec es l Hj Hnel) x Hx) as (vr & Hvr & Hrw & Hdt).
             destruct (find_variant_nodup vs Hndv vr 0%nat Hvr) as (i & Hfv). rewrite Hrw in Hfv. rewrite Hfv, Hdt. reflexivity.
          -- unfold ext_branch_x. cbn [sch_enum sch_props sch_required sch_additional_props xbranch is_closed].
             unfold raws. rewrite Hraw. rewrite (proj2 (mem_ustr_In v names) Hvin).
             unfold mem_ustr. cbn [existsb]. rewrite ustr_eqb_refl. reflexivity.
    - intros ty fmt enum cst nv sv ik items ai mni mxi uq props req ap mnp mxp allo bs no ref dflt title HO Hf Hne t Hs ft.
      destruct (frag_classify cls D _ _ _ _ _ _ _ _ _ _ _ _ _ _ _ _ _ _ _ _ _ _ _ _ Hf) as (x & Hcl).
      rewrite (any_frag cls D _ _ _ _ _ _ _ _ _ _ _ _ _ _ _ _ _ _ _ _ _ _ _ x Hcl) in Hf. rewrite (any_nne _ _ _ _ _ _ _ _ _ _ _ _ _ _ _ _ _ _ _ _ _ _ _ x Hcl) in Hne.
      cbn [shape] in Hs. rewrite Hcl in Hs.
      assert (Hs' : shape cls D T (SObj ty fmt enum cst nv sv ik items ai mni mxi uq props req ap mnp mxp allo None (Some bs) no ref dflt title) t).
      { cbn [shape]. rewrite (any_classify _ _ _ _ _ _ _ _ _ _ _ _ _ _ _ _ _ _ _ _ _ _ _ x Hcl). exact Hs. }
      exact (HO Hf Hne t Hs' ft).
    - intros ty fmt enum cst nv sv ik items ai mni mxi uq props req ap mnp mxp allo abs obs no ref dflt title Hf. rewrite both_frag in Hf. discriminate Hf.
  Qed.

  Lemma Es_newtype s ft t n dv i :
    get_det T t = Some (DNewtype n dv i CNone) -> Es s ft i = true -> Es s (S ft) t = true.
  Proof.
    destruct s as [b|ty fmt enum cst nv sv ik items ai mni mxi uq props req ap mnp mxp allo anyo oneo no ref dflt title];
      [reflexivity|].
    intros Hd Hi. cbn [Es] in *. destruct ref as [r|].
    - eapply refx_newtype; eassumption.
    - destruct anyo as [abs|], oneo as [bs|]; try reflexivity.
      + cbn [union_x]. rewrite Hd. cbn [wrapper_of]. exact Hi.
      + cbn [union_x]. rewrite Hd. cbn [wrapper_of]. exact Hi.
      + rewrite (gp_newtype _ _ _ _ _ _ _ _ _ _ _ _ _ _ _ _ _ Hd). exact Hi.
  Qed.

  Lemma topshape_exact s t :
    frag cls keys s = true -> no_nullable_enum s = true -> topshape cls D T s t -> ex s t = true.
  Proof.
    intros Hf Hn [[Hs _]|(n & i & Hd & Hs)].
    - apply E_exact; [apply conv_E|assumption..].
    - rewrite (exact_frag_Es s t Hf). unfold FT. apply (Es_newtype s 5 t n None i Hd).
      apply (conv_E s Hf Hn i Hs 3%nat).
  Qed.
End ExactMain.

Theorem convert_exact cls re D T :
  in_frag_exact cls D = true -> convert_doc cls D = Some T ->
  exact_all re D T (pairs_of D) = true.
Proof.
  intros Hin Hc. unfold in_frag_exact in Hin. apply andb_true_iff in Hin. destruct Hin as [Hin Hne].
  destruct (convert_shape cls D T Hin Hc) as (Hsh & _ & _).
  unfold in_frag in Hin.
  apply andb_true_iff in Hin. destruct Hin as [Hin _].
  apply andb_true_iff in Hin. destruct Hin as [Hin _].
  apply andb_true_iff in Hin. destruct Hin as [Hin Hfr].
  apply andb_true_iff in Hin. destruct Hin as [Hks _].
  rewrite forallb_forall in Hfr, Hne.
  unfold exact_all. apply forallb_forall. intros p Hpin. unfold pairs_of in Hpin.
  destruct (pairs_from_nth D 1 p Hpin) as (j & sch & Hn & Hs).
  unfold resolve_ref. rewrite (assoc_nth D j (fst p) sch (keys_sorted_NoDup _ Hks) Hn).
  rewrite Hs. replace (1 + N.of_nat j) with (N.of_nat j + 1) by lia.
  pose proof (nth_error_In _ _ Hn) as HinD.
  apply (topshape_exact cls re D T Hsh Hfr sch); [exact (Hfr _ HinD)|exact (Hne _ HinD)|].
  exact (Hsh j (fst p) sch Hn).
Qed.

(* with ExactProofs.exact_sound: on the fragment, a violated enforced-kind constraint is rejected *)
Theorem fragment_no_bypass cls re native D T :
  in_frag_exact cls D = true -> convert_doc cls D = Some T ->
  forall r t s, In (r, t) (pairs_of D) -> resolve_ref D r = Some s ->
  forall v, viol re D s v ->
  forall f, de re native T f t v = None.
Proof.
  intros Hin Hc. apply (exact_sound re native D T (pairs_of D)).
  apply convert_exact with (cls := cls); assumption.
Qed.

(* integer formats: the Rust type of a row of convert_integer's table has exactly the range of the format *)
Lemma int_format_range_exact :
  forall r, In r int_rows ->
    exists hi nz, int_range_u (ir_ty r) = Some (ir_lo r, hi, nz) /\
                  int_format_range (ir_fmt r) = Some (ir_lo r, hi).
Proof.
  intros r Hr. destruct (ConvertIntProofs.row_facts r Hr) as (thi & nz & _ & _ & H1 & _ & _ & _ & _ & H3).
  exists thi, nz. split; assumption.
Qed.
