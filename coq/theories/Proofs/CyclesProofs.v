(* C07 — lemmas and proofs about Algo/Cycles.v (part 1: finite maps, the
   proven acyclicity checker, id_to_box / make_replace, the DFS invariant and
   acyclicity of the result). *)
From Coq Require Import NArith List Bool String Lia Relations Relation_Operators Operators_Properties.
From Typify Require Import Algo.Cycles.
Import ListNotations.
Open Scope N_scope.

(* ------------------------------------------------------------ finite maps *)

Lemma mem_In : forall x l, mem x l = true <-> In x l.
Proof.
  induction l as [|y l IH]; cbn [mem In].
  - split; [discriminate|tauto].
  - destruct (N.eqb_spec x y) as [->|Hne].
    + split; auto.
    + rewrite IH. split; [auto|]. intros [H|H]; [congruence|auto].
Qed.

Lemma mem_false : forall x l, mem x l = false <-> ~ In x l.
Proof.
  intros x l. rewrite <- mem_In. destruct (mem x l); split; congruence.
Qed.

Lemma insert_In : forall x y l, In y (insert x l) <-> y = x \/ In y l.
Proof.
  intros x y l. unfold insert. destruct (mem x l) eqn:E.
  - apply mem_In in E. split; [auto|]. intros [->|H]; auto.
  - cbn [In]. split; intros [H|H]; auto.
Qed.

Lemma mem_insert : forall x y l, mem y (insert x l) = true <-> y = x \/ mem y l = true.
Proof. intros. rewrite !mem_In. apply insert_In. Qed.

Lemma remove_In : forall x y l, In y (remove x l) <-> In y l /\ y <> x.
Proof.
  intros x y l. unfold remove. rewrite filter_In.
  destruct (N.eqb_spec y x); cbn [negb]; split; intros [H1 H2]; split; auto; congruence.
Qed.

Lemma lookup_set_eq : forall A (m : list (N * A)) k v, lookup (set m k v) k = Some v.
Proof.
  induction m as [|[k' v'] m IH]; intros k v; cbn [set lookup].
  - rewrite N.eqb_refl. reflexivity.
  - destruct (N.eqb_spec k k') as [->|Hne]; cbn [lookup].
    + rewrite N.eqb_refl. reflexivity.
    + destruct (N.eqb_spec k k'); [congruence|]. apply IH.
Qed.

Lemma lookup_set_neq : forall A (m : list (N * A)) k k' v,
    k' <> k -> lookup (set m k v) k' = lookup m k'.
Proof.
  induction m as [|[k0 v0] m IH]; intros k k' v Hne; cbn [set lookup].
  - destruct (N.eqb_spec k' k); [congruence|reflexivity].
  - destruct (N.eqb_spec k k0) as [->|Hne0]; cbn [lookup].
    + destruct (N.eqb_spec k' k0); [congruence|reflexivity].
    + destruct (N.eqb_spec k' k0); [reflexivity|]. apply IH. assumption.
Qed.

Lemma lookup_set_same : forall A (m : list (N * A)) k v,
    lookup m k = Some v -> set m k v = m.
Proof.
  induction m as [|[k0 v0] m IH]; intros k v H; cbn [set lookup] in *.
  - discriminate.
  - destruct (N.eqb_spec k k0) as [->|Hne].
    + congruence.
    + f_equal. apply IH. assumption.
Qed.

Lemma lookup_Some_In : forall A (m : list (N * A)) k v,
    lookup m k = Some v -> In (k, v) m.
Proof.
  induction m as [|[k0 v0] m IH]; intros k v H; cbn [lookup] in H.
  - discriminate.
  - destruct (N.eqb_spec k k0) as [->|Hne].
    + left. congruence.
    + right. auto.
Qed.

Lemma lookup_set_mono : forall A (m : list (N * A)) k v n,
    lookup m n <> None -> lookup (set m k v) n <> None.
Proof.
  intros A m k v n H. destruct (N.eq_dec n k) as [->|Hne].
  - rewrite lookup_set_eq. discriminate.
  - rewrite lookup_set_neq; assumption.
Qed.

(* ------------------------------------------------------------- children *)

Lemma variant_children_map : forall f v,
    variant_children (map_variant f v) = map f (variant_children v).
Proof. intros f [| | |]; reflexivity. Qed.

Lemma children_map : forall f nd, children (map_children f nd) = map f (children nd).
Proof.
  intros f nd. destruct nd as [ps|c|vs|c|c|cs|c|c|c|k v|ps|]; cbn [children map_children map]; try reflexivity.
  induction vs as [|v vs IH]; cbn [map flat_map].
  - reflexivity.
  - rewrite map_app, variant_children_map, IH. reflexivity.
Qed.

Lemma map_variant_id : forall f v,
    (forall c, In c (variant_children v) -> f c = c) -> map_variant f v = v.
Proof.
  intros f [|c|cs|cs] H; cbn [map_variant variant_children] in *.
  - reflexivity.
  - rewrite H; [reflexivity|left; reflexivity].
  - f_equal. rewrite <- (map_id cs) at 2. apply map_ext_in. assumption.
  - f_equal. rewrite <- (map_id cs) at 2. apply map_ext_in. assumption.
Qed.

Lemma map_children_id : forall f nd,
    (forall c, In c (children nd) -> f c = c) -> map_children f nd = nd.
Proof.
  intros f nd H. destruct nd as [ps|c|vs|c|c|cs|c|c|c|k v|ps|]; cbn [map_children children] in *.
  - f_equal. rewrite <- (map_id ps) at 2. apply map_ext_in. assumption.
  - rewrite H; [reflexivity|left; reflexivity].
  - f_equal. induction vs as [|v vs IH]; cbn [map].
    + reflexivity.
    + cbn [flat_map] in H. rewrite map_variant_id.
      * f_equal. apply IH. intros c Hc. apply H. apply in_or_app. right. assumption.
      * intros c Hc. apply H. apply in_or_app. left. assumption.
  - rewrite H; [reflexivity|left; reflexivity].
  - rewrite H; [reflexivity|left; reflexivity].
  - f_equal. rewrite <- (map_id cs) at 2. apply map_ext_in. assumption.
  - reflexivity.
  - reflexivity.
  - reflexivity.
  - reflexivity.
  - reflexivity.
  - reflexivity.
Qed.

Lemma children_of_set_eq : forall g id nd, children_of (set g id nd) id = children nd.
Proof. intros. unfold children_of. rewrite lookup_set_eq. reflexivity. Qed.

Lemma children_of_set_neq : forall g id nd n,
    n <> id -> children_of (set g id nd) n = children_of g n.
Proof. intros. unfold children_of. rewrite lookup_set_neq by assumption. reflexivity. Qed.

(* ---------------------------------------------- by-value edges and cycles *)

Definition edge (g : graph) (a b : N) : Prop := In b (children_of g a).
Definition cyclic (g : graph) (n : N) : Prop := clos_trans N (edge g) n n.
Definition childless (g : graph) (c : N) : Prop := children_of g c = [].

Lemma t1n_first_edge : forall g a b,
    clos_trans_1n N (edge g) a b -> ~ childless g a.
Proof.
  intros g a b H Hc. unfold childless in Hc.
  destruct H as [y H|y z H _]; unfold edge in H; rewrite Hc in H; exact H.
Qed.

Lemma t1n_rt : forall g a b,
    clos_trans_1n N (edge g) a b -> clos_refl_trans N (edge g) a b.
Proof.
  induction 1 as [a b H|a y b H _ IH].
  - apply rt_step. assumption.
  - eapply rt_trans; [apply rt_step; eassumption|assumption].
Qed.

(* a rank that strictly decreases along edges out of ranked nodes, whose
   successors are ranked or childless, excludes cycles through ranked nodes *)
Section Ranked.
  Variable g : graph.
  Variable rank : N -> option nat.
  Hypothesis rank_ch : forall n r c,
      rank n = Some r -> edge g n c ->
      childless g c \/ exists r', rank c = Some r' /\ (r' < r)%nat.

  Lemma ranked_path : forall a b,
      clos_trans_1n N (edge g) a b ->
      forall r, rank a = Some r -> ~ childless g b ->
                exists r', rank b = Some r' /\ (r' < r)%nat.
  Proof.
    induction 1 as [a b Hab|a y b Hay Hyb IH]; intros r Hr Hb.
    - destruct (rank_ch _ _ _ Hr Hab) as [Hc|Hc]; [contradiction|assumption].
    - destruct (rank_ch _ _ _ Hr Hay) as [Hc|[ry [Hry Hlt]]].
      + exfalso. exact (t1n_first_edge _ _ _ Hyb Hc).
      + destruct (IH _ Hry Hb) as [r' [Hr' Hlt']]. exists r'. split; [assumption|lia].
  Qed.

  Lemma ranked_acyclic : forall n, rank n <> None \/ childless g n -> ~ cyclic g n.
  Proof.
    intros n Hn Hcyc. unfold cyclic in Hcyc. apply clos_trans_t1n in Hcyc.
    pose proof (t1n_first_edge _ _ _ Hcyc) as Hnc.
    destruct Hn as [Hn|Hn]; [|contradiction].
    destruct (rank n) as [r|] eqn:Hr; [|congruence].
    destruct (ranked_path _ _ Hcyc _ Hr Hnc) as [r' [Hr' Hlt]].
    rewrite Hr in Hr'. injection Hr' as <-. lia.
  Qed.

  Lemma ranked_reach : forall a b,
      clos_refl_trans N (edge g) a b ->
      rank a <> None \/ childless g a -> rank b <> None \/ childless g b.
  Proof.
    intros a b H. apply clos_rt_rt1n in H.
    induction H as [a|a y b Hay _ IH]; intros Ha.
    - assumption.
    - apply IH. destruct Ha as [Ha|Ha].
      + destruct (rank a) as [r|] eqn:Hr; [|congruence].
        destruct (rank_ch _ _ _ Hr Hay) as [Hc|[r' [Hr' _]]].
        * right. assumption.
        * left. congruence.
      + exfalso. unfold childless in Ha. unfold edge in Hay. rewrite Ha in Hay. exact Hay.
  Qed.
End Ranked.

(* ------------------------------------------------ the proven checker *)

Definition peelQ (g : graph) (S : list N) : Prop :=
  forall n, In n S -> (forall c, edge g n c -> In c S) /\ ~ cyclic g n.

Lemma peelQ_closed_rt : forall g S a b,
    peelQ g S -> clos_refl_trans N (edge g) a b -> In a S -> In b S.
Proof.
  intros g S a b HQ H. apply clos_rt_rt1n in H.
  induction H as [a|a y b Hay _ IH]; intros Ha.
  - assumption.
  - apply IH. destruct (HQ _ Ha) as [Hcl _]. apply Hcl. assumption.
Qed.

Lemma peel_round_acc : forall g safe l acc,
    incl safe acc ->
    (forall n, In n acc -> In n safe \/ (forall c, edge g n c -> In c safe)) ->
    let acc' := fold_left
      (fun acc (e : N * node) =>
         if mem (fst e) acc then acc
         else if forallb (fun c => mem c safe) (children_of g (fst e)) then fst e :: acc else acc)
      l acc in
    incl safe acc' /\
    (forall n, In n acc' -> In n safe \/ (forall c, edge g n c -> In c safe)).
Proof.
  intros g safe l. induction l as [|e l IH]; intros acc Hincl Hacc; cbn [fold_left].
  - split; assumption.
  - destruct (mem (fst e) acc) eqn:Em.
    + apply IH; assumption.
    + destruct (forallb (fun c => mem c safe) (children_of g (fst e))) eqn:Ef.
      * apply IH.
        -- intros x Hx. right. apply Hincl. assumption.
        -- intros n [<-|Hn].
           ++ right. intros c Hc. unfold edge in Hc.
              rewrite forallb_forall in Ef. apply mem_In. apply Ef. assumption.
           ++ apply Hacc. assumption.
      * apply IH; assumption.
Qed.

Lemma peel_round_Q : forall g S, peelQ g S -> peelQ g (peel_round g S).
Proof.
  intros g S HQ. unfold peel_round.
  destruct (peel_round_acc g S g S (incl_refl S) (fun n H => or_introl H)) as [Hincl Hacc].
  intros n Hn. destruct (Hacc n Hn) as [HS|Hch].
  - destruct (HQ n HS) as [Hcl Hnc]. split; [|assumption].
    intros c Hc. apply Hincl. apply Hcl. assumption.
  - split.
    + intros c Hc. apply Hincl. apply Hch. assumption.
    + intros Hcyc. unfold cyclic in Hcyc. apply clos_trans_t1n in Hcyc.
      assert (HnS : In n S).
      { inversion Hcyc as [y Hny|y z Hny Hyn]; subst.
        - apply Hch. assumption.
        - apply (peelQ_closed_rt g S y n HQ).
          + apply t1n_rt. assumption.
          + apply Hch. assumption. }
      destruct (HQ n HnS) as [_ Hnc]. apply Hnc. unfold cyclic. apply clos_t1n_trans. assumption.
Qed.

Lemma peel_Q : forall k g S, peelQ g S -> peelQ g (peel k g S).
Proof.
  induction k as [|k IH]; intros g S HQ; cbn [peel].
  - assumption.
  - apply IH. apply peel_round_Q. assumption.
Qed.

Theorem acyclic_check_sound : forall g,
    acyclic_check g = true -> forall n, ~ cyclic g n.
Proof.
  intros g Hc n Hcyc. unfold acyclic_check in Hc. rewrite forallb_forall in Hc.
  assert (HQ : peelQ g (peel (List.length g) g [])).
  { apply peel_Q. intros x []. }
  pose proof Hcyc as Hcyc'. unfold cyclic in Hcyc'. apply clos_trans_t1n in Hcyc'.
  pose proof (t1n_first_edge _ _ _ Hcyc') as Hnc.
  unfold childless, children_of in Hnc.
  destruct (lookup g n) as [nd|] eqn:El; [|congruence].
  apply lookup_Some_In in El. specialize (Hc _ El). cbn [fst] in Hc.
  apply mem_In in Hc. destruct (HQ _ Hc) as [_ Hno]. exact (Hno Hcyc).
Qed.

(* ------------------------------------------------- spaces: wf, extension *)

Definition bidx_ok (s : space) : Prop :=
  forall t b, lookup (sp_bidx s) t = Some b -> lookup (sp_g s) b = Some (NBox t).
Definition fresh (s : space) : Prop :=
  forall n, lookup (sp_g s) n <> None -> n < sp_next s.
Definition wf (s : space) : Prop := bidx_ok s /\ fresh s.

(* s' extends s: existing entries untouched, new entries are Boxes *)
Definition ext (s s' : space) : Prop :=
  (forall n, lookup (sp_g s) n <> None -> lookup (sp_g s') n = lookup (sp_g s) n) /\
  (forall n, lookup (sp_g s) n = None ->
             lookup (sp_g s') n = None \/ exists t, lookup (sp_g s') n = Some (NBox t)) /\
  (sp_next s <= sp_next s').

Lemma ext_refl : forall s, ext s s.
Proof. intros s. split; [|split]; auto. lia. Qed.

Lemma ext_trans : forall s1 s2 s3, ext s1 s2 -> ext s2 s3 -> ext s1 s3.
Proof.
  intros s1 s2 s3 [A1 [B1 C1]] [A2 [B2 C2]]. split; [|split].
  - intros n Hn. rewrite A2; [apply A1; assumption|]. rewrite A1; assumption.
  - intros n Hn. destruct (B1 n Hn) as [H|[t H]].
    + apply B2. assumption.
    + right. exists t. rewrite A2; [assumption|]. rewrite H. discriminate.
  - lia.
Qed.

Lemma children_of_ext : forall s s' n,
    ext s s' -> children_of (sp_g s') n = children_of (sp_g s) n.
Proof.
  intros s s' n [A [B _]]. unfold children_of.
  destruct (lookup (sp_g s) n) as [nd|] eqn:E.
  - rewrite A; [rewrite E; reflexivity|]. rewrite E. discriminate.
  - destruct (B n E) as [H|[t H]]; rewrite H; reflexivity.
Qed.

Lemma id_to_box_spec : forall s t s' b,
    wf s -> id_to_box s t = (s', b) ->
    wf s' /\ ext s s' /\ lookup (sp_g s') b = Some (NBox t).
Proof.
  intros s t s' b [Hb Hf] H. unfold id_to_box in H.
  destruct (lookup (sp_bidx s) t) as [b0|] eqn:E.
  - injection H as <- <-. split; [split; assumption|]. split; [apply ext_refl|]. apply Hb. assumption.
  - injection H as <- <-. cbn [sp_g sp_bidx sp_next].
    assert (Hnone : lookup (sp_g s) (sp_next s) = None).
    { destruct (lookup (sp_g s) (sp_next s)) eqn:E1; [|reflexivity].
      assert (sp_next s < sp_next s) by (apply Hf; rewrite E1; discriminate). lia. }
    split; [split|split].
    + intros t0 b0 H0. cbn [sp_g sp_bidx] in *.
      destruct (N.eq_dec t0 t) as [->|Hne].
      * rewrite lookup_set_eq in H0. injection H0 as <-. apply lookup_set_eq.
      * rewrite lookup_set_neq in H0 by assumption.
        pose proof (Hb _ _ H0) as H1.
        rewrite lookup_set_neq; [assumption|].
        intros ->. rewrite Hnone in H1. discriminate.
    + intros n Hn. cbn [sp_g sp_next] in *.
      destruct (N.eq_dec n (sp_next s)) as [->|Hne]; [lia|].
      rewrite lookup_set_neq in Hn by assumption. apply Hf in Hn. lia.
    + split; [|split]; cbn [sp_g sp_next].
      * intros n Hn. apply lookup_set_neq. intros ->. congruence.
      * intros n Hn. destruct (N.eq_dec n (sp_next s)) as [->|Hne].
        -- right. exists t. apply lookup_set_eq.
        -- left. rewrite lookup_set_neq by assumption. assumption.
      * lia.
    + apply lookup_set_eq.
Qed.

Definition mr_step (acc : space * list (N * N)) (t : N) : space * list (N * N) :=
  let '(s1, b) := id_to_box (fst acc) t in (s1, set (snd acc) t b).

Lemma make_replace_gen : forall snip s0 r0 s' repl,
    wf s0 ->
    (forall t b, lookup r0 t = Some b -> lookup (sp_g s0) b = Some (NBox t)) ->
    fold_left mr_step snip (s0, r0) = (s', repl) ->
    wf s' /\ ext s0 s' /\
    (forall t b, lookup repl t = Some b ->
                 (lookup r0 t = Some b \/ In t snip) /\ lookup (sp_g s') b = Some (NBox t)) /\
    (forall t, In t snip \/ lookup r0 t <> None -> lookup repl t <> None).
Proof.
  induction snip as [|t snip IH]; intros s0 r0 s' repl Hwf Hr0 H; cbn [fold_left] in H.
  - injection H as <- <-. split; [assumption|]. split; [apply ext_refl|]. split.
    + intros t b Hl. split; [left; assumption|apply Hr0; assumption].
    + intros t [[]|Hl]. assumption.
  - unfold mr_step at 2 in H. cbn [fst snd] in H.
    destruct (id_to_box s0 t) as [s1 b1] eqn:Eb.
    destruct (id_to_box_spec _ _ _ _ Hwf Eb) as [Hwf1 [Hext1 Hb1]].
    assert (Hr1 : forall t0 b0, lookup (set r0 t b1) t0 = Some b0 ->
                                lookup (sp_g s1) b0 = Some (NBox t0)).
    { intros t0 b0 Hl. destruct (N.eq_dec t0 t) as [->|Hne].
      - rewrite lookup_set_eq in Hl. injection Hl as <-. assumption.
      - rewrite lookup_set_neq in Hl by assumption.
        pose proof (Hr0 _ _ Hl) as H1. destruct Hext1 as [A _].
        rewrite A; [assumption|]. rewrite H1. discriminate. }
    destruct (IH _ _ _ _ Hwf1 Hr1 H) as [Hwf' [Hext' [Hrepl Hdom]]].
    split; [assumption|]. split; [eapply ext_trans; eassumption|]. split.
    + intros t0 b0 Hl. destruct (Hrepl _ _ Hl) as [[H1|H1] H2]; split; try assumption.
      * destruct (N.eq_dec t0 t) as [->|Hne].
        -- right. left. reflexivity.
        -- rewrite lookup_set_neq in H1 by assumption. left. assumption.
      * right. right. assumption.
    + intros t0 Ht0. apply Hdom. destruct Ht0 as [[<-|Hin]|Hl].
      * right. rewrite lookup_set_eq. discriminate.
      * left. assumption.
      * right. apply lookup_set_mono. assumption.
Qed.

Lemma make_replace_spec : forall s snip s' repl,
    wf s -> make_replace s snip = (s', repl) ->
    wf s' /\ ext s s' /\
    (forall t b, lookup repl t = Some b -> In t snip /\ lookup (sp_g s') b = Some (NBox t)) /\
    (forall t, In t snip -> lookup repl t <> None).
Proof.
  intros s snip s' repl Hwf H. unfold make_replace in H.
  change (fold_left mr_step snip (s, []) = (s', repl)) in H.
  assert (H0 : forall t b, lookup (@nil (N * N)) t = Some b ->
                       lookup (sp_g s) b = Some (NBox t)) by (intros t b Hl; discriminate Hl).
  destruct (make_replace_gen _ _ _ _ _ Hwf H0 H) as [A [B [C D]]].
  split; [assumption|]. split; [assumption|]. split.
  - intros t b Hl. destruct (C _ _ Hl) as [[H1|H1] H2]; [discriminate H1|]. split; assumption.
  - intros t Ht. apply D. left. assumption.
Qed.

(* ------------------------------------------ the Start step on the space *)

Lemma partition_filter : forall A (f : A -> bool) l,
    partition f l = (filter f l, filter (fun x => negb (f x)) l).
Proof.
  induction l as [|a l IH]; cbn [partition filter].
  - reflexivity.
  - rewrite IH. destruct (f a); reflexivity.
Qed.

Definition start_space (s1 : space) (id : N) (repl : list (N * N)) (nd : node) : space :=
  mkSpace (set (sp_g s1) id (map_children (apply_replace repl) nd)) (sp_bidx s1) (sp_next s1).

Lemma start_step_spec : forall s act id nd snip descend s1 repl,
    wf s ->
    lookup (sp_g s) id = Some nd ->
    partition (fun c => mem c act) (children nd) = (snip, descend) ->
    make_replace s snip = (s1, repl) ->
    let s2 := start_space s1 id repl nd in
    lookup (sp_g s1) id = Some nd /\
    wf s2 /\ ext s s1 /\
    (forall n, n <> id -> lookup (sp_g s2) n = lookup (sp_g s1) n) /\
    (forall n, n <> id -> children_of (sp_g s2) n = children_of (sp_g s) n) /\
    children_of (sp_g s2) id = map (apply_replace repl) (children nd) /\
    (forall c, In c (children nd) -> mem c act = true ->
               lookup (sp_g s2) (apply_replace repl c) = Some (NBox c)) /\
    (forall c, mem c act = false -> apply_replace repl c = c) /\
    (forall c, In c descend <-> In c (children nd) /\ mem c act = false) /\
    (forall c, In c snip <-> In c (children nd) /\ mem c act = true).
Proof.
  intros s act id nd snip descend s1 repl Hwf Hl Hp Hm s2.
  rewrite partition_filter in Hp. injection Hp as <- <-.
  destruct (make_replace_spec _ _ _ _ Hwf Hm) as [Hwf1 [Hext [Hrepl Hdom]]].
  assert (Hl1 : lookup (sp_g s1) id = Some nd).
  { destruct Hext as [A _]. rewrite A; [assumption|]. rewrite Hl. discriminate. }
  assert (Hneq : forall n, n <> id -> lookup (sp_g s2) n = lookup (sp_g s1) n).
  { intros n Hn. unfold s2, start_space. cbn [sp_g]. apply lookup_set_neq. assumption. }
  assert (Hbox : forall b t, lookup (sp_g s1) b = Some (NBox t) -> lookup (sp_g s2) b = Some (NBox t)).
  { intros b t Hb. destruct (N.eq_dec b id) as [->|Hne].
    - unfold s2, start_space. cbn [sp_g]. rewrite lookup_set_eq.
      rewrite Hl1 in Hb. injection Hb as ->. reflexivity.
    - rewrite Hneq; assumption. }
  split; [assumption|]. split; [|split; [assumption|]].
  { destruct Hwf1 as [Hb1 Hf1]. split.
    - intros t b Ht. unfold s2, start_space in *. cbn [sp_g sp_bidx] in *.
      apply Hbox. apply Hb1. assumption.
    - intros n Hn. unfold s2, start_space in *. cbn [sp_g sp_next] in *.
      apply Hf1. destruct (N.eq_dec n id) as [->|Hne].
      + rewrite Hl1. discriminate.
      + rewrite lookup_set_neq in Hn; assumption. }
  split; [assumption|]. split.
  { intros n Hn. unfold children_of. rewrite Hneq by assumption.
    apply (children_of_ext _ _ n Hext). }
  split.
  { unfold s2, start_space. cbn [sp_g]. rewrite children_of_set_eq. apply children_map. }
  split.
  { intros c Hc Hact. unfold apply_replace.
    destruct (lookup repl c) as [b|] eqn:E.
    - apply Hbox. apply Hrepl. assumption.
    - exfalso. apply (Hdom c); [|assumption]. apply filter_In. split; assumption. }
  split.
  { intros c Hact. unfold apply_replace.
    destruct (lookup repl c) as [b|] eqn:E; [|reflexivity].
    destruct (Hrepl _ _ E) as [Hin _]. apply filter_In in Hin. destruct Hin as [_ Hin].
    congruence. }
  split.
  - intros c. rewrite filter_In. destruct (mem c act); cbn [negb]; intuition congruence.
  - intros c. rewrite filter_In. tauto.
Qed.

(* ------------------------------------------------------ the DFS invariant *)

Definition ids (st : list frame) : list N := map frame_id st.
Definition is_proc (n : N) (st : list frame) : Prop := exists p, In (Processing n p) st.

Lemma is_proc_ids : forall n st, is_proc n st -> In n (ids st).
Proof.
  intros n st [p H]. unfold ids. apply in_map_iff. exists (Processing n p). split; [reflexivity|assumption].
Qed.

Fixpoint frames_ok (g : graph) (rank : N -> option nat) (vis : list N)
         (up : option N) (st : list frame) : Prop :=
  match st with
  | [] => True
  | Start id :: rest => up = None /\ frames_ok g rank vis (Some id) rest
  | Processing id pend :: rest =>
      mem id vis = true /\
      (forall c, In c (children_of g id) ->
                 childless g c \/ rank c <> None \/ In c pend \/ up = Some c) /\
      (forall c, In c pend -> ~ In c (id :: ids rest)) /\
      frames_ok g rank vis (Some id) rest
  end.

Lemma frames_ok_mono : forall g g' rank rank' vis vis' st up,
    (forall p, In p (ids st) -> children_of g' p = children_of g p) ->
    (forall c, childless g c -> childless g' c) ->
    (forall c, rank c <> None -> rank' c <> None) ->
    (forall x, mem x vis = true -> mem x vis' = true) ->
    frames_ok g rank vis up st -> frames_ok g' rank' vis' up st.
Proof.
  intros g g' rank rank' vis vis'. induction st as [|[id|id pend] rest IH]; intros up Hch Hcl Hrk Hvis H;
    cbn [frames_ok] in *.
  - exact I.
  - destruct H as [H1 H2]. split; [assumption|]. apply IH; try assumption.
    intros p Hp. apply Hch. right. assumption.
  - destruct H as [H1 [H2 [H3 H4]]]. split; [auto|]. split; [|split; [assumption|]].
    + intros c Hc. rewrite Hch in Hc by (left; reflexivity).
      destruct (H2 c Hc) as [A|[A|[A|A]]]; auto.
    + apply IH; try assumption. intros p Hp. apply Hch. right. assumption.
Qed.

Record Inv (root : N) (d : dfs) (rank : N -> option nat) (bound : nat) : Prop := {
  inv_wf : wf (d_sp d);
  inv_nodup : NoDup (ids (d_stack d));
  inv_active : forall x, mem x (d_active d) = true <-> In x (ids (d_stack d));
  inv_black_vis : forall n r, rank n = Some r -> mem n (d_visited d) = true /\ (r < bound)%nat;
  inv_black_ch : forall n r c,
      rank n = Some r -> In c (children_of (sp_g (d_sp d)) n) ->
      childless (sp_g (d_sp d)) c \/ exists r', rank c = Some r' /\ (r' < r)%nat;
  inv_vis : forall n, mem n (d_visited d) = true -> rank n <> None \/ is_proc n (d_stack d);
  inv_frames : frames_ok (sp_g (d_sp d)) rank (d_visited d) None (d_stack d);
  inv_root : mem root (d_visited d) = true \/ d_stack d = [Start root]
}.

Lemma step_inv : forall root d d' rank bound,
    Inv root d rank bound -> step d = Next d' ->
    exists rank' bound', Inv root d' rank' bound' /\
                         (forall n, rank n <> None -> rank' n <> None).
Proof.
  intros root [s vis act st] d' rank bound HI Hs.
  destruct HI as [Hwf Hnd Hact Hbv Hbc Hvis Hfr Hroot]. cbn [d_sp d_visited d_active d_stack] in *.
  unfold step in Hs. cbn [d_sp d_visited d_active d_stack] in Hs.
  destruct st as [|[id|id pend] rest]; [discriminate| |].
  - (* Start id *)
    destruct (mem id vis) eqn:Ev.
    + (* already visited *)
      destruct (mem id act) eqn:Ea; [|discriminate]. injection Hs as <-.
      exists rank, bound. split; [|auto].
      assert (Hblack : rank id <> None).
      { destruct (Hvis id Ev) as [H|H]; [assumption|]. exfalso.
        destruct H as [p [H|H]]; [discriminate|].
        cbn [ids map frame_id] in Hnd. apply NoDup_cons_iff in Hnd. destruct Hnd as [Hn _].
        apply Hn. apply is_proc_ids. exists p. assumption. }
      constructor; cbn [d_sp d_visited d_active d_stack]; try assumption.
      * intros n Hn. destruct (Hvis n Hn) as [H|[p [H|H]]]; [left; assumption|discriminate|].
        right. exists p. right. assumption.
      * cbn [frames_ok] in *. destruct Hfr as [_ Hfr]. split; [assumption|].
        split; [|split; [intros c []|assumption]].
        intros c Hc. destruct (rank id) as [r|] eqn:Er; [|congruence].
        destruct (Hbc _ _ _ Er Hc) as [H|[r' [H _]]]; [left; assumption|].
        right. left. congruence.
      * left. destruct Hroot as [H|H]; [assumption|]. injection H as ->. assumption.
    + (* first visit *)
      destruct (mem id act) eqn:Ea; cbn [negb] in Hs; [|discriminate].
      destruct (lookup (sp_g s) id) as [nd|] eqn:El; [|discriminate].
      destruct (partition (fun c => mem c act) (children nd)) as [snip descend] eqn:Ep.
      destruct (make_replace s snip) as [s1 repl] eqn:Em.
      destruct (start_step_spec _ _ _ _ _ _ _ _ Hwf El Ep Em)
        as [Hl1 [Hwf2 [Hext [Hneq [Hch [Hchid [Hsn [Hds [Hdesc Hsnip]]]]]]]]].
      rewrite Hl1 in Hs. injection Hs as <-.
      fold (start_space s1 id repl nd).
      set (s2 := start_space s1 id repl nd) in *.
      assert (Hnb : rank id = None).
      { destruct (rank id) as [r|] eqn:Er; [|reflexivity].
        destruct (Hbv _ _ Er) as [H _]. congruence. }
      assert (Hcl : forall c, childless (sp_g s) c -> childless (sp_g s2) c).
      { intros c Hc. unfold childless in *. destruct (N.eq_dec c id) as [->|Hne].
        - rewrite Hchid. unfold children_of in Hc. rewrite El in Hc. rewrite Hc. reflexivity.
        - rewrite Hch; assumption. }
      exists rank, bound. split; [|auto].
      constructor; cbn [d_sp d_visited d_active d_stack]; try assumption.
      * intros n r Hr. destruct (Hbv _ _ Hr) as [H1 H2]. split; [|assumption].
        apply mem_insert. right. assumption.
      * intros n r c Hr Hc.
        assert (Hne : n <> id) by (intros ->; congruence).
        rewrite Hch in Hc by assumption.
        destruct (Hbc _ _ _ Hr Hc) as [H|H]; [left; apply Hcl; assumption|right; assumption].
      * intros n Hn. apply mem_insert in Hn. destruct Hn as [->|Hn].
        -- right. exists (rev descend). left. reflexivity.
        -- destruct (Hvis n Hn) as [H|[p [H|H]]]; [left; assumption|discriminate|].
           right. exists p. right. assumption.
      * cbn [frames_ok] in *. destruct Hfr as [_ Hfr].
        cbn [ids map frame_id] in Hnd. apply NoDup_cons_iff in Hnd. destruct Hnd as [Hnin Hnd].
        split; [apply mem_insert; left; reflexivity|]. split; [|split].
        -- intros c' Hc'. rewrite Hchid in Hc'. apply in_map_iff in Hc'.
           destruct Hc' as [c [<- Hc]]. destruct (mem c act) eqn:Eca.
           ++ left. unfold childless, children_of. rewrite (Hsn c Hc Eca). reflexivity.
           ++ right. right. left. rewrite (Hds c Eca). apply in_rev. rewrite rev_involutive.
              apply Hdesc. split; assumption.
        -- intros c Hc. apply in_rev in Hc. apply Hdesc in Hc. destruct Hc as [_ Hc].
           intros Hin. apply mem_false in Hc. apply Hc. apply mem_In. apply Hact. exact Hin.
        -- apply (frames_ok_mono (sp_g s) (sp_g s2) rank rank vis (insert id vis)); auto.
           ++ intros p Hp. apply Hch. intros ->. contradiction.
           ++ intros x Hx. apply mem_insert. right. assumption.
      * left. apply mem_insert. destruct Hroot as [H|H]; [right; assumption|].
        injection H as ->. left. reflexivity.
  - (* Processing id pend *)
    cbn [frames_ok] in Hfr. destruct Hfr as [Hidv [Hchn [Hpend Hfr]]].
    destruct pend as [|c pend'].
    + (* pop *)
      injection Hs as <-.
      cbn [ids map frame_id] in Hnd. apply NoDup_cons_iff in Hnd. destruct Hnd as [Hnin Hnd].
      set (rid := match rank id with Some r => r | None => bound end).
      set (rank' := fun x => if N.eqb x id then Some rid else rank x).
      assert (Hmono : forall x r, rank x = Some r -> rank' x = Some r).
      { intros x r Hr. unfold rank'. destruct (N.eqb_spec x id) as [->|Hne]; [|assumption].
        unfold rid. rewrite Hr. reflexivity. }
      assert (Hmono' : forall x, rank x <> None -> rank' x <> None).
      { intros x Hx. destruct (rank x) as [r|] eqn:Er; [|congruence].
        rewrite (Hmono _ _ Er). discriminate. }
      assert (Hrid : rank' id = Some rid).
      { unfold rank'. rewrite N.eqb_refl. reflexivity. }
      exists rank', (S bound). split; [|assumption].
      constructor; cbn [d_sp d_visited d_active d_stack]; try assumption.
      * intros x. rewrite mem_In, remove_In, <- mem_In, Hact. cbn [ids map frame_id In].
        split.
        -- intros [[H|H] Hne]; [congruence|assumption].
        -- intros H. split; [right; assumption|]. intros ->. contradiction.
      * intros n r Hr. unfold rank' in Hr. destruct (N.eqb_spec n id) as [->|Hne].
        -- injection Hr as <-. split; [assumption|]. unfold rid.
           destruct (rank id) as [r0|] eqn:Er0; [|lia].
           destruct (Hbv _ _ Er0). lia.
        -- destruct (Hbv _ _ Hr). split; [assumption|lia].
      * intros n r c Hr Hc.
        assert (Hold : forall r0, rank n = Some r0 -> r0 = r ->
                  childless (sp_g s) c \/ exists r', rank' c = Some r' /\ (r' < r)%nat).
        { intros r0 Hr0 <-. destruct (Hbc _ _ _ Hr0 Hc) as [H|[r' [H1 H2]]]; [left; assumption|].
          right. exists r'. split; [apply Hmono; assumption|assumption]. }
        unfold rank' in Hr. destruct (N.eqb_spec n id) as [->|Hne].
        -- injection Hr as <-. unfold rid. destruct (rank id) as [r0|] eqn:Er0.
           ++ apply (Hold r0); reflexivity.
           ++ destruct (Hchn c Hc) as [H|[H|[[]|H]]]; [left; assumption| |discriminate].
              right. destruct (rank c) as [rc|] eqn:Erc; [|congruence].
              exists rc. split; [apply Hmono; assumption|]. destruct (Hbv _ _ Erc). assumption.
        -- apply (Hold r); [assumption|reflexivity].
      * intros n Hn. destruct (Hvis n Hn) as [H|[p [H|H]]].
        -- left. apply Hmono'. assumption.
        -- injection H as -> _. left. rewrite Hrid. discriminate.
        -- right. exists p. assumption.
      * destruct rest as [|[id2|id2 pend2] rest2]; cbn [frames_ok] in *.
        -- exact I.
        -- destruct Hfr as [H _]. discriminate.
        -- destruct Hfr as [A [B [C D]]]. split; [assumption|]. split; [|split; [assumption|]].
           ++ intros c Hc. destruct (B c Hc) as [H|[H|[H|H]]]; auto.
              injection H as <-. right. left. rewrite Hrid. discriminate.
           ++ apply (frames_ok_mono (sp_g s) (sp_g s) rank rank' vis vis); auto.
      * left. destruct Hroot as [H|H]; [assumption|discriminate].
    + (* push c *)
      injection Hs as <-.
      exists rank, bound. split; [|auto].
      constructor; cbn [d_sp d_visited d_active d_stack]; try assumption.
      * cbn [ids map frame_id] in *. apply NoDup_cons; [|assumption].
        apply (Hpend c). left. reflexivity.
      * intros x. rewrite mem_insert, Hact. cbn [ids map frame_id In]. intuition congruence.
      * intros n Hn. destruct (Hvis n Hn) as [H|[p [H|H]]]; [left; assumption| |].
        -- injection H as -> _. right. exists pend'. right. left. reflexivity.
        -- right. exists p. right. right. assumption.
      * cbn [frames_ok]. split; [reflexivity|]. split; [assumption|]. split; [|split; [|assumption]].
        -- intros c0 Hc0. destruct (Hchn c0 Hc0) as [H|[H|[[H|H]|H]]]; auto; [|discriminate].
           right. right. right. congruence.
        -- intros c0 Hc0. apply Hpend. right. assumption.
      * left. destruct Hroot as [H|H]; [assumption|discriminate].
Qed.

(* ------------------------------------------------ run / outer / theorem (a) *)

Lemma step_finished : forall d, step d = Finished -> d_stack d = [].
Proof.
  intros d H. unfold step in H.
  destruct (d_stack d) as [|[id|id p] r]; [reflexivity| |].
  - repeat match type of H with
           | context [match ?x with _ => _ end] => destruct x
           end; discriminate.
  - destruct p; discriminate.
Qed.

Lemma run_inv : forall fuel root d rank bound d',
    Inv root d rank bound -> run fuel d = Done d' ->
    exists rank' bound', Inv root d' rank' bound' /\ d_stack d' = [] /\
                         (forall n, rank n <> None -> rank' n <> None).
Proof.
  induction fuel as [|f IH]; intros root d rank bound d' HI Hr; cbn [run] in Hr.
  - discriminate.
  - destruct (step d) as [|d1|m] eqn:Es.
    + injection Hr as <-. exists rank, bound. split; [assumption|]. split; [|auto].
      apply step_finished. assumption.
    + destruct (step_inv _ _ _ _ _ HI Es) as [rank1 [bound1 [HI1 Hm1]]].
      destruct (IH _ _ _ _ _ HI1 Hr) as [rank2 [bound2 [HI2 [Hst Hm2]]]].
      exists rank2, bound2. split; [assumption|]. split; [assumption|]. auto.
    + discriminate.
Qed.

Definition OInv (s : space) (vis : list N) (rank : N -> option nat) (bound : nat) : Prop :=
  wf s /\
  (forall n r, rank n = Some r -> mem n vis = true /\ (r < bound)%nat) /\
  (forall n r c, rank n = Some r -> In c (children_of (sp_g s) n) ->
                 childless (sp_g s) c \/ exists r', rank c = Some r' /\ (r' < r)%nat) /\
  (forall n, mem n vis = true -> rank n <> None).

Lemma outer_inv : forall fuel roots s vis rank bound s' vis',
    OInv s vis rank bound -> outer fuel roots s vis = Done (s', vis') ->
    exists rank' bound', OInv s' vis' rank' bound' /\
                         (forall n, rank n <> None -> rank' n <> None) /\
                         (forall r, In r roots -> mem r vis' = true).
Proof.
  intros fuel roots. induction roots as [|r rs IH]; intros s vis rank bound s' vis' HO H; cbn [outer] in H.
  - injection H as <- <-. exists rank, bound. split; [assumption|]. split; [auto|]. intros r [].
  - destruct (mem r vis) eqn:Er.
    + destruct (IH _ _ _ _ _ _ HO H) as [rank' [bound' [HO' [Hm Hr]]]].
      exists rank', bound'. split; [assumption|]. split; [assumption|].
      intros x [Heq|Hx]; [subst x|auto].
      destruct HO as [_ [_ [_ Hv]]]. destruct HO' as [_ [Hbv _]].
      specialize (Hm _ (Hv _ Er)). destruct (rank' r) as [rx|] eqn:Erx; [|congruence].
      apply (Hbv _ _ Erx).
    + destruct (run fuel (mkDfs s vis (insert r []) [Start r])) as [d| |] eqn:Erun; try discriminate.
      destruct HO as [Hwf [Hbv [Hbc Hv]]].
      assert (HI : Inv r (mkDfs s vis (insert r []) [Start r]) rank bound).
      { constructor; cbn [d_sp d_visited d_active d_stack ids map frame_id]; try assumption.
        - constructor; [intros []|constructor].
        - intros x. rewrite mem_insert. cbn [mem In]. intuition congruence.
        - intros n Hn. left. apply Hv. assumption.
        - cbn [frames_ok]. auto.
        - right. reflexivity. }
      destruct (run_inv _ _ _ _ _ _ HI Erun) as [rank1 [bound1 [HI1 [Hst Hm1]]]].
      destruct HI1 as [Hwf1 _ _ Hbv1 Hbc1 Hvis1 _ Hroot1].
      assert (HO1 : OInv (d_sp d) (d_visited d) rank1 bound1).
      { split; [assumption|]. split; [assumption|]. split; [assumption|].
        intros n Hn. destruct (Hvis1 n Hn) as [H1|[p H1]]; [assumption|].
        rewrite Hst in H1. destruct H1. }
      destruct (IH _ _ _ _ _ _ HO1 H) as [rank' [bound' [HO' [Hm Hr]]]].
      exists rank', bound'. split; [assumption|]. split; [auto|].
      intros x [Heq|Hx]; [subst x|auto].
      destruct Hroot1 as [Hr1|Hr1]; [|rewrite Hst in Hr1; discriminate].
      destruct HO1 as [_ [_ [_ Hv1]]]. destruct HO' as [_ [Hbv' _]].
      specialize (Hm _ (Hv1 _ Hr1)). destruct (rank' r) as [rx|] eqn:Erx; [|congruence].
      apply (Hbv' _ _ Erx).
Qed.

Lemma range_In : forall lo hi r, In r (range lo hi) <-> lo <= r < hi.
Proof.
  intros lo hi r. unfold range. rewrite in_map_iff. split.
  - intros [i [<- Hi]]. apply in_seq in Hi. lia.
  - intros H. exists (N.to_nat (r - lo)). split; [lia|]. apply in_seq. lia.
Qed.

Definition reachable (g : graph) (lo hi n : N) : Prop :=
  exists r, lo <= r < hi /\ clos_refl_trans N (edge g) r n.

Theorem break_cycles_acyclic : forall fuel s lo hi s',
    wf s -> break_cycles fuel s lo hi = Done s' ->
    forall n, reachable (sp_g s') lo hi n -> ~ cyclic (sp_g s') n.
Proof.
  intros fuel s lo hi s' Hwf H n [r [Hr Hreach]].
  unfold break_cycles in H.
  destruct (outer fuel (range lo hi) s []) as [[s1 vis1]| |] eqn:Eo; try discriminate.
  injection H as ->.
  assert (HO : OInv s [] (fun _ => None) 0%nat).
  { split; [assumption|]. split; [discriminate|]. split; [discriminate|]. discriminate. }
  destruct (outer_inv _ _ _ _ _ _ _ _ HO Eo) as [rank [bound [[_ [Hbv [Hbc Hv]]] [_ Hroots]]]].
  apply (ranked_acyclic (sp_g s') rank Hbc).
  apply (ranked_reach (sp_g s') rank Hbc r n Hreach).
  left. apply Hv. apply Hroots. apply range_In. assumption.
Qed.
