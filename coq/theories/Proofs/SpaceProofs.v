(* SpaceProofs.v -- all lemmas about Algo/Space.v (property C16). *)
From Coq Require Import NArith List Bool Lia Permutation.
From Typify Require Import Algo.Space.
Import ListNotations.
Open Scope N_scope.

(* ------------------------------------------------------------------ *)
(* association lists                                                    *)
(* ------------------------------------------------------------------ *)
Section AListFacts.
  Context {K V : Type} (eqb : K -> K -> bool).
  Context (eqb_ok : forall a b, eqb a b = true <-> a = b).

  Lemma eqb_refl' : forall a, eqb a a = true.
  Proof. intro a. apply eqb_ok. reflexivity. Qed.

  Lemma eqb_neq : forall a b, a <> b -> eqb a b = false.
  Proof.
    intros a b Hn. destruct (eqb a b) eqn:E; [|reflexivity].
    apply eqb_ok in E. contradiction.
  Qed.

  Lemma lookup_upd_eq : forall k (v : V) m, lookup eqb k (upd eqb k v m) = Some v.
  Proof.
    intros k v m. induction m as [|[k' v'] t IH]; cbn [upd lookup].
    - rewrite eqb_refl'. reflexivity.
    - destruct (eqb k k') eqn:E; cbn [lookup].
      + rewrite eqb_refl'. reflexivity.
      + rewrite E. exact IH.
  Qed.

  Lemma lookup_upd_neq : forall k k' (v : V) m, k' <> k -> lookup eqb k' (upd eqb k v m) = lookup eqb k' m.
  Proof.
    intros k k' v m Hn. induction m as [|[k0 v0] t IH]; cbn [upd lookup].
    - rewrite (eqb_neq _ _ Hn). reflexivity.
    - destruct (eqb k k0) eqn:E; cbn [lookup].
      + apply eqb_ok in E. subst k0. rewrite (eqb_neq _ _ Hn). reflexivity.
      + destruct (eqb k' k0); [reflexivity|exact IH].
  Qed.

  Lemma lookup_upd_same : forall k (v : V) m k', lookup eqb k m = Some v ->
    lookup eqb k' (upd eqb k v m) = lookup eqb k' m.
  Proof.
    intros k v m k' H. destruct (eqb k' k) eqn:E.
    - apply eqb_ok in E. subst k'. rewrite lookup_upd_eq. symmetry. exact H.
    - apply lookup_upd_neq. intro Hc. subst k'. rewrite eqb_refl' in E. discriminate.
  Qed.

  Lemma lookup_upd_some : forall k (v : V) m k', lookup eqb k' m <> None -> lookup eqb k' (upd eqb k v m) <> None.
  Proof.
    intros k v m k' H. destruct (eqb k' k) eqn:E.
    - apply eqb_ok in E. subst k'. rewrite lookup_upd_eq. discriminate.
    - rewrite lookup_upd_neq; [exact H|]. intro Hc. subst k'. rewrite eqb_refl' in E. discriminate.
  Qed.

  Lemma keys_upd : forall k (v : V) m k', In k' (map fst (upd eqb k v m)) <-> k' = k \/ In k' (map fst m).
  Proof.
    intros k v m k'. induction m as [|[k0 v0] t IH]; cbn [upd map fst In].
    - intuition.
    - destruct (eqb k k0) eqn:E; cbn [map fst In].
      + apply eqb_ok in E. subst k0. intuition.
      + rewrite IH. intuition.
  Qed.

  Lemma keys_upd_nodup : forall k (v : V) m, NoDup (map fst m) -> NoDup (map fst (upd eqb k v m)).
  Proof.
    intros k v m. induction m as [|[k0 v0] t IH]; cbn [upd map fst]; intro H.
    - constructor; [intros []|constructor].
    - inversion H as [|? ? Hn Ht]; subst. destruct (eqb k k0) eqn:E; cbn [map fst].
      + apply eqb_ok in E. subst k0. constructor; assumption.
      + constructor; [|apply IH; exact Ht].
        rewrite keys_upd. intros [Hc|Hc]; [|contradiction].
        subst k0. rewrite eqb_refl' in E. discriminate.
  Qed.

  Lemma lookup_In : forall k (v : V) m, NoDup (map fst m) -> In (k, v) m -> lookup eqb k m = Some v.
  Proof.
    intros k v m. induction m as [|[k0 v0] t IH]; cbn [map fst lookup In]; intros Hnd Hin; [contradiction|].
    inversion Hnd as [|? ? Hn Ht]; subst. destruct Hin as [Hin|Hin].
    - inversion Hin; subst. rewrite eqb_refl'. reflexivity.
    - destruct (eqb k k0) eqn:E; [|apply IH; assumption].
      apply eqb_ok in E. subst k0. exfalso. apply Hn. change k with (fst (k, v)). apply in_map. exact Hin.
  Qed.

  Lemma lookup_key : forall k m, lookup eqb k m <> None <-> In k (map fst (m : list (K * V))).
  Proof.
    intros k m. induction m as [|[k0 v0] t IH]; cbn [lookup map fst In].
    - intuition.
    - destruct (eqb k k0) eqn:E.
      + apply eqb_ok in E. subst k0. split; [intros _; left; reflexivity|intros _; discriminate].
      + rewrite IH. split; [intro H; right; exact H|intros [H|H]; [|exact H]].
        subst k0. rewrite eqb_refl' in E. discriminate.
  Qed.
End AListFacts.

Lemma Neqb_ok : forall a b : N, (a =? b) = true <-> a = b.
Proof. intros. apply N.eqb_eq. Qed.

Lemma list_eqb_ok : forall a b, list_eqb a b = true <-> a = b.
Proof.
  induction a as [|x a IH]; destruct b as [|y b]; cbn [list_eqb]; try (split; [discriminate|discriminate]); [tauto|].
  rewrite andb_true_iff, N.eqb_eq, IH. split; [intros [-> ->]; reflexivity|intro H; inversion H; auto].
Qed.

Lemma body_eqb_ok : forall a b, body_eqb a b = true <-> a = b.
Proof.
  intros [ka la] [kb lb]. unfold body_eqb; cbn [bkey bkids].
  rewrite andb_true_iff, N.eqb_eq, list_eqb_ok. split; [intros [-> ->]; reflexivity|intro H; inversion H; auto].
Qed.

Ltac simp_space := cbn [next_id entries type_to_id name_to_id ref_to_id set_entries fst snd] in *.

(* ------------------------------------------------------------------ *)
(* 1. next_id only grows                                                *)
(* ------------------------------------------------------------------ *)
Lemma assign_type_next : forall s r, next_id s <= next_id (fst (assign_type s r)).
Proof.
  intros s [i|[n b|b]]; cbn [assign_type]; [simp_space; lia| |].
  - destruct (lookup N.eqb n (name_to_id s)); simp_space; lia.
  - destruct (lookup body_eqb b (type_to_id s)); simp_space; lia.
Qed.

Lemma run_script_next : forall scr s res, next_id s <= next_id (fst (run_script s res scr)).
Proof.
  induction scr as [|t r IH]; intros s res; cbn [run_script]; [simp_space; lia|].
  destruct (assign_type s (resolve_t s res t)) as [s' i] eqn:E.
  pose proof (assign_type_next s (resolve_t s res t)) as H. rewrite E in H. simp_space.
  specialize (IH s' (res ++ [i])). lia.
Qed.

Lemma finalize_one_next : forall s i, next_id (finalize_one s i) = next_id s.
Proof. intros s i. unfold finalize_one. destruct (lookup N.eqb i (entries s)); reflexivity. Qed.

Lemma fold_finalize_next : forall l s, next_id (fold_left finalize_one l s) = next_id s.
Proof. induction l as [|i l IH]; intro s; cbn [fold_left]; [reflexivity|]. rewrite IH. apply finalize_one_next. Qed.

Lemma finalize_range_next : forall b s, next_id (finalize_range b s) = next_id s.
Proof. intros. apply fold_finalize_next. Qed.

Lemma box_slot_next : forall s pk, next_id s <= next_id (box_slot s pk).
Proof.
  intros s [p k]. unfold box_slot. destruct (lookup N.eqb p (entries s)) as [e|]; [|lia].
  destruct (nth_error (ekids e) k) as [c|]; [|lia].
  destruct (assign_type s (REnt (Unnamed (mkBody BOXKEY [c])))) as [s' bx] eqn:E.
  pose proof (assign_type_next s (REnt (Unnamed (mkBody BOXKEY [c])))) as H. rewrite E in H. simp_space. exact H.
Qed.

Lemma fold_box_next : forall l s, next_id s <= next_id (fold_left box_slot l s).
Proof.
  induction l as [|pk l IH]; intro s; cbn [fold_left]; [lia|].
  pose proof (box_slot_next s pk). specialize (IH (box_slot s pk)). lia.
Qed.

Lemma convert_def_next : forall s rid d, next_id s <= next_id (convert_def s rid d).
Proof.
  intros s rid d. unfold convert_def.
  destruct (run_script s [] (d_script d)) as [s' res] eqn:E.
  pose proof (run_script_next (d_script d) s []) as H. rewrite E in H. simp_space.
  destruct (d_ins d); simp_space; exact H.
Qed.

Lemma convert_defs_next : forall defs s rid, next_id s <= next_id (convert_defs s rid defs).
Proof.
  induction defs as [|d r IH]; intros s rid; cbn [convert_defs]; [lia|].
  pose proof (convert_def_next s rid d). specialize (IH (convert_def s rid d) (rid + 1)). lia.
Qed.

Lemma refs_err_next : forall s defs done partial,
  next_id s + N.of_nat (length defs) <= next_id (fst (refs_err s defs done partial)).
Proof.
  intros. unfold refs_err. cbn [fst].
  pose proof (run_script_next partial (convert_defs (reserve s defs) (next_id s) (firstn done defs)) []).
  pose proof (convert_defs_next (firstn done defs) (reserve s defs) (next_id s)).
  unfold reserve in *. simp_space. lia.
Qed.

Lemma refs_ok_next : forall s defs boxes ret,
  next_id s + N.of_nat (length defs) <= next_id (fst (refs_ok s defs boxes ret)).
Proof.
  intros. unfold refs_ok. cbn [fst]. rewrite finalize_range_next.
  pose proof (fold_box_next boxes (convert_defs (reserve s defs) (next_id s) defs)).
  pose proof (convert_defs_next defs (reserve s defs) (next_id s)).
  unfold reserve in *. simp_space. lia.
Qed.

Lemma run_call_next : forall s c, next_id s <= next_id (fst (run_call s c)).
Proof.
  intros s [scr|defs boxes ret|defs done partial]; cbn [run_call].
  - unfold add_type. destruct (run_script s [] scr) as [s' res] eqn:E. cbn [fst].
    rewrite finalize_range_next. pose proof (run_script_next scr s []) as H. rewrite E in H. exact H.
  - destruct (batch_dup defs).
    + pose proof (refs_err_next s defs (S n) []). lia.
    + destruct (created_dup _ _).
      * pose proof (refs_err_next s defs (length defs) []). lia.
      * pose proof (refs_ok_next s defs boxes ret). lia.
  - pose proof (refs_err_next s defs done partial). lia.
Qed.

Lemma next_id_monotone : forall h s, next_id s <= next_id (run_history s h).
Proof.
  induction h as [|c h IH]; intro s; unfold run_history in *; cbn [fold_left]; [lia|].
  pose proof (run_call_next s c). specialize (IH (fst (run_call s c))). lia.
Qed.

(* a batch allocates one id per definition, whatever it contains and whether or
   not it is rejected *)
Lemma add_refs_allocates : forall s defs boxes ret,
  next_id s + N.of_nat (length defs) <= next_id (fst (run_call s (AddRefs defs boxes ret))).
Proof.
  intros. cbn [run_call]. destruct (batch_dup defs); [apply refs_err_next|].
  destruct (created_dup _ _); [apply refs_err_next|apply refs_ok_next].
Qed.

(* ------------------------------------------------------------------ *)
(* 2. entries below a bound are never written                           *)
(* ------------------------------------------------------------------ *)
Definition kept (b : N) (s s' : space) : Prop :=
  b <= next_id s' /\ forall i, i < b -> lookup N.eqb i (entries s') = lookup N.eqb i (entries s).

Lemma kept_refl : forall b s, b <= next_id s -> kept b s s.
Proof. intros. split; [assumption|reflexivity]. Qed.

Lemma kept_trans : forall b s1 s2 s3, kept b s1 s2 -> kept b s2 s3 -> kept b s1 s3.
Proof. intros b s1 s2 s3 [H1 H2] [H3 H4]. split; [assumption|]. intros i Hi. rewrite H4, H2; auto. Qed.

Lemma assign_type_kept : forall b s r, b <= next_id s -> kept b s (fst (assign_type s r)).
Proof.
  intros b s r Hb. split; [pose proof (assign_type_next s r); lia|].
  intros i Hi. destruct r as [j|[n bd|bd]]; cbn [assign_type]; [reflexivity| |].
  - destruct (lookup N.eqb n (name_to_id s)); simp_space; [reflexivity|].
    apply (lookup_upd_neq N.eqb Neqb_ok). lia.
  - destruct (lookup body_eqb bd (type_to_id s)); simp_space; [reflexivity|].
    apply (lookup_upd_neq N.eqb Neqb_ok). lia.
Qed.

Lemma run_script_kept : forall scr b s res, b <= next_id s -> kept b s (fst (run_script s res scr)).
Proof.
  induction scr as [|t r IH]; intros b s res Hb; cbn [run_script]; [apply kept_refl; exact Hb|].
  destruct (assign_type s (resolve_t s res t)) as [s' i] eqn:E.
  pose proof (assign_type_kept b s (resolve_t s res t) Hb) as H. rewrite E in H. cbn [fst] in H.
  eapply kept_trans; [exact H|]. apply IH. apply H.
Qed.

Lemma finalize_one_lookup : forall s i k, lookup N.eqb k (entries (finalize_one s i)) = lookup N.eqb k (entries s).
Proof.
  intros s i k. unfold finalize_one. destruct (lookup N.eqb i (entries s)) as [e|] eqn:E; [|reflexivity].
  simp_space. apply (lookup_upd_same N.eqb Neqb_ok). exact E.
Qed.

Lemma fold_finalize_lookup : forall l s k,
  lookup N.eqb k (entries (fold_left finalize_one l s)) = lookup N.eqb k (entries s).
Proof. induction l as [|i l IH]; intros s k; cbn [fold_left]; [reflexivity|]. rewrite IH. apply finalize_one_lookup. Qed.

Lemma finalize_range_lookup : forall b s k,
  lookup N.eqb k (entries (finalize_range b s)) = lookup N.eqb k (entries s).
Proof. intros. apply fold_finalize_lookup. Qed.

Lemma finalize_range_kept : forall b base s, b <= next_id s -> kept b s (finalize_range base s).
Proof. intros. split; [rewrite finalize_range_next; assumption|]. intros. apply finalize_range_lookup. Qed.

Lemma box_slot_kept : forall b s pk, b <= next_id s -> b <= fst pk -> kept b s (box_slot s pk).
Proof.
  intros b s [p k] Hb Hp. cbn [fst] in Hp. unfold box_slot.
  destruct (lookup N.eqb p (entries s)) as [e|]; [|apply kept_refl; exact Hb].
  destruct (nth_error (ekids e) k) as [c|]; [|apply kept_refl; exact Hb].
  destruct (assign_type s (REnt (Unnamed (mkBody BOXKEY [c])))) as [s' bx] eqn:E.
  pose proof (assign_type_kept b s (REnt (Unnamed (mkBody BOXKEY [c]))) Hb) as [H1 H2]. rewrite E in H1, H2. cbn [fst] in H1, H2.
  split; simp_space; [exact H1|]. intros i Hi.
  rewrite (lookup_upd_neq N.eqb Neqb_ok); [apply H2; exact Hi|lia].
Qed.

Lemma fold_box_kept : forall l b s, b <= next_id s -> Forall (fun pk => b <= fst pk) l -> kept b s (fold_left box_slot l s).
Proof.
  induction l as [|pk l IH]; intros b s Hb Hf; cbn [fold_left]; [apply kept_refl; exact Hb|].
  inversion Hf as [|? ? Hpk Hl]; subst.
  pose proof (box_slot_kept b s pk Hb Hpk) as H. eapply kept_trans; [exact H|]. apply IH; [apply H|exact Hl].
Qed.

Lemma convert_def_kept : forall b s rid d, b <= next_id s -> b <= rid -> kept b s (convert_def s rid d).
Proof.
  intros b s rid d Hb Hr. unfold convert_def.
  destruct (run_script s [] (d_script d)) as [s' res] eqn:E.
  pose proof (run_script_kept (d_script d) b s [] Hb) as [H1 H2]. rewrite E in H1, H2. cbn [fst] in H1, H2.
  destruct (d_ins d); (split; simp_space; [exact H1|]); intros i Hi;
    (rewrite (lookup_upd_neq N.eqb Neqb_ok); [apply H2; exact Hi|lia]).
Qed.

Lemma convert_defs_kept : forall defs b s rid, b <= next_id s -> b <= rid -> kept b s (convert_defs s rid defs).
Proof.
  induction defs as [|d r IH]; intros b s rid Hb Hr; cbn [convert_defs]; [apply kept_refl; exact Hb|].
  pose proof (convert_def_kept b s rid d Hb Hr) as H. eapply kept_trans; [exact H|]. apply IH; [apply H|lia].
Qed.

Lemma reserve_kept : forall b s defs, b <= next_id s -> kept b s (reserve s defs).
Proof. intros. split; unfold reserve; simp_space; [lia|reflexivity]. Qed.

(* hypothesis of stability: break_cycles re-points only slots of entries the
   current call created (ids >= the call's base id) *)
Definition boxes_of_call_new (s : space) (c : call) : Prop :=
  match c with
  | AddRefs _ boxes _ => Forall (fun pk => next_id s <= fst pk) boxes
  | _ => True
  end.
Fixpoint boxes_new (s : space) (h : list call) : Prop :=
  match h with
  | [] => True
  | c :: r => boxes_of_call_new s c /\ boxes_new (fst (run_call s c)) r
  end.

Lemma refs_err_kept : forall s defs done partial, kept (next_id s) s (fst (refs_err s defs done partial)).
Proof.
  intros. unfold refs_err. cbn [fst].
  pose proof (reserve_kept (next_id s) s defs (N.le_refl _)) as H1.
  pose proof (convert_defs_kept (firstn done defs) (next_id s) (reserve s defs) (next_id s) (proj1 H1) (N.le_refl _)) as H2.
  pose proof (run_script_kept partial (next_id s) _ [] (proj1 H2)) as H3.
  eapply kept_trans; [exact H1|]. eapply kept_trans; [exact H2|]. exact H3.
Qed.

Lemma run_call_kept : forall s c, boxes_of_call_new s c -> kept (next_id s) s (fst (run_call s c)).
Proof.
  intros s [scr|defs boxes ret|defs done partial] Hc; cbn [run_call].
  - unfold add_type. destruct (run_script s [] scr) as [s' res] eqn:E. cbn [fst].
    pose proof (run_script_kept scr (next_id s) s [] (N.le_refl _)) as H. rewrite E in H. cbn [fst] in H.
    eapply kept_trans; [exact H|]. apply finalize_range_kept. apply H.
  - destruct (batch_dup defs); [apply refs_err_kept|].
    destruct (created_dup _ _); [apply refs_err_kept|]. unfold refs_ok. cbn [fst].
    cbn [boxes_of_call_new] in Hc.
    pose proof (reserve_kept (next_id s) s defs (N.le_refl _)) as H1.
    pose proof (convert_defs_kept defs (next_id s) (reserve s defs) (next_id s) (proj1 H1) (N.le_refl _)) as H2.
    pose proof (fold_box_kept boxes (next_id s) _ (proj1 H2) Hc) as H3.
    eapply kept_trans; [exact H1|]. eapply kept_trans; [exact H2|]. eapply kept_trans; [exact H3|].
    apply finalize_range_kept. apply H3.
  - apply refs_err_kept.
Qed.

Lemma kept_weaken : forall b b' s s', b <= b' -> kept b' s s' -> kept b s s'.
Proof. intros b b' s s' Hb [H1 H2]. split; [lia|]. intros i Hi. apply H2. lia. Qed.

Lemma ids_stable : forall h s i,
  i < next_id s -> boxes_new s h ->
  lookup N.eqb i (entries (run_history s h)) = lookup N.eqb i (entries s).
Proof.
  induction h as [|c h IH]; intros s i Hi Hb; unfold run_history in *; cbn [fold_left]; [reflexivity|].
  destruct Hb as [Hc Hr]. pose proof (run_call_kept s c Hc) as [H1 H2].
  rewrite IH; [apply H2; exact Hi|lia|exact Hr].
Qed.

(* ------------------------------------------------------------------ *)
(* 3. one definition per name                                           *)
(* ------------------------------------------------------------------ *)
Definition NamesReg (s : space) : Prop :=
  forall i n b, lookup N.eqb i (entries s) = Some (Named n b) -> lookup N.eqb n (name_to_id s) = Some i.
Definition KeysND (s : space) : Prop := NoDup (map fst (entries s)).
Definition NInv (s : space) : Prop := NamesReg s /\ KeysND s.

Lemma NInv_empty : NInv empty.
Proof. split; [intros i n b H; discriminate|constructor]. Qed.

Lemma lookup_upd_cases : forall {V} k k' (v : V) m,
  lookup N.eqb k' (upd N.eqb k v m) = if k' =? k then Some v else lookup N.eqb k' m.
Proof.
  intros V k k' v m. destruct (k' =? k) eqn:E.
  - apply N.eqb_eq in E. subst. apply (lookup_upd_eq N.eqb Neqb_ok).
  - apply N.eqb_neq in E. apply (lookup_upd_neq N.eqb Neqb_ok). exact E.
Qed.

Lemma assign_type_NInv : forall s r, NInv s -> NInv (fst (assign_type s r)).
Proof.
  intros s r [HR HK]. destruct r as [j|[n bd|bd]]; cbn [assign_type]; [split; assumption| |].
  - destruct (lookup N.eqb n (name_to_id s)) eqn:En; [split; assumption|]. split.
    + intros i n' b'. simp_space. rewrite !lookup_upd_cases.
      destruct (i =? next_id s) eqn:Ei.
      * intro H. inversion H; subst. rewrite N.eqb_refl. apply N.eqb_eq in Ei. subst. reflexivity.
      * intro H. apply HR in H. destruct (n' =? n) eqn:Enn; [|exact H].
        apply N.eqb_eq in Enn. subst. rewrite En in H. discriminate.
    + unfold KeysND. simp_space. apply (keys_upd_nodup N.eqb Neqb_ok). exact HK.
  - destruct (lookup body_eqb bd (type_to_id s)) eqn:En; [split; assumption|]. split.
    + intros i n' b'. simp_space. rewrite lookup_upd_cases.
      destruct (i =? next_id s); [discriminate|]. apply HR.
    + unfold KeysND. simp_space. apply (keys_upd_nodup N.eqb Neqb_ok). exact HK.
Qed.

Lemma run_script_NInv : forall scr s res, NInv s -> NInv (fst (run_script s res scr)).
Proof.
  induction scr as [|t r IH]; intros s res H; cbn [run_script]; [exact H|].
  destruct (assign_type s (resolve_t s res t)) as [s' i] eqn:E.
  apply IH. pose proof (assign_type_NInv s (resolve_t s res t) H) as H'. rewrite E in H'. exact H'.
Qed.

Lemma finalize_one_names : forall s i, name_to_id (finalize_one s i) = name_to_id s
  /\ type_to_id (finalize_one s i) = type_to_id s /\ ref_to_id (finalize_one s i) = ref_to_id s.
Proof. intros. unfold finalize_one. destruct (lookup N.eqb i (entries s)); auto. Qed.

Lemma finalize_one_NInv : forall s i, NInv s -> NInv (finalize_one s i).
Proof.
  intros s i [HR HK]. split.
  - intros j n b. rewrite finalize_one_lookup. destruct (finalize_one_names s i) as [-> _]. apply HR.
  - unfold KeysND, finalize_one. destruct (lookup N.eqb i (entries s)); [|exact HK].
    simp_space. apply (keys_upd_nodup N.eqb Neqb_ok). exact HK.
Qed.

Lemma finalize_range_NInv : forall b s, NInv s -> NInv (finalize_range b s).
Proof.
  intros b s. unfold finalize_range. generalize (range b (N.to_nat (next_id s - b))).
  intro l. revert s. induction l as [|i l IH]; intros s H; cbn [fold_left]; [exact H|].
  apply IH. apply finalize_one_NInv. exact H.
Qed.

Lemma with_kids_name : forall e ks, ename (with_kids e ks) = ename e.
Proof. intros [n b|b] ks; reflexivity. Qed.

Lemma box_slot_NInv : forall s pk, NInv s -> NInv (box_slot s pk).
Proof.
  intros s [p k] H. unfold box_slot.
  destruct (lookup N.eqb p (entries s)) as [e|] eqn:Ep; [|exact H].
  destruct (nth_error (ekids e) k) as [c|]; [|exact H].
  destruct (assign_type s (REnt (Unnamed (mkBody BOXKEY [c])))) as [s' bx] eqn:E.
  pose proof (assign_type_NInv s (REnt (Unnamed (mkBody BOXKEY [c]))) H) as [HR' HK']. rewrite E in HR', HK'. cbn [fst] in HR', HK'.
  assert (Hn : name_to_id s' = name_to_id s).
  { cbn [assign_type] in E. destruct (lookup body_eqb (mkBody BOXKEY [c]) (type_to_id s)); inversion E; reflexivity. }
  split.
  - intros i n b. simp_space. rewrite lookup_upd_cases. destruct (i =? p) eqn:Ei; [|apply HR'].
    apply N.eqb_eq in Ei. subst i. intro Hw. inversion Hw as [Hw'].
    destruct e as [n0 b0|b0]; cbn [with_kids] in Hw'; [|discriminate]. inversion Hw'; subst.
    rewrite Hn. apply (proj1 H) in Ep. exact Ep.
  - unfold KeysND. simp_space. apply (keys_upd_nodup N.eqb Neqb_ok). exact HK'.
Qed.

Lemma fold_box_NInv : forall l s, NInv s -> NInv (fold_left box_slot l s).
Proof. induction l as [|pk l IH]; intros s H; cbn [fold_left]; [exact H|]. apply IH. apply box_slot_NInv. exact H. Qed.

(* the side condition: the type name a definition is inserted under is not registered yet *)
Definition fresh_def (s : space) (d : defn) : Prop :=
  match d_ins d with
  | InsNamed n _ => lookup N.eqb n (name_to_id (fst (run_script s [] (d_script d)))) = None
  | InsRaw _ => True
  end.
Fixpoint fresh_defs (s : space) (rid : id) (defs : list defn) : Prop :=
  match defs with
  | [] => True
  | d :: r => fresh_def s d /\ fresh_defs (convert_def s rid d) (rid + 1) r
  end.
Definition fresh_call (s : space) (c : call) : Prop :=
  match c with
  | AddType _ => True
  | AddRefs defs _ _ =>
      match batch_dup defs with
      | Some i => fresh_defs (reserve s defs) (next_id s) (firstn (S i) defs)   (* rejected batch: never holds, see below *)
      | None => fresh_defs (reserve s defs) (next_id s) defs
      end
  | AddRefsErr defs done _ => fresh_defs (reserve s defs) (next_id s) (firstn done defs)
  end.
Fixpoint fresh_history (s : space) (h : list call) : Prop :=
  match h with
  | [] => True
  | c :: r => fresh_call s c /\ fresh_history (fst (run_call s c)) r
  end.

Lemma convert_def_NInv : forall s rid d, NInv s -> fresh_def s d -> NInv (convert_def s rid d).
Proof.
  intros s rid d H Hf. unfold convert_def, fresh_def in *.
  destruct (run_script s [] (d_script d)) as [s' res] eqn:E.
  pose proof (run_script_NInv (d_script d) s [] H) as [HR HK]. rewrite E in HR, HK. cbn [fst] in HR, HK, Hf.
  destruct (d_ins d) as [n b|b]; split.
  - intros i n' b'. simp_space. rewrite !lookup_upd_cases. destruct (i =? rid) eqn:Ei.
    + intro Hw. inversion Hw; subst. rewrite N.eqb_refl. apply N.eqb_eq in Ei. subst. reflexivity.
    + intro Hw. apply HR in Hw. destruct (n' =? n) eqn:Enn; [|exact Hw].
      apply N.eqb_eq in Enn. subst. rewrite Hf in Hw. discriminate.
  - unfold KeysND. simp_space. apply (keys_upd_nodup N.eqb Neqb_ok). exact HK.
  - intros i n' b'. simp_space. rewrite lookup_upd_cases. destruct (i =? rid); [discriminate|apply HR].
  - unfold KeysND. simp_space. apply (keys_upd_nodup N.eqb Neqb_ok). exact HK.
Qed.

Lemma convert_defs_NInv : forall defs s rid, NInv s -> fresh_defs s rid defs -> NInv (convert_defs s rid defs).
Proof.
  induction defs as [|d r IH]; intros s rid H Hf; cbn [convert_defs]; [exact H|].
  destruct Hf as [Hd Hr]. apply IH; [apply convert_def_NInv; assumption|exact Hr].
Qed.

Lemma reserve_NInv : forall s defs, NInv s -> NInv (reserve s defs).
Proof. intros s defs [HR HK]. split; [exact HR|exact HK]. Qed.

Lemma refs_err_NInv : forall s defs done partial, NInv s ->
  fresh_defs (reserve s defs) (next_id s) (firstn done defs) -> NInv (fst (refs_err s defs done partial)).
Proof.
  intros s defs done partial H Hf. unfold refs_err. cbn [fst].
  apply run_script_NInv, convert_defs_NInv; [apply reserve_NInv; exact H|exact Hf].
Qed.

Lemma run_call_NInv : forall s c, NInv s -> fresh_call s c -> NInv (fst (run_call s c)).
Proof.
  intros s [scr|defs boxes ret|defs done partial] H Hf; cbn [run_call fresh_call] in *.
  - unfold add_type. destruct (run_script s [] scr) as [s' res] eqn:E. cbn [fst].
    apply finalize_range_NInv. pose proof (run_script_NInv scr s [] H) as H'. rewrite E in H'. exact H'.
  - destruct (batch_dup defs); [apply refs_err_NInv; assumption|].
    destruct (created_dup _ _); [apply refs_err_NInv; [exact H|rewrite firstn_all; exact Hf]|]. unfold refs_ok. cbn [fst].
    apply finalize_range_NInv, fold_box_NInv, convert_defs_NInv; [apply reserve_NInv; exact H|exact Hf].
  - apply refs_err_NInv; assumption.
Qed.

Lemma run_history_NInv : forall h s, NInv s -> fresh_history s h -> NInv (run_history s h).
Proof.
  induction h as [|c h IH]; intros s H Hf; unfold run_history in *; cbn [fold_left]; [exact H|].
  destruct Hf as [Hc Hr]. apply IH; [apply run_call_NInv; assumption|exact Hr].
Qed.

Lemma in_def_names : forall n l,
  In n (flat_map (fun ie : id * entry => match ename (snd ie) with Some n => [n] | None => [] end) l) ->
  exists i b, In (i, Named n b) l.
Proof.
  intros n l. induction l as [|[i e] t IH]; cbn [flat_map]; [intros []|].
  rewrite in_app_iff. intros [H|H].
  - destruct e as [n0 b0|b0]; cbn [snd ename] in H; [|destruct H].
    destruct H as [H|[]]. subst. exists i, b0. left. reflexivity.
  - destruct (IH H) as [j [b Hj]]. exists j, b. right. exact Hj.
Qed.

Lemma nodup_names_gen : forall (f : name -> option id) (l : list (id * entry)),
  NoDup (map fst l) ->
  (forall i n b, In (i, Named n b) l -> f n = Some i) ->
  NoDup (flat_map (fun ie : id * entry => match ename (snd ie) with Some n => [n] | None => [] end) l).
Proof.
  intros f l. induction l as [|[i e] t IH]; intros HK Hin; cbn [flat_map]; [constructor|].
  cbn [map fst] in HK. inversion HK as [|? ? Hni Ht]; subst.
  assert (IHt : NoDup (flat_map (fun ie : id * entry => match ename (snd ie) with Some n => [n] | None => [] end) t)).
  { apply IH; [exact Ht|]. intros j n b Hj. apply (Hin j n b). right. exact Hj. }
  destruct e as [n b|b]; cbn [snd ename app]; [|exact IHt].
  constructor; [|exact IHt]. intro Hc. apply in_def_names in Hc. destruct Hc as [j [b' Hj]].
  assert (H1 : f n = Some i) by (apply (Hin i n b); left; reflexivity).
  assert (H2 : f n = Some j) by (apply (Hin j n b'); right; exact Hj).
  rewrite H1 in H2. inversion H2; subst. apply Hni. change j with (fst (j, Named n b')). apply in_map. exact Hj.
Qed.

Lemma NInv_nodup : forall s, NInv s -> NoDup (def_names s).
Proof.
  intros s [HR HK]. unfold def_names.
  apply (nodup_names_gen (fun n => lookup N.eqb n (name_to_id s))); [exact HK|].
  intros i n b Hin. apply (HR i n b). apply (lookup_In N.eqb Neqb_ok); [exact HK|exact Hin].
Qed.

Lemma names_unique : forall h, fresh_history empty h -> NoDup (def_names (run_history empty h)).
Proof. intros h Hf. apply NInv_nodup. apply run_history_NInv; [apply NInv_empty|exact Hf]. Qed.

(* ------------------------------------------------------------------ *)
(* 4. re-adding                                                         *)
(* ------------------------------------------------------------------ *)
(* s' extends s: every name / structure registered in s resolves to the same id
   in s', and `$ref`s resolve identically *)
Definition ext (s s' : space) : Prop :=
  (forall n i, lookup N.eqb n (name_to_id s) = Some i -> lookup N.eqb n (name_to_id s') = Some i)
  /\ (forall b i, lookup body_eqb b (type_to_id s) = Some i -> lookup body_eqb b (type_to_id s') = Some i)
  /\ ref_to_id s' = ref_to_id s.

Lemma ext_refl : forall s, ext s s.
Proof. intro s. repeat split; auto. Qed.

Lemma ext_trans : forall a b c, ext a b -> ext b c -> ext a c.
Proof.
  intros a b c [H1 [H2 H3]] [H4 [H5 H6]]. repeat split; [intros; auto|intros; auto|congruence].
Qed.

Lemma assign_type_ext : forall s r, ext s (fst (assign_type s r)).
Proof.
  intros s [j|[n bd|bd]]; cbn [assign_type]; [apply ext_refl| |].
  - destruct (lookup N.eqb n (name_to_id s)) eqn:En; [apply ext_refl|]. repeat split; simp_space; auto.
    intros n' i H. rewrite (lookup_upd_neq N.eqb Neqb_ok); [exact H|]. intro Hc. subst. rewrite En in H. discriminate.
  - destruct (lookup body_eqb bd (type_to_id s)) eqn:En; [apply ext_refl|]. repeat split; simp_space; auto.
    intros b' i H. rewrite (lookup_upd_neq body_eqb body_eqb_ok); [exact H|]. intro Hc. subst. rewrite En in H. discriminate.
Qed.

(* whatever assign_type answered, it answers again -- without allocating -- in every extension *)
Lemma assign_type_hit : forall s r s' i s2, assign_type s r = (s', i) -> ext s' s2 -> assign_type s2 r = (s2, i).
Proof.
  intros s r s' i s2 E [Hn [Ht _]]. destruct r as [j|[n bd|bd]]; cbn [assign_type] in *.
  - inversion E; reflexivity.
  - assert (H : lookup N.eqb n (name_to_id s') = Some i).
    { destruct (lookup N.eqb n (name_to_id s)) eqn:En; inversion E; subst; simp_space; [exact En|].
      apply (lookup_upd_eq N.eqb Neqb_ok). }
    rewrite (Hn _ _ H). reflexivity.
  - assert (H : lookup body_eqb bd (type_to_id s') = Some i).
    { destruct (lookup body_eqb bd (type_to_id s)) eqn:En; inversion E; subst; simp_space; [exact En|].
      apply (lookup_upd_eq body_eqb body_eqb_ok). }
    rewrite (Ht _ _ H). reflexivity.
Qed.

Lemma run_script_ext : forall scr s res, ext s (fst (run_script s res scr)).
Proof.
  induction scr as [|t r IH]; intros s res; cbn [run_script]; [apply ext_refl|].
  destruct (assign_type s (resolve_t s res t)) as [s' i] eqn:E.
  pose proof (assign_type_ext s (resolve_t s res t)) as H. rewrite E in H. cbn [fst] in H.
  eapply ext_trans; [exact H|apply IH].
Qed.

Lemma resolve_t_ref : forall s s2 res t, ref_to_id s2 = ref_to_id s -> resolve_t s2 res t = resolve_t s res t.
Proof.
  intros s s2 res t H.
  assert (Hr : forall c, resolve s2 res c = resolve s res c).
  { intros [k|i|r]; cbn [resolve]; [reflexivity|reflexivity|rewrite H; reflexivity]. }
  assert (Hb : forall b, resolve_body s2 res b = resolve_body s res b).
  { intro b. unfold resolve_body. f_equal. apply map_ext. exact Hr. }
  destruct t as [n b|b|c]; cbn [resolve_t]; rewrite ?Hb, ?Hr; reflexivity.
Qed.

Lemma rerun : forall scr s res s' res' s2,
  run_script s res scr = (s', res') -> ext s' s2 -> run_script s2 res scr = (s2, res').
Proof.
  induction scr as [|t r IH]; intros s res s' res' s2 E Hx; cbn [run_script] in *.
  - inversion E; reflexivity.
  - destruct (assign_type s (resolve_t s res t)) as [sa i] eqn:Ea.
    pose proof (run_script_ext r sa (res ++ [i])) as Hsa. rewrite E in Hsa. cbn [fst] in Hsa.
    pose proof (assign_type_ext s (resolve_t s res t)) as Hs. rewrite Ea in Hs. cbn [fst] in Hs.
    assert (Hx2 : ext sa s2) by (eapply ext_trans; eassumption).
    assert (Href : ref_to_id s2 = ref_to_id s).
    { destruct Hx2 as [_ [_ H1]]. destruct Hs as [_ [_ H2]]. congruence. }
    rewrite (resolve_t_ref s s2 res t Href).
    rewrite (assign_type_hit s _ sa i s2 Ea Hx2).
    eapply IH; eassumption.
Qed.

Lemma fold_finalize_idx : forall l s, name_to_id (fold_left finalize_one l s) = name_to_id s
  /\ type_to_id (fold_left finalize_one l s) = type_to_id s /\ ref_to_id (fold_left finalize_one l s) = ref_to_id s.
Proof.
  induction l as [|i l IH]; intro s; cbn [fold_left]; [auto|].
  destruct (IH (finalize_one s i)) as [-> [-> ->]]. apply finalize_one_names.
Qed.

Lemma finalize_range_ext : forall b s, ext s (finalize_range b s) /\ ext (finalize_range b s) s.
Proof.
  intros b s. unfold finalize_range, ext.
  destruct (fold_finalize_idx (range b (N.to_nat (next_id s - b))) s) as [-> [-> ->]]. repeat split; auto.
Qed.

Lemma finalize_range_nil : forall s, finalize_range (next_id s) s = s.
Proof. intro s. unfold finalize_range. rewrite N.sub_diag. reflexivity. Qed.

Lemma readd_same_id : forall s scr s1 i1 s2,
  add_type s scr = (s1, i1) -> ext s1 s2 -> add_type s2 scr = (s2, i1).
Proof.
  intros s scr s1 i1 s2 E Hx. unfold add_type in *.
  destruct (run_script s [] scr) as [s' res] eqn:Er. inversion E; subst.
  assert (Hx' : ext s' s2) by (eapply ext_trans; [apply finalize_range_ext|exact Hx]).
  rewrite (rerun scr s [] s' res s2 Er Hx'). rewrite finalize_range_nil. reflexivity.
Qed.

Definition is_add_type (c : call) : Prop := match c with AddType _ => True | _ => False end.

Lemma add_type_history_ext : forall h s, Forall is_add_type h -> ext s (run_history s h).
Proof.
  induction h as [|c h IH]; intros s Hf; unfold run_history in *; cbn [fold_left]; [apply ext_refl|].
  inversion Hf as [|? ? Hc Hh]; subst. destruct c as [scr| |]; cbn [is_add_type] in Hc; try contradiction.
  eapply ext_trans; [|apply IH; exact Hh]. cbn [run_call]. unfold add_type.
  destruct (run_script s [] scr) as [s' res] eqn:Er. cbn [fst].
  pose proof (run_script_ext scr s []) as H. rewrite Er in H. cbn [fst] in H.
  eapply ext_trans; [exact H|apply finalize_range_ext].
Qed.

Lemma readd_same_id_addtype_history : forall s scr s1 i1 h,
  add_type s scr = (s1, i1) -> Forall is_add_type h ->
  add_type (run_history s1 h) scr = (run_history s1 h, i1).
Proof. intros. eapply readd_same_id; [eassumption|apply add_type_history_ext; assumption]. Qed.

(* ------------------------------------------------------------------ *)
(* 5. every id resolves, every child id resolves                        *)
(* ------------------------------------------------------------------ *)
Definition inr (s : space) (i : id) : Prop := 1 <= i < next_id s.

Definition Bnd (s : space) : Prop :=
  1 <= next_id s
  /\ (forall i e, lookup N.eqb i (entries s) = Some e -> inr s i /\ Forall (inr s) (ekids e))
  /\ (forall n i, lookup N.eqb n (name_to_id s) = Some i -> inr s i)
  /\ (forall b i, lookup body_eqb b (type_to_id s) = Some i -> inr s i)
  /\ (forall r i, lookup N.eqb r (ref_to_id s) = Some i -> inr s i).

(* ids in [1,next_id) outside the hole [lo,hi) have an entry *)
Definition DomEx (lo hi : N) (s : space) : Prop :=
  forall i, inr s i -> ~ (lo <= i < hi) -> lookup N.eqb i (entries s) <> None.
Definition Dom (s : space) : Prop := DomEx 0 0 s.
Definition Closed (s : space) : Prop :=
  forall i e c, lookup N.eqb i (entries s) = Some e -> In c (ekids e) -> lookup N.eqb c (entries s) <> None.

Lemma inr_mono : forall s s' i, next_id s <= next_id s' -> inr s i -> inr s' i.
Proof. unfold inr. intros. lia. Qed.

Lemma Forall_inr_mono : forall s s' l, next_id s <= next_id s' -> Forall (inr s) l -> Forall (inr s') l.
Proof. intros s s' l H. apply Forall_impl. intro a. apply inr_mono. exact H. Qed.

Definition rentry_ok (s : space) (r : rentry) : Prop :=
  match r with RRef i => inr s i | REnt e => Forall (inr s) (ekids e) end.

Lemma lookup_upd_cases_b : forall {V} k k' (v : V) m,
  lookup body_eqb k' (upd body_eqb k v m) = if body_eqb k' k then Some v else lookup body_eqb k' m.
Proof.
  intros V k k' v m. destruct (body_eqb k' k) eqn:E.
  - apply body_eqb_ok in E. subst. apply (lookup_upd_eq body_eqb body_eqb_ok).
  - apply (lookup_upd_neq body_eqb body_eqb_ok). intro Hc. subst.
    rewrite (proj2 (body_eqb_ok k k) eq_refl) in E. discriminate.
Qed.

Lemma Bnd_grow : forall s e b' n',
  Bnd s -> Forall (inr s) (ekids e) ->
  (forall n i, lookup N.eqb n n' = Some i -> i = next_id s \/ lookup N.eqb n (name_to_id s) = Some i) ->
  (forall b i, lookup body_eqb b b' = Some i -> i = next_id s \/ lookup body_eqb b (type_to_id s) = Some i) ->
  Bnd (mkSpace (next_id s + 1) (upd N.eqb (next_id s) e (entries s)) b' n' (ref_to_id s)).
Proof.
  intros s e b' n' [H1 [He [Hn [Ht Hr]]]] Hk Hn' Hb'.
  assert (Hl : forall i, inr s i -> inr (mkSpace (next_id s + 1) (upd N.eqb (next_id s) e (entries s)) b' n' (ref_to_id s)) i)
    by (unfold inr; simp_space; intros; lia).
  assert (Hnew : inr (mkSpace (next_id s + 1) (upd N.eqb (next_id s) e (entries s)) b' n' (ref_to_id s)) (next_id s))
    by (unfold inr; simp_space; lia).
  split; [|split; [|split; [|split]]]; simp_space.
  - lia.
  - intros i e0 H. rewrite lookup_upd_cases in H. destruct (i =? next_id s) eqn:Ei.
    + apply N.eqb_eq in Ei. inversion H; subst. split; [exact Hnew|]. eapply Forall_impl; [|exact Hk]. exact Hl.
    + apply He in H. destruct H as [Ha Hb]. split; [apply Hl; exact Ha|]. eapply Forall_impl; [|exact Hb]. exact Hl.
  - intros n i H. destruct (Hn' n i H) as [->|H']; [exact Hnew|apply Hl; eapply Hn; exact H'].
  - intros b i H. destruct (Hb' b i H) as [->|H']; [exact Hnew|apply Hl; eapply Ht; exact H'].
  - intros r i H. apply Hl. eapply Hr; exact H.
Qed.

Lemma assign_type_Bnd : forall s r, Bnd s -> rentry_ok s r ->
  Bnd (fst (assign_type s r)) /\ inr (fst (assign_type s r)) (snd (assign_type s r)).
Proof.
  intros s r HB Hok. pose proof HB as [H1 [He [Hn [Ht Hr]]]].
  destruct r as [j|[n bd|bd]]; cbn [assign_type rentry_ok ekids ebody] in *.
  - split; [exact HB|exact Hok].
  - destruct (lookup N.eqb n (name_to_id s)) eqn:En; cbn [fst snd].
    + split; [exact HB|eapply Hn; exact En].
    + split; [|unfold inr; simp_space; lia].
      apply Bnd_grow; [exact HB|exact Hok| |intros; right; assumption].
      intros n0 i H. rewrite lookup_upd_cases in H. destruct (n0 =? n); [left; inversion H; reflexivity|right; exact H].
  - destruct (lookup body_eqb bd (type_to_id s)) eqn:En; cbn [fst snd].
    + split; [exact HB|eapply Ht; exact En].
    + split; [|unfold inr; simp_space; lia].
      apply Bnd_grow; [exact HB|exact Hok|intros; right; assumption|].
      intros b0 i H. rewrite lookup_upd_cases_b in H. destruct (body_eqb b0 bd); [left; inversion H; reflexivity|right; exact H].
Qed.

Lemma assign_type_DomEx : forall lo hi s r, hi <= next_id s -> DomEx lo hi s -> DomEx lo hi (fst (assign_type s r)).
Proof.
  intros lo hi s r Hh HD.
  assert (Hg : forall e b' n', DomEx lo hi (mkSpace (next_id s + 1) (upd N.eqb (next_id s) e (entries s)) b' n' (ref_to_id s))).
  { intros e b' n' i Hi Hno. unfold inr in Hi. simp_space. rewrite lookup_upd_cases.
    destruct (i =? next_id s) eqn:Ei; [discriminate|]. apply N.eqb_neq in Ei. apply HD; [unfold inr; lia|exact Hno]. }
  destruct r as [j|[n bd|bd]]; cbn [assign_type]; [exact HD| |].
  - destruct (lookup N.eqb n (name_to_id s)); cbn [fst]; [exact HD|apply Hg].
  - destruct (lookup body_eqb bd (type_to_id s)); cbn [fst]; [exact HD|apply Hg].
Qed.

Definition okref (s : space) (res : list id) (c : cref) : Prop := inr s (resolve s res c).
Definition tentry_ok (s : space) (res : list id) (t : tentry) : Prop :=
  match t with
  | TNamed _ b | TUnnamed b => Forall (okref s res) (tkids b)
  | TRef c => okref s res c
  end.
(* what the theorems require of the converter: every id it puts into an entry
   is one it got from an earlier assign_type of the same conversion, from
   ref_to_id, or an id that exists *)
Fixpoint script_ok (s : space) (res : list id) (scr : list tentry) : Prop :=
  match scr with
  | [] => True
  | t :: r => tentry_ok s res t /\
              script_ok (fst (assign_type s (resolve_t s res t))) (res ++ [snd (assign_type s (resolve_t s res t))]) r
  end.

Lemma tentry_rentry_ok : forall s res t, tentry_ok s res t -> rentry_ok s (resolve_t s res t).
Proof.
  intros s res [n b|b|c] H; cbn [tentry_ok resolve_t rentry_ok ekids ebody resolve_body bkids] in *;
    try exact H; apply Forall_map; exact H.
Qed.

Lemma run_script_Bnd : forall scr s res lo hi, Bnd s -> script_ok s res scr -> hi <= next_id s -> DomEx lo hi s ->
  Bnd (fst (run_script s res scr)) /\ DomEx lo hi (fst (run_script s res scr)).
Proof.
  induction scr as [|t r IH]; intros s res lo hi HB Hok Hh HD; cbn [run_script]; [split; assumption|].
  destruct Hok as [Ht Hr].
  pose proof (assign_type_Bnd s _ HB (tentry_rentry_ok s res t Ht)) as [HB' _].
  pose proof (assign_type_DomEx lo hi s (resolve_t s res t) Hh HD) as HD'.
  pose proof (assign_type_next s (resolve_t s res t)) as Hn.
  destruct (assign_type s (resolve_t s res t)) as [s' i] eqn:E. cbn [fst snd] in *.
  apply IH; [exact HB'|exact Hr|lia|exact HD'].
Qed.

Lemma finalize_range_Bnd : forall b s lo hi, Bnd s -> DomEx lo hi s -> Bnd (finalize_range b s) /\ DomEx lo hi (finalize_range b s).
Proof.
  intros b s lo hi [H1 [He [Hn [Ht Hr]]]] HD.
  pose proof (finalize_range_next b s) as Hnx.
  destruct (fold_finalize_idx (range b (N.to_nat (next_id s - b))) s) as [In1 [It1 Ir1]].
  fold (finalize_range b s) in In1, It1, Ir1.
  assert (Hinr : forall i, inr s i <-> inr (finalize_range b s) i) by (unfold inr; rewrite Hnx; tauto).
  split; [split; [|split; [|split; [|split]]]|].
  - rewrite Hnx; exact H1.
  - intros i e H. rewrite finalize_range_lookup in H. apply He in H. destruct H as [Ha Hb].
    split; [apply Hinr; exact Ha|]. eapply Forall_impl; [|exact Hb]. intro a. apply Hinr.
  - intros n i. rewrite In1. intro H. apply Hinr. eapply Hn; exact H.
  - intros n i. rewrite It1. intro H. apply Hinr. eapply Ht; exact H.
  - intros n i. rewrite Ir1. intro H. apply Hinr. eapply Hr; exact H.
  - intros i Hi Hno. rewrite finalize_range_lookup. apply HD; [apply Hinr; exact Hi|exact Hno].
Qed.

Lemma replace_nth_Forall : forall (P : id -> Prop) l k v, Forall P l -> P v -> Forall P (replace_nth k v l).
Proof.
  intros P l. induction l as [|a t IH]; intros k v Hl Hv; destruct k; cbn [replace_nth]; try constructor;
    inversion Hl; subst; auto.
Qed.

Lemma with_kids_kids : forall e ks, ekids (with_kids e ks) = ks.
Proof. intros [n b|b] ks; reflexivity. Qed.

Lemma box_slot_Bnd : forall s pk, Bnd s -> Dom s -> Bnd (box_slot s pk) /\ Dom (box_slot s pk).
Proof.
  intros s [p k] HB HD. unfold box_slot.
  destruct (lookup N.eqb p (entries s)) as [e|] eqn:Ep; [|split; assumption].
  destruct (nth_error (ekids e) k) as [c|] eqn:Ek; [|split; assumption].
  pose proof HB as [_ [He _]]. destruct (He p e Ep) as [Hp Hks].
  assert (Hc : inr s c) by (eapply Forall_forall; [exact Hks|eapply nth_error_In; exact Ek]).
  assert (Hok : rentry_ok s (REnt (Unnamed (mkBody BOXKEY [c])))) by (cbn; constructor; [exact Hc|constructor]).
  pose proof (assign_type_Bnd s _ HB Hok) as [HB' Hbx].
  pose proof (assign_type_DomEx 0 0 s (REnt (Unnamed (mkBody BOXKEY [c]))) (N.le_0_l _) HD) as HD'.
  pose proof (assign_type_next s (REnt (Unnamed (mkBody BOXKEY [c])))) as Hn.
  destruct (assign_type s (REnt (Unnamed (mkBody BOXKEY [c])))) as [s' bx] eqn:E. cbn [fst snd] in *.
  destruct HB' as [H1 [He' [Hn' [Ht' Hr']]]].
  split; [split; [|split; [|split; [|split]]]; simp_space; auto|].
  - intros i e0 H. rewrite lookup_upd_cases in H. destruct (i =? p) eqn:Ei; [|apply He' in H; exact H].
    apply N.eqb_eq in Ei. inversion H; subst. split; [eapply inr_mono; eassumption|].
    rewrite with_kids_kids. apply replace_nth_Forall; [|exact Hbx].
    eapply Forall_inr_mono; [exact Hn|exact Hks].
  - intros i Hi Hno. simp_space. apply (lookup_upd_some N.eqb Neqb_ok). apply HD'; assumption.
Qed.

Lemma fold_box_Bnd : forall l s, Bnd s -> Dom s -> Bnd (fold_left box_slot l s) /\ Dom (fold_left box_slot l s).
Proof.
  induction l as [|pk l IH]; intros s HB HD; cbn [fold_left]; [split; assumption|].
  destruct (box_slot_Bnd s pk HB HD). apply IH; assumption.
Qed.

Definition ins_body (i : ins) : tbody := match i with InsNamed _ b => b | InsRaw b => b end.
Definition def_ok (s : space) (d : defn) : Prop :=
  script_ok s [] (d_script d) /\
  Forall (okref (fst (run_script s [] (d_script d))) (snd (run_script s [] (d_script d)))) (tkids (ins_body (d_ins d))).
Fixpoint defs_ok (s : space) (rid : id) (defs : list defn) : Prop :=
  match defs with
  | [] => True
  | d :: r => def_ok s d /\ defs_ok (convert_def s rid d) (rid + 1) r
  end.

Lemma convert_def_Bnd : forall s rid d hi, Bnd s -> inr s rid -> rid < hi -> hi <= next_id s -> DomEx rid hi s -> def_ok s d ->
  Bnd (convert_def s rid d) /\ DomEx (rid + 1) hi (convert_def s rid d).
Proof.
  intros s rid d hi HB Hrid Hlt Hh HD [Hs Hi]. unfold convert_def.
  pose proof (run_script_Bnd (d_script d) s [] rid hi HB Hs Hh HD) as [HB' HD'].
  pose proof (run_script_next (d_script d) s []) as Hn.
  destruct (run_script s [] (d_script d)) as [s' res] eqn:E. cbn [fst snd] in *.
  assert (Hrid' : inr s' rid) by (eapply inr_mono; eassumption).
  destruct HB' as [H1 [He [Hnm [Ht Hr]]]].
  assert (Hks : forall b, Forall (okref s' res) (tkids b) -> Forall (inr s') (bkids (resolve_body s' res b))).
  { intros b H. unfold resolve_body; cbn [bkids]. apply Forall_map. exact H. }
  assert (HDom : forall e, DomEx (rid + 1) hi (set_entries s' (upd N.eqb rid e (entries s')))).
  { intros e i Hin Hno. simp_space. rewrite lookup_upd_cases. destruct (i =? rid) eqn:Ei; [discriminate|].
    apply N.eqb_neq in Ei. apply HD'; [exact Hin|lia]. }
  assert (HEnt : forall e, Forall (inr s') (ekids e) ->
            forall i e0, lookup N.eqb i (upd N.eqb rid e (entries s')) = Some e0 -> inr s' i /\ Forall (inr s') (ekids e0)).
  { intros e Hke i e0 H. rewrite lookup_upd_cases in H. destruct (i =? rid) eqn:Ei; [|apply He in H; exact H].
    apply N.eqb_eq in Ei. inversion H; subst. split; [exact Hrid'|exact Hke]. }
  destruct (d_ins d) as [n b|b]; cbn [ins_body] in Hi; (split; [split; [|split; [|split; [|split]]]; simp_space; auto|]).
  - apply HEnt. cbn [ekids ebody]. apply Hks. exact Hi.
  - intros n0 i H. rewrite lookup_upd_cases in H. destruct (n0 =? n); [inversion H; subst; exact Hrid'|eapply Hnm; exact H].
  - apply (HDom (Named n (resolve_body s' res b))).
  - apply HEnt. cbn [ekids ebody]. apply Hks. exact Hi.
  - apply HDom.
Qed.

Lemma convert_defs_Bnd : forall defs s rid hi, Bnd s -> 1 <= rid -> rid + N.of_nat (length defs) = hi -> hi <= next_id s ->
  DomEx rid hi s -> defs_ok s rid defs ->
  Bnd (convert_defs s rid defs) /\ Dom (convert_defs s rid defs).
Proof.
  induction defs as [|d r IH]; intros s rid hi HB H1 Hlen Hh HD Hok; cbn [convert_defs].
  - split; [exact HB|]. cbn [length] in Hlen. intros i Hi Hno. apply HD; [exact Hi|lia].
  - destruct Hok as [Hd Hr]. cbn [length] in Hlen.
    assert (Hrid : inr s rid) by (unfold inr; lia).
    destruct (convert_def_Bnd s rid d hi HB Hrid ltac:(lia) Hh HD Hd) as [HB' HD'].
    pose proof (convert_def_next s rid d).
    apply (IH _ (rid + 1) hi); [exact HB'|lia|lia|lia|exact HD'|exact Hr].
Qed.

Lemma reserve_refs_bnd : forall defs m rid M,
  (forall r i, lookup N.eqb r m = Some i -> 1 <= i < M) -> 1 <= rid -> rid + N.of_nat (length defs) <= M ->
  forall r i, lookup N.eqb r (reserve_refs m rid defs) = Some i -> 1 <= i < M.
Proof.
  induction defs as [|d t IH]; intros m rid M Hm H1 Hlen r i; cbn [reserve_refs]; [apply Hm|].
  cbn [length] in Hlen. apply IH; [|lia|lia].
  intros r0 i0 H. rewrite lookup_upd_cases in H. destruct (r0 =? d_key d); [inversion H; subst; lia|eapply Hm; exact H].
Qed.

Lemma reserve_Bnd : forall s defs, Bnd s -> Dom s ->
  Bnd (reserve s defs) /\ DomEx (next_id s) (next_id s + N.of_nat (length defs)) (reserve s defs).
Proof.
  intros s defs [H1 [He [Hn [Ht Hr]]]] HD.
  assert (Hl : forall i, inr s i -> inr (reserve s defs) i) by (unfold inr, reserve; simp_space; intros; lia).
  split; [split; [|split; [|split; [|split]]]; unfold reserve; simp_space|].
  - lia.
  - intros i e H. apply He in H. destruct H as [Ha Hb]. split; [apply Hl in Ha; exact Ha|].
    eapply Forall_impl; [|exact Hb]. exact Hl.
  - intros n i H. apply Hl. eapply Hn; exact H.
  - intros n i H. apply Hl. eapply Ht; exact H.
  - intros r i H. unfold inr; simp_space.
    eapply (reserve_refs_bnd defs (ref_to_id s) (next_id s)); [|exact H1|apply N.le_refl|exact H].
    intros r0 i0 H0. apply Hr in H0. unfold inr in H0. lia.
  - intros i Hi Hno. unfold reserve, inr in *. simp_space. apply HD; [unfold inr; lia|lia].
Qed.

Definition call_ok (s : space) (c : call) : Prop :=
  match c with
  | AddType scr => script_ok s [] scr
  | AddRefs defs _ _ =>
      batch_dup defs = None
      /\ created_dup (next_id s) (convert_defs (reserve s defs) (next_id s) defs) = false
      /\ defs_ok (reserve s defs) (next_id s) defs
  | AddRefsErr _ _ _ => False      (* successful calls only *)
  end.
Fixpoint history_ok (s : space) (h : list call) : Prop :=
  match h with
  | [] => True
  | c :: r => call_ok s c /\ history_ok (fst (run_call s c)) r
  end.

Lemma run_call_Bnd : forall s c, Bnd s -> Dom s -> call_ok s c -> Bnd (fst (run_call s c)) /\ Dom (fst (run_call s c)).
Proof.
  intros s [scr|defs boxes ret|defs done partial] HB HD Hok; cbn [run_call call_ok] in *; [| |contradiction].
  - unfold add_type.
    pose proof (run_script_Bnd scr s [] 0 0 HB Hok (N.le_0_l _) HD) as [HB' HD'].
    destruct (run_script s [] scr) as [s' res]. cbn [fst] in *. apply finalize_range_Bnd; assumption.
  - destruct Hok as [Hnd [Hcd Hok]]. rewrite Hnd, Hcd. unfold refs_ok. cbn [fst].
    destruct (reserve_Bnd s defs HB HD) as [HB1 HD1]. destruct HB as [H1 _].
    destruct (convert_defs_Bnd defs (reserve s defs) (next_id s) (next_id s + N.of_nat (length defs)) HB1 H1 eq_refl
                ltac:(unfold reserve; simp_space; lia) HD1 Hok) as [HB2 HD2].
    destruct (fold_box_Bnd boxes _ HB2 HD2) as [HB3 HD3]. apply finalize_range_Bnd; assumption.
Qed.

Lemma Bnd_empty : Bnd empty /\ Dom empty.
Proof.
  split; [split; [|split; [|split; [|split]]]; cbn; try lia; intros; discriminate|].
  intros i Hi _. unfold inr in Hi. cbn in Hi. lia.
Qed.

Lemma run_history_Bnd : forall h s, Bnd s -> Dom s -> history_ok s h -> Bnd (run_history s h) /\ Dom (run_history s h).
Proof.
  induction h as [|c h IH]; intros s HB HD Hok; unfold run_history in *; cbn [fold_left]; [split; assumption|].
  destruct Hok as [Hc Hr]. destruct (run_call_Bnd s c HB HD Hc). apply IH; assumption.
Qed.

Lemma Bnd_Dom_Closed : forall s, Bnd s -> Dom s -> Closed s.
Proof.
  intros s [_ [He _]] HD i e c Hi Hc. destruct (He i e Hi) as [_ Hk].
  apply HD; [eapply Forall_forall; eassumption|lia].
Qed.

Lemma entries_closed : forall h, history_ok empty h ->
  Closed (run_history empty h) /\ (forall i, 1 <= i < next_id (run_history empty h) -> lookup N.eqb i (entries (run_history empty h)) <> None).
Proof.
  intros h Hok. destruct Bnd_empty as [HB HD]. destruct (run_history_Bnd h empty HB HD Hok) as [HB' HD'].
  split; [apply Bnd_Dom_Closed; assumption|]. intros i Hi. apply HD'; [exact Hi|lia].
Qed.

(* ------------------------------------------------------------------ *)
(* 6. witnesses: what the model refutes (each replayed on the real code,
      corpus/C16)                                                       *)
(* ------------------------------------------------------------------ *)
Lemma not_nodup_2 : forall (a : N) l, ~ NoDup (a :: a :: l).
Proof. intros a l H. inversion H as [|? ? Hn _]; subst. apply Hn. left. reflexivity. Qed.

(* definitions A{b:B} B{a:A} C (C fails to convert), then D{a:A} *)
Definition wA := mkDef 1 [] (InsNamed 1 (mkT 1 [CKey 2])).
Definition wB := mkDef 2 [] (InsNamed 2 (mkT 1 [CKey 1])).
Definition wC := mkDef 3 [] (InsNamed 3 (mkT 2 [])).
Definition wD := mkDef 4 [] (InsNamed 4 (mkT 1 [CKey 1])).
Definition w_failed : list call := [AddRefsErr [wA; wB; wC] 2 []].

(* without the hypothesis on break_cycles an OLD entry changes: corpus 07 *)
Lemma ids_stable_without_cycle_hyp_refuted :
  exists h0 h i, let s := run_history empty h0 in
    i < next_id s /\ lookup N.eqb i (entries (run_history s h)) <> lookup N.eqb i (entries s).
Proof.
  exists w_failed, [AddRefs [wD] [(2, 0%nat)] None], 2. vm_compute. split; [reflexivity|discriminate].
Qed.

(* after a failed batch a successful call returns an id without entry: corpus 07 *)
Lemma entries_closed_after_failed_batch_refuted :
  exists h c, let sr := run_call (run_history empty h) c in
    1 <= snd sr < next_id (fst sr) /\ lookup N.eqb (snd sr) (entries (fst sr)) = None.
Proof.
  exists w_failed, (AddType [TRef (CKey 3)]). vm_compute. split; [split; [discriminate|reflexivity]|reflexivity].
Qed.

(* add; a batch defining the same type name; the same add again: corpus 03 *)
Lemma readd_after_refs_refuted :
  exists scr defs, let r1 := add_type empty scr in
    let s2 := fst (run_call (fst r1) (AddRefs defs [] None)) in
    snd (add_type s2 scr) <> snd r1.
Proof.
  exists [TNamed 1 (mkT 1 [])], [mkDef 1 [] (InsNamed 1 (mkT 1 []))]. vm_compute. discriminate.
Qed.

(* the same document twice: other id, more ids, the name twice: corpus 01, 02 *)
Lemma readd_refs_refuted :
  exists c, let r1 := run_call empty c in let r2 := run_call (fst r1) c in
    snd r2 <> snd r1 /\ next_id (fst r1) < next_id (fst r2) /\ ~ NoDup (def_names (fst r2)).
Proof.
  exists (AddRefs [mkDef 0 [] (InsNamed 1 (mkT 1 []))] [] (Some 0)).
  split; [vm_compute; discriminate|split; [vm_compute; reflexivity|]].
  change (def_names _) with [1; 1]. apply not_nodup_2.
Qed.

Lemma names_unique_readd_refuted :
  exists c, ~ NoDup (def_names (run_history empty [c; c])).
Proof.
  exists (AddRefs [mkDef 1 [] (InsNamed 1 (mkT 1 []))] [] None).
  change (def_names _) with [1; 1]. apply not_nodup_2.
Qed.

(* two keys of one batch, one type name (foo / Foo), corpus 05: since c22ef06 the
   call is REJECTED ... *)
Definition ins_names' (i : ins) : list name := match i with InsNamed n _ => [n] | InsRaw _ => [] end.

Lemma batch_dup_from_none : forall defs seen k, batch_dup_from seen defs k = None ->
  NoDup (flat_map (fun d => ins_names' (d_ins d)) defs)
  /\ forall n, In n (flat_map (fun d => ins_names' (d_ins d)) defs) -> ~ In n seen.
Proof.
  induction defs as [|d r IH]; intros seen k H; cbn [flat_map batch_dup_from] in *.
  - split; [constructor|intros n []].
  - destruct (d_ins d) as [n b|b]; cbn [ins_name ins_names' app] in *.
    + destruct (existsb (N.eqb n) seen) eqn:E; [discriminate|].
      destruct (IH _ _ H) as [Hnd Hns]. split.
      * constructor; [|exact Hnd]. intro Hin. apply (Hns n Hin). left. reflexivity.
      * intros m [Hm|Hm].
        -- subst m. intro Hin. assert (Hex : existsb (N.eqb n) seen = true).
           { apply existsb_exists. exists n. split; [exact Hin|apply N.eqb_refl]. }
           rewrite Hex in E. discriminate.
        -- intro Hin. apply (Hns m Hm). right. exact Hin.
    + apply (IH _ _ H).
Qed.

(* an accepted batch inserts its definitions under pairwise distinct type names *)
Lemma accepted_batch_names_distinct : forall defs, batch_dup defs = None ->
  NoDup (flat_map (fun d => ins_names' (d_ins d)) defs).
Proof. intros defs H. apply (batch_dup_from_none defs [] O H). Qed.

(* ... whatever else the batch contains *)
Lemma same_batch_rejected : forall pre d1 mid d2 post n b1 b2 boxes ret,
  d_ins d1 = InsNamed n b1 -> d_ins d2 = InsNamed n b2 ->
  forall s, call_err s (AddRefs (pre ++ d1 :: mid ++ d2 :: post) boxes ret) = true.
Proof.
  intros pre d1 mid d2 post n b1 b2 boxes ret H1 H2 s. cbn [call_err].
  destruct (batch_dup (pre ++ d1 :: mid ++ d2 :: post)) eqn:E; [reflexivity|exfalso].
  apply accepted_batch_names_distinct in E.
  rewrite flat_map_app in E. cbn [flat_map] in E. rewrite flat_map_app in E. cbn [flat_map] in E.
  rewrite H1, H2 in E. cbn [ins_names' app] in E.
  apply NoDup_remove_2 in E. apply E. rewrite !in_app_iff. right. right. left. reflexivity.
Qed.

(* ... but the rejected call leaves BOTH entries behind (lib.rs:601 TODO: no
   roll-back), so the state after the Err still renders the name twice: corpus 05
   (class C16-4) *)
Lemma names_unique_after_rejected_batch_refuted :
  exists d1 d2, d_key d1 <> d_key d2 /\ call_err empty (AddRefs [d1; d2] [] None) = true
    /\ ~ NoDup (def_names (run_history empty [AddRefs [d1; d2] [] None])).
Proof.
  exists (mkDef 1 [] (InsNamed 1 (mkT 1 []))), (mkDef 2 [] (InsNamed 1 (mkT 2 []))).
  split; [cbn; discriminate|]. split; [reflexivity|]. change (def_names _) with [1; 1]. apply not_nodup_2.
Qed.

(* fix 40183ea: every named entry an ACCEPTED batch created -- definitions and the
   inline / titled types their conversions assigned -- has its own name *)
Lemma has_dup_false : forall l, has_dup l = false -> NoDup l.
Proof.
  induction l as [|a t IH]; cbn [has_dup]; intro H; [constructor|].
  apply orb_false_iff in H. destruct H as [H1 H2]. constructor; [|apply IH; exact H2].
  intro Hin. assert (Hex : existsb (N.eqb a) t = true) by (apply existsb_exists; exists a; split; [exact Hin|apply N.eqb_refl]).
  rewrite Hex in H1. discriminate.
Qed.

Lemma accepted_call_names_distinct : forall s defs boxes ret,
  call_err s (AddRefs defs boxes ret) = false ->
  NoDup (flat_map (fun d => ins_names' (d_ins d)) defs)
  /\ NoDup (created_names (next_id s) (convert_defs (reserve s defs) (next_id s) defs)).
Proof.
  intros s defs boxes ret H. cbn [call_err] in H. destruct (batch_dup defs) eqn:E; [discriminate|].
  split; [apply accepted_batch_names_distinct; exact E|apply has_dup_false; exact H].
Qed.

(* ONE definition whose conversion assigns a sub-type of the same name first
   (corpus 06): since 40183ea the call is REJECTED; it is not rolled back, the
   state after the Err still has the name twice (class C16-4) *)
Lemma inner_title_rejected :
  exists d, batch_dup [d] = None /\ call_err empty (AddRefs [d] [] None) = true
    /\ ~ NoDup (def_names (run_history empty [AddRefs [d] [] None])).
Proof.
  exists (mkDef 1 [TNamed 1 (mkT 2 [])] (InsNamed 1 (mkT 1 [CRes 0]))).
  split; [reflexivity|]. split; [reflexivity|]. change (def_names _) with [1; 1]. apply not_nodup_2.
Qed.

(* non-vacuity: a history with cycles, snips, shared structure and re-adds that
   satisfies every hypothesis used above *)
Definition ex_history : list call :=
  [ AddRefs [ mkDef 1 [TUnnamed (mkT 5 [CKey 2])] (InsNamed 1 (mkT 1 [CRes 0]));
              mkDef 2 [] (InsNamed 2 (mkT 1 [CKey 1])) ] [(2, 0%nat)] None;
    AddType [TUnnamed (mkT 7 []); TNamed 3 (mkT 1 [CRes 0; CKey 1])];
    AddType [TUnnamed (mkT 7 []); TNamed 3 (mkT 1 [CRes 0; CKey 1])];
    AddRefs [ mkDef 0 [TUnnamed (mkT 7 [])] (InsNamed 4 (mkT 2 [CRes 0; CKey 2])) ] [] (Some 0) ].

Lemma ex_history_ok : history_ok empty ex_history /\ fresh_history empty ex_history /\ boxes_new empty ex_history.
Proof. vm_compute. repeat split; try discriminate; repeat constructor; try discriminate. Qed.

(* ------------------------------------------------------------------ *)
(* 7. order / split independence (partial: the set of registered type   *)
(*    names; structure up to id renaming is not proved)                 *)
(* ------------------------------------------------------------------ *)
Definition registered (s : space) (n : name) : Prop := lookup N.eqb n (name_to_id s) <> None.
Definition t_names (t : tentry) : list name := match t with TNamed n _ => [n] | _ => [] end.
Definition scr_names (scr : list tentry) : list name := flat_map t_names scr.
Definition ins_names (i : ins) : list name := match i with InsNamed n _ => [n] | InsRaw _ => [] end.
Definition def_mentions (d : defn) : list name := scr_names (d_script d) ++ ins_names (d_ins d).
Definition call_mentions (c : call) : list name :=
  match c with
  | AddType scr => scr_names scr
  | AddRefs defs _ _ =>
      match batch_dup defs with
      | Some i => flat_map def_mentions (firstn (S i) defs)
      | None => flat_map def_mentions defs
      end
  | AddRefsErr defs done partial => flat_map def_mentions (firstn done defs) ++ scr_names partial
  end.
Definition mentions (h : list call) : list name := flat_map call_mentions h.

Definition r_names (r : rentry) : list name := match r with REnt (Named n _) => [n] | _ => [] end.

Lemma assign_type_reg : forall s r n, registered (fst (assign_type s r)) n <-> registered s n \/ In n (r_names r).
Proof.
  intros s r n. unfold registered. destruct r as [j|[n0 bd|bd]]; cbn [assign_type r_names In].
  - cbn [fst]. tauto.
  - destruct (lookup N.eqb n0 (name_to_id s)) eqn:En; cbn [fst].
    + split; [tauto|]. intros [H|[H|[]]]; [exact H|]. subst. rewrite En. discriminate.
    + simp_space. rewrite lookup_upd_cases. destruct (n =? n0) eqn:E.
      * apply N.eqb_eq in E. subst. split; [intros _; right; left; reflexivity|intros _; discriminate].
      * apply N.eqb_neq in E. split; [tauto|]. intros [H|[H|[]]]; [exact H|]. congruence.
  - destruct (lookup body_eqb bd (type_to_id s)); cbn [fst]; simp_space; tauto.
Qed.

Lemma r_names_resolve : forall s res t, r_names (resolve_t s res t) = t_names t.
Proof. intros s res [n b|b|c]; reflexivity. Qed.

Lemma run_script_reg : forall scr s res n,
  registered (fst (run_script s res scr)) n <-> registered s n \/ In n (scr_names scr).
Proof.
  induction scr as [|t r IH]; intros s res n; cbn [run_script scr_names flat_map]; [cbn; tauto|].
  pose proof (assign_type_reg s (resolve_t s res t) n) as H. rewrite r_names_resolve in H.
  destruct (assign_type s (resolve_t s res t)) as [s' i]. cbn [fst] in H.
  rewrite IH, H, in_app_iff. unfold scr_names. tauto.
Qed.

Lemma finalize_range_reg : forall b s n, registered (finalize_range b s) n <-> registered s n.
Proof.
  intros b s n. unfold registered, finalize_range.
  destruct (fold_finalize_idx (range b (N.to_nat (next_id s - b))) s) as [-> _]. tauto.
Qed.

Lemma box_slot_reg : forall s pk n, registered (box_slot s pk) n <-> registered s n.
Proof.
  intros s [p k] n. unfold box_slot.
  destruct (lookup N.eqb p (entries s)) as [e|]; [|tauto].
  destruct (nth_error (ekids e) k) as [c|]; [|tauto].
  pose proof (assign_type_reg s (REnt (Unnamed (mkBody BOXKEY [c]))) n) as H.
  destruct (assign_type s (REnt (Unnamed (mkBody BOXKEY [c])))) as [s' bx]. cbn [fst r_names In] in H.
  unfold registered in *. simp_space. tauto.
Qed.

Lemma fold_box_reg : forall l s n, registered (fold_left box_slot l s) n <-> registered s n.
Proof. induction l as [|pk l IH]; intros s n; cbn [fold_left]; [tauto|]. rewrite IH. apply box_slot_reg. Qed.

Lemma convert_def_reg : forall s rid d n, registered (convert_def s rid d) n <-> registered s n \/ In n (def_mentions d).
Proof.
  intros s rid d n. unfold convert_def, def_mentions.
  pose proof (run_script_reg (d_script d) s [] n) as H.
  destruct (run_script s [] (d_script d)) as [s' res]. cbn [fst] in H. rewrite in_app_iff.
  destruct (d_ins d) as [n0 b|b]; unfold registered in *; cbn [ins_names In]; simp_space; [|tauto].
  rewrite lookup_upd_cases. destruct (n =? n0) eqn:E.
  - apply N.eqb_eq in E. subst. split; [intros _; right; right; left; reflexivity|intros _; discriminate].
  - apply N.eqb_neq in E. rewrite H. split; [tauto|]. intros [Ha|[Ha|[Ha|[]]]]; [tauto|tauto|congruence].
Qed.

Lemma convert_defs_reg : forall defs s rid n,
  registered (convert_defs s rid defs) n <-> registered s n \/ In n (flat_map def_mentions defs).
Proof.
  induction defs as [|d r IH]; intros s rid n; cbn [convert_defs flat_map]; [cbn; tauto|].
  rewrite IH, convert_def_reg, in_app_iff. tauto.
Qed.

Lemma refs_err_reg : forall s defs done partial n,
  registered (fst (refs_err s defs done partial)) n <->
  registered s n \/ In n (flat_map def_mentions (firstn done defs) ++ scr_names partial).
Proof.
  intros. unfold refs_err. cbn [fst].
  rewrite run_script_reg, convert_defs_reg, in_app_iff. unfold registered, reserve. simp_space. tauto.
Qed.

Lemma run_call_reg : forall s c n, registered (fst (run_call s c)) n <-> registered s n \/ In n (call_mentions c).
Proof.
  intros s [scr|defs boxes ret|defs done partial] n; cbn [run_call call_mentions].
  - unfold add_type. pose proof (run_script_reg scr s [] n) as H.
    destruct (run_script s [] scr) as [s' res]. cbn [fst] in *. rewrite finalize_range_reg. exact H.
  - destruct (batch_dup defs).
    + rewrite refs_err_reg. cbn [scr_names flat_map]. rewrite app_nil_r. tauto.
    + destruct (created_dup _ _).
      { rewrite refs_err_reg, firstn_all. cbn [scr_names flat_map]. rewrite app_nil_r. tauto. }
      unfold refs_ok. cbn [fst].
      rewrite finalize_range_reg, fold_box_reg, convert_defs_reg. unfold registered, reserve. simp_space. tauto.
  - apply refs_err_reg.
Qed.

Lemma run_history_reg : forall h s n, registered (run_history s h) n <-> registered s n \/ In n (mentions h).
Proof.
  induction h as [|c h IH]; intros s n; unfold run_history in *; cbn [fold_left mentions flat_map]; [cbn; tauto|].
  rewrite IH, run_call_reg, in_app_iff. unfold mentions. tauto.
Qed.

Lemma def_names_registered : forall s n, NInv s -> In n (def_names s) -> registered s n.
Proof.
  intros s n [HR HK] H. unfold def_names in H. apply in_def_names in H. destruct H as [i [b Hin]].
  unfold registered. rewrite (HR i n b); [discriminate|]. apply (lookup_In N.eqb Neqb_ok); assumption.
Qed.

Lemma split_independent_partial : forall h1 h2,
  (forall n, In n (mentions h1) <-> In n (mentions h2)) ->
  fresh_history empty h1 -> fresh_history empty h2 ->
  (forall n, registered (run_history empty h1) n <-> registered (run_history empty h2) n)
  /\ NoDup (def_names (run_history empty h1)) /\ NoDup (def_names (run_history empty h2))
  /\ (forall n, In n (def_names (run_history empty h1)) -> registered (run_history empty h2) n).
Proof.
  intros h1 h2 Hm F1 F2.
  assert (Hreg : forall n, registered (run_history empty h1) n <-> registered (run_history empty h2) n).
  { intro n. rewrite !run_history_reg, Hm. tauto. }
  split; [exact Hreg|]. split; [apply names_unique; exact F1|]. split; [apply names_unique; exact F2|].
  intros n Hn. apply Hreg. apply def_names_registered; [|exact Hn].
  apply run_history_NInv; [apply NInv_empty|exact F1].
Qed.

(* ------------------------------------------------------------------ *)
(* 8. clause 1 without any hypothesis: the rendering-relevant header of *)
(*    an entry (type name, structural key) never changes; only child    *)
(*    slots can, and only through break_cycles snips                    *)
(* ------------------------------------------------------------------ *)
Definition hdr (e : entry) : option name * N := (ename e, bkey (ebody e)).
Definition keptH (b : N) (s s' : space) : Prop :=
  b <= next_id s' /\ forall i, i < b ->
    option_map hdr (lookup N.eqb i (entries s')) = option_map hdr (lookup N.eqb i (entries s)).

Lemma kept_keptH : forall b s s', kept b s s' -> keptH b s s'.
Proof. intros b s s' [H1 H2]. split; [exact H1|]. intros i Hi. rewrite H2; auto. Qed.

Lemma keptH_trans : forall b s1 s2 s3, keptH b s1 s2 -> keptH b s2 s3 -> keptH b s1 s3.
Proof. intros b s1 s2 s3 [H1 H2] [H3 H4]. split; [assumption|]. intros i Hi. rewrite H4, H2; auto. Qed.

Lemma hdr_with_kids : forall e ks, hdr (with_kids e ks) = hdr e.
Proof. intros [n b|b] ks; reflexivity. Qed.

Lemma box_slot_keptH : forall b s pk, b <= next_id s -> keptH b s (box_slot s pk).
Proof.
  intros b s [p k] Hb. unfold box_slot.
  destruct (lookup N.eqb p (entries s)) as [e|] eqn:Ep; [|apply kept_keptH, kept_refl; exact Hb].
  destruct (nth_error (ekids e) k) as [c|]; [|apply kept_keptH, kept_refl; exact Hb].
  destruct (assign_type s (REnt (Unnamed (mkBody BOXKEY [c])))) as [s' bx] eqn:E.
  pose proof (assign_type_kept b s (REnt (Unnamed (mkBody BOXKEY [c]))) Hb) as [H1 H2]. rewrite E in H1, H2. cbn [fst] in H1, H2.
  split; simp_space; [exact H1|]. intros i Hi. rewrite lookup_upd_cases.
  destruct (i =? p) eqn:Ei; [|rewrite H2; auto].
  apply N.eqb_eq in Ei. subst i. rewrite Ep. cbn [option_map]. rewrite hdr_with_kids. reflexivity.
Qed.

Lemma fold_box_keptH : forall l b s, b <= next_id s -> keptH b s (fold_left box_slot l s).
Proof.
  induction l as [|pk l IH]; intros b s Hb; cbn [fold_left]; [apply kept_keptH, kept_refl; exact Hb|].
  pose proof (box_slot_keptH b s pk Hb) as H. eapply keptH_trans; [exact H|]. apply IH. apply H.
Qed.

Lemma run_call_keptH : forall s c, keptH (next_id s) s (fst (run_call s c)).
Proof.
  intros s c. destruct c as [scr|defs boxes ret|defs done partial];
    try (apply kept_keptH, run_call_kept; exact I).
  cbn [run_call]. destruct (batch_dup defs); [apply kept_keptH, refs_err_kept|].
  destruct (created_dup _ _); [apply kept_keptH, refs_err_kept|]. unfold refs_ok. cbn [fst].
  pose proof (reserve_kept (next_id s) s defs (N.le_refl _)) as H1.
  pose proof (convert_defs_kept defs (next_id s) (reserve s defs) (next_id s) (proj1 H1) (N.le_refl _)) as H2.
  pose proof (fold_box_keptH boxes (next_id s) _ (proj1 H2)) as H3.
  eapply keptH_trans; [apply kept_keptH; exact H1|]. eapply keptH_trans; [apply kept_keptH; exact H2|].
  eapply keptH_trans; [exact H3|]. apply kept_keptH, finalize_range_kept. apply H3.
Qed.

Lemma name_key_stable : forall h s i, i < next_id s ->
  option_map hdr (lookup N.eqb i (entries (run_history s h))) = option_map hdr (lookup N.eqb i (entries s)).
Proof.
  induction h as [|c h IH]; intros s i Hi; unfold run_history in *; cbn [fold_left]; [reflexivity|].
  pose proof (run_call_keptH s c) as [H1 H2]. rewrite IH; [apply H2; exact Hi|lia].
Qed.

(* ------------------------------------------------------------------ *)
(* 9. frame: a call run in a state that contains d extra, independent   *)
(*    ids [b,b+d) behaves as in the small state, shifted by d           *)
(* ------------------------------------------------------------------ *)
Section Frame.
  Context (b d : N) (G : list (id * entry)).   (* G: the entries of the big state before the call *)

  Definition sh (i : id) : id := if i <? b then i else i + d.
  Definition sh_body (β : body) : body := mkBody (bkey β) (map sh (bkids β)).
  Definition sh_entry (e : entry) : entry :=
    match e with Named n β => Named n (sh_body β) | Unnamed β => Unnamed (sh_body β) end.
  Definition sh_rentry (r : rentry) : rentry :=
    match r with RRef i => RRef (sh i) | REnt e => REnt (sh_entry e) end.

  Lemma sh_inj : forall i k, sh i = sh k -> i = k.
  Proof.
    intros i k. unfold sh. destruct (i <? b) eqn:Ei; destruct (k <? b) eqn:Ek;
      try apply N.ltb_lt in Ei; try apply N.ltb_lt in Ek; try apply N.ltb_ge in Ei; try apply N.ltb_ge in Ek; lia.
  Qed.

  Lemma sh_ge : forall i, b <= i -> sh i = i + d.
  Proof. intros i H. unfold sh. apply N.ltb_ge in H. rewrite H. reflexivity. Qed.

  Lemma sh_lt : forall i, i < b -> sh i = i.
  Proof. intros i H. unfold sh. apply N.ltb_lt in H. rewrite H. reflexivity. Qed.

  Lemma sh_not_gap : forall i, ~ (b <= sh i < b + d).
  Proof. intro i. unfold sh. destruct (i <? b) eqn:E; [apply N.ltb_lt in E|apply N.ltb_ge in E]; lia. Qed.

  Lemma map_sh_inj : forall l l', map sh l = map sh l' -> l = l'.
  Proof.
    induction l as [|a l IH]; destruct l' as [|a' l']; cbn [map]; intro H; try discriminate; [reflexivity|].
    inversion H as [[H1 H2]]. apply sh_inj in H1. subst. f_equal. apply IH. exact H2.
  Qed.

  Lemma sh_body_inj : forall β β', sh_body β = sh_body β' -> β = β'.
  Proof.
    intros [k l] [k' l'] H. unfold sh_body in H. cbn [bkey bkids] in H. inversion H as [[H1 H2]].
    apply map_sh_inj in H2. subst. reflexivity.
  Qed.

  Lemma sh_eqb : forall i k, (sh i =? sh k) = (i =? k).
  Proof.
    intros i k. destruct (i =? k) eqn:E.
    - apply N.eqb_eq in E. subst. apply N.eqb_refl.
    - apply N.eqb_neq. intro H. apply sh_inj in H. apply N.eqb_neq in E. contradiction.
  Qed.

  Lemma sh_body_eqb : forall β β', body_eqb (sh_body β) (sh_body β') = body_eqb β β'.
  Proof.
    intros β β'. destruct (body_eqb β β') eqn:E.
    - apply body_eqb_ok in E. subst. apply body_eqb_ok. reflexivity.
    - destruct (body_eqb (sh_body β) (sh_body β')) eqn:E'; [|reflexivity].
      apply body_eqb_ok in E'. apply sh_body_inj in E'. subst.
      rewrite (proj2 (body_eqb_ok β' β') eq_refl) in E. discriminate.
  Qed.

  Definition Tb (β : body) (Y Z : space) : Prop :=
    lookup body_eqb (sh_body β) (type_to_id Z) = option_map sh (lookup body_eqb β (type_to_id Y)).
  Definition Nn (n : name) (Y Z : space) : Prop :=
    lookup N.eqb n (name_to_id Z) = option_map sh (lookup N.eqb n (name_to_id Y)).
  Definition Rr (r : refkey) (Y Z : space) : Prop :=
    lookup N.eqb r (ref_to_id Z) = option_map sh (lookup N.eqb r (ref_to_id Y)).
  Definition Core (Y Z : space) : Prop :=
    next_id Z = next_id Y + d /\ b <= next_id Y
    /\ (forall i, lookup N.eqb (sh i) (entries Z) = option_map sh_entry (lookup N.eqb i (entries Y)))
    /\ (forall j, b <= j < b + d -> lookup N.eqb j (entries Z) = lookup N.eqb j G).
  (* everything else that is related stays related *)
  Definition Pres (Y Z Y' Z' : space) : Prop :=
    (forall n, Nn n Y Z -> Nn n Y' Z') /\ (forall β, Tb β Y Z -> Tb β Y' Z') /\ (forall r, Rr r Y Z -> Rr r Y' Z').

  Lemma Pres_refl : forall Y Z, Pres Y Z Y Z.
  Proof. intros. repeat split; auto. Qed.

  Lemma Pres_trans : forall Y Z Y1 Z1 Y2 Z2, Pres Y Z Y1 Z1 -> Pres Y1 Z1 Y2 Z2 -> Pres Y Z Y2 Z2.
  Proof. intros Y Z Y1 Z1 Y2 Z2 [A1 [A2 A3]] [B1 [B2 B3]]. repeat split; auto. Qed.

  Definition r_cond (r : rentry) (Y Z : space) : Prop :=
    match r with
    | RRef _ => True
    | REnt (Named n _) => Nn n Y Z
    | REnt (Unnamed β) => Tb β Y Z
    end.

  Lemma Core_alloc : forall Y Z e, Core Y Z ->
    forall t2y n2y t2z n2z,
    Core (mkSpace (next_id Y + 1) (upd N.eqb (next_id Y) e (entries Y)) t2y n2y (ref_to_id Y))
         (mkSpace (next_id Z + 1) (upd N.eqb (next_id Z) (sh_entry e) (entries Z)) t2z n2z (ref_to_id Z)).
  Proof.
    intros Y Z e [H1 [H2 [H3 H4]]] t2y n2y t2z n2z. unfold Core. simp_space.
    assert (Hz : next_id Z = sh (next_id Y)) by (rewrite sh_ge; [exact H1|exact H2]).
    split; [lia|]. split; [lia|]. split.
    - intro i. rewrite !lookup_upd_cases, Hz, sh_eqb. destruct (i =? next_id Y); [reflexivity|apply H3].
    - intros j Hj. rewrite lookup_upd_cases. destruct (j =? next_id Z) eqn:E; [apply N.eqb_eq in E; lia|apply H4; exact Hj].
  Qed.

  Lemma assign_frame : forall Y Z r, Core Y Z -> r_cond r Y Z ->
    Core (fst (assign_type Y r)) (fst (assign_type Z (sh_rentry r)))
    /\ snd (assign_type Z (sh_rentry r)) = sh (snd (assign_type Y r))
    /\ Pres Y Z (fst (assign_type Y r)) (fst (assign_type Z (sh_rentry r))).
  Proof.
    intros Y Z r HC Hr. pose proof HC as [H1 [H2 _]].
    assert (Hz : next_id Z = sh (next_id Y)) by (rewrite sh_ge; [exact H1|exact H2]).
    destruct r as [j|[n β|β]]; cbn [assign_type sh_rentry sh_entry r_cond] in *.
    - split; [exact HC|]. split; [reflexivity|apply Pres_refl].
    - unfold Nn in Hr. destruct (lookup N.eqb n (name_to_id Y)) as [i|] eqn:En; cbn [option_map] in Hr; rewrite Hr; cbn [fst snd].
      + split; [exact HC|]. split; [reflexivity|apply Pres_refl].
      + split; [apply Core_alloc; exact HC|]. split; [exact Hz|].
        unfold Pres, Nn, Tb, Rr. simp_space. split; [|split; auto].
        intros n' Hn'. rewrite !lookup_upd_cases. destruct (n' =? n); [cbn [option_map]; rewrite Hz; reflexivity|exact Hn'].
    - unfold Tb in Hr. destruct (lookup body_eqb β (type_to_id Y)) as [i|] eqn:En; cbn [option_map] in Hr; rewrite Hr; cbn [fst snd].
      + split; [exact HC|]. split; [reflexivity|apply Pres_refl].
      + split; [apply Core_alloc; exact HC|]. split; [exact Hz|].
        unfold Pres, Nn, Tb, Rr. simp_space. split; [auto|split; auto].
        intros β' Hb'. rewrite !lookup_upd_cases_b, sh_body_eqb. destruct (body_eqb β' β); [cbn [option_map]; rewrite Hz; reflexivity|exact Hb'].
  Qed.
End Frame.

Section Frame2.
  Context (b d : N) (G : list (id * entry)) (Hb1 : 1 <= b).
  Context (Y0 Z0 : space).      (* the two states at the start of the call *)
  Local Notation sh' := (sh b d).
  Local Notation Core' := (Core b d G).
  Local Notation Pres' := (Pres b d).

  (* what the call may look at must be related in the START states *)
  Definition cref_cond0 (c : cref) : Prop :=
    match c with CRes _ => True | CAbs i => i < b | CKey r => Rr b d r Y0 Z0 end.
  Definition tentry_cond0 (Y : space) (res : list id) (t : tentry) : Prop :=
    match t with
    | TNamed n tb => Forall cref_cond0 (tkids tb) /\ Nn b d n Y0 Z0
    | TUnnamed tb => Forall cref_cond0 (tkids tb) /\ Tb b d (resolve_body Y res tb) Y0 Z0
    | TRef c => cref_cond0 c
    end.
  Fixpoint script_cond0 (Y : space) (res : list id) (scr : list tentry) : Prop :=
    match scr with
    | [] => True
    | t :: r => tentry_cond0 Y res t /\
                script_cond0 (fst (assign_type Y (resolve_t Y res t))) (res ++ [snd (assign_type Y (resolve_t Y res t))]) r
    end.

  Lemma resolve_frame : forall Y Z res c, Pres' Y0 Z0 Y Z -> cref_cond0 c ->
    resolve Z (map sh' res) c = sh' (resolve Y res c).
  Proof.
    intros Y Z res c [_ [_ HR]] Hc. destruct c as [k|i|r]; cbn [resolve cref_cond0] in *.
    - rewrite <- (sh_lt b d 0) at 1 by lia. apply map_nth.
    - symmetry. apply sh_lt. exact Hc.
    - apply HR in Hc. unfold Rr in Hc. rewrite Hc. destruct (lookup N.eqb r (ref_to_id Y)); cbn [option_map]; [reflexivity|].
      symmetry. apply sh_lt. lia.
  Qed.

  Lemma resolve_body_frame : forall Y Z res tb, Pres' Y0 Z0 Y Z -> Forall cref_cond0 (tkids tb) ->
    resolve_body Z (map sh' res) tb = sh_body b d (resolve_body Y res tb).
  Proof.
    intros Y Z res tb HP Hf. unfold resolve_body, sh_body. cbn [bkey bkids]. f_equal. rewrite map_map.
    apply map_ext_in. intros c Hc. apply (resolve_frame Y Z res c HP). eapply Forall_forall; eassumption.
  Qed.

  Lemma script_frame : forall scr Y Z res, Core' Y Z -> Pres' Y0 Z0 Y Z -> script_cond0 Y res scr ->
    Core' (fst (run_script Y res scr)) (fst (run_script Z (map sh' res) scr))
    /\ snd (run_script Z (map sh' res) scr) = map sh' (snd (run_script Y res scr))
    /\ Pres' Y0 Z0 (fst (run_script Y res scr)) (fst (run_script Z (map sh' res) scr)).
  Proof.
    induction scr as [|t r IH]; intros Y Z res HC HP Hs; cbn [run_script script_cond0] in *.
    - cbn [fst snd]. auto.
    - destruct Hs as [Ht Hr].
      assert (Hres : resolve_t Z (map sh' res) t = sh_rentry b d (resolve_t Y res t)).
      { destruct t as [n tb|tb|c]; cbn [resolve_t tentry_cond0 sh_rentry sh_entry] in *.
        - destruct Ht as [Hk _]. rewrite (resolve_body_frame Y Z res tb HP Hk). reflexivity.
        - destruct Ht as [Hk _]. rewrite (resolve_body_frame Y Z res tb HP Hk). reflexivity.
        - rewrite (resolve_frame Y Z res c HP Ht). reflexivity. }
      assert (Hrc : r_cond b d (resolve_t Y res t) Y Z).
      { destruct HP as [HN [HT _]]. destruct t as [n tb|tb|c]; cbn [resolve_t r_cond tentry_cond0] in *; [apply HN, Ht|apply HT, Ht|exact I]. }
      rewrite Hres.
      destruct (assign_frame b d G Y Z _ HC Hrc) as [HC' [Hi HP']].
      destruct (assign_type Y (resolve_t Y res t)) as [Y' i]. 
      destruct (assign_type Z (sh_rentry b d (resolve_t Y res t))) as [Z' j]. cbn [fst snd] in *. subst j.
      replace (map sh' res ++ [sh' i]) with (map sh' (res ++ [i])) by (rewrite map_app; reflexivity).
      apply IH; [exact HC'| |exact Hr]. eapply Pres_trans; eassumption.
  Qed.
End Frame2.

Section Frame3.
  Context (b d : N) (G : list (id * entry)) (Hb1 : 1 <= b).
  Context (Y0 Z0 : space).
  Local Notation sh' := (sh b d).
  Local Notation Core' := (Core b d G).
  Local Notation Pres' := (Pres b d).

  Definition same_obs (Y Y' : space) : Prop :=
    next_id Y' = next_id Y /\ (forall k, lookup N.eqb k (entries Y') = lookup N.eqb k (entries Y))
    /\ type_to_id Y' = type_to_id Y /\ name_to_id Y' = name_to_id Y /\ ref_to_id Y' = ref_to_id Y.

  Lemma finalize_same_obs : forall base Y, same_obs Y (finalize_range base Y).
  Proof.
    intros base Y. unfold same_obs. split; [apply finalize_range_next|]. split; [intro k; apply finalize_range_lookup|].
    destruct (fold_finalize_idx (range base (N.to_nat (next_id Y - base))) Y) as [A [B C]].
    unfold finalize_range. auto.
  Qed.

  Lemma same_obs_frame : forall Y Z Y' Z', Core' Y Z -> same_obs Y Y' -> same_obs Z Z' ->
    Core' Y' Z' /\ Pres' Y Z Y' Z'.
  Proof.
    intros Y Z Y' Z' [H1 [H2 [H3 H4]]] [A1 [A2 [A3 [A4 A5]]]] [B1 [B2 [B3 [B4 B5]]]]. split.
    - unfold Core. rewrite A1, B1. split; [exact H1|]. split; [exact H2|]. split.
      + intro i. rewrite A2, B2. apply H3.
      + intros j Hj. rewrite B2. apply H4. exact Hj.
    - unfold Pres, Nn, Tb, Rr. rewrite A3, A4, A5, B3, B4, B5. auto.
  Qed.

  Lemma reserve_refs_frame : forall defs mY mZ rid r, b <= rid ->
    lookup N.eqb r mZ = option_map sh' (lookup N.eqb r mY) ->
    lookup N.eqb r (reserve_refs mZ (rid + d) defs) = option_map sh' (lookup N.eqb r (reserve_refs mY rid defs)).
  Proof.
    induction defs as [|df t IH]; intros mY mZ rid r Hr H; cbn [reserve_refs]; [exact H|].
    replace (rid + d + 1) with (rid + 1 + d) by lia. apply IH; [lia|].
    rewrite !lookup_upd_cases. destruct (r =? d_key df); [cbn [option_map]; rewrite sh_ge; [reflexivity|exact Hr]|exact H].
  Qed.

  Lemma reserve_frame : forall Y Z defs, Core' Y Z -> Core' (reserve Y defs) (reserve Z defs) /\ Pres' Y Z (reserve Y defs) (reserve Z defs).
  Proof.
    intros Y Z defs [H1 [H2 [H3 H4]]]. split.
    - unfold Core, reserve. simp_space. split; [lia|]. split; [lia|]. split; assumption.
    - unfold Pres, Nn, Tb, Rr, reserve. simp_space. split; [auto|]. split; [auto|].
      intros r Hr. rewrite H1. apply reserve_refs_frame; assumption.
  Qed.

  Definition def_cond0 (Y : space) (df : defn) : Prop :=
    script_cond0 b d Y0 Z0 Y [] (d_script df) /\ Forall (cref_cond0 b d Y0 Z0) (tkids (ins_body (d_ins df))).

  Lemma convert_def_frame : forall Y Z rid df, Core' Y Z -> Pres' Y0 Z0 Y Z -> b <= rid -> def_cond0 Y df ->
    Core' (convert_def Y rid df) (convert_def Z (rid + d) df) /\ Pres' Y0 Z0 (convert_def Y rid df) (convert_def Z (rid + d) df).
  Proof.
    intros Y Z rid df HC HP Hr [Hs Hi]. unfold convert_def.
    destruct (script_frame b d G Hb1 Y0 Z0 (d_script df) Y Z [] HC HP Hs) as [HC1 [Hres HP1]]. cbn [map] in *.
    destruct (run_script Y [] (d_script df)) as [Y1 res]. destruct (run_script Z [] (d_script df)) as [Z1 resZ].
    cbn [fst snd] in *. subst resZ.
    assert (Hrid : rid + d = sh' rid) by (rewrite sh_ge; [reflexivity|exact Hr]).
    destruct HC1 as [H1 [H2 [H3 H4]]].
    assert (HE : forall e, Core' (set_entries Y1 (upd N.eqb rid e (entries Y1)))
                              (set_entries Z1 (upd N.eqb (rid + d) (sh_entry b d e) (entries Z1)))).
    { intro e. unfold Core. simp_space. split; [exact H1|]. split; [exact H2|]. split.
      - intro i. rewrite !lookup_upd_cases, Hrid, sh_eqb. destruct (i =? rid); [reflexivity|apply H3].
      - intros j Hj. rewrite lookup_upd_cases. destruct (j =? rid + d) eqn:E; [|apply H4; exact Hj].
        apply N.eqb_eq in E. rewrite Hrid in E. subst j. exfalso. exact (sh_not_gap b d rid Hj). }
    destruct (d_ins df) as [n tb|tb]; cbn [ins_body] in Hi; rewrite (resolve_body_frame b d Hb1 Y0 Z0 Y1 Z1 res tb HP1 Hi).
    - split.
      + specialize (HE (Named n (resolve_body Y1 res tb))). unfold Core in *. simp_space. exact HE.
      + destruct HP1 as [PN [PT PR]]. unfold Pres, Nn, Tb, Rr in *. simp_space. split; [|split; auto].
        intros n' Hn'. rewrite !lookup_upd_cases. destruct (n' =? n); [cbn [option_map]; rewrite Hrid; reflexivity|apply PN; exact Hn'].
    - split; [apply (HE (Unnamed (resolve_body Y1 res tb)))|].
      destruct HP1 as [PN [PT PR]]. unfold Pres, Nn, Tb, Rr in *. simp_space. auto.
  Qed.

  Fixpoint defs_cond0 (Y : space) (rid : id) (defs : list defn) : Prop :=
    match defs with
    | [] => True
    | df :: r => def_cond0 Y df /\ defs_cond0 (convert_def Y rid df) (rid + 1) r
    end.

  Lemma convert_defs_frame : forall defs Y Z rid, Core' Y Z -> Pres' Y0 Z0 Y Z -> b <= rid -> defs_cond0 Y rid defs ->
    Core' (convert_defs Y rid defs) (convert_defs Z (rid + d) defs)
    /\ Pres' Y0 Z0 (convert_defs Y rid defs) (convert_defs Z (rid + d) defs).
  Proof.
    induction defs as [|df r IH]; intros Y Z rid HC HP Hr Hd; cbn [convert_defs defs_cond0] in *; [auto|].
    destruct Hd as [Hd1 Hd2]. destruct (convert_def_frame Y Z rid df HC HP Hr Hd1) as [HC' HP'].
    replace (rid + d + 1) with (rid + 1 + d) by lia. apply IH; [exact HC'|exact HP'|lia|exact Hd2].
  Qed.
End Frame3.

Section Frame4.
  Context (b d : N) (G : list (id * entry)) (Hb1 : 1 <= b).
  Context (Y0 Z0 : space).
  Local Notation sh' := (sh b d).
  Local Notation Core' := (Core b d G).
  Local Notation Pres' := (Pres b d).

  Lemma map_replace_nth : forall l k v, map sh' (replace_nth k v l) = replace_nth k (sh' v) (map sh' l).
  Proof. induction l as [|a t IH]; intros [|k] v; cbn [replace_nth map]; try reflexivity. rewrite IH. reflexivity. Qed.

  Lemma ekids_sh : forall e, ekids (sh_entry b d e) = map sh' (ekids e).
  Proof. intros [n β|β]; reflexivity. Qed.

  Lemma with_kids_sh : forall e ks, sh_entry b d (with_kids e ks) = with_kids (sh_entry b d e) (map sh' ks).
  Proof. intros [n β|β] ks; reflexivity. Qed.

  Definition box_cond0 (Y : space) (pk : id * nat) : Prop :=
    match lookup N.eqb (fst pk) (entries Y) with
    | None => True
    | Some e => match nth_error (ekids e) (snd pk) with
                | None => True
                | Some c => Tb b d (mkBody BOXKEY [c]) Y0 Z0
                end
    end.
  Definition sh_pk (pk : id * nat) : id * nat := (sh' (fst pk), snd pk).

  Lemma box_frame : forall Y Z pk, Core' Y Z -> Pres' Y0 Z0 Y Z -> box_cond0 Y pk ->
    Core' (box_slot Y pk) (box_slot Z (sh_pk pk)) /\ Pres' Y0 Z0 (box_slot Y pk) (box_slot Z (sh_pk pk)).
  Proof.
    intros Y Z [p k] HC HP Hc. unfold box_slot, sh_pk, box_cond0 in *. cbn [fst snd] in *.
    pose proof HC as [_ [_ [H3 _]]]. rewrite (H3 p).
    destruct (lookup N.eqb p (entries Y)) as [e|] eqn:Ep; cbn [option_map]; [|auto].
    rewrite ekids_sh, nth_error_map.
    destruct (nth_error (ekids e) k) as [c|] eqn:Ek; cbn [option_map]; [|auto].
    assert (Hrc : r_cond b d (REnt (Unnamed (mkBody BOXKEY [c]))) Y Z) by (cbn [r_cond]; apply HP; exact Hc).
    destruct (assign_frame b d G Y Z _ HC Hrc) as [HC' [Hi HP']].
    change (sh_rentry b d (REnt (Unnamed (mkBody BOXKEY [c])))) with (REnt (Unnamed (mkBody BOXKEY [sh' c]))) in *.
    destruct (assign_type Y (REnt (Unnamed (mkBody BOXKEY [c])))) as [Y' bx].
    destruct (assign_type Z (REnt (Unnamed (mkBody BOXKEY [sh' c])))) as [Z' bz]. cbn [fst snd] in *. subst bz.
    destruct HC' as [H1 [H2 [H3' H4]]]. split.
    - unfold Core. simp_space. split; [exact H1|]. split; [exact H2|]. split.
      + intro i. rewrite !lookup_upd_cases, sh_eqb. destruct (i =? p); [|apply H3'].
        cbn [option_map]. rewrite with_kids_sh, map_replace_nth. reflexivity.
      + intros j Hj. rewrite lookup_upd_cases. destruct (j =? sh' p) eqn:E; [|apply H4; exact Hj].
        apply N.eqb_eq in E. subst j. exfalso. exact (sh_not_gap b d p Hj).
    - eapply Pres_trans; [exact HP|]. destruct HP' as [PN [PT PR]]. unfold Pres, Nn, Tb, Rr in *. simp_space. auto.
  Qed.

  Fixpoint boxes_cond0 (Y : space) (l : list (id * nat)) : Prop :=
    match l with [] => True | pk :: r => box_cond0 Y pk /\ boxes_cond0 (box_slot Y pk) r end.

  Lemma boxes_frame : forall l Y Z, Core' Y Z -> Pres' Y0 Z0 Y Z -> boxes_cond0 Y l ->
    Core' (fold_left box_slot l Y) (fold_left box_slot (map sh_pk l) Z)
    /\ Pres' Y0 Z0 (fold_left box_slot l Y) (fold_left box_slot (map sh_pk l) Z).
  Proof.
    induction l as [|pk l IH]; intros Y Z HC HP Hc; cbn [fold_left map boxes_cond0] in *; [auto|].
    destruct Hc as [H1 H2]. destruct (box_frame Y Z pk HC HP H1) as [HC' HP']. apply IH; assumption.
  Qed.

  Lemma created_names_range : forall Y Z n base, Core' Y Z -> b <= base ->
    flat_map (fun i => match lookup N.eqb i (entries Z) with Some (Named nm _) => [nm] | _ => [] end) (range (base + d) n)
    = flat_map (fun i => match lookup N.eqb i (entries Y) with Some (Named nm _) => [nm] | _ => [] end) (range base n).
  Proof.
    intros Y Z n. induction n as [|n IH]; intros base HC Hb; cbn [range flat_map]; [reflexivity|].
    replace (base + d + 1) with (base + 1 + d) by lia. rewrite (IH (base + 1) HC) by lia. f_equal.
    destruct HC as [_ [_ [H3 _]]]. rewrite <- (sh_ge b d base Hb), H3.
    destruct (lookup N.eqb base (entries Y)) as [[nm β|β]|]; reflexivity.
  Qed.

  Lemma created_dup_frame : forall Y Z base, Core' Y Z -> b <= base ->
    created_dup (base + d) Z = created_dup base Y.
  Proof.
    intros Y Z base HC Hb. unfold created_dup, created_names. pose proof HC as [H1 _]. rewrite H1.
    replace (next_id Y + d - (base + d)) with (next_id Y - base) by lia.
    rewrite (created_names_range Y Z _ base HC Hb). reflexivity.
  Qed.

  (* the call as issued against the big state: snips address the shifted parents *)
  Definition shift_call (c : call) : call :=
    match c with
    | AddRefs defs boxes ret => AddRefs defs (map sh_pk boxes) ret
    | c => c
    end.

  (* independence of the call from the extra part of the big state, evaluated
     along the call's run in the SMALL state: every name, structure and ref key
     the call looks up has related answers in the two START states *)
  Definition call_cond0 (c : call) : Prop :=
    match c with
    | AddType scr => script_cond0 b d Y0 Z0 Y0 [] scr
    | AddRefs defs boxes ret =>
        batch_dup defs = None
        /\ created_dup (next_id Y0) (convert_defs (reserve Y0 defs) (next_id Y0) defs) = false
        /\ defs_cond0 b d Y0 Z0 (reserve Y0 defs) (next_id Y0) defs
        /\ boxes_cond0 (convert_defs (reserve Y0 defs) (next_id Y0) defs) boxes
        /\ match ret with Some r => Rr b d r Y0 Z0 \/ In r (map d_key defs) | None => True end
    | AddRefsErr _ _ _ => False
    end.

  Lemma call_frame : forall c, Core' Y0 Z0 -> call_cond0 c ->
    Core' (fst (run_call Y0 c)) (fst (run_call Z0 (shift_call c)))
    /\ Pres' Y0 Z0 (fst (run_call Y0 c)) (fst (run_call Z0 (shift_call c))).
  Proof.
    intros [scr|defs boxes ret|defs done partial] HC Hc; cbn [run_call shift_call call_cond0] in *; [| |contradiction].
    - unfold add_type.
      destruct (script_frame b d G Hb1 Y0 Z0 scr Y0 Z0 [] HC (Pres_refl b d Y0 Z0) Hc) as [HC1 [_ HP1]]. cbn [map] in *.
      destruct (run_script Y0 [] scr) as [Y1 res]. destruct (run_script Z0 [] scr) as [Z1 resZ]. cbn [fst snd] in *.
      destruct (same_obs_frame b d G Y1 Z1 _ _ HC1 (finalize_same_obs (next_id Y0) Y1) (finalize_same_obs (next_id Z0) Z1)) as [HC2 HP2].
      split; [exact HC2|]. eapply Pres_trans; eassumption.
    - destruct Hc as [Hnd [Hcd [Hd [Hbx _]]]]. rewrite Hnd, Hcd.
      destruct (reserve_frame b d G Hb1 Y0 Z0 defs HC) as [HC1 HP1].
      pose proof HC as [Hn [Hbn _]].
      destruct (convert_defs_frame b d G Hb1 Y0 Z0 defs _ _ (next_id Y0) HC1 HP1 Hbn Hd) as [HC2 HP2].
      pose proof (created_dup_frame _ _ (next_id Y0) HC2 Hbn) as Hcz. rewrite Hcd in Hcz.
      rewrite <- Hn in HC2, HP2, Hcz. rewrite Hcz. unfold refs_ok. cbn [fst].
      destruct (boxes_frame boxes _ _ HC2 HP2 Hbx) as [HC3 HP3].
      destruct (same_obs_frame b d G _ _ _ _ HC3 (finalize_same_obs (next_id Y0) _) (finalize_same_obs (next_id Z0) _)) as [HC4 HP4].
      split; [exact HC4|]. eapply Pres_trans; eassumption.
  Qed.
End Frame4.

(* ------------------------------------------------------------------ *)
(* 10. two independent calls commute up to an explicit renaming of ids  *)
(* ------------------------------------------------------------------ *)
Definition ren (f : id -> id) (e : entry) : entry :=
  match e with
  | Named n β => Named n (mkBody (bkey β) (map f (bkids β)))
  | Unnamed β => Unnamed (mkBody (bkey β) (map f (bkids β)))
  end.

Lemma sh_entry_ren : forall b d e, sh_entry b d e = ren (sh b d) e.
Proof. intros b d [n β|β]; reflexivity. Qed.

Lemma ren_ext : forall f g e, (forall k, In k (ekids e) -> f k = g k) -> ren f e = ren g e.
Proof.
  intros f g [n β|β] H; cbn [ren ekids ebody] in *; do 2 f_equal; apply map_ext_in; exact H.
Qed.

Lemma ren_id : forall f e, (forall k, In k (ekids e) -> f k = k) -> ren f e = e.
Proof.
  intros f [n [k l]|[k l]] H; cbn [ren ekids ebody bkey bkids] in *; do 2 f_equal;
    (rewrite <- (map_id l) at 2; apply map_ext_in; exact H).
Qed.

Lemma ekids_ren : forall f e, ekids (ren f e) = map f (ekids e).
Proof. intros f [n β|β]; reflexivity. Qed.

(* the big state X extends s by ids [next_id s, next_id X) and agrees with s below *)
Lemma Core_init : forall s X, Bnd s -> Bnd X -> kept (next_id s) s X ->
  Core (next_id s) (next_id X - next_id s) (entries X) s X.
Proof.
  intros s X HBs HBX [Hle Hk]. pose proof HBs as [_ [Hes _]]. pose proof HBX as [_ [HeX _]].
  unfold Core. split; [lia|]. split; [lia|]. split; [|auto].
  intro i. destruct (N.ltb_spec i (next_id s)) as [Hi|Hi].
  - rewrite sh_lt by exact Hi. rewrite Hk by exact Hi.
    destruct (lookup N.eqb i (entries s)) as [e|] eqn:E; cbn [option_map]; [|reflexivity].
    f_equal. rewrite sh_entry_ren. symmetry. apply ren_id. intros k Hkin. apply sh_lt.
    destruct (Hes i e E) as [_ Hf]. pose proof (proj1 (Forall_forall _ _) Hf k Hkin) as Hr. unfold inr in Hr. lia.
  - rewrite sh_ge by exact Hi.
    destruct (lookup N.eqb (i + (next_id X - next_id s)) (entries X)) as [e|] eqn:E.
    + destruct (HeX _ e E) as [Hr _]. unfold inr in Hr. lia.
    + destruct (lookup N.eqb i (entries s)) as [e|] eqn:E'; [|reflexivity].
      destruct (Hes _ e E') as [Hr _]. unfold inr in Hr. lia.
Qed.

(* the renaming between the results of [c1; c2] and [c2; c1]: ids below b stay,
   the n1 ids of c1 move behind the n2 ids of c2 and vice versa *)
Definition swap_ren (b n1 n2 i : N) : N :=
  if i <? b then i else if i <? b + n1 then i + n2 else i - n1.

Lemma swap_ren_inv : forall b n1 n2 i, i < b + n1 + n2 -> swap_ren b n2 n1 (swap_ren b n1 n2 i) = i.
Proof.
  intros b n1 n2 i Hi. unfold swap_ren.
  destruct (N.ltb_spec i b) as [H1|H1].
  - apply N.ltb_lt in H1. rewrite H1. reflexivity.
  - destruct (N.ltb_spec i (b + n1)) as [H2|H2].
    + destruct (N.ltb_spec (i + n2) b); [lia|]. destruct (N.ltb_spec (i + n2) (b + n2)); lia.
    + destruct (N.ltb_spec (i - n1) b); [lia|]. destruct (N.ltb_spec (i - n1) (b + n2)); lia.
Qed.

Lemma swap_ren_range : forall b n1 n2 i, 1 <= i < b + n1 + n2 -> 1 <= b -> 1 <= swap_ren b n1 n2 i < b + n1 + n2.
Proof.
  intros b n1 n2 i Hi Hb. unfold swap_ren.
  destruct (N.ltb_spec i b); [lia|]. destruct (N.ltb_spec i (b + n1)); lia.
Qed.

Lemma Bnd_kids : forall s i e k, Bnd s -> lookup N.eqb i (entries s) = Some e -> In k (ekids e) -> 1 <= k < next_id s.
Proof.
  intros s i e k [_ [He _]] Hi Hk. destruct (He i e Hi) as [_ Hf].
  exact (proj1 (Forall_forall _ _) Hf k Hk).
Qed.

Theorem calls_commute : forall s c1 c2 Y1 Y2 n1 n2 A B,
  Bnd s -> Dom s ->
  call_ok s c1 -> call_ok s c2 -> boxes_of_call_new s c1 -> boxes_of_call_new s c2 ->
  Y1 = fst (run_call s c1) -> Y2 = fst (run_call s c2) ->
  n1 = next_id Y1 - next_id s -> n2 = next_id Y2 - next_id s ->
  call_cond0 (next_id s) n2 s Y2 c1 -> call_cond0 (next_id s) n1 s Y1 c2 ->
  A = fst (run_call Y1 (shift_call (next_id s) n1 c2)) ->
  B = fst (run_call Y2 (shift_call (next_id s) n2 c1)) ->
  next_id A = next_id B /\ next_id A = next_id s + n1 + n2 /\
  forall i, 1 <= i < next_id A ->
    lookup N.eqb (swap_ren (next_id s) n1 n2 i) (entries B)
    = option_map (ren (swap_ren (next_id s) n1 n2)) (lookup N.eqb i (entries A)).
Proof.
  intros s c1 c2 Y1 Y2 n1 n2 A B HBs HDs Hok1 Hok2 Hbx1 Hbx2 EY1 EY2 En1 En2 I12 I21 EA EB.
  set (b := next_id s) in *.
  assert (Hb1 : 1 <= b) by (destruct HBs as [H _]; exact H).
  destruct (run_call_Bnd s c1 HBs HDs Hok1) as [HB1 _]. rewrite <- EY1 in HB1.
  destruct (run_call_Bnd s c2 HBs HDs Hok2) as [HB2 _]. rewrite <- EY2 in HB2.
  pose proof (run_call_kept s c1 Hbx1) as K1. rewrite <- EY1 in K1. fold b in K1.
  pose proof (run_call_kept s c2 Hbx2) as K2. rewrite <- EY2 in K2. fold b in K2.
  pose proof (Core_init s Y1 HBs HB1 K1) as C1. fold b in C1. rewrite <- En1 in C1.
  pose proof (Core_init s Y2 HBs HB2 K2) as C2. fold b in C2. rewrite <- En2 in C2.
  destruct (call_frame b n2 (entries Y2) Hb1 s Y2 c1 C2 I12) as [FB _]. rewrite <- EY1, <- EB in FB.
  destruct (call_frame b n1 (entries Y1) Hb1 s Y1 c2 C1 I21) as [FA _]. rewrite <- EY2, <- EA in FA.
  destruct FA as [FA1 [_ [FA3 FA4]]]. destruct FB as [FB1 [_ [FB3 FB4]]].
  destruct K1 as [K1a K1b]. destruct K2 as [K2a K2b].
  assert (HnA : next_id A = b + n1 + n2) by lia.
  split; [lia|]. split; [exact HnA|].
  intros i Hi. unfold swap_ren at 1.
  destruct (N.ltb_spec i b) as [H1|H1].
  - (* an id that existed before both calls *)
    pose proof (FA3 i) as HA. pose proof (FB3 i) as HB. rewrite sh_lt in HA, HB by exact H1.
    rewrite K2b in HA by exact H1. rewrite K1b in HB by exact H1. rewrite HA, HB.
    destruct (lookup N.eqb i (entries s)) as [e|] eqn:E; cbn [option_map]; [|reflexivity]. f_equal.
    assert (Hk : forall k, In k (ekids e) -> k < b) by (intros k Hk; pose proof (Bnd_kids s i e k HBs E Hk); unfold b; lia).
    rewrite !sh_entry_ren.
    rewrite (ren_id (sh b n2) e) by (intros k Hkin; apply sh_lt; auto).
    rewrite (ren_id (sh b n1) e) by (intros k Hkin; apply sh_lt; auto).
    symmetry. apply ren_id. intros k Hkin. unfold swap_ren. pose proof (Hk k Hkin) as Hlt.
    apply N.ltb_lt in Hlt. rewrite Hlt. reflexivity.
  - destruct (N.ltb_spec i (b + n1)) as [H2|H2].
    + (* an id created by c1: it sits in the gap of A, shifted by n2 in B *)
      rewrite (FA4 i) by lia. pose proof (FB3 i) as HB. rewrite sh_ge in HB by exact H1. rewrite HB.
      destruct (lookup N.eqb i (entries Y1)) as [e|] eqn:E; cbn [option_map]; [|reflexivity]. f_equal.
      rewrite sh_entry_ren. apply ren_ext. intros k Hkin.
      pose proof (Bnd_kids Y1 i e k HB1 E Hkin) as Hk. unfold sh, swap_ren.
      destruct (N.ltb_spec k b); [reflexivity|]. destruct (N.ltb_spec k (b + n1)); [reflexivity|lia].
    + (* an id created by c2: shifted by n1 in A, in the gap of B *)
      assert (Ei : i = sh b n1 (i - n1)) by (rewrite sh_ge by lia; lia).
      rewrite Ei at 2. rewrite FA3. rewrite (FB4 (i - n1)) by lia.
      destruct (lookup N.eqb (i - n1) (entries Y2)) as [e|] eqn:E; cbn [option_map]; [|reflexivity]. f_equal.
      rewrite sh_entry_ren. symmetry.
      assert (Hk : forall k, In k (ekids e) -> swap_ren b n1 n2 (sh b n1 k) = k).
      { intros k Hkin. pose proof (Bnd_kids Y2 _ _ k HB2 E Hkin) as Hk. unfold sh, swap_ren.
        destruct (N.ltb_spec k b) as [Hkb|Hkb]; [apply N.ltb_lt in Hkb; rewrite Hkb; reflexivity|].
        destruct (N.ltb_spec (k + n1) b); [lia|]. destruct (N.ltb_spec (k + n1) (b + n1)); lia. }
      destruct e as [n [key l]|[key l]]; cbn [ren bkey bkids ekids ebody] in *; do 2 f_equal;
        rewrite map_map; (transitivity (map (fun x : N => x) l); [apply map_ext_in; exact Hk|apply map_id]).
Qed.

Lemma hdr_ren : forall f e, hdr (ren f e) = hdr e.
Proof. intros f [n β|β]; reflexivity. Qed.

(* non-vacuity of calls_commute: from a state that already has String (id 1),
   c1 = definition A {a: A, s: String} with its self reference boxed,
   c2 = definition B {v: Vec<String>} *)
Definition cw_s : space := run_history empty [AddType [TUnnamed (mkT 7 [])]].
Definition cw_c1 : call := AddRefs [mkDef 1 [] (InsNamed 1 (mkT 1 [CKey 1; CAbs 1]))] [(2, 0%nat)] None.
Definition cw_c2 : call := AddRefs [mkDef 2 [TUnnamed (mkT 5 [CAbs 1])] (InsNamed 2 (mkT 1 [CRes 0]))] [] None.

Lemma cw_hyps :
  Bnd cw_s /\ Dom cw_s /\ call_ok cw_s cw_c1 /\ call_ok cw_s cw_c2
  /\ boxes_of_call_new cw_s cw_c1 /\ boxes_of_call_new cw_s cw_c2
  /\ call_cond0 (next_id cw_s) (next_id (fst (run_call cw_s cw_c2)) - next_id cw_s) cw_s (fst (run_call cw_s cw_c2)) cw_c1
  /\ call_cond0 (next_id cw_s) (next_id (fst (run_call cw_s cw_c1)) - next_id cw_s) cw_s (fst (run_call cw_s cw_c1)) cw_c2.
Proof.
  assert (H : history_ok empty [AddType [TUnnamed (mkT 7 [])]]) by (vm_compute; repeat split; repeat constructor).
  destruct Bnd_empty as [HB HD]. destruct (run_history_Bnd _ empty HB HD H) as [HB' HD'].
  split; [exact HB'|]. split; [exact HD'|].
  vm_compute. repeat split; try discriminate; try reflexivity; repeat constructor; try discriminate; try reflexivity.
Qed.

(* ------------------------------------------------------------------ *)
(* 11. one definition per name over histories of ACCEPTED calls: with   *)
(*     the same-call checks (c22ef06, 40183ea) freshness is only needed *)
(*     against the state BEFORE the call                                *)
(* ------------------------------------------------------------------ *)
Lemma range_app : forall n1 n2 lo, range lo (n1 + n2) = range lo n1 ++ range (lo + N.of_nat n1) n2.
Proof.
  induction n1 as [|n1 IH]; intros n2 lo; cbn [range plus app].
  - rewrite N.add_0_r. reflexivity.
  - rewrite IH. f_equal. f_equal. f_equal. lia.
Qed.

Lemma range_split : forall lo cnt j, lo <= j < lo + N.of_nat cnt ->
  exists n1 n2, range lo cnt = range lo n1 ++ j :: range (j + 1) n2 /\ lo + N.of_nat n1 = j.
Proof.
  intros lo cnt j Hj. exists (N.to_nat (j - lo)), (cnt - S (N.to_nat (j - lo)))%nat.
  assert (Hc : cnt = (N.to_nat (j - lo) + S (cnt - S (N.to_nat (j - lo))))%nat) by lia.
  split; [|lia]. rewrite Hc at 1. rewrite range_app. cbn [range]. repeat f_equal; lia.
Qed.

Definition named_at (s : space) (i : id) : list name :=
  match lookup N.eqb i (entries s) with Some (Named n _) => [n] | _ => [] end.

Lemma created_names_eq : forall base s, created_names base s = flat_map (named_at s) (range base (N.to_nat (next_id s - base))).
Proof. reflexivity. Qed.

Lemma in_range : forall cnt lo k, In k (range lo cnt) -> lo <= k.
Proof. induction cnt as [|c IH]; intros lo k H; cbn [range] in H; [destruct H|]. destruct H as [->|H]; [lia|]. apply IH in H. lia. Qed.

Lemma two_named_dup : forall s base j j' n β β',
  base <= j -> j < j' -> j' < next_id s ->
  lookup N.eqb j (entries s) = Some (Named n β) -> lookup N.eqb j' (entries s) = Some (Named n β') ->
  ~ NoDup (created_names base s).
Proof.
  intros s base j j' n β β' Hb Hlt Hn Ej Ej' Hnd. rewrite created_names_eq in Hnd.
  destruct (range_split base (N.to_nat (next_id s - base)) j ltac:(lia)) as [n1 [n2 [Hr Hn1]]].
  rewrite Hr, flat_map_app in Hnd. cbn [flat_map] in Hnd. unfold named_at at 2 in Hnd. rewrite Ej in Hnd. cbn [app] in Hnd.
  apply NoDup_remove_2 in Hnd. apply Hnd. apply in_or_app. right.
  apply in_flat_map. exists j'. split; [|unfold named_at; rewrite Ej'; left; reflexivity].
  assert (Hin : In j' (range base (N.to_nat (next_id s - base)))).
  { destruct (range_split base (N.to_nat (next_id s - base)) j' ltac:(lia)) as [m1 [m2 [Hr' _]]].
    rewrite Hr'. apply in_or_app. right. left. reflexivity. }
  rewrite Hr in Hin. apply in_app_or in Hin. destruct Hin as [Hin|[Hin|Hin]]; [|lia|exact Hin].
  exfalso. clear - Hin Hn1 Hlt.
  assert (Hlt' : forall cnt lo k, In k (range lo cnt) -> k < lo + N.of_nat cnt).
  { induction cnt as [|c IH]; intros lo k H; cbn [range] in H; [destruct H|]. destruct H as [->|H]; [lia|]. apply IH in H. lia. }
  apply Hlt' in Hin. lia.
Qed.

Section Within.
  Context (b hi : N) (s0 : space).
  Context (Hfresh : list name).     (* the names the batch inserts its definitions under *)
  Context (Hpre : forall n, In n Hfresh -> lookup N.eqb n (name_to_id s0) = None).

  Record J (rid : N) (t : space) : Prop := mkJ {
    JA : kept b s0 t;
    JD : forall n j, lookup N.eqb n (name_to_id s0) = Some j -> lookup N.eqb n (name_to_id t) = Some j;
    JB : forall n j', lookup N.eqb n (name_to_id t) = Some j' ->
           lookup N.eqb n (name_to_id s0) = Some j' \/ (b <= j' /\ exists β, lookup N.eqb j' (entries t) = Some (Named n β));
    JC : forall j n β, b <= j -> lookup N.eqb j (entries t) = Some (Named n β) -> lookup N.eqb n (name_to_id s0) = None;
    JH : forall j n β, b <= j -> lookup N.eqb j (entries t) = Some (Named n β) -> lookup N.eqb n (name_to_id t) <> None;
    JF : forall j e, lookup N.eqb j (entries t) = Some e -> j < next_id t;
    JG : forall k, rid <= k < hi -> lookup N.eqb k (entries t) = None;
    JK : NoDup (map fst (entries t));
    JN : hi <= next_id t /\ b <= rid }.

  Lemma J_alloc : forall rid t e (nm : list (name * id)) tt,
    J rid t ->
    (forall n j, lookup N.eqb n (name_to_id s0) = Some j -> lookup N.eqb n nm = Some j) ->
    (forall n j', lookup N.eqb n nm = Some j' ->
        (j' = next_id t /\ ename e = Some n) \/ lookup N.eqb n (name_to_id t) = Some j') ->
    (forall n, ename e = Some n -> lookup N.eqb n (name_to_id s0) = None /\ lookup N.eqb n nm <> None) ->
    (forall n, lookup N.eqb n (name_to_id t) <> None -> lookup N.eqb n nm <> None) ->
    J rid (mkSpace (next_id t + 1) (upd N.eqb (next_id t) e (entries t)) tt nm (ref_to_id t)).
  Proof.
    intros rid t e nm tt HJ HD HB HE HM. destruct HJ as [[A1 A2] D B C H F G K [N1 N2]].
    constructor; simp_space.
    - split; simp_space; [lia|]. intros i Hi. rewrite lookup_upd_cases. destruct (i =? next_id t) eqn:E; [apply N.eqb_eq in E; lia|apply A2; exact Hi].
    - exact HD.
    - intros n j' Hn. destruct (HB n j' Hn) as [[-> He]|Hold].
      + right. split; [lia|]. rewrite lookup_upd_cases, N.eqb_refl. destruct e as [n0 β|β]; cbn [ename] in He; [|discriminate].
        inversion He; subst. exists β. reflexivity.
      + destruct (B n j' Hold) as [Hl|[Hb [β Hβ]]]; [left; exact Hl|right]. split; [exact Hb|].
        exists β. rewrite lookup_upd_cases. destruct (j' =? next_id t) eqn:E; [|exact Hβ].
        apply N.eqb_eq in E. apply F in Hβ. lia.
    - intros j n β Hb Hj. rewrite lookup_upd_cases in Hj. destruct (j =? next_id t); [|eapply C; eassumption].
      inversion Hj; subst. apply (HE n). reflexivity.
    - intros j n β Hb Hj. rewrite lookup_upd_cases in Hj. destruct (j =? next_id t).
      + inversion Hj; subst. apply (HE n). reflexivity.
      + apply HM. eapply H; eassumption.
    - intros j e0 Hj. rewrite lookup_upd_cases in Hj. destruct (j =? next_id t) eqn:E; [apply N.eqb_eq in E; lia|].
      apply F in Hj. lia.
    - intros k Hk. rewrite lookup_upd_cases. destruct (k =? next_id t) eqn:E; [apply N.eqb_eq in E; lia|apply G; exact Hk].
    - apply (keys_upd_nodup N.eqb Neqb_ok). exact K.
    - split; lia.
  Qed.

  Lemma assign_J : forall rid t r, J rid t -> J rid (fst (assign_type t r)).
  Proof.
    intros rid t r HJ. destruct r as [j|[n β|β]]; cbn [assign_type]; [exact HJ| |].
    - destruct (lookup N.eqb n (name_to_id t)) eqn:En; cbn [fst]; [exact HJ|].
      apply J_alloc; [exact HJ| | | |].
      + intros n0 j Hn0. rewrite lookup_upd_cases. destruct (n0 =? n) eqn:E; [|apply (JD _ _ HJ); exact Hn0].
        apply N.eqb_eq in E. subst. rewrite (JD _ _ HJ _ _ Hn0) in En. discriminate.
      + intros n0 j' Hn0. rewrite lookup_upd_cases in Hn0. destruct (n0 =? n) eqn:E; [|right; exact Hn0].
        apply N.eqb_eq in E. subst. inversion Hn0. left. split; reflexivity.
      + intros n0 He. cbn [ename] in He. inversion He; subst. split.
        * destruct (lookup N.eqb n0 (name_to_id s0)) eqn:E0; [|reflexivity]. rewrite (JD _ _ HJ _ _ E0) in En. discriminate.
        * rewrite lookup_upd_cases, N.eqb_refl. discriminate.
      + intros n0 Hn0. apply (lookup_upd_some N.eqb Neqb_ok). exact Hn0.
    - destruct (lookup body_eqb β (type_to_id t)) eqn:En; cbn [fst]; [exact HJ|].
      apply J_alloc; [exact HJ| | | |].
      + apply (JD _ _ HJ).
      + intros n0 j' Hn0. right. exact Hn0.
      + intros n0 He. discriminate.
      + auto.
  Qed.

  Lemma run_script_J : forall scr rid t res, J rid t -> J rid (fst (run_script t res scr)).
  Proof.
    induction scr as [|x r IH]; intros rid t res HJ; cbn [run_script]; [exact HJ|].
    pose proof (assign_J rid t (resolve_t t res x) HJ) as H.
    destruct (assign_type t (resolve_t t res x)) as [t' i]. cbn [fst] in H. apply IH. exact H.
  Qed.
End Within.

Section Within2.
  Context (b hi : N) (s0 : space).
  Context (Hfresh : list name).
  Context (Hpre : forall n, In n Hfresh -> lookup N.eqb n (name_to_id s0) = None).
  Local Notation J' := (J b hi s0).

  Lemma convert_def_J : forall rid t df, J' rid t -> rid < hi ->
    (forall n tb, d_ins df = InsNamed n tb -> In n Hfresh) ->
    J' (rid + 1) (convert_def t rid df).
  Proof.
    intros rid t df HJ Hr Hin. unfold convert_def.
    pose proof (run_script_J b hi s0 (d_script df) rid t [] HJ) as HJ1.
    destruct (run_script t [] (d_script df)) as [t1 res]. cbn [fst] in HJ1.
    destruct HJ1 as [[A1 A2] D B C H F G K [N1 N2]].
    assert (Hhole : lookup N.eqb rid (entries t1) = None) by (apply G; lia).
    destruct (d_ins df) as [n tb|tb] eqn:Ei.
    - specialize (Hin n tb eq_refl). pose proof (Hpre n Hin) as Hn0.
      constructor; simp_space.
      + split; simp_space; [exact A1|]. intros i Hi. rewrite lookup_upd_cases. destruct (i =? rid) eqn:E; [apply N.eqb_eq in E; lia|apply A2; exact Hi].
      + intros n1 j Hn1. rewrite lookup_upd_cases. destruct (n1 =? n) eqn:E; [|apply D; exact Hn1].
        apply N.eqb_eq in E. subst. rewrite Hn0 in Hn1. discriminate.
      + intros n1 j' Hn1. rewrite lookup_upd_cases in Hn1. destruct (n1 =? n) eqn:E.
        * apply N.eqb_eq in E. subst. inversion Hn1; subst. right. split; [exact N2|].
          rewrite lookup_upd_cases, N.eqb_refl. eexists. reflexivity.
        * destruct (B n1 j' Hn1) as [Hl|[Hb [β Hβ]]]; [left; exact Hl|right]. split; [exact Hb|]. exists β.
          rewrite lookup_upd_cases. destruct (j' =? rid) eqn:E'; [|exact Hβ]. apply N.eqb_eq in E'. subst. rewrite Hhole in Hβ. discriminate.
      + intros j n1 β Hb Hj. rewrite lookup_upd_cases in Hj. destruct (j =? rid); [inversion Hj; subst; exact Hn0|eapply C; eassumption].
      + intros j n1 β Hb Hj. rewrite lookup_upd_cases in Hj. destruct (j =? rid).
        * inversion Hj; subst. rewrite lookup_upd_cases, N.eqb_refl. discriminate.
        * apply (lookup_upd_some N.eqb Neqb_ok). eapply H; eassumption.
      + intros j e Hj. rewrite lookup_upd_cases in Hj. destruct (j =? rid) eqn:E; [apply N.eqb_eq in E; lia|eapply F; exact Hj].
      + intros k Hk. rewrite lookup_upd_cases. destruct (k =? rid) eqn:E; [apply N.eqb_eq in E; lia|apply G; lia].
      + apply (keys_upd_nodup N.eqb Neqb_ok). exact K.
      + split; lia.
    - constructor; simp_space.
      + split; simp_space; [exact A1|]. intros i Hi. rewrite lookup_upd_cases. destruct (i =? rid) eqn:E; [apply N.eqb_eq in E; lia|apply A2; exact Hi].
      + exact D.
      + intros n1 j' Hn1. destruct (B n1 j' Hn1) as [Hl|[Hb [β Hβ]]]; [left; exact Hl|right]. split; [exact Hb|]. exists β.
        rewrite lookup_upd_cases. destruct (j' =? rid) eqn:E'; [|exact Hβ]. apply N.eqb_eq in E'. subst. rewrite Hhole in Hβ. discriminate.
      + intros j n1 β Hb Hj. rewrite lookup_upd_cases in Hj. destruct (j =? rid); [discriminate|eapply C; eassumption].
      + intros j n1 β Hb Hj. rewrite lookup_upd_cases in Hj. destruct (j =? rid); [discriminate|eapply H; eassumption].
      + intros j e Hj. rewrite lookup_upd_cases in Hj. destruct (j =? rid) eqn:E; [apply N.eqb_eq in E; lia|eapply F; exact Hj].
      + intros k Hk. rewrite lookup_upd_cases. destruct (k =? rid) eqn:E; [apply N.eqb_eq in E; lia|apply G; lia].
      + apply (keys_upd_nodup N.eqb Neqb_ok). exact K.
      + split; lia.
  Qed.

  Lemma convert_defs_J : forall defs rid t, J' rid t -> rid + N.of_nat (length defs) <= hi ->
    (forall df n tb, In df defs -> d_ins df = InsNamed n tb -> In n Hfresh) ->
    exists rid', J' rid' (convert_defs t rid defs).
  Proof.
    induction defs as [|df r IH]; intros rid t HJ Hlen Hin; cbn [convert_defs]; [exists rid; exact HJ|].
    cbn [length] in Hlen. apply (IH (rid + 1)); [|lia|].
    - apply convert_def_J; [exact HJ|lia|]. intros n tb. apply Hin. left. reflexivity.
    - intros df' n tb Hd. apply Hin. right. exact Hd.
  Qed.
End Within2.

Definition DomLt (s : space) : Prop := forall j e, lookup N.eqb j (entries s) = Some e -> j < next_id s.
Definition pre_fresh (s : space) (defs : list defn) : Prop :=
  forall df n tb, In df defs -> d_ins df = InsNamed n tb -> lookup N.eqb n (name_to_id s) = None.

Lemma Bnd_DomLt : forall s, Bnd s -> DomLt s.
Proof. intros s [_ [He _]] j e Hj. destruct (He j e Hj) as [Hr _]. unfold inr in Hr. lia. Qed.

Lemma J_init : forall s defs, NInv s -> DomLt s ->
  J (next_id s) (next_id s + N.of_nat (length defs)) s (next_id s) (reserve s defs).
Proof.
  intros s defs [HR HK] HD.
  assert (Hnone : forall k, next_id s <= k -> lookup N.eqb k (entries s) = None).
  { intros k Hk. destruct (lookup N.eqb k (entries s)) as [e|] eqn:E; [|reflexivity]. apply HD in E. lia. }
  constructor; unfold reserve; simp_space.
  - apply (reserve_kept (next_id s) s defs (N.le_refl _)).
  - auto.
  - intros n j' H. left. exact H.
  - intros j n β Hb Hj. rewrite (Hnone j Hb) in Hj. discriminate.
  - intros j n β Hb Hj. rewrite (Hnone j Hb) in Hj. discriminate.
  - intros j e Hj. apply HD in Hj. lia.
  - intros k Hk. apply Hnone. lia.
  - exact HK.
  - split; lia.
Qed.

Lemma accepted_batch_NInv : forall s defs, NInv s -> DomLt s -> pre_fresh s defs ->
  created_dup (next_id s) (convert_defs (reserve s defs) (next_id s) defs) = false ->
  NInv (convert_defs (reserve s defs) (next_id s) defs).
Proof.
  intros s defs HN HD Hpf Hcd. set (b := next_id s) in *. set (s2 := convert_defs (reserve s defs) b defs) in *.
  set (Hf := flat_map (fun df => ins_names' (d_ins df)) defs).
  assert (Hpre : forall n, In n Hf -> lookup N.eqb n (name_to_id s) = None).
  { intros n Hn. apply in_flat_map in Hn. destruct Hn as [df [Hdf Hn]].
    destruct (d_ins df) as [n0 tb|tb] eqn:E; cbn [ins_names'] in Hn; [|destruct Hn].
    destruct Hn as [->|[]]. eapply Hpf; eassumption. }
  assert (Hin : forall df n tb, In df defs -> d_ins df = InsNamed n tb -> In n Hf).
  { intros df n tb Hdf E. apply in_flat_map. exists df. split; [exact Hdf|]. rewrite E. left. reflexivity. }
  destruct (convert_defs_J b (b + N.of_nat (length defs)) s Hf Hpre defs b (reserve s defs) (J_init s defs HN HD) (N.le_refl _) Hin)
    as [rid' HJ]. fold s2 in HJ.
  apply has_dup_false in Hcd. fold s2 in Hcd.
  destruct HN as [HR HK]. split; [|exact (JK _ _ _ _ _ HJ)].
  intros j n β Hj. destruct (N.ltb_spec j b) as [Hlt|Hge].
  - destruct (JA _ _ _ _ _ HJ) as [_ Hk]. rewrite Hk in Hj by exact Hlt. apply (JD _ _ _ _ _ HJ). apply (HR j n β Hj).
  - pose proof (JC _ _ _ _ _ HJ j n β Hge Hj) as Hn0.
    pose proof (JH _ _ _ _ _ HJ j n β Hge Hj) as Hreg.
    destruct (lookup N.eqb n (name_to_id s2)) as [j'|] eqn:En; [|contradiction].
    destruct (JB _ _ _ _ _ HJ n j' En) as [Hl|[Hb' [β' Hβ']]]; [rewrite Hn0 in Hl; discriminate|].
    destruct (N.eq_dec j j') as [->|Hne]; [reflexivity|exfalso].
    pose proof (JF _ _ _ _ _ HJ j _ Hj) as Hjn. pose proof (JF _ _ _ _ _ HJ j' _ Hβ') as Hjn'.
    destruct (N.lt_ge_cases j j') as [Hc|Hc].
    + exact (two_named_dup s2 b j j' n β β' Hge Hc Hjn' Hj Hβ' Hcd).
    + exact (two_named_dup s2 b j' j n β' β Hb' ltac:(lia) Hjn Hβ' Hj Hcd).
Qed.

(* freshness of the definitions' names against the state BEFORE the call *)
Fixpoint prefresh_history (s : space) (h : list call) : Prop :=
  match h with
  | [] => True
  | c :: r => match c with AddRefs defs _ _ => pre_fresh s defs | _ => True end
              /\ prefresh_history (fst (run_call s c)) r
  end.

Lemma run_call_accepted_NInv : forall s c, NInv s -> Bnd s -> call_ok s c ->
  match c with AddRefs defs _ _ => pre_fresh s defs | _ => True end -> NInv (fst (run_call s c)).
Proof.
  intros s [scr|defs boxes ret|defs done partial] HN HB Hok Hpf; cbn [call_ok] in Hok; [| |contradiction].
  - apply run_call_NInv; [exact HN|exact I].
  - destruct Hok as [Hnd [Hcd _]]. cbn [run_call]. rewrite Hnd, Hcd. unfold refs_ok. cbn [fst].
    apply finalize_range_NInv, fold_box_NInv, accepted_batch_NInv; [exact HN|apply Bnd_DomLt; exact HB|exact Hpf|exact Hcd].
Qed.

Lemma names_unique_accepted : forall h s, NInv s -> Bnd s -> Dom s -> history_ok s h -> prefresh_history s h ->
  NoDup (def_names (run_history s h)).
Proof.
  induction h as [|c h IH]; intros s HN HB HD Hok Hpf; unfold run_history in *; cbn [fold_left].
  - apply NInv_nodup. exact HN.
  - destruct Hok as [Hc Hr]. destruct Hpf as [Hp Hpr]. destruct (run_call_Bnd s c HB HD Hc) as [HB' HD'].
    apply IH; [apply run_call_accepted_NInv; assumption|exact HB'|exact HD'|exact Hr|exact Hpr].
Qed.

(* ------------------------------------------------------------------ *)
(* 12. finalize is local to the call: lib.rs:685-690 / 780-785 walk     *)
(*     base_id..next_id only                                            *)
(* ------------------------------------------------------------------ *)
Lemma in_range_lt : forall cnt lo k, In k (range lo cnt) -> k < lo + N.of_nat cnt.
Proof.
  induction cnt as [|c IH]; intros lo k H; cbn [range] in H; [destruct H|].
  destruct H as [->|H]; [lia|]. apply IH in H. lia.
Qed.

(* the ids finalize_range re-inserts *)
Definition finalize_ids (base : N) (s : space) : list id := range base (N.to_nat (next_id s - base)).

Lemma finalize_local : forall base s,
  finalize_range base s = fold_left finalize_one (finalize_ids base s) s
  /\ (forall i, In i (finalize_ids base s) -> base <= i < next_id s)
  /\ (forall k, lookup N.eqb k (entries (finalize_range base s)) = lookup N.eqb k (entries s))
  /\ next_id (finalize_range base s) = next_id s
  /\ name_to_id (finalize_range base s) = name_to_id s
  /\ type_to_id (finalize_range base s) = type_to_id s
  /\ ref_to_id (finalize_range base s) = ref_to_id s.
Proof.
  intros base s. split; [reflexivity|]. split.
  - intros i Hi. unfold finalize_ids in Hi. pose proof (in_range _ _ _ Hi). pose proof (in_range_lt _ _ _ Hi). lia.
  - split; [intro k; apply finalize_range_lookup|]. split; [apply finalize_range_next|].
    destruct (fold_finalize_idx (range base (N.to_nat (next_id s - base))) s) as [A [B C]].
    unfold finalize_range. auto.
Qed.

(* in a call the range starts at the call's base id: no id that existed before the call is finalized again *)
Lemma finalize_of_call_local : forall s i, i < next_id s ->
  forall s', next_id s <= next_id s' -> ~ In i (finalize_ids (next_id s) s').
Proof. intros s i Hi s' _ Hin. unfold finalize_ids in Hin. apply in_range in Hin. lia. Qed.
