(* Proofs/SchemarsProofs.v -- the schemas the schemars model (Algo/Schemars.v) emits for a universe of
   the Rust fragment are documents of the converter's fragment (Algo/Convert.in_frag). *)
From Coq Require Import String ZArith NArith QArith List Bool Lia.
From Typify Require Import Base.Json Spec.Schema Spec.Valid IR.TypeIR.
From Typify Require Algo.Heck Algo.Sanitize.
From Typify Require Import Algo.Convert Algo.RustDefs Algo.Schemars Proofs.SerdeProofs Proofs.ConvertProofs.
Import ListNotations.
Close Scope Q_scope.
Close Scope string_scope.
Open Scope list_scope.
Open Scope N_scope.

Lemma jstrs_map l : jstrs (map JStr l) = Some l.
Proof. induction l as [|a l IH]; cbn [map jstrs]; [reflexivity|]. rewrite IH. reflexivity. Qed.

Section Frag.
  Variable cls : Heck.CharClasses.
  Variable names : list ustring.

  Lemma int_frag (tys : list itype) (f : ustring) (uns : bool) :
    (tys = [TInteger] \/ tys = [TInteger; TNull]) ->
    frag cls names (sch_typed tys (Some f) (if uns then nv_min0 else numv_none) ItemsAbsent [] None) = true.
  Proof. intros [-> | ->]; destruct uns; reflexivity. Qed.

  Lemma ty_frag : forall t, ty_ok names t = true -> frag cls names (sch_ty t) = true.
  Proof.
    fix IH 1. intros t H. destruct t as [| n | n | | | a | a | a | a | ts | a k | r]; cbn [ty_ok] in H; try discriminate H.
    - reflexivity.
    - cbn [sch_ty]. destruct (int_info n) as [[f uns]|]; [|discriminate H].
      apply (int_frag [TInteger]). left; reflexivity.
    - reflexivity.
    - (* Option *)
      destruct a as [| n | n | | | b | b | b | b | ts | b k | r]; try discriminate H.
      + reflexivity.
      + cbn [sch_ty]. destruct (int_info n) as [[f uns]|]; [|discriminate H].
        apply (int_frag [TInteger; TNull]). right; reflexivity.
      + reflexivity.
      + cbn [sch_ty]. pose proof (IH b H) as Hb.
        change (forallb (frag cls names) [sch_ty b] = true). cbn [forallb]. rewrite Hb. reflexivity.
      + cbn [sch_ty]. pose proof (IH b H) as Hb.
        destruct (sch_ty b) as [[|]|]; [reflexivity|discriminate Hb|exact Hb].
    - (* Vec *)
      cbn [sch_ty]. pose proof (IH a H) as Ha.
      change (forallb (frag cls names) [sch_ty a] = true). cbn [forallb]. rewrite Ha. reflexivity.
    - (* Map *)
      cbn [sch_ty]. pose proof (IH a H) as Ha.
      destruct (sch_ty a) as [[|]|]; [reflexivity|discriminate Ha|exact Ha].
    - (* Ref *)
      cbn [sch_ty]. exact H.
  Qed.
End Frag.

Lemma sch_ty_not_one t : is_one (sch_ty t) = false.
Proof.
  apply is_one_none; destruct t; try reflexivity; cbn [sch_ty];
    repeat match goal with
           | |- context [match ?x with _ => _ end] => destruct x
           end; reflexivity.
Qed.

Lemma keys_sorted_unique l : keys_sorted l = true -> Sanitize.unique l = true.
Proof. intro H. apply unique_true_iff. apply keys_sorted_NoDup. exact H. Qed.

Lemma has_key_sch_fields rule fs f : In f fs -> has_key (field_wire rule f) (sch_fields rule fs) = true.
Proof.
  intro Hin. apply has_key_true. unfold sch_fields.
  destruct (In_assoc (field_wire rule f) (map (fun f0 => (field_wire rule f0, sch_ty (rf_ty f0))) fs) (sch_ty (rf_ty f)))
    as [y Hy]; [|exists y; exact Hy].
  apply in_map_iff. exists f. split; [reflexivity|exact Hin].
Qed.

Lemma sch_fields_keys rule fs : map fst (sch_fields rule fs) = map (field_wire rule) fs.
Proof. induction fs as [|f fs IH]; [reflexivity|]. unfold sch_fields in *. cbn [map fst]. rewrite IH. reflexivity. Qed.

Section Def.
  Variable cls : Heck.CharClasses.
  Variable names : list ustring.

  Lemma field_idents_fields rule fs :
    forallb (field_ok cls names rule) fs = true ->
    field_idents cls (sch_fields rule fs) = map rf_name fs.
  Proof.
    induction fs as [|f fs IH]; intro H; [reflexivity|].
    cbn [forallb] in H. apply andb_true_iff in H. destruct H as [Hf Hr].
    unfold field_idents, sch_fields in *. cbn [map fst]. rewrite (IH Hr). f_equal.
    unfold field_ok in Hf. apply andb_true_iff in Hf. destruct Hf as [_ Hf].
    unfold Sanitize.recase. cbn [fst]. apply ustr_eqb_eq. exact Hf.
  Qed.

  Lemma fields_frag rule fs :
    forallb (field_ok cls names rule) fs = true ->
    forallb (fun kv => frag cls names (snd kv)) (sch_fields rule fs) = true.
  Proof.
    induction fs as [|f fs IH]; intro H; [reflexivity|].
    cbn [forallb] in H. apply andb_true_iff in H. destruct H as [Hf Hr].
    unfold sch_fields in *. cbn [map forallb snd]. rewrite (IH Hr), andb_true_r.
    apply ty_frag. unfold field_ok in Hf.
    repeat (apply andb_true_iff in Hf; destruct Hf as [Hf _]). exact Hf.
  Qed.

  Lemma req_has_key rule fs :
    forallb (fun r => has_key r (sch_fields rule fs)) (req_fields rule fs) = true.
  Proof.
    apply forallb_forall. intros r Hr. unfold req_fields in Hr. apply in_map_iff in Hr.
    destruct Hr as (f & <- & Hf). apply filter_In in Hf. apply has_key_sch_fields. exact (proj1 Hf).
  Qed.

  Lemma def_frag nt d : def_ok cls names nt d = true -> frag cls names (sch_def d) = true.
  Proof.
    destruct d as [n rule deny cdef fs | n ts | n t | n | n tag rule deny vs]; cbn [def_ok sch_def]; try discriminate.
    - (* struct *)
      intro H. apply andb_true_iff in H. destruct H as [H Hsw].
      apply andb_true_iff in H. destruct H as [H Hsn].
      apply andb_true_iff in H. destruct H as [H Hf].
      apply andb_true_iff in H. destruct H as [_ Hne].
      destruct fs as [|f0 fs0]; [discriminate Hne|].
      set (fs := f0 :: fs0) in *.
      assert (Hgoal : keys_sorted (map fst (sch_fields rule fs))
                      && forallb (fun r => has_key r (sch_fields rule fs)) (req_fields rule fs)
                      && Sanitize.unique (field_idents cls (sch_fields rule fs))
                      && forallb (fun kv => mem_ustr (fst kv) (req_fields rule fs) || negb (is_one (snd kv))) (sch_fields rule fs)
                      && forallb (fun kv => frag cls names (snd kv)) (sch_fields rule fs) = true).
      { assert (Hno : forallb (fun kv => mem_ustr (fst kv) (req_fields rule fs) || negb (is_one (snd kv))) (sch_fields rule fs) = true).
        { apply forallb_forall. intros kv Hkv. unfold sch_fields in Hkv. apply in_map_iff in Hkv.
          destruct Hkv as (f & <- & _). cbn [snd]. rewrite sch_ty_not_one. apply orb_true_r. }
        rewrite Hno.
        rewrite (fields_frag rule fs Hf), (req_has_key rule fs), (field_idents_fields rule fs Hf).
        rewrite (keys_sorted_unique _ Hsn).
        rewrite sch_fields_keys, Hsw. reflexivity. }
      unfold sch_struct. subst fs. destruct deny; exact Hgoal.
    - (* newtype *)
      intro H. apply andb_true_iff in H. apply ty_frag. exact (proj2 H).
    - (* enum *)
      destruct tag; try discriminate. intro H.
      apply andb_true_iff in H. destruct H as [H Hv].
      apply andb_true_iff in H. destruct H as [H Hu].
      apply andb_true_iff in H. destruct H as [_ Hne].
      rewrite Hu. destruct vs as [|v0 vs0]; [discriminate Hne|].
      unfold sch_enum. cbn [frag]. unfold classify. cbn.
      rewrite jstrs_map. cbn. exact Hv.
  Qed.
End Def.

Theorem schemars_in_frag_gen nt cls U : rust_frag_gen nt cls U = true -> in_frag cls (schema_of_rust U) = true.
Proof.
  unfold rust_frag_gen, in_frag. intro H.
  apply andb_true_iff in H. destruct H as [H Hac].
  apply andb_true_iff in H. destruct H as [H Hun].
  apply andb_true_iff in H. destruct H as [H Hdf].
  apply andb_true_iff in H. destruct H as [Hks Hko].
  assert (Hfst : map fst (schema_of_rust U) = map rd_name U).
  { unfold schema_of_rust. rewrite map_map. reflexivity. }
  rewrite Hfst, Hks, Hun, Hac. cbn [andb]. rewrite !andb_true_r.
  apply andb_true_iff. split.
  - unfold schema_of_rust. rewrite forallb_forall in Hko |- *. intros kv Hkv.
    apply in_map_iff in Hkv. destruct Hkv as (d & <- & Hd). cbn [fst]. apply Hko. apply in_map. exact Hd.
  - unfold schema_of_rust. rewrite forallb_forall in Hdf |- *. intros kv Hkv.
    apply in_map_iff in Hkv. destruct Hkv as (d & <- & Hd). cbn [snd]. apply (def_frag cls (map rd_name U) nt). apply Hdf. exact Hd.
Qed.

Lemma rust_frag_wider cls U : rust_frag cls U = true -> rust_frag_s cls U = true.
Proof.
  unfold rust_frag, rust_frag_s, rust_frag_gen. intro H.
  apply andb_true_iff in H. destruct H as [H Hac].
  apply andb_true_iff in H. destruct H as [H Hun].
  apply andb_true_iff in H. destruct H as [H Hdf].
  rewrite H, Hun, Hac. cbn [andb]. rewrite !andb_true_r.
  rewrite forallb_forall in Hdf |- *. intros d Hd. specialize (Hdf d Hd).
  destruct d as [n rule deny cdef fs | n ts | n t | n | n tag rule deny vs]; cbn [def_ok] in *; try exact Hdf.
  discriminate Hdf.
Qed.

Theorem schemars_in_frag cls U : rust_frag_s cls U = true -> in_frag cls (schema_of_rust U) = true.
Proof. apply schemars_in_frag_gen. Qed.
