(* Proofs/ConvertSProofs.v -- lemmas about Algo/ConvertS.v (the converter model under
   settings) for property C14 on the model: conversions, replacements and patches
   apply at every type position of every document.  Statements used by
   Props/C14F.v are marked. *)
From Coq Require Import String ZArith NArith QArith List Bool Lia.
From Typify Require Import Base.Json Spec.Schema Spec.Valid IR.TypeIR.
From Typify Require Import Proofs.SerdeProofs.
From Typify Require Algo.Heck Algo.Sanitize.
From Typify Require Import Algo.Convert Algo.ConvertS Proofs.ConvertProofs.
Import ListNotations.
Close Scope Q_scope.
Close Scope string_scope.
Open Scope list_scope.
Open Scope N_scope.

(* ------------------------------------------------------------------ frames without side conditions *)
Lemma assign_frame te s t s' : assign te s = (t, s') -> frame s s'.
Proof.
  intro Ha.
  assert (Hnew : forall ents names types,
            frame s (mkSt (st_next s + 1) (put (st_next s) ents (st_ents s)) names types (st_flags s))).
  { intros e names types. split; [cbn [st_next]; lia|]. intros i Hi. unfold lk. cbn [st_ents]. rewrite lookup_put.
    destruct (i =? st_next s) eqn:E; [apply N.eqb_eq in E; lia|reflexivity]. }
  assert (Hgen : forall te0, te0 = te ->
    (match det_name te0 with
     | Some n =>
         match assoc n (st_names s) with
         | Some i => (i, s)
         | None => (st_next s, mkSt (st_next s + 1) (put (st_next s) (mkEntry te0 []) (st_ents s))
                                    ((n, st_next s) :: st_names s) (st_types s) (st_flags s))
         end
     | None =>
         match find_type te0 (st_types s) with
         | Some i => (i, s)
         | None => (st_next s, mkSt (st_next s + 1) (put (st_next s) (mkEntry te0 []) (st_ents s)) (st_names s)
                                    ((te0, st_next s) :: st_types s) (st_flags s))
         end
     end) = (t, s') -> frame s s').
  { intros te0 _ H. destruct (det_name te0).
    - destruct (assoc u (st_names s)); injection H as <- <-; [apply frame_refl|apply Hnew].
    - destruct (find_type te0 (st_types s)); injection H as <- <-; [apply frame_refl|apply Hnew]. }
  destruct te; cbn [assign] in Ha; try exact (Hgen _ eq_refl Ha).
  injection Ha as <- <-. apply frame_refl.
Qed.

Lemma frame_set_json s : frame s (set_json s).
Proof. split; [cbn; lia|reflexivity]. Qed.
Lemma frame_set_regress s : frame s (set_regress s).
Proof. split; [cbn; lia|reflexivity]. Qed.

Section NodeFrame.
  Variable cls : Heck.CharClasses.
  Variable rid : ustring -> option id.
  Variable cv : schema -> name -> st -> option (details * st).
  Variable Q : schema -> Prop.
  Hypothesis Hcv : forall s, Q s -> forall nm s0 te s1, cv s nm s0 = Some (te, s1) -> frame s0 s1.

  Lemma conv_prop_frame base req k s' s0 p s1 :
    Q s' -> conv_prop cls cv base req k s' s0 = Some (p, s1) -> frame s0 s1.
  Proof.
    intro HQ. unfold conv_prop. destruct (cv s' _ s0) as [[te sa]|] eqn:Hc; [|discriminate].
    pose proof (Hcv _ HQ _ _ _ _ Hc) as F1.
    destruct (assign te sa) as [t sb] eqn:Ha. pose proof (assign_frame _ _ _ _ Ha) as F2.
    destruct (Sanitize.recase cls k Sanitize.Snake) as [ident rn].
    destruct (mem_ustr k req); [intro H; injection H as _ <-; eapply frame_trans; eassumption|].
    destruct (has_intrinsic_default sb t); [intro H; injection H as _ <-; eapply frame_trans; eassumption|].
    destruct (assign (DOption t) sb) as [o sc] eqn:Ha2. pose proof (assign_frame _ _ _ _ Ha2) as F3.
    intro H. injection H as _ <-. eapply frame_trans; [eassumption|]. eapply frame_trans; eassumption.
  Qed.

  Lemma conv_props_frame base req : forall props, Forall (fun kv => Q (snd kv)) props -> forall s0 ps s1,
    conv_props cls cv base req props s0 = Some (ps, s1) -> frame s0 s1.
  Proof.
    induction props as [|[k s'] props IH]; intros HQ s0 ps s1 H; cbn [conv_props] in H.
    - injection H as _ <-. apply frame_refl.
    - destruct (conv_prop cls cv base req k s' s0) as [[p sa]|] eqn:Hp; [|discriminate].
      destruct (conv_props cls cv base req props sa) as [[l sb]|] eqn:Hr; [|discriminate].
      injection H as _ <-. eapply frame_trans; [exact (conv_prop_frame _ _ _ _ _ _ _ (Forall_inv HQ) Hp)|].
      exact (IH (Forall_inv_tail HQ) _ _ _ Hr).
  Qed.

  Lemma conv_items_frame nm : forall l, Forall Q l -> forall i s0 ts s1,
    conv_items cv nm i l s0 = Some (ts, s1) -> frame s0 s1.
  Proof.
    induction l as [|it l IH]; intros HQ i s0 ts s1 H; cbn [conv_items] in H.
    - injection H as _ <-. apply frame_refl.
    - destruct (cv it (idx_name nm i) s0) as [[te sa]|] eqn:Hc; [|discriminate].
      destruct (assign te sa) as [t sb] eqn:Ha.
      destruct (conv_items cv nm (S i) l sb) as [[ts' sc]|] eqn:Hr; [|discriminate].
      injection H as _ <-. eapply frame_trans; [exact (Hcv _ (Forall_inv HQ) _ _ _ _ Hc)|].
      eapply frame_trans; [exact (assign_frame _ _ _ _ Ha)|exact (IH (Forall_inv_tail HQ) _ _ _ _ Hr)].
  Qed.

  Lemma conv_xvar_frame nm v sc s0 vd dn s1 :
    Q sc -> conv_xvar cv nm v sc s0 = Some (vd, dn, s1) -> frame s0 s1.
  Proof.
    intro HQ. unfold conv_xvar. destruct (cv sc _ s0) as [[te sa]|] eqn:Hc; [|discriminate].
    pose proof (Hcv _ HQ _ _ _ _ Hc) as F1.
    destruct te; try (intro H; injection H as _ _ <-; exact F1);
      destruct (assign _ sa) as [t9 sb] eqn:Ha; intro H; injection H as _ _ <-;
      (eapply frame_trans; [exact F1|exact (assign_frame _ _ _ _ Ha)]).
  Qed.

  Lemma conv_xbranches_frame nm : forall bs, Forall (PropP Q) bs -> forall s0 rvs dn s1,
    conv_xbranches cv nm bs s0 = Some (rvs, dn, s1) -> frame s0 s1.
  Proof.
    induction bs as [|b r IH]; intros HQ s0 rvs dn s1 H; cbn [conv_xbranches] in H.
    - injection H as _ _ <-. apply frame_refl.
    - destruct b as [bb|bty bfmt benum bcst bnv bsv bik bitems bai bmni bmxi buq bprops breq bap bmnp bmxp ballo banyo boneo bno bref bdflt btitle];
        [discriminate|].
      assert (Hrest : forall vs1 d1 sa, frame s0 sa ->
                match conv_xbranches cv nm r sa with
                | Some (vs2, d2, s2) => Some (vs1 ++ vs2, d1 || d2, s2)
                | None => None
                end = Some (rvs, dn, s1) -> frame s0 s1).
      { intros vs1 d1 sa F Hx. destruct (conv_xbranches cv nm r sa) as [[[vs2 d2] s2]|] eqn:Hr; [|discriminate].
        injection Hx as _ _ <-. eapply frame_trans; [exact F|exact (IH (Forall_inv_tail HQ) _ _ _ _ Hr)]. }
      destruct bprops as [|[v sc] [|]].
      + destruct (xsimple _); [|discriminate]. exact (Hrest _ _ _ (frame_refl s0) H).
      + destruct (conv_xvar cv nm v sc s0) as [[[vd deny] sa]|] eqn:Hv; [|discriminate].
        refine (Hrest _ _ _ _ H). exact (conv_xvar_frame _ _ _ _ _ _ _ (Forall_inv HQ v sc (or_introl eq_refl)) Hv).
      + destruct (xsimple _); [|discriminate]. exact (Hrest _ _ _ (frame_refl s0) H).
  Qed.

  Lemma conv_avariant_frame nm tg ct b s0 v vd d s1 :
    PropP Q b -> conv_avariant cv nm tg ct b s0 = Some (v, vd, d, s1) -> frame s0 s1.
  Proof.
    intros HQ. destruct b as [bb|bty bfmt benum bcst bnv bsv bik bitems bai bmni bmxi buq bprops breq bap bmnp bmxp ballo banyo boneo bno bref bdflt btitle];
      [discriminate|]. cbn [conv_avariant].
    assert (Hpay : forall (vn : option ustring) sc, Q sc ->
              match vn with
              | Some v0 => match conv_xvar cv nm (match nm with NRequired _ => ct | _ => v0 end) sc s0 with
                           | Some (vd0, deny, sa) => Some (v0, vd0, deny, sa)
                           | None => None
                           end
              | None => None
              end = Some (v, vd, d, s1) -> frame s0 s1).
    { intros [v0|] sc HQs H; [|discriminate].
      destruct (conv_xvar cv nm _ sc s0) as [[[vd0 deny] sa]|] eqn:Hv; [|discriminate]. injection H as _ _ _ <-.
      exact (conv_xvar_frame _ _ _ _ _ _ _ HQs Hv). }
    destruct bprops as [|[k1 s1'] [|[k2 s2'] [|]]]; try discriminate.
    - destruct (cstr s1'); [|discriminate]. intro H. injection H as _ _ _ <-. apply frame_refl.
    - destruct (ustr_eqb k1 tg).
      + apply Hpay. apply (HQ k2 s2'). right. left. reflexivity.
      + apply Hpay. apply (HQ k1 s1'). left. reflexivity.
  Qed.

  Lemma conv_abranches_frame nm tg ct : forall bs, Forall (PropP Q) bs -> forall s0 rvs dn s1,
    conv_abranches cv nm tg ct bs s0 = Some (rvs, dn, s1) -> frame s0 s1.
  Proof.
    induction bs as [|b r IH]; intros HQ s0 rvs dn s1 H; cbn [conv_abranches] in H.
    - injection H as _ _ <-. apply frame_refl.
    - destruct (conv_avariant cv nm tg ct b s0) as [[[[v vd] d1] sa]|] eqn:Hv; [|discriminate].
      destruct (conv_abranches cv nm tg ct r sa) as [[[vs2 d2] s2]|] eqn:Hr; [|discriminate].
      injection H as _ _ <-. eapply frame_trans; [exact (conv_avariant_frame _ _ _ _ _ _ _ _ _ (Forall_inv HQ) Hv)|].
      exact (IH (Forall_inv_tail HQ) _ _ _ _ Hr).
  Qed.

  Lemma conv_props_skip_frame tg base req : forall props, Forall (fun kv => Q (snd kv)) props -> forall s0 ps s1,
    conv_props_skip cls cv tg base req props s0 = Some (ps, s1) -> frame s0 s1.
  Proof.
    induction props as [|[k s'] props IH]; intros HQ s0 ps s1 H; cbn [conv_props_skip] in H.
    - injection H as _ <-. apply frame_refl.
    - destruct (ustr_eqb k tg); [exact (IH (Forall_inv_tail HQ) _ _ _ H)|].
      destruct base as [b0|]; [|discriminate].
      destruct (conv_prop cls cv b0 req k s' s0) as [[p sa]|] eqn:Hp; [|discriminate].
      destruct (conv_props_skip cls cv tg (Some b0) req props sa) as [[l sb]|] eqn:Hr; [|discriminate].
      injection H as _ <-. eapply frame_trans; [exact (conv_prop_frame _ _ _ _ _ _ _ (Forall_inv HQ) Hp)|].
      exact (IH (Forall_inv_tail HQ) _ _ _ Hr).
  Qed.

  Lemma PropP_Forall b : PropP Q b -> Forall (fun kv => Q (snd kv)) (sch_props b).
  Proof. intro H. apply Forall_forall. intros [k sc] Hin. exact (H k sc Hin). Qed.

  Lemma conv_ivariant_frame nm tg b s0 v vd s1 :
    PropP Q b -> conv_ivariant cls cv nm tg b s0 = Some (v, vd, s1) -> frame s0 s1.
  Proof.
    intros HQ. pose proof (PropP_Forall b HQ) as HF.
    destruct b as [bb|bty bfmt benum bcst bnv bsv bik bitems bai bmni bmxi buq bprops breq bap bmnp bmxp ballo banyo boneo bno bref bdflt btitle];
      [discriminate|]. cbn [conv_ivariant]. cbn [sch_props] in HF.
    assert (Hgen : match match assoc tg bprops with Some ts => cstr ts | None => None end with
                   | Some v0 =>
                       match conv_props_skip cls cv tg (name_opt nm) breq bprops s0 with
                       | Some (ps, sa) =>
                           if Sanitize.unique (map p_name (sort_props ps)) then Some (v0, VStruct (sort_props ps), sa) else None
                       | None => None
                       end
                   | None => None
                   end = Some (v, vd, s1) -> frame s0 s1).
    { destruct (match assoc tg bprops with Some ts => cstr ts | None => None end); [|discriminate].
      destruct (conv_props_skip cls cv tg (name_opt nm) breq bprops s0) as [[ps sa]|] eqn:Hp; [|discriminate].
      destruct (Sanitize.unique _); [|discriminate]. intro H. injection H as _ _ <-.
      exact (conv_props_skip_frame _ _ _ _ HF _ _ _ Hp). }
    destruct bprops as [|[k1 s1'] [|kv2 rest]]; try exact Hgen.
    destruct (cstr s1'); [|discriminate]. intro H. injection H as _ _ <-. apply frame_refl.
  Qed.

  Lemma conv_ibranches_frame nm tg : forall bs, Forall (PropP Q) bs -> forall s0 rvs s1,
    conv_ibranches cls cv nm tg bs s0 = Some (rvs, s1) -> frame s0 s1.
  Proof.
    induction bs as [|b r IH]; intros HQ s0 rvs s1 H; cbn [conv_ibranches] in H.
    - injection H as _ <-. apply frame_refl.
    - destruct (conv_ivariant cls cv nm tg b s0) as [[[v vd] sa]|] eqn:Hv; [|discriminate].
      destruct (conv_ibranches cls cv nm tg r sa) as [[vs2 s2]|] eqn:Hr; [|discriminate].
      injection H as _ <-. eapply frame_trans; [exact (conv_ivariant_frame _ _ _ _ _ _ _ (Forall_inv HQ) Hv)|].
      exact (IH (Forall_inv_tail HQ) _ _ _ Hr).
  Qed.

  Lemma conv_ubranches_frame n : forall bs, Forall Q bs -> forall i s0 rvs dn s1,
    conv_ubranches cv n i bs s0 = Some (rvs, dn, s1) -> frame s0 s1.
  Proof.
    induction bs as [|b r IH]; intros HQ i s0 rvs dn s1 H; cbn [conv_ubranches] in H.
    - injection H as _ _ <-. apply frame_refl.
    - destruct (conv_xvar cv (NSuggested n) _ b s0) as [[[vd d1] sa]|] eqn:Hv; [|discriminate].
      destruct (conv_ubranches cv n (S i) r sa) as [[[vs2 d2] s2]|] eqn:Hr; [|discriminate].
      injection H as _ _ <-. eapply frame_trans; [exact (conv_xvar_frame _ _ _ _ _ _ _ (Forall_inv HQ) Hv)|].
      exact (IH (Forall_inv_tail HQ) _ _ _ _ _ Hr).
  Qed.

  Lemma conv_kind_frame k nm items props req ap oneo s0 te s1 :
    Forall Q items -> Forall (fun kv => Q (snd kv)) props -> OForall Q ap ->
    OForall (Forall (fun b => Q b /\ PropP Q b)) oneo ->
    conv_kind cls rid cv k nm items props req ap oneo s0 = Some (te, s1) -> frame s0 s1.
  Proof.
    intros HQi HQp HQa HQo0. destruct (arms_props Q oneo HQo0) as [HQo HQoB].
    destruct k as [| | | |mx mn pat|r|raws|deny| | |c|c|r| |tg|]; cbn [conv_kind];
      try (intro H; injection H as _ <-; apply frame_refl).
    11: { (* KOpt *)
      destruct oneo as [[|a [|b [|]]]|]; try discriminate. cbn [OForall] in HQoB.
      assert (Hgen : forall arm, Q arm ->
                match cv arm (inner_name nm) s0 with
                | Some (te0, sa) => let '(i, sb) := assign te0 sa in Some (DOption i, sb)
                | None => None end = Some (te, s1) -> frame s0 s1).
      { intros arm HQarm H. destruct (cv arm (inner_name nm) s0) as [[te0 sa]|] eqn:Hc; [|discriminate].
        destruct (assign te0 sa) as [i sb] eqn:Ha. injection H as _ <-.
        eapply frame_trans; [exact (Hcv _ HQarm _ _ _ _ Hc)|exact (assign_frame _ _ _ _ Ha)]. }
      destruct (nullish a); [exact (Hgen b (Forall_inv (Forall_inv_tail HQoB)))|exact (Hgen a (Forall_inv HQoB))]. }
    10: { destruct tg as [|tg|tg ct|]; (destruct (type_name cls nm); [|discriminate]);
            (destruct oneo as [bs|]; [|discriminate]); cbn [OForall] in HQo, HQoB.
          - destruct (conv_xbranches cv nm bs s0) as [[[rvs deny] sa]|] eqn:Hb; [|discriminate].
            destruct (mk_tagged cls u TagExternal rvs deny); [|discriminate]. intro H. injection H as _ <-.
            exact (conv_xbranches_frame _ _ HQo _ _ _ _ Hb).
          - destruct (conv_ibranches cls cv nm tg bs s0) as [[rvs sa]|] eqn:Hb; [|discriminate].
            destruct (mk_tagged cls u (TagInternal tg) rvs _); [|discriminate]. intro H. injection H as _ <-.
            exact (conv_ibranches_frame _ _ _ HQo _ _ _ Hb).
          - destruct (conv_abranches cv nm tg ct bs s0) as [[[rvs deny] sa]|] eqn:Hb; [|discriminate].
            destruct (mk_tagged cls u (TagAdjacent tg ct) rvs deny); [|discriminate]. intro H. injection H as _ <-.
            exact (conv_abranches_frame _ _ _ _ HQo _ _ _ _ Hb).
          - destruct (conv_ubranches cv u 0 bs s0) as [[[rvs deny] sa]|] eqn:Hb; [|discriminate].
            destruct (_ <=? _)%nat; [discriminate|].
            destruct (mk_tagged cls u TagUntagged rvs deny); [|discriminate]. intro H. injection H as _ <-.
            exact (conv_ubranches_frame _ _ HQoB _ _ _ _ _ Hb). }
    - destruct (assign DString _) as [sid sa] eqn:Ha. destruct (type_name cls nm); [|discriminate].
      intro H. injection H as _ <-. pose proof (assign_frame _ _ _ _ Ha) as F.
      destruct pat; [eapply frame_trans; [apply frame_set_regress|exact F]|exact F].
    - destruct (type_name cls nm); [|discriminate]. destruct (mk_enum cls u raws); [|discriminate].
      intro H. injection H as _ <-. apply frame_refl.
    - destruct (type_name cls nm); [|discriminate].
      destruct (conv_props cls cv u req props s0) as [[ps sa]|] eqn:Hp; [|discriminate].
      destruct (Sanitize.unique _); [|discriminate]. intro H. injection H as _ <-.
      exact (conv_props_frame _ _ _ HQp _ _ _ Hp).
    - destruct (assign DString s0) as [kid sk] eqn:Hk. pose proof (assign_frame _ _ _ _ Hk) as Fk.
      destruct ap as [vs|].
      + destruct (cv vs (value_name nm) sk) as [[tev sa]|] eqn:Hc; [|discriminate].
        destruct (assign tev sa) as [vid sb] eqn:Ha. intro H. injection H as _ <-.
        eapply frame_trans; [exact Fk|]. eapply frame_trans; [exact (Hcv _ HQa _ _ _ _ Hc)|exact (assign_frame _ _ _ _ Ha)].
      + destruct (assign DJsonValue (set_json sk)) as [vid sb] eqn:Ha. intro H. injection H as _ <-.
        eapply frame_trans; [exact Fk|]. eapply frame_trans; [apply frame_set_json|exact (assign_frame _ _ _ _ Ha)].
    - destruct (conv_items cv nm 0 items s0) as [[ts sa]|] eqn:Hi; [|discriminate].
      intro H. injection H as _ <-. exact (conv_items_frame _ _ HQi _ _ _ _ Hi).
    - destruct items as [|it [|? ?]]; try discriminate.
      destruct (cv it _ s0) as [[tei sa]|] eqn:Hc; [|discriminate].
      destruct (assign tei sa) as [i sb] eqn:Ha. intro H. injection H as _ <-.
      eapply frame_trans; [exact (Hcv _ (Forall_inv HQi) _ _ _ _ Hc)|exact (assign_frame _ _ _ _ Ha)].
    - destruct (assign DJsonValue (set_json s0)) as [i sb] eqn:Ha. intro H. injection H as _ <-.
      eapply frame_trans; [apply frame_set_json|exact (assign_frame _ _ _ _ Ha)].
    - destruct (rid r); [|discriminate]. intro H. injection H as _ <-. apply frame_refl.
    - intro H. injection H as _ <-. apply frame_set_json.
  Qed.

  Lemma conv_node_frame c nm items props req ap oneo s0 te s1 :
    Forall Q items -> Forall (fun kv => Q (snd kv)) props -> OForall Q ap ->
    OForall (Forall (fun b => Q b /\ PropP Q b)) oneo ->
    conv_node cls rid cv c nm items props req ap oneo s0 = Some (te, s1) -> frame s0 s1.
  Proof.
    intros HQi HQp HQa HQo.
    destruct c as [[[|] k]|]; cbn [conv_node]; [| |discriminate].
    - destruct (conv_kind cls rid cv k (inner_name nm) items props req ap oneo s0) as [[te' sa]|] eqn:Hk; [|discriminate].
      destruct (assign te' sa) as [i sb] eqn:Ha. intro H. injection H as _ <-.
      eapply frame_trans; [exact (conv_kind_frame _ _ _ _ _ _ _ _ _ _ HQi HQp HQa HQo Hk)|exact (assign_frame _ _ _ _ Ha)].
    - apply conv_kind_frame; assumption.
  Qed.
End NodeFrame.

Section SettingsProofs.
  Variable cls : Heck.CharClasses.
  Variable S : csettings.

  (* ---------------------------------------------------------------- conversions *)
  (* [C14F] whatever the position, the name handed down and the state: a schema the cache answers is
     converted to the native entry and NOTHING is generated (the state is unchanged) *)
  Theorem convert_hit rid s nm s0 d :
    cache_lookup S s = Some d -> conv_s cls S rid s nm s0 = Some (d, s0).
  Proof.
    destruct s as [b|ty fmt enum cst nv sv ik items ai mni mxi uq props req ap mnp mxp allo anyo oneo no ref dflt title];
      [discriminate|].
    intro H. cbn [conv_s union_of]. rewrite H. reflexivity.
  Qed.

  (* [C14F] the same for the non-null part of `type: [T, "null"]`: Option around the native entry *)
  Theorem convert_hit_nullable rid s ss nm s0 d :
    cache_lookup S s = None -> null_inner s = Some ss -> cache_lookup S ss = Some d ->
    conv_s cls S rid s nm s0 = (let '(i, s1) := assign d s0 in Some (DOption i, s1)).
  Proof.
    destruct s as [b|ty fmt enum cst nv sv ik items ai mni mxi uq props req ap mnp mxp allo anyo oneo no ref dflt title];
      [discriminate|].
    intros H0 H1 H2. cbn [conv_s union_of]. rewrite H0, H1, H2. reflexivity.
  Qed.

  (* [C14F] what the cache answers: the native entry of the FIRST configured conversion whose schema
     equals the searched one after removing annotations at every depth *)
  Theorem cache_lookup_spec s d :
    cache_lookup S s = Some d ->
    exists pre c ty impls post,
      cs_convert S = pre ++ (c, (ty, impls)) :: post /\
      schema_eqb (strip s) (strip c) = true /\
      (forall x, In x pre -> schema_eqb (strip s) (strip (fst x)) = false) /\
      d = DNative ty impls [].
  Proof.
    destruct s as [b|ty fmt enum cst nv sv ik items ai mni mxi uq props req ap mnp mxp allo anyo oneo no ref dflt title];
      [discriminate|].
    unfold cache_lookup. set (s := SObj _ _ _ _ _ _ _ _ _ _ _ _ _ _ _ _ _ _ _ _ _ _ _ _).
    generalize (cs_convert S). intro l. induction l as [|[c [t0 im]] l IH]; cbn [find]; [discriminate|].
    cbn [fst]. destruct (schema_eqb (strip s) (strip c)) eqn:E.
    - intro H. injection H as <-. exists [], c, t0, im, l. repeat split; try assumption. intros x [].
    - intro H. destruct (IH H) as (pre & c' & ty' & impls' & post & Hl & He & Hn & Hd).
      exists ((c, (t0, im)) :: pre), c', ty', impls', post. split; [cbn; rewrite Hl; reflexivity|].
      split; [exact He|]. split; [|exact Hd]. intros x [<-|Hx]; [exact E|exact (Hn x Hx)].
  Qed.

  (* [C14F] annotations of the searched schema (title, default - at any depth) do not matter *)
  Theorem cache_lookup_strip s s' :
    strip s = strip s' ->
    (match s, s' with SObj _ _ _ _ _ _ _ _ _ _ _ _ _ _ _ _ _ _ _ _ _ _ _ _, SObj _ _ _ _ _ _ _ _ _ _ _ _ _ _ _ _ _ _ _ _ _ _ _ _ => True | _, _ => False end) ->
    cache_lookup S s = cache_lookup S s'.
  Proof.
    destruct s, s'; try contradiction. intros H _. unfold cache_lookup. rewrite H. reflexivity.
  Qed.

  (* [C14F] every type position is converted by conv_s itself: the children of a node that the cache does
     not answer are handed to the same function *)
  Theorem conv_s_children rid ty fmt enum cst nv sv ik items ai mni mxi uq props req ap mnp mxp allo anyo oneo no ref dflt title nm s0 :
    let s := SObj ty fmt enum cst nv sv ik items ai mni mxi uq props req ap mnp mxp allo anyo oneo no ref dflt title in
    hit S s = false ->
    conv_s cls S rid s nm s0 =
    conv_node cls rid (conv_s cls S rid)
      (classify ty fmt enum cst nv sv ik items ai mni mxi uq props req ap mnp mxp allo anyo oneo no ref dflt title)
      nm items props req ap (union_of oneo anyo) s0.
  Proof.
    intros s H. unfold hit in H. subst s. cbn [conv_s].
    destruct (cache_lookup S _); [discriminate|].
    destruct (null_inner _) as [ss|]; [|reflexivity]. destruct (cache_lookup S ss); [discriminate|reflexivity].
  Qed.

  Lemma conv_s_frame rid : forall s nm s0 te s1, conv_s cls S rid s nm s0 = Some (te, s1) -> frame s0 s1.
  Proof.
    apply (schema_ind_p (fun s => forall nm s0 te s1, conv_s cls S rid s nm s0 = Some (te, s1) -> frame s0 s1)).
    - intros [|] nm s0 te s1 H; cbn [conv_s union_of] in H; [|discriminate]. injection H as _ <-. apply frame_set_json.
    - intros ty fmt enum cst nv sv ik items ai mni mxi uq props req ap mnp mxp allo anyo oneo no ref dflt title
             IHi IHp IHa IHo IHy nm s0 te s1 H.
      cbn [conv_s] in H. destruct (cache_lookup S _) as [d|]; [injection H as _ <-; apply frame_refl|].
      pose proof (union_IH _ oneo anyo IHo IHy) as IHu. change (OForall (Forall (fun b => (forall nm s0 te s1, conv_s cls S rid b nm s0 = Some (te, s1) -> frame s0 s1) /\ PropP (fun s => forall nm s0 te s1, conv_s cls S rid s nm s0 = Some (te, s1) -> frame s0 s1) b)) (union_of oneo anyo)) in IHu.
      destruct (match null_inner _ with Some ss => cache_lookup S ss | None => None end) as [d|].
      + destruct (assign d s0) as [i sa] eqn:Ha. injection H as _ <-. exact (assign_frame _ _ _ _ Ha).
      + revert H. apply (conv_node_frame cls rid (conv_s cls S rid)
                           (fun s => forall nm s0 te s1, conv_s cls S rid s nm s0 = Some (te, s1) -> frame s0 s1));
          [intros s HQ; exact HQ|assumption..].
  Qed.

  (* ---------------------------------------------------------------- replacements *)
  Definition store_at (t : id) (ent : details) (s2 : st) : st :=
    mkSt (st_next s2) (put t (mkEntry ent []) (st_ents s2))
         (match det_name ent with Some en => (en, t) :: st_names s2 | None => st_names s2 end)
         (st_types s2) (st_flags s2).

  Lemma store_at_lk t ent s2 i : lk (store_at t ent s2) i = if i =? t then Some (mkEntry ent []) else lk s2 i.
  Proof. unfold lk, store_at. cbn [st_ents]. apply lookup_put. Qed.

  Lemma conv_def_s_keeps rid d sch t s0 s1 i e :
    conv_def_s cls S rid d sch t s0 = Some s1 -> lk s0 i = Some e -> i <> t -> i < st_next s0 ->
    lk s1 i = Some e /\ st_next s0 <= st_next s1.
  Proof.
    unfold conv_def_s. destruct (conv_s cls S rid sch (NRequired d) s0) as [[te sa]|] eqn:Hc; [|discriminate].
    pose proof (conv_s_frame rid _ _ _ _ _ Hc) as [Fn Fl].
    intros H Hl Hne Hlt.
    assert (Hstore : forall ent s2, frame sa s2 ->
              Some (store_at t ent s2) = Some s1 -> lk s1 i = Some e /\ st_next s0 <= st_next s1).
    { intros ent s2 [Gn Gl] Hs. injection Hs as <-. rewrite store_at_lk.
      apply N.eqb_neq in Hne. rewrite Hne. rewrite Gl by lia. rewrite Fl by exact Hlt.
      split; [exact Hl|cbn [store_at st_next]; lia]. }
    destruct te; try (destruct (assign _ sa) as [j s2] eqn:Ha; exact (Hstore _ _ (assign_frame _ _ _ _ Ha) H));
      try exact (Hstore _ _ (frame_refl sa) H).
    destruct (negb _ || _); [exact (Hstore _ _ (frame_refl sa) H)|].
    destruct (assign _ sa) as [j s2] eqn:Ha. exact (Hstore _ _ (assign_frame _ _ _ _ Ha) H).
  Qed.

  Lemma conv_defs_s_keeps rid : forall ds t0 s0 sf i e,
    conv_defs_s cls S rid ds t0 s0 = Some sf -> lk s0 i = Some e -> i < t0 -> i < st_next s0 ->
    lk sf i = Some e.
  Proof.
    induction ds as [|[d sch] ds IH]; intros t0 s0 sf i e H Hl Ht Hn; cbn [conv_defs_s] in H.
    - injection H as <-. exact Hl.
    - destruct (replaced cls S d) as [nat|].
      + apply (IH _ _ _ i e H); [|lia|exact Hn].
        unfold lk. cbn [st_ents]. rewrite lookup_put.
        destruct (i =? t0) eqn:E; [apply N.eqb_eq in E; lia|exact Hl].
      + destruct (conv_def_s cls S rid d sch t0 s0) as [s1|] eqn:Hd; [|discriminate].
        destruct (conv_def_s_keeps rid _ _ _ _ _ i e Hd Hl ltac:(lia) Hn) as [Hl1 Hn1].
        apply (IH _ _ _ i e H Hl1); lia.
  Qed.

  Lemma conv_defs_s_next rid : forall ds t0 s0 sf,
    conv_defs_s cls S rid ds t0 s0 = Some sf -> st_next s0 <= st_next sf.
  Proof.
    induction ds as [|[d sch] ds IH]; intros t0 s0 sf H; cbn [conv_defs_s] in H.
    - injection H as <-. lia.
    - destruct (replaced cls S d) as [nat|].
      + apply IH in H. cbn [st_next] in H. exact H.
      + destruct (conv_def_s cls S rid d sch t0 s0) as [s1|] eqn:Hd; [|discriminate].
        apply IH in H. unfold conv_def_s in Hd.
        destruct (conv_s cls S rid sch (NRequired d) s0) as [[te sa]|] eqn:Hc; [|discriminate].
        pose proof (conv_s_frame rid _ _ _ _ _ Hc) as [Fn _].
        assert (Hs : forall ent s2, frame sa s2 -> Some (store_at t0 ent s2) = Some s1 -> st_next s0 <= st_next s1).
        { intros ent s2 [Gn _] Hs. injection Hs as <-. cbn [store_at st_next]. lia. }
        assert (st_next s0 <= st_next s1); [|lia].
        destruct te; try (destruct (assign _ sa) as [j s2] eqn:Ha; exact (Hs _ _ (assign_frame _ _ _ _ Ha) Hd));
          try exact (Hs _ _ (frame_refl sa) Hd).
        destruct (negb _ || _); [exact (Hs _ _ (frame_refl sa) Hd)|].
        destruct (assign _ sa) as [j s2] eqn:Ha. exact (Hs _ _ (assign_frame _ _ _ _ Ha) Hd).
  Qed.

  Lemma conv_defs_s_app rid : forall pre rest t0 s0 sf,
    conv_defs_s cls S rid (pre ++ rest) t0 s0 = Some sf ->
    exists sm, conv_defs_s cls S rid pre t0 s0 = Some sm /\
               conv_defs_s cls S rid rest (t0 + N.of_nat (length pre)) sm = Some sf.
  Proof.
    induction pre as [|[d sch] pre IH]; intros rest t0 s0 sf H.
    - exists s0. split; [reflexivity|]. cbn [length]. replace (t0 + N.of_nat 0) with t0 by lia. exact H.
    - cbn [app conv_defs_s] in H |- *. destruct (replaced cls S d) as [nat|].
      + destruct (IH _ _ _ _ H) as (sm & H1 & H2). exists sm. split; [exact H1|].
        cbn [length]. replace (t0 + N.of_nat (Datatypes.S (length pre))) with (t0 + 1 + N.of_nat (length pre)) by lia. exact H2.
      + destruct (conv_def_s cls S rid d sch t0 s0) as [s1|]; [|discriminate].
        destruct (IH _ _ _ _ H) as (sm & H1 & H2). exists sm. split; [exact H1|].
        cbn [length]. replace (t0 + N.of_nat (Datatypes.S (length pre))) with (t0 + 1 + N.of_nat (length pre)) by lia. exact H2.
  Qed.

  (* ---------------------------------------------------------------- patches *)
  Lemma lookup_map {X} (f : X -> X) i (l : list (id * X)) :
    lookup_id i (map (fun ie => (fst ie, f (snd ie))) l) = option_map f (lookup_id i l).
  Proof.
    induction l as [|[j x] l IH]; cbn [map lookup_id fst snd]; [reflexivity|].
    destruct (i =? j); [reflexivity|exact IH].
  Qed.

  (* [C14F] the patch pass keeps every id and patches every entry *)
  Theorem apply_patches_get T i : get (apply_patches S T) i = option_map (patch_entry S) (get T i).
  Proof. unfold get, apply_patches. cbn [sp_entries]. apply lookup_map. Qed.

  Definition rename_det (n' : ustring) (d : details) : details :=
    match d with
    | DEnum _ dv tag vs deny bes => DEnum n' dv tag vs deny bes
    | DStruct _ dv ps deny => DStruct n' dv ps deny
    | DNewtype _ dv t c => DNewtype n' dv t c
    | _ => d
    end.

  (* [C14F] a named entry gets the patched name and the patch's derives; everything else - members,
     variants, inner ids, constraints - is untouched; an unnamed entry is untouched *)
  Theorem patch_entry_spec e :
    match det_name (e_det e) with
    | Some n => patch_entry S e = mkEntry (rename_det (fst (type_patch S n)) (e_det e)) (snd (type_patch S n))
    | None => patch_entry S e = e
    end.
  Proof.
    unfold patch_entry. destruct e as [d ders]. cbn [e_det].
    destruct d; cbn [det_name rename_det]; try reflexivity; destruct (type_patch S name); reflexivity.
  Qed.

  Lemma ins_ustr_In x y l : In y (ins_ustr x l) <-> y = x \/ In y l.
  Proof.
    induction l as [|z l IH]; cbn [ins_ustr In]; [intuition congruence|].
    destruct (ustr_ltb x z); [cbn [In]; intuition congruence|]. destruct (ustr_eqb x z) eqn:E.
    - apply ustr_eqb_eq in E. subst. cbn [In]. intuition congruence.
    - cbn [In]. rewrite IH. intuition congruence.
  Qed.

  Lemma sort_set_In y l : In y (sort_set l) <-> In y l.
  Proof.
    induction l as [|x l IH]; cbn [sort_set fold_right In]; [tauto|].
    rewrite ins_ustr_In. fold (sort_set l). rewrite IH. intuition congruence.
  Qed.

  (* [C14F] util::type_patch *)
  Theorem type_patch_spec n :
    match assoc n (cs_patch S) with
    | Some (rn, ds) => fst (type_patch S n) = match rn with Some r => r | None => n end /\
                       forall x, In x (snd (type_patch S n)) <-> In x ds
    | None => type_patch S n = (n, [])
    end.
  Proof.
    unfold type_patch. destruct (assoc n (cs_patch S)) as [[rn ds]|]; [|reflexivity].
    cbn [fst snd]. split; [reflexivity|]. intro x. apply sort_set_In.
  Qed.

  Lemma convert_doc_s_inv D T :
    convert_doc_s cls S D = Some T ->
    exists s, conv_defs_s cls S (ref_id D) D 1 (mkSt (1 + N.of_nat (length D)) [] [] [] (mkFlags false false)) = Some s /\
              T = apply_patches S (space_of s) /\ NoDup (entry_names T).
  Proof.
    unfold convert_doc_s. destruct (conv_defs_s _ _ _ _ _ _) as [s|]; [|discriminate].
    destruct (Sanitize.unique _) eqn:E; [|discriminate]. intro H. injection H as <-.
    exists s. split; [reflexivity|]. split; [reflexivity|]. apply unique_true_iff. exact E.
  Qed.

  (* [C14F] replacement: the type of a replaced definition IS the native entry, whatever its schema, its
     title, the rest of the document and the other settings *)
  Theorem replace_entry D T pre d sch post nat :
    convert_doc_s cls S D = Some T -> D = pre ++ (d, sch) :: post -> replaced cls S d = Some nat ->
    get T (N.of_nat (length pre) + 1) = Some (mkEntry nat []).
  Proof.
    intros Hc HD Hr. destruct (convert_doc_s_inv D T Hc) as (sf & Hcd & -> & _).
    rewrite apply_patches_get. rewrite HD in Hcd at 2.
    destruct (conv_defs_s_app _ _ _ _ _ _ Hcd) as (sm & Hpre & Hrest).
    cbn [conv_defs_s] in Hrest. rewrite Hr in Hrest.
    pose proof (conv_defs_s_next _ _ _ _ _ Hpre) as Hn. cbn [st_next] in Hn.
    assert (Hlen : N.of_nat (length pre) + 1 <= N.of_nat (length D)).
    { rewrite HD, app_length. cbn [length]. lia. }
    set (t := 1 + N.of_nat (length pre)) in *.
    assert (Hl : lk sf t = Some (mkEntry nat [])).
    { apply (conv_defs_s_keeps _ _ _ _ _ t _ Hrest); [|lia|cbn [st_next]; unfold t; lia].
      unfold lk. cbn [st_ents]. rewrite lookup_put, N.eqb_refl. reflexivity. }
    replace (N.of_nat (length pre) + 1) with t by (unfold t; lia).
    change (get (space_of sf) t) with (lk sf t). rewrite Hl. cbn [option_map].
    unfold replaced in Hr. destruct (assoc _ (cs_replace S)) as [[ty im]|]; [|discriminate].
    injection Hr as <-. reflexivity.
  Qed.

  (* [C14F] ... and its schema is never looked at: nothing is generated from it *)
  Theorem replace_ignores_schema rid d sch sch' : replaced cls S d <> None -> forall pre post t s0,
    conv_defs_s cls S rid (pre ++ (d, sch) :: post) t s0 = conv_defs_s cls S rid (pre ++ (d, sch') :: post) t s0.
  Proof.
    intros Hr. induction pre as [|[d0 s0'] pre IH]; intros post t s0; cbn [app conv_defs_s].
    - destruct (replaced cls S d); [reflexivity|congruence].
    - destruct (replaced cls S d0); [apply IH|]. destruct (conv_def_s cls S rid d0 s0' t s0); [apply IH|reflexivity].
  Qed.

  (* [C14F] use sites: a reference to a definition is converted to the id of that definition - under
     replacement, the id of the native entry *)
  Theorem ref_use_site rid ty fmt enum cst nv sv ik items ai mni mxi uq props req ap mnp mxp allo anyo oneo no ref dflt title r nm s0 :
    let s := SObj ty fmt enum cst nv sv ik items ai mni mxi uq props req ap mnp mxp allo anyo oneo no ref dflt title in
    hit S s = false ->
    classify ty fmt enum cst nv sv ik items ai mni mxi uq props req ap mnp mxp allo anyo oneo no ref dflt title = Some (false, KRef r) ->
    conv_s cls S rid s nm s0 = match rid r with Some i => Some (DReference i, s0) | None => None end.
  Proof.
    intros s Hh Hc. subst s. rewrite (conv_s_children rid _ _ _ _ _ _ _ _ _ _ _ _ _ _ _ _ _ _ _ _ _ _ _ _ nm s0 Hh).
    rewrite Hc. reflexivity.
  Qed.

  (* [C14F] patches: in the output, the entry at every id is the patched entry of the unpatched run;
     the old name of a renamed type occurs only if ANOTHER type is renamed to it *)
  Theorem patch_old_name_gone D T n r ds :
    convert_doc_s cls S D = Some T -> assoc n (cs_patch S) = Some (Some r, ds) -> r <> n ->
    forall i e, get T i = Some e -> det_name (e_det e) = Some n ->
    exists m, m <> n /\ fst (type_patch S m) = n.
  Proof.
    intros Hc Hp Hrn i e Hg Hn. destruct (convert_doc_s_inv D T Hc) as (sf & _ & -> & _).
    rewrite apply_patches_get in Hg. destruct (get (space_of sf) i) as [e0|]; [|discriminate].
    cbn [option_map] in Hg. injection Hg as <-.
    pose proof (patch_entry_spec e0) as Hs. destruct (det_name (e_det e0)) as [m|] eqn:Hm.
    - rewrite Hs in Hn. cbn [e_det] in Hn. exists m. split.
      + intro E. subst m. pose proof (type_patch_spec n) as Ht. rewrite Hp in Ht. destruct Ht as [Ht _].
        destruct (e_det e0); try discriminate Hm; cbn [rename_det det_name] in Hn; injection Hn as Hn; congruence.
      + destruct (e_det e0); try discriminate Hm; cbn [rename_det det_name] in Hn; injection Hn as Hn; exact Hn.
    - rewrite Hs in Hn. congruence.
  Qed.
End SettingsProofs.

(* ------------------------------------------------------------------ without settings: the verified converter *)
Section NodeExt.
  Variable cls : Heck.CharClasses.
  Variable rid : ustring -> option id.
  Variables cv1 cv2 : schema -> name -> st -> option (details * st).
  Variable Q : schema -> Prop.
  Hypothesis Hcv : forall s, Q s -> forall nm s0, cv1 s nm s0 = cv2 s nm s0.

  Lemma conv_prop_ext base req k s' s0 : Q s' ->
    conv_prop cls cv1 base req k s' s0 = conv_prop cls cv2 base req k s' s0.
  Proof. intro HQ. unfold conv_prop. rewrite (Hcv _ HQ). reflexivity. Qed.

  Lemma conv_props_ext base req : forall props, Forall (fun kv => Q (snd kv)) props -> forall s0,
    conv_props cls cv1 base req props s0 = conv_props cls cv2 base req props s0.
  Proof.
    induction props as [|[k s'] props IH]; intros HQ s0; cbn [conv_props]; [reflexivity|].
    rewrite (conv_prop_ext base req k s' s0 (Forall_inv HQ)).
    destruct (conv_prop cls cv2 base req k s' s0) as [[p sa]|]; [|reflexivity].
    rewrite (IH (Forall_inv_tail HQ)). reflexivity.
  Qed.

  Lemma conv_items_ext nm : forall l, Forall Q l -> forall i s0,
    conv_items cv1 nm i l s0 = conv_items cv2 nm i l s0.
  Proof.
    induction l as [|it l IH]; intros HQ i s0; cbn [conv_items]; [reflexivity|].
    rewrite (Hcv _ (Forall_inv HQ)). destruct (cv2 it _ s0) as [[te sa]|]; [|reflexivity].
    destruct (assign te sa) as [t sb]. rewrite (IH (Forall_inv_tail HQ)). reflexivity.
  Qed.

  Lemma conv_xbranches_ext nm : forall bs, Forall (PropP Q) bs -> forall s0,
    conv_xbranches cv1 nm bs s0 = conv_xbranches cv2 nm bs s0.
  Proof.
    induction bs as [|b r IH]; intros HQ s0; cbn [conv_xbranches]; [reflexivity|].
    destruct b as [bb|bty bfmt benum bcst bnv bsv bik bitems bai bmni bmxi buq bprops breq bap bmnp bmxp ballo banyo boneo bno bref bdflt btitle];
      [reflexivity|].
    destruct bprops as [|[v sc] [|]].
    - destruct (xsimple _); [|reflexivity]. rewrite (IH (Forall_inv_tail HQ)). reflexivity.
    - unfold conv_xvar. rewrite (Hcv _ (Forall_inv HQ v sc (or_introl eq_refl))).
      match goal with |- match match ?x with _ => _ end with _ => _ end = _ => destruct x as [[[vd deny] sa]|] end;
        [|reflexivity].
      rewrite (IH (Forall_inv_tail HQ)). reflexivity.
    - destruct (xsimple _); [|reflexivity]. rewrite (IH (Forall_inv_tail HQ)). reflexivity.
  Qed.

  Lemma conv_avariant_ext nm tg ct b s0 : PropP Q b ->
    conv_avariant cv1 nm tg ct b s0 = conv_avariant cv2 nm tg ct b s0.
  Proof.
    intros HQ. destruct b as [bb|bty bfmt benum bcst bnv bsv bik bitems bai bmni bmxi buq bprops breq bap bmnp bmxp ballo banyo boneo bno bref bdflt btitle];
      [reflexivity|]. cbn [conv_avariant].
    destruct bprops as [|[k1 s1'] [|[k2 s2'] [|]]]; try reflexivity.
    unfold conv_xvar.
    destruct (ustr_eqb k1 tg).
    - destruct (cstr s1'); [|reflexivity]. rewrite (Hcv _ (HQ k2 s2' (or_intror (or_introl eq_refl)))). reflexivity.
    - destruct (cstr s2'); [|reflexivity]. rewrite (Hcv _ (HQ k1 s1' (or_introl eq_refl))). reflexivity.
  Qed.

  Lemma conv_abranches_ext nm tg ct : forall bs, Forall (PropP Q) bs -> forall s0,
    conv_abranches cv1 nm tg ct bs s0 = conv_abranches cv2 nm tg ct bs s0.
  Proof.
    induction bs as [|b r IH]; intros HQ s0; cbn [conv_abranches]; [reflexivity|].
    rewrite (conv_avariant_ext nm tg ct b s0 (Forall_inv HQ)).
    destruct (conv_avariant cv2 nm tg ct b s0) as [[[[v vd] d1] sa]|]; [|reflexivity].
    rewrite (IH (Forall_inv_tail HQ)). reflexivity.
  Qed.

  Lemma conv_props_skip_ext tg base req : forall props, Forall (fun kv => Q (snd kv)) props -> forall s0,
    conv_props_skip cls cv1 tg base req props s0 = conv_props_skip cls cv2 tg base req props s0.
  Proof.
    induction props as [|[k s'] props IH]; intros HQ s0; cbn [conv_props_skip]; [reflexivity|].
    destruct (ustr_eqb k tg); [exact (IH (Forall_inv_tail HQ) s0)|].
    destruct base as [b0|]; [|reflexivity].
    rewrite (conv_prop_ext b0 req k s' s0 (Forall_inv HQ)).
    destruct (conv_prop cls cv2 b0 req k s' s0) as [[p sa]|]; [|reflexivity].
    rewrite (IH (Forall_inv_tail HQ)). reflexivity.
  Qed.

  Lemma conv_ivariant_ext nm tg b s0 : PropP Q b ->
    conv_ivariant cls cv1 nm tg b s0 = conv_ivariant cls cv2 nm tg b s0.
  Proof.
    intros HQ. assert (HF : Forall (fun kv => Q (snd kv)) (sch_props b)).
    { apply Forall_forall. intros [k sc] Hin. exact (HQ k sc Hin). }
    destruct b as [bb|bty bfmt benum bcst bnv bsv bik bitems bai bmni bmxi buq bprops breq bap bmnp bmxp ballo banyo boneo bno bref bdflt btitle];
      [reflexivity|]. cbn [conv_ivariant]. cbn [sch_props] in HF.
    rewrite (conv_props_skip_ext tg (name_opt nm) breq bprops HF s0). reflexivity.
  Qed.

  Lemma conv_ibranches_ext nm tg : forall bs, Forall (PropP Q) bs -> forall s0,
    conv_ibranches cls cv1 nm tg bs s0 = conv_ibranches cls cv2 nm tg bs s0.
  Proof.
    induction bs as [|b r IH]; intros HQ s0; cbn [conv_ibranches]; [reflexivity|].
    rewrite (conv_ivariant_ext nm tg b s0 (Forall_inv HQ)).
    destruct (conv_ivariant cls cv2 nm tg b s0) as [[[v vd] sa]|]; [|reflexivity].
    rewrite (IH (Forall_inv_tail HQ)). reflexivity.
  Qed.

  Lemma conv_ubranches_ext n : forall bs, Forall Q bs -> forall i s0,
    conv_ubranches cv1 n i bs s0 = conv_ubranches cv2 n i bs s0.
  Proof.
    induction bs as [|b r IH]; intros HQ i s0; cbn [conv_ubranches]; [reflexivity|].
    unfold conv_xvar. rewrite (Hcv _ (Forall_inv HQ)).
    destruct (cv2 b _ s0) as [[te sa]|]; [|reflexivity].
    destruct te; try (destruct (assign _ sa) as [t9 s9]); rewrite (IH (Forall_inv_tail HQ)); reflexivity.
  Qed.

  Lemma conv_kind_ext k nm items props req ap oneo s0 :
    Forall Q items -> Forall (fun kv => Q (snd kv)) props -> OForall Q ap ->
    OForall (Forall (fun b => Q b /\ PropP Q b)) oneo ->
    conv_kind cls rid cv1 k nm items props req ap oneo s0 = conv_kind cls rid cv2 k nm items props req ap oneo s0.
  Proof.
    intros HQi HQp HQa HQo0. destruct (arms_props Q oneo HQo0) as [HQo HQoB].
    destruct k; cbn [conv_kind]; try reflexivity.
    6: { (* KOpt *)
      destruct oneo as [[|a [|b [|]]]|]; try reflexivity. cbn [OForall] in HQoB.
      destruct (nullish a); [rewrite (Hcv _ (Forall_inv (Forall_inv_tail HQoB)))|rewrite (Hcv _ (Forall_inv HQoB))]; reflexivity. }
    5: { destruct tg as [|tg|tg ct|]; (destruct (type_name cls nm); [|reflexivity]);
           (destruct oneo as [bs|]; [|reflexivity]); cbn [OForall] in HQo, HQoB.
         - rewrite (conv_xbranches_ext _ _ HQo). reflexivity.
         - rewrite (conv_ibranches_ext _ _ _ HQo). reflexivity.
         - rewrite (conv_abranches_ext _ _ _ _ HQo). reflexivity.
         - rewrite (conv_ubranches_ext _ _ HQoB). reflexivity. }
    - destruct (type_name cls nm); [|reflexivity]. rewrite (conv_props_ext _ _ _ HQp). reflexivity.
    - destruct (assign DString s0). destruct ap as [vs|]; [|reflexivity]. rewrite (Hcv _ HQa). reflexivity.
    - rewrite (conv_items_ext _ _ HQi). reflexivity.
    - destruct items as [|it [|? ?]]; try reflexivity. rewrite (Hcv _ (Forall_inv HQi)). reflexivity.
  Qed.

  Lemma conv_node_ext c nm items props req ap oneo s0 :
    Forall Q items -> Forall (fun kv => Q (snd kv)) props -> OForall Q ap ->
    OForall (Forall (fun b => Q b /\ PropP Q b)) oneo ->
    conv_node cls rid cv1 c nm items props req ap oneo s0 = conv_node cls rid cv2 c nm items props req ap oneo s0.
  Proof.
    intros HQi HQp HQa HQo. destruct c as [[[|] k]|]; cbn [conv_node]; [| |reflexivity];
      rewrite (conv_kind_ext _ _ _ _ _ _ _ _ HQi HQp HQa HQo); reflexivity.
  Qed.
End NodeExt.

Lemma cache_lookup_none s : cache_lookup no_settings s = None.
Proof. destruct s; reflexivity. Qed.

(* [C14F] with no settings the model is the verified converter of Algo/Convert.v, at every schema *)
Theorem conv_s_no_settings cls rid : forall s nm s0, conv_s cls no_settings rid s nm s0 = conv cls rid s nm s0.
Proof.
  apply (schema_ind_p (fun s => forall nm s0, conv_s cls no_settings rid s nm s0 = conv cls rid s nm s0)).
  - intros [|] nm s0; reflexivity.
  - intros ty fmt enum cst nv sv ik items ai mni mxi uq props req ap mnp mxp allo anyo oneo no ref dflt title
           IHi IHp IHa IHo IHy nm s0.
    cbn [conv_s conv]. rewrite cache_lookup_none.
    pose proof (union_IH _ oneo anyo IHo IHy) as IHu. change (OForall (Forall (fun b => (forall nm s0, conv_s cls no_settings rid b nm s0 = conv cls rid b nm s0) /\ PropP (fun s => forall nm s0, conv_s cls no_settings rid s nm s0 = conv cls rid s nm s0) b)) (union_of oneo anyo)) in IHu.
    assert (E : match null_inner (SObj ty fmt enum cst nv sv ik items ai mni mxi uq props req ap mnp mxp allo anyo oneo no ref dflt title)
                with Some ss => cache_lookup no_settings ss | None => None end = None).
    { destruct (null_inner _); [apply cache_lookup_none|reflexivity]. }
    rewrite E.
    apply (conv_node_ext cls rid _ _ (fun s => forall nm s0, conv_s cls no_settings rid s nm s0 = conv cls rid s nm s0));
      [intros s HQ; exact HQ|assumption..].
Qed.
